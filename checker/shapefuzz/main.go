// shapefuzz rewrites a scratch copy of the repository with one mechanical, behaviour-preserving transformation
// applied at every eligible site (or at a pseudo-random subset), so that the checks can be run on code whose
// behaviour is the same but whose shape is not. It is a test tool for the checker (false-alarm search), not a check.
//
//	shapefuzz -dir <copy of /repo> -t <transform> [-mod N -rem R]   (site k is rewritten when k % N == R)
//
// Transforms: invert-if, if-to-switch, switch-to-if, tagswitch-to-if, range-to-index, incdec, flip-cmp, define-to-var,
// else-after-return, hoist-call-args
package main

import (
	"bytes"
	"flag"
	"fmt"
	"go/ast"
	"go/format"
	"go/token"
	"go/types"
	"os"
	"strings"

	"golang.org/x/tools/go/ast/astutil"
	"golang.org/x/tools/go/packages"
)

var (
	dir  = flag.String("dir", "", "scratch copy of the repository")
	tr   = flag.String("t", "", "transformation")
	mod  = flag.Int("mod", 1, "rewrite site k when k % mod == rem")
	rem  = flag.Int("rem", 0, "")
	only = flag.String("only", "", "only files whose path contains this")
)

var site, done int
var allPkgs []*packages.Package

func pick() bool {
	k := site
	site++
	if k%*mod == *rem {
		done++
		return true
	}
	return false
}

func main() {
	flag.Parse()
	cfg := &packages.Config{Mode: packages.NeedName | packages.NeedFiles | packages.NeedSyntax | packages.NeedTypes | packages.NeedTypesInfo | packages.NeedCompiledGoFiles,
		Dir: *dir, Env: append(os.Environ(), "GOFLAGS=-mod=mod", "GOPROXY=off", "GOWORK=off")}
	pkgs, err := packages.Load(cfg, "./...")
	if err != nil || len(pkgs) == 0 {
		fmt.Fprintln(os.Stderr, "load:", err)
		os.Exit(2)
	}
	files := 0
	allPkgs = pkgs
	for _, p := range pkgs {
		if len(p.Errors) > 0 {
			fmt.Fprintln(os.Stderr, "type errors:", p.Errors)
			os.Exit(2)
		}
		for i, f := range p.Syntax {
			name := p.CompiledGoFiles[i]
			if strings.HasSuffix(name, "_test.go") || !strings.HasPrefix(name, *dir) || (*only != "" && !strings.Contains(name, *only)) {
				continue
			}
			if isGenerated(f) {
				continue
			}
			before := done
			rewrite(p, f)
			if done == before {
				continue
			}
			var buf bytes.Buffer
			if err := format.Node(&buf, p.Fset, f); err != nil {
				fmt.Fprintln(os.Stderr, "format:", name, err)
				os.Exit(2)
			}
			if err := os.WriteFile(name, buf.Bytes(), 0o644); err != nil {
				fmt.Fprintln(os.Stderr, err)
				os.Exit(2)
			}
			files++
		}
	}
	fmt.Printf("transform=%s sites=%d rewritten=%d files=%d\n", *tr, site, done, files)
}

func isGenerated(f *ast.File) bool {
	for _, cg := range f.Comments {
		for _, c := range cg.List {
			if strings.Contains(c.Text, "Code generated") || strings.Contains(c.Text, "DO NOT EDIT") {
				return true
			}
		}
	}
	return false
}

// hasBreak: an unlabeled break that would bind to the construct being introduced or removed.
func hasFreeBreak(n ast.Node) bool {
	found := false
	var walk func(n ast.Node, inner bool)
	walk = func(n ast.Node, inner bool) {
		ast.Inspect(n, func(m ast.Node) bool {
			if found {
				return false
			}
			switch x := m.(type) {
			case *ast.ForStmt, *ast.RangeStmt, *ast.SwitchStmt, *ast.TypeSwitchStmt, *ast.SelectStmt:
				if m != n {
					return false // a break inside binds there
				}
			case *ast.FuncLit:
				return false
			case *ast.BranchStmt:
				if x.Tok == token.BREAK && x.Label == nil {
					found = true
				}
				if x.Tok == token.FALLTHROUGH {
					found = true
				}
			}
			return true
		})
	}
	walk(n, false)
	return found
}

func pure(info *types.Info, e ast.Expr) bool {
	ok := true
	ast.Inspect(e, func(n ast.Node) bool {
		switch x := n.(type) {
		case *ast.CallExpr:
			// conversions and len/cap are fine
			if tv, has := info.Types[x.Fun]; has && tv.IsType() {
				return true
			}
			if id, isID := x.Fun.(*ast.Ident); isID && (id.Name == "len" || id.Name == "cap") {
				if _, b := info.Uses[id].(*types.Builtin); b {
					return true
				}
			}
			ok = false
		case *ast.UnaryExpr:
			if x.Op == token.ARROW {
				ok = false
			}
		case *ast.IndexExpr, *ast.SliceExpr, *ast.StarExpr, *ast.TypeAssertExpr:
			ok = false // may panic: evaluation count/order matters
		}
		return ok
	})
	return ok
}

func not(e ast.Expr) ast.Expr {
	switch x := e.(type) {
	case *ast.UnaryExpr:
		if x.Op == token.NOT {
			if p, ok := x.X.(*ast.ParenExpr); ok {
				return p.X
			}
			return x.X
		}
	case *ast.BinaryExpr:
		inv := map[token.Token]token.Token{token.EQL: token.NEQ, token.NEQ: token.EQL}
		if t, ok := inv[x.Op]; ok {
			return &ast.BinaryExpr{X: x.X, Op: t, Y: x.Y}
		}
	case *ast.Ident, *ast.CallExpr, *ast.SelectorExpr:
		return &ast.UnaryExpr{Op: token.NOT, X: e}
	}
	return &ast.UnaryExpr{Op: token.NOT, X: &ast.ParenExpr{X: e}}
}

func declaresInBlockUsedLater(b *ast.BlockStmt) bool { return false }

func endsInJump(b *ast.BlockStmt) bool {
	if len(b.List) == 0 {
		return false
	}
	switch x := b.List[len(b.List)-1].(type) {
	case *ast.ReturnStmt:
		return true
	case *ast.BranchStmt:
		return x.Tok == token.CONTINUE || x.Tok == token.BREAK || x.Tok == token.GOTO
	case *ast.ExprStmt:
		if c, ok := x.X.(*ast.CallExpr); ok {
			if id, ok := c.Fun.(*ast.Ident); ok && id.Name == "panic" {
				return true
			}
		}
	}
	return false
}

func rewrite(p *packages.Package, f *ast.File) {
	info := p.TypesInfo
	switch *tr {
	case "invert-if":
		astutil.Apply(f, nil, func(c *astutil.Cursor) bool {
			s, ok := c.Node().(*ast.IfStmt)
			if !ok || s.Else == nil {
				return true
			}
			eb, ok := s.Else.(*ast.BlockStmt)
			if !ok {
				return true
			}
			if !pick() {
				return true
			}
			s.Cond, s.Body, s.Else = not(s.Cond), eb, s.Body
			return true
		})
	case "else-after-return":
		// if c { …; return } ; rest   →   if c { …; return } else { rest }   (only when rest declares nothing used after: we wrap the
		// remainder of the enclosing block, which is always its tail, so scoping is preserved)
		astutil.Apply(f, nil, func(c *astutil.Cursor) bool {
			b, ok := c.Node().(*ast.BlockStmt)
			if !ok {
				return true
			}
			// only function bodies' and loop bodies' statement lists; labels make it unsafe
			for i, st := range b.List {
				s, ok := st.(*ast.IfStmt)
				if !ok || s.Else != nil || !endsInJump(s.Body) || i == len(b.List)-1 {
					continue
				}
				rest := b.List[i+1:]
				bad := false
				for _, r := range rest {
					if _, ok := r.(*ast.LabeledStmt); ok {
						bad = true
					}
				}
				// the enclosing function must still end in a terminating statement: only do it when the rest ends in a jump as well
				// `a, err := f()` re-uses an `err` of the same scope and declares a new one in a nested block: moving such a statement
				// into a block changes which variable later code (a deferred closure, say) refers to
				for _, r := range rest {
					if as, ok := r.(*ast.AssignStmt); ok && as.Tok == token.DEFINE {
						for _, l := range as.Lhs {
							if id, ok := l.(*ast.Ident); ok && id.Name != "_" && info.Defs[id] == nil {
								bad = true
							}
						}
					}
				}
				if bad || !endsInJump(&ast.BlockStmt{List: rest}) {
					continue
				}
				if !pick() {
					continue
				}
				s.Else = &ast.BlockStmt{List: append([]ast.Stmt{}, rest...)}
				b.List = b.List[:i+1]
				break
			}
			return true
		})
	case "if-to-switch":
		astutil.Apply(f, nil, func(c *astutil.Cursor) bool {
			s, ok := c.Node().(*ast.IfStmt)
			if !ok || s.Init != nil || s.Else == nil {
				return true
			}
			if _, isElse := c.Parent().(*ast.IfStmt); isElse && c.Name() == "Else" {
				return true
			}
			// collect the chain
			var clauses []ast.Stmt
			cur := s
			for {
				if cur.Init != nil || hasFreeBreak(cur.Body) {
					return true
				}
				clauses = append(clauses, &ast.CaseClause{List: []ast.Expr{cur.Cond}, Body: cur.Body.List})
				if cur.Else == nil {
					break
				}
				if nb, ok := cur.Else.(*ast.BlockStmt); ok {
					if hasFreeBreak(nb) {
						return true
					}
					clauses = append(clauses, &ast.CaseClause{List: nil, Body: nb.List})
					break
				}
				cur = cur.Else.(*ast.IfStmt)
			}
			if !pick() {
				return true
			}
			c.Replace(&ast.SwitchStmt{Body: &ast.BlockStmt{List: clauses}})
			return true
		})
	case "switch-to-if", "tagswitch-to-if":
		astutil.Apply(f, nil, func(c *astutil.Cursor) bool {
			s, ok := c.Node().(*ast.SwitchStmt)
			if !ok || s.Init != nil || len(s.Body.List) == 0 {
				return true
			}
			if _, lab := c.Parent().(*ast.LabeledStmt); lab {
				return true
			}
			tagged := s.Tag != nil
			if tagged != (*tr == "tagswitch-to-if") {
				return true
			}
			if tagged {
				if !pure(info, s.Tag) {
					return true
				}
				if len(s.Body.List) > 12 {
					return true // the big production switches stay switches: nobody would write that by hand
				}
			}
			if hasFreeBreak(s) {
				return true
			}
			var head, tail *ast.IfStmt
			var def *ast.BlockStmt
			for i, st := range s.Body.List {
				cc := st.(*ast.CaseClause)
				if cc.List == nil {
					if i != len(s.Body.List)-1 {
						return true // default not last: order of evaluation differs
					}
					def = &ast.BlockStmt{List: cc.Body}
					continue
				}
				var cond ast.Expr
				for _, e := range cc.List {
					var one ast.Expr = e
					if tagged {
						if !pure(info, e) {
							return true
						}
						one = &ast.BinaryExpr{X: s.Tag, Op: token.EQL, Y: e}
					}
					if cond == nil {
						cond = one
					} else {
						cond = &ast.BinaryExpr{X: cond, Op: token.LOR, Y: one}
					}
				}
				n := &ast.IfStmt{Cond: cond, Body: &ast.BlockStmt{List: cc.Body}}
				if head == nil {
					head = n
				} else {
					tail.Else = n
				}
				tail = n
			}
			if head == nil {
				return true
			}
			if !pick() {
				return true
			}
			if def != nil {
				tail.Else = def
			}
			c.Replace(head)
			return true
		})
	case "range-to-index":
		astutil.Apply(f, nil, func(c *astutil.Cursor) bool {
			s, ok := c.Node().(*ast.RangeStmt)
			if !ok || s.Tok != token.DEFINE || s.Key == nil {
				return true
			}
			k, ok := s.Key.(*ast.Ident)
			if !ok {
				return true
			}
			var val *ast.Ident
			if s.Value != nil {
				val, ok = s.Value.(*ast.Ident)
				if !ok {
					return true
				}
				if val.Name == "_" {
					val = nil
				}
			}
			if k.Name == "_" {
				if val == nil {
					return true
				}
				k = ast.NewIdent(fmt.Sprintf("idx%d", site))
			}
			if _, lab := c.Parent().(*ast.LabeledStmt); lab {
				return true
			}
			t := info.TypeOf(s.X)
			if t == nil {
				return true
			}
			if _, isSlice := t.Underlying().(*types.Slice); !isSlice {
				return true
			}
			// the operand must be a plain variable or field that the body does not assign
			switch s.X.(type) {
			case *ast.Ident, *ast.SelectorExpr:
			default:
				return true
			}
			xs := types.ExprString(s.X)
			assigned := false
			ast.Inspect(s.Body, func(n ast.Node) bool {
				switch a := n.(type) {
				case *ast.AssignStmt:
					for _, l := range a.Lhs {
						if types.ExprString(l) == xs || strings.HasPrefix(xs, types.ExprString(l)+".") {
							assigned = true
						}
					}
				case *ast.CallExpr:
					// a call could reassign a field; only idents that are locals are safe then
					if _, isSel := s.X.(*ast.SelectorExpr); isSel {
						assigned = true
					}
				case *ast.UnaryExpr:
					if a.Op == token.AND && types.ExprString(a.X) == xs {
						assigned = true
					}
				}
				return !assigned
			})
			// the loop variable must not be assigned in the body (per-iteration copy semantics differ then)
			ast.Inspect(s.Body, func(n ast.Node) bool {
				switch a := n.(type) {
				case *ast.AssignStmt:
					for _, l := range a.Lhs {
						if id, ok := l.(*ast.Ident); ok && (id.Name == k.Name || (val != nil && id.Name == val.Name)) {
							assigned = true
						}
					}
				case *ast.IncDecStmt:
					if id, ok := a.X.(*ast.Ident); ok && (id.Name == k.Name || (val != nil && id.Name == val.Name)) {
						assigned = true
					}
				case *ast.UnaryExpr:
					if id, ok := a.X.(*ast.Ident); ok && a.Op == token.AND && val != nil && id.Name == val.Name {
						assigned = true
					}
				case *ast.FuncLit:
					assigned = true // captured loop variable: keep it simple
				}
				return !assigned
			})
			if assigned || !pick() {
				return true
			}
			c.Replace(&ast.ForStmt{
				Init: &ast.AssignStmt{Lhs: []ast.Expr{ast.NewIdent(k.Name)}, Tok: token.DEFINE, Rhs: []ast.Expr{&ast.BasicLit{Kind: token.INT, Value: "0"}}},
				Cond: &ast.BinaryExpr{X: ast.NewIdent(k.Name), Op: token.LSS, Y: &ast.CallExpr{Fun: ast.NewIdent("len"), Args: []ast.Expr{s.X}}},
				Post: &ast.IncDecStmt{X: ast.NewIdent(k.Name), Tok: token.INC},
				Body: func() *ast.BlockStmt {
					if val == nil {
						return s.Body
					}
					first := &ast.AssignStmt{Lhs: []ast.Expr{ast.NewIdent(val.Name)}, Tok: token.DEFINE, Rhs: []ast.Expr{&ast.IndexExpr{X: s.X, Index: ast.NewIdent(k.Name)}}}
					return &ast.BlockStmt{List: append([]ast.Stmt{first}, s.Body.List...)}
				}(),
			})
			return true
		})
	case "incdec":
		astutil.Apply(f, nil, func(c *astutil.Cursor) bool {
			switch s := c.Node().(type) {
			case *ast.IncDecStmt:
				if fs, ok := c.Parent().(*ast.ForStmt); ok && fs.Post == s {
					// also rewrite loop posts: i++ → i += 1
				}
				if !pure(info, s.X) || !pick() {
					return true
				}
				op := token.ADD_ASSIGN
				if s.Tok == token.DEC {
					op = token.SUB_ASSIGN
				}
				c.Replace(&ast.AssignStmt{Lhs: []ast.Expr{s.X}, Tok: op, Rhs: []ast.Expr{&ast.BasicLit{Kind: token.INT, Value: "1"}}})
			case *ast.AssignStmt:
				if len(s.Lhs) != 1 || !pure(info, s.Lhs[0]) {
					return true
				}
				ops := map[token.Token]token.Token{token.ADD_ASSIGN: token.ADD, token.SUB_ASSIGN: token.SUB, token.OR_ASSIGN: token.OR, token.SHL_ASSIGN: token.SHL}
				op, ok := ops[s.Tok]
				if !ok {
					return true
				}
				if b, isLit := s.Rhs[0].(*ast.BasicLit); isLit && b.Value == "1" {
					return true // ours
				}
				if !pick() {
					return true
				}
				var rhs ast.Expr = s.Rhs[0]
				if _, isBin := rhs.(*ast.BinaryExpr); isBin {
					rhs = &ast.ParenExpr{X: rhs}
				}
				c.Replace(&ast.AssignStmt{Lhs: s.Lhs, Tok: token.ASSIGN, Rhs: []ast.Expr{&ast.BinaryExpr{X: s.Lhs[0], Op: op, Y: rhs}}})
			}
			return true
		})
	case "flip-cmp":
		astutil.Apply(f, nil, func(c *astutil.Cursor) bool {
			b, ok := c.Node().(*ast.BinaryExpr)
			if !ok {
				return true
			}
			flip := map[token.Token]token.Token{token.EQL: token.EQL, token.NEQ: token.NEQ, token.LSS: token.GTR, token.GTR: token.LSS, token.LEQ: token.GEQ, token.GEQ: token.LEQ}
			op, ok := flip[b.Op]
			if !ok || !pure(info, b.X) || !pure(info, b.Y) {
				return true
			}
			// keep `x == nil` and `err != nil` as they are written everywhere; flip the others
			if id, ok := b.Y.(*ast.Ident); ok && id.Name == "nil" {
				return true
			}
			if !pick() {
				return true
			}
			b.X, b.Y, b.Op = b.Y, b.X, op
			return true
		})
	case "define-to-var":
		astutil.Apply(f, nil, func(c *astutil.Cursor) bool {
			s, ok := c.Node().(*ast.AssignStmt)
			if !ok || s.Tok != token.DEFINE || len(s.Lhs) != 1 || len(s.Rhs) != 1 {
				return true
			}
			if _, inBlock := c.Parent().(*ast.BlockStmt); !inBlock {
				return true
			}
			id, ok := s.Lhs[0].(*ast.Ident)
			if !ok || id.Name == "_" {
				return true
			}
			if info.Defs[id] == nil {
				return true
			}
			if !pick() {
				return true
			}
			c.Replace(&ast.DeclStmt{Decl: &ast.GenDecl{Tok: token.VAR, Specs: []ast.Spec{&ast.ValueSpec{Names: []*ast.Ident{ast.NewIdent(id.Name)}, Values: s.Rhs}}}})
			return true
		})
	case "hoist-call-args":
		// f(g(x))  as a statement or in `v := f(g(x))`, `return f(g(x))` →  t := g(x); f(t)   — only the FIRST non-pure argument, and only when
		// every argument before it is pure (evaluation order preserved), and the callee expression is pure too
		n := 0
		astutil.Apply(f, nil, func(c *astutil.Cursor) bool {
			b, ok := c.Node().(*ast.BlockStmt)
			if !ok {
				return true
			}
			var out []ast.Stmt
			for _, st := range b.List {
				var call *ast.CallExpr
				switch s := st.(type) {
				case *ast.ExprStmt:
					call, _ = s.X.(*ast.CallExpr)
				case *ast.AssignStmt:
					if len(s.Rhs) == 1 {
						call, _ = s.Rhs[0].(*ast.CallExpr)
					}
				case *ast.ReturnStmt:
					if len(s.Results) == 1 {
						call, _ = s.Results[0].(*ast.CallExpr)
					}
				}
				if call != nil && call.Ellipsis == token.NoPos && pure(info, call.Fun) {
					for i, a := range call.Args {
						if pure(info, a) {
							continue
						}
						ac, isCall := a.(*ast.CallExpr)
						if !isCall {
							break
						}
						tv, ok := info.Types[ac]
						if !ok || tv.IsType() {
							break
						}
						if _, isTuple := tv.Type.(*types.Tuple); isTuple {
							break
						}
						if tvf, ok := info.Types[ac.Fun]; ok && tvf.IsType() {
							break
						}
						if tv.Type == nil || tv.IsVoid() {
							break
						}
						// an untyped nil or constant would change type: only typed values
						if b, ok := tv.Type.(*types.Basic); ok && b.Info()&types.IsUntyped != 0 {
							break
						}
						if !pick() {
							break
						}
						n++
						name := fmt.Sprintf("hoisted%d", n)
						out = append(out, &ast.AssignStmt{Lhs: []ast.Expr{ast.NewIdent(name)}, Tok: token.DEFINE, Rhs: []ast.Expr{ac}})
						call.Args[i] = ast.NewIdent(name)
						break
					}
				}
				out = append(out, st)
			}
			b.List = out
			return true
		})
	case "rename-locals":
		// every local variable, parameter and named result gets another name (collisions are impossible: the suffix is fresh)
		for id, o := range info.Defs {
			v, ok := o.(*types.Var)
			if !ok || v.IsField() || id.Name == "_" || v.Parent() == nil || v.Parent() == v.Pkg().Scope() {
				continue
			}
			if id.Pos() < f.Pos() || id.End() > f.End() {
				continue
			}
			// receivers of methods named in interfaces etc. are fine; keep `err`? no: everything
			site++
			done++
			id.Name = id.Name + "Zq"
		}
		for id, o := range info.Uses {
			v, ok := o.(*types.Var)
			if !ok || v.IsField() || id.Name == "_" || v.Parent() == nil || v.Parent() == v.Pkg().Scope() {
				continue
			}
			if id.Pos() < f.Pos() || id.End() > f.End() {
				continue
			}
			if v.Pkg() != p.Types {
				continue
			}
			id.Name = v.Name() + "Zq"
		}
		// type switch `switch x := y.(type)`: the declared identifier has no object of its own; the clauses' implicit objects carry its name
		ast.Inspect(f, func(n ast.Node) bool {
			if ts, ok := n.(*ast.TypeSwitchStmt); ok {
				if as, ok := ts.Assign.(*ast.AssignStmt); ok && len(as.Lhs) == 1 {
					if id, ok := as.Lhs[0].(*ast.Ident); ok && id.Name != "_" && !strings.HasSuffix(id.Name, "Zq") {
						id.Name += "Zq"
					}
				}
			}
			return true
		})
	case "rename-private":
		// every unexported package-level function, method (not declared by an interface) and struct field of the module gets another name
		ifaceMethods := map[string]bool{}
		for _, pk := range allPkgs {
			sc := pk.Types.Scope()
			for _, name := range sc.Names() {
				if tn, ok := sc.Lookup(name).(*types.TypeName); ok {
					if it, ok := tn.Type().Underlying().(*types.Interface); ok {
						for i := 0; i < it.NumMethods(); i++ {
							ifaceMethods[it.Method(i).Name()] = true
						}
					}
				}
			}
		}
		rename := func(o types.Object) bool {
			if o == nil || o.Pkg() == nil || !strings.HasPrefix(o.Pkg().Path(), "github.com/gardenbed/emerge") || o.Exported() || o.Name() == "_" || o.Name() == "main" || o.Name() == "init" {
				return false
			}
			switch x := o.(type) {
			case *types.Func:
				if ifaceMethods[x.Name()] {
					return false
				}
				return true
			case *types.Var:
				if x.IsField() {
					return !x.Embedded()
				}
				return x.Parent() == x.Pkg().Scope() // package-level variable
			}
			return false
		}
		for id, o := range info.Defs {
			if id.Pos() < f.Pos() || id.End() > f.End() {
				continue
			}
			if rename(o) {
				site++
				done++
				id.Name = o.Name() + "Zp"
			}
		}
		for id, o := range info.Uses {
			if id.Pos() < f.Pos() || id.End() > f.End() {
				continue
			}
			if rename(o) {
				id.Name = o.Name() + "Zp"
			}
		}
	case "split-and":
		// if a && b { X }  ->  if a { if b { X } }   (no else, no init)
		astutil.Apply(f, nil, func(c *astutil.Cursor) bool {
			s, ok := c.Node().(*ast.IfStmt)
			if !ok || s.Else != nil || s.Init != nil {
				return true
			}
			b, ok := s.Cond.(*ast.BinaryExpr)
			if !ok || b.Op != token.LAND {
				return true
			}
			if _, isElse := c.Parent().(*ast.IfStmt); isElse {
				return true
			}
			if !pick() {
				return true
			}
			inner := &ast.IfStmt{Cond: b.Y, Body: s.Body}
			s.Cond, s.Body = b.X, &ast.BlockStmt{List: []ast.Stmt{inner}}
			return true
		})
	case "merge-and":
		// if a { if b { X } }  ->  if a && b { X }
		astutil.Apply(f, nil, func(c *astutil.Cursor) bool {
			s, ok := c.Node().(*ast.IfStmt)
			if !ok || s.Else != nil || s.Init != nil || len(s.Body.List) != 1 {
				return true
			}
			in, ok := s.Body.List[0].(*ast.IfStmt)
			if !ok || in.Else != nil || in.Init != nil {
				return true
			}
			if !pick() {
				return true
			}
			par := func(e ast.Expr) ast.Expr {
				if b, ok := e.(*ast.BinaryExpr); ok && b.Op == token.LOR {
					return &ast.ParenExpr{X: e}
				}
				return e
			}
			s.Cond, s.Body = &ast.BinaryExpr{X: par(s.Cond), Op: token.LAND, Y: par(in.Cond)}, in.Body
			return true
		})
	case "early-continue":
		// for … { …; if c { BODY } }  ->  for … { …; if !c { continue }; BODY }   (the if is the last statement of the loop body)
		astutil.Apply(f, nil, func(c *astutil.Cursor) bool {
			var body *ast.BlockStmt
			switch l := c.Node().(type) {
			case *ast.ForStmt:
				body = l.Body
			case *ast.RangeStmt:
				body = l.Body
			}
			if body == nil || len(body.List) == 0 {
				return true
			}
			s, ok := body.List[len(body.List)-1].(*ast.IfStmt)
			if !ok || s.Else != nil || s.Init != nil || len(s.Body.List) < 2 {
				return true
			}
			// a `:=` that declares several names inside the branch would re-use names of the loop body's scope once moved out
			multi := false
			for _, r := range s.Body.List {
				if as, ok := r.(*ast.AssignStmt); ok && as.Tok == token.DEFINE && len(as.Lhs) > 1 {
					multi = true
				}
			}
			if multi || !pick() {
				return true
			}
			guard := &ast.IfStmt{Cond: not(s.Cond), Body: &ast.BlockStmt{List: []ast.Stmt{&ast.BranchStmt{Tok: token.CONTINUE}}}}
			body.List = append(append(body.List[:len(body.List)-1:len(body.List)-1], guard), s.Body.List...)
			return true
		})
	case "temp-return":
		// return f(x)  ->  res := f(x); return res     (one result that is a call with a single, typed value)
		n := 0
		astutil.Apply(f, nil, func(c *astutil.Cursor) bool {
			b, ok := c.Node().(*ast.BlockStmt)
			if !ok {
				return true
			}
			var out []ast.Stmt
			for _, st := range b.List {
				if r, ok := st.(*ast.ReturnStmt); ok && len(r.Results) == 1 {
					if call, ok := r.Results[0].(*ast.CallExpr); ok {
						tv, has := info.Types[call]
						if has && !tv.IsType() && tv.Type != nil {
							if _, isTuple := tv.Type.(*types.Tuple); !isTuple {
								if bt, isB := tv.Type.(*types.Basic); !isB || bt.Info()&types.IsUntyped == 0 {
									if tvf, ok := info.Types[call.Fun]; !ok || !tvf.IsType() {
										if pick() {
											n++
											name := fmt.Sprintf("result%d", n)
											out = append(out, &ast.AssignStmt{Lhs: []ast.Expr{ast.NewIdent(name)}, Tok: token.DEFINE, Rhs: []ast.Expr{call}})
											out = append(out, &ast.ReturnStmt{Results: []ast.Expr{ast.NewIdent(name)}})
											continue
										}
									}
								}
							}
						}
					}
				}
				out = append(out, st)
			}
			b.List = out
			return true
		})
	default:
		fmt.Fprintln(os.Stderr, "unknown transform", *tr)
		os.Exit(2)
	}
}
