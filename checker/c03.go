package main

import (
	"fmt"
	"go/ast"
	"go/token"
	"go/types"
	"sort"
	"strings"

	"golang.org/x/tools/go/ssa"
)

func init() {
	register(&property{id: "C03", run: runC03, meta: propMeta{
		level: "other",
		explanation: "Emerge's share of the combined scanner automaton is decided structurally in Spec.DFA: the per-definition automata are built from and mapped back to the definitions by the same index, all of them are combined; the winner/conflict decision of each accepting state is extracted as a decision table over (number of candidates, number of string-literal candidates) and compared with the documented priority rule; every accepting state is attributed to at most one terminal; a conflict yields an error result; pattern errors surface before combining; " +
			"the value of a string literal reaches stringToDFA through identity steps only although the scanner admits backslash escapes (recorded finding: escapes are never resolved). That CombineDFA recognises exactly the union and maps final states correctly is the dependency's algorithm and out of reach.",
		trusted: []string{"automata.CombineDFA returns the union automaton and, per input automaton, the final states that accept its language", "generic.SelectMatch filters by its predicate"},
		assumptions: []string{"definitions have distinct values (ensureDistinctDefs, C07)"},
	}})
}

func runC03(c *Ctx) {
	c.Rule("R3.1", 4, "parallel-index discipline between definitions, per-definition automata and the final-state map")
	c.Rule("R3.2", 5, "winner / conflict decision table equals the documented priority rule")
	c.Rule("R3.3", 4, "backslash escapes of string literals are resolved before the literal's automaton is built")
	c.Rule("R3.4", 3, "pattern errors surface before the automata are combined")

	c.mute = map[string]bool{"R5.4": true, "R4.2": true}
	sp := c.Pkg("internal/ebnf/parser/spec")
	fd := FuncDecl(sp, "Spec", "DFA")
	if fd == nil {
		c.Lost("R3.1", "Spec.DFA")
		return
	}
	c.Analysed(funcKey(sp, fd))
	info := sp.TypesInfo
	fn := c.SSAFunc(sp, fd)

	// ---- R3.1 on SSA: ds = make([]*DFA, len(s.Definitions)); ds[i] = f(s.Definitions[i]); CombineDFA(ds...); stateDefs[f] append s.Definitions[i] with i the range index of stateMap
	var combine *ssa.Call
	allCalls(fn, func(call ssa.CallInstruction) {
		if cv, ok := call.(*ssa.Call); ok && staticCalleeName(cv) == depPath+"/automata.CombineDFA" {
			combine = cv
		}
	})
	if !c.Check("R3.1", "Spec.DFA combines the per-definition automata with automata.CombineDFA", fd.Pos(), combine != nil, "no call of CombineDFA") {
		return
	}
	// what denotes "the definitions": a load of the Definitions field, or (inside a helper) the parameter that the call in
	// Spec.DFA binds to such a load
	var defsParam *ssa.Parameter
	isDefs := func(v ssa.Value) bool {
		if u, ok := v.(*ssa.UnOp); ok {
			if fa, ok := u.X.(*ssa.FieldAddr); ok && fieldName(fa) == "Definitions" {
				return true
			}
		}
		return defsParam != nil && v == ssa.Value(defsParam)
	}
	ds, _ := combine.Call.Args[0].(*ssa.MakeSlice)
	if ds == nil {
		// the slice may be built by a helper of the package and handed back: look at what the helper returns
		var src ssa.Value = combine.Call.Args[0]
		if ex, ok := src.(*ssa.Extract); ok {
			src = ex.Tuple
		}
		if hc, ok := src.(*ssa.Call); ok {
			if g := hc.Call.StaticCallee(); g != nil && g.Pkg == fn.Pkg {
				for _, b := range g.Blocks {
					if ret, ok := b.Instrs[len(b.Instrs)-1].(*ssa.Return); ok && len(ret.Results) >= 1 {
						if mk, ok := retOperand(ret, 0).(*ssa.MakeSlice); ok {
							ds = mk
							for i, a := range hc.Call.Args {
								if isDefs(a) && i < len(g.Params) {
									defsParam = g.Params[i]
								}
							}
						}
					}
				}
			}
		}
	}
	if ds == nil {
		if decided := checkAppendedAutomata(c, fn, combine, isDefs); !decided {
			c.Undecided("R3.1", "one automaton slot per definition, all passed to CombineDFA", combine.Pos(), "the slice given to CombineDFA is not a make(...) in Spec.DFA or in the helper that returns it")
		}
	} else {
		okMake := false
		if call, ok := ds.Len.(*ssa.Call); ok {
			if b, ok := call.Call.Value.(*ssa.Builtin); ok && b.Name() == "len" && isDefs(call.Call.Args[0]) {
				okMake = true
			}
		}
		c.Check("R3.1", "one automaton slot per definition, all passed to CombineDFA", combine.Pos(), okMake, "the slice given to CombineDFA is not made with len(s.Definitions)")
	}
	if ds != nil {
		// every store into ds[i] has i == the range index over s.Definitions and its value derives from Definitions[i]
		nStores, okStores := 0, true
		for _, r := range *ds.Referrers() {
			ia, ok := r.(*ssa.IndexAddr)
			if !ok {
				continue
			}
			for _, rr := range *ia.Referrers() {
				if st, ok := rr.(*ssa.Store); ok && st.Addr == ssa.Value(ia) {
					nStores++
					if !isRangeIndexOverValue(ia.Index, isDefs) {
						okStores = false
					}
				}
			}
		}
		c.Check("R3.1", "slot i is filled from definition i", combine.Pos(), nStores >= 1 && okStores, fmt.Sprintf("%d stores into the automaton slice, not all indexed by the range index over s.Definitions", nStores))
	}
	// back-mapping: stateDefs[f] = append(stateDefs[f], s.Definitions[i]) with i the range index over CombineDFA's second result.
	// Three outcomes: the index is that range index (here or in a helper that is handed the lists); the index is recognisably
	// something else (a constant, an index shifted by a constant, the index of a loop over another collection); or the index
	// takes a route the rule does not follow (kept in a struct first, say), which is undecided.
	backOK, backBad := false, ""
	type scope struct {
		fn    *ssa.Function
		isMap func(ssa.Value) bool
	}
	scopes := []scope{{fn, func(v ssa.Value) bool {
		ex, ok := v.(*ssa.Extract)
		return ok && ex.Tuple == ssa.Value(combine) && ex.Index == 1
	}}}
	for _, b := range fn.Blocks {
		for _, in := range b.Instrs {
			call, ok := in.(*ssa.Call)
			if !ok {
				continue
			}
			callee := call.Call.StaticCallee()
			if callee == nil || len(callee.Blocks) == 0 || !strings.HasPrefix(fnPkgPath(callee), modPath) {
				continue
			}
			args := call.Call.Args
			for i, a := range args {
				if ex, ok := a.(*ssa.Extract); ok && ex.Tuple == ssa.Value(combine) && ex.Index == 1 && i < len(callee.Params) {
					par := callee.Params[i]
					scopes = append(scopes, scope{callee, func(v ssa.Value) bool { return v == ssa.Value(par) }})
				}
			}
		}
	}
	sawIndex := false
	for _, sc := range scopes {
		for _, b := range sc.fn.Blocks {
			for _, in := range b.Instrs {
				ia, ok := in.(*ssa.IndexAddr)
				if !ok {
					continue
				}
				u, ok := ia.X.(*ssa.UnOp)
				if !ok {
					continue
				}
				fa, ok := u.X.(*ssa.FieldAddr)
				if !ok || fieldName(fa) != "Definitions" {
					continue
				}
				sawIndex = true
				switch {
				case isRangeIndexOverValue(ia.Index, sc.isMap):
					backOK = true
				case isRangeIndexOverValue(ia.Index, func(ssa.Value) bool { return true }):
					// the index of a loop over something else; a loop over the definitions themselves (filling the slots) is not a back-mapping
					if !isRangeIndexOverValue(ia.Index, isDefs) {
						backBad = "s.Definitions is indexed by the counter of a loop over another collection than the final-state lists returned by CombineDFA"
					}
				default:
					if _, isConst := ia.Index.(*ssa.Const); isConst {
						backBad = "s.Definitions is indexed by a constant where the final states are mapped back"
					} else if _, isBin := ia.Index.(*ssa.BinOp); isBin {
						// arithmetic on the position: i+1, len-1-i, ...
						var uses func(v ssa.Value, d int) bool
						uses = func(v ssa.Value, d int) bool {
							if d > 4 {
								return false
							}
							if isRangeIndexOverValue(v, sc.isMap) {
								return true
							}
							if b2, ok := v.(*ssa.BinOp); ok {
								return uses(b2.X, d+1) || uses(b2.Y, d+1)
							}
							return false
						}
						bo := ia.Index.(*ssa.BinOp)
						if uses(bo.X, 0) || uses(bo.Y, 0) {
							backBad = "s.Definitions is indexed by an arithmetic function of the position of the final-state list, not by the position itself"
						}
					}
				}
			}
		}
	}
	switch {
	case backOK:
		c.Pass("R3.1", "final states of automaton i are mapped back to definition i", combine.Pos(), "")
	case backBad != "":
		c.Fail("R3.1", "final states of automaton i are mapped back to definition i", combine.Pos(), backBad+": accepting states are attributed to the wrong terminals")
	default:
		why := "s.Definitions is indexed by a value whose origin the rule does not follow (kept in a data structure between the loop over the final-state lists and the use)"
		if !sawIndex {
			why = "no indexing of s.Definitions was found in the function that combines the automata or in a helper it hands the final-state lists to"
		}
		c.Undecided("R3.1", "final states of automaton i are mapped back to definition i", combine.Pos(), why)
	}

	// ---- R3.2 decision table
	checkWinnerTable(c, sp, fd)
	checkJoinedKeys(c, fd)

	// ---- R3.3
	checkLiteralEscapes(c)

	// ---- R3.4
	before := len(c.Obs)
	checkPatternErrors(c)
	for i := before; i < len(c.Obs); i++ {
		if c.Obs[i].Rule == "R7.4" {
			c.Obs[i].Rule = "R3.4"
		}
	}
	_ = info
}

func lenOfField(v ssa.Value, field string) bool {
	call, ok := v.(*ssa.Call)
	if !ok {
		return false
	}
	if b, ok := call.Call.Value.(*ssa.Builtin); !ok || b.Name() != "len" {
		return false
	}
	if u, ok := call.Call.Args[0].(*ssa.UnOp); ok {
		if fa, ok := u.X.(*ssa.FieldAddr); ok && fieldName(fa) == field {
			return true
		}
	}
	return false
}

// isRangeIndexOverValue: idx is the index variable of a range loop over a value satisfying pred.
func isRangeIndexOverValue(idx ssa.Value, pred func(ssa.Value) bool) bool {
	// rotated range: idx = phi+1 with compare (phi+1) < len(x)
	candidates := []ssa.Value{idx}
	if bo, ok := idx.(*ssa.BinOp); ok {
		candidates = append(candidates, bo.X)
	}
	for _, v := range candidates {
		refs := v.Referrers()
		if refs == nil {
			continue
		}
		for _, r := range *refs {
			cmp, ok := r.(*ssa.BinOp)
			if !ok || cmp.Op != token.LSS {
				continue
			}
			if call, ok := cmp.Y.(*ssa.Call); ok {
				if b, ok := call.Call.Value.(*ssa.Builtin); ok && b.Name() == "len" && pred(call.Call.Args[0]) {
					return true
				}
			}
		}
		if phi, ok := v.(*ssa.Phi); ok {
			for _, e := range phi.Edges {
				if e != idx {
					if bo, ok := e.(*ssa.BinOp); ok && bo.X == ssa.Value(phi) {
						for _, r := range *bo.Referrers() {
							if cmp, ok := r.(*ssa.BinOp); ok && cmp.Op == token.LSS {
								if call, ok := cmp.Y.(*ssa.Call); ok {
									if b, ok := call.Call.Value.(*ssa.Builtin); ok && b.Name() == "len" && pred(call.Call.Args[0]) {
										return true
									}
								}
							}
						}
					}
				}
			}
		}
	}
	return false
}

func isRangeIndexOverField(idx ssa.Value, field string) bool {
	return isRangeIndexOverValue(idx, func(v ssa.Value) bool {
		if u, ok := v.(*ssa.UnOp); ok {
			if fa, ok := u.X.(*ssa.FieldAddr); ok && fieldName(fa) == field {
				return true
			}
		}
		return false
	})
}

// checkWinnerTable extracts the decision made for each accepting state.
func checkWinnerTable(c *Ctx, sp interface{}, fd *ast.FuncDecl) {
	p := c.Pkg("internal/ebnf/parser/spec")
	info := p.TypesInfo
	// the loop whose body switches on len(<candidates>)
	var sw *ast.SwitchStmt
	var loop *ast.RangeStmt
	ast.Inspect(fd.Body, func(n ast.Node) bool {
		rs, ok := n.(*ast.RangeStmt)
		if !ok {
			return true
		}
		for _, st := range rs.Body.List {
			if s, ok := st.(*ast.SwitchStmt); ok && s.Tag != nil {
				if call, ok := ast.Unparen(s.Tag).(*ast.CallExpr); ok {
					if id, ok := call.Fun.(*ast.Ident); ok && id.Name == "len" {
						sw, loop = s, rs
					}
				}
			}
		}
		return true
	})
	if sw == nil {
		c.Lost("R3.2", "the per-accepting-state decision (switch on the number of candidate definitions)")
		return
	}
	candExpr := types.ExprString(ast.Unparen(sw.Tag).(*ast.CallExpr).Args[0])
	// classify a statement list: which terminal gets the state / conflict
	type outcome struct {
		attribute []string // expressions X in termMap[X.Terminal] = append(..., f)
		conflict  bool
	}
	var classify func(list []ast.Stmt, o *outcome)
	var strVar string
	var predOK bool
	classify = func(list []ast.Stmt, o *outcome) {
		for _, st := range list {
			ast.Inspect(st, func(n ast.Node) bool {
				switch s := n.(type) {
				case *ast.IfStmt, *ast.SwitchStmt:
					return n == ast.Node(st) // nested decisions are handled by the caller
				case *ast.AssignStmt:
					if len(s.Rhs) != 1 {
						return true
					}
					call, ok := ast.Unparen(s.Rhs[0]).(*ast.CallExpr)
					if !ok {
						return true
					}
					if id, ok := call.Fun.(*ast.Ident); ok && id.Name == "append" {
						if ix, ok := ast.Unparen(s.Lhs[0]).(*ast.IndexExpr); ok {
							// key variable a := X.Terminal
							key := types.ExprString(ix.Index)
							o.attribute = append(o.attribute, key)
						}
					}
					if fo, ok := objOf(info, call.Fun).(*types.Func); ok {
						switch fo.Name() {
						case "Append":
							o.conflict = true
						case "SelectMatch":
							if len(call.Args) == 2 && types.ExprString(call.Args[0]) == candExpr {
								if lid, ok := s.Lhs[0].(*ast.Ident); ok {
									strVar = lid.Name
								}
								if fl, ok := call.Args[1].(*ast.FuncLit); ok && len(fl.Body.List) == 1 {
									if r, ok := fl.Body.List[0].(*ast.ReturnStmt); ok && len(r.Results) == 1 {
										if u, ok := ast.Unparen(r.Results[0]).(*ast.UnaryExpr); ok && u.Op == token.NOT {
											if sel, ok := ast.Unparen(u.X).(*ast.SelectorExpr); ok && sel.Sel.Name == "IsRegex" {
												predOK = true
											}
										}
									}
								}
							}
						}
					}
				}
				return true
			})
		}
	}
	// resolve `a := X.Terminal` aliases inside a clause
	aliases := func(list []ast.Stmt) map[string]string {
		m := map[string]string{}
		for _, st := range list {
			ast.Inspect(st, func(n ast.Node) bool {
				if as, ok := n.(*ast.AssignStmt); ok && len(as.Lhs) == 1 && len(as.Rhs) == 1 {
					if lid, ok := as.Lhs[0].(*ast.Ident); ok {
						if sel, ok := ast.Unparen(as.Rhs[0]).(*ast.SelectorExpr); ok && sel.Sel.Name == "Terminal" {
							m[lid.Name] = types.ExprString(sel.X)
						}
					}
				}
				return true
			})
		}
		return m
	}
	table := map[string]string{}
	for _, cc := range sw.Body.List {
		cl := cc.(*ast.CaseClause)
		label := "many"
		if cl.List != nil {
			if v, ok := constInt(info, cl.List[0]); ok {
				label = fmt.Sprint(v)
			}
		}
		al := aliases(cl.Body)
		resolve := func(keys []string) []string {
			var out []string
			for _, k := range keys {
				if v, ok := al[k]; ok {
					out = append(out, v)
				} else {
					out = append(out, k)
				}
			}
			return out
		}
		var direct outcome
		classify(cl.Body, &direct)
		if label != "many" {
			switch {
			case direct.conflict:
				table[label] = "conflict"
			case len(direct.attribute) == 1:
				table[label] = "-> " + resolve(direct.attribute)[0]
			case len(direct.attribute) == 0:
				table[label] = "nothing"
			default:
				table[label] = "several"
			}
			continue
		}
		// the default clause: SelectMatch then `if len(strDefs) == 1 {..} else {..}`
		for _, st := range cl.Body {
			ifs, ok := st.(*ast.IfStmt)
			if !ok {
				continue
			}
			b, ok := ast.Unparen(ifs.Cond).(*ast.BinaryExpr)
			if !ok || b.Op != token.EQL {
				continue
			}
			lc, ok := ast.Unparen(b.X).(*ast.CallExpr)
			v, okv := constInt(info, b.Y)
			if !ok || !okv || v != 1 || len(lc.Args) != 1 || types.ExprString(lc.Args[0]) != strVar {
				continue
			}
			var yes, no outcome
			classify(ifs.Body.List, &yes)
			if ifs.Else != nil {
				classify([]ast.Stmt{ifs.Else}, &no)
			}
			ya := aliases(ifs.Body.List)
			if len(yes.attribute) == 1 && !yes.conflict {
				k := yes.attribute[0]
				if v, ok := ya[k]; ok {
					k = v
				}
				table["many/1 literal"] = "-> " + k
			} else {
				table["many/1 literal"] = "other"
			}
			if no.conflict && len(no.attribute) == 0 {
				table["many/else"] = "conflict"
			} else {
				table["many/else"] = "other"
			}
		}
	}
	var rows []string
	for k, v := range table {
		rows = append(rows, k+": "+v)
	}
	sort.Strings(rows)
	c.Sample("winner table: %s", strings.Join(rows, "; "))
	// the path walk decides the same table whichever way the conditions are written (`!=`, inverted branches, early continue):
	// where it finds one outcome per (candidates, literals) combination, that outcome is the table
	uniq := checkWinnerPaths(c, info, loop, candExpr, strVar)
	if uniq != nil {
		same := func(ks ...[2]int64) string {
			v := uniq[ks[0]]
			for _, k := range ks[1:] {
				if uniq[k] != v {
					return "differs between " + fmt.Sprint(ks[0]) + " (" + v + ") and " + fmt.Sprint(k) + " (" + uniq[k] + ")"
				}
			}
			return v
		}
		table["0"] = same([2]int64{0, 0})
		table["1"] = same([2]int64{1, 0}, [2]int64{1, 1})
		table["many/1 literal"] = same([2]int64{2, 1}, [2]int64{3, 1})
		table["many/else"] = same([2]int64{2, 0}, [2]int64{2, 2}, [2]int64{3, 0}, [2]int64{3, 2}, [2]int64{3, 3})
		c.Sample("winner table by paths: 0: %s; 1: %s; many/1 literal: %s; many/else: %s", table["0"], table["1"], table["many/1 literal"], table["many/else"])
	}
	c.Check("R3.2", "one candidate: the state belongs to that definition's terminal", sw.Pos(), table["1"] == "-> "+candExpr+"[0]", "decision for a single candidate is "+table["1"])
	c.Check("R3.2", "string-literal candidates are selected by `!IsRegex` over all candidates", sw.Pos(), predOK && strVar != "", "the literal candidates are not SelectMatch(candidates, !IsRegex)")
	c.Check("R3.2", "several candidates, exactly one literal: the literal wins", sw.Pos(), table["many/1 literal"] == "-> "+strVar+"[0]", "decision is "+table["many/1 literal"], "IF = \"if\"  ID = /[a-z]+/")
	c.Check("R3.2", "several candidates, no single literal: a definition conflict is reported", sw.Pos(), table["many/else"] == "conflict", "decision is "+table["many/else"], "A = /[a-z]+/  B = /[a-c]+/")
	if t0, ok := table["0"]; ok {
		c.Check("R3.2", "no candidate: the state is attributed to nothing", sw.Pos(), t0 == "nothing", "decision is "+t0)
	}
	// conflicts make the whole construction fail: after the loop, ErrorOrNil is tested and returned
	failOK := false
	for _, st := range fd.Body.List {
		if st.Pos() < loop.End() {
			continue
		}
		if ifs, ok := st.(*ast.IfStmt); ok && ifs.Init != nil {
			if as, ok := ifs.Init.(*ast.AssignStmt); ok && len(as.Rhs) == 1 {
				if call, ok := ast.Unparen(as.Rhs[0]).(*ast.CallExpr); ok {
					if sel, ok := call.Fun.(*ast.SelectorExpr); ok && sel.Sel.Name == "ErrorOrNil" {
						for _, s2 := range ifs.Body.List {
							if r, ok := s2.(*ast.ReturnStmt); ok && len(r.Results) == 3 && !isNilExpr(info, r.Results[2]) {
								failOK = true
							}
						}
					}
				}
			}
		}
	}
	c.Check("R3.2", "a reported conflict makes Spec.DFA fail", loop.Pos(), failOK, "after the attribution loop the collected conflicts are not returned as an error")
}

// checkLiteralEscapes: R3.3 identity flow from the STRING lexeme to the literal's automaton.
func checkLiteralEscapes(c *Ctx) {
	lp := c.Pkg("internal/ebnf/lexer")
	s := findScanner(c, "R3.3", lp)
	if s == nil {
		return
	}
	// does the coded scanner accept a backslash escape inside a string literal?
	label := func(w string) string {
		st := 0
		for _, r := range w {
			st = s.m.step(st, r)
			if st < 0 {
				return ""
			}
		}
		if lf := s.stateLeaf[st]; lf != nil && lf.termOK {
			return lf.terminal
		}
		return ""
	}
	admits := label(`"\""`) == "STRING"
	sp := c.Pkg("internal/ebnf/parser/spec")
	info := sp.TypesInfo
	// transformation points: in the actions that consume a STRING lexeme (term → STRING, token → TOKEN "=" STRING) the lexeme
	// must pass through a string->string function whose body treats the backslash
	transforms := []string{}
	g := extractEBNF(c, "R3.3")
	var ev *evaluator
	if g != nil {
		ev = findEvaluator(c, "R3.3", sp, g)
	}
	nActions := 0
	if ev != nil {
		for i, cs := range ev.cases {
			k := -1
			for j, sy := range cs.prod.body {
				if sy.term && sy.name == "STRING" {
					k = j
				}
			}
			if k < 0 {
				continue
			}
			nActions++
			resolved, viaHelper := false, false
			for _, st := range cs.clause.Body {
				ast.Inspect(st, func(n ast.Node) bool {
					call, ok := n.(*ast.CallExpr)
					if !ok || len(call.Args) != 1 {
						return true
					}
					// the argument is (an assertion of) rhs[k].Val, or rhs[k] itself handed to a helper that takes the value out
					whole := false
					if kk, ok := ev.rhsVal(stripAssert(call.Args[0])); !ok || kk != k {
						if kk, ok := ev.rhsIndex(call.Args[0]); !ok || kk != k {
							return true
						}
						whole = true
					}
					fo, ok := objOf(info, call.Fun).(*types.Func)
					if !ok {
						return true
					}
					sig := fo.Type().(*types.Signature)
					if sig.Params().Len() != 1 || sig.Results().Len() != 1 || !isString(sig.Results().At(0).Type()) {
						return true
					}
					if !whole && !isString(sig.Params().At(0).Type()) {
						return true
					}
					// the function treats the backslash itself, or is a wrapper (of this package) around one that does
					var treats func(f *types.Func, d int) bool
					treats = func(f *types.Func, d int) bool {
						if isString(f.Type().(*types.Signature).Params().At(0).Type()) && handlesBackslash(c, f) {
							return true
						}
						if d == 0 || f.Pkg() != sp.Types {
							return false
						}
						hd := declOfFunc(sp, f)
						if hd == nil || hd.Body == nil {
							return false
						}
						found := false
						ast.Inspect(hd.Body, func(m ast.Node) bool {
							if c2, ok := m.(*ast.CallExpr); ok && len(c2.Args) == 1 {
								if f2, ok := objOf(info, c2.Fun).(*types.Func); ok && f2 != f {
									s2 := f2.Type().(*types.Signature)
									if s2.Params().Len() == 1 && s2.Results().Len() == 1 && isString(s2.Results().At(0).Type()) && treats(f2, d-1) {
										found = true
									}
								}
							}
							return true
						})
						return found
					}
					if treats(fo, 2) {
						resolved = true
						transforms = append(transforms, fmt.Sprintf("case %d: %s", i, fo.Name()))
					} else if fo.Pkg() == sp.Types {
						viaHelper = true
					}
					return true
				})
			}
			if admits && !resolved && viaHelper {
				c.Undecided("R3.3", fmt.Sprintf("case %d (%s): the STRING lexeme is unescaped before it is used", i, cs.prod), cs.clause.Pos(), "the lexeme is handed to a function of the package that was not recognised as resolving backslashes")
				continue
			}
			c.Check("R3.3", fmt.Sprintf("case %d (%s): the STRING lexeme is unescaped before it is used", i, cs.prod), cs.clause.Pos(), !admits || resolved,
				"the scanner accepts backslash escapes inside STRING, but this action uses the lexeme verbatim: the literal \"\\\"\" denotes backslash and quote instead of one quote", "start = \"\\\"\";")
		}
	}
	if nActions == 0 {
		c.Lost("R3.3", "actions consuming a STRING lexeme")
	}
	// stringToDFA ranges over the runes of its parameter directly
	direct := false
	var litFn *ast.FuncDecl
	// the literal-to-automaton function: func(string) *DFA (the pattern function also returns an error)
	AllFuncDecls(sp, func(f *ast.FuncDecl) {
		if f.Recv != nil || f.Body == nil {
			return
		}
		sig := info.Defs[f.Name].(*types.Func).Type().(*types.Signature)
		if sig.Params().Len() == 1 && isString(sig.Params().At(0).Type()) && sig.Results().Len() == 1 {
			if pt, ok := sig.Results().At(0).Type().(*types.Pointer); ok {
				if _, n := namedTypeName(pt.Elem()); n == "DFA" {
					litFn = f
				}
			}
		}
	})
	if fd := litFn; fd != nil {
		c.Analysed(funcKey(sp, fd))
		param := info.Defs[fd.Type.Params.List[0].Names[0]]
		ast.Inspect(fd.Body, func(n ast.Node) bool {
			if rs, ok := n.(*ast.RangeStmt); ok {
				// the parameter itself, its conversion to runes, or a variable holding that conversion
				x := ast.Unparen(rs.X)
				if id, ok := x.(*ast.Ident); ok && info.Uses[id] != param {
					// chars := []rune(value)
					ast.Inspect(fd.Body, func(m ast.Node) bool {
						if as, ok := m.(*ast.AssignStmt); ok && len(as.Lhs) == 1 && len(as.Rhs) == 1 {
							if lid, ok := as.Lhs[0].(*ast.Ident); ok && (info.Defs[lid] == info.Uses[id] || info.Uses[lid] == info.Uses[id]) {
								x = ast.Unparen(as.Rhs[0])
							}
						}
						return true
					})
				}
				if call, ok := x.(*ast.CallExpr); ok && len(call.Args) == 1 {
					if tv, ok := info.Types[call.Fun]; ok && tv.IsType() {
						x = ast.Unparen(call.Args[0])
					}
				}
				if id, ok := x.(*ast.Ident); ok && info.Uses[id] == param {
					direct = true
				}
			}
			return true
		})
	} else {
		c.Lost("R3.3", "the literal-to-automaton function func(string) *DFA")
		return
	}
	c.Check("R3.3", "the literal's automaton spells the definition's value rune by rune", litFn.Pos(), direct, "the literal-to-automaton function does not range over the runes of its parameter")
	checkEscapeResolver(c, "R3.3", sp)
	c.Extra("string_escape_admitted", admits)
	c.Extra("unescape_steps_found", transforms)
}


// handlesBackslash: the function's body compares something with the backslash character or calls strconv.Unquote.
func handlesBackslash(c *Ctx, fo *types.Func) bool {
	if fo.Pkg() == nil {
		return false
	}
	if fo.Pkg().Path() == "strconv" && strings.HasPrefix(fo.Name(), "Unquote") {
		return true
	}
	p := c.All[fo.Pkg().Path()]
	if p == nil {
		return false
	}
	var fd *ast.FuncDecl
	AllFuncDecls(p, func(f *ast.FuncDecl) {
		if p.TypesInfo.Defs[f.Name] == types.Object(fo) {
			fd = f
		}
	})
	if fd == nil || fd.Body == nil {
		return false
	}
	found := false
	ast.Inspect(fd.Body, func(n ast.Node) bool {
		if e, ok := n.(ast.Expr); ok {
			if v, ok := constInt(p.TypesInfo, e); ok && v == 92 {
				found = true
			}
			if sv, ok := constStr(p.TypesInfo, e); ok && sv == "\\" {
				found = true
			}
		}
		if call, ok := n.(*ast.CallExpr); ok {
			if f2, ok := objOf(p.TypesInfo, call.Fun).(*types.Func); ok && f2 != fo && f2.Pkg() != nil && (f2.Pkg().Path() == "strconv" && strings.HasPrefix(f2.Name(), "Unquote")) {
				found = true
			}
		}
		return true
	})
	return found
}

// checkWinnerPaths walks every path through one iteration of the attribution loop and asks, for each combination of
// (number of candidates, number of literal candidates), whether all paths possible under it decide alike. A path condition
// that is not about those two numbers and separates different decisions means that the winner depends on something else
// (the state's number, its position, a flag): the documented rule knows the candidates only.
func checkWinnerPaths(c *Ctx, info *types.Info, loop *ast.RangeStmt, candExpr, strVar string) map[[2]int64]string {
	type lit struct {
		e   ast.Expr
		pol bool
	}
	type path struct {
		conds   []lit
		attr    []string
		confl   bool
		alias   map[string]string
		done    bool
	}
	clone := func(p *path) *path {
		q := &path{conds: append([]lit{}, p.conds...), attr: append([]string{}, p.attr...), confl: p.confl, alias: map[string]string{}, done: p.done}
		for k, v := range p.alias {
			q.alias[k] = v
		}
		return q
	}
	plain := func(p *path, n ast.Node) {
		ast.Inspect(n, func(n ast.Node) bool {
			switch s := n.(type) {
			case *ast.FuncLit:
				return false
			case *ast.AssignStmt:
				if len(s.Lhs) == 1 && len(s.Rhs) == 1 {
					if lid, ok := s.Lhs[0].(*ast.Ident); ok {
						if sel, ok := ast.Unparen(s.Rhs[0]).(*ast.SelectorExpr); ok && sel.Sel.Name == "Terminal" {
							p.alias[lid.Name] = types.ExprString(sel.X)
						}
					}
					if call, ok := ast.Unparen(s.Rhs[0]).(*ast.CallExpr); ok {
						if id, ok := call.Fun.(*ast.Ident); ok && id.Name == "append" {
							if ix, ok := ast.Unparen(s.Lhs[0]).(*ast.IndexExpr); ok {
								k := types.ExprString(ix.Index)
								if v, ok := p.alias[k]; ok {
									k = v
								} else if sel, ok := ast.Unparen(ix.Index).(*ast.SelectorExpr); ok && sel.Sel.Name == "Terminal" {
									k = types.ExprString(sel.X)
								}
								p.attr = append(p.attr, k)
							}
						}
						if fo, ok := objOf(info, call.Fun).(*types.Func); ok && fo.Name() == "Append" {
							p.confl = true
						}
					}
				}
			}
			return true
		})
	}
	var walk func(list []ast.Stmt, in []*path) []*path
	walkStmt := func(st ast.Stmt, in []*path) []*path { return walk([]ast.Stmt{st}, in) }
	walk = func(list []ast.Stmt, in []*path) []*path {
		cur := in
		for _, st := range list {
			var live, dead []*path
			for _, p := range cur {
				if p.done {
					dead = append(dead, p)
				} else {
					live = append(live, p)
				}
			}
			if len(live) == 0 || len(live) > 512 {
				return cur
			}
			var next []*path
			switch s := st.(type) {
			case *ast.BlockStmt:
				next = walk(s.List, live)
			case *ast.IfStmt:
				if s.Init != nil {
					for _, p := range live {
						plain(p, s.Init)
					}
				}
				var yes, no []*path
				for _, p := range live {
					a, b := clone(p), clone(p)
					a.conds = append(a.conds, lit{s.Cond, true})
					b.conds = append(b.conds, lit{s.Cond, false})
					yes, no = append(yes, a), append(no, b)
				}
				next = walk(s.Body.List, yes)
				if s.Else != nil {
					next = append(next, walkStmt(s.Else, no)...)
				} else {
					next = append(next, no...)
				}
			case *ast.SwitchStmt:
				if s.Init != nil {
					for _, p := range live {
						plain(p, s.Init)
					}
				}
				// clause conditions as expressions: tag == v (or the clause's own expression for a tag-less switch)
				var prior []ast.Expr
				var deflt *ast.CaseClause
				for _, cc := range s.Body.List {
					cl := cc.(*ast.CaseClause)
					if cl.List == nil {
						deflt = cl
						continue
					}
					var cond ast.Expr
					for _, v := range cl.List {
						var e ast.Expr = v
						if s.Tag != nil {
							e = &ast.BinaryExpr{X: s.Tag, Op: token.EQL, Y: v}
						}
						if cond == nil {
							cond = e
						} else {
							cond = &ast.BinaryExpr{X: cond, Op: token.LOR, Y: e}
						}
					}
					var ps []*path
					for _, p := range live {
						q := clone(p)
						for _, pe := range prior {
							q.conds = append(q.conds, lit{pe, false})
						}
						q.conds = append(q.conds, lit{cond, true})
						ps = append(ps, q)
					}
					next = append(next, walk(cl.Body, ps)...)
					prior = append(prior, cond)
				}
				var ps []*path
				for _, p := range live {
					q := clone(p)
					for _, pe := range prior {
						q.conds = append(q.conds, lit{pe, false})
					}
					ps = append(ps, q)
				}
				if deflt != nil {
					next = append(next, walk(deflt.Body, ps)...)
				} else {
					next = append(next, ps...)
				}
				// a break inside a switch clause leaves the switch only
				for _, p := range next {
					if p.done && len(p.attr) >= 0 && p.alias["\x00break"] == "1" {
						p.done = false
						delete(p.alias, "\x00break")
					}
				}
			case *ast.BranchStmt:
				for _, p := range live {
					p.done = true
					if s.Tok == token.BREAK && s.Label == nil {
						p.alias["\x00break"] = "1"
					}
				}
				next = live
			case *ast.ReturnStmt:
				for _, p := range live {
					p.done = true
					p.confl = true // leaving the construction from inside the loop with a result is a failure report or an early end
				}
				next = live
			default:
				for _, p := range live {
					plain(p, st)
				}
				next = live
			}
			cur = append(dead, next...)
		}
		return cur
	}
	paths := walk(loop.Body.List, []*path{{alias: map[string]string{}}})
	if len(paths) == 0 || len(paths) > 512 {
		c.Undecided("R3.2", "the winner depends on the candidates only", loop.Pos(), fmt.Sprintf("%d paths through one iteration", len(paths)))
		return nil
	}
	// three-valued evaluation of a condition under (nCand, nStr)
	var eval func(e ast.Expr, nc, ns int64) int // 1 true, 0 false, -1 unknown
	lenOf := func(e ast.Expr, nc, ns int64) (int64, bool) {
		call, ok := ast.Unparen(e).(*ast.CallExpr)
		if !ok || len(call.Args) != 1 {
			return 0, false
		}
		if id, ok := call.Fun.(*ast.Ident); !ok || id.Name != "len" {
			return 0, false
		}
		switch types.ExprString(call.Args[0]) {
		case candExpr:
			return nc, true
		case strVar:
			return ns, true
		}
		return 0, false
	}
	num := func(e ast.Expr, nc, ns int64) (int64, bool) {
		if v, ok := constInt(info, e); ok {
			return v, true
		}
		return lenOf(e, nc, ns)
	}
	eval = func(e ast.Expr, nc, ns int64) int {
		switch x := ast.Unparen(e).(type) {
		case *ast.UnaryExpr:
			if x.Op == token.NOT {
				if v := eval(x.X, nc, ns); v >= 0 {
					return 1 - v
				}
			}
		case *ast.BinaryExpr:
			switch x.Op {
			case token.LAND:
				a, b := eval(x.X, nc, ns), eval(x.Y, nc, ns)
				if a == 0 || b == 0 {
					return 0
				}
				if a == 1 && b == 1 {
					return 1
				}
			case token.LOR:
				a, b := eval(x.X, nc, ns), eval(x.Y, nc, ns)
				if a == 1 || b == 1 {
					return 1
				}
				if a == 0 && b == 0 {
					return 0
				}
			case token.EQL, token.NEQ, token.LSS, token.LEQ, token.GTR, token.GEQ:
				l, ok1 := num(x.X, nc, ns)
				r, ok2 := num(x.Y, nc, ns)
				if ok1 && ok2 {
					var t bool
					switch x.Op {
					case token.EQL:
						t = l == r
					case token.NEQ:
						t = l != r
					case token.LSS:
						t = l < r
					case token.LEQ:
						t = l <= r
					case token.GTR:
						t = l > r
					case token.GEQ:
						t = l >= r
					}
					if t {
						return 1
					}
					return 0
				}
			}
		}
		return -1
	}
	outcome := func(p *path) string {
		switch {
		case p.confl && len(p.attr) == 0:
			return "conflict"
		case p.confl:
			return "conflict and attribution"
		case len(p.attr) == 0:
			return "nothing"
		case len(p.attr) == 1:
			return "-> " + p.attr[0]
		}
		return "several attributions"
	}
	mentions := func(e ast.Expr) bool {
		s := types.ExprString(e)
		return strings.Contains(s, candExpr) || (strVar != "" && strings.Contains(s, strVar))
	}
	bad, unclear := "", ""
	scen := 0
	uniq := map[[2]int64]string{}
	for nc := int64(0); nc <= 3; nc++ {
		for ns := int64(0); ns <= nc; ns++ {
			scen++
			outs := map[string][]*path{}
			for _, p := range paths {
				possible := true
				for _, l := range p.conds {
					v := eval(l.e, nc, ns)
					if v >= 0 && (v == 1) != l.pol {
						possible = false
					}
				}
				if possible {
					outs[outcome(p)] = append(outs[outcome(p)], p)
				}
			}
			if len(outs) <= 1 {
				for o := range outs {
					uniq[[2]int64{nc, ns}] = o
				}
				continue
			}
			// which unknown condition separates them
			var names []string
			for o := range outs {
				names = append(names, o)
			}
			sort.Strings(names)
			foreign, own := "", ""
			for _, ps := range outs {
				for _, p := range ps {
					for _, l := range p.conds {
						if eval(l.e, nc, ns) < 0 {
							if mentions(l.e) {
								own = types.ExprString(l.e)
							} else {
								foreign = types.ExprString(l.e)
							}
						}
					}
				}
			}
			msg := fmt.Sprintf("with %d candidate definitions, %d of them literals, the state's fate is one of {%s}", nc, ns, strings.Join(names, "; "))
			if foreign != "" && own == "" {
				if bad == "" {
					bad = msg + " depending on `" + foreign + "`, which is not a fact about the candidates"
				}
			} else if unclear == "" {
				unclear = msg + " depending on `" + own + foreign + "`"
			}
		}
	}
	key := "the winner of an accepting state depends on its candidate definitions only"
	switch {
	case bad != "":
		c.Fail("R3.2", key, loop.Pos(), bad+": the documented rule (one candidate wins; among several the only literal wins; otherwise a conflict is reported) knows no other input",
			"two patterns that both match the empty text, e.g. A = /a*/  B = /b*/, or any two overlapping patterns whose common accepting state meets the extra condition")
	case unclear != "":
		c.Undecided("R3.2", key, loop.Pos(), unclear)
	default:
		c.Pass("R3.2", key, loop.Pos(), fmt.Sprintf("%d paths through one iteration, %d (candidates, literals) combinations, each decided alike on every possible path", len(paths), scen))
		if len(uniq) == scen {
			return uniq
		}
	}
	return nil
}

// checkAppendedAutomata: the automata are collected with append in the loop over the definitions. The final-state lists that
// CombineDFA returns are indexed like its arguments and mapped back to s.Definitions by that index, so every iteration must
// contribute exactly one automaton, or record an error (the construction then fails as a whole). An iteration that contributes
// nothing shifts every later definition onto its predecessor's terminal.
func checkAppendedAutomata(c *Ctx, fn *ssa.Function, combine *ssa.Call, isDefs func(ssa.Value) bool) bool {
	appends := map[*ssa.Call]bool{}
	var phis []*ssa.Phi
	seen := map[ssa.Value]bool{}
	var back func(v ssa.Value)
	back = func(v ssa.Value) {
		if v == nil || seen[v] {
			return
		}
		seen[v] = true
		switch x := v.(type) {
		case *ssa.Phi:
			phis = append(phis, x)
			for _, e := range x.Edges {
				back(e)
			}
		case *ssa.Call:
			if b, ok := x.Call.Value.(*ssa.Builtin); ok && b.Name() == "append" && len(x.Call.Args) >= 1 {
				appends[x] = true
				back(x.Call.Args[0])
			}
		case *ssa.Slice:
			back(x.X)
		}
	}
	back(combine.Call.Args[0])
	if len(appends) == 0 || len(phis) == 0 {
		return false
	}
	// the loop header: a phi of the chain in a block that tests an index against len(definitions)
	var header *ssa.BasicBlock
	for _, ph := range phis {
		for _, in := range ph.Block().Instrs {
			if bo, ok := in.(*ssa.BinOp); ok && bo.Op == token.LSS {
				if lc, ok := bo.Y.(*ssa.Call); ok {
					if b, ok := lc.Call.Value.(*ssa.Builtin); ok && b.Name() == "len" && isDefs(lc.Call.Args[0]) {
						header = ph.Block()
					}
				}
			}
		}
	}
	if header == nil {
		return false
	}
	// blocks of the loop: reachable from the header's successors and reaching the header again
	inLoop := map[*ssa.BasicBlock]bool{}
	for _, b := range fn.Blocks {
		if b != header && header.Dominates(b) && reach(b, nil)[header] {
			inLoop[b] = true
		}
	}
	recordsError := func(b *ssa.BasicBlock) bool {
		for _, in := range b.Instrs {
			if call, ok := in.(ssa.CallInstruction); ok {
				if n := staticCalleeName(call); strings.HasSuffix(n, "/errors.Append") || n == "errors.Join" {
					return true
				}
			}
		}
		return false
	}
	nApp := func(b *ssa.BasicBlock) int {
		n := 0
		for _, in := range b.Instrs {
			if call, ok := in.(*ssa.Call); ok && appends[call] {
				n++
			}
		}
		return n
	}
	type res struct {
		none, many int
		pos        token.Pos
	}
	var r res
	paths := 0
	var dfs func(b *ssa.BasicBlock, n int, errd bool, on map[*ssa.BasicBlock]bool)
	dfs = func(b *ssa.BasicBlock, n int, errd bool, on map[*ssa.BasicBlock]bool) {
		if paths > 4096 {
			return
		}
		if b == header {
			paths++
			switch {
			case n == 0 && !errd:
				r.none++
			case n > 1:
				r.many++
			}
			return
		}
		if !inLoop[b] || on[b] {
			return // leaves the loop (break / return) or an inner cycle
		}
		on[b] = true
		n += nApp(b)
		errd = errd || recordsError(b)
		if n == 0 && !errd && r.pos == token.NoPos && len(b.Instrs) > 0 {
			// remember where a contribution-free path ends, for the report
		}
		for _, s := range b.Succs {
			dfs(s, n, errd, on)
		}
		delete(on, b)
	}
	for _, s := range header.Succs {
		if inLoop[s] {
			dfs(s, 0, false, map[*ssa.BasicBlock]bool{})
		}
	}
	if paths == 0 || paths > 4096 {
		return false
	}
	key := "one automaton per definition, in the order of the definitions, all passed to CombineDFA"
	c.Check("R3.1", key, combine.Pos(), r.none == 0 && r.many == 0,
		fmt.Sprintf("of %d paths through one iteration of the loop over the definitions, %d append no automaton without recording an error and %d append more than one: the automata no longer line up with s.Definitions, and the final states CombineDFA reports for automaton i are attributed to the wrong definition", paths, r.none, r.many),
		"a definition that takes the contribution-free path (e.g. a pattern with an empty language such as /\\p{Lt}/) placed before another one")
	return true
}


// checkJoinedKeys (R3.5): in the function that attributes the accepting states, a map must not be keyed by names joined into one
// string. A terminal's name is the text of a string literal, which may contain any separator, so two different sets of definitions
// can have one key ("if,ID" alone and {"if", ID}); the decision taken for the first is then applied to the other.
func checkJoinedKeys(c *Ctx, fd *ast.FuncDecl) {
	p := c.Pkg("internal/ebnf/parser/spec")
	info := p.TypesInfo
	joined := map[types.Object]token.Pos{}
	seps := map[types.Object]string{}
	n := 0
	deepInspect(p, fd, 2, func(nd ast.Node) bool {
		as, ok := nd.(*ast.AssignStmt)
		if !ok || len(as.Lhs) != 1 || len(as.Rhs) != 1 {
			return true
		}
		call, ok := ast.Unparen(as.Rhs[0]).(*ast.CallExpr)
		if !ok {
			return true
		}
		fo, ok := objOf(info, call.Fun).(*types.Func)
		if !ok || fo.Pkg() == nil || fo.Pkg().Path() != "strings" || fo.Name() != "Join" || len(call.Args) != 2 {
			return true
		}
		if id, ok := as.Lhs[0].(*ast.Ident); ok {
			o := info.Defs[id]
			if o == nil {
				o = info.Uses[id]
			}
			if o != nil {
				joined[o] = as.Pos()
				seps[o], _ = constStr(info, call.Args[1])
			}
		}
		return true
	})
	bad := token.NoPos
	sep := ""
	deepInspect(p, fd, 2, func(nd ast.Node) bool {
		ix, ok := nd.(*ast.IndexExpr)
		if !ok {
			return true
		}
		if t := info.TypeOf(ix.X); t == nil {
			return true
		} else if _, isMap := t.Underlying().(*types.Map); !isMap {
			return true
		}
		n++
		if id, ok := ast.Unparen(ix.Index).(*ast.Ident); ok {
			if pos, isJoined := joined[info.Uses[id]]; isJoined {
				bad, sep = pos, seps[info.Uses[id]]
			}
		}
		return true
	})
	key := "sets of definitions are not identified by their joined names"
	if bad != token.NoPos {
		c.Fail("R3.1", key, bad, fmt.Sprintf("a map is keyed by names joined with %q: the name of a literal is its text and may contain that separator, so two different sets of definitions share one key and the accepting states of one are attributed by the decision taken for the other", sep),
			`"if"  ID = /[a-z]+/  "if,ID": the accepting state of the literal "if,ID" goes to the terminal "if"`)
		return
	}
	c.Pass("R3.1", key, fd.Pos(), fmt.Sprintf("%d map accesses, none keyed by a joined string", n))
}
