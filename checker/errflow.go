package main

// Error discipline helpers on SSA: error-reaches-return, exit-status analysis of main.

import (
	"fmt"
	"go/constant"
	"go/types"

	"golang.org/x/tools/go/ssa"
)

func isErrorType(t types.Type) bool {
	if isErr(t) {
		return true
	}
	// pointer types implementing error (e.g. *errors.MultiError)
	if p, ok := t.(*types.Pointer); ok {
		if _, n := namedTypeName(p.Elem()); n == "MultiError" {
			return true
		}
	}
	return false
}

func tupleHasError(t types.Type) bool {
	if tu, ok := t.(*types.Tuple); ok {
		for i := 0; i < tu.Len(); i++ {
			if isErrorType(tu.At(i).Type()) {
				return true
			}
		}
		return false
	}
	return isErrorType(t) || isString(t)
}

// errReachesReturn: does the error value v reach the function's returned error, either by data flow
// (wrapping calls, phis, aggregation) or by a return of a non-nil error controlled by v != nil?
func errReachesReturn(fn *ssa.Function, v ssa.Value) bool {
	tainted := map[ssa.Value]bool{v: true}
	work := []ssa.Value{v}
	reached := false
	add := func(x ssa.Value) {
		if x != nil && !tainted[x] {
			tainted[x] = true
			work = append(work, x)
		}
	}
	for len(work) > 0 && !reached {
		x := work[len(work)-1]
		work = work[:len(work)-1]
		refs := x.Referrers()
		if refs == nil {
			continue
		}
		for _, r := range *refs {
			switch in := r.(type) {
			case *ssa.Return:
				reached = true
			case *ssa.Phi:
				add(in)
			case *ssa.MakeInterface:
				add(in)
			case *ssa.ChangeInterface:
				add(in)
			case *ssa.ChangeType:
				add(in)
			case *ssa.Extract:
				if isErrorType(in.Type()) || isString(in.Type()) {
					add(in)
				}
			case *ssa.Slice:
				add(in)
			case *ssa.Store:
				if in.Val == x {
					// storing into a local array element / alloc taints the aggregate and its loads
					switch a := in.Addr.(type) {
					case *ssa.IndexAddr:
						add(a.X)
					case *ssa.Alloc:
						add(a)
					case *ssa.FieldAddr:
						add(a.X)
					case *ssa.FreeVar:
						add(a) // a variable captured by the closure: later loads of the cell see the value
					}
				}
			case *ssa.UnOp:
				add(in) // load from a tainted alloc
			case *ssa.IndexAddr, *ssa.FieldAddr:
			case ssa.CallInstruction:
				if val, ok := in.(ssa.Value); ok && tupleHasError(val.Type()) {
					add(val)
				}
			case *ssa.BinOp:
				// v != nil controlling a return of a non-nil error
				if nn, ok := isNilCheck(in, x); ok {
					for _, rr := range *in.Referrers() {
						ifi, ok := rr.(*ssa.If)
						if !ok {
							continue
						}
						succ := ifi.Block().Succs[0]
						if !nn {
							succ = ifi.Block().Succs[1]
						}
						region := reach(ifi.Block(), map[*ssa.BasicBlock]bool{})
						_ = region
						if returnsNonNilError(succ, ifi.Block()) {
							reached = true
						}
					}
				}
			}
		}
	}
	return reached
}

// returnsNonNilError: the branch starting at b (entered only from `from`) never rejoins other control flow and
// every path in it ends in a return whose last result is not the nil constant.
func returnsNonNilError(b, from *ssa.BasicBlock) bool {
	if len(b.Preds) != 1 {
		return false
	}
	seen := map[*ssa.BasicBlock]bool{}
	var ok func(x *ssa.BasicBlock) bool
	ok = func(x *ssa.BasicBlock) bool {
		if seen[x] {
			return true
		}
		seen[x] = true
		if x != b && !b.Dominates(x) {
			return false // rejoined the normal flow
		}
		switch v := x.Instrs[len(x.Instrs)-1].(type) {
		case *ssa.Return:
			return len(v.Results) > 0 && !isNilConst(retLast(v))
		case *ssa.Panic:
			return false
		}
		if len(x.Succs) == 0 {
			return false
		}
		for _, s := range x.Succs {
			if !ok(s) {
				return false
			}
		}
		return true
	}
	return ok(b)
}

// exitCallIn returns the os.Exit status of the first os.Exit call in block b (and its index), if any.
func exitCallIn(b *ssa.BasicBlock) (status int64, constant_ bool, idx int, found bool) {
	for i, in := range b.Instrs {
		call, ok := in.(*ssa.Call)
		if !ok {
			continue
		}
		if staticCalleeName(call) == "os.Exit" {
			if k, ok := call.Call.Args[0].(*ssa.Const); ok && k.Value != nil {
				n, _ := constant.Int64Val(constant.ToInt(k.Value))
				return n, true, i, true
			}
			return 0, false, i, true
		}
	}
	return 0, false, -1, false
}

// checkMainExit decides: every branch taken on a non-nil error in main ends in os.Exit(non-zero) without
// panicking, returning or reaching os.Exit(0); no call to panic in main.
func checkMainExit(c *Ctx, rule string) {
	fn := c.mainFunc()
	if fn == nil {
		c.Lost(rule, "cmd/emerge main.main")
		return
	}
	c.Analysed("cmd/emerge.main")
	nErrIfs := 0
	for _, b := range fn.Blocks {
		if _, ok := b.Instrs[len(b.Instrs)-1].(*ssa.Panic); ok {
			c.Fail(rule, "no panic in main", b.Instrs[len(b.Instrs)-1].Pos(), "main calls panic: the user sees a Go stack trace instead of a message and an exit status")
		}
		ifi, ok := b.Instrs[len(b.Instrs)-1].(*ssa.If)
		if !ok {
			continue
		}
		bo, ok := ifi.Cond.(*ssa.BinOp)
		if !ok {
			continue
		}
		var ev ssa.Value
		if isErrorType(bo.X.Type()) && isNilConst(bo.Y) {
			ev = bo.X
		} else if isErrorType(bo.Y.Type()) && isNilConst(bo.X) {
			ev = bo.Y
		}
		if ev == nil {
			continue
		}
		nn, ok := isNilCheck(bo, ev)
		if !ok {
			continue
		}
		nErrIfs++
		start := b.Succs[0]
		if !nn {
			start = b.Succs[1]
		}
		// explore the error branch; a block with os.Exit is terminal
		what := describeErrSource(ev)
		bad := ""
		seen := map[*ssa.BasicBlock]bool{}
		var walk func(x *ssa.BasicBlock)
		walk = func(x *ssa.BasicBlock) {
			if seen[x] || bad != "" {
				return
			}
			seen[x] = true
			if st, isConst, _, found := exitCallIn(x); found {
				if !isConst || st == 0 {
					bad = "reaches os.Exit with status 0 (or a non-constant status)"
				}
				return
			}
			switch x.Instrs[len(x.Instrs)-1].(type) {
			case *ssa.Return:
				bad = "falls out of main (exit status 0)"
				return
			case *ssa.Panic:
				bad = "panics (stack trace)"
				return
			}
			for _, s := range x.Succs {
				walk(s)
			}
		}
		walk(start)
		c.Check(rule, "error branch of main ends in a non-zero exit: "+what, ifi.Pos(), bad == "", "the branch taken when "+what+" fails "+bad)
		// a message is printed: the error value flows into some call before the exit
		msg := false
		for x := range seen {
			for _, in := range x.Instrs {
				if call, ok := in.(ssa.CallInstruction); ok {
					for _, a := range call.Common().Args {
						for _, r := range rootsOfArg(fn, a) {
							if r == ev {
								msg = true
							}
						}
					}
				}
			}
		}
		if bad == "" {
			c.Check(rule, "error branch of main prints the error: "+what, ifi.Pos(), msg, "the error is not passed to any output call before exiting")
		}
	}
	if nErrIfs == 0 {
		c.Lost(rule, "error tests in main")
	}
	// success path: falling out of main or os.Exit(0) only; every explicit Exit status is a constant
	for _, b := range fn.Blocks {
		if _, isConst, _, found := exitCallIn(b); found && !isConst {
			c.Fail(rule, "exit status is a constant", b.Instrs[0].Pos(), "os.Exit is called with a computed status")
		}
	}
}

func describeErrSource(v ssa.Value) string {
	if ex, ok := v.(*ssa.Extract); ok {
		v = ex.Tuple
	}
	if call, ok := v.(*ssa.Call); ok {
		if n := staticCalleeName(call); n != "" {
			return n
		}
		return "an indirect call"
	}
	return fmt.Sprintf("%T", v)
}

// rootsOfArg follows an argument through the varargs slice idiom to the values stored in it.
func rootsOfArg(fn *ssa.Function, a ssa.Value) []ssa.Value {
	out := []ssa.Value{a}
	seen := map[ssa.Value]bool{}
	var walk func(v ssa.Value)
	walk = func(v ssa.Value) {
		if seen[v] {
			return
		}
		seen[v] = true
		out = append(out, v)
		switch x := v.(type) {
		case *ssa.Slice:
			walk(x.X)
		case *ssa.Alloc:
			for _, r := range *x.Referrers() {
				if ia, ok := r.(*ssa.IndexAddr); ok {
					for _, rr := range *ia.Referrers() {
						if st, ok := rr.(*ssa.Store); ok {
							walk(st.Val)
						}
					}
				}
			}
		case *ssa.MakeInterface:
			walk(x.X)
		case *ssa.ChangeInterface:
			walk(x.X)
		}
	}
	walk(a)
	return out
}

// recordedUnconditionally: every use of error value v that records it (a call taking it, a return of it) sits in a block
// whose controlling conditions, beyond those already controlling v's definition, are only the nil test of v itself.
func recordedUnconditionally(v ssa.Value) (bool, string) {
	def, ok := v.(ssa.Instruction)
	if !ok {
		return false, "error value has no defining instruction"
	}
	base := map[ssa.Value]bool{}
	for _, cd := range controlConds(def.Block()) {
		base[cd.v] = true
	}
	n := 0
	for _, r := range *v.Referrers() {
		var blk *ssa.BasicBlock
		switch in := r.(type) {
		case ssa.CallInstruction:
			blk = in.Block()
		case *ssa.Return:
			blk = in.Block()
		case *ssa.Store:
			blk = in.Block()
		case *ssa.MakeInterface, *ssa.ChangeInterface:
			blk = r.Block()
		default:
			continue
		}
		n++
		for _, cd := range controlConds(blk) {
			if base[cd.v] {
				continue
			}
			if _, isNil := isNilCheck(cd.v, v); isNil {
				continue
			}
			return false, "the error is recorded only under an additional condition (" + cd.v.String() + ")"
		}
	}
	if n == 0 {
		return false, "the error is never recorded"
	}
	return true, ""
}
