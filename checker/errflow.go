package main

// Error discipline helpers on SSA: error-reaches-return, exit-status analysis of main.

import (
	"fmt"
	"go/constant"
	"go/token"
	"go/types"
	"strings"

	"golang.org/x/tools/go/ssa"
)

func isErrorType(t types.Type) bool {
	if isErr(t) {
		return true
	}
	// pointer types implementing error (e.g. *errors.MultiError)
	if p, ok := t.(*types.Pointer); ok {
		if _, n := namedTypeName(p.Elem()); n == "MultiError" {
			return true
		}
	}
	return false
}

func tupleHasError(t types.Type) bool {
	if tu, ok := t.(*types.Tuple); ok {
		for i := 0; i < tu.Len(); i++ {
			if isErrorType(tu.At(i).Type()) {
				return true
			}
		}
		return false
	}
	return isErrorType(t) || isString(t)
}

// errReachesReturn: does the error value v reach the function's returned error, either by data flow
// (wrapping calls, phis, aggregation) or by a return of a non-nil error controlled by v != nil?
func errReachesReturn(fn *ssa.Function, v ssa.Value) bool {
	tainted := map[ssa.Value]bool{v: true}
	work := []ssa.Value{v}
	reached := false
	add := func(x ssa.Value) {
		if x != nil && !tainted[x] {
			tainted[x] = true
			work = append(work, x)
		}
	}
	for len(work) > 0 && !reached {
		x := work[len(work)-1]
		work = work[:len(work)-1]
		refs := x.Referrers()
		if refs == nil {
			continue
		}
		for _, r := range *refs {
			switch in := r.(type) {
			case *ssa.Return:
				reached = true
			case *ssa.Phi:
				add(in)
			case *ssa.MakeInterface:
				add(in)
			case *ssa.ChangeInterface:
				add(in)
			case *ssa.ChangeType:
				add(in)
			case *ssa.Extract:
				if isErrorType(in.Type()) || isString(in.Type()) {
					add(in)
				}
			case *ssa.Slice:
				add(in)
			case *ssa.Store:
				if in.Val == x {
					// storing into a local array element / alloc taints the aggregate and its loads
					switch a := in.Addr.(type) {
					case *ssa.IndexAddr:
						add(a.X)
					case *ssa.Alloc:
						add(a)
					case *ssa.FieldAddr:
						add(a.X)
					case *ssa.FreeVar:
						add(a) // a variable captured by the closure: later loads of the cell see the value
					}
				}
			case *ssa.UnOp:
				add(in) // load from a tainted alloc
			case *ssa.IndexAddr, *ssa.FieldAddr:
			case ssa.CallInstruction:
				if val, ok := in.(ssa.Value); ok && tupleHasError(val.Type()) {
					add(val)
				}
				// a helper of the module that hands the error back in another form (its parts as a []error, ordered):
				// the result carries the error when the parameter reaches one of the helper's returns
				if val, ok := in.(ssa.Value); ok && !tupleHasError(val.Type()) {
					if sl, isSl := val.Type().Underlying().(*types.Slice); isSl && isErrorType(sl.Elem()) {
						if callee := in.Common().StaticCallee(); callee != nil && len(callee.Blocks) > 0 && strings.HasPrefix(fnPkgPath(callee), modPath) && callee != fn {
							for i, a := range in.Common().Args {
								if a == x && i < len(callee.Params) && errReachesReturn(callee, callee.Params[i]) {
									add(val)
								}
							}
						}
					}
				}
				// collected in a list first: found = append(found, err)
				if bi, ok := in.Common().Value.(*ssa.Builtin); ok && bi.Name() == "append" {
					if val, ok := in.(ssa.Value); ok {
						add(val)
					}
				}
			case *ssa.BinOp:
				// v != nil controlling a return of a non-nil error
				if nn, ok := isNilCheck(in, x); ok {
					for _, rr := range *in.Referrers() {
						ifi, ok := rr.(*ssa.If)
						if !ok {
							continue
						}
						succ := ifi.Block().Succs[0]
						if !nn {
							succ = ifi.Block().Succs[1]
						}
						region := reach(ifi.Block(), map[*ssa.BasicBlock]bool{})
						_ = region
						if returnsNonNilError(succ, ifi.Block()) {
							reached = true
						}
					}
				}
			}
		}
	}
	return reached
}

// returnsNonNilError: the branch starting at b (entered only from `from`) never rejoins other control flow and
// every path in it ends in a return whose last result is not the nil constant.
func returnsNonNilError(b, from *ssa.BasicBlock) bool {
	if len(b.Preds) != 1 {
		return false
	}
	seen := map[*ssa.BasicBlock]bool{}
	var ok func(x *ssa.BasicBlock) bool
	ok = func(x *ssa.BasicBlock) bool {
		if seen[x] {
			return true
		}
		seen[x] = true
		if x != b && !b.Dominates(x) {
			return false // rejoined the normal flow
		}
		switch v := x.Instrs[len(x.Instrs)-1].(type) {
		case *ssa.Return:
			return len(v.Results) > 0 && !isNilConst(retLast(v))
		case *ssa.Panic:
			return false
		}
		if len(x.Succs) == 0 {
			return false
		}
		for _, s := range x.Succs {
			if !ok(s) {
				return false
			}
		}
		return true
	}
	return ok(b)
}

// exitCallIn returns the os.Exit status of the first os.Exit call in block b (and its index), if any.
func exitCallIn(b *ssa.BasicBlock) (status int64, constant_ bool, idx int, found bool) {
	for i, in := range b.Instrs {
		call, ok := in.(*ssa.Call)
		if !ok {
			continue
		}
		if staticCalleeName(call) == "os.Exit" {
			if k, ok := call.Call.Args[0].(*ssa.Const); ok && k.Value != nil {
				n, _ := constant.Int64Val(constant.ToInt(k.Value))
				return n, true, i, true
			}
			return 0, false, i, true
		}
	}
	return 0, false, -1, false
}

// checkMainExit decides: every branch taken on a non-nil error in main ends in os.Exit(non-zero) without
// panicking, returning or reaching os.Exit(0); no call to panic in main.
func checkMainExit(c *Ctx, rule string) {
	fn := c.mainFunc()
	if fn == nil {
		c.Lost(rule, "cmd/emerge main.main")
		return
	}
	c.Analysed("cmd/emerge.main")
	// main may hand the whole job to a function whose result is the exit status (os.Exit(run(...))): that function's returns
	// are then the exits, and its error branches are what the rule is about
	asExit := false
	for _, b := range fn.Blocks {
		for _, in := range b.Instrs {
			if call, ok := in.(*ssa.Call); ok && staticCalleeName(call) == "os.Exit" {
				if inner, ok := call.Call.Args[0].(*ssa.Call); ok {
					if g := inner.Call.StaticCallee(); g != nil && len(g.Blocks) > 0 && strings.HasPrefix(fnPkgPath(g), modPath) && g.Signature.Results().Len() == 1 {
						fn = g
						asExit = true
						c.Analysed(shortFn(g))
					}
				}
			}
		}
	}
	mainFn := c.mainFunc()
	nErrIfs := 0
	for _, b := range fn.Blocks {
		if _, ok := b.Instrs[len(b.Instrs)-1].(*ssa.Panic); ok {
			c.Fail(rule, "no panic in main", b.Instrs[len(b.Instrs)-1].Pos(), "main calls panic: the user sees a Go stack trace instead of a message and an exit status")
		}
		ifi, ok := b.Instrs[len(b.Instrs)-1].(*ssa.If)
		if !ok {
			continue
		}
		bo, ok := ifi.Cond.(*ssa.BinOp)
		if !ok {
			continue
		}
		var ev ssa.Value
		if isErrorType(bo.X.Type()) && isNilConst(bo.Y) {
			ev = bo.X
		} else if isErrorType(bo.Y.Type()) && isNilConst(bo.X) {
			ev = bo.Y
		}
		if ev == nil {
			continue
		}
		nn, ok := isNilCheck(bo, ev)
		if !ok {
			continue
		}
		nErrIfs++
		start := b.Succs[0]
		if !nn {
			start = b.Succs[1]
		}
		// explore the error branch; a block with os.Exit is terminal
		what := describeErrSource(ev)
		bad := ""
		undecidedStatus := false
		seen := map[*ssa.BasicBlock]bool{}
		var walk func(x *ssa.BasicBlock)
		walk = func(x *ssa.BasicBlock) {
			if seen[x] || bad != "" {
				return
			}
			seen[x] = true
			if st, isConst, _, found := exitCallIn(x); found {
				if !isConst || st == 0 {
					bad = "reaches os.Exit with status 0 (or a non-constant status)"
				}
				return
			}
			switch last := x.Instrs[len(x.Instrs)-1].(type) {
			case *ssa.Return:
				if asExit && len(last.Results) == 1 {
					sts, ok := constStatuses(last.Results[0], 0)
					if !ok {
						undecidedStatus = true
						return
					}
					for _, st := range sts {
						if st == 0 {
							bad = "returns exit status 0"
						}
					}
					return
				}
				bad = "falls out of main (exit status 0)"
				return
			case *ssa.Panic:
				bad = "panics (stack trace)"
				return
			}
			for _, s := range x.Succs {
				walk(s)
			}
		}
		walk(start)
		if bad == "" && undecidedStatus {
			c.Undecided(rule, "error branch of main ends in a non-zero exit: "+what, ifi.Pos(), "the status returned on this branch is not a constant this rule can follow")
			continue
		}
		c.Check(rule, "error branch of main ends in a non-zero exit: "+what, ifi.Pos(), bad == "", "the branch taken when "+what+" fails "+bad)
		// a message is printed: the error value flows into some call before the exit
		msg := false
		for x := range seen {
			for _, in := range x.Instrs {
				if call, ok := in.(ssa.CallInstruction); ok {
					for _, a := range call.Common().Args {
						for _, r := range rootsOfArg(fn, a) {
							if r == ev {
								msg = true
							}
						}
					}
				}
			}
		}
		if bad == "" {
			c.Check(rule, "error branch of main prints the error: "+what, ifi.Pos(), msg, "the error is not passed to any output call before exiting")
		}
	}
	if nErrIfs == 0 {
		c.Lost(rule, "error tests in main")
	}
	// success path: falling out of main or os.Exit(0) only; every explicit Exit status is a constant
	for _, f := range []*ssa.Function{mainFn, fn} {
		if f == nil || (f == fn && fn == mainFn) {
			if f == nil {
				continue
			}
		}
		for _, b := range f.Blocks {
			if _, isConst, idx, found := exitCallIn(b); found && !isConst {
				arg := b.Instrs[idx].(*ssa.Call).Call.Args[0]
				if _, ok := constStatuses(arg, 0); ok {
					continue // the status is the result of a function all of whose returns are constants
				}
				c.Undecided(rule, "exit status is a constant", b.Instrs[0].Pos(), "os.Exit is called with a computed status that does not resolve to constants")
			}
		}
		if fn == mainFn {
			break
		}
	}
}

// constStatuses resolves an exit status to the constants it can be: a constant, a phi of such, the result of a function
// (or closure) all of whose returns are such, or a parameter of it, taken from the argument at this call.
func constStatuses(v ssa.Value, depth int) ([]int64, bool) {
	if depth > 4 {
		return nil, false
	}
	switch x := v.(type) {
	case *ssa.Const:
		if x.Value == nil {
			return nil, false
		}
		n, ok := constant.Int64Val(constant.ToInt(x.Value))
		return []int64{n}, ok
	case *ssa.Convert:
		return constStatuses(x.X, depth+1)
	case *ssa.ChangeType:
		return constStatuses(x.X, depth+1)
	case *ssa.Phi:
		var out []int64
		for _, e := range x.Edges {
			r, ok := constStatuses(e, depth+1)
			if !ok {
				return nil, false
			}
			out = append(out, r...)
		}
		return out, true
	case *ssa.Call:
		var g *ssa.Function
		if sc := x.Call.StaticCallee(); sc != nil {
			g = sc
		} else if mc, ok := x.Call.Value.(*ssa.MakeClosure); ok {
			g, _ = mc.Fn.(*ssa.Function)
		} else if u, ok := x.Call.Value.(*ssa.UnOp); ok && u.Op == token.MUL {
			// a closure kept in a local variable
			if al, ok := u.X.(*ssa.Alloc); ok {
				for _, r := range *al.Referrers() {
					if st, ok := r.(*ssa.Store); ok && st.Addr == ssa.Value(al) {
						if mc, ok := st.Val.(*ssa.MakeClosure); ok {
							g, _ = mc.Fn.(*ssa.Function)
						}
					}
				}
			}
		}
		if g == nil || len(g.Blocks) == 0 || g.Signature.Results().Len() != 1 {
			return nil, false
		}
		var out []int64
		for _, b := range g.Blocks {
			ret, ok := b.Instrs[len(b.Instrs)-1].(*ssa.Return)
			if !ok {
				continue
			}
			rv := ret.Results[0]
			if p, ok := rv.(*ssa.Parameter); ok {
				pi := -1
				for i, q := range g.Params {
					if q == p {
						pi = i
					}
				}
				if pi < 0 || pi >= len(x.Call.Args) {
					return nil, false
				}
				rv = x.Call.Args[pi]
				r, ok := constStatuses(rv, depth+1)
				if !ok {
					return nil, false
				}
				out = append(out, r...)
				continue
			}
			r, ok := constStatuses(rv, depth+1)
			if !ok {
				return nil, false
			}
			out = append(out, r...)
		}
		return out, len(out) > 0
	}
	return nil, false
}

func describeErrSource(v ssa.Value) string {
	if ex, ok := v.(*ssa.Extract); ok {
		v = ex.Tuple
	}
	if call, ok := v.(*ssa.Call); ok {
		if n := staticCalleeName(call); n != "" {
			return n
		}
		return "an indirect call"
	}
	return fmt.Sprintf("%T", v)
}

// rootsOfArg follows an argument through the varargs slice idiom to the values stored in it.
func rootsOfArg(fn *ssa.Function, a ssa.Value) []ssa.Value {
	out := []ssa.Value{a}
	seen := map[ssa.Value]bool{}
	var walk func(v ssa.Value)
	walk = func(v ssa.Value) {
		if seen[v] {
			return
		}
		seen[v] = true
		out = append(out, v)
		switch x := v.(type) {
		case *ssa.Slice:
			walk(x.X)
		case *ssa.Alloc:
			for _, r := range *x.Referrers() {
				if ia, ok := r.(*ssa.IndexAddr); ok {
					for _, rr := range *ia.Referrers() {
						if st, ok := rr.(*ssa.Store); ok {
							walk(st.Val)
						}
					}
				}
			}
		case *ssa.MakeInterface:
			walk(x.X)
		case *ssa.ChangeInterface:
			walk(x.X)
		}
	}
	walk(a)
	return out
}

// recordedUnconditionally: every use of error value v that records it (a call taking it, a return of it) sits in a block
// whose controlling conditions, beyond those already controlling v's definition, are only the nil test of v itself.
func recordedUnconditionally(v ssa.Value) (bool, string) {
	def, ok := v.(ssa.Instruction)
	if !ok {
		return false, "error value has no defining instruction"
	}
	base := map[ssa.Value]bool{}
	for _, cd := range controlConds(def.Block()) {
		base[cd.v] = true
	}
	n := 0
	// the value and, when it is first parked in a local cell (a named result, a variable captured by a closure), the loads of
	// that cell: parking it is not yet recording it
	aliases := []ssa.Value{v}
	cellStore := map[ssa.Instruction]bool{}
	for _, r := range *v.Referrers() {
		if st, ok := r.(*ssa.Store); ok && st.Val == v {
			if a, ok := st.Addr.(*ssa.Alloc); ok && a.Referrers() != nil {
				cellStore[st] = true
				for _, rr := range *a.Referrers() {
					if u, ok := rr.(*ssa.UnOp); ok && u.Op == token.MUL && u.X == ssa.Value(a) {
						if vals, _ := reachingStores(u, a); len(vals) > 0 {
							for _, rv := range vals {
								if rv == v {
									aliases = append(aliases, u)
								}
							}
						}
					}
				}
			}
		}
	}
	isNilOfAlias := func(cv ssa.Value) bool {
		for _, a := range aliases {
			if _, isNil := isNilCheck(cv, a); isNil {
				return true
			}
		}
		return false
	}
	for _, al := range aliases {
		if al.Referrers() == nil {
			continue
		}
		for _, r := range *al.Referrers() {
			var blk *ssa.BasicBlock
			switch in := r.(type) {
			case ssa.CallInstruction:
				blk = in.Block()
			case *ssa.Return:
				blk = in.Block()
			case *ssa.Store:
				if cellStore[in] {
					continue
				}
				// putting a loaded result back into its own cell before the deferred calls run is bookkeeping of the return
				if u, ok := al.(*ssa.UnOp); ok && in.Addr == u.X {
					blk = in.Block()
				} else {
					blk = in.Block()
				}
			case *ssa.MakeInterface, *ssa.ChangeInterface:
				blk = r.Block()
			default:
				continue
			}
			n++
			for _, cd := range controlConds(blk) {
				if base[cd.v] {
					continue
				}
				if isNilOfAlias(cd.v) {
					continue
				}
				return false, "the error is recorded only under an additional condition (" + cd.v.String() + ")"
			}
		}
	}
	if n == 0 {
		return false, "the error is never recorded"
	}
	return true, ""
}

// checkDeferOverwrite: a deferred function literal that assigns the enclosing function's named error result must not wipe out an
// error the body has already put there. Accepted: the assignment is made only where the result is nil (`if err == nil { err = cerr }`),
// or the new value is built from the old one (errors.Join(err, cerr), fmt.Errorf("...%w", err)). An unconditional `err = f.Close()`
// turns a failed write into success whenever closing succeeds.
func checkDeferOverwrite(c *Ctx, rule string, funcs []*ssa.Function) {
	n := 0
	for _, f := range funcs {
		for _, b := range f.Blocks {
			for _, in := range b.Instrs {
				d, ok := in.(*ssa.Defer)
				if !ok {
					continue
				}
				mc, ok := d.Call.Value.(*ssa.MakeClosure)
				if !ok {
					continue
				}
				cl, _ := mc.Fn.(*ssa.Function)
				if cl == nil {
					continue
				}
				for bi, bind := range mc.Bindings {
					al, ok := bind.(*ssa.Alloc)
					if !ok || !isErr(al.Type().(*types.Pointer).Elem()) || bi >= len(cl.FreeVars) {
						continue
					}
					// the cell of a named result: it is what the function's returns load after running the defers
					isResult := false
					for _, fb := range f.Blocks {
						if ret, ok := fb.Instrs[len(fb.Instrs)-1].(*ssa.Return); ok {
							for _, rv := range ret.Results {
								if u, ok := rv.(*ssa.UnOp); ok && u.Op == token.MUL && u.X == ssa.Value(al) {
									isResult = true
								}
							}
						}
					}
					if !isResult {
						continue
					}
					fv := cl.FreeVars[bi]
					for _, cb := range cl.Blocks {
						for _, cin := range cb.Instrs {
							st, ok := cin.(*ssa.Store)
							if !ok || st.Addr != ssa.Value(fv) {
								continue
							}
							n++
							key := shortFn(f) + ": a deferred assignment to the error result keeps an error that is already there"
							guarded := false
							for _, cd := range controlConds(cb) {
								bo, ok := cd.v.(*ssa.BinOp)
								if !ok || (bo.Op != token.EQL && bo.Op != token.NEQ) {
									continue
								}
								isOld := func(v ssa.Value) bool {
									u, ok := v.(*ssa.UnOp)
									return ok && u.Op == token.MUL && u.X == ssa.Value(fv)
								}
								if (isOld(bo.X) && isNilConst(bo.Y)) || (isOld(bo.Y) && isNilConst(bo.X)) {
									if (bo.Op == token.EQL) == cd.pol {
										guarded = true
									}
								}
							}
							// under `recover() != nil` the body did not get to return anything: there is no earlier error to keep
							for _, cd := range controlConds(cb) {
								bo, ok := cd.v.(*ssa.BinOp)
								if !ok || (bo.Op != token.EQL && bo.Op != token.NEQ) || (bo.Op == token.NEQ) != cd.pol {
									continue
								}
								for _, side := range []ssa.Value{bo.X, bo.Y} {
									if call, ok := side.(*ssa.Call); ok {
										if bi, ok := call.Call.Value.(*ssa.Builtin); ok && bi.Name() == "recover" {
											guarded = true
										}
									}
								}
							}
							// the new value is built from the old one
							fromOld := false
							seen := map[ssa.Value]bool{}
							var walk func(v ssa.Value, depth int)
							walk = func(v ssa.Value, depth int) {
								if v == nil || seen[v] || depth > 8 {
									return
								}
								seen[v] = true
								if u, ok := v.(*ssa.UnOp); ok && u.Op == token.MUL && u.X == ssa.Value(fv) {
									fromOld = true
									return
								}
								if ins, ok := v.(ssa.Instruction); ok {
									for _, op := range ins.Operands(nil) {
										if *op != nil {
											walk(*op, depth+1)
										}
									}
								}
								// a variadic argument list: the values stored into the backing array
								if sl, ok := v.(*ssa.Slice); ok {
									if arr, ok := sl.X.(*ssa.Alloc); ok && arr.Referrers() != nil {
										for _, r := range *arr.Referrers() {
											if ia, ok := r.(*ssa.IndexAddr); ok && ia.Referrers() != nil {
												for _, rr := range *ia.Referrers() {
													if s2, ok := rr.(*ssa.Store); ok {
														walk(s2.Val, depth+1)
													}
												}
											}
										}
									}
								}
							}
							walk(st.Val, 0)
							c.Check(rule, key, st.Pos(), guarded || fromOld,
								"the deferred function assigns the error result whether or not the body already failed: the error of the body (a failed write) is replaced by the outcome of the deferred call, so a run whose output was cut short reports success when that call succeeds",
								"a write error while a generated file is rendered (disk full, quota, file size limit): exit status 0 and a truncated file")
						}
					}
				}
			}
		}
	}
	c.Extra("deferred_result_assignments", n)
}

// errWraps decides whether the error value ret, returned by fn, carries the error value orig: it is orig, a struct literal with
// orig stored in a field (a *ParseError with Cause: err), the result of fmt.Errorf / errors.Join with orig among its arguments,
// or the result of a function of the module whose every return carries the corresponding parameter. 1 yes, 0 no, -1 unknown.
func errWraps(fn *ssa.Function, ret ssa.Value, orig ssa.Value, depth int) (int, string) {
	if depth > 3 {
		return -1, "too deep"
	}
	if ret == orig {
		return 1, ""
	}
	switch x := ret.(type) {
	case *ssa.MakeInterface:
		return errWraps(fn, x.X, orig, depth)
	case *ssa.ChangeInterface:
		return errWraps(fn, x.X, orig, depth)
	case *ssa.Alloc:
		// a struct literal: some field store holds orig
		for _, r := range *x.Referrers() {
			if fa, ok := r.(*ssa.FieldAddr); ok && fa.Referrers() != nil {
				for _, rr := range *fa.Referrers() {
					if st, ok := rr.(*ssa.Store); ok && st.Addr == ssa.Value(fa) {
						if st.Val == orig {
							return 1, ""
						}
						if mi, ok := st.Val.(*ssa.MakeInterface); ok && mi.X == orig {
							return 1, ""
						}
						if ci, ok := st.Val.(*ssa.ChangeInterface); ok && ci.X == orig {
							return 1, ""
						}
					}
				}
			}
		}
		return 0, "a freshly built error value that does not hold the callback's error"
	case *ssa.Phi:
		worst := 1
		why := ""
		for _, e := range x.Edges {
			r, w := errWraps(fn, e, orig, depth+1)
			if r < worst {
				worst, why = r, w
			}
		}
		return worst, why
	case *ssa.UnOp:
		if x.Op == token.MUL {
			if a, ok := x.X.(*ssa.Alloc); ok {
				vals, entry := reachingStores(x, a)
				if entry || len(vals) == 0 {
					// a local that something else filled in (errors.As target): not the callback's error itself
					return 0, "a value read from a local variable that was filled in by a call (an error picked out of the callback's error, not that error)"
				}
				worst, why := 1, ""
				for _, v := range vals {
					r, w := errWraps(fn, v, orig, depth+1)
					if r < worst {
						worst, why = r, w
					}
				}
				return worst, why
			}
		}
		return -1, "a loaded value"
	case *ssa.Call:
		name := staticCalleeName(x)
		argHas := func() bool {
			for _, a := range x.Call.Args {
				if a == orig {
					return true
				}
				if mi, ok := a.(*ssa.MakeInterface); ok && mi.X == orig {
					return true
				}
				// variadic: the backing array's element stores
				if sl, ok := a.(*ssa.Slice); ok {
					if arr, ok := sl.X.(*ssa.Alloc); ok && arr.Referrers() != nil {
						for _, r := range *arr.Referrers() {
							if ia, ok := r.(*ssa.IndexAddr); ok && ia.Referrers() != nil {
								for _, rr := range *ia.Referrers() {
									if st, ok := rr.(*ssa.Store); ok {
										v := st.Val
										if mi, ok := v.(*ssa.MakeInterface); ok {
											v = mi.X
										}
										if ci, ok := v.(*ssa.ChangeInterface); ok {
											v = ci.X
										}
										if v == orig {
											return true
										}
									}
								}
							}
						}
					}
				}
			}
			return false
		}
		switch name {
		case "fmt.Errorf", "errors.Join":
			if argHas() {
				return 1, ""
			}
			return 0, "a new error that does not mention the callback's error"
		}
		callee := x.Call.StaticCallee()
		if callee == nil || len(callee.Blocks) == 0 || !strings.HasPrefix(fnPkgPath(callee), modPath) {
			return -1, "result of a call that is not followed"
		}
		pi := -1
		for i, a := range x.Call.Args {
			if a == orig && i < len(callee.Params) {
				pi = i
			}
		}
		if pi < 0 {
			return -1, "the callback's error is not an argument of the call"
		}
		worst, why := 1, ""
		n := 0
		for _, b := range callee.Blocks {
			r, ok := b.Instrs[len(b.Instrs)-1].(*ssa.Return)
			if !ok || len(r.Results) == 0 {
				continue
			}
			n++
			res, w := errWraps(callee, retOperand(r, len(r.Results)-1), callee.Params[pi], depth+1)
			if res < worst {
				worst, why = res, shortFn(callee)+" returns "+w
			}
		}
		if n == 0 {
			return -1, "callee without returns"
		}
		return worst, why
	}
	return -1, "a value this rule does not follow"
}
