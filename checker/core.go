package main

import (
	"encoding/json"
	"fmt"
	"go/ast"
	"go/token"
	"go/types"
	"os"
	"path/filepath"
	"sort"
	"strings"
	"time"

	"golang.org/x/tools/go/packages"
	"golang.org/x/tools/go/ssa"
	"golang.org/x/tools/go/ssa/ssautil"
)

const modPath = "github.com/gardenbed/emerge"
const depPath = "github.com/moorara/algo"

// Ob is one obligation: a rule instance applied to one construct.
type Ob struct {
	Rule    string `json:"rule"`
	Key     string `json:"key"` // construct key; never contains line numbers
	Pos     string `json:"pos,omitempty"`
	OK      bool   `json:"ok"`
	Detail  string `json:"detail,omitempty"`
	Witness string `json:"witness,omitempty"` // failing input / path when !OK
	Undecided bool `json:"undecided,omitempty"` // the analysis could not decide (restructured code): reported, not a violation
}

// Ctx is the state of one property check.
type Ctx struct {
	Prop string
	Tier string
	Repo string
	Verif string

	Fset  *token.FileSet
	Pkgs  []*packages.Package          // module packages (roots)
	All   map[string]*packages.Package // every package in the import closure
	Prog  *ssa.Program
	SSAPk map[string]*ssa.Package

	Obs       []Ob
	floors    map[string]int
	ruleDoc   map[string]string
	samples   []string
	analysedF map[string]bool // functions analysed
	analysedP map[string]bool
	extra     map[string]any
	notes     []string
	mute      map[string]bool // rules of another property whose discharged obligations are not recorded here

	fieldStoreIdx map[string][]*ssa.Store
}

func (c *Ctx) rel(p token.Pos) string {
	if !p.IsValid() {
		return ""
	}
	pos := c.Fset.Position(p)
	f := pos.Filename
	if r, err := filepath.Rel(c.Repo, f); err == nil && !strings.HasPrefix(r, "..") {
		f = r
	}
	return fmt.Sprintf("%s:%d:%d", f, pos.Line, pos.Column)
}

// Rule declares a rule with the minimum number of instances confirmed by hand on the pinned tree.
func (c *Ctx) Rule(id string, floor int, doc string) {
	c.floors[id] = floor
	c.ruleDoc[id] = doc
}

func (c *Ctx) Check(rule, key string, pos token.Pos, ok bool, detail string, witness ...string) bool {
	if ok && c.mute[rule] {
		return ok
	}
	o := Ob{Rule: rule, Key: key, Pos: c.rel(pos), OK: ok}
	if !ok {
		o.Detail = detail
		if len(witness) > 0 {
			o.Witness = strings.Join(witness, " ")
		}
	}
	c.Obs = append(c.Obs, o)
	return ok
}

func (c *Ctx) Pass(rule, key string, pos token.Pos, detail string) {
	c.Obs = append(c.Obs, Ob{Rule: rule, Key: key, Pos: c.rel(pos), OK: true, Detail: detail})
}

func (c *Ctx) Fail(rule, key string, pos token.Pos, detail string, witness ...string) {
	c.Check(rule, key, pos, false, detail, witness...)
}

// Lost reports an anchor that could not be resolved: a rule that matches nothing must not pass.
func (c *Ctx) Lost(rule, what string) {
	c.Check(rule, "anchor-lost:"+what, token.NoPos, false, "anchor could not be resolved in the current tree: "+what)
	c.Obs[len(c.Obs)-1].Undecided = true
}

// Undecided records a construct the analysis does not understand. It is not a violation: the rule says nothing about this
// code (it may have been restructured). It is printed, recorded in the evidence, and fails only under EMCHECK_STRICT=1.
func (c *Ctx) Undecided(rule, key string, pos token.Pos, why string) {
	c.Check(rule, "undecided:"+key, pos, false, "construct not understood by the analysis: "+why)
	c.Obs[len(c.Obs)-1].Undecided = true
}

func (c *Ctx) Sample(format string, a ...any) {
	if len(c.samples) < 60 {
		c.samples = append(c.samples, fmt.Sprintf(format, a...))
	}
}

func (c *Ctx) Note(format string, a ...any) { c.notes = append(c.notes, fmt.Sprintf(format, a...)) }

func (c *Ctx) Analysed(fn string) { c.analysedF[fn] = true }

func (c *Ctx) Extra(k string, v any) { c.extra[k] = v }

// ---------- loading ----------

func load(repo string, withSSA bool) (*Ctx, error) {
	os.Unsetenv("GOWORK")
	fset := token.NewFileSet()
	cfg := &packages.Config{
		Mode:  packages.LoadAllSyntax,
		Dir:   repo,
		Fset:  fset,
		Tests: false,
		Env:   append(os.Environ(), "GOFLAGS=-mod=mod", "GOPROXY=off", "GOWORK=off"),
	}
	pkgs, err := packages.Load(cfg, "./...")
	if err != nil {
		return nil, fmt.Errorf("packages.Load: %v", err)
	}
	c := &Ctx{Repo: repo, Fset: fset, Pkgs: pkgs, All: map[string]*packages.Package{},
		floors: map[string]int{}, ruleDoc: map[string]string{}, analysedF: map[string]bool{}, analysedP: map[string]bool{}, extra: map[string]any{},
		SSAPk: map[string]*ssa.Package{}}
	var errs []string
	packages.Visit(pkgs, nil, func(p *packages.Package) {
		c.All[p.PkgPath] = p
		if strings.HasPrefix(p.PkgPath, modPath) {
			for _, e := range p.Errors {
				errs = append(errs, e.Error())
			}
			if p.IllTyped {
				errs = append(errs, p.PkgPath+": ill-typed")
			}
		}
	})
	n := 0
	for _, p := range pkgs {
		if strings.HasPrefix(p.PkgPath, modPath) {
			n++
			c.analysedP[p.PkgPath] = true
		}
	}
	if n < 12 {
		return nil, fmt.Errorf("only %d module packages loaded from %s (expected >= 12)", n, repo)
	}
	if len(errs) > 0 {
		return nil, fmt.Errorf("type/load errors: %s", strings.Join(errs, "; "))
	}
	if os.Getenv("EMCHECK_NO_NORMALIZE") == "" {
		for _, p := range pkgs {
			normalizePackage(p)
		}
	}
	for _, p := range pkgs {
		AllFuncDecls(p, func(fd *ast.FuncDecl) {
			if fd.Recv != nil || fd.Body == nil {
				return
			}
			if fo, ok := p.TypesInfo.Defs[fd.Name].(*types.Func); ok {
				sig := fo.Type().(*types.Signature)
				if sig.Params().Len() == 1 && sig.Results().Len() == 1 {
					if b, ok := sig.Results().At(0).Type().Underlying().(*types.Basic); ok && b.Kind() == types.Bool {
						predicateDecls[fo] = fd
					}
				}
			}
		})
	}
	// package-level tables of booleans whose content is known statically and that nothing writes afterwards
	for _, p := range pkgs {
		cand := map[*types.Var]*boolTable{}
		for _, file := range p.Syntax {
			for _, d := range file.Decls {
				gd, ok := d.(*ast.GenDecl)
				if !ok || gd.Tok != token.VAR {
					continue
				}
				for _, sp := range gd.Specs {
					vs := sp.(*ast.ValueSpec)
					if len(vs.Names) != 1 || len(vs.Values) != 1 {
						continue
					}
					v, _ := p.TypesInfo.Defs[vs.Names[0]].(*types.Var)
					if v == nil {
						continue
					}
					if bt := evalBoolTable(p.TypesInfo, vs.Values[0]); bt != nil {
						cand[v] = bt
					}
				}
			}
		}
		if len(cand) == 0 {
			continue
		}
		for _, file := range p.Syntax {
			ast.Inspect(file, func(n ast.Node) bool {
				mark := func(e ast.Expr) {
					for {
						switch x := ast.Unparen(e).(type) {
						case *ast.IndexExpr:
							e = x.X
							continue
						case *ast.SliceExpr:
							e = x.X
							continue
						case *ast.Ident:
							if v, ok := p.TypesInfo.Uses[x].(*types.Var); ok {
								delete(cand, v)
							}
						}
						return
					}
				}
				switch x := n.(type) {
				case *ast.AssignStmt:
					for _, l := range x.Lhs {
						mark(l)
					}
				case *ast.IncDecStmt:
					mark(x.X)
				case *ast.UnaryExpr:
					if x.Op == token.AND {
						mark(x.X)
					}
				case *ast.SliceExpr:
					mark(x.X) // a slice of the table can be written through
				}
				return true
			})
		}
		for v, bt := range cand {
			if v.Exported() {
				continue // another package could write it
			}
			boolTables[v] = bt
		}
	}
	if withSSA {
		prog, spkgs := ssautil.AllPackages(pkgs, ssa.InstantiateGenerics)
		prog.Build()
		c.Prog = prog
		for i, sp := range spkgs {
			if sp != nil {
				c.SSAPk[pkgs[i].PkgPath] = sp
			}
		}
		for _, sp := range prog.AllPackages() {
			c.SSAPk[sp.Pkg.Path()] = sp
		}
	}
	return c, nil
}

// Pkg returns a module package by path relative to the module root ("" = root, "internal/ebnf/lexer", ...).
func (c *Ctx) Pkg(rel string) *packages.Package {
	p := modPath
	if rel != "" {
		p += "/" + rel
	}
	return c.All[p]
}

func (c *Ctx) Dep(rel string) *packages.Package { return c.All[depPath+"/"+rel] }

// FuncDecl finds a function or method declaration. recv == "" for functions.
func FuncDecl(p *packages.Package, recv, name string) *ast.FuncDecl {
	if p == nil {
		return nil
	}
	for _, f := range p.Syntax {
		for _, d := range f.Decls {
			fd, ok := d.(*ast.FuncDecl)
			if !ok || fd.Name.Name != name {
				continue
			}
			if recv == "" && fd.Recv == nil {
				return fd
			}
			if recv != "" && fd.Recv != nil && len(fd.Recv.List) == 1 && recvName(fd.Recv.List[0].Type) == recv {
				return fd
			}
		}
	}
	return nil
}

func recvName(e ast.Expr) string {
	switch v := e.(type) {
	case *ast.StarExpr:
		return recvName(v.X)
	case *ast.Ident:
		return v.Name
	case *ast.IndexExpr:
		return recvName(v.X)
	case *ast.IndexListExpr:
		return recvName(v.X)
	}
	return ""
}

// AllFuncDecls iterates over all function declarations in a package.
func AllFuncDecls(p *packages.Package, f func(fd *ast.FuncDecl)) {
	for _, file := range p.Syntax {
		for _, d := range file.Decls {
			if fd, ok := d.(*ast.FuncDecl); ok {
				f(fd)
			}
		}
	}
}

func funcKey(p *packages.Package, fd *ast.FuncDecl) string {
	s := strings.TrimPrefix(p.PkgPath, modPath+"/")
	if fd.Recv != nil && len(fd.Recv.List) == 1 {
		return s + ".(" + recvName(fd.Recv.List[0].Type) + ")." + fd.Name.Name
	}
	return s + "." + fd.Name.Name
}

// PkgVarInit finds the initialiser expression of a package-level variable.
func PkgVarInit(p *packages.Package, name string) (ast.Expr, *ast.ValueSpec) {
	if p == nil {
		return nil, nil
	}
	for _, f := range p.Syntax {
		for _, d := range f.Decls {
			gd, ok := d.(*ast.GenDecl)
			if !ok {
				continue
			}
			for _, s := range gd.Specs {
				vs, ok := s.(*ast.ValueSpec)
				if !ok {
					continue
				}
				for i, n := range vs.Names {
					if n.Name == name {
						if i < len(vs.Values) {
							return vs.Values[i], vs
						}
						return nil, vs
					}
				}
			}
		}
	}
	return nil, nil
}

// SSAFunc finds the ssa function for a declared function or method.
func (c *Ctx) SSAFunc(p *packages.Package, fd *ast.FuncDecl) *ssa.Function {
	obj, _ := p.TypesInfo.Defs[fd.Name].(*types.Func)
	if obj == nil || c.Prog == nil {
		return nil
	}
	return c.Prog.FuncValue(obj)
}

// ---------- known findings ----------

type Finding struct {
	Property string `json:"property"`
	Rule     string `json:"rule"`
	Key      string `json:"key"`
	What     string `json:"what"`
	Input    string `json:"failing_input,omitempty"`
}

type KnownFile struct {
	Comment  string    `json:"comment"`
	Findings []Finding `json:"findings"`
	Fixed    []string  `json:"fixed"`
}

func loadKnown(verif string) KnownFile {
	var k KnownFile
	b, err := os.ReadFile(filepath.Join(verif, "known_findings.json"))
	if err == nil {
		if err := json.Unmarshal(b, &k); err != nil {
			fmt.Fprintln(os.Stderr, "known_findings.json:", err)
		}
	}
	return k
}

// ---------- finishing: evidence, verdict ----------

type propMeta struct {
	level       string
	explanation string
	trusted     []string
	assumptions []string
}

func (c *Ctx) finish(meta propMeta, start time.Time) int {
	// floors
	count := map[string]int{}
	okc := map[string]int{}
	for _, o := range c.Obs {
		count[o.Rule]++
		if o.OK {
			okc[o.Rule]++
		}
	}
	var rules []string
	for r := range c.floors {
		rules = append(rules, r)
	}
	sort.Strings(rules)
	for _, r := range rules {
		if count[r] < c.floors[r] {
			c.Check(r, "instance-floor", token.NoPos, false,
				fmt.Sprintf("rule %s matched %d instances, below the %d confirmed on the pinned tree: the code it talks about was restructured or removed, the rule decides less than it did", r, count[r], c.floors[r]))
			c.Obs[len(c.Obs)-1].Undecided = true
			count[r]++
		}
	}

	known := loadKnown(c.Verif)
	isKnown := func(o Ob) *Finding {
		for i := range known.Findings {
			f := &known.Findings[i]
			if f.Property == c.Prop && f.Rule == o.Rule && f.Key == o.Key {
				return f
			}
		}
		return nil
	}

	var viol, undecided []Ob
	strict := os.Getenv("EMCHECK_STRICT") == "1"
	nKnown := 0
	seenKnown := map[string]bool{}
	for _, o := range c.Obs {
		if o.OK {
			continue
		}
		if o.Undecided && !strict {
			undecided = append(undecided, o)
			continue
		}
		if f := isKnown(o); f != nil {
			nKnown++
			if !seenKnown[f.Rule+"|"+f.Key] {
				seenKnown[f.Rule+"|"+f.Key] = true
				fmt.Printf("KNOWN-FINDING: property=%s rule=%s %s [%s] at %s\n", c.Prop, o.Rule, f.What, f.Key, o.Pos)
			}
			continue
		}
		viol = append(viol, o)
	}

	for _, f := range known.Findings {
		if f.Property == c.Prop && !seenKnown[f.Rule+"|"+f.Key] {
			fmt.Printf("NOTE: listed finding not observed on this tree (repaired, or its construct changed): property=%s rule=%s [%s]\n", c.Prop, f.Rule, f.Key)
		}
	}
	replayDir := filepath.Join(c.Verif, "evidence", "replay")
	os.MkdirAll(replayDir, 0o755)
	// remove stale replay files of this property
	if old, _ := filepath.Glob(filepath.Join(replayDir, c.Prop+"-*.json")); old != nil {
		for _, f := range old {
			os.Remove(f)
		}
	}
	for i, o := range viol {
		path := filepath.Join(replayDir, fmt.Sprintf("%s-%d.json", c.Prop, i+1))
		b, _ := json.MarshalIndent(map[string]any{"property": c.Prop, "tier": c.Tier, "obligation": o, "rule_doc": c.ruleDoc[o.Rule], "repo": c.Repo}, "", " ")
		os.WriteFile(path, b, 0o644)
		if i == 12 {
			fmt.Printf("  ... %d more violations; see %s/%s-*.json and the evidence file\n", len(viol)-12, replayDir, c.Prop)
		}
		if i >= 12 {
			continue
		}
		fmt.Printf("VIOLATION property=%s replay=%s\n", c.Prop, path)
		fmt.Printf("  rule=%s construct=%s at %s\n  %s\n", o.Rule, o.Key, o.Pos, o.Detail)
		if o.Witness != "" {
			fmt.Printf("  witness: %s\n", o.Witness)
		}
	}

	for i, o := range undecided {
		if i < 12 {
			fmt.Printf("UNDECIDED property=%s rule=%s %s: %s\n", c.Prop, o.Rule, o.Key, o.Detail)
		}
	}
	// evidence
	type ruleStat struct {
		Instances  int    `json:"instances"`
		Discharged int    `json:"discharged"`
		Floor      int    `json:"floor"`
		Doc        string `json:"doc"`
	}
	rs := map[string]ruleStat{}
	for r, n := range count {
		rs[r] = ruleStat{Instances: n, Discharged: okc[r], Floor: c.floors[r], Doc: c.ruleDoc[r]}
	}
	total, disch := 0, 0
	for _, o := range c.Obs {
		total++
		if o.OK {
			disch++
		}
	}
	var fns, pk []string
	for f := range c.analysedF {
		fns = append(fns, f)
	}
	sort.Strings(fns)
	for p := range c.analysedP {
		pk = append(pk, p)
	}
	sort.Strings(pk)
	samples := []any{}
	for _, s := range c.samples {
		samples = append(samples, s)
	}
	// add a few real obligations as samples
	for i, o := range c.Obs {
		if i%(len(c.Obs)/12+1) == 0 && len(samples) < 80 {
			samples = append(samples, map[string]any{"rule": o.Rule, "construct": o.Key, "at": o.Pos, "ok": o.OK, "detail": o.Detail})
		}
	}
	if len(samples) == 0 {
		samples = append(samples, "no obligations generated")
	}
	var open []Ob
	for _, o := range c.Obs {
		if !o.OK {
			open = append(open, o)
		}
	}
	cov := map[string]any{
		"explanation":       meta.explanation,
		"obligations":       total,
		"discharged":        disch,
		"known_findings":    nKnown,
		"checker_cmd":       fmt.Sprintf("/verif/bin/emcheck -property %s -tier %s", c.Prop, c.Tier),
		"trusted_base":      meta.trusted,
		"rules":             rs,
		"analysed":          map[string]any{"packages": pk, "functions": fns, "n_packages": len(pk), "n_functions": len(fns)},
		"samples":           samples,
		"undischarged":      open,
		"undecided":         len(undecided),
		"notes":             c.notes,
		"evaluations":       total,
		"distinct_nontrivial": distinctKeys(c.Obs),
		"rule":              "one obligation per (rule, construct) generated from /repo's current source; distinct = distinct (rule, construct key) pairs",
	}
	for k, v := range c.extra {
		cov[k] = v
	}
	level := meta.level
	ev := map[string]any{
		"property_id": c.Prop,
		"tier":        c.Tier,
		"seed":        seedEnv(),
		"level":       level,
		"coverage":    cov,
		"assumptions": meta.assumptions,
		"wall_s":      time.Since(start).Seconds(),
		"violations":  len(viol),
	}
	b, _ := json.MarshalIndent(ev, "", " ")
	os.MkdirAll(filepath.Join(c.Verif, "evidence"), 0o755)
	if err := os.WriteFile(filepath.Join(c.Verif, "evidence", c.Prop+".json"), b, 0o644); err != nil {
		fmt.Fprintln(os.Stderr, "cannot write evidence:", err)
		return 2
	}
	fmt.Printf("property=%s tier=%s obligations=%d discharged=%d known=%d undecided=%d violations=%d wall=%.1fs\n",
		c.Prop, c.Tier, total, disch, nKnown, len(undecided), len(viol), time.Since(start).Seconds())
	if len(viol) > 0 {
		return 1
	}
	return 0
}

func distinctKeys(obs []Ob) int {
	m := map[string]bool{}
	for _, o := range obs {
		m[o.Rule+"|"+o.Key] = true
	}
	return len(m)
}

func seedEnv() int {
	var n int
	fmt.Sscanf(os.Getenv("VERIF_SEED"), "%d", &n)
	return n
}

// ---------- fixtures (positive controls) ----------

type fixture struct {
	pkgs  []*packages.Package
	prog  *ssa.Program
	funcs []*ssa.Function
}

// loadFixture loads /verif/checker/testdata/<name> (its own stdlib-only module) with SSA.
func loadFixture(c *Ctx, name string) (*fixture, error) {
	dir := filepath.Join(c.Verif, "checker", "testdata", name)
	if _, err := os.Stat(dir); err != nil {
		// when run against a scratch verif dir (mutant runs) fall back to the real one
		dir = filepath.Join("/verif", "checker", "testdata", name)
	}
	cfg := &packages.Config{Mode: packages.LoadAllSyntax, Dir: dir, Env: append(os.Environ(), "GOFLAGS=-mod=mod", "GOPROXY=off", "GOWORK=off")}
	pkgs, err := packages.Load(cfg, "./...")
	if err != nil {
		return nil, err
	}
	if len(pkgs) == 0 {
		return nil, fmt.Errorf("no packages in fixture %s", name)
	}
	for _, p := range pkgs {
		if len(p.Errors) > 0 {
			return nil, fmt.Errorf("fixture %s: %v", name, p.Errors[0])
		}
	}
	prog, spkgs := ssautil.AllPackages(pkgs, ssa.InstantiateGenerics)
	prog.Build()
	fx := &fixture{pkgs: pkgs, prog: prog}
	for _, sp := range spkgs {
		if sp == nil {
			continue
		}
		for _, m := range sp.Members {
			if f, ok := m.(*ssa.Function); ok {
				fx.funcs = append(fx.funcs, f)
				fx.funcs = append(fx.funcs, f.AnonFuncs...)
			}
		}
	}
	sort.Slice(fx.funcs, func(i, j int) bool { return fx.funcs[i].String() < fx.funcs[j].String() })
	return fx, nil
}
