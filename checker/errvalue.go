package main

import (
	"fmt"
	"go/token"
	"go/types"
	"strings"

	"golang.org/x/tools/go/ssa"
)

// checkErrValueUse (R14.7): `v, err := f()` where v is a pointer or an interface: v is dereferenced (field access, load, interface
// method call) only at points where err == nil (or v != nil) is known from the branches that lead there. A use that is
// reachable with a non-nil error dereferences nil for every failure the code does not name (the branches on os.IsNotExist
// / os.IsPermission name two of many).
func checkErrValueUse(c *Ctx, rule string, scope []*ssa.Function) {
	for _, f := range scope {
		for _, b := range f.Blocks {
			for _, in := range b.Instrs {
				call, ok := in.(*ssa.Call)
				if !ok {
					continue
				}
				tup, ok := call.Type().(*types.Tuple)
				if !ok || tup.Len() != 2 || !isErr(tup.At(1).Type()) || isErr(tup.At(0).Type()) {
					continue
				}
				switch tup.At(0).Type().Underlying().(type) {
				case *types.Pointer, *types.Interface:
				default:
					continue
				}
				var v, e *ssa.Extract
				for _, ref := range *call.Referrers() {
					if ex, ok := ref.(*ssa.Extract); ok {
						if ex.Index == 0 {
							v = ex
						} else {
							e = ex
						}
					}
				}
				if v == nil || e == nil {
					continue
				}
				// dereferencing uses of v
				type use struct {
					in  ssa.Instruction
					how string
				}
				var uses []use
				for _, ref := range *v.Referrers() {
					switch u := ref.(type) {
					case *ssa.FieldAddr:
						if u.X == ssa.Value(v) {
							uses = append(uses, use{u, "field access"})
						}
					case *ssa.UnOp:
						if u.Op == token.MUL && u.X == ssa.Value(v) {
							uses = append(uses, use{u, "load"})
						}
					case *ssa.Call:
						if u.Call.IsInvoke() && u.Call.Value == ssa.Value(v) {
							uses = append(uses, use{u, "call of method " + u.Call.Method.Name()})
						}
					}
				}
				if len(uses) == 0 {
					continue
				}
				// does the error flow somewhere that could decide for us?
				opaque := ""
				for _, ref := range *e.Referrers() {
					switch u := ref.(type) {
					case *ssa.Call:
						if sc := u.Call.StaticCallee(); sc != nil && strings.HasPrefix(fnPkgPath(sc), modPath) {
							if r := sc.Signature.Results(); r.Len() == 1 {
								if bt, ok := r.At(0).Type().Underlying().(*types.Basic); ok && bt.Kind() == types.Bool {
									opaque = "the error is judged by " + shortFn(sc)
								}
							}
						}
					case *ssa.Phi, *ssa.Store, *ssa.MakeClosure:
						opaque = "the error flows into a variable"
					}
				}
				name := calleeLabel(call)
				for _, u := range uses {
					// is the use reachable from the call without crossing an edge on which the error is nil (or the value non-nil)?
					// Blocks that end the process (os.Exit, log.Fatal, panic) lead nowhere.
					established := !reachableAvoiding(call.Block(), u.in.Block(), func(from *ssa.BasicBlock, k int) bool {
						ifi, ok := from.Instrs[len(from.Instrs)-1].(*ssa.If)
						if !ok {
							return false
						}
						bo, ok := ifi.Cond.(*ssa.BinOp)
						if !ok || (bo.Op != token.EQL && bo.Op != token.NEQ) {
							return false
						}
						var subj ssa.Value
						if isNilConst(bo.Y) {
							subj = bo.X
						} else if isNilConst(bo.X) {
							subj = bo.Y
						}
						if subj == nil {
							return false
						}
						isNil := (bo.Op == token.EQL) == (k == 0)
						return (subj == ssa.Value(e) && isNil) || (subj == ssa.Value(v) && !isNil)
					})
					key := fmt.Sprintf("%s: the result of %s is used only where its error is nil (%s)", shortFn(f), name, u.how)
					switch {
					case established:
						c.Pass(rule, key, u.in.Pos(), "")
					case opaque != "":
						c.Undecided(rule, key, u.in.Pos(), opaque+": whether a non-nil error can reach this use was not decided")
					default:
						c.Fail(rule, key, u.in.Pos(), fmt.Sprintf("no branch on the way to this %s establishes that the error returned by %s is nil (or the value non-nil): for a failure the code does not single out, the value is nil and the %s panics with a nil dereference", u.how, name, u.how))
					}
				}
			}
		}
	}
}

func calleeLabel(call *ssa.Call) string {
	if sc := call.Call.StaticCallee(); sc != nil {
		return shortFn(sc)
	}
	if call.Call.IsInvoke() {
		return call.Call.Method.Name()
	}
	return call.Call.Value.Name()
}


// reachableAvoiding: is `to` reachable from `from` along CFG edges, not counting the edges for which safe(block, successor
// index) holds and not leaving blocks that end the process?
func reachableAvoiding(from, to *ssa.BasicBlock, safe func(b *ssa.BasicBlock, k int) bool) bool {
	noReturn := func(b *ssa.BasicBlock) bool {
		for _, in := range b.Instrs {
			switch x := in.(type) {
			case *ssa.Panic:
				return true
			case *ssa.Call:
				switch staticCalleeName(x) {
				case "os.Exit", "log.Fatal", "log.Fatalf", "log.Fatalln", "runtime.Goexit":
					return true
				}
			}
		}
		return false
	}
	if from == to {
		return true // same block: the call and the use with nothing decided in between
	}
	seen := map[*ssa.BasicBlock]bool{from: true}
	work := []*ssa.BasicBlock{from}
	for len(work) > 0 {
		b := work[len(work)-1]
		work = work[:len(work)-1]
		if b != from && noReturn(b) {
			continue
		}
		for k, s := range b.Succs {
			if safe(b, k) {
				continue
			}
			if s == to {
				return true
			}
			if !seen[s] {
				seen[s] = true
				work = append(work, s)
			}
		}
	}
	return false
}
