module fixture/globals

go 1.24.0
