// Package globals is a positive control for the shared-state rule (R17.1): each function below touches a
// package-level variable in a way the rule must (or must not) flag.
package globals

import (
	"hash"
	"hash/fnv"
	"regexp"
	"sort"
)

var counter int
var cache = map[string]int{}
var hasher hash.Hash64 = fnv.New64()
var table = []string{"b", "a"}
var readonly = map[string]string{"k": "v"}
var re = regexp.MustCompile(`^a+$`)

func Bump() int { counter++; return counter }

func Remember(k string) { cache[k] = 1 }

func Hash(b []byte) uint64 {
	hasher.Reset()
	hasher.Write(b)
	return hasher.Sum64()
}

func SortTable() { sort.Strings(table) }

func Lookup(k string) (string, bool) {
	v, ok := readonly[k]
	return v, ok && re.MatchString(v)
}
