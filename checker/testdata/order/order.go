// Package order is a positive control for the unordered-iteration rule (R15.1).
package order

import (
	"maps"
	"slices"
	"sort"
)

// Leaky appends map keys in iteration order: the result differs from run to run.
func Leaky(m map[string]int) []string {
	var out []string
	for k := range m {
		out = append(out, k)
	}
	return out
}

// Sorted does the same but sorts before the slice escapes.
func Sorted(m map[string]int) []string {
	var out []string
	for k := range m {
		out = append(out, k)
	}
	sort.Strings(out)
	return out
}

// Sum only accumulates commutatively.
func Sum(m map[string]int) int {
	n := 0
	for _, v := range m {
		n += v
	}
	return n
}

// LeakyKeys materialises the randomised key order of a map through the iterator helpers.
func LeakyKeys(m map[string]int) []string {
	return slices.Collect(maps.Keys(m))
}

// SortedKeys sorts the sequence before it becomes a slice.
func SortedKeys(m map[string]int) []string {
	return slices.Sorted(maps.Keys(m))
}
