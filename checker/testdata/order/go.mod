module fixture/order

go 1.24.0
