package main

import (
	"golang.org/x/tools/go/ssa"
	"fmt"
	"go/ast"
	"go/token"
	"go/types"
	"strings"

	"golang.org/x/tools/go/packages"
)

func init() {
	register(&property{id: "C10", run: runC10, meta: propMeta{
		level: "other",
		explanation: "Structural necessary conditions of agreement between the direct (followpos) construction and the NFA route: boolean folds in the node computations start from the identity of their operator; followpos of an n-ary concatenation consults nullability (relating positions across nullable operands) and the Star case closes last-to-first; the constant leaf attributes equal the textbook table; firstpos/lastpos of a concatenation scan from the proper end and stop at the first non-nullable operand; the direct route expands quantifiers to the same symbolic repetition counts as the NFA route and the 23 sibling mappers have equal control skeletons; the end-marker cannot be written in a pattern and is excluded from the symbol loop of ToDFA. Equality of the two languages for every pattern is out of reach.",
		trusted: []string{"the followpos construction of Aho et al. (Algorithm 3.36) given correct nullable/firstpos/lastpos/followpos", "dependency's DFA minimisation"},
		assumptions: []string{},
	}})
}

func runC10(c *Ctx) {
	c.Rule("R10.1", 2, "boolean folds start from the identity of their operator")
	c.Rule("R10.2", 3, "followpos of an n-ary concatenation crosses nullable operands; Star closes last-to-first")
	c.Rule("R10.3", 8, "leaf attributes and concatenation scans equal the textbook table")
	c.Rule("R10.4", 30, "the two routes expand quantifiers and decompose constructs identically")
	c.Rule("R10.5", 3, "end-marker discipline")
	c.Rule("R10.7", 3, "the copy made for a counted repetition is deep")
	c.Rule("R10.8", 4, "the slice a memoising attribute hands out is not kept or extended as it is (follow sets own their storage)")
	c.Rule("R10.6", 8, "memoised attributes (nullable/firstpos/lastpos) are evaluated only after positions have been assigned")

	c.Rule("R10.10", 1, "the equality that identifies the states of the direct construction tests both inclusions")
	checkPosSetEquality(c, "R10.10")
	c.Rule("R10.9", 1, "a character group is a set in both routes: listing a character twice is listing it once (= R2.6)")
	checkMembershipIdempotent(c, "R10.9", "internal/regex/parser/nfa", "internal/regex/parser/ast")
	ap := c.Pkg("internal/regex/parser/ast")
	if ap == nil {
		c.Lost("R10.1", "package internal/regex/parser/ast")
		return
	}
	checkFoldIdentity(c, ap)
	checkFollowpos(c, ap)
	checkLeafTable(c, ap)
	if fd := findQuantifier(ap); fd != nil {
		checkQuantifier(c, ap, fd, "R10.4")
	} else {
		c.Lost("R10.4", "the syntax-tree quantifier function")
	}
	checkSiblingMappers(c, "R10.4")
	checkEndMarker10(c, ap)
	checkAttributePhase(c, ap)
	checkCopyDeep(c, ap, "R10.7")
}

// checkFoldIdentity: acc = acc OP x inside a loop must start from OP's identity.
func checkFoldIdentity(c *Ctx, p *packages.Package) {
	info := p.TypesInfo
	n := 0
	AllFuncDecls(p, func(fd *ast.FuncDecl) {
		if fd.Body == nil {
			return
		}
		ast.Inspect(fd.Body, func(nd ast.Node) bool {
			var body *ast.BlockStmt
			switch l := nd.(type) {
			case *ast.RangeStmt:
				body = l.Body
			case *ast.ForStmt:
				body = l.Body
			default:
				return true
			}
			for _, st := range body.List {
				as, ok := st.(*ast.AssignStmt)
				if !ok || len(as.Lhs) != 1 || len(as.Rhs) != 1 || as.Tok != token.ASSIGN {
					continue
				}
				b, ok := ast.Unparen(as.Rhs[0]).(*ast.BinaryExpr)
				if !ok || (b.Op != token.LAND && b.Op != token.LOR) {
					continue
				}
				if types.ExprString(b.X) != types.ExprString(as.Lhs[0]) {
					continue
				}
				n++
				c.Analysed(funcKey(p, fd))
				want := "true"
				if b.Op == token.LOR {
					want = "false"
				}
				// initial value: the last assignment / composite-literal field before the loop in this function
				field := ""
				if sel, ok := as.Lhs[0].(*ast.SelectorExpr); ok {
					field = sel.Sel.Name
				}
				init := ""
				ast.Inspect(fd.Body, func(m ast.Node) bool {
					if m == nil || m.Pos() >= nd.Pos() {
						return true
					}
					switch s := m.(type) {
					case *ast.KeyValueExpr:
						if id, ok := s.Key.(*ast.Ident); ok && id.Name == field {
							if tv, ok := info.Types[s.Value]; ok && tv.Value != nil {
								init = tv.Value.String()
							}
						}
					case *ast.AssignStmt:
						if len(s.Lhs) == 1 && len(s.Rhs) == 1 && types.ExprString(s.Lhs[0]) == types.ExprString(as.Lhs[0]) && s.End() <= nd.Pos() {
							if tv, ok := info.Types[s.Rhs[0]]; ok && tv.Value != nil {
								init = tv.Value.String()
							}
						}
					}
					return true
				})
				c.Check("R10.1", fmt.Sprintf("%s: fold of %s with %s starts from %s", funcKey(p, fd), types.ExprString(as.Lhs[0]), b.Op, want), as.Pos(), init == want,
					fmt.Sprintf("the accumulator starts as %q, the absorbing element of %s: the result is constant whatever the operands are", init, b.Op), "(a?b?)c must accept c")
			}
			return true
		})
	})
	if n == 0 {
		c.Lost("R10.1", "boolean folds in the node computations")
	}
}

// checkFollowpos: R10.2
func checkFollowpos(c *Ctx, p *packages.Package) {
	info := p.TypesInfo
	an, okAN := findAttrNames(c, p)
	if !okAN {
		c.Lost("R10.2", "the three attribute methods of the node interface")
		return
	}
	// the method with a type switch over node types that appends to a follows map
	var fd *ast.FuncDecl
	AllFuncDecls(p, func(f *ast.FuncDecl) {
		if f.Body == nil || f.Recv == nil {
			return
		}
		hasSwitch, hasFollow := false, false
		ast.Inspect(f.Body, func(n ast.Node) bool {
			switch s := n.(type) {
			case *ast.TypeSwitchStmt:
				hasSwitch = true
			case *ast.CallExpr:
				if sel, ok := s.Fun.(*ast.SelectorExpr); ok && (sel.Sel.Name == an.last || sel.Sel.Name == an.first) {
					hasFollow = true
				}
			}
			return true
		})
		fo := info.Defs[f.Name].(*types.Func)
		if hasSwitch && hasFollow && fo.Type().(*types.Signature).Results().Len() == 0 {
			fd = f
		}
	})
	if fd == nil {
		c.Lost("R10.2", "the followpos computation")
		return
	}
	c.Analysed(funcKey(p, fd))
	var ts *ast.TypeSwitchStmt
	ast.Inspect(fd.Body, func(n ast.Node) bool {
		if s, ok := n.(*ast.TypeSwitchStmt); ok && ts == nil {
			ts = s
		}
		return true
	})
	for _, cc := range ts.Body.List {
		cl := cc.(*ast.CaseClause)
		if len(cl.List) != 1 {
			continue
		}
		_, tn := namedTypeName(info.TypeOf(cl.List[0]))
		switch tn {
		case "Concat":
			consultsNullable, usesLast, usesFirst := false, false, false
			var offsets []string
			for _, st := range cl.Body {
				deepInspectNode(p, st, 2, func(n ast.Node) bool {
					call, ok := n.(*ast.CallExpr)
					if !ok {
						return true
					}
					sel, ok := call.Fun.(*ast.SelectorExpr)
					if !ok {
						return true
					}
					switch sel.Sel.Name {
					case an.nullable:
						consultsNullable = true
					case an.last:
						usesLast = true
						offsets = append(offsets, types.ExprString(sel.X))
					case an.first:
						usesFirst = true
						offsets = append(offsets, types.ExprString(sel.X))
					}
					return true
				})
			}
			c.Check("R10.2", "Concat: lastpos of an operand is related to firstpos of later operands", cl.Pos(), usesLast && usesFirst, "the concatenation case does not connect lastPos to firstPos")
			c.Check("R10.2", "Concat: nullability of the operands in between is consulted", cl.Pos(), consultsNullable,
				fmt.Sprintf("followpos only relates adjacent operands (%v) and never asks nullable(): in an n-ary concatenation a nullable middle operand cuts the chain", offsets), "ab?c must accept ac")
			// recursion into all operands
			rec := false
			for _, st := range cl.Body {
				ast.Inspect(st, func(n ast.Node) bool {
					if call, ok := n.(*ast.CallExpr); ok {
						if sel, ok := call.Fun.(*ast.SelectorExpr); ok && sel.Sel.Name == fd.Name.Name {
							rec = true
						}
					}
					return true
				})
			}
			c.Check("R10.2", "Concat: followpos recurses into every operand", cl.Pos(), rec, "no recursive call in the concatenation case")
		case "Star":
			okStar := false
			for _, st := range cl.Body {
				rs, ok := st.(*ast.RangeStmt)
				if !ok {
					continue
				}
				if call, ok := ast.Unparen(rs.X).(*ast.CallExpr); ok {
					if sel, ok := call.Fun.(*ast.SelectorExpr); ok && sel.Sel.Name == an.last {
						ast.Inspect(rs.Body, func(n ast.Node) bool {
							if c2, ok := n.(*ast.CallExpr); ok {
								if s2, ok := c2.Fun.(*ast.SelectorExpr); ok && s2.Sel.Name == an.first && types.ExprString(s2.X) == types.ExprString(sel.X) {
									okStar = true
								}
							}
							return true
						})
					}
				}
			}
			// or through a helper that adds `to` to the followpos of every position in `from`: helper(X.last(), X.first())
			starUndecided := false
			if !okStar {
				for _, st := range cl.Body {
					ast.Inspect(st, func(n ast.Node) bool {
						call, ok := n.(*ast.CallExpr)
						if !ok || len(call.Args) != 2 {
							return true
						}
						fo, ok := objOf(info, call.Fun).(*types.Func)
						if !ok || fo.Pkg() != p.Types {
							return true
						}
						from, to := followsAdderParams(p, declOfFunc(p, fo))
						if from < 0 {
							return true
						}
						a0, ok0 := ast.Unparen(call.Args[from]).(*ast.CallExpr)
						a1, ok1 := ast.Unparen(call.Args[to]).(*ast.CallExpr)
						if !ok0 || !ok1 {
							return true
						}
						s0, ok0 := a0.Fun.(*ast.SelectorExpr)
						s1, ok1 := a1.Fun.(*ast.SelectorExpr)
						if ok0 && ok1 && types.ExprString(s0.X) == types.ExprString(s1.X) {
							if s0.Sel.Name == an.last && s1.Sel.Name == an.first {
								okStar = true
							}
						}
						return true
					})
				}
				if !okStar {
					// neither shape: is last/first of the operand mentioned at all?
					mentions := 0
					for _, st := range cl.Body {
						deepInspectNode(p, st, 2, func(n ast.Node) bool {
							if call, ok := n.(*ast.CallExpr); ok {
								if sel, ok := call.Fun.(*ast.SelectorExpr); ok && (sel.Sel.Name == an.last || sel.Sel.Name == an.first) {
									mentions++
								}
							}
							return true
						})
					}
					starUndecided = mentions >= 2
				}
			}
			if starUndecided {
				c.Undecided("R10.2", "Star: every last position is followed by every first position of the operand", cl.Pos(), "the star case uses lastpos and firstpos of its operand in a way this rule does not decide")
			} else {
				c.Check("R10.2", "Star: every last position is followed by every first position of the operand", cl.Pos(), okStar, "the star case does not add firstPos(operand) to followpos of lastPos(operand)", "a*b must accept aab")
			}
		}
	}
}

// checkLeafTable: R10.3
func checkLeafTable(c *Ctx, p *packages.Package) {
	info := p.TypesInfo
	an, okAN := findAttrNames(c, p)
	if !okAN {
		c.Lost("R10.3", "the three attribute methods of the node interface")
		return
	}
	canon := map[string]string{an.nullable: "nullable", an.first: "firstPos", an.last: "lastPos"}
	constRet := func(recv, name string) (string, *ast.FuncDecl) {
		fd := FuncDecl(p, recv, name)
		if fd == nil || fd.Body == nil || len(fd.Body.List) != 1 {
			return "?", fd
		}
		r, ok := fd.Body.List[0].(*ast.ReturnStmt)
		if !ok || len(r.Results) != 1 {
			return "?", fd
		}
		e := ast.Unparen(r.Results[0])
		if tv, ok := info.Types[e]; ok && tv.Value != nil {
			return tv.Value.String(), fd
		}
		if cl, ok := e.(*ast.CompositeLit); ok {
			if len(cl.Elts) == 0 {
				return "{}", fd
			}
			if len(cl.Elts) == 1 {
				if sel, ok := ast.Unparen(cl.Elts[0]).(*ast.SelectorExpr); ok && sel.Sel.Name == "Pos" {
					return "{pos}", fd
				}
			}
		}
		if call, ok := e.(*ast.CallExpr); ok {
			if sel, ok := call.Fun.(*ast.SelectorExpr); ok {
				if cn, ok := canon[sel.Sel.Name]; ok {
					return "operand." + cn, fd
				}
				return "operand." + sel.Sel.Name, fd
			}
		}
		return "?", fd
	}
	table := []struct{ recv, name, want string }{
		{"Star", "nullable", "true"}, {"Star", "firstPos", "operand.firstPos"}, {"Star", "lastPos", "operand.lastPos"},
		{"Empty", "nullable", "true"}, {"Empty", "firstPos", "{}"}, {"Empty", "lastPos", "{}"},
		{"Char", "nullable", "false"}, {"Char", "firstPos", "{pos}"}, {"Char", "lastPos", "{pos}"},
	}
	real := map[string]string{"nullable": an.nullable, "firstPos": an.first, "lastPos": an.last}
	for _, t := range table {
		got, fd := constRet(t.recv, real[t.name])
		pos := token.NoPos
		if fd != nil {
			pos = fd.Pos()
			c.Analysed(funcKey(p, fd))
		}
		c.Check("R10.3", fmt.Sprintf("%s.%s is %s", t.recv, t.name, t.want), pos, got == t.want, fmt.Sprintf("%s.%s returns %s; the textbook attribute is %s", t.recv, t.name, got, t.want))
	}
	// Concat.compute: firstPos scans left to right, lastPos right to left, both stop at the first non-nullable operand
	if fd := memoHelperOf(p, "Concat"); fd != nil {
		c.Analysed(funcKey(p, fd))
		firstOK, lastOK := false, false
		ast.Inspect(fd.Body, func(n ast.Node) bool {
			var body *ast.BlockStmt
			descending := false
			switch l := n.(type) {
			case *ast.RangeStmt:
				body = l.Body
			case *ast.ForStmt:
				body = l.Body
				if p, ok := l.Post.(*ast.IncDecStmt); ok && p.Tok == token.DEC {
					descending = true
				}
			default:
				return true
			}
			appendsFirst, appendsLast, breaksOnNonNullable, prependsLast := false, false, false, false
			ast.Inspect(body, func(m ast.Node) bool {
				switch s := m.(type) {
				case *ast.AssignStmt:
					if len(s.Lhs) == 1 && len(s.Rhs) == 1 {
						lhs := types.ExprString(s.Lhs[0])
						if call, ok := ast.Unparen(s.Rhs[0]).(*ast.CallExpr); ok && len(call.Args) == 2 {
							if id, ok := call.Fun.(*ast.Ident); ok && id.Name == "append" {
								a0, a1 := types.ExprString(call.Args[0]), types.ExprString(call.Args[1])
								// the accumulator is told apart by what is appended to it: the operand's firstpos or its lastpos
								if a0 == lhs && strings.Contains(a1, "."+an.first+"()") {
									appendsFirst = true
								}
								if a0 == lhs && strings.Contains(a1, "."+an.last+"()") {
									appendsLast = true
								}
								if a1 == lhs && strings.Contains(a0, "."+an.last+"()") {
									prependsLast = true
								}
							}
						}
					}
				case *ast.IfStmt:
					if u, ok := ast.Unparen(s.Cond).(*ast.UnaryExpr); ok && u.Op == token.NOT && strings.Contains(types.ExprString(u.X), "."+an.nullable+"()") {
						for _, st := range s.Body.List {
							if br, ok := st.(*ast.BranchStmt); ok && br.Tok == token.BREAK {
								breaksOnNonNullable = true
							}
						}
					}
				}
				return true
			})
			if appendsFirst && breaksOnNonNullable && !descending {
				firstOK = true
			}
			if (prependsLast || appendsLast) && breaksOnNonNullable && descending {
				lastOK = true
			}
			return true
		})
		for _, t := range []struct {
			ok   bool
			what string
		}{{firstOK, "Concat.firstPos: union over the operands from the left up to the first non-nullable one"}, {lastOK, "Concat.lastPos: union over the operands from the right up to the first non-nullable one"}} {
			if t.ok {
				c.Pass("R10.3", t.what, fd.Pos(), "")
			} else {
				// another algorithm (one pass with bookkeeping, helper functions): not decided by this rule
				c.Undecided("R10.3", t.what, fd.Pos(), "no scan loop over the operands that stops after the first non-nullable one was recognised")
			}
		}
	} else {
		c.Lost("R10.3", "the memoising helper of Concat")
	}
}

// checkEndMarker10: R10.5
func checkEndMarker10(c *Ctx, p *packages.Package) {
	info := p.TypesInfo
	var marker types.Object
	for _, n := range p.Types.Scope().Names() {
		if k, ok := p.Types.Scope().Lookup(n).(*types.Const); ok && isRune(k.Type()) {
			marker = k
		}
	}
	if marker == nil {
		c.Lost("R10.5", "the end-marker constant")
		return
	}
	parse := FuncDecl(p, "", "Parse")
	if parse == nil {
		c.Lost("R10.5", "ast.Parse")
		return
	}
	// (i) before the marker node is built, Parse rejects a tree that mentions it
	var rejectPos, buildPos token.Pos
	ast.Inspect(parse.Body, func(n ast.Node) bool {
		switch s := n.(type) {
		case *ast.IfStmt:
			mentions := false
			ast.Inspect(s.Cond, func(m ast.Node) bool {
				// the marker itself must be what is searched for / compared with (an argument or a comparison operand)
				switch x := m.(type) {
				case *ast.CallExpr:
					for _, a := range x.Args {
						if id, ok := ast.Unparen(a).(*ast.Ident); ok && info.Uses[id] == marker {
							mentions = true
						}
					}
				case *ast.BinaryExpr:
					if x.Op == token.EQL {
						for _, a := range []ast.Expr{x.X, x.Y} {
							if id, ok := ast.Unparen(a).(*ast.Ident); ok && info.Uses[id] == marker {
								mentions = true
							}
						}
					}
				}
				return true
			})
			if mentions {
				for _, st := range s.Body.List {
					if r, ok := st.(*ast.ReturnStmt); ok && len(r.Results) == 2 && !isNilExpr(info, r.Results[1]) && !rejectPos.IsValid() {
						rejectPos = s.Pos()
					}
				}
			}
		case *ast.KeyValueExpr:
			if id, ok := ast.Unparen(s.Value).(*ast.Ident); ok && info.Uses[id] == marker && !buildPos.IsValid() {
				buildPos = s.Pos()
			}
		case *ast.CallExpr:
			// the marker node may be built by a helper of the package that Parse calls: the call is where it is appended
			if fo, ok := objOf(info, s.Fun).(*types.Func); ok && fo.Pkg() == p.Types && !buildPos.IsValid() {
				if hd := declOfFunc(p, fo); hd != nil && hd != parse {
					builds := false
					deepInspect(p, hd, 2, func(m ast.Node) bool {
						if kv, ok := m.(*ast.KeyValueExpr); ok {
							if id, ok := ast.Unparen(kv.Value).(*ast.Ident); ok && info.Uses[id] == marker {
								builds = true
							}
						}
						return true
					})
					if builds {
						buildPos = s.Pos()
						// arguments are evaluated first: an inner call that builds the marker comes before
						return true
					}
				}
			}
		}
		return true
	})
	c.Check("R10.5", "the end-marker is appended to the expression", parse.Pos(), buildPos.IsValid(), "no Char{Val: endMarker} built in Parse")
	c.Check("R10.5", "a pattern that mentions the end-marker character is rejected before the marker is appended", parse.Pos(), rejectPos.IsValid() && rejectPos < buildPos,
		"any rune can be written with \\xHHHH escapes, including the marker: its position would be taken for the end of the expression", `a\xEEEEb accepts a`)
	// (ii) ToDFA's symbol loop skips the marker
	if fd := FuncDecl(p, "AST", "ToDFA"); fd != nil {
		c.Analysed(funcKey(p, fd))
		skips := false
		deepInspect(p, fd, 2, func(n ast.Node) bool {
			if ifs, ok := n.(*ast.IfStmt); ok {
				if b, ok := ast.Unparen(ifs.Cond).(*ast.BinaryExpr); ok && (b.Op == token.NEQ || b.Op == token.EQL) {
					for _, side := range []ast.Expr{b.X, b.Y} {
						if id, ok := ast.Unparen(side).(*ast.Ident); ok && info.Uses[id] == marker {
							if b.Op == token.NEQ {
								skips = true // the body runs for every symbol but the marker
							} else {
								// `if c == marker { continue }`
								for _, st := range ifs.Body.List {
									if br, ok := st.(*ast.BranchStmt); ok && br.Tok == token.CONTINUE {
										skips = true
									}
								}
							}
						}
					}
				}
			}
			return true
		})
		c.Check("R10.5", "the end-marker is not an input symbol of the constructed DFA", fd.Pos(), skips, "ToDFA adds transitions on the end-marker")
		// acceptance: states containing the marker's position
		accepts := false
		deepInspect(p, fd, 2, func(n ast.Node) bool {
			if ix, ok := n.(*ast.IndexExpr); ok {
				if id, ok := ast.Unparen(ix.Index).(*ast.Ident); ok && info.Uses[id] == marker {
					accepts = true
				}
			}
			return true
		})
		c.Check("R10.5", "accepting states are those containing the end-marker's position", fd.Pos(), accepts, "final states are not derived from the position of the end-marker")
	} else {
		c.Lost("R10.5", "AST.ToDFA")
	}
}

// checkAttributePhase: R10.6. Some implementations of the node attributes memoise their result in the node. A memoised
// attribute evaluated while the tree is still being built (before the leaf positions are assigned, or before a parent
// rewrites the node) freezes a value computed from unnumbered leaves. Typestate rule: every call of a memoising attribute
// is made by an attribute implementation or by a function that runs after the indexing step of Parse.
func checkAttributePhase(c *Ctx, p *packages.Package) {
	info := p.TypesInfo
	anPhase, okAN := findAttrNames(c, p)
	if !okAN {
		c.Lost("R10.6", "the three attribute methods of the node interface")
		return
	}
	// 1. memoising methods: methods that assign a field of their receiver (directly or via a same-receiver helper)
	writes := map[*types.Func]bool{}
	calls := map[*types.Func][]*types.Func{}
	decl := map[*types.Func]*ast.FuncDecl{}
	AllFuncDecls(p, func(fd *ast.FuncDecl) {
		if fd.Body == nil {
			return
		}
		fo, _ := info.Defs[fd.Name].(*types.Func)
		if fo == nil {
			return
		}
		decl[fo] = fd
		var recv types.Object
		if fd.Recv != nil && len(fd.Recv.List) == 1 && len(fd.Recv.List[0].Names) == 1 {
			recv = info.Defs[fd.Recv.List[0].Names[0]]
		}
		ast.Inspect(fd.Body, func(n ast.Node) bool {
			switch x := n.(type) {
			case *ast.AssignStmt:
				for _, l := range x.Lhs {
					if sel, ok := l.(*ast.SelectorExpr); ok && recv != nil {
						if id, ok := ast.Unparen(sel.X).(*ast.Ident); ok && info.Uses[id] == recv {
							writes[fo] = true
						}
					}
				}
			case *ast.CallExpr:
				if callee, ok := objOf(info, x.Fun).(*types.Func); ok {
					calls[fo] = append(calls[fo], callee)
				}
			}
			return true
		})
	})
	// the node interface: the interface of the package implemented by the type that has memoising methods
	var nodeIface *types.Interface
	for _, n := range p.Types.Scope().Names() {
		if tn, ok := p.Types.Scope().Lookup(n).(*types.TypeName); ok {
			if it, ok := tn.Type().Underlying().(*types.Interface); ok && it.NumMethods() >= 3 {
				for i := 0; i < it.NumMethods(); i++ {
					if it.Method(i).Name() == anPhase.nullable || it.Method(i).Name() == anPhase.first {
						nodeIface = it
					}
				}
			}
		}
	}
	if nodeIface == nil {
		c.Lost("R10.6", "the node interface with the attribute methods")
		return
	}
	attr := map[string]bool{}
	for i := 0; i < nodeIface.NumExplicitMethods(); i++ {
		m := nodeIface.ExplicitMethod(i)
		if !m.Exported() {
			attr[m.Name()] = true
		}
	}
	// memoising attribute names: some implementation writes its receiver, directly or through a same-package callee with receiver writes
	memo := map[string]bool{}
	isImpl := map[*types.Func]bool{}
	for fo := range decl {
		sig := fo.Type().(*types.Signature)
		if sig.Recv() == nil || !attr[fo.Name()] {
			continue
		}
		if !types.Implements(sig.Recv().Type(), nodeIface) && !types.Implements(types.NewPointer(sig.Recv().Type()), nodeIface) {
			continue
		}
		isImpl[fo] = true
		w := writes[fo]
		for _, cal := range calls[fo] {
			if writes[cal] && cal.Type().(*types.Signature).Recv() != nil {
				w = true
				isImpl[cal] = true // the memo helper is part of the attribute implementation
			}
		}
		if w {
			memo[fo.Name()] = true
		}
	}
	if len(memo) == 0 {
		c.Pass("R10.6", "no attribute implementation memoises its result (nothing to order)", token.NoPos, "")
		return
	}
	// 2. the indexing step in Parse and what runs after it
	parse := FuncDecl(p, "", "Parse")
	if parse == nil {
		c.Lost("R10.6", "Parse of the syntax-tree route")
		return
	}
	// the indexing function: writes the position field of a leaf (a field of a type implementing the node interface) and is called from Parse
	var indexCall *ast.CallExpr
	ast.Inspect(parse.Body, func(n ast.Node) bool {
		call, ok := n.(*ast.CallExpr)
		if !ok || indexCall != nil {
			return true
		}
		callee, _ := objOf(info, call.Fun).(*types.Func)
		fd := decl[callee]
		if fd == nil {
			return true
		}
		numbers := false
		ast.Inspect(fd.Body, func(m ast.Node) bool {
			if as, ok := m.(*ast.AssignStmt); ok {
				for _, l := range as.Lhs {
					if sel, ok := l.(*ast.SelectorExpr); ok {
						if t := info.TypeOf(sel.X); t != nil && (types.Implements(t, nodeIface) || types.Implements(types.NewPointer(t), nodeIface)) {
							numbers = true
						}
					}
				}
			}
			return true
		})
		if numbers {
			indexCall = call
		}
		return true
	})
	if indexCall == nil {
		c.Lost("R10.6", "the step of Parse that numbers the leaves")
		return
	}
	post := map[*types.Func]bool{}
	var close func(f *types.Func)
	close = func(f *types.Func) {
		if f == nil || post[f] || decl[f] == nil {
			return
		}
		post[f] = true
		for _, g := range calls[f] {
			close(g)
		}
	}
	ast.Inspect(parse.Body, func(n ast.Node) bool {
		if call, ok := n.(*ast.CallExpr); ok && call.Pos() > indexCall.End() {
			if callee, ok := objOf(info, call.Fun).(*types.Func); ok {
				close(callee)
			}
		}
		return true
	})
	// exported methods of the result type (the tree wrapper returned by Parse) run after Parse
	parseFn := info.Defs[parse.Name].(*types.Func)
	if res := parseFn.Type().(*types.Signature).Results(); res.Len() >= 1 {
		ms := types.NewMethodSet(res.At(0).Type())
		for i := 0; i < ms.Len(); i++ {
			if f, ok := ms.At(i).Obj().(*types.Func); ok && f.Exported() {
				close(f)
			}
		}
	}
	// helpers: a function of the package all of whose callers are attribute implementations, or run after the numbering step,
	// is part of them (compute() split into firstPosOfSeq / lastPosOfSeq / allNullable)
	{
		callers := map[*types.Func]map[*types.Func]bool{}
		AllFuncDecls(p, func(fd *ast.FuncDecl) {
			if fd.Body == nil {
				return
			}
			from, _ := info.Defs[fd.Name].(*types.Func)
			if from == nil {
				return
			}
			ast.Inspect(fd.Body, func(n ast.Node) bool {
				if id, ok := n.(*ast.Ident); ok {
					if to, ok := info.Uses[id].(*types.Func); ok && to.Pkg() == p.Types && to != from {
						if callers[to] == nil {
							callers[to] = map[*types.Func]bool{}
						}
						callers[to][from] = true
					}
				}
				return true
			})
		})
		for changed := true; changed; {
			changed = false
			for to, froms := range callers {
				if isImpl[to] || post[to] || to == parseFn {
					continue
				}
				allImpl, allPost := true, true
				for from := range froms {
					if !isImpl[from] {
						allImpl = false
					}
					if !post[from] {
						allPost = false
					}
				}
				if allImpl {
					isImpl[to] = true
					changed = true
				} else if allPost {
					post[to] = true
					changed = true
				}
			}
		}
	}
	// 3. every call site of a memoising attribute
	nSites := 0
	perFn := map[string]int{}
	AllFuncDecls(p, func(fd *ast.FuncDecl) {
		if fd.Body == nil {
			return
		}
		fo, _ := info.Defs[fd.Name].(*types.Func)
		ast.Inspect(fd.Body, func(n ast.Node) bool {
			call, ok := n.(*ast.CallExpr)
			if !ok {
				return true
			}
			sel, ok := call.Fun.(*ast.SelectorExpr)
			if !ok || !memo[sel.Sel.Name] {
				return true
			}
			callee, _ := info.Uses[sel.Sel].(*types.Func)
			if callee == nil || callee.Type().(*types.Signature).Recv() == nil {
				return true
			}
			rt := info.TypeOf(sel.X)
			if rt == nil || !(types.Implements(rt, nodeIface) || types.Implements(types.NewPointer(rt), nodeIface)) {
				return true
			}
			nSites++
			perFn[funcKey(p, fd)+"."+sel.Sel.Name]++
			okSite := isImpl[fo] || post[fo]
			// the Parse body itself: only after the indexing call
			if fo == parseFn {
				okSite = call.Pos() > indexCall.End()
			}
			c.Check("R10.6", fmt.Sprintf("%s evaluates %s only once the leaves are numbered (call #%d in the function)", funcKey(p, fd), sel.Sel.Name, perFn[funcKey(p, fd)+"."+sel.Sel.Name]), call.Pos(), okSite,
				fmt.Sprintf("%s() memoises its result in the node and is called here while the tree is still being built (this function is not an attribute implementation and does not run after %s): firstpos/lastpos of the node are frozen with unnumbered leaves and the followpos links through it are lost", sel.Sel.Name, types.ExprString(indexCall.Fun)),
				"(a*)?b must accept ab")
			return true
		})
	})
	checkMemoAliasing(c, p, memo)
}

// checkMemoAliasing (R10.8): what a memoising attribute returns is the slice kept in the node. Whoever stores that very slice
// somewhere that is extended or sorted later (the follow sets) shares one backing array between several owners: an append
// within its capacity or an in-place sort then rewrites the other owners' sets. Accepted uses: reading, ranging, passing the
// elements on (`append(dst, s...)`), returning it from another attribute. Reported: the slice itself as the value of a map
// update, of a field (other than the attribute's own cache) or of an element store; `append(s, ...)` is followed like s.
func checkMemoAliasing(c *Ctx, p *packages.Package, memo map[string]bool) {
	sp := c.SSAPk[p.PkgPath]
	if sp == nil {
		return
	}
	sites := 0
	for _, f := range allFuncsOfPkg(sp) {
		for _, b := range f.Blocks {
			for _, in := range b.Instrs {
				call, ok := in.(*ssa.Call)
				if !ok {
					continue
				}
				name := methodNameOf(call)
				if !memo[name] {
					continue
				}
				if _, isSlice := call.Type().Underlying().(*types.Slice); !isSlice {
					continue
				}
				sites++
				// follow the very slice: phis, re-slices, conversions, locals, and into helpers of the package it is handed to
				bad, how := token.NoPos, ""
				var follow func(fn *ssa.Function, root ssa.Value, depth int)
				follow = func(fn *ssa.Function, root ssa.Value, depth int) {
					seen := map[ssa.Value]bool{}
					work := []ssa.Value{root}
					for len(work) > 0 && bad == token.NoPos {
						v := work[len(work)-1]
						work = work[:len(work)-1]
						if seen[v] || v.Referrers() == nil {
							continue
						}
						seen[v] = true
						for _, r := range *v.Referrers() {
							switch x := r.(type) {
							case *ssa.Phi, *ssa.Slice, *ssa.ChangeType:
								work = append(work, x.(ssa.Value))
							case *ssa.MapUpdate:
								if x.Value == v {
									bad, how = x.Pos(), "stored as a map entry"
								}
							case *ssa.Store:
								if x.Val != v {
									continue
								}
								switch a := x.Addr.(type) {
								case *ssa.Alloc:
									for _, rr := range *a.Referrers() {
										if u, ok := rr.(*ssa.UnOp); ok && u.Op == token.MUL {
											work = append(work, u)
										}
									}
								case *ssa.FieldAddr:
									// the attribute implementation caching its own result is the memo itself
									if !isMemoField(fn, a) {
										bad, how = x.Pos(), "stored into a field"
									}
								case *ssa.IndexAddr:
									bad, how = x.Pos(), "stored as an element"
								}
							case *ssa.Call:
								// append(s, ...) may write into s's spare capacity and its result shares s's array: the result is
								// followed like s itself. (An attribute that builds its own cache this way is the single parent of s's
								// node, so nobody else extends the same array; kept in a second structure it is reported.)
								if bi, ok := x.Call.Value.(*ssa.Builtin); ok {
									if bi.Name() == "append" && len(x.Call.Args) > 0 && x.Call.Args[0] == v {
										work = append(work, x)
									}
									continue
								}
								if callee := x.Call.StaticCallee(); callee != nil && callee.Pkg == fn.Pkg && len(callee.Blocks) > 0 && depth < 3 {
									for ai, a := range x.Call.Args {
										if a == v && ai < len(callee.Params) {
											follow(callee, callee.Params[ai], depth+1)
										}
									}
								}
							}
						}
					}
				}
				follow(f, call, 0)
				key := fmt.Sprintf("the slice returned by %s() in %s is not kept or extended as it is", name, shortFn(f))
				c.Check("R10.8", key, call.Pos(), bad == token.NoPos,
					fmt.Sprintf("%s() hands out the slice cached in the node and here it is %s (%s): several position sets share one backing array, and a later append within its capacity or the in-place sort of the follow sets rewrites the others",
						name, how, c.rel(bad)),
					"(a*|b)[xyz] must accept bz; (ab*|c)[0-9] must accept c9")
			}
		}
	}
	c.Extra("memoised_slice_results_followed", sites)
}

func recvOfFn(f *ssa.Function) ssa.Value {
	if f.Signature.Recv() != nil && len(f.Params) > 0 {
		return f.Params[0]
	}
	return nil
}

// isMemoField: a store into a field reached from the function's own receiver (n.comp.firstPos = ...): the cache itself
func isMemoField(f *ssa.Function, fa *ssa.FieldAddr) bool {
	recv := recvOfFn(f)
	if recv == nil {
		return false
	}
	var x ssa.Value = fa.X
	for i := 0; i < 4; i++ {
		if x == recv {
			return true
		}
		switch y := x.(type) {
		case *ssa.FieldAddr:
			x = y.X
		case *ssa.UnOp:
			x = y.X
		default:
			return false
		}
	}
	return x == recv
}

// attrNames: the names the node interface gives to the three attributes, found by role, not by spelling: nullable is the
// interface's bool method; firstpos is the position-set method that the DFA construction calls on the root to form the start
// state, lastpos is the other one; compute is the memoising helper of a node type (a method without results that writes
// its receiver).
type attrNames struct{ nullable, first, last string }

func findAttrNames(c *Ctx, p *packages.Package) (attrNames, bool) {
	var an attrNames
	info := p.TypesInfo
	var node *types.Interface
	for _, n := range p.Types.Scope().Names() {
		tn, ok := p.Types.Scope().Lookup(n).(*types.TypeName)
		if !ok {
			continue
		}
		it, ok := tn.Type().Underlying().(*types.Interface)
		if !ok {
			continue
		}
		nBool, nSet := 0, 0
		var setT types.Type
		for i := 0; i < it.NumMethods(); i++ {
			m := it.Method(i)
			sig := m.Type().(*types.Signature)
			if m.Exported() || sig.Params().Len() != 0 || sig.Results().Len() != 1 {
				continue
			}
			rt := sig.Results().At(0).Type()
			if b, ok := rt.Underlying().(*types.Basic); ok && b.Kind() == types.Bool {
				nBool++
				an.nullable = m.Name()
			} else if _, ok := rt.Underlying().(*types.Slice); ok {
				if setT == nil || types.Identical(setT, rt) {
					setT = rt
					nSet++
				}
			}
		}
		if nBool == 1 && nSet == 2 {
			node = it
		}
	}
	if node == nil {
		return an, false
	}
	var sets []string
	for i := 0; i < node.NumMethods(); i++ {
		m := node.Method(i)
		sig := m.Type().(*types.Signature)
		if !m.Exported() && sig.Params().Len() == 0 && sig.Results().Len() == 1 {
			if _, ok := sig.Results().At(0).Type().Underlying().(*types.Slice); ok {
				sets = append(sets, m.Name())
			}
		}
	}
	// the one called on a field of the receiver (the root) in a function that returns a pointer (the DFA builder)
	AllFuncDecls(p, func(fd *ast.FuncDecl) {
		if fd.Body == nil || fd.Recv == nil || fd.Type.Results == nil || len(fd.Type.Results.List) != 1 {
			return
		}
		if _, isPtr := info.TypeOf(fd.Type.Results.List[0].Type).(*types.Pointer); !isPtr {
			return
		}
		if !fd.Name.IsExported() {
			return
		}
		ast.Inspect(fd.Body, func(n ast.Node) bool {
			call, ok := n.(*ast.CallExpr)
			if !ok {
				return true
			}
			sel, ok := call.Fun.(*ast.SelectorExpr)
			if !ok {
				return true
			}
			for _, s := range sets {
				if sel.Sel.Name == s {
					if inner, ok := ast.Unparen(sel.X).(*ast.SelectorExpr); ok {
						if _, isIdent := ast.Unparen(inner.X).(*ast.Ident); isIdent && an.first == "" {
							an.first = s
						}
					}
				}
			}
			return true
		})
	})
	for _, s := range sets {
		if s != an.first {
			an.last = s
		}
	}
	return an, an.nullable != "" && an.first != "" && an.last != "" && len(sets) == 2
}

// memoHelperOf: the method of node type recv that has no results and writes a field of its receiver (the memoising helper).
func memoHelperOf(p *packages.Package, recv string) *ast.FuncDecl {
	info := p.TypesInfo
	var out *ast.FuncDecl
	AllFuncDecls(p, func(fd *ast.FuncDecl) {
		if fd.Recv == nil || fd.Body == nil || recvName(fd.Recv.List[0].Type) != recv || (fd.Type.Results != nil && len(fd.Type.Results.List) > 0) {
			return
		}
		if len(fd.Recv.List[0].Names) != 1 {
			return
		}
		r := info.Defs[fd.Recv.List[0].Names[0]]
		ast.Inspect(fd.Body, func(n ast.Node) bool {
			if as, ok := n.(*ast.AssignStmt); ok {
				for _, l := range as.Lhs {
					if sel, ok := l.(*ast.SelectorExpr); ok {
						if id, ok := ast.Unparen(sel.X).(*ast.Ident); ok && info.Uses[id] == r {
							out = fd
						}
					}
				}
			}
			return true
		})
	})
	return out
}

// followsAdderParams: fd is a helper `func (from, to)` whose body is `for _, p := range from { m[p] = append(m[p], to...) }`:
// returns the parameter positions of from and to, or -1.
func followsAdderParams(p *packages.Package, fd *ast.FuncDecl) (int, int) {
	if fd == nil || fd.Body == nil || fd.Type.Params == nil {
		return -1, -1
	}
	info := p.TypesInfo
	var params []types.Object
	for _, f := range fd.Type.Params.List {
		for _, n := range f.Names {
			params = append(params, info.Defs[n])
		}
	}
	if len(params) != 2 || len(fd.Body.List) != 1 {
		return -1, -1
	}
	rs, ok := fd.Body.List[0].(*ast.RangeStmt)
	if !ok || len(rs.Body.List) != 1 {
		return -1, -1
	}
	rid, ok := ast.Unparen(rs.X).(*ast.Ident)
	if !ok {
		return -1, -1
	}
	from := -1
	for i, o := range params {
		if info.Uses[rid] == o {
			from = i
		}
	}
	if from < 0 {
		return -1, -1
	}
	as, ok := rs.Body.List[0].(*ast.AssignStmt)
	if !ok || len(as.Rhs) != 1 {
		return -1, -1
	}
	call, ok := ast.Unparen(as.Rhs[0]).(*ast.CallExpr)
	if !ok || len(call.Args) != 2 || !call.Ellipsis.IsValid() {
		return -1, -1
	}
	if id, ok := call.Fun.(*ast.Ident); !ok || id.Name != "append" {
		return -1, -1
	}
	tid, ok := ast.Unparen(call.Args[1]).(*ast.Ident)
	if !ok || info.Uses[tid] != params[1-from] {
		return -1, -1
	}
	return from, 1 - from
}

// checkCopyDeep (R10.7): the copy function used when a quantifier duplicates a sub-expression must be deep. The copy function
// is found by role: a self-recursive function of one parameter whose parameter and result have the same interface type and
// whose body switches on the parameter's dynamic type. In every case the node-valued fields of the result (the interface
// type itself or a slice of it) may come from the original only through a recursive call; a case that hands back the
// original, or stores a child of the original in the copy, makes two copies share leaves, hence positions, hence followpos.
func checkCopyDeep(c *Ctx, p *packages.Package, rule string) {
	info := p.TypesInfo
	var copyFn *ast.FuncDecl
	AllFuncDecls(p, func(fd *ast.FuncDecl) {
		if fd.Body == nil || fd.Recv != nil || fd.Type.Params == nil || fd.Type.Results == nil {
			return
		}
		fo, _ := info.Defs[fd.Name].(*types.Func)
		if fo == nil {
			return
		}
		sig := fo.Type().(*types.Signature)
		if sig.Params().Len() != 1 || sig.Results().Len() != 1 || !types.Identical(sig.Params().At(0).Type(), sig.Results().At(0).Type()) {
			return
		}
		if _, isIface := sig.Params().At(0).Type().Underlying().(*types.Interface); !isIface {
			return
		}
		rec, sw := false, false
		ast.Inspect(fd.Body, func(n ast.Node) bool {
			if call, ok := n.(*ast.CallExpr); ok && objOf(info, call.Fun) == types.Object(fo) {
				rec = true
			}
			if _, ok := n.(*ast.TypeSwitchStmt); ok {
				sw = true
			}
			return true
		})
		if rec && sw {
			copyFn = fd
		}
	})
	if copyFn == nil {
		c.Undecided(rule, "copy function: found", p.Types.Scope().Pos(), "no self-recursive Node -> Node function switching on the node type was found")
		return
	}
	c.Analysed(p.Types.Path() + "." + copyFn.Name.Name)
	fo := info.Defs[copyFn.Name]
	nodeT := fo.Type().(*types.Signature).Params().At(0).Type()
	param := info.Defs[copyFn.Type.Params.List[0].Names[0]]
	nodeish := func(t types.Type) bool {
		if types.Identical(t, nodeT) {
			return true
		}
		if sl, ok := t.Underlying().(*types.Slice); ok && types.Identical(sl.Elem(), nodeT) {
			return true
		}
		return false
	}
	var ts *ast.TypeSwitchStmt
	ast.Inspect(copyFn.Body, func(n ast.Node) bool {
		if s, ok := n.(*ast.TypeSwitchStmt); ok && ts == nil {
			ts = s
		}
		return true
	})
	for _, cl := range ts.Body.List {
		cc := cl.(*ast.CaseClause)
		if len(cc.List) != 1 {
			continue // default or multi-type case: nothing of a specific type to copy
		}
		tv, ok := info.Types[cc.List[0]]
		if !ok || tv.IsNil() {
			continue
		}
		ptr, ok := tv.Type.(*types.Pointer)
		if !ok {
			continue
		}
		st, ok := ptr.Elem().Underlying().(*types.Struct)
		if !ok {
			continue
		}
		key := fmt.Sprintf("%s case %s: children reach the copy only through a recursive copy", copyFn.Name.Name, types.ExprString(cc.List[0]))
		bound := info.Implicits[cc] // the case's own v
		hasChildren := false
		for i := 0; i < st.NumFields(); i++ {
			if nodeish(st.Field(i).Type()) {
				hasChildren = true
			}
		}
		// parents of every node in the clause
		parent := map[ast.Node]ast.Node{}
		var stack []ast.Node
		for _, s := range cc.Body {
			ast.Inspect(s, func(n ast.Node) bool {
				if n == nil {
					stack = stack[:len(stack)-1]
					return true
				}
				if len(stack) > 0 {
					parent[n] = stack[len(stack)-1]
				}
				stack = append(stack, n)
				return true
			})
		}
		isRecCall := func(n ast.Node) bool {
			call, ok := n.(*ast.CallExpr)
			return ok && objOf(info, call.Fun) == fo
		}
		bad, unknown := "", ""
		// range variables over a child list
		elemVars := map[types.Object]bool{}
		var useOK func(e ast.Expr) int // 1 fine, 0 aliasing, -1 unknown
		useOK = func(e ast.Expr) int {
			par := parent[e]
			for {
				if pe, ok := par.(*ast.ParenExpr); ok {
					par = parent[pe]
					continue
				}
				break
			}
			switch pn := par.(type) {
			case *ast.CallExpr:
				if isRecCall(pn) {
					return 1
				}
				if id, ok := ast.Unparen(pn.Fun).(*ast.Ident); ok {
					if b, ok := info.Uses[id].(*types.Builtin); ok {
						if b.Name() == "len" || b.Name() == "cap" {
							return 1
						}
						if b.Name() == "append" || b.Name() == "copy" {
							return 0
						}
					}
				}
				return -1
			case *ast.RangeStmt:
				if pn.X == e {
					if id, ok := pn.Value.(*ast.Ident); ok && id.Name != "_" {
						elemVars[info.Defs[id]] = true
					}
					return 1
				}
				return -1
			case *ast.IndexExpr:
				if pn.X == e {
					return useOK(pn)
				}
				return 1
			case *ast.KeyValueExpr, *ast.CompositeLit, *ast.ReturnStmt:
				return 0
			case *ast.AssignStmt:
				for _, r := range pn.Rhs {
					if r == e {
						return 0
					}
				}
				return 1
			case *ast.BinaryExpr:
				return 1 // comparison with nil
			}
			return -1
		}
		for _, s := range cc.Body {
			ast.Inspect(s, func(n ast.Node) bool {
				switch x := n.(type) {
				case *ast.SelectorExpr:
					id, ok := ast.Unparen(x.X).(*ast.Ident)
					if !ok || bound == nil || info.Uses[id] != bound {
						return true
					}
					if tv, ok := info.Types[x]; !ok || !nodeish(tv.Type) {
						return true
					}
					switch useOK(x) {
					case 0:
						bad = fmt.Sprintf("%s.%s is stored in the copy as it is", id.Name, x.Sel.Name)
					case -1:
						unknown = fmt.Sprintf("the use of %s.%s", id.Name, x.Sel.Name)
					}
				case *ast.Ident:
					o := info.Uses[x]
					if o == nil {
						return true
					}
					if elemVars[o] {
						switch useOK(x) {
						case 0:
							bad = fmt.Sprintf("the element %s of the original's children is stored in the copy as it is", x.Name)
						case -1:
							unknown = "the use of the element " + x.Name
						}
					}
					if (o == bound || o == param) && hasChildren {
						if _, isRet := parent[x].(*ast.ReturnStmt); isRet {
							bad = "the original node is returned as its own copy"
						}
						// star := *v; return &star  copies the struct and with it the pointers to the children
						if se, isStar := parent[x].(*ast.StarExpr); isStar && se.X == ast.Expr(x) {
							bad = "the node is copied by value (*" + x.Name + "), which copies the pointers to its children, not the children"
						}
					}
				}
				return true
			})
		}
		switch {
		case bad != "":
			c.Fail(rule, key, cc.Pos(), bad+": the copies made for a counted repetition share the sub-tree, its leaves get one position each instead of one per copy, and followpos merges the contexts of the copies (e.g. (a*b){2} accepts \"ab\")")
		case unknown != "":
			c.Undecided(rule, key, cc.Pos(), unknown+" was not recognised as a recursive copy")
		default:
			c.Pass(rule, key, cc.Pos(), "")
		}
	}
}


// checkPosSetEquality (R10.10): a state of the direct construction is a set of positions kept as a list, and lists built by
// appending follow sets can name a position twice. The equality that decides "this set is already a state" must therefore test
// both inclusions; "same length and one inclusion" calls [1,1,2] and [1,2,3] equal, and the construction then re-uses the wrong
// state. Decided on the methods `Equal` of the package's named slice types: for each, the loops that test membership of the
// elements of one operand in the other must go both ways.
func checkPosSetEquality(c *Ctx, rule string) {
	ap := c.Pkg("internal/regex/parser/ast")
	if ap == nil {
		return
	}
	info := ap.TypesInfo
	found := 0
	AllFuncDecls(ap, func(fd *ast.FuncDecl) {
		if fd.Recv == nil || fd.Body == nil || fd.Name.Name != "Equal" || len(fd.Recv.List) != 1 || len(fd.Recv.List[0].Names) != 1 {
			return
		}
		rt := info.TypeOf(fd.Recv.List[0].Type)
		if rt == nil {
			return
		}
		sl, ok := rt.Underlying().(*types.Slice)
		if !ok {
			return
		}
		if b, ok := sl.Elem().Underlying().(*types.Basic); !ok || b.Info()&types.IsInteger == 0 {
			return
		}
		if fd.Type.Params == nil || len(fd.Type.Params.List) != 1 || len(fd.Type.Params.List[0].Names) != 1 {
			return
		}
		found++
		recv := info.Defs[fd.Recv.List[0].Names[0]]
		other := info.Defs[fd.Type.Params.List[0].Names[0]]
		// range X { … Y.Contains(elem) … }  (or slices.Contains(Y, elem))
		dirs := map[[2]types.Object]bool{}
		unknown := false
		ast.Inspect(fd.Body, func(n ast.Node) bool {
			rs, ok := n.(*ast.RangeStmt)
			if !ok {
				return true
			}
			xid, ok := ast.Unparen(rs.X).(*ast.Ident)
			if !ok {
				unknown = true
				return true
			}
			over := info.Uses[xid]
			ast.Inspect(rs.Body, func(m ast.Node) bool {
				call, ok := m.(*ast.CallExpr)
				if !ok {
					return true
				}
				if sel, ok := call.Fun.(*ast.SelectorExpr); ok && sel.Sel.Name == "Contains" {
					if yid, ok := ast.Unparen(sel.X).(*ast.Ident); ok {
						if o := info.Uses[yid]; o == recv || o == other {
							dirs[[2]types.Object{over, o}] = true
						} else if len(call.Args) == 2 {
							if y2, ok := ast.Unparen(call.Args[0]).(*ast.Ident); ok {
								dirs[[2]types.Object{over, info.Uses[y2]}] = true
							}
						}
					}
				}
				return true
			})
			return true
		})
		key := funcKey(ap, fd) + ": equality of position lists tests both inclusions"
		fwd, back := dirs[[2]types.Object{recv, other}], dirs[[2]types.Object{other, recv}]
		switch {
		case fwd && back:
			c.Pass(rule, key, fd.Pos(), "")
		case fwd || back:
			c.Fail(rule, key, fd.Pos(), "only one inclusion is tested (a comparison of the lengths does not make up for the other: the lists can name a position twice): two different sets of positions are taken for one state of the automaton",
				"((aaa)*(aa)*)*aa no longer matches aaaa on the direct route")
		default:
			_ = unknown
			c.Undecided(rule, key, fd.Pos(), "the equality is not written as membership loops over its two operands")
		}
	})
	if found == 0 {
		c.Undecided(rule, "equality of position lists tests both inclusions", token.NoPos, "no Equal method on a list of positions was found")
	}
}
