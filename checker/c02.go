package main

import (
	"fmt"
	"go/ast"
	"go/token"
	"go/types"
	"regexp/syntax"
	"sort"
	"strings"

	"golang.org/x/tools/go/packages"
	"golang.org/x/tools/go/ssa"
)

func init() {
	register(&property{id: "C02", run: runC02, meta: propMeta{
		level: "other",
		explanation: "Table and schema rules for the pattern compiler: the rune-class table is evaluated from its composite literal and every POSIX / Perl class and every Unicode general category (restricted to the ASCII universe emerge supports) is compared with the sets Go's regexp/syntax and unicode tables give; every class name the combinators accept is a key of the table; the value of automata.E (epsilon) must not be a member of any rune set fed to (*NFA).Add; the quantifier expansion of the NFA route is abstracted to a repetition-count interval, symbolic in the bounds, and compared with the documented meaning of ? * + {n} {n,} {n,m}; regexToDFA is Parse -> ToDFA -> language-preserving post-processing with the parse error returned. " +
			"Correctness of ToDFA / Minimize / EliminateDeadStates / Union / Concat / Star in the dependency and language equality per pattern are out of reach.",
		trusted: []string{"Go's regexp/syntax and unicode tables as the reference for class contents", "moorara/algo automata algorithms preserve languages"},
		assumptions: []string{"the supported universe is ASCII (0x00-0x7F), as the class table states"},
	}})
}

// evalRuneClasses evaluates the RuneClasses composite literal to rune sets.
func evalRuneClasses(c *Ctx, rule string) (map[string]rset, map[string]token.Pos, *packages.Package) {
	pp := c.Pkg("internal/regex/parser")
	if pp == nil {
		c.Lost(rule, "package internal/regex/parser")
		return nil, nil, nil
	}
	info := pp.TypesInfo
	var init ast.Expr
	pkgVars(pp, func(v *types.Var, in ast.Expr, _ *ast.ValueSpec) {
		if m, ok := v.Type().Underlying().(*types.Map); ok && in != nil {
			if _, n := namedTypeName(m.Elem()); n == "RuneClass" {
				init = in
			}
		}
	})
	cl, ok := init.(*ast.CompositeLit)
	if !ok {
		c.Lost(rule, "the rune class table (package-level map[string]RuneClass literal)")
		return nil, nil, nil
	}
	out := map[string]rset{}
	pos := map[string]token.Pos{}
	for _, el := range cl.Elts {
		kv, ok := el.(*ast.KeyValueExpr)
		if !ok {
			continue
		}
		k, ok := constStr(info, kv.Key)
		if !ok {
			c.Undecided(rule, "class table key", kv.Pos(), "non-constant key")
			return nil, nil, nil
		}
		vcl, ok := kv.Value.(*ast.CompositeLit)
		if !ok {
			c.Undecided(rule, "class "+k, kv.Pos(), "value is not a literal")
			return nil, nil, nil
		}
		var s rset
		for _, part := range vcl.Elts {
			pcl, ok := part.(*ast.CompositeLit)
			if !ok {
				c.Undecided(rule, "class "+k, part.Pos(), "part is not a literal")
				return nil, nil, nil
			}
			_, tn := namedTypeName(info.TypeOf(pcl))
			var vals []rune
			for _, e := range pcl.Elts {
				v, ok := constInt(info, e)
				if !ok {
					c.Undecided(rule, "class "+k, e.Pos(), "non-constant rune")
					return nil, nil, nil
				}
				vals = append(vals, rune(v))
			}
			switch tn {
			case "runeRange":
				if len(vals) != 2 {
					c.Undecided(rule, "class "+k, pcl.Pos(), "range without two ends")
					return nil, nil, nil
				}
				s = append(s, iv{vals[0], vals[1]})
			case "runeList":
				for _, v := range vals {
					s = append(s, iv{v, v})
				}
			default:
				c.Undecided(rule, "class "+k, pcl.Pos(), "unknown part type "+tn)
				return nil, nil, nil
			}
		}
		out[k] = norm(s)
		pos[k] = kv.Pos()
	}
	return out, pos, pp
}

// refClass returns the reference set of a regexp/syntax class expression restricted to ASCII.
func refClass(expr string) (rset, error) {
	re, err := syntax.Parse(expr, syntax.Perl|syntax.UnicodeGroups)
	if err != nil {
		return nil, err
	}
	var s rset
	switch re.Op {
	case syntax.OpCharClass:
		for i := 0; i+1 < len(re.Rune); i += 2 {
			s = append(s, iv{re.Rune[i], re.Rune[i+1]})
		}
	case syntax.OpLiteral:
		for _, r := range re.Rune {
			s = append(s, iv{r, r})
		}
	case syntax.OpNoMatch:
	default:
		return nil, fmt.Errorf("unexpected op %v for %s", re.Op, expr)
	}
	return intersect(norm(s), rset{{0, 0x7F}}), nil
}

func runC02(c *Ctx) {
	c.Rule("R2.1", 60, "class table agrees with the reference sets; every accepted class name is in the table")
	c.Rule("R2.2", 4, "epsilon's value is not a member of any rune set fed to the automaton")
	c.Rule("R2.3", 6, "quantifier expansion generates the documented repetition counts")
	c.Rule("R2.4", 3, "regexToDFA: Parse -> ToDFA -> language-preserving steps, error returned")
	c.Rule("R2.5", 20, "the combinator grammar equals the documented pattern grammar rule by rule")
	checkRegexGrammarDocs(c, "R2.5")
	c.Rule("R2.7", 4, "a direct alternative of an ordered choice fails only by shape (= R9.7)")
	checkAlternativesFailByShape(c, "R2.7")
	c.Rule("R2.6", 1, "a character group is a set: listing a character twice is listing it once")
	checkMembershipIdempotent(c, "R2.6", "internal/regex/parser/nfa", "internal/regex/parser/ast")

	classes, cpos, pp := evalRuneClasses(c, "R2.1")
	if classes == nil {
		return
	}
	c.Extra("classes_evaluated", len(classes))
	ref := map[string]string{
		`\s`: `\s`, `\d`: `\d`, `\w`: `\w`,
		`[:blank:]`: `[[:blank:]]`, `[:space:]`: `[[:space:]]`, `[:digit:]`: `[[:digit:]]`, `[:xdigit:]`: `[[:xdigit:]]`, `[:upper:]`: `[[:upper:]]`,
		`[:lower:]`: `[[:lower:]]`, `[:alpha:]`: `[[:alpha:]]`, `[:alnum:]`: `[[:alnum:]]`, `[:word:]`: `[[:word:]]`, `[:ascii:]`: `[[:ascii:]]`,
	}
	long := map[string]string{"Letter": "L", "Mark": "M", "Number": "N", "Punctuation": "P", "Symbol": "S", "Separator": "Z"}
	var names []string
	for k := range classes {
		names = append(names, k)
	}
	sort.Strings(names)
	for _, k := range names {
		expr := ref[k]
		if expr == "" {
			cat := k
			if l, ok := long[k]; ok {
				cat = l
			}
			if len(cat) <= 2 && cat[0] >= 'A' && cat[0] <= 'Z' {
				expr = `\p{` + cat + `}`
			}
		}
		if expr == "" {
			continue // scripts / derived blocks / the two universes are not compared with a reference
		}
		want, err := refClass(expr)
		if err != nil {
			c.Undecided("R2.1", "class "+k, cpos[k], err.Error())
			continue
		}
		got := intersect(classes[k], rset{{0, 0x7F}})
		okSet := got.equal(want) && classes[k].equal(got)
		wit := ""
		if !okSet {
			d := union(minus(want, got), minus(got, want))
			if !d.empty() {
				wit = fmt.Sprintf("the character %s", showRune(d[0].lo))
			}
		}
		c.Check("R2.1", "class "+k+" equals "+expr+" on ASCII", cpos[k], okSet,
			fmt.Sprintf("table has %s, reference (regexp/syntax, restricted to 0x00-0x7F) has %s", classes[k], want), wit)
	}
	// ASCII universe
	c.Check("R2.1", "the ASCII universe is 0x00-0x7F", cpos["ASCII"], classes["ASCII"].equal(rset{{0, 0x7F}}), fmt.Sprintf("ASCII is %s", classes["ASCII"]))
	// every class name accepted by the combinators is a key
	info := pp.TypesInfo
	if newFn := FuncDecl(pp, "", "New"); newFn != nil {
		n := 0
		for _, st := range newFn.Body.List {
			as, ok := st.(*ast.AssignStmt)
			if !ok || len(as.Lhs) != 1 {
				continue
			}
			sel, ok := as.Lhs[0].(*ast.SelectorExpr)
			if !ok {
				continue
			}
			if fld := sel.Sel.Name; fld != "charClass" && fld != "asciiCharClass" && fld != "unicodeCategory" {
				continue
			}
			seenNames := map[string]bool{}
			// names handed to a helper of the package that builds the alternatives (oneOf("\\s", "\\S", ...))
			defer func() {}()
			ast.Inspect(as.Rhs[0], func(nd ast.Node) bool {
				call, ok := nd.(*ast.CallExpr)
				if !ok {
					return true
				}
				if fo, ok := objOf(info, call.Fun).(*types.Func); ok && fo.Pkg() == pp.Types && fo.Name() != "ExpectString" {
					for _, a := range call.Args {
						if s, ok := constStr(info, a); ok && !seenNames[s] {
							seenNames[s] = true
							n++
							key := s
							if sel.Sel.Name == "charClass" {
								key = strings.ToLower(s)
							}
							_, have := classes[key]
							c.Check("R2.1", "accepted class name "+s+" has a table entry", a.Pos(), have, "the combinators accept "+s+" but the class table has no such key: the mapper fails and a documented construct is rejected")
						}
					}
				}
				if len(call.Args) != 1 {
					return true
				}
				if fo, ok := objOf(info, call.Fun).(*types.Func); ok && fo.Name() == "ExpectString" {
					if s, ok := constStr(info, call.Args[0]); ok {
						seenNames[s] = true
						n++
						key := s
						if sel.Sel.Name == "charClass" {
							key = strings.ToLower(s) // \S is the negation of \s
						}
						_, have := classes[key]
						c.Check("R2.1", "accepted class name "+s+" has a table entry", call.Pos(), have, "the combinators accept "+s+" but the class table has no such key: the mapper fails and a documented construct is rejected")
					}
				}
				return true
			})
		}
		if n >= 60 {
			c.Pass("R2.1", "class names accepted by the combinators were found", newFn.Pos(), fmt.Sprintf("%d names", n))
		} else {
			c.Undecided("R2.1", "class names accepted by the combinators were found", newFn.Pos(), fmt.Sprintf("only %d names found in the definitions of the class combinators: they are written in a way this rule does not read", n))
		}
	}

	checkClassPresence(c, "R2.1")
	checkRuneHelperResults(c, "R2.1")
	checkEpsilonCollision(c, classes)
	np := c.Pkg("internal/regex/parser/nfa")
	if fd := FuncDecl(np, "", "quantifyNFA"); fd != nil {
		checkQuantifier(c, np, fd, "R2.3")
	} else if fds := findQuantifier(np); fds != nil {
		checkQuantifier(c, np, fds, "R2.3")
	} else {
		c.Lost("R2.3", "the NFA quantifier function")
	}
	checkPipeline(c)
	if sp := c.Pkg("internal/ebnf/parser/spec"); sp != nil {
		if fd := FuncDecl(sp, "Spec", "DFA"); fd != nil {
			if fn := c.SSAFunc(sp, fd); fn != nil {
				var fns []*ssa.Function
				fns = append(fns, fn)
				allCalls(fn, func(call ssa.CallInstruction) {
					if callee := call.Common().StaticCallee(); callee != nil && callee.Pkg == fn.Pkg && callee != fn {
						fns = append(fns, callee)
					}
				})
				checkPatternRoute(c, "R2.4", fns...)
			}
		}
	}
}

func findQuantifier(p *packages.Package) *ast.FuncDecl {
	var out *ast.FuncDecl
	AllFuncDecls(p, func(fd *ast.FuncDecl) {
		if fd.Recv != nil || fd.Body == nil || fd.Type.Params == nil || len(fd.Type.Params.List) != 2 {
			return
		}
		if t := p.TypesInfo.TypeOf(fd.Type.Params.List[1].Type); t != nil {
			if i, ok := t.Underlying().(*types.Interface); ok && i.Empty() {
				out = fd
			}
		}
	})
	return out
}

// ---------- R2.2 ----------

func checkEpsilonCollision(c *Ctx, classes map[string]rset) {
	np := c.Pkg("internal/regex/parser/nfa")
	if np == nil {
		c.Lost("R2.2", "package internal/regex/parser/nfa")
		return
	}
	info := np.TypesInfo
	// epsilon's value
	var eps int64 = -1
	if ap := np.Imports[depPath+"/automata"]; ap != nil {
		if k, ok := ap.Types.Scope().Lookup("E").(*types.Const); ok {
			eps, _ = constantInt64(k)
		}
	}
	if eps < 0 {
		c.Lost("R2.2", "automata.E")
		return
	}
	n := 0
	AllFuncDecls(np, func(fd *ast.FuncDecl) {
		if fd.Body == nil {
			return
		}
		// every `X.Add(s, auto.Symbol(<r>), ...)` whose rune comes from a loop
		var loops []*ast.RangeStmt
		var visit func(nd ast.Node)
		visit = func(nd ast.Node) {
			ast.Inspect(nd, func(m ast.Node) bool {
				if rs, ok := m.(*ast.RangeStmt); ok && rs != nd {
					loops = append(loops, rs)
					visit(rs.Body)
					loops = loops[:len(loops)-1]
					return false
				}
				call, ok := m.(*ast.CallExpr)
				if !ok || len(call.Args) != 3 {
					return true
				}
				sel, ok := call.Fun.(*ast.SelectorExpr)
				if !ok || sel.Sel.Name != "Add" {
					return true
				}
				if _, tn := namedTypeName(info.TypeOf(sel.X)); tn != "NFA" {
					return true
				}
				conv, ok := ast.Unparen(call.Args[1]).(*ast.CallExpr)
				if !ok || len(conv.Args) != 1 {
					return true
				}
				src := ast.Unparen(conv.Args[0])
				// rune(i) where i ranges over an index
				if inner, ok := src.(*ast.CallExpr); ok && len(inner.Args) == 1 {
					src = ast.Unparen(inner.Args[0])
				}
				id, ok := src.(*ast.Ident)
				if !ok {
					return true
				}
				obj := info.Uses[id]
				// which loop defines it, and over what
				for i := len(loops) - 1; i >= 0; i-- {
					rs := loops[i]
					isKey := rs.Key != nil && identDefines(info, rs.Key, obj)
					isVal := rs.Value != nil && identDefines(info, rs.Value, obj)
					if !isKey && !isVal {
						continue
					}
					var set rset
					known := false
					what := types.ExprString(rs.X)
					if isVal {
						// parser.RuneClasses["K"].Runes()
						ast.Inspect(rs.X, func(x ast.Node) bool {
							if ix, ok := x.(*ast.IndexExpr); ok {
								if k, ok := constStr(info, ix.Index); ok {
									if s, ok := classes[k]; ok {
										set, known = s, true
									}
								}
							}
							return true
						})
					} else {
						// index of a table: starts at 0
						set, known = rset{{0, 0}}, true
						what = "the indices of a table" // the table's name is not part of the construct
					}
					if !known {
						return true
					}
					n++
					guarded := false
					// a guard comparing the variable with 0 / automata.E in an enclosing if
					ast.Inspect(rs.Body, func(x ast.Node) bool {
						if ifs, ok := x.(*ast.IfStmt); ok && ifs.Pos() <= call.Pos() && call.End() <= ifs.End() {
							ast.Inspect(ifs.Cond, func(y ast.Node) bool {
								if b, ok := y.(*ast.BinaryExpr); ok && (b.Op == token.NEQ || b.Op == token.GTR) {
									if v, ok := constInt(info, b.Y); ok && v == eps {
										guarded = true
									}
								}
								return true
							})
						}
						return true
					})
					c.Check("R2.2", fmt.Sprintf("%s: symbols added from %s exclude epsilon", trimMod(np.PkgPath)+"."+fd.Name.Name, what), call.Pos(), !set.has(rune(eps)) || guarded,
						fmt.Sprintf("the set contains U+%04X, which is automata.E (the empty string): the transition added for it is an ε-transition, so the construct can be skipped", eps),
						"the pattern a.b accepts \"ab\"")
					return true
				}
				return true
			})
		}
		visit(fd.Body)
	})
	if n == 0 {
		c.Lost("R2.2", "loops adding class members to an NFA")
	}
}

func identDefines(info *types.Info, e ast.Expr, obj types.Object) bool {
	id, ok := e.(*ast.Ident)
	return ok && info.Defs[id] == obj
}

func constantInt64(k *types.Const) (int64, bool) {
	var v int64
	_, err := fmt.Sscan(k.Val().ExactString(), &v)
	return v, err == nil
}

// ---------- R2.3 quantifier schema ----------

// lin is a linear form a*L + b*U + c (L = lower bound, U = upper bound of a range quantifier), or +infinity.
type lin struct {
	l, u, c int
	inf     bool
}

func (x lin) add(y lin) lin {
	if x.inf || y.inf {
		return lin{inf: true}
	}
	return lin{x.l + y.l, x.u + y.u, x.c + y.c, false}
}

func (x lin) String() string {
	if x.inf {
		return "∞"
	}
	var p []string
	if x.l != 0 {
		p = append(p, fmt.Sprintf("%d·n", x.l))
	}
	if x.u != 0 {
		p = append(p, fmt.Sprintf("%d·m", x.u))
	}
	if x.c != 0 || len(p) == 0 {
		p = append(p, fmt.Sprint(x.c))
	}
	return strings.Join(p, "+")
}

type civ struct{ lo, hi lin }

func (a civ) String() string { return "[" + a.lo.String() + ", " + a.hi.String() + "]" }

func constIv(lo, hi int) civ { return civ{lin{c: lo}, lin{c: hi}} }

// scale multiplies a constant interval by a symbolic bound.
func scale(a civ, b lin) (civ, bool) {
	if a.lo.l != 0 || a.lo.u != 0 || a.hi.l != 0 || a.hi.u != 0 || a.hi.inf || b.inf {
		return civ{}, false
	}
	return civ{lin{b.l * a.lo.c, b.u * a.lo.c, b.c * a.lo.c, false}, lin{b.l * a.hi.c, b.u * a.hi.c, b.c * a.hi.c, false}}, true
}

type quantEval struct {
	p       *packages.Package
	info    *types.Info
	operand types.Object // the parameter n
	accs    map[types.Object]civ
	err     string
}

// count evaluates an automaton/node-valued expression to the repetition counts of the operand it denotes.
func (q *quantEval) count(e ast.Expr) (civ, bool) {
	e = ast.Unparen(e)
	switch v := e.(type) {
	case *ast.Ident:
		if q.info.Uses[v] == q.operand {
			return constIv(1, 1), true
		}
		if a, ok := q.accs[q.info.Uses[v]]; ok {
			return a, true
		}
	case *ast.UnaryExpr:
		if v.Op == token.AND {
			return q.count(v.X)
		}
	case *ast.CompositeLit:
		_, tn := namedTypeName(q.info.TypeOf(v))
		fs, _ := compositeFields(v)
		switch tn {
		case "Empty":
			return constIv(0, 0), true
		case "Star":
			if x, ok := q.count(fs["Expr"]); ok && !x.lo.inf && x.lo.c <= 1 && x.lo.l == 0 && x.lo.u == 0 {
				return civ{lin{}, lin{inf: true}}, true
			}
		case "Alt", "Concat":
			list, ok := ast.Unparen(fs["Exprs"]).(*ast.CompositeLit)
			if !ok {
				break
			}
			var parts []civ
			for _, el := range list.Elts {
				x, ok := q.count(el)
				if !ok {
					return civ{}, false
				}
				parts = append(parts, x)
			}
			if tn == "Concat" {
				sum := constIv(0, 0)
				for _, x := range parts {
					sum = civ{sum.lo.add(x.lo), sum.hi.add(x.hi)}
				}
				return sum, true
			}
			return unionIv(parts)
		}
	case *ast.CallExpr:
		// cloneNode(n), empty(), X.Union(Y), X.Star(), X.Concat(Y...), concat(ns...)
		if fo, ok := objOf(q.info, v.Fun).(*types.Func); ok {
			sig := fo.Type().(*types.Signature)
			if sig.Recv() == nil && fo.Pkg() == q.p.Types {
				switch {
				case len(v.Args) == 0:
					// empty(): look into the function: an automaton accepting only ε -> [0,0]; trusted by name-free shape: no parameters
					return constIv(0, 0), true
				case len(v.Args) == 1 && !v.Ellipsis.IsValid():
					// a one-argument helper: if its body is a single return expression, that expression counts (with the
					// helper's parameter standing for the argument, when the argument is the operand itself); a helper with a
					// longer body is a copy function (cloneNode(x)) and counts as its argument
					if hd := declOfFunc(q.p, fo); hd != nil && hd.Body != nil && len(hd.Body.List) == 1 && hd.Type.Params != nil && len(hd.Type.Params.List) == 1 && len(hd.Type.Params.List[0].Names) == 1 {
						if ret, ok := hd.Body.List[0].(*ast.ReturnStmt); ok && len(ret.Results) == 1 {
							argc, okArg := q.count(v.Args[0])
							if !okArg {
								return civ{}, false
							}
							if argc.String() != constIv(1, 1).String() {
								q.err = "helper " + fo.Name() + " applied to something else than the operand"
								return civ{}, false
							}
							q2 := &quantEval{p: q.p, info: q.info, operand: q.info.Defs[hd.Type.Params.List[0].Names[0]], accs: map[types.Object]civ{}}
							r, ok := q2.count(ret.Results[0])
							if !ok {
								q.err = q2.err
							}
							return r, ok
						}
					}
					return q.count(v.Args[0])
				case len(v.Args) == 1 && v.Ellipsis.IsValid():
					// concat(ns...)
					return q.count(v.Args[0])
				}
			}
			if sig.Recv() != nil {
				sel := v.Fun.(*ast.SelectorExpr)
				base, ok := q.count(sel.X)
				if !ok {
					return civ{}, false
				}
				switch fo.Name() {
				case "Star":
					if !base.lo.inf && base.lo.l == 0 && base.lo.u == 0 && base.lo.c <= 1 {
						return civ{lin{}, lin{inf: true}}, true
					}
				case "Union":
					parts := []civ{base}
					for _, a := range v.Args {
						x, ok := q.count(a)
						if !ok {
							return civ{}, false
						}
						parts = append(parts, x)
					}
					return unionIv(parts)
				case "Concat":
					sum := base
					for _, a := range v.Args {
						x, ok := q.count(a)
						if !ok {
							return civ{}, false
						}
						sum = civ{sum.lo.add(x.lo), sum.hi.add(x.hi)}
					}
					return sum, true
				}
			}
		}
	}
	q.err = "expression not understood: " + types.ExprString(e)
	return civ{}, false
}

// unionIv: union of constant intervals that together form one interval.
func unionIv(parts []civ) (civ, bool) {
	lo, hi := 1<<30, -1
	inf := false
	for _, x := range parts {
		if x.lo.l != 0 || x.lo.u != 0 || x.hi.l != 0 || x.hi.u != 0 {
			return civ{}, false
		}
		if x.lo.c < lo {
			lo = x.lo.c
		}
		if x.hi.inf {
			inf = true
		} else if x.hi.c > hi {
			hi = x.hi.c
		}
	}
	// contiguity (only [0,0] ∪ [1,1]-like unions occur)
	sort.Slice(parts, func(i, j int) bool { return parts[i].lo.c < parts[j].lo.c })
	reach := parts[0].hi
	for _, x := range parts[1:] {
		if !reach.inf && x.lo.c > reach.c+1 {
			return civ{}, false
		}
		if x.hi.inf || (!reach.inf && x.hi.c > reach.c) {
			reach = x.hi
		}
	}
	if inf {
		return civ{lin{c: lo}, lin{inf: true}}, true
	}
	return civ{lin{c: lo}, lin{c: hi}}, true
}

// checkQuantifier abstracts quantify{NFA,Node}.
func checkQuantifier(c *Ctx, p *packages.Package, fd *ast.FuncDecl, rule string) {
	info := p.TypesInfo
	c.Analysed(funcKey(p, fd))
	if fd.Type.Params == nil || len(fd.Type.Params.List) != 2 {
		c.Undecided(rule, funcKey(p, fd), fd.Pos(), "unexpected parameters")
		return
	}
	operand := info.Defs[fd.Type.Params.List[0].Names[0]]
	var ts *ast.TypeSwitchStmt
	for _, st := range fd.Body.List {
		if x, ok := st.(*ast.TypeSwitchStmt); ok {
			ts = x
		}
	}
	if ts == nil {
		c.Undecided(rule, funcKey(p, fd), fd.Pos(), "no type switch on the quantifier value")
		return
	}
	key := trimMod(p.PkgPath) + "." + fd.Name.Name
	want := map[rune]civ{'?': constIv(0, 1), '*': {lin{}, lin{inf: true}}, '+': {lin{c: 1}, lin{inf: true}}}
	seen := map[rune]bool{}
	for _, cc := range ts.Body.List {
		cl := cc.(*ast.CaseClause)
		if len(cl.List) != 1 {
			continue
		}
		T := info.TypeOf(cl.List[0])
		if isRune(T) {
			continue // the operator dispatch is located below, wherever it is written
		}
		// the range case: tuple[int,*int]
		if _, tn := namedTypeName(T); tn != "tuple" {
			continue
		}
		low, up := types.Object(nil), types.Object(nil)
		accs := map[types.Object]bool{}
		bounded := map[types.Object]civ{}
		unbounded := map[types.Object]civ{}
		var result types.Object
		resIsAcc := types.Object(nil)
		linOf := func(e ast.Expr) (lin, bool) {
			e = ast.Unparen(e)
			if id, ok := e.(*ast.Ident); ok && info.Uses[id] == low {
				return lin{l: 1}, true
			}
			if b, ok := e.(*ast.BinaryExpr); ok && b.Op == token.SUB {
				if st, ok := ast.Unparen(b.X).(*ast.StarExpr); ok {
					if id, ok := ast.Unparen(st.X).(*ast.Ident); ok && info.Uses[id] == up {
						if id2, ok := ast.Unparen(b.Y).(*ast.Ident); ok && info.Uses[id2] == low {
							return lin{l: -1, u: 1}, true
						}
					}
				}
			}
			if v, ok := constInt(info, e); ok {
				return lin{c: int(v)}, true
			}
			return lin{}, false
		}
		q := &quantEval{p: p, info: info, operand: operand, accs: map[types.Object]civ{}}
		problem := ""
		clamped := ""
		var walk func(list []ast.Stmt, mode string) // mode: both | bounded | unbounded
		addTo := func(acc types.Object, x civ, mode string) {
			if mode != "unbounded" {
				b := bounded[acc]
				bounded[acc] = civ{b.lo.add(x.lo), b.hi.add(x.hi)}
			}
			if mode != "bounded" {
				u := unbounded[acc]
				unbounded[acc] = civ{u.lo.add(x.lo), u.hi.add(x.hi)}
			}
		}
		appendTarget := func(as *ast.AssignStmt) (types.Object, ast.Expr, bool) {
			if len(as.Lhs) != 1 || len(as.Rhs) != 1 {
				return nil, nil, false
			}
			call, ok := ast.Unparen(as.Rhs[0]).(*ast.CallExpr)
			if !ok || len(call.Args) != 2 {
				return nil, nil, false
			}
			if id, ok := call.Fun.(*ast.Ident); !ok || id.Name != "append" {
				return nil, nil, false
			}
			// acc = append(acc, E)  or  acc.Exprs = append(acc.Exprs, E)
			var root ast.Expr = as.Lhs[0]
			if sel, ok := root.(*ast.SelectorExpr); ok {
				root = sel.X
			}
			id, ok := ast.Unparen(root).(*ast.Ident)
			if !ok {
				return nil, nil, false
			}
			return info.Uses[id], call.Args[1], true
		}
		walk = func(list []ast.Stmt, mode string) {
			for _, st := range list {
				switch s := st.(type) {
				case *ast.AssignStmt:
					if len(s.Lhs) == 2 && len(s.Rhs) == 2 && s.Tok == token.DEFINE {
						// low, up := rep.p, rep.q
						if a, ok := s.Lhs[0].(*ast.Ident); ok {
							low = info.Defs[a]
						}
						if b, ok := s.Lhs[1].(*ast.Ident); ok {
							up = info.Defs[b]
						}
						continue
					}
					if acc, e, ok := appendTarget(s); ok {
						x, okc := q.count(e)
						if !okc {
							problem = q.err
							continue
						}
						accs[acc] = true
						addTo(acc, x, mode)
						continue
					}
					if len(s.Lhs) == 1 && len(s.Rhs) == 1 {
						lid, ok := s.Lhs[0].(*ast.Ident)
						if !ok {
							continue
						}
						lobj := info.Defs[lid]
						if lobj == nil {
							lobj = info.Uses[lid]
						}
						// accumulator creation: ns := []T{} / concat := new(Concat)
						switch r := ast.Unparen(s.Rhs[0]).(type) {
						case *ast.CompositeLit:
							if len(r.Elts) == 0 {
								accs[lobj] = true
								bounded[lobj], unbounded[lobj] = constIv(0, 0), constIv(0, 0)
								continue
							}
						case *ast.CallExpr:
							if id, ok := r.Fun.(*ast.Ident); ok && id.Name == "new" {
								accs[lobj] = true
								bounded[lobj], unbounded[lobj] = constIv(0, 0), constIv(0, 0)
								continue
							}
							// result = concat(ns...)
							if len(r.Args) == 1 && r.Ellipsis.IsValid() {
								if aid, ok := ast.Unparen(r.Args[0]).(*ast.Ident); ok && accs[info.Uses[aid]] {
									result, resIsAcc = lobj, info.Uses[aid]
									continue
								}
							}
						case *ast.Ident:
							if accs[info.Uses[r]] {
								result, resIsAcc = lobj, info.Uses[r]
								continue
							}
						}
					}
				case *ast.ForStmt:
					// for i := 0; i < B; i++ { acc = append(acc, E) }
					bound, okB := lin{}, false
					if init, ok := s.Init.(*ast.AssignStmt); ok && len(init.Rhs) == 1 {
						if v, ok := constInt(info, init.Rhs[0]); ok {
							startAt := int(v)
							if cond, ok := ast.Unparen(s.Cond).(*ast.BinaryExpr); ok && (cond.Op == token.LSS || cond.Op == token.LEQ) {
								if post, ok := s.Post.(*ast.IncDecStmt); ok && post.Tok == token.INC {
									bound, okB = linOf(cond.Y)
									if cond.Op == token.LEQ {
										bound = bound.add(lin{c: 1})
									}
									bound = bound.add(lin{c: -startAt})
								}
							}
						}
					}
					if !okB {
						problem = "loop bound not understood"
						continue
					}
					// the trip count is max(0, bound); it is linear only if the bound cannot be negative for 0 <= low <= up
					if bound.c < 0 || bound.u < 0 || bound.l+bound.u < 0 {
						clamped = fmt.Sprintf("the loop `%s` runs max(0, %s) times, which is not %s when the minimum is 0: what is appended outside the loop makes the operand occur for n = 0 as well", types.ExprString(s.Cond), bound, bound)
					}
					for _, b := range s.Body.List {
						as, ok := b.(*ast.AssignStmt)
						if !ok {
							problem = "loop body is not a single append"
							continue
						}
						acc, e, ok := appendTarget(as)
						if !ok {
							problem = "loop body is not a single append"
							continue
						}
						x, okc := q.count(e)
						if !okc {
							problem = q.err
							continue
						}
						sx, oks := scale(x, bound)
						if !oks {
							problem = "cannot scale " + x.String()
							continue
						}
						accs[acc] = true
						addTo(acc, sx, mode)
					}
				case *ast.IfStmt:
					// if up == nil { ... } else { ... }
					isNilTest := false
					if b, ok := ast.Unparen(s.Cond).(*ast.BinaryExpr); ok && b.Op == token.EQL && isNilExpr(info, b.Y) {
						if id, ok := ast.Unparen(b.X).(*ast.Ident); ok && info.Uses[id] == up {
							isNilTest = true
						}
					}
					if !isNilTest || mode != "both" {
						problem = "conditional not understood"
						continue
					}
					walk(s.Body.List, "unbounded")
					if s.Else != nil {
						if blk, ok := s.Else.(*ast.BlockStmt); ok {
							walk(blk.List, "bounded")
						}
					}
				}
			}
		}
		walk(cl.Body, "both")
		_ = result
		if resIsAcc == nil || problem != "" {
			c.Undecided(rule, key+": range repetition", cl.Pos(), "expansion not understood: "+problem)
			continue
		}
		if clamped != "" {
			c.Fail(rule, key+": {n,m} repeats the operand between n and m times", cl.Pos(), clamped)
			c.Fail(rule, key+": {n,} repeats the operand n or more times", cl.Pos(), clamped)
			continue
		}
		gb, gu := bounded[resIsAcc], unbounded[resIsAcc]
		wb := civ{lin{l: 1}, lin{u: 1}}
		wu := civ{lin{l: 1}, lin{inf: true}}
		c.Check(rule, key+": {n,m} repeats the operand between n and m times", cl.Pos(), gb.String() == wb.String(), fmt.Sprintf("the expansion yields %s repetitions", gb), "a{2,3}")
		c.Check(rule, key+": {n,} repeats the operand n or more times", cl.Pos(), gu.String() == wu.String(), fmt.Sprintf("the expansion yields %s repetitions", gu), "a{2,}")
	}
	// the operator dispatch: for each of ? * +, the statements executed when the operator equals it, written as a case clause
	// or as an `op == '?'` test, in the quantifier function or in a helper it calls
	dispatchSeen := false
	for _, r := range []rune{'?', '*', '+'} {
		var body []ast.Stmt
		var owner *ast.FuncDecl
		var cur *ast.FuncDecl
		AllFuncDecls(p, func(f *ast.FuncDecl) {
			_ = f
		})
		reach := []*ast.FuncDecl{fd}
		seenFn := map[*ast.FuncDecl]bool{fd: true}
		for i := 0; i < len(reach) && i < 12; i++ {
			cur = reach[i]
			ast.Inspect(cur.Body, func(n ast.Node) bool {
				switch x := n.(type) {
				case *ast.CallExpr:
					if fo, ok := objOf(info, x.Fun).(*types.Func); ok && fo.Pkg() == p.Types {
						if hd := declOfFunc(p, fo); hd != nil && hd.Body != nil && !seenFn[hd] {
							seenFn[hd] = true
							reach = append(reach, hd)
						}
					}
				case *ast.CaseClause:
					for _, e := range x.List {
						if v, ok := constInt(info, e); ok && rune(v) == r && isRune(info.TypeOf(e)) && body == nil {
							body, owner = x.Body, cur
						}
					}
				case *ast.IfStmt:
					if b, ok := ast.Unparen(x.Cond).(*ast.BinaryExpr); ok && b.Op == token.EQL && body == nil {
						for _, pair := range [][2]ast.Expr{{b.X, b.Y}, {b.Y, b.X}} {
							if v, ok := constInt(info, pair[1]); ok && rune(v) == r && isRune(info.TypeOf(pair[0])) {
								body, owner = x.Body.List, cur
							}
						}
					}
				}
				return true
			})
		}
		if body == nil {
			continue
		}
		dispatchSeen = true
		seen[r] = true
		var opnd types.Object
		if owner.Type.Params != nil && len(owner.Type.Params.List) > 0 && len(owner.Type.Params.List[0].Names) > 0 {
			opnd = info.Defs[owner.Type.Params.List[0].Names[0]]
		}
		q := &quantEval{p: p, info: info, operand: opnd, accs: map[types.Object]civ{}}
		var got civ
		okEval := false
		for _, s2 := range body {
			switch st := s2.(type) {
			case *ast.AssignStmt:
				if len(st.Rhs) == 1 {
					got, okEval = q.count(st.Rhs[0])
				}
			case *ast.ReturnStmt:
				if len(st.Results) >= 1 {
					got, okEval = q.count(st.Results[0])
				}
			}
		}
		w := want[r]
		if !okEval {
			c.Undecided(rule, fmt.Sprintf("%s: %q repeats the operand %s times", key, r, w), fd.Pos(), "the expression built for this operator was not understood: "+q.err)
			continue
		}
		c.Check(rule, fmt.Sprintf("%s: %q repeats the operand %s times", key, r, w), fd.Pos(), got.String() == w.String(),
			fmt.Sprintf("the expansion yields %s repetitions", got), fmt.Sprintf("a%c", r))
	}
	for _, r := range []rune{'?', '*', '+'} {
		if !dispatchSeen {
			c.Undecided(rule, fmt.Sprintf("%s handles %q", key, r), fd.Pos(), "no dispatch on the operator character was found in the quantifier function or its helpers")
			continue
		}
		c.Check(rule, fmt.Sprintf("%s handles %q", key, r), fd.Pos(), seen[r], "no case for this operator: the quantified operand becomes nil")
	}
}

// ---------- R2.4 ----------

func checkPipeline(c *Ctx) {
	sp := c.Pkg("internal/ebnf/parser/spec")
	info := sp.TypesInfo
	var fd *ast.FuncDecl
	AllFuncDecls(sp, func(f *ast.FuncDecl) {
		if f.Recv != nil || f.Body == nil {
			return
		}
		fo := info.Defs[f.Name].(*types.Func)
		sig := fo.Type().(*types.Signature)
		if sig.Params().Len() == 1 && isString(sig.Params().At(0).Type()) && sig.Results().Len() == 2 && isErr(sig.Results().At(1).Type()) {
			if pt, ok := sig.Results().At(0).Type().(*types.Pointer); ok {
				if _, n := namedTypeName(pt.Elem()); n == "DFA" {
					fd = f
				}
			}
		}
	})
	if fd == nil {
		c.Lost("R2.4", "the pattern-to-DFA function func(string) (*DFA, error)")
		return
	}
	c.Analysed(funcKey(sp, fd))
	param := info.Defs[fd.Type.Params.List[0].Names[0]]
	var nfaVar, errVar types.Object
	parsed := false
	ast.Inspect(fd.Body, func(n ast.Node) bool {
		as, ok := n.(*ast.AssignStmt)
		if !ok || len(as.Lhs) != 2 || len(as.Rhs) != 1 {
			return true
		}
		call, ok := ast.Unparen(as.Rhs[0]).(*ast.CallExpr)
		if !ok || len(call.Args) != 1 {
			return true
		}
		if fo, ok := objOf(info, call.Fun).(*types.Func); ok && fo.Pkg() != nil && strings.HasSuffix(fo.Pkg().Path(), "regex/parser/nfa") && fo.Name() == "Parse" {
			if id, ok := ast.Unparen(call.Args[0]).(*ast.Ident); ok && info.Uses[id] == param {
				parsed = true
				nfaVar = info.Defs[as.Lhs[0].(*ast.Ident)]
				errVar = info.Defs[as.Lhs[1].(*ast.Ident)]
			}
		}
		return true
	})
	c.Check("R2.4", "the pattern text is parsed by nfa.Parse", fd.Pos(), parsed, "regexToDFA does not call nfa.Parse on its argument")
	errRet := false
	ast.Inspect(fd.Body, func(n ast.Node) bool {
		ifs, ok := n.(*ast.IfStmt)
		if !ok {
			return true
		}
		if b, ok := ast.Unparen(ifs.Cond).(*ast.BinaryExpr); ok && b.Op == token.NEQ && isNilExpr(info, b.Y) {
			if id, ok := ast.Unparen(b.X).(*ast.Ident); ok && errVar != nil && info.Uses[id] == errVar {
				for _, st := range ifs.Body.List {
					if r, ok := st.(*ast.ReturnStmt); ok && len(r.Results) == 2 {
						if rid, ok := ast.Unparen(r.Results[1]).(*ast.Ident); ok && info.Uses[rid] == errVar {
							errRet = true
						}
					}
				}
			}
		}
		return true
	})
	c.Check("R2.4", "a pattern error is returned", fd.Pos(), errRet, "the parse error is not returned")
	// must-pass-through: every successful return hands out an automaton that derives from the parsed pattern
	if fn := c.SSAFunc(sp, fd); fn != nil {
		var parseCall *ssa.Call
		allCalls(fn, func(call ssa.CallInstruction) {
			if n := staticCalleeName(call); strings.HasSuffix(n, "regex/parser/nfa.Parse") {
				parseCall, _ = call.(*ssa.Call)
			}
		})
		nRet := 0
		for _, b := range fn.Blocks {
			ret, ok := b.Instrs[len(b.Instrs)-1].(*ssa.Return)
			if !ok || len(ret.Results) != 2 || !isNilConst(retOperand(ret, 1)) {
				continue
			}
			nRet++
			from := false
			seen := map[ssa.Value]bool{}
			var walk func(v ssa.Value)
			walk = func(v ssa.Value) {
				if v == nil || seen[v] {
					return
				}
				seen[v] = true
				switch x := v.(type) {
				case *ssa.Call:
					if x == parseCall {
						from = true
						return
					}
					// a method chain on the automaton: follow the receiver
					if len(x.Call.Args) > 0 && x.Call.StaticCallee() != nil && x.Call.StaticCallee().Signature.Recv() != nil {
						walk(x.Call.Args[0])
					}
				case *ssa.Extract:
					walk(x.Tuple)
				case *ssa.Phi:
					for _, e := range x.Edges {
						walk(e)
					}
				}
			}
			walk(retOperand(ret, 0))
			c.Check("R2.4", "every automaton handed out is the parsed pattern's (no path around the pattern parser)", ret.Pos(), parseCall != nil && from,
				"a successful return hands out an automaton that does not derive from nfa.Parse(pattern): some patterns bypass the documented pattern language (anchors, escapes, validation)", "T = /^let/")
		}
		c.Check("R2.4", "the pattern compiler has a successful return", fd.Pos(), nRet >= 1, "no successful return found")
	}
	// the returned automaton: chain of methods on the parsed NFA containing ToDFA, all from the language-preserving set
	preserving := map[string]bool{"ToDFA": true, "Minimize": true, "EliminateDeadStates": true, "ReindexStates": true, "EliminateUnreachableStates": true, "Clone": true}
	// on the value flow: from every successful return back to nfa.Parse, the methods applied on the way (a chain written as
	// one expression, step by step through variables, or mixed)
	chainOK, hasToDFA := false, false
	var chain []string
	if fn := c.SSAFunc(sp, fd); fn != nil {
		for _, b := range fn.Blocks {
			ret, ok := b.Instrs[len(b.Instrs)-1].(*ssa.Return)
			if !ok || len(ret.Results) != 2 || !isNilConst(retOperand(ret, 1)) {
				continue
			}
			var names []string
			reached := false
			v := retOperand(ret, 0)
			for i := 0; i < 16 && v != nil; i++ {
				switch x := v.(type) {
				case *ssa.Call:
					if n := staticCalleeName(x); strings.HasSuffix(n, "regex/parser/nfa.Parse") {
						reached = true
						v = nil
						continue
					}
					if callee := x.Call.StaticCallee(); callee != nil && callee.Signature.Recv() != nil && len(x.Call.Args) >= 1 {
						names = append([]string{callee.Name()}, names...)
						v = x.Call.Args[0]
						continue
					}
					v = nil
				case *ssa.Extract:
					v = x.Tuple
				default:
					v = nil
				}
			}
			if reached && len(names) > 0 {
				chain = names
				chainOK = true
				for _, nme := range names {
					if nme == "ToDFA" {
						hasToDFA = true
					}
					if !preserving[nme] {
						chainOK = false
					}
				}
			}
		}
	}
	_ = nfaVar
	c.Check("R2.4", "the automaton is the parsed NFA determinised and post-processed by language-preserving steps only", fd.Pos(), chainOK && hasToDFA,
		fmt.Sprintf("method chain on the parsed NFA: %v", chain))
}

// checkClassPresence: a class or category name the grammar accepts is turned down by a mapper only when the class table has no
// such key. Several documented categories have no member in the supported alphabet (their table entry is empty): a rejection
// that looks at the content of the entry (its length, the runes it yields) turns those documented constructs into errors.
func checkClassPresence(c *Ctx, rule string) {
	pp := c.Pkg("internal/regex/parser")
	if pp == nil {
		return
	}
	sp := c.SSAPk[pp.PkgPath]
	if sp == nil {
		return
	}
	table, _ := sp.Members["RuneClasses"].(*ssa.Global)
	if table == nil {
		c.Lost(rule, "the class table parser.RuneClasses")
		return
	}
	isTableLoad := func(v ssa.Value) bool {
		u, ok := v.(*ssa.UnOp)
		return ok && u.Op == token.MUL && u.X == ssa.Value(table)
	}
	// a lookup helper: the key of the table access is one of the function's own parameters (a function that reads a fixed
	// entry such as the universe "ASCII" and returns a flag of its own is something else)
	readsTable := func(f *ssa.Function) bool {
		for _, b := range f.Blocks {
			for _, in := range b.Instrs {
				if lk, ok := in.(*ssa.Lookup); ok && isTableLoad(lk.X) {
					for _, r := range rootsOf(f, lk.Index, nil) {
						if _, isParam := r.(*ssa.Parameter); isParam {
							return true
						}
					}
				}
			}
		}
		return false
	}
	isPresence := func(v ssa.Value) bool {
		ex, ok := v.(*ssa.Extract)
		if !ok || ex.Index != 1 {
			return false
		}
		lk, ok := ex.Tuple.(*ssa.Lookup)
		return ok && lk.CommaOk && isTableLoad(lk.X)
	}
	n := 0
	for _, pkgPath := range []string{"internal/regex/parser", "internal/regex/parser/nfa", "internal/regex/parser/ast"} {
		p := c.Pkg(pkgPath)
		if p == nil {
			continue
		}
		spk := c.SSAPk[p.PkgPath]
		if spk == nil {
			continue
		}
		for _, f := range allFuncsOfPkg(spk) {
			if len(f.Blocks) == 0 {
				continue
			}
			// (a) a helper that looks a class up and reports whether it exists
			if readsTable(f) && f.Signature.Results().Len() >= 2 {
				res := f.Signature.Results()
				for k := 0; k < res.Len(); k++ {
					bt, ok := res.At(k).Type().Underlying().(*types.Basic)
					if !ok || bt.Kind() != types.Bool {
						continue
					}
					if _, isMapper := f.Signature.Results().At(0).Type().(*types.Named); isMapper && f.Signature.Recv() != nil {
						continue // a mapper itself: its flag is (b)
					}
					for _, b := range f.Blocks {
						ret, ok := b.Instrs[len(b.Instrs)-1].(*ssa.Return)
						if !ok {
							continue
						}
						v := retOperand(ret, k)
						n++
						key := shortFn(f) + ": a class is reported missing only when the table has no such key"
						switch {
						case isPresence(v):
							c.Pass(rule, key, ret.Pos(), "the flag is the comma-ok of the table lookup")
						default:
							if k, isConst := v.(*ssa.Const); isConst && k.Value != nil {
								c.Pass(rule, key, ret.Pos(), "constant flag")
								continue
							}
							c.Fail(rule, key, ret.Pos(), "the flag returned with the class is computed from the content of the table entry, not from the presence of the key: a documented category whose entry is empty (no member in the supported alphabet) is reported as undefined and the pattern is rejected",
								"\\p{Lt}, [0-9\\p{So}], \\P{Mn}")
						}
					}
				}
			}
			// (b) a rejection in a mapper that depends on how many runes a class has
			for _, b := range f.Blocks {
				ifi, ok := b.Instrs[len(b.Instrs)-1].(*ssa.If)
				if !ok {
					continue
				}
				bo, ok := ifi.Cond.(*ssa.BinOp)
				if !ok || !isConstInt(bo.Y, 0) {
					continue
				}
				lc, ok := bo.X.(*ssa.Call)
				if !ok {
					continue
				}
				if bi, ok := lc.Call.Value.(*ssa.Builtin); !ok || bi.Name() != "len" {
					continue
				}
				fromTable := false
				for _, r := range rootsOf(f, lc.Call.Args[0], func(v ssa.Value) bool { _, ok := v.(*ssa.Call); return ok }) {
					if call, ok := r.(*ssa.Call); ok && methodNameOf(call) == "Runes" {
						for _, r2 := range rootsOf(f, recvOf(call), func(v ssa.Value) bool { _, ok := v.(*ssa.Lookup); return ok }) {
							if lk, ok := r2.(*ssa.Lookup); ok && isTableLoad(lk.X) {
								fromTable = true
							}
						}
					}
				}
				if !fromTable {
					continue
				}
				// does one of the branches return a constant false flag?
				for _, s := range b.Succs {
					if ret, ok := s.Instrs[len(s.Instrs)-1].(*ssa.Return); ok && len(ret.Results) == 2 {
						if k, ok := ret.Results[1].(*ssa.Const); ok && k.Value != nil && k.Value.String() == "false" {
							n++
							c.Fail(rule, shortFn(f)+": a class is turned down only when the table has no such key", ifi.Pos(),
								"the mapper fails when the class has no runes: a documented category whose table entry is empty is rejected", "\\p{Lt}")
						}
					}
				}
			}
		}
	}
	c.Extra("class_presence_sites", n)
}

// checkRuneHelperResults: the helpers that turn a set of runes into an automaton (or an alternation) take a negation flag and
// hand back, besides the automaton, the runes it actually accepts, that is the complement when the flag is set. An enclosing
// bracket group reads only that second result. A caller that may negate and throws the second result away (keeping the
// un-negated runes it passed in) makes `[\P{L}]` mean `[\p{L}]`.
func checkRuneHelperResults(c *Ctx, rule string) {
	n := 0
	for _, pkgPath := range []string{"internal/regex/parser/nfa", "internal/regex/parser/ast"} {
		p := c.Pkg(pkgPath)
		if p == nil {
			continue
		}
		spk := c.SSAPk[p.PkgPath]
		if spk == nil {
			continue
		}
		for _, f := range allFuncsOfPkg(spk) {
			allCalls(f, func(call ssa.CallInstruction) {
				cv, ok := call.(*ssa.Call)
				if !ok {
					return
				}
				callee := cv.Call.StaticCallee()
				if callee == nil || callee.Pkg != spk || callee.Signature.Recv() != nil {
					return
				}
				sig := callee.Signature
				if sig.Params().Len() < 2 || sig.Results().Len() != 2 {
					return
				}
				if b, ok := sig.Params().At(0).Type().Underlying().(*types.Basic); !ok || b.Kind() != types.Bool {
					return
				}
				sl, ok := sig.Results().At(1).Type().Underlying().(*types.Slice)
				if !ok || !isRune(sl.Elem()) {
					return
				}
				n++
				used := false
				for _, r := range *cv.Referrers() {
					if ex, ok := r.(*ssa.Extract); ok && ex.Index == 1 && ex.Referrers() != nil && len(*ex.Referrers()) > 0 {
						used = true
					}
				}
				negConstFalse := false
				if k, ok := cv.Call.Args[0].(*ssa.Const); ok && k.Value != nil && k.Value.String() == "false" {
					negConstFalse = true
				}
				key := fmt.Sprintf("%s: the runes %s reports as accepted are what the caller hands on", shortFn(f), callee.Name())
				c.Check(rule, key, cv.Pos(), used || negConstFalse,
					"the helper is called with a negation flag that can be true and its second result (the runes accepted after negation) is thrown away: a bracket group around the negated class sees the un-negated runes",
					"[\\P{L}] accepts a letter and rejects a digit; [^\\P{L}] the other way round")
			})
		}
	}
	c.Extra("rune_helper_call_sites", n)
}

// checkMembershipIdempotent (R2.6 = R10.9): a membership table of a character group (a []bool or [N]bool indexed by the character)
// is a set: marking a character twice is marking it once. A store that writes the negation of the entry it overwrites
// (`m[c] = !m[c]`) makes membership depend on how often a character is listed, and [a-cb], [\w\d] or [aa] lose the characters
// their items share. Decided on SSA in the mapper packages of both routes: no store into an element of a boolean table whose
// value is the negation of a load of that same element.
func checkMembershipIdempotent(c *Ctx, rule string, pkgs ...string) {
	marks, toggles := 0, 0
	for _, pk := range pkgs {
		sp := c.SSAPk[modPath+"/"+pk]
		if sp == nil {
			continue
		}
		for _, f := range ssaFuncsOf(c, sp) {
			for _, b := range f.Blocks {
				for _, in := range b.Instrs {
					st, ok := in.(*ssa.Store)
					if !ok {
						continue
					}
					ia, ok := st.Addr.(*ssa.IndexAddr)
					if !ok {
						continue
					}
					if bt, ok := st.Val.Type().Underlying().(*types.Basic); !ok || bt.Kind() != types.Bool {
						continue
					}
					marks++
					un, ok := st.Val.(*ssa.UnOp)
					if !ok || un.Op != token.NOT {
						continue
					}
					ld, ok := un.X.(*ssa.UnOp)
					if !ok || ld.Op != token.MUL {
						continue
					}
					ia2, ok := ld.X.(*ssa.IndexAddr)
					if !ok || ia2.X != ia.X || ia2.Index != ia.Index {
						continue
					}
					// a pass over the table itself (index = the counter of a loop) visits every entry once: that is complementing
					// the set, not marking a character
					if isLoopCounter(ia.Index) {
						continue
					}
					toggles++
					c.Fail(rule, shortFn(f)+": marking a character in a membership table does not depend on the entry's previous value", st.Pos(),
						"the store writes the negation of the entry it overwrites: a character contributed twice (by overlapping items of one group) drops out of the group again",
						"[a-cb] no longer matches b; [\\w\\d]+ no longer matches 7; [^a-cb] matches b")
				}
			}
		}
	}
	if toggles == 0 {
		if marks == 0 {
			c.Undecided(rule, "membership tables of character groups", token.NoPos, "no store into a boolean table was found in the mapper packages")
			return
		}
		c.Pass(rule, "no membership table entry is toggled", token.NoPos, fmt.Sprintf("%d stores into boolean tables, none writes the negation of the entry it overwrites", marks))
	}
}

// ssaFuncsOf: the functions and methods (with anonymous functions) of an SSA package.
func ssaFuncsOf(c *Ctx, sp *ssa.Package) []*ssa.Function {
	var out []*ssa.Function
	var add func(f *ssa.Function)
	seen := map[*ssa.Function]bool{}
	add = func(f *ssa.Function) {
		if f == nil || seen[f] || len(f.Blocks) == 0 {
			return
		}
		seen[f] = true
		out = append(out, f)
		for _, a := range f.AnonFuncs {
			add(a)
		}
	}
	for _, mem := range sp.Members {
		switch m := mem.(type) {
		case *ssa.Function:
			add(m)
		case *ssa.Type:
			for _, recv := range []types.Type{m.Type(), types.NewPointer(m.Type())} {
				ms := c.Prog.MethodSets.MethodSet(recv)
				for i := 0; i < ms.Len(); i++ {
					if f := c.Prog.MethodValue(ms.At(i)); f != nil && f.Pkg == sp {
						add(f)
					}
				}
			}
		}
	}
	sort.Slice(out, func(i, j int) bool { return out[i].String() < out[j].String() })
	return out
}


// isLoopCounter: v is the phi of a counting loop (starts at a constant, advanced by a constant), possibly converted.
func isLoopCounter(v ssa.Value) bool {
	for {
		switch x := v.(type) {
		case *ssa.Convert:
			v = x.X
			continue
		case *ssa.ChangeType:
			v = x.X
			continue
		case *ssa.BinOp:
			// the rotated form: index = phi + 1
			if _, isC := x.Y.(*ssa.Const); isC && (x.Op == token.ADD || x.Op == token.SUB) {
				v = x.X
				continue
			}
		case *ssa.Phi:
			consts, steps := 0, 0
			for _, e := range x.Edges {
				switch ev := e.(type) {
				case *ssa.Const:
					consts++
				case *ssa.BinOp:
					if _, isC := ev.Y.(*ssa.Const); isC && (ev.Op == token.ADD || ev.Op == token.SUB) && (ev.X == ssa.Value(x)) {
						steps++
					}
				}
			}
			return consts >= 1 && steps >= 1 && consts+steps == len(x.Edges)
		}
		return false
	}
}
