package main

import (
	"fmt"
	"go/types"
	"strings"

	"golang.org/x/tools/go/ssa"
)

func init() {
	register(&property{id: "C06", run: runC06, meta: propMeta{
		level: "other",
		explanation: "The LALR(1) construction for user grammars lives in the dependency (moorara/algo/parser/lr/lookahead); emerge's share is decided structurally: the generator obtains its table from Spec.LALRParsingTable and that method calls lookahead.BuildParsingTable (not the SLR or canonical builder) with exactly the specification's grammar and precedence levels; the builder's error (unresolved conflicts) is recorded whenever non-nil and reaches, link by link, LALRParsingTable's result, generateParser, Generate, Run and the non-zero exit of main; the directive-to-level translation is decided in C12. Item-set construction, lookahead propagation and conflict resolution inside the dependency, and accept/reject behaviour for user grammars, are out of reach.",
		trusted: []string{"moorara/algo lookahead.BuildParsingTable builds the LALR(1) table and reports unresolved conflicts as an error (the checker's own LALR(1) oracle reproduces it for the EBNF grammar, C04)", "RTA call graph"},
		assumptions: []string{"precedence levels handed over are the recorded directives (C12)"},
	}})
}

func runC06(c *Ctx) {
	c.Rule("R6.1", 3, "the table comes from the LALR(1) builder with the specification's grammar and precedences")
	c.Rule("R6.2", 6, "a conflict error reaches the exit status link by link")

	sp := c.Pkg("internal/ebnf/parser/spec")
	gp := c.Pkg("internal/generate/golang")
	if sp == nil || gp == nil {
		c.Lost("R6.1", "packages spec / golang")
		return
	}
	// the method of Spec that calls lookahead.BuildParsingTable
	var lalr *ssa.Function
	var build *ssa.Call
	for _, m := range []string{"LALRParsingTable", "SLRParsingTable", "GLRParsingTable"} {
		_ = m
	}
	ssp := c.SSAPk[sp.PkgPath]
	specT := ssp.Type("Spec")
	if specT == nil {
		c.Lost("R6.1", "type spec.Spec")
		return
	}
	ms := c.Prog.MethodSets.MethodSet(types.NewPointer(specT.Type()))
	builders := map[string]string{} // method -> builder package
	for i := 0; i < ms.Len(); i++ {
		f := c.Prog.MethodValue(ms.At(i))
		if f == nil {
			continue
		}
		allCalls(f, func(call ssa.CallInstruction) {
			n := staticCalleeName(call)
			if strings.HasPrefix(n, depPath+"/parser/lr/") && strings.HasSuffix(n, ".BuildParsingTable") {
				builders[f.Name()] = n
				if strings.Contains(n, "/lookahead.") {
					lalr = f
					build, _ = call.(*ssa.Call)
				}
			}
		})
	}
	if !c.Check("R6.1", "a method of Spec wraps lookahead.BuildParsingTable", specT.Pos(), lalr != nil, fmt.Sprintf("table builders found: %v", builders)) {
		return
	}
	c.Analysed(shortFn(lalr))
	// arguments: s.Grammar, s.Precedences
	a0, a1 := accessPath(build.Call.Args[0]), accessPath(build.Call.Args[1])
	c.Check("R6.1", "the builder receives the specification's grammar and precedence levels", build.Pos(), strings.HasSuffix(a0, ".Grammar") && strings.HasSuffix(a1, ".Precedences"),
		fmt.Sprintf("arguments are %q and %q", a0, a1))
	// the generator reaches the LALR wrapper and none of the other builders
	main := c.mainFunc()
	ri := c.reachableFrom(main)
	reached := map[string]bool{}
	// static-call reachability from the command's entry point (interface dispatch cannot select a different builder:
	// the wrappers are concrete methods called directly)
	seen := map[*ssa.Function]bool{}
	var walkStatic func(f *ssa.Function)
	walkStatic = func(f *ssa.Function) {
		if f == nil || seen[f] || len(f.Blocks) == 0 {
			return
		}
		seen[f] = true
		for _, af := range f.AnonFuncs {
			walkStatic(af)
		}
		allCalls(f, func(call ssa.CallInstruction) {
			n := staticCalleeName(call)
			if strings.HasPrefix(n, depPath+"/parser/lr/") && strings.HasSuffix(n, ".BuildParsingTable") {
				reached[n] = true
				return
			}
			if cal := call.Common().StaticCallee(); cal != nil && strings.HasPrefix(fnPkgPath(cal), modPath) {
				walkStatic(cal)
			}
		})
		// function values stored in struct fields (Command.funcs.Generate) are followed through their definitions
		for _, b := range f.Blocks {
			for _, in := range b.Instrs {
				for _, op := range in.Operands(nil) {
					if g, ok := (*op).(*ssa.Function); ok && strings.HasPrefix(fnPkgPath(g), modPath) {
						walkStatic(g)
					}
				}
			}
		}
	}
	walkStatic(main)
	onlyLALR := len(reached) == 1 && reached[depPath+"/parser/lr/lookahead.BuildParsingTable"]
	c.Check("R6.1", "the command builds its table with the LALR(1) builder only", build.Pos(), onlyLALR,
		fmt.Sprintf("table builders reachable from main.main: %v (the SLR builder rejects LALR(1) grammars; the canonical builder accepts grammars with LALR conflicts)", keysOf(reached)))

	// R6.2 link by link
	link := func(fn *ssa.Function, what string, pick func(call ssa.CallInstruction) bool) {
		if fn == nil {
			c.Lost("R6.2", what)
			return
		}
		c.Analysed(shortFn(fn))
		found := false
		allCalls(fn, func(call ssa.CallInstruction) {
			if !pick(call) {
				return
			}
			found = true
			v, _ := call.(ssa.Value)
			var ev ssa.Value
			if v != nil && isErr(v.Type()) {
				ev = v
			} else if v != nil {
				if tu, ok := v.Type().(*types.Tuple); ok {
					for _, r := range *v.Referrers() {
						if ex, ok := r.(*ssa.Extract); ok && ex.Index == tu.Len()-1 {
							ev = ex
						}
					}
				}
			}
			if !c.Check("R6.2", what+": the error result is used", call.Pos(), ev != nil, "the error is discarded (blank or ignored)") {
				return
			}
			c.Check("R6.2", what+": the error reaches the result", call.Pos(), errReachesReturn(fn, ev), "the error does not flow into the function's returned error")
			uncond, why := recordedUnconditionally(ev)
			c.Check("R6.2", what+": the error is propagated whenever it is non-nil", call.Pos(), uncond, why)
		})
		if !found {
			c.Lost("R6.2", what+" (call site)")
		}
	}
	link(lalr, "LALRParsingTable ← BuildParsingTable", func(call ssa.CallInstruction) bool { return call == ssa.CallInstruction(build) })
	// generateParser: the function in golang calling lalr
	var genParser *ssa.Function
	for _, f := range ri.module() {
		if fnPkgPath(f) != gp.PkgPath {
			continue
		}
		allCalls(f, func(call ssa.CallInstruction) {
			if call.Common().StaticCallee() == lalr {
				genParser = f
			}
		})
	}
	link(genParser, "generator step ← LALRParsingTable", func(call ssa.CallInstruction) bool { return call.Common().StaticCallee() == lalr })
	var gen *ssa.Function
	if fd := FuncDecl(gp, "", "Generate"); fd != nil {
		gen = c.SSAFunc(gp, fd)
	}
	link(gen, "Generate ← parser generation step", func(call ssa.CallInstruction) bool { return genParser != nil && call.Common().StaticCallee() == genParser })
	// Run and main are decided by C16 (R16.4); re-decide the two links here
	cp := c.Pkg("internal/command")
	if fd := FuncDecl(cp, "Command", "Run"); fd != nil {
		run := c.SSAFunc(cp, fd)
		link(run, "Run ← Generate", func(call ssa.CallInstruction) bool {
			if call.Common().IsInvoke() || call.Common().StaticCallee() != nil {
				return false
			}
			sig := call.Common().Signature()
			if sig.Params().Len() != 2 || sig.Results().Len() != 1 {
				return false
			}
			_, n := namedTypeName(sig.Params().At(1).Type())
			return n == "Params"
		})
	}
	before := len(c.Obs)
	checkMainExit(c, "R6.2")
	_ = before
}

func keysOf(m map[string]bool) []string {
	var out []string
	for k := range m {
		out = append(out, k[strings.LastIndex(k, "/")+1:])
	}
	return out
}
