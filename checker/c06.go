package main

import (
	"fmt"
	"go/ast"
	"go/types"
	"strings"

	"golang.org/x/tools/go/ssa"
)

func init() {
	register(&property{id: "C06", run: runC06, meta: propMeta{
		level: "other",
		explanation: "The LALR(1) construction for user grammars lives in the dependency (moorara/algo/parser/lr/lookahead); emerge's share is decided structurally: the generator obtains its table from Spec.LALRParsingTable and that method calls lookahead.BuildParsingTable (not the SLR or canonical builder) with exactly the specification's grammar and precedence levels; the builder's error (unresolved conflicts) is recorded whenever non-nil and reaches, link by link, LALRParsingTable's result, generateParser, Generate, Run and the non-zero exit of main; the directive-to-level translation is decided in C12. Item-set construction, lookahead propagation and conflict resolution inside the dependency, and accept/reject behaviour for user grammars, are out of reach.",
		trusted: []string{"moorara/algo lookahead.BuildParsingTable builds the LALR(1) table and reports unresolved conflicts as an error (the checker's own LALR(1) oracle reproduces it for the EBNF grammar, C04)", "RTA call graph"},
		assumptions: []string{"precedence levels handed over are the recorded directives (C12)"},
	}})
}

func runC06(c *Ctx) {
	c.Rule("R6.1", 3, "the table comes from the LALR(1) builder with the specification's grammar and precedences")
	c.Rule("R6.2", 6, "a conflict error reaches the exit status link by link")
	c.Rule("R6.3", 6, "the grammar handed to the builder is assembled from everything the symbol table holds, with the documented start symbol")
	checkSpecAssembly(c)

	sp := c.Pkg("internal/ebnf/parser/spec")
	gp := c.Pkg("internal/generate/golang")
	if sp == nil || gp == nil {
		c.Lost("R6.1", "packages spec / golang")
		return
	}
	// the method of Spec that calls lookahead.BuildParsingTable
	var lalr *ssa.Function
	var viaHelper *ssa.Function // the method of Spec that hands the LALR builder to a helper, if any
	_ = viaHelper
	var build *ssa.Call
	for _, m := range []string{"LALRParsingTable", "SLRParsingTable", "GLRParsingTable"} {
		_ = m
	}
	ssp := c.SSAPk[sp.PkgPath]
	specT := ssp.Type("Spec")
	if specT == nil {
		c.Lost("R6.1", "type spec.Spec")
		return
	}
	ms := c.Prog.MethodSets.MethodSet(types.NewPointer(specT.Type()))
	builders := map[string]string{} // method -> builder package
	for i := 0; i < ms.Len(); i++ {
		f := c.Prog.MethodValue(ms.At(i))
		if f == nil {
			continue
		}
		allCalls(f, func(call ssa.CallInstruction) {
			n := staticCalleeName(call)
			if strings.HasPrefix(n, depPath+"/parser/lr/") && strings.HasSuffix(n, ".BuildParsingTable") {
				builders[f.Name()] = n
				if strings.Contains(n, "/lookahead.") {
					lalr = f
					build, _ = call.(*ssa.Call)
				}
				return
			}
			// the builder handed as a function value to a helper of the package that calls it: the call of the parameter
			// in the helper is the build site
			callee := call.Common().StaticCallee()
			if callee == nil || callee.Pkg != f.Pkg {
				return
			}
			for ai, a := range call.Common().Args {
				g, ok := a.(*ssa.Function)
				if !ok {
					if mi, isMI := a.(*ssa.ChangeType); isMI {
						g, ok = mi.X.(*ssa.Function)
					}
				}
				if !ok || g == nil {
					continue
				}
				n := g.String()
				if !(strings.HasPrefix(n, depPath+"/parser/lr/") && strings.HasSuffix(n, ".BuildParsingTable")) || ai >= len(callee.Params) {
					continue
				}
				builders[f.Name()] = n
				if strings.Contains(n, "/lookahead.") {
					allCalls(callee, func(inner ssa.CallInstruction) {
						if iv, ok := inner.(*ssa.Call); ok && iv.Call.Value == ssa.Value(callee.Params[ai]) {
							lalr = callee
							build = iv
							viaHelper = f
						}
					})
				}
			}
		})
	}
	if !c.Check("R6.1", "a method of Spec wraps lookahead.BuildParsingTable", specT.Pos(), lalr != nil, fmt.Sprintf("table builders found: %v", builders)) {
		return
	}
	c.Analysed(shortFn(lalr))
	// arguments: s.Grammar, s.Precedences
	a0, a1 := accessPath(build.Call.Args[0]), accessPath(build.Call.Args[1])
	c.Check("R6.1", "the builder receives the specification's grammar and precedence levels", build.Pos(), strings.HasSuffix(a0, ".Grammar") && strings.HasSuffix(a1, ".Precedences"),
		fmt.Sprintf("arguments are %q and %q", a0, a1))
	// the generator reaches the LALR wrapper and none of the other builders
	main := c.mainFunc()
	ri := c.reachableFrom(main)
	reached := map[string]bool{}
	// static-call reachability from the command's entry point (interface dispatch cannot select a different builder:
	// the wrappers are concrete methods called directly)
	seen := map[*ssa.Function]bool{}
	var walkStatic func(f *ssa.Function)
	walkStatic = func(f *ssa.Function) {
		if f == nil || seen[f] || len(f.Blocks) == 0 {
			return
		}
		seen[f] = true
		for _, af := range f.AnonFuncs {
			walkStatic(af)
		}
		allCalls(f, func(call ssa.CallInstruction) {
			n := staticCalleeName(call)
			if strings.HasPrefix(n, depPath+"/parser/lr/") && strings.HasSuffix(n, ".BuildParsingTable") {
				reached[n] = true
				return
			}
			if cal := call.Common().StaticCallee(); cal != nil && strings.HasPrefix(fnPkgPath(cal), modPath) {
				walkStatic(cal)
			}
			for _, a := range call.Common().Args {
				if ct, ok := a.(*ssa.ChangeType); ok {
					a = ct.X
				}
				if g, ok := a.(*ssa.Function); ok {
					if n := g.String(); strings.HasPrefix(n, depPath+"/parser/lr/") && strings.HasSuffix(n, ".BuildParsingTable") {
						reached[n] = true
					}
				}
			}
		})
		// function values stored in struct fields (Command.funcs.Generate) are followed through their definitions
		for _, b := range f.Blocks {
			for _, in := range b.Instrs {
				for _, op := range in.Operands(nil) {
					if g, ok := (*op).(*ssa.Function); ok && strings.HasPrefix(fnPkgPath(g), modPath) {
						walkStatic(g)
					}
				}
			}
		}
	}
	walkStatic(main)
	onlyLALR := len(reached) == 1 && reached[depPath+"/parser/lr/lookahead.BuildParsingTable"]
	c.Check("R6.1", "the command builds its table with the LALR(1) builder only", build.Pos(), onlyLALR,
		fmt.Sprintf("table builders reachable from main.main: %v (the SLR builder rejects LALR(1) grammars; the canonical builder accepts grammars with LALR conflicts)", keysOf(reached)))

	// R6.2 link by link
	link := func(fn *ssa.Function, what string, pick func(call ssa.CallInstruction) bool) {
		if fn == nil {
			c.Lost("R6.2", what)
			return
		}
		c.Analysed(shortFn(fn))
		found := false
		allCalls(fn, func(call ssa.CallInstruction) {
			if !pick(call) {
				return
			}
			found = true
			v, _ := call.(ssa.Value)
			var ev ssa.Value
			if v != nil && isErr(v.Type()) {
				ev = v
			} else if v != nil {
				if tu, ok := v.Type().(*types.Tuple); ok {
					for _, r := range *v.Referrers() {
						if ex, ok := r.(*ssa.Extract); ok && ex.Index == tu.Len()-1 {
							ev = ex
						}
					}
				}
			}
			if !c.Check("R6.2", what+": the error result is used", call.Pos(), ev != nil, "the error is discarded (blank or ignored)") {
				return
			}
			c.Check("R6.2", what+": the error reaches the result", call.Pos(), errReachesReturn(fn, ev), "the error does not flow into the function's returned error")
			uncond, why := recordedUnconditionally(ev)
			c.Check("R6.2", what+": the error is propagated whenever it is non-nil", call.Pos(), uncond, why)
		})
		if !found {
			c.Lost("R6.2", what+" (call site)")
		}
	}
	link(lalr, "LALRParsingTable ← BuildParsingTable", func(call ssa.CallInstruction) bool { return call == ssa.CallInstruction(build) })
	// generateParser: the function in golang calling lalr
	var genParser *ssa.Function
	for _, f := range ri.module() {
		if fnPkgPath(f) != gp.PkgPath {
			continue
		}
		allCalls(f, func(call ssa.CallInstruction) {
			if call.Common().StaticCallee() == lalr {
				genParser = f
			}
		})
	}
	link(genParser, "generator step ← LALRParsingTable", func(call ssa.CallInstruction) bool { return call.Common().StaticCallee() == lalr })
	var gen *ssa.Function
	if fd := FuncDecl(gp, "", "Generate"); fd != nil {
		gen = c.SSAFunc(gp, fd)
	}
	link(gen, "Generate ← parser generation step", func(call ssa.CallInstruction) bool { return genParser != nil && call.Common().StaticCallee() == genParser })
	// Run and main are decided by C16 (R16.4); re-decide the two links here
	cp := c.Pkg("internal/command")
	if fd := FuncDecl(cp, "Command", "Run"); fd != nil {
		run := c.SSAFunc(cp, fd)
		link(run, "Run ← Generate", func(call ssa.CallInstruction) bool {
			if call.Common().IsInvoke() || call.Common().StaticCallee() != nil {
				return false
			}
			sig := call.Common().Signature()
			if sig.Params().Len() != 2 || sig.Results().Len() != 1 {
				return false
			}
			_, n := namedTypeName(sig.Params().At(1).Type())
			return n == "Params"
		})
	}
	before := len(c.Obs)
	checkMainExit(c, "R6.2")
	_ = before
}

func keysOf(m map[string]bool) []string {
	var out []string
	for k := range m {
		out = append(out, k[strings.LastIndex(k, "/")+1:])
	}
	return out
}

// checkSpecAssembly: R6.3. The grammar of the specification is built in the final action of spec.Parse from the symbol
// table. The table parses the grammar's language only if nothing is filtered or swapped on the way.
func checkSpecAssembly(c *Ctx) {
	sp := c.Pkg("internal/ebnf/parser/spec")
	if sp == nil {
		c.Lost("R6.3", "package spec")
		return
	}
	info := sp.TypesInfo
	parse := FuncDecl(sp, "", "Parse")
	if parse == nil {
		c.Lost("R6.3", "spec.Parse")
		return
	}
	c.Analysed(funcKey(sp, parse))
	// the call that builds the context-free grammar: a dependency constructor returning the grammar type, with four arguments
	var cfgCall *ast.CallExpr
	var cfgVar types.Object
	ast.Inspect(parse.Body, func(n ast.Node) bool {
		as, ok := n.(*ast.AssignStmt)
		if !ok || len(as.Rhs) != 1 || len(as.Lhs) != 1 {
			return true
		}
		call, ok := ast.Unparen(as.Rhs[0]).(*ast.CallExpr)
		if !ok || len(call.Args) != 4 {
			return true
		}
		fo, _ := objOf(info, call.Fun).(*types.Func)
		if fo == nil || fo.Pkg() == nil || fo.Pkg().Path() != depPath+"/grammar" {
			return true
		}
		if _, n := namedTypeName(fo.Type().(*types.Signature).Results().At(0).Type()); n != "CFG" {
			if pt, ok := fo.Type().(*types.Signature).Results().At(0).Type().(*types.Pointer); !ok {
				return true
			} else if _, n2 := namedTypeName(pt.Elem()); n2 != "CFG" {
				return true
			}
		}
		cfgCall = call
		if id, ok := as.Lhs[0].(*ast.Ident); ok {
			cfgVar = info.Defs[id]
			if cfgVar == nil {
				cfgVar = info.Uses[id]
			}
		}
		return true
	})
	if cfgCall == nil {
		c.Lost("R6.3", "the construction of the context-free grammar in spec.Parse")
		return
	}
	// arguments 0..2: total accessors of the symbol table
	want := []string{"Terminal", "NonTerminal", "Production"}
	for i, w := range want {
		call, ok := ast.Unparen(cfgCall.Args[i]).(*ast.CallExpr)
		okArg, why := false, "the argument is not a call of a symbol-table accessor"
		if ok {
			if fo, ok := objOf(info, call.Fun).(*types.Func); ok && fo.Pkg() == sp.Types {
				if fd := FuncDecl(sp, "SymbolTable", fo.Name()); fd != nil {
					c.Analysed(funcKey(sp, fd))
					okArg, why = totalAccessor(info, fd, w)
				}
			}
		}
		c.Check("R6.3", fmt.Sprintf("the grammar's %ss are all the %ss of the symbol table", strings.ToLower(w), strings.ToLower(w)), cfgCall.Args[i].Pos(), okArg,
			why+": the table is built for a grammar that lacks part of what the specification says", "")
	}
	start, okStart := constStr(info, cfgCall.Args[3])
	c.Check("R6.3", "the start symbol is the documented one (start)", cfgCall.Args[3].Pos(), okStart && start == "start", fmt.Sprintf("the start symbol handed to the grammar is %q", start))
	// the returned Spec carries that grammar and the table's precedence list
	var lit *ast.CompositeLit
	ast.Inspect(parse.Body, func(n ast.Node) bool {
		if cl, ok := n.(*ast.CompositeLit); ok {
			if _, nme := namedTypeName(info.TypeOf(cl)); nme == "Spec" {
				lit = cl
			}
		}
		return true
	})
	if lit == nil {
		c.Lost("R6.3", "the Spec value returned by spec.Parse")
		return
	}
	fs, _ := compositeFields(lit)
	gOK := false
	if id, ok := ast.Unparen(fs["Grammar"]).(*ast.Ident); ok && info.Uses[id] == cfgVar && cfgVar != nil {
		gOK = true
	}
	c.Check("R6.3", "the specification carries the grammar that was built and verified", lit.Pos(), gOK, "Spec.Grammar is not the grammar built from the symbol table")
	pOK, pWhy := false, "Spec.Precedences is not the list the symbol table collected"
	if id, ok := ast.Unparen(fs["Precedences"]).(*ast.Ident); ok {
		// precedences := table.Precedences()
		ast.Inspect(parse.Body, func(n ast.Node) bool {
			as, ok := n.(*ast.AssignStmt)
			if !ok || len(as.Lhs) != 1 || len(as.Rhs) != 1 {
				return true
			}
			lid, ok := as.Lhs[0].(*ast.Ident)
			if !ok || (info.Defs[lid] != info.Uses[id] && info.Uses[lid] != info.Uses[id]) {
				return true
			}
			if call, ok := ast.Unparen(as.Rhs[0]).(*ast.CallExpr); ok {
				if fo, ok := objOf(info, call.Fun).(*types.Func); ok && fo.Pkg() == sp.Types {
					if fd := FuncDecl(sp, "SymbolTable", fo.Name()); fd != nil {
						// the accessor returns a field unchanged
						for _, st := range fd.Body.List {
							if r, ok := st.(*ast.ReturnStmt); ok && len(r.Results) == 1 {
								if _, isSel := ast.Unparen(r.Results[0]).(*ast.SelectorExpr); isSel {
									pOK = true
								} else {
									pWhy = "the precedence accessor does not return the collected list as it is"
								}
							}
						}
					}
				}
			}
			return true
		})
	}
	c.Check("R6.3", "the specification carries the precedence levels as collected", lit.Pos(), pOK, pWhy)
}

// totalAccessor: the method ranges over a collection of the table and appends every element (its key) unconditionally to the
// slice it returns; the element type is the dependency's grammar type named elem.
func totalAccessor(info *types.Info, fd *ast.FuncDecl, elem string) (bool, string) {
	fo := info.Defs[fd.Name].(*types.Func)
	res := fo.Type().(*types.Signature).Results()
	if res.Len() != 1 {
		return false, "the accessor does not return one list"
	}
	sl, ok := res.At(0).Type().Underlying().(*types.Slice)
	if !ok {
		return false, "the accessor does not return a list"
	}
	et := sl.Elem()
	if pt, ok := et.(*types.Pointer); ok {
		et = pt.Elem()
	}
	if _, n := namedTypeName(et); n != elem {
		return false, "the accessor returns " + types.TypeString(sl.Elem(), nil) + ", not the " + elem + "s"
	}
	var loop *ast.RangeStmt
	nLoops := 0
	for _, st := range fd.Body.List {
		if rs, ok := st.(*ast.RangeStmt); ok {
			loop = rs
			nLoops++
		}
	}
	if nLoops != 1 {
		return false, fmt.Sprintf("the accessor has %d top-level loops", nLoops)
	}
	if len(loop.Body.List) != 1 {
		return false, "the loop does more than append the element (a filter or an early exit drops symbols)"
	}
	as, ok := loop.Body.List[0].(*ast.AssignStmt)
	if !ok || len(as.Rhs) != 1 {
		return false, "the loop body is not an append"
	}
	call, ok := ast.Unparen(as.Rhs[0]).(*ast.CallExpr)
	if !ok || len(call.Args) != 2 {
		return false, "the loop body is not an append"
	}
	if id, ok := call.Fun.(*ast.Ident); !ok || id.Name != "append" {
		return false, "the loop body is not an append"
	}
	key, _ := loop.Key.(*ast.Ident)
	arg, _ := ast.Unparen(call.Args[1]).(*ast.Ident)
	if key == nil || arg == nil || info.Uses[arg] != info.Defs[key] {
		return false, "what is appended is not the element of the iteration"
	}
	// the appended-to slice is what is returned
	last, ok := fd.Body.List[len(fd.Body.List)-1].(*ast.ReturnStmt)
	if !ok || len(last.Results) != 1 || types.ExprString(last.Results[0]) != types.ExprString(as.Lhs[0]) {
		return false, "the accessor does not return the list it filled"
	}
	return true, ""
}
