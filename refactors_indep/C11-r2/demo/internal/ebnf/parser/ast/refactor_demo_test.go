package ast

import (
	"fmt"
	"os"
	"slices"
	"strings"
	"testing"

	"github.com/moorara/algo/generic"
	"github.com/moorara/algo/lexer"
	"github.com/moorara/algo/parser/lr"
)

// demoLabel gives a short, unambiguous label to a node: its kind, its own payload and its position.
func demoLabel(n Node) string {
	var s string

	switch n := n.(type) {
	case nil:
		return "<nil>"
	case *Grammar:
		s = "G:" + n.Name
	case *StringTokenDecl:
		s = fmt.Sprintf("ST:%s=%q", n.Name, n.Value)
	case *RegexTokenDecl:
		s = fmt.Sprintf("RT:%s=/%s/", n.Name, n.Regex)
	case *PrecedenceDecl:
		s = "PD:" + n.Associativity.String()
	case *TerminalHandle:
		s = "TH:" + n.Terminal
	case *ProductionHandle:
		s = "PH:" + n.LHS
	case *RuleDecl:
		s = "R:" + n.LHS
	case *ConcatRHS:
		s = "CAT"
	case *AltRHS:
		s = "ALT"
	case *OptRHS:
		s = "OPT"
	case *StarRHS:
		s = "STAR"
	case *PlusRHS:
		s = "PLUS"
	case *NonTerminalRHS:
		s = "N:" + n.NonTerminal
	case *TerminalRHS:
		s = "T:" + n.Terminal
	case *EmptyRHS:
		s = "E"
	default:
		s = fmt.Sprintf("?%T", n)
	}

	if pos := n.Pos(); pos != nil {
		s += fmt.Sprintf("@%d:%d", pos.Line, pos.Column)
	}

	return s
}

func demoWalk(n Node, order generic.TraverseOrder) (string, bool) {
	var labels []string
	res := Traverse(n, order, func(n Node) bool {
		labels = append(labels, demoLabel(n))
		return true
	})

	return strings.Join(labels, " "), res
}

func demoParse(t *testing.T, src string) *Grammar {
	t.Helper()

	root, err := Parse("demo", strings.NewReader(src))
	if err != nil {
		t.Fatalf("unexpected error for %q: %s", src, err)
	}

	return root
}

var demoOrders = []generic.TraverseOrder{generic.VLR, generic.VRL, generic.LRV, generic.RLV}

func TestRefactorDemo_TraverseParsedTrees(t *testing.T) {
	tests := []struct {
		name     string
		src      string
		expected map[generic.TraverseOrder]string
	}{
		{
			name: "NoDeclarations",
			src:  `grammar g;`,
			expected: map[generic.TraverseOrder]string{
				generic.VLR: "G:g@1:1",
				generic.VRL: "G:g@1:1",
				generic.LRV: "G:g@1:1",
				generic.RLV: "G:g@1:1",
			},
		},
		{
			name: "TokensAndRule",
			src:  "grammar g\nAA = \"a\"\nNN = /[0-9]+/\nWS = $WS\ns = AA NN;\n",
			expected: map[generic.TraverseOrder]string{
				generic.VLR: `G:g@1:1 ST:AA="a"@2:1 RT:NN=/[0-9]+/@3:1 RT:WS=/[\x09\x0A\x0D\x20]/@4:1 R:s@5:1 CAT@5:5 T:AA@5:5 T:NN@5:8`,
				generic.VRL: `G:g@1:1 R:s@5:1 CAT@5:5 T:NN@5:8 T:AA@5:5 RT:WS=/[\x09\x0A\x0D\x20]/@4:1 RT:NN=/[0-9]+/@3:1 ST:AA="a"@2:1`,
				generic.LRV: `ST:AA="a"@2:1 RT:NN=/[0-9]+/@3:1 RT:WS=/[\x09\x0A\x0D\x20]/@4:1 T:AA@5:5 T:NN@5:8 CAT@5:5 R:s@5:1 G:g@1:1`,
				generic.RLV: `T:NN@5:8 T:AA@5:5 CAT@5:5 R:s@5:1 RT:WS=/[\x09\x0A\x0D\x20]/@4:1 RT:NN=/[0-9]+/@3:1 ST:AA="a"@2:1 G:g@1:1`,
			},
		},
		{
			name: "NestedOperators",
			src:  "grammar n;\ns = a [b] {c} {{d \"x\"}} | (e | f) g | ;\nt = ;\n",
			expected: map[generic.TraverseOrder]string{
				generic.VLR: `G:n@1:1 R:s@2:1 ALT@2:5 CAT@2:5 N:a@2:5 OPT@2:7 N:b@2:8 STAR@2:11 N:c@2:12 PLUS@2:15 CAT@2:17 N:d@2:17 T:"x"@2:19 CAT@2:28 ALT@2:28 N:e@2:28 N:f@2:32 N:g@2:35 E R:t@3:1 E`,
				generic.VRL: `G:n@1:1 R:t@3:1 E R:s@2:1 ALT@2:5 E CAT@2:28 N:g@2:35 ALT@2:28 N:f@2:32 N:e@2:28 CAT@2:5 PLUS@2:15 CAT@2:17 T:"x"@2:19 N:d@2:17 STAR@2:11 N:c@2:12 OPT@2:7 N:b@2:8 N:a@2:5`,
				generic.LRV: `N:a@2:5 N:b@2:8 OPT@2:7 N:c@2:12 STAR@2:11 N:d@2:17 T:"x"@2:19 CAT@2:17 PLUS@2:15 CAT@2:5 N:e@2:28 N:f@2:32 ALT@2:28 N:g@2:35 CAT@2:28 E ALT@2:5 R:s@2:1 E R:t@3:1 G:n@1:1`,
				generic.RLV: `E R:t@3:1 E N:g@2:35 N:f@2:32 N:e@2:28 ALT@2:28 CAT@2:28 T:"x"@2:19 N:d@2:17 CAT@2:17 PLUS@2:15 N:c@2:12 STAR@2:11 N:b@2:8 OPT@2:7 N:a@2:5 CAT@2:5 ALT@2:5 R:s@2:1 G:n@1:1`,
			},
		},
		{
			name: "Precedences",
			src:  "grammar p;\n@left \"+\" TT <e = e \"*\" e>\n@none <e = > \"=\";\ne = e \"+\" e | TT;\n",
			expected: map[generic.TraverseOrder]string{
				generic.VLR: `G:p@1:1 PD:LEFT@2:1 TH:"+"@2:7 TH:TT@2:11 PH:e@2:14 CAT@2:19 N:e@2:19 T:"*"@2:21 N:e@2:25 PD:NONE@3:1 PH:e@3:7 E TH:"="@3:14 R:e@4:1 ALT@4:5 CAT@4:5 N:e@4:5 T:"+"@4:7 N:e@4:11 T:TT@4:15`,
				generic.VRL: `G:p@1:1 R:e@4:1 ALT@4:5 T:TT@4:15 CAT@4:5 N:e@4:11 T:"+"@4:7 N:e@4:5 PD:NONE@3:1 TH:"="@3:14 PH:e@3:7 E PD:LEFT@2:1 PH:e@2:14 CAT@2:19 N:e@2:25 T:"*"@2:21 N:e@2:19 TH:TT@2:11 TH:"+"@2:7`,
				generic.LRV: `TH:"+"@2:7 TH:TT@2:11 N:e@2:19 T:"*"@2:21 N:e@2:25 CAT@2:19 PH:e@2:14 PD:LEFT@2:1 E PH:e@3:7 TH:"="@3:14 PD:NONE@3:1 N:e@4:5 T:"+"@4:7 N:e@4:11 CAT@4:5 T:TT@4:15 ALT@4:5 R:e@4:1 G:p@1:1`,
				generic.RLV: `T:TT@4:15 N:e@4:11 T:"+"@4:7 N:e@4:5 CAT@4:5 ALT@4:5 R:e@4:1 TH:"="@3:14 E PH:e@3:7 PD:NONE@3:1 N:e@2:25 T:"*"@2:21 N:e@2:19 CAT@2:19 PH:e@2:14 TH:TT@2:11 TH:"+"@2:7 PD:LEFT@2:1 G:p@1:1`,
			},
		},
	}

	for _, tc := range tests {
		t.Run(tc.name, func(t *testing.T) {
			root := demoParse(t, tc.src)

			for _, order := range demoOrders {
				got, res := demoWalk(root, order)
				if !res {
					t.Errorf("order %v: expected a complete traversal", order)
				}
				if got != tc.expected[order] {
					t.Errorf("order %v:\n     got: %s\nexpected: %s", order, got, tc.expected[order])
				}

				// Stopping at the k-th visited node yields exactly the first k nodes of the full traversal.
				full := strings.Split(tc.expected[order], " ")
				for k := 1; k <= len(full); k++ {
					var seen []string
					res := Traverse(root, order, func(n Node) bool {
						seen = append(seen, demoLabel(n))
						return len(seen) < k
					})

					if res {
						t.Errorf("order %v, stop at %d: expected false", order, k)
					}
					if !slices.Equal(seen, full[:k]) {
						t.Errorf("order %v, stop at %d: visited %v, expected %v", order, k, seen, full[:k])
					}
				}
			}

			// Invalid orders visit nothing below an internal node.
			for _, order := range []generic.TraverseOrder{generic.LVR, generic.RVL, generic.TraverseOrder(99)} {
				got, res := demoWalk(root, order)
				if res || got != "" {
					t.Errorf("order %v: got (%q, %t), expected nothing visited and false", order, got, res)
				}
			}
		})
	}
}

func TestRefactorDemo_TraverseFixture(t *testing.T) {
	const filename = "../../fixture/test.success.grammar"

	f, err := os.Open(filename)
	if err != nil {
		t.Fatal(err)
	}
	defer f.Close()

	root, err := Parse(filename, f)
	if err != nil {
		t.Fatal(err)
	}

	walk := func(order generic.TraverseOrder, leavesOnly bool) []string {
		var labels []string
		res := Traverse(root, order, func(n Node) bool {
			if _, isLeaf := n.(LeafNode); isLeaf || !leavesOnly {
				labels = append(labels, demoLabel(n))
			}
			return true
		})
		if !res {
			t.Errorf("order %v: expected a complete traversal", order)
		}
		return labels
	}

	vlr, vrl, lrv, rlv := walk(generic.VLR, false), walk(generic.VRL, false), walk(generic.LRV, false), walk(generic.RLV, false)

	if len(vlr) != 106 {
		t.Errorf("expected 106 nodes, got %d", len(vlr))
	}

	// RLV is the mirror of VLR and LRV is the mirror of VRL.
	mirror := func(s []string) []string {
		c := slices.Clone(s)
		slices.Reverse(c)
		return c
	}
	if !slices.Equal(rlv, mirror(vlr)) {
		t.Errorf("RLV is not the mirror of VLR")
	}
	if !slices.Equal(lrv, mirror(vrl)) {
		t.Errorf("LRV is not the mirror of VRL")
	}

	// The leaves appear in source order in left-to-right traversals and in reverse in right-to-left ones.
	leaves := walk(generic.VLR, true)
	if len(leaves) != 66 {
		t.Errorf("expected 66 leaves, got %d", len(leaves))
	}
	if !slices.Equal(walk(generic.LRV, true), leaves) {
		t.Errorf("LRV leaves differ from VLR leaves")
	}
	if !slices.Equal(walk(generic.VRL, true), mirror(leaves)) || !slices.Equal(walk(generic.RLV, true), mirror(leaves)) {
		t.Errorf("right-to-left leaves are not the mirror of left-to-right leaves")
	}

	expectedHead := `G:test@2:1 ST:SEMI=";"@4:1 RT:ID=/[A-Za-z_][0-9A-Za-z_]*/@5:1 RT:NUMBER=/[0-9]+(\.[0-9]+)?/@6:1 PD:LEFT@8:1 TH:"*"@8:8 TH:"/"@8:12 PD:LEFT@9:1`
	if got := strings.Join(vlr[:8], " "); got != expectedHead {
		t.Errorf("VLR head:\n     got: %s\nexpected: %s", got, expectedHead)
	}

	expectedTail := `T:"AND"@22:60 T:"XOR"@22:68 R:empty@23:1 E`
	if got := strings.Join(vlr[len(vlr)-4:], " "); got != expectedTail {
		t.Errorf("VLR tail:\n     got: %s\nexpected: %s", got, expectedTail)
	}
}

func TestRefactorDemo_Children(t *testing.T) {
	pos := &lexer.Position{Filename: "f", Offset: 3, Line: 1, Column: 4}
	a := &NonTerminalRHS{NonTerminal: "a", Position: pos}
	b := &TerminalRHS{Terminal: "B"}
	e := &EmptyRHS{}
	th := &TerminalHandle{Terminal: "T"}
	ph := &ProductionHandle{LHS: "x", RHS: e}
	tok := &StringTokenDecl{Name: "A", Value: "a"}
	rule := &RuleDecl{LHS: "s", RHS: a}

	tests := []struct {
		name     string
		n        InternalNode
		expected []Node
	}{
		{"Grammar/nil", &Grammar{Name: "g"}, []Node{}},
		{"Grammar/empty", &Grammar{Name: "g", Decls: []Decl{}}, []Node{}},
		{"Grammar/decls", &Grammar{Name: "g", Decls: []Decl{tok, rule, tok}}, []Node{tok, rule, tok}},
		{"Grammar/nilDecl", &Grammar{Name: "g", Decls: []Decl{tok, nil}}, []Node{tok, nil}},
		{"PrecedenceDecl/nil", &PrecedenceDecl{Associativity: lr.LEFT}, []Node{}},
		{"PrecedenceDecl/handles", &PrecedenceDecl{Associativity: lr.RIGHT, Handles: []PrecedenceHandle{ph, th}}, []Node{ph, th}},
		{"ConcatRHS/nil", &ConcatRHS{}, []Node{}},
		{"ConcatRHS/ops", &ConcatRHS{Ops: []RHS{a, b, e, a}}, []Node{a, b, e, a}},
		{"AltRHS/nil", &AltRHS{}, []Node{}},
		{"AltRHS/one", &AltRHS{Ops: []RHS{e}}, []Node{e}},
		{"AltRHS/ops", &AltRHS{Ops: []RHS{b, a, e}}, []Node{b, a, e}},
		{"ProductionHandle", ph, []Node{e}},
		{"RuleDecl", rule, []Node{a}},
		{"OptRHS", &OptRHS{Op: a}, []Node{a}},
		{"StarRHS", &StarRHS{Op: b}, []Node{b}},
		{"PlusRHS", &PlusRHS{Op: e}, []Node{e}},
	}

	for _, tc := range tests {
		t.Run(tc.name, func(t *testing.T) {
			got := tc.n.Children()

			if got == nil {
				t.Fatalf("Children() must never be nil")
			}
			if len(got) != len(tc.expected) || cap(got) != len(tc.expected) {
				t.Fatalf("len/cap = %d/%d, expected %d/%d", len(got), cap(got), len(tc.expected), len(tc.expected))
			}
			for i := range got {
				// Identity, not just structural equality.
				if got[i] != tc.expected[i] {
					t.Errorf("child %d: got %v, expected %v", i, got[i], tc.expected[i])
				}
			}
		})
	}

	t.Run("FreshSlice", func(t *testing.T) {
		cat := &ConcatRHS{Ops: []RHS{a, b}}
		c1, c2 := cat.Children(), cat.Children()
		c1[0] = e
		if c2[0] != Node(a) || cat.Ops[0] != RHS(a) {
			t.Errorf("Children() must return an independent slice")
		}
	})
}

// demoProbe is an internal node defined outside of the tree types; it counts how it is used.
type demoProbe struct {
	children      []Node
	childrenCalls int
}

func (p *demoProbe) String() string       { return "probe" }
func (p *demoProbe) Equal(rhs Node) bool  { return p == rhs }
func (p *demoProbe) Pos() *lexer.Position { return nil }
func (p *demoProbe) Children() []Node {
	p.childrenCalls++
	return p.children
}

// demoStranger is a node that is neither a leaf nor an internal node.
type demoStranger struct{}

func (demoStranger) String() string       { return "stranger" }
func (demoStranger) Equal(rhs Node) bool  { return false }
func (demoStranger) Pos() *lexer.Position { return nil }

func TestRefactorDemo_TraverseEdgeCases(t *testing.T) {
	a := &NonTerminalRHS{NonTerminal: "a"}
	b := &NonTerminalRHS{NonTerminal: "b"}
	c := &NonTerminalRHS{NonTerminal: "c"}

	t.Run("NilAndStrangerNodes", func(t *testing.T) {
		for _, order := range append(slices.Clone(demoOrders), generic.LVR) {
			calls := 0
			visit := func(Node) bool { calls++; return true }

			if Traverse(nil, order, visit) || Traverse(demoStranger{}, order, visit) || calls != 0 {
				t.Errorf("order %v: nil and unknown nodes must yield false without a visit", order)
			}
		}
	})

	t.Run("LeafIgnoresOrder", func(t *testing.T) {
		for _, order := range []generic.TraverseOrder{generic.VLR, generic.LVR, generic.TraverseOrder(42)} {
			for _, answer := range []bool{true, false} {
				var seen []Node
				res := Traverse(a, order, func(n Node) bool { seen = append(seen, n); return answer })
				if res != answer || len(seen) != 1 || seen[0] != Node(a) {
					t.Errorf("order %v: leaf visit got (%v, %t)", order, seen, res)
				}
			}
		}
	})

	t.Run("StrangerChildStopsTraversal", func(t *testing.T) {
		expected := map[generic.TraverseOrder]string{
			generic.VLR: "?*ast.demoProbe N:a",
			generic.VRL: "?*ast.demoProbe N:b",
			generic.LRV: "N:a",
			generic.RLV: "N:b",
		}

		for _, order := range demoOrders {
			p := &demoProbe{children: []Node{a, demoStranger{}, b}}
			got, res := demoWalk(p, order)
			if res || got != expected[order] || p.childrenCalls != 1 {
				t.Errorf("order %v: got (%q, %t, %d calls), expected (%q, false, 1 call)", order, got, res, p.childrenCalls, expected[order])
			}
		}
	})

	t.Run("ChildrenTakenOnceEvenForInvalidOrder", func(t *testing.T) {
		for _, order := range []generic.TraverseOrder{generic.VLR, generic.VRL, generic.LRV, generic.RLV, generic.LVR, generic.RVL, generic.TraverseOrder(7)} {
			p := &demoProbe{children: []Node{a}}
			Traverse(p, order, func(Node) bool { return true })
			if p.childrenCalls != 1 {
				t.Errorf("order %v: Children() called %d times, expected once", order, p.childrenCalls)
			}
		}
	})

	t.Run("NoChildren", func(t *testing.T) {
		for _, order := range demoOrders {
			for _, n := range []Node{&demoProbe{}, &ConcatRHS{}, &AltRHS{}, &Grammar{Name: "g"}, &PrecedenceDecl{}} {
				var seen []Node
				res := Traverse(n, order, func(m Node) bool { seen = append(seen, m); return true })
				if !res || len(seen) != 1 || seen[0] != n {
					t.Errorf("order %v, %T: got (%v, %t)", order, n, seen, res)
				}
			}
		}
	})

	t.Run("ChildrenSnapshotPrecedesVisit", func(t *testing.T) {
		// A visitor that rewrites the operands of a node while visiting it does not affect
		// a parent-first traversal, because the children were collected beforehand.
		expected := map[generic.TraverseOrder]string{
			generic.VLR: "CAT N:a N:b",
			generic.VRL: "CAT N:b N:a",
			generic.LRV: "N:a N:b CAT",
			generic.RLV: "N:b N:a CAT",
		}

		for _, order := range demoOrders {
			cat := &ConcatRHS{Ops: []RHS{a, b}}

			var labels []string
			res := Traverse(cat, order, func(n Node) bool {
				// The label is taken first: the position of a concatenation is that of its first operand.
				labels = append(labels, demoLabel(n))
				if n == Node(cat) {
					cat.Ops = []RHS{c, c, c}
				}
				return true
			})

			if got := strings.Join(labels, " "); !res || got != expected[order] {
				t.Errorf("order %v: got (%q, %t), expected (%q, true)", order, got, res, expected[order])
			}
		}
	})

	t.Run("ParentVetoSkipsSubtree", func(t *testing.T) {
		// Declining at an inner node stops everything after it, in all four orders.
		inner := &OptRHS{Op: b}
		root := &ConcatRHS{Ops: []RHS{a, inner, c}}

		expected := map[generic.TraverseOrder]string{
			generic.VLR: "CAT N:a OPT",
			generic.VRL: "CAT N:c OPT",
			generic.LRV: "N:a N:b OPT",
			generic.RLV: "N:c N:b OPT",
		}

		for _, order := range demoOrders {
			var labels []string
			res := Traverse(root, order, func(n Node) bool {
				labels = append(labels, demoLabel(n))
				return n != Node(inner)
			})

			if got := strings.Join(labels, " "); res || got != expected[order] {
				t.Errorf("order %v: got (%q, %t), expected (%q, false)", order, got, res, expected[order])
			}
		}
	})
}
