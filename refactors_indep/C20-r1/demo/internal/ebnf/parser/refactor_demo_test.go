package parser

import (
	"errors"
	"fmt"
	"strings"
	"testing"

	"github.com/moorara/algo/lexer"
	"github.com/moorara/algo/parser"
)

// demoRun parses a specification and records what the parser yields.
func demoRun(t *testing.T, src string) (err error, tokens int, prods string) {
	t.Helper()

	p, newErr := New("spec.grammar", strings.NewReader(src))
	if newErr != nil {
		t.Fatalf("New(%q): %s", src, newErr)
	}

	var ps []string
	err = p.Parse(
		func(*lexer.Token) error { tokens++; return nil },
		func(i int) error { ps = append(ps, fmt.Sprint(i)); return nil },
	)

	return err, tokens, strings.Join(ps, ",")
}

// TestRefactorDemo_Diagnostics pins the diagnostics, the number of shifted tokens,
// and the sequence of reductions for accepted and rejected specifications.
func TestRefactorDemo_Diagnostics(t *testing.T) {
	const noAction = "no action exists in the parsing table for ACTION"

	tests := []struct {
		src    string
		err    string // "" means accepted
		line   int    // expected position in the *parser.ParseError, 0 for the zero position
		column int
		tokens int
		prods  string
	}{
		// Accepted specifications.
		{src: "grammar foo", tokens: 2, prods: "8,1,3,0"},
		{src: "grammar foo;", tokens: 3, prods: "7,1,3,0"},
		{
			src:    "grammar foo;\nexpr = expr \"+\" expr | NUM;\nNUM = /[0-9]+/;",
			tokens: 15, prods: "7,1,3,32,22,32,30,34,31,23,32,30,23,33,31,28,20,6,2,10,7,4,2,0",
		},
		// Specifications that end too early: no position of an earlier token.
		{src: "", err: `unexpected string "": ` + noAction + `[0, $]`},
		{src: "  \n\t\n", err: `unexpected string "": ` + noAction + `[0, $]`},
		{src: "grammar", err: `unexpected string "": ` + noAction + `[43, $]`, tokens: 1},
		{src: "grammar foo;\nexpr = a | b", err: `unexpected string "": ` + noAction + `[44, $]`, tokens: 8, prods: "7,1,3,32,22,32,30"},
		// Syntax errors at the first offending token.
		{src: "foo", err: `spec.grammar:1:1: unexpected string "foo": ` + noAction + `[0, "IDENT"]`, line: 1, column: 1},
		{
			src: "grammar foo;\nexpr = expr \"+\" expr | NUM\nNUM = /[0-9]+/;",
			err: `spec.grammar:3:5: unexpected string "=": ` + noAction + `[55, "="]`, line: 3, column: 5,
			tokens: 11, prods: "7,1,3,32,22,32,30,34,31,23,32,30,23,33,31",
		},
		{
			src: "grammar foo;\nexpr = ;;",
			err: `spec.grammar:2:9: unexpected string ";": ` + noAction + `[15, ";"]`, line: 2, column: 9,
			tokens: 6, prods: "7,1,3,32,22,21",
		},
		{
			src: "grammar foo;\nexpr = ( a ;",
			err: `spec.grammar:2:12: unexpected string ";": ` + noAction + `[26, ";"]`, line: 2, column: 12,
			tokens: 7, prods: "7,1,3,32,22,32,30",
		},
		{
			src: "grammar foo;\n@left \"+\" ;\n@lefty",
			err: `spec.grammar:3:6: unexpected string "y": ` + noAction + `[36, "IDENT"]`, line: 3, column: 6,
			tokens: 7, prods: "7,1,3,34,17,12,7,5,2",
		},
		{
			src: "grammar foo;\nexpr = {{ a }} } ;",
			err: `spec.grammar:2:16: unexpected string "}": ` + noAction + `[8, "}"]`, line: 2, column: 16,
			tokens: 8, prods: "7,1,3,32,22,32,30,27",
		},
		// Lexical errors and reading errors: reported by the lexer, passed on as the cause.
		{src: "grammar foo;\n  ?expr = x;", err: `lexical error at spec.grammar:2:3:`, tokens: 3},
		{src: "grammar foo;\n# c\nexpr = a;", err: `lexical error at spec.grammar:2:1:`, tokens: 3},
		{src: "grammar foo;\nλ = a;", err: `lexical error at spec.grammar:2:1:`, tokens: 3},
		{src: "grammar foo;\n\texpr = a é;", err: `lexical error at spec.grammar:2:11:`, tokens: 6, prods: "7,1,3,32,22"},
		{src: "grammar foo;\nexpr = \"abc", err: `lexical error at spec.grammar:2:8:"abc`, tokens: 5, prods: "7,1,3,32,22"},
		{src: "grammar foo;\nexpr = a; \xff", err: `spec.grammar:2:11: invalid utf-8 character`, tokens: 7, prods: "7,1,3,32,22,32,30,20"},
	}

	for i, tc := range tests {
		t.Run(fmt.Sprint(i), func(t *testing.T) {
			err, tokens, prods := demoRun(t, tc.src)

			if tc.err == "" {
				if err != nil {
					t.Fatalf("%q: unexpected error %q", tc.src, err)
				}
			} else {
				if err == nil {
					t.Fatalf("%q: accepted, expected %q", tc.src, tc.err)
				}

				if err.Error() != tc.err {
					t.Errorf("%q:\n got %q\nwant %q", tc.src, err, tc.err)
				}

				var pe *parser.ParseError
				if !errors.As(err, &pe) {
					t.Fatalf("%q: %T is not a *parser.ParseError", tc.src, err)
				}

				want := lexer.Position{}
				if tc.line != 0 {
					want.Filename = "spec.grammar"
				}

				if pe.Pos.Filename != want.Filename || pe.Pos.Line != tc.line || pe.Pos.Column != tc.column {
					t.Errorf("%q: position %+v, want %s:%d:%d", tc.src, pe.Pos, want.Filename, tc.line, tc.column)
				}
			}

			if tokens != tc.tokens || prods != tc.prods {
				t.Errorf("%q: %d tokens, productions %q; want %d, %q", tc.src, tokens, prods, tc.tokens, tc.prods)
			}
		})
	}
}

// TestRefactorDemo_SuffixIndependence checks that the text after the offending token does not influence the message,
// and that the text before it is the prefix of an acceptable specification.
func TestRefactorDemo_SuffixIndependence(t *testing.T) {
	prefixes := []struct {
		good, rest, bad, err string
	}{
		{"grammar foo;\nexpr = a", ";", " = ", `spec.grammar:2:10: unexpected string "=": no action exists in the parsing table for ACTION[49, "="]`},
		{"grammar foo;\nexpr = a;", "", "\n ) ", `spec.grammar:3:2: unexpected string ")": no action exists in the parsing table for ACTION[15, ")"]`},
		{"grammar foo;\nexpr = a;", "", "\n ~ ", `lexical error at spec.grammar:3:2:`},
	}

	suffixes := []string{"", ";", "b = c;", "\n\n?? \xff", "\"open", "/* never closed", "grammar bar;"}

	for _, p := range prefixes {
		if err, _, _ := demoRun(t, p.good+p.rest); err != nil {
			t.Errorf("%q: expected to be accepted, got %q", p.good+p.rest, err)
		}

		for _, s := range suffixes {
			err, _, _ := demoRun(t, p.good+p.bad+s)
			if err == nil || err.Error() != p.err {
				t.Errorf("%q:\n got %v\nwant %q", p.good+p.bad+s, err, p.err)
			}
		}
	}
}

// TestRefactorDemo_Callbacks pins how the errors of the callbacks are wrapped, and that nil callbacks are allowed.
func TestRefactorDemo_Callbacks(t *testing.T) {
	const src = "grammar foo;\nexpr = a | NUM;\nNUM = \"b\";"

	newParser := func() *Parser {
		p, err := New("spec.grammar", strings.NewReader(src))
		if err != nil {
			t.Fatal(err)
		}
		return p
	}

	if err := newParser().Parse(nil, nil); err != nil {
		t.Errorf("nil callbacks: %s", err)
	}

	// The sixth token is the identifier a at 2:8.
	n := 0
	err := newParser().Parse(func(tk *lexer.Token) error {
		if n++; n == 6 {
			return fmt.Errorf("rejected %s", tk.Lexeme)
		}
		return nil
	}, nil)

	if err == nil || err.Error() != "spec.grammar:2:8: rejected a" {
		t.Errorf("token callback: got %v", err)
	}

	var order []int
	err = newParser().Parse(nil, func(i int) error {
		if order = append(order, i); len(order) == 4 {
			return errors.New("rejected production")
		}
		return nil
	})

	if err == nil || err.Error() != "rejected production" || fmt.Sprint(order) != "[7 1 3 32]" {
		t.Errorf("production callback: got %v after %v", err, order)
	}

	// The AST builder depends on the reductions popping exactly the body of each production.
	root, err := newParser().ParseAndBuildAST()
	if err != nil || root == nil {
		t.Fatalf("ParseAndBuildAST: %v, %v", root, err)
	}

	if in, ok := root.(*parser.InternalNode); !ok || len(in.Children) != 2 || in.Production != productions[0] {
		t.Errorf("ParseAndBuildAST: unexpected root %v", root)
	}

	bad, _ := New("spec.grammar", strings.NewReader("grammar foo;\nexpr = a | ) ;"))
	if _, err := bad.ParseAndBuildAST(); err == nil ||
		err.Error() != `spec.grammar:2:12: unexpected string ")": no action exists in the parsing table for ACTION[8, ")"]` {
		t.Errorf("ParseAndBuildAST on a bad specification: got %v", err)
	}
}
