package spec

import (
	"fmt"
	"strings"
	"testing"

	"github.com/moorara/algo/grammar"
	"github.com/moorara/algo/lexer"
)

// This file characterizes the behaviour of the symbol table (generated names, terminal entries,
// order of definitions, order and text of diagnostics) through the exported API and the table fields only,
// so that it runs unchanged before and after the refactoring of symbol_table.go.

func demoPos(offset int) *lexer.Position {
	return &lexer.Position{Filename: "demo", Offset: offset, Line: 1 + offset/10, Column: 1 + offset%10}
}

func demoStr(syms ...grammar.Symbol) grammar.String[grammar.Symbol] {
	return grammar.String[grammar.Symbol](syms)
}

func demoStringsText(s Strings) string {
	parts := make([]string, len(s))
	for i, α := range s {
		parts[i] = α.String()
	}
	return strings.Join(parts, " | ")
}

func TestRefactorDemo_GeneratedNames(t *testing.T) {
	T := func(s string) grammar.Symbol { return grammar.Terminal(s) }
	N := func(s string) grammar.Symbol { return grammar.NonTerminal(s) }

	type op func(*SymbolTable, Strings) grammar.NonTerminal
	opt, group, star, plus := (*SymbolTable).GetOpt, (*SymbolTable).GetGroup, (*SymbolTable).GetStar, (*SymbolTable).GetPlus

	steps := []struct {
		op          op
		s           Strings
		expected    grammar.NonTerminal
		expectedCnt int
	}{
		// A single punctuation terminal has a readable name and does not consume a number.
		{opt, Strings{demoStr(T(";"))}, "gen_semi_opt", 0},
		{opt, Strings{demoStr(T(";"))}, "gen_semi_opt", 0},
		{star, Strings{demoStr(T(";"))}, "gen_semi_star", 0},
		{plus, Strings{demoStr(T(";"))}, "gen_semi_plus", 0},
		{group, Strings{demoStr(T(";"))}, "gen_semi_group", 0},
		{group, Strings{demoStr(T("{"))}, "gen_rbrace_group", 0},
		{opt, Strings{demoStr(T("\n"))}, "gen_newline_opt", 0},
		// A single non-terminal is named after itself.
		{star, Strings{demoStr(N("decl"))}, "gen_decl_star", 0},
		{plus, Strings{demoStr(N("stmt"))}, "gen_stmt_plus", 0},
		{star, Strings{demoStr(N("stmt"))}, "gen_stmt_star", 0},
		{plus, Strings{demoStr(N("stmt"))}, "gen_stmt_plus", 0},
		// Anything else consumes the next number, once per strings and operator.
		{group, Strings{demoStr(T("REAL")), demoStr(T("BOOLEAN")), demoStr(T("INTEGER"))}, "gen1_group", 1},
		{group, Strings{demoStr(T("INTEGER")), demoStr(T("REAL")), demoStr(T("BOOLEAN"))}, "gen1_group", 1},
		{star, Strings{demoStr(T("BOOLEAN")), demoStr(T("INTEGER")), demoStr(T("REAL"))}, "gen2_star", 2},
		{group, Strings{demoStr(T("BOOLEAN")), demoStr(T("INTEGER")), demoStr(T("REAL"))}, "gen1_group", 2},
		{star, Strings{demoStr(T("REAL")), demoStr(T("INTEGER")), demoStr(T("BOOLEAN"))}, "gen2_star", 2},
		{opt, Strings{demoStr(T("if"))}, "gen3_opt", 3},
		{opt, Strings{demoStr(T("if"))}, "gen3_opt", 3},
		{plus, Strings{demoStr(T("if"))}, "gen4_plus", 4},
		{opt, Strings{demoStr(T("="), N("expr"))}, "gen5_opt", 5},
		{opt, Strings{demoStr(N("expr"), T("="))}, "gen6_opt", 6},
		{opt, Strings{demoStr(T("="), N("expr"))}, "gen5_opt", 6},
		{group, Strings{grammar.E}, "gen7_group", 7},
		{group, Strings{}, "gen8_group", 8},
		{star, Strings{demoStr(N("stmt")), grammar.E}, "gen9_star", 9},
		{star, Strings{grammar.E, demoStr(N("stmt"))}, "gen9_star", 9},
		{plus, Strings{demoStr(N("stmt")), grammar.E}, "gen10_plus", 10},
		{plus, Strings{demoStr(N("stmt"))}, "gen_stmt_plus", 10},
	}

	st := NewSymbolTable()
	for i, step := range steps {
		if got := step.op(st, step.s); got != step.expected {
			t.Errorf("step %d: expected %q, got %q", i, step.expected, got)
		}
		if st.strings.counter != step.expectedCnt {
			t.Errorf("step %d: expected counter %d, got %d", i, step.expectedCnt, st.strings.counter)
		}
	}

	// One entry per distinct set of strings, holding the names of all operators applied to it.
	if size := st.strings.table.Size(); size != 12 {
		t.Errorf("expected 12 entries, got %d", size)
	}

	e, ok := st.strings.table.Get(Strings{demoStr(T(";"))})
	if !ok || *e != (stringsEntry{Group: "gen_semi_group", Opt: "gen_semi_opt", Star: "gen_semi_star", Plus: "gen_semi_plus"}) {
		t.Errorf("unexpected entry for \";\": %+v", e)
	}

	e, ok = st.strings.table.Get(Strings{demoStr(T("INTEGER")), demoStr(T("BOOLEAN")), demoStr(T("REAL"))})
	if !ok || *e != (stringsEntry{Group: "gen1_group", Star: "gen2_star"}) {
		t.Errorf("unexpected entry for the types: %+v", e)
	}

	e, ok = st.strings.table.Get(Strings{demoStr(T("if"))})
	if !ok || *e != (stringsEntry{Opt: "gen3_opt", Plus: "gen4_plus"}) {
		t.Errorf("unexpected entry for \"if\": %+v", e)
	}

	// The argument is put in canonical order as a side effect; the evaluator iterates it afterwards.
	s := Strings{demoStr(T("REAL")), demoStr(T("BOOLEAN")), demoStr(N("x"), T("y")), demoStr(T("INTEGER")), grammar.E}
	name := NewSymbolTable().GetPlus(s)
	if name != "gen1_plus" {
		t.Errorf("expected gen1_plus, got %q", name)
	}
	if got, expected := demoStringsText(s), `x "y" | "BOOLEAN" | "INTEGER" | "REAL" | ε`; got != expected {
		t.Errorf("expected strings %s, got %s", expected, got)
	}

	// Reset does not restart the numbering.
	st.Reset()
	if got := st.GetGroup(Strings{demoStr(T("a")), demoStr(T("b"))}); got != "gen11_group" {
		t.Errorf("expected gen11_group, got %q", got)
	}
}

func demoEntryText(st *SymbolTable, a grammar.Terminal) string {
	e, ok := st.terminals.table.Get(a)
	if !ok {
		return "<none>"
	}

	var b strings.Builder
	fmt.Fprintf(&b, "#%d nil=%t,%t defs[", e.index, e.definitions == nil, e.occurrences == nil)
	for _, d := range e.definitions {
		pos := "-"
		if d.Pos != nil {
			pos = fmt.Sprint(d.Pos.Offset)
		}
		fmt.Fprintf(&b, "%s=%q/%t@%s ", d.Terminal, d.Value, d.IsRegex, pos)
	}
	b.WriteString("] occs[")
	for _, p := range e.occurrences {
		fmt.Fprintf(&b, "%d ", p.Offset)
	}
	b.WriteString("]")

	return b.String()
}

func TestRefactorDemo_TerminalEntries(t *testing.T) {
	st := NewSymbolTable()

	st.AddStringTokenDef("SEMI", ";", demoPos(1))
	st.AddTokenTerminal("ID", demoPos(2))
	st.AddRegexTokenDef("ID", "[a-z]+", demoPos(3))
	st.AddStringTerminal("if", demoPos(4))
	st.AddStringTerminal("if", demoPos(5))
	st.AddTokenTerminal("ID", demoPos(6))
	st.AddRegexTokenDef("NUM", "[0-9]+", demoPos(7))
	st.AddStringTokenDef("NUM", "0", demoPos(8))
	st.AddTokenTerminal("SEMI", demoPos(9))
	st.AddStringTokenDef("if", "IF", demoPos(10))
	st.AddTokenTerminal("if", demoPos(11))
	st.AddStringTerminal("ID", demoPos(12))
	st.AddTokenTerminal("EOL", demoPos(13))
	st.AddStringTerminal("", demoPos(14))

	expected := map[grammar.Terminal]string{
		"SEMI": `#1 nil=false,false defs["SEMI"=";"/false@1 ] occs[9 ]`,
		"ID":   `#2 nil=false,false defs["ID"="[a-z]+"/true@3 ] occs[2 6 12 ]`,
		"if":   `#3 nil=false,false defs["if"="if"/false@- "if"="IF"/false@10 ] occs[4 5 11 ]`,
		"NUM":  `#4 nil=false,false defs["NUM"="[0-9]+"/true@7 "NUM"="0"/false@8 ] occs[]`,
		"EOL":  `#5 nil=false,false defs[] occs[13 ]`,
		"":     `#6 nil=false,false defs[""=""/false@- ] occs[14 ]`,
		"none": `<none>`,
	}

	for a, exp := range expected {
		if got := demoEntryText(st, a); got != exp {
			t.Errorf("terminal %q:\nexpected %s\ngot      %s", a, exp, got)
		}
	}

	if st.terminals.counter != 6 || st.terminals.table.Size() != 6 {
		t.Errorf("expected 6 terminals, got counter %d and size %d", st.terminals.counter, st.terminals.table.Size())
	}
}

type demoDef struct {
	token   grammar.Terminal
	value   string
	isRegex bool
	implied bool
}

func demoAddAll(st *SymbolTable, defs []demoDef, order []int) {
	for _, i := range order {
		switch d := defs[i]; {
		case d.implied:
			st.AddStringTerminal(d.token, demoPos(100+i))
		case d.isRegex:
			st.AddRegexTokenDef(d.token, d.value, demoPos(100+i))
		default:
			st.AddStringTokenDef(d.token, d.value, demoPos(100+i))
		}
	}
}

func TestRefactorDemo_DefinitionsOrder(t *testing.T) {
	defs := []demoDef{
		{token: "ID", value: "[a-z]+", isRegex: true},
		{token: "NUMBER", value: "[0-9]+", isRegex: true},
		{token: "A", value: "x+", isRegex: true},
		{token: "IF", value: "if"},
		{token: "SEMI", value: ";"},
		{token: "AB", value: "ab"},
		{token: "Ab", value: "aB"},
		{token: "B", value: "b"},
		{token: "else", implied: true},
		{token: ";;", implied: true},
		{token: "=", implied: true},
		{token: "", implied: true},
		{token: "WS", value: "[ ]+", isRegex: true},
		{token: "ws", value: "[\\t]+", isRegex: true},
		{token: "é", implied: true}, // two bytes
	}

	const expected = `"" "=" "B" ";;" "AB" "Ab" "IF" "é" "SEMI" "else" "A" "ID" "WS" "ws" "NUMBER"`

	n := len(defs)
	orders := [][]int{make([]int, n), make([]int, n), make([]int, n), make([]int, n)}
	for i := 0; i < n; i++ {
		orders[0][i] = i
		orders[1][i] = n - 1 - i
		orders[2][i] = (i * 7) % n
		orders[3][i] = (i*4 + 3) % n
	}

	for _, order := range orders {
		for run := 0; run < 5; run++ {
			st := NewSymbolTable()
			demoAddAll(st, defs, order)

			// Terminals without exactly one definition are left out.
			st.AddTokenTerminal("UNDEFINED", demoPos(1))
			st.AddStringTokenDef("TWICE", "t1", demoPos(2))
			st.AddRegexTokenDef("TWICE", "t2", demoPos(3))

			got := make([]string, 0, n)
			for _, d := range st.Definitions() {
				got = append(got, d.Terminal.String())
			}

			if s := strings.Join(got, " "); s != expected {
				t.Fatalf("order %v:\nexpected %s\ngot      %s", order, expected, s)
			}
		}
	}

	if got := NewSymbolTable().Definitions(); got == nil || len(got) != 0 {
		t.Errorf("expected an empty non-nil list of definitions, got %#v", got)
	}
}

func TestRefactorDemo_VerifyDiagnostics(t *testing.T) {
	const expected = `6 errors occurred:

  • no definition for terminal "EOL"
  • no definition for terminal "ID"
  • multiple definitions for terminal "NUM":
      demo:11:1
      demo:11:2
      demo:11:3
  • multiple definitions for terminal "if":
      <nil>
      demo:11:4
  • multiple definitions with the same value: ";"
      <nil>: ";"
      demo:11:6: "SEMI"
      demo:11:5: "SEMICOLON"
  • missing production rule with the start symbol: start
`

	calls := []func(st *SymbolTable){
		func(st *SymbolTable) { st.AddTokenTerminal("ID", demoPos(90)) },
		func(st *SymbolTable) { st.AddTokenTerminal("EOL", demoPos(91)) },
		func(st *SymbolTable) { st.AddTokenTerminal("EOL", demoPos(92)) },
		func(st *SymbolTable) {
			st.AddStringTerminal("if", demoPos(93))
			st.AddStringTokenDef("if", "IF", demoPos(103))
		},
		func(st *SymbolTable) { st.AddStringTerminal(";", demoPos(94)) },
		func(st *SymbolTable) { st.AddStringTerminal(";", demoPos(95)) },
		func(st *SymbolTable) {
			st.AddRegexTokenDef("NUM", "[0-9]+", demoPos(100))
			st.AddStringTokenDef("NUM", "0", demoPos(101))
			st.AddRegexTokenDef("NUM", "[1-9]", demoPos(102))
		},
		func(st *SymbolTable) { st.AddStringTokenDef("SEMICOLON", ";", demoPos(104)) },
		func(st *SymbolTable) { st.AddStringTokenDef("SEMI", ";", demoPos(105)) },
		func(st *SymbolTable) { st.AddStringTokenDef("OK", "ok", demoPos(106)) },
		func(st *SymbolTable) {
			st.AddNonTerminal("begin", demoPos(107))
			st.AddProduction(&grammar.Production{Head: "begin", Body: grammar.E}, demoPos(107))
		},
	}

	n := len(calls)
	for shift := 0; shift < n; shift++ {
		for _, step := range []int{1, 2, 3, 4, 5, 6, 7, 8, 9, 10} {
			st := NewSymbolTable()
			for i := 0; i < n; i++ {
				calls[(shift+i*step)%n](st)
			}

			err := st.Verify()
			if err == nil {
				t.Fatalf("shift %d step %d: expected an error", shift, step)
			}

			got := err.Error()
			if got != expected {
				t.Fatalf("shift %d step %d:\nexpected:\n%s\ngot:\n%s", shift, step, expected, got)
			}
		}
	}

	// A table without issues verifies and keeps doing so.
	st := NewSymbolTable()
	st.AddStringTerminal(";", demoPos(1))
	st.AddTokenTerminal("ID", demoPos(2))
	st.AddRegexTokenDef("ID", "[a-z]+", demoPos(3))
	st.AddNonTerminal("start", demoPos(4))
	st.AddProduction(&grammar.Production{Head: "start", Body: demoStr(grammar.Terminal("ID"), grammar.Terminal(";"))}, demoPos(4))
	for i := 0; i < 3; i++ {
		if err := st.Verify(); err != nil {
			t.Errorf("unexpected error: %s", err)
		}
	}
}

const demoGoodGrammar = `grammar demo;

SEMI   = ";"
ID     = $ID
NUMBER = /[0-9]+/
IF     = "if"

@left "+" "-"
@left "*"

start  = {decl} {{stmt}};
decl   = ("int" | "float" | "void") ID ["=" expr] SEMI;
stmt   = ID "=" expr [SEMI] | IF "(" expr ")" stmt ["else" stmt] | "{" {stmt} "}";
expr   = expr ("+" | "-" | "*") expr | "(" expr ")" | NUMBER | ID | ID "(" [expr {"," expr}] ")";
`

const demoBadGrammar = `grammar demo;

SEMI   = ";"
SEMIC  = ";"
ID     = $ID
ID     = /[a-z]+/
NUMBER = $NUMBER
WORD   = $WORD
IF     = "if"
IFF    = "if"

begin  = {decl} ";" IF "if";
decl   = ID [EQ NUM] SEMI SEMIC IFF WORD;
`

func TestRefactorDemo_ParseIsRepeatable(t *testing.T) {
	const expectedDefs = `"(" ")" "*" "+" "," "-" "=" "{" "}" "IF" "int" "SEMI" "else" "void" "float" "ID" "NUMBER"`

	expectedProds := []string{
		`decl → gen1_group "ID" gen2_opt "SEMI"`,
		`expr → expr gen5_group expr`,
		`expr → "ID" "(" gen7_opt ")"`,
		`expr → "(" expr ")"`,
		`expr → "ID"`,
		`expr → "NUMBER"`,
		`gen1_group → "float"`,
		`gen1_group → "int"`,
		`gen1_group → "void"`,
		`gen2_opt → "=" expr`,
		`gen2_opt → ε`,
		`gen3_opt → "SEMI"`,
		`gen3_opt → ε`,
		`gen4_opt → "else" stmt`,
		`gen4_opt → ε`,
		`gen5_group → "*"`,
		`gen5_group → "+"`,
		`gen5_group → "-"`,
		`gen6_star → gen6_star "," expr`,
		`gen6_star → ε`,
		`gen7_opt → expr gen6_star`,
		`gen7_opt → ε`,
		`gen_decl_star → gen_decl_star decl`,
		`gen_decl_star → ε`,
		`gen_stmt_plus → gen_stmt_plus stmt`,
		`gen_stmt_plus → stmt`,
		`gen_stmt_star → gen_stmt_star stmt`,
		`gen_stmt_star → ε`,
		`start → gen_decl_star gen_stmt_plus`,
		`stmt → "IF" "(" expr ")" stmt gen4_opt`,
		`stmt → "ID" "=" expr gen3_opt`,
		`stmt → "{" gen_stmt_star "}"`,
	}

	for run := 0; run < 10; run++ {
		s, err := Parse("demo.grammar", strings.NewReader(demoGoodGrammar))
		if err != nil {
			t.Fatalf("run %d: unexpected error: %s", run, err)
		}

		defs := make([]string, len(s.Definitions))
		for i, d := range s.Definitions {
			defs[i] = d.Terminal.String()
		}
		if got := strings.Join(defs, " "); got != expectedDefs {
			t.Fatalf("run %d: definitions:\nexpected %s\ngot      %s", run, expectedDefs, got)
		}

		prods := s.Productions()
		got := make([]string, len(prods))
		for i, p := range prods {
			got[i] = p.String()
		}
		if g, e := strings.Join(got, "\n"), strings.Join(expectedProds, "\n"); g != e {
			t.Fatalf("run %d: productions:\nexpected:\n%s\ngot:\n%s", run, e, g)
		}
	}

	const expectedErr = `8 errors occurred:

  • invalid predefined regex: $WORD
  • no definition for terminal "EQ"
  • multiple definitions for terminal "ID":
      demo.grammar:5:1
      demo.grammar:6:1
  • no definition for terminal "NUM"
  • no definition for terminal "WORD"
  • multiple definitions with the same value: ";"
      <nil>: ";"
      demo.grammar:3:1: "SEMI"
      demo.grammar:4:1: "SEMIC"
  • multiple definitions with the same value: "if"
      demo.grammar:9:1: "IF"
      demo.grammar:10:1: "IFF"
      <nil>: "if"
  • missing production rule with the start symbol: start
`

	for run := 0; run < 10; run++ {
		s, err := Parse("demo.grammar", strings.NewReader(demoBadGrammar))
		if s != nil || err == nil {
			t.Fatalf("run %d: expected an error", run)
		}
		if got := err.Error(); got != expectedErr {
			t.Fatalf("run %d: diagnostics:\nexpected:\n%s\ngot:\n%s", run, expectedErr, got)
		}
	}
}
