package lexer

import (
	"errors"
	"fmt"
	"io"
	"strings"
	"testing"
	"testing/iotest"
	"unicode/utf8"

	"github.com/moorara/algo/lexer"
	"github.com/moorara/algo/lexer/input"
)

// demoScan scans the text to its end, or to the first error, and renders what the lexer returned.
func demoScan(t *testing.T, filename string, src io.Reader) string {
	t.Helper()

	l, err := New(filename, src)
	if err != nil {
		return "new: " + err.Error()
	}

	var b strings.Builder
	for n := 0; n < 10000; n++ {
		token, err := l.NextToken()
		if err != nil {
			fmt.Fprintf(&b, "!%s", err)

			// The kind of the error is part of the behaviour.
			var inErr *input.InputError
			switch {
			case err == io.EOF:
			case errors.As(err, &inErr):
				fmt.Fprintf(&b, " [input %s|%d,%d,%d]", inErr.Description, inErr.Pos.Offset, inErr.Pos.Line, inErr.Pos.Column)
			default:
				fmt.Fprintf(&b, " [%T]", err)
			}

			// What the next call reports: an error of the reader stays, a rejected lexeme has been consumed.
			if next, again := l.NextToken(); again != nil {
				fmt.Fprintf(&b, " then !%s", again)
			} else {
				fmt.Fprintf(&b, " then %s %q", next.Terminal, next.Lexeme)
			}

			return b.String()
		}

		fmt.Fprintf(&b, "%s %q @%s#%d; ", token.Terminal, token.Lexeme, token.Pos, token.Pos.Offset)
	}

	t.Fatalf("the lexer does not come to an end")
	return ""
}

func TestRefactorDemo_Scan(t *testing.T) {
	tests := []struct {
		name     string
		filename string
		text     string
		expected string
	}{
		{"Empty", "f.ebnf", "", `!EOF then !EOF`},
		{"OnlyBlank", "f.ebnf", " \t\r\n\n ", `!EOF then !EOF`},
		{"OnlyComment", "f.ebnf", "// c", `!EOF then !EOF`},
		{
			"Good", "good.ebnf", "grammar g;\nexpr = expr \"+\" TK | /[0-9]+/ ;",
			`"grammar" "grammar" @good.ebnf:1:1#0; "IDENT" "g" @good.ebnf:1:9#8; ";" ";" @good.ebnf:1:10#9; "IDENT" "expr" @good.ebnf:2:1#11; "=" "=" @good.ebnf:2:6#16; "IDENT" "expr" @good.ebnf:2:8#18; "STRING" "+" @good.ebnf:2:13#23; "TOKEN" "TK" @good.ebnf:2:17#27; "|" "|" @good.ebnf:2:20#30; "REGEX" "[0-9]+" @good.ebnf:2:22#32; ";" ";" @good.ebnf:2:31#41; !EOF then !EOF`,
		},
		{
			"StrayAtStart", "f.ebnf", "#",
			`!lexical error at f.ebnf:1:1: [*errors.errorString] then !lexical error at f.ebnf:1:1:`,
		},
		{
			"StrayAfterTokens", "f.ebnf", "grammar g;\n  a = # b;",
			`"grammar" "grammar" @f.ebnf:1:1#0; "IDENT" "g" @f.ebnf:1:9#8; ";" ";" @f.ebnf:1:10#9; "IDENT" "a" @f.ebnf:2:3#13; "=" "=" @f.ebnf:2:5#15; !lexical error at f.ebnf:2:7: [*errors.errorString] then !lexical error at f.ebnf:2:7:`,
		},
		{
			"NothingAfterInfluences", "f.ebnf", "grammar g;\n  a = # \xff \"unterminated",
			`"grammar" "grammar" @f.ebnf:1:1#0; "IDENT" "g" @f.ebnf:1:9#8; ";" ";" @f.ebnf:1:10#9; "IDENT" "a" @f.ebnf:2:3#13; "=" "=" @f.ebnf:2:5#15; !lexical error at f.ebnf:2:7: [*errors.errorString] then !lexical error at f.ebnf:2:7:`,
		},
		{
			"UnterminatedString", "f.ebnf", "a = \"abc",
			`"IDENT" "a" @f.ebnf:1:1#0; "=" "=" @f.ebnf:1:3#2; !lexical error at f.ebnf:1:5:"abc [*errors.errorString] then !EOF`,
		},
		{
			"UnterminatedStringAtNewline", "f.ebnf", "a = \"abc\n;",
			`"IDENT" "a" @f.ebnf:1:1#0; "=" "=" @f.ebnf:1:3#2; !lexical error at f.ebnf:1:5:"abc [*errors.errorString] then ";" ";"`,
		},
		{
			"UnterminatedRegex", "f.ebnf", "a\n=\n/ab",
			`"IDENT" "a" @f.ebnf:1:1#0; "=" "=" @f.ebnf:2:1#2; !lexical error at f.ebnf:3:1:/ab [*errors.errorString] then !EOF`,
		},
		{
			"UnterminatedComment", "f.ebnf", "a /* x\ny",
			`"IDENT" "a" @f.ebnf:1:1#0; !lexical error at f.ebnf:1:3:/* x
y [*errors.errorString] then !EOF`,
		},
		{
			"BadDirective", "f.ebnf", "a @lefty",
			`"IDENT" "a" @f.ebnf:1:1#0; "@left" "@left" @f.ebnf:1:3#2; "IDENT" "y" @f.ebnf:1:8#7; !EOF then !EOF`,
		},
		{
			"PartialDirective", "f.ebnf", "a @le b",
			`"IDENT" "a" @f.ebnf:1:1#0; !lexical error at f.ebnf:1:3:@le [*errors.errorString] then "IDENT" "b"`,
		},
		{
			"DollarAlone", "", "$ x",
			`!lexical error at 1:1:$ [*errors.errorString] then "IDENT" "x"`,
		},
		{
			"NonASCIIValidRune", "f.ebnf", "ab = é;",
			`"IDENT" "ab" @f.ebnf:1:1#0; "=" "=" @f.ebnf:1:4#3; !lexical error at f.ebnf:1:6: [*errors.errorString] then !lexical error at f.ebnf:1:6:`,
		},
		{
			"ReplacementCharacterIsValid", "f.ebnf", "a �",
			`"IDENT" "a" @f.ebnf:1:1#0; !lexical error at f.ebnf:1:3: [*errors.errorString] then !lexical error at f.ebnf:1:3:`,
		},
		{
			"ValidRunesInComment", "f.ebnf", "x // é€\U0001F600�\nx",
			`"IDENT" "x" @f.ebnf:1:1#0; !lexical error at f.ebnf:1:6: [*errors.errorString] then !lexical error at f.ebnf:1:6:`,
		},
		{
			"InvalidByteAtStart", "f.ebnf", "\xff",
			`!f.ebnf:1:1: invalid utf-8 character [input invalid utf-8 character|0,1,1] then !f.ebnf:1:1: invalid utf-8 character`,
		},
		{
			"InvalidByteAfterTokens", "f.ebnf", "grammar g;\n  a = \x80;",
			`"grammar" "grammar" @f.ebnf:1:1#0; "IDENT" "g" @f.ebnf:1:9#8; ";" ";" @f.ebnf:1:10#9; "IDENT" "a" @f.ebnf:2:3#13; "=" "=" @f.ebnf:2:5#15; !f.ebnf:2:7: invalid utf-8 character [input invalid utf-8 character|17,2,7] then !f.ebnf:2:7: invalid utf-8 character`,
		},
		{
			"InvalidByteInsideIdentifier", "f.ebnf", "abc\xc3",
			`!f.ebnf:1:4: invalid utf-8 character [input invalid utf-8 character|3,1,4] then !f.ebnf:1:4: invalid utf-8 character`,
		},
		{
			"InvalidByteInsideComment", "f.ebnf", "x /* c\n*\xe2\x82 */",
			`"IDENT" "x" @f.ebnf:1:1#0; !f.ebnf:2:2: invalid utf-8 character [input invalid utf-8 character|8,2,2] then !f.ebnf:2:2: invalid utf-8 character`,
		},
		{
			"TruncatedRuneAtEnd", "f.ebnf", "// \xf0\x9f\x98",
			`!f.ebnf:1:4: invalid utf-8 character [input invalid utf-8 character|3,1,4] then !f.ebnf:1:4: invalid utf-8 character`,
		},
		{
			"OverlongEncoding", "f.ebnf", "// \xc0\xaf",
			`!f.ebnf:1:4: invalid utf-8 character [input invalid utf-8 character|3,1,4] then !f.ebnf:1:4: invalid utf-8 character`,
		},
		{
			"SurrogateEncoding", "f.ebnf", "// \xed\xa0\x80",
			`!f.ebnf:1:4: invalid utf-8 character [input invalid utf-8 character|3,1,4] then !f.ebnf:1:4: invalid utf-8 character`,
		},
		{
			"NulByte", "f.ebnf", "a \x00",
			`"IDENT" "a" @f.ebnf:1:1#0; !lexical error at f.ebnf:1:3: [*errors.errorString] then !lexical error at f.ebnf:1:3:`,
		},
		{
			"DEL", "f.ebnf", "// \x7f\nb \x7f",
			`!lexical error at f.ebnf:1:4: [*errors.errorString] then !lexical error at f.ebnf:1:4:`,
		},
	}

	for _, tc := range tests {
		t.Run(tc.name, func(t *testing.T) {
			got := demoScan(t, tc.filename, strings.NewReader(tc.text))

			if got != tc.expected {
				t.Errorf("\nexpected: %s\n     got: %s", tc.expected, got)
			}
		})
	}
}

// The way the source hands out its bytes makes no difference, and its error is returned as it is.
func TestRefactorDemo_Readers(t *testing.T) {
	const text = "grammar g;\n// comment\n  a = BB \"c\" # ;"
	expected := demoScan(t, "r.ebnf", strings.NewReader(text))

	if !strings.Contains(expected, "!lexical error at r.ebnf:3:14: ") {
		t.Fatalf("unexpected result: %s", expected)
	}

	readers := map[string]io.Reader{
		"OneByte": iotest.OneByteReader(strings.NewReader(text)),
		"Half":    iotest.HalfReader(strings.NewReader(text)),
		"DataErr": iotest.DataErrReader(strings.NewReader(text)),
		"Multi":   io.MultiReader(strings.NewReader(text[:17]), strings.NewReader(text[17:])),
	}

	for name, r := range readers {
		if got := demoScan(t, "r.ebnf", r); got != expected {
			t.Errorf("%s\nexpected: %s\n     got: %s", name, expected, got)
		}
	}

	// A source that fails, at once or after some bytes, gives no lexer.
	failure := errors.New("disk on fire")
	for name, r := range map[string]io.Reader{
		"ErrAtOnce":  iotest.ErrReader(failure),
		"ErrLater":   io.MultiReader(strings.NewReader("grammar g; #"), iotest.ErrReader(failure)),
		"ErrTimeout": iotest.TimeoutReader(iotest.OneByteReader(strings.NewReader(text))),
	} {
		l, err := New("r.ebnf", r)
		if l != nil {
			t.Errorf("%s: there is a lexer", name)
		}

		if name == "ErrTimeout" {
			if err != iotest.ErrTimeout {
				t.Errorf("%s: unexpected error %v", name, err)
			}
		} else if err != failure {
			t.Errorf("%s: unexpected error %v", name, err)
		}
	}
}

// demoNext is the specification of textInput.Next, written down independently of it:
// it returns the rune, the number of bytes consumed, and whether the bytes are the end or an invalid encoding.
func demoNext(rest []byte) (r rune, size int, eof, invalid bool) {
	if len(rest) == 0 {
		return 0, 0, true, false
	}

	for n := 1; n <= utf8.UTFMax && n <= len(rest); n++ {
		if utf8.Valid(rest[:n]) {
			return []rune(string(rest[:n]))[0], n, false, false
		}
	}

	return 0, 0, false, true
}

func demoCheckNext(t *testing.T, prefix string, seq []byte) {
	t.Helper()

	text := append([]byte(prefix), seq...)
	in := newTextInput("n.ebnf", text)

	// Read over the prefix, which is valid.
	for range prefix {
		if _, err := in.Next(); err != nil {
			t.Fatalf("%q: %s", text, err)
		}
	}

	consumed := len(prefix)
	for step := 0; step <= len(seq); step++ {
		wantR, wantSize, wantEOF, wantInvalid := demoNext(text[consumed:])
		r, err := in.Next()

		switch {
		case wantEOF:
			if r != 0 || err != io.EOF {
				t.Fatalf("%q at %d: expected the end, got %q, %v", text, consumed, r, err)
			}

			return

		case wantInvalid:
			inErr, ok := err.(*input.InputError)
			if r != 0 || !ok {
				t.Fatalf("%q at %d: expected an input error, got %q, %v", text, consumed, r, err)
			}

			// The position is that of the offending byte: the characters before it are counted, and it is on the same line
			// unless the prefix has a newline.
			wantPos := lexer.Position{Filename: "n.ebnf", Offset: 0, Line: 1, Column: 1}
			for _, c := range string(text[:consumed]) {
				wantPos.Offset++
				if c == '\n' {
					wantPos.Line, wantPos.Column = wantPos.Line+1, 1
				} else {
					wantPos.Column++
				}
			}

			if inErr.Description != "invalid utf-8 character" || inErr.Pos != wantPos {
				t.Fatalf("%q at %d: expected %v, got %v: %s", text, consumed, wantPos, inErr.Pos, inErr.Description)
			}

			// The error is not consumed, and the forward pointer has not moved.
			if _, again := in.Next(); again == nil || again.Error() != err.Error() {
				t.Fatalf("%q at %d: the second error is %v", text, consumed, again)
			}

			if lexeme, _ := in.Lexeme(); lexeme != string(text[:consumed]) {
				t.Fatalf("%q at %d: the lexeme is %q", text, consumed, lexeme)
			}

			return

		default:
			if err != nil || r != wantR {
				t.Fatalf("%q at %d: expected %q, got %q, %v", text, consumed, wantR, r, err)
			}

			consumed += wantSize
		}
	}

	t.Fatalf("%q: no end", text)
}

func TestRefactorDemo_NextAgainstSpecification(t *testing.T) {
	prefixes := []string{"", "ab\né"}

	for _, prefix := range prefixes {
		// Every sequence of one byte and of two bytes.
		for b0 := 0; b0 < 256; b0++ {
			demoCheckNext(t, prefix, []byte{byte(b0)})
			for b1 := 0; b1 < 256; b1++ {
				demoCheckNext(t, prefix, []byte{byte(b0), byte(b1)})
			}
		}

		// Longer sequences around the boundaries of the encoding.
		edges := []byte{0x00, 0x41, 0x7f, 0x80, 0x8f, 0x90, 0x9f, 0xa0, 0xbf, 0xc0, 0xc1, 0xc2, 0xdf, 0xe0, 0xe1, 0xec, 0xed, 0xee, 0xef, 0xf0, 0xf1, 0xf3, 0xf4, 0xf5, 0xf7, 0xf8, 0xff}
		for _, b0 := range edges {
			if b0 < 0xc0 {
				continue
			}

			for _, b1 := range edges {
				for _, b2 := range edges {
					demoCheckNext(t, prefix, []byte{b0, b1, b2})
					for _, b3 := range edges {
						demoCheckNext(t, prefix, []byte{b0, b1, b2, b3})
					}
				}
			}
		}
	}

	// Some concrete results.
	for _, tc := range []struct {
		text string
		r    rune
		err  string
	}{
		{"", 0, "EOF"},
		{"\x00", 0, ""},
		{"\x7f", 0x7f, ""},
		{"\u0080", 0x80, ""},
		{"߿", 0x7ff, ""},
		{"ࠀ", 0x800, ""},
		{"�", 0xfffd, ""},
		{"￿", 0xffff, ""},
		{"\U00010000", 0x10000, ""},
		{"\U0010ffff", 0x10ffff, ""},
		{"\x80", 0, "n.ebnf:1:1: invalid utf-8 character"},
		{"\xc2", 0, "n.ebnf:1:1: invalid utf-8 character"},
		{"\xc1\xbf", 0, "n.ebnf:1:1: invalid utf-8 character"},
		{"\xe0\x9f\xbf", 0, "n.ebnf:1:1: invalid utf-8 character"},
		{"\xed\xbf\xbf", 0, "n.ebnf:1:1: invalid utf-8 character"},
		{"\xf4\x90\x80\x80", 0, "n.ebnf:1:1: invalid utf-8 character"},
		{"\xf8\x88\x80\x80\x80", 0, "n.ebnf:1:1: invalid utf-8 character"},
	} {
		r, err := newTextInput("n.ebnf", []byte(tc.text)).Next()

		msg := ""
		if err != nil {
			msg = err.Error()
		}

		if r != tc.r || msg != tc.err {
			t.Errorf("%q: expected %q, %q, got %q, %q", tc.text, tc.r, tc.err, r, msg)
		}
	}
}

// The error leaf: whatever the reader returns as the pending lexeme and its position goes into the message.
func TestRefactorDemo_ErrorLeaf(t *testing.T) {
	for _, tc := range []struct {
		state    int
		val      string
		pos      lexer.Position
		expected string
	}{
		{0, "", lexer.Position{Filename: "m.ebnf", Offset: 0, Line: 1, Column: 1}, "lexical error at m.ebnf:1:1:"},
		{20, "@le", lexer.Position{Filename: "m.ebnf", Offset: 41, Line: 7, Column: 3}, "lexical error at m.ebnf:7:3:@le"},
		{43, "\"a\nb", lexer.Position{Filename: "", Offset: 5, Line: 2, Column: 4}, "lexical error at 2:4:\"a\nb"},
		{52, "/* %s %d", lexer.Position{Filename: "dir/m.ebnf", Offset: 9}, "lexical error at dir/m.ebnf:9:/* %s %d"},
		{-1, "x", lexer.Position{}, "lexical error at 0:x"},
		{1000, "%!", lexer.Position{Filename: "%v", Offset: 1, Line: 1, Column: 2}, "lexical error at %v:1:2:%!"},
	} {
		mock := &mockInputBuffer{LexemeMocks: []LexemeMock{{OutVal: tc.val, OutPos: tc.pos}, {OutVal: tc.val, OutPos: tc.pos}}}
		l := &Lexer{in: mock}

		token := l.evalDFA(tc.state)
		if token.Terminal != ERR || token.Lexeme != tc.expected || token.Pos != tc.pos {
			t.Errorf("state %d: unexpected token %#v", tc.state, token)
		}

		token, ok, err := l.emit(tc.state)
		if !token.Pos.IsZero() || token.Terminal != "" || token.Lexeme != "" || ok || err == nil || err.Error() != tc.expected {
			t.Errorf("state %d: unexpected result %#v, %t, %v", tc.state, token, ok, err)
		}

		if mock.LexemeIndex != 2 || mock.SkipIndex != 0 || mock.RetractIndex != 0 || mock.NextIndex != 0 {
			t.Errorf("state %d: unexpected calls %+v", tc.state, mock)
		}
	}

	// The other leaves of emit: skipped lexemes and tokens.
	pos := lexer.Position{Filename: "m.ebnf", Offset: 3, Line: 1, Column: 4}
	for _, state := range []int{1, 2, 51, 54} {
		l := &Lexer{in: &mockInputBuffer{SkipMocks: []SkipMock{{OutPos: pos}}}}
		if token, ok, err := l.emit(state); ok || err != nil || token != (lexer.Token{}) {
			t.Errorf("state %d: unexpected result %#v, %t, %v", state, token, ok, err)
		}
	}

	l := &Lexer{in: &mockInputBuffer{SkipMocks: []SkipMock{{OutPos: pos}}}}
	if token, ok, err := l.emit(3); !ok || err != nil || token != (lexer.Token{Terminal: DEF, Lexeme: "=", Pos: pos}) {
		t.Errorf("unexpected result %#v, %t, %v", token, ok, err)
	}

	l = &Lexer{in: &mockInputBuffer{LexemeMocks: []LexemeMock{{OutVal: "ERR", OutPos: pos}}}}
	if token, ok, err := l.emit(42); !ok || err != nil || token != (lexer.Token{Terminal: TOKEN, Lexeme: "ERR", Pos: pos}) {
		t.Errorf("unexpected result %#v, %t, %v", token, ok, err)
	}
}
