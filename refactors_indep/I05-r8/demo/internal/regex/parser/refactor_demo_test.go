package parser

import (
	"fmt"
	"hash/fnv"
	"os"
	"strings"
	"testing"

	comb "github.com/moorara/algo/parser/combinator"
)

// demoNode is the value every demo mapper returns: a rendering of the mapper's name and of the result it received.
type demoNode string

// demoMappers implements Mappers. Every mapper succeeds, renders what it was given and logs the call,
// so that both the final result and the order in which alternatives were tried are observable.
type demoMappers struct {
	log []string
}

func demoRender(r comb.Result) string {
	var s string
	switch v := r.Val.(type) {
	case demoNode:
		s = string(v)
	case rune:
		s = fmt.Sprintf("%q#%d", v, v)
	case string:
		s = fmt.Sprintf("%q", v)
	case int:
		s = fmt.Sprintf("%d", v)
	case comb.Empty:
		s = "e"
	case comb.List:
		items := make([]string, len(v))
		for i, e := range v {
			items[i] = demoRender(e)
		}
		s = "[" + strings.Join(items, " ") + "]"
	case nil:
		s = "nil"
	default:
		s = fmt.Sprintf("?%T", v)
	}

	return fmt.Sprintf("%s@%d", s, r.Pos)
}

func (m *demoMappers) node(name string, r comb.Result) (comb.Result, bool) {
	s := name + "(" + demoRender(r) + ")"
	m.log = append(m.log, s)
	return comb.Result{Val: demoNode(s), Pos: r.Pos}, true
}

func (m *demoMappers) ToAnyChar(r comb.Result) (comb.Result, bool)    { return m.node("Any", r) }
func (m *demoMappers) ToSingleChar(r comb.Result) (comb.Result, bool) { return m.node("Single", r) }
func (m *demoMappers) ToCharClass(r comb.Result) (comb.Result, bool)  { return m.node("Class", r) }
func (m *demoMappers) ToASCIICharClass(r comb.Result) (comb.Result, bool) {
	return m.node("ASCIIClass", r)
}
func (m *demoMappers) ToUnicodeCategory(r comb.Result) (comb.Result, bool) { return m.node("Cat", r) }
func (m *demoMappers) ToUnicodeCharClass(r comb.Result) (comb.Result, bool) {
	return m.node("UniClass", r)
}
func (m *demoMappers) ToRepOp(r comb.Result) (comb.Result, bool)       { return m.node("RepOp", r) }
func (m *demoMappers) ToUpperBound(r comb.Result) (comb.Result, bool)  { return m.node("Upper", r) }
func (m *demoMappers) ToRange(r comb.Result) (comb.Result, bool)       { return m.node("Range", r) }
func (m *demoMappers) ToRepetition(r comb.Result) (comb.Result, bool)  { return m.node("Rep", r) }
func (m *demoMappers) ToQuantifier(r comb.Result) (comb.Result, bool)  { return m.node("Quant", r) }
func (m *demoMappers) ToCharInRange(r comb.Result) (comb.Result, bool) { return m.node("InRange", r) }
func (m *demoMappers) ToCharRange(r comb.Result) (comb.Result, bool)   { return m.node("CharRange", r) }
func (m *demoMappers) ToCharGroupItem(r comb.Result) (comb.Result, bool) {
	return m.node("Item", r)
}
func (m *demoMappers) ToCharGroup(r comb.Result) (comb.Result, bool)   { return m.node("Group", r) }
func (m *demoMappers) ToMatchItem(r comb.Result) (comb.Result, bool)   { return m.node("MatchItem", r) }
func (m *demoMappers) ToMatch(r comb.Result) (comb.Result, bool)       { return m.node("Match", r) }
func (m *demoMappers) ToGroup(r comb.Result) (comb.Result, bool)       { return m.node("Paren", r) }
func (m *demoMappers) ToAnchor(r comb.Result) (comb.Result, bool)      { return m.node("Anchor", r) }
func (m *demoMappers) ToSubexprItem(r comb.Result) (comb.Result, bool) { return m.node("SubItem", r) }
func (m *demoMappers) ToSubexpr(r comb.Result) (comb.Result, bool)     { return m.node("Sub", r) }
func (m *demoMappers) ToExpr(r comb.Result) (comb.Result, bool)        { return m.node("Expr", r) }
func (m *demoMappers) ToRegex(r comb.Result) (comb.Result, bool)       { return m.node("Regex", r) }

// demoOutcome renders the outcome of a parser: the result, how much of the input is left,
// the number of mapper calls and a hash of the whole call log (it covers the alternatives that were abandoned, too).
func demoOutcome(m *demoMappers, out comb.Output, ok bool) string {
	h := fnv.New32a()
	for _, s := range m.log {
		_, _ = h.Write([]byte(s))
		_, _ = h.Write([]byte{'\n'})
	}
	trace := fmt.Sprintf("calls=%d log=%08x", len(m.log), h.Sum32())

	if !ok {
		return "REJECT " + trace
	}

	rest := "rest=none"
	if out.Remaining != nil {
		_, pos := out.Remaining.Current()
		rest = fmt.Sprintf("rest=%d", pos)
	}

	return demoRender(out.Result) + " " + rest + " " + trace
}

type demoCase struct {
	part string // which combinator is applied
	in   string
	want string
}

func demoRun(part, in string) string {
	m := new(demoMappers)
	p := New(m)

	var out comb.Output
	var ok bool
	switch part {
	case "parse":
		out, ok = p.Parse(in)
	case "charInRange":
		out, ok = p.charInRange(newStringInput(in))
	case "charRange":
		out, ok = p.charRange(newStringInput(in))
	case "charGroupItem":
		out, ok = p.charGroupItem(newStringInput(in))
	case "charGroup":
		out, ok = p.charGroup(newStringInput(in))
	case "asciiChar":
		out, ok = p.asciiChar(newStringInput(in))
	case "unicodeChar":
		out, ok = p.unicodeChar(newStringInput(in))
	case "escapedChar":
		out, ok = p.escapedChar(newStringInput(in))
	default:
		panic("unknown part " + part)
	}

	return demoOutcome(m, out, ok)
}

// demoInputs lists the inputs per combinator. The expected outcomes are in demoGolden, in the same order.
var demoInputs = []struct {
	part string
	ins  []string
}{
	{"escapedChar", []string{`\\`, `\|`, `\.`, `\?`, `\*`, `\+`, `\(`, `\)`, `\[`, `\]`, `\{`, `\}`, `\$`, `\t`, `\n`, `\-`, `\^`, `\`, ``, `a`}},
	{"asciiChar", []string{`\x00`, `\x41`, `\x7F`, `\xFF`, `\x4D`, `\x4d`, `\x4`, `\x`, `\xG0`, `\x0G`, `\x414`, `x41`, `\X41`}},
	{"unicodeChar", []string{
		`\x0041`, `\x01A9`, `\x1F600`, `\x10FFFF`, `\x0010FFFF`, `\x7FFFFFFF`, `\x80000000`, `\xFFFFFFFF`, `\xFFFFFFFFF`,
		`\x00000000`, `\x0000`, `\x004`, `\x41`, `\x0041G`, `\x00411`, `\x00a9`, `\x12345678`, `\x123456789`,
	}},
	{"charInRange", []string{
		`a`, `-`, `]`, `[`, `\`, `^`, ` `, `~`, "\x7f", "\t", "é", ``, `\x41`, `\x0041`, `\x1F600`, `\x4`, `\xZZ`, `\\`, `\d`,
	}},
	{"charRange", []string{
		`a-z`, `z-a`, `a-a`, `0-9`, `a-`, `a`, `-a`, `a-z-`, `--- `, `\x41-\x5A`, `\x0041-\x005A`, `\x41-Z`, `A-\x5A`, `\x1F600-\x1F64F`,
		`]-a`, `[-]`, `.-0`, `a-\d`, `\-]`, "a-é", `a--`, ` -~`, `a_z`, `\x00-\xFF`, `\xFFFFFFFF-\x00000000`,
	}},
	{"charGroupItem", []string{
		`a`, `ab`, `a-z`, `a-`, `-`, `-a`, `\d`, `\D`, `\s`, `\S`, `\w`, `\W`, `\w-z`, `[:alpha:]`, `[:alpha:]-z`, `[:foo:]`, `[:alpha`,
		`\p{Lu}`, `\P{Greek}`, `\p{Foo}`, `\p{L}`, `\p{Letter}`, `\pL`, `\x41`, `\x0041`, `\x41-\x5A`, `\.`, `\]`, `\[`, `\\`, `\\-\]`,
		`.`, `]`, `[`, `.-0`, `]-a`, `[-a`, `\t`, `\-`, `^`, `^-a`, "é", ``, `$`, `$-%`, `(-)`, `{`, `|`, `*-+`,
	}},
	{"charGroup", []string{
		`[a]`, `[^a]`, `[ab]`, `[a-z]`, `[^a-z0-9]`, `[z-a]`, `[a-]`, `[-a]`, `[-]`, `[a-b-c]`, `[]`, `[^]`, `[]]`, `[^]]`, `[]-a]`, `[a-]]`,
		`[a`, `[a-z`, `[^`, `[`, `a]`, `]`, ``, `[[:alpha:]]`, `[[:alpha:]0-9_]`, `[^[:digit:][:upper:]]`, `[[:foo:]]`, `[:alpha:]`,
		`[\d\s]`, `[\p{Lu}\P{Greek}]`, `[\p{Foo}]`, `[\x41-\x5A]`, `[\x0041-\x005A]`, `[\x00000041]`, `[\x4G]`, `[\x41F]`, `[\x4a]`,
		`[\.\]\[]`, `[\\-\]]`, `[.]`, `[.-0]`, `[^^]`, `[^^-a]`, `[a^]`, `[ -~]`, `[\t]`, "[é]", "[a-é]", `[a]]`, `[a]b`, `[a][b]`,
		`[[a]`, `[[-a]`, `[[:alpha:]-z]`, `[\w-z]`, `[a-\d]`, `[A-\x5A]`, `[\x00-\xFF]`, `[\xFFFFFFFF]`, `[\xFFFFFFFFF]`, `[a|b]`, `[(a)]`,
		`[a*]`, `[a+]`, `[a?]`, `[{1}]`, `[$]`, `[a-z]+`, `[^\x00-\x1F]`, `[\x1F600-\x1F64F]`, `[a-zA-Z0-9_]`, `[^a`, `[^-]`, `[--]`, `[---]`,
	}},
	{"parse", []string{
		`[a]`, `[^a]`, `[a-z]`, `[z-a]`, `[a-z]+`, `[a-z]*?`, `[a-z]{2,3}`, `[a-z]{3,2}`, `[a-z]{2,}?`, `^[a-z]$`, `([a-z]|[0-9])*`,
		`[a-zA-Z_][a-zA-Z0-9_]*`, `"([^"\\]|\\.)*"`, `[a]]`, `[a`, `a]`, `[]`, `[^]`, `[]-a]`, `[.]`, `[.-0]`, `[[:alpha:]]`, `[[:alpha:]`,
		`[[:alpha:]]]`, `[:alpha:]`, `[\p{Lu}\d_-]`, `[\x41-\x5A]x`, `[\x0041-\x005A]?`, `[\x4a]`, `[\t]`, "[é]", `[a-z`, `[a-z]|`,
		`|[a-z]`, `[a-z]()`, `([a-z]`, `[a-z])`, `[a-z]{`, `[a-z]{}`, `[a-z]{1`, `[a-z]{1,2`, `[a-z]**`, `[a-z]+?`, `[a-z]??`, `[a-z]???`,
		`x[^\]]y`, `[\]]`, `[\[-\]]`, `[\\]`, `[\]`, `[\x41-]`, `[-\x41]`, `[\xFFFFFFFF-\x00000000]`, `a`, `.`, `\x41`, `\x0041`, ``, `^`, `$`,
		`[a][^b][c-d]`, `[a-c-e]`, `[ab-]`, `[^-ab]`, `[!-/:-@]`, `[[:upper:][:lower:]]{1,5}?`, `[ ]`, `[^ ]+`,
	}},
}

func demoCases(t *testing.T) []demoCase {
	var cases []demoCase
	for _, g := range demoInputs {
		for _, in := range g.ins {
			cases = append(cases, demoCase{part: g.part, in: in})
		}
	}

	if os.Getenv("REFACTOR_DEMO_GENERATE") == "" && len(cases) != len(demoGolden) {
		t.Fatalf("%d inputs but %d expected outcomes", len(cases), len(demoGolden))
	}
	for i := range cases {
		if i < len(demoGolden) {
			cases[i].want = demoGolden[i]
		}
	}

	return cases
}

// TestRefactorDemo_BracketGroup applies the bracket-group combinators and the whole parser to many inputs and
// compares the complete outcome (result structure, positions, remaining input, sequence of mapper calls) to fixed values.
func TestRefactorDemo_BracketGroup(t *testing.T) {
	cases := demoCases(t)

	if path := os.Getenv("REFACTOR_DEMO_GENERATE"); path != "" {
		var b strings.Builder
		for _, tc := range cases {
			fmt.Fprintf(&b, "\t%q,\n", demoRun(tc.part, tc.in))
		}
		if err := os.WriteFile(path, []byte(b.String()), 0o644); err != nil {
			t.Fatal(err)
		}
		return
	}

	var accepted, rejected int
	for i, tc := range cases {
		got := demoRun(tc.part, tc.in)
		if got != tc.want {
			t.Errorf("case %d: %s(%q)\n got: %s\nwant: %s", i, tc.part, tc.in, got, tc.want)
		}
		if strings.HasPrefix(got, "REJECT") {
			rejected++
		} else {
			accepted++
		}
	}

	// The table must exercise both outcomes substantially.
	if accepted < 100 || rejected < 60 {
		t.Errorf("accepted %d, rejected %d", accepted, rejected)
	}
}

// TestRefactorDemo_WholeSentence pins the part of the property that is decided in this package:
// a bracket group is accepted only if the whole text is consumed, and never by dropping a suffix.
func TestRefactorDemo_WholeSentence(t *testing.T) {
	accept := []string{`[a]`, `[^a-z]`, `[a-z0-9_]+`, `[z-a]`, `[]-a]`, `[[:digit:]\p{Lu}\x41-\x5A\x0041]`, `[.-0]`, `[-a]`, `[a-]]`}
	// `[a-]` is rejected because `a-]` is read as a range, after which the closing bracket is missing.
	reject := []string{`[a-]`, `[a]]`, `[a`, `[a-z`, `[]`, `[^]`, `[.]`, `[\t]`, `[\x4a]`, `[[:foo:]]`, `[\p{Foo}]`, "[é]", `[a]{`, `[a]{2,1`, `a]`, `[[]`}

	for _, s := range accept {
		out, ok := New(new(demoMappers)).Parse(s)
		if !ok || out.Remaining != nil {
			t.Errorf("%q: expected to be accepted as a whole", s)
		}
	}

	for _, s := range reject {
		if out, ok := New(new(demoMappers)).Parse(s); ok || out.Remaining != nil || out.Result.Val != nil {
			t.Errorf("%q: expected to be rejected with an empty output", s)
		}
	}
}

// TestRefactorDemo_HexMappers calls the mappers of the hex escapes directly, with and without absent optional digits.
func TestRefactorDemo_HexMappers(t *testing.T) {
	hex := func(pos int, digits ...any) comb.Result {
		l := comb.List{{Val: `\x`, Pos: pos}}
		for i, d := range digits {
			if d == nil {
				l = append(l, comb.Result{Val: comb.Empty{}})
			} else {
				l = append(l, comb.Result{Val: d, Pos: pos + 2 + i})
			}
		}
		return comb.Result{Val: l, Pos: pos}
	}

	ascii := []struct {
		r    comb.Result
		want comb.Result
	}{
		{hex(0, 0x0, 0x0), comb.Result{Val: rune(0x00), Pos: 0}},
		{hex(1, 0x4, 0xD), comb.Result{Val: 'M', Pos: 1}},
		{hex(7, 0x7, 0xF), comb.Result{Val: rune(0x7F), Pos: 7}},
		{hex(3, 0xF, 0xF), comb.Result{Val: rune(0xFF), Pos: 3}},
		{hex(5, 0xA, 0x0), comb.Result{Val: rune(0xA0), Pos: 5}},
	}
	for i, tc := range ascii {
		got, ok := toASCIIChar(tc.r)
		if !ok || got.Val != tc.want.Val || got.Pos != tc.want.Pos || got.Bag != nil {
			t.Errorf("toASCIIChar case %d: got %v %v, want %v", i, got, ok, tc.want)
		}
	}

	unicode := []struct {
		r    comb.Result
		want comb.Result
	}{
		{hex(0, 0, 0, 4, 1, nil, nil, nil, nil), comb.Result{Val: 'A', Pos: 0}},
		{hex(1, 0, 1, 0xA, 9), comb.Result{Val: 'Ʃ', Pos: 1}},
		{hex(2, 1, 0xF, 6, 0, 0, nil, nil, nil), comb.Result{Val: rune(0x1F600), Pos: 2}},
		{hex(3, 1, 0, 0xF, 0xF, 0xF, 0xF, nil, nil), comb.Result{Val: rune(0x10FFFF), Pos: 3}},
		{hex(4, 0, 0, 1, 0, 0xF, 0xF, 0xF, 0xF), comb.Result{Val: rune(0x10FFFF), Pos: 4}},
		{hex(5, 7, 0xF, 0xF, 0xF, 0xF, 0xF, 0xF, 0xF), comb.Result{Val: rune(0x7FFFFFFF), Pos: 5}},
		{hex(6, 8, 0, 0, 0, 0, 0, 0, 0), comb.Result{Val: rune(-0x80000000), Pos: 6}},
		{hex(7, 0xF, 0xF, 0xF, 0xF, 0xF, 0xF, 0xF, 0xF), comb.Result{Val: rune(-1), Pos: 7}},
		{hex(8, 0, 0, 0, 0, nil, nil, nil, nil), comb.Result{Val: rune(0), Pos: 8}},
		{hex(9, 1, 2, 3, 4, nil, 5, nil, 6), comb.Result{Val: rune(0x123456), Pos: 9}},
	}
	for i, tc := range unicode {
		got, ok := toUnicodeChar(tc.r)
		if !ok || got.Val != tc.want.Val || got.Pos != tc.want.Pos || got.Bag != nil {
			t.Errorf("toUnicodeChar case %d: got %v %v, want %v", i, got, ok, tc.want)
		}
	}
}

// TestRefactorDemo_Independent checks that two parsers do not share state through the combinators of the bracket group
// and that a parser can be reused.
func TestRefactorDemo_Independent(t *testing.T) {
	m1, m2 := new(demoMappers), new(demoMappers)
	p1, p2 := New(m1), New(m2)

	out1, ok1 := p1.Parse(`[a-c]`)
	n1 := len(m1.log)
	out2, ok2 := p2.Parse(`[^xy]`)

	if !ok1 || !ok2 {
		t.Fatal("both must be accepted")
	}
	if len(m1.log) != n1 {
		t.Errorf("parsing with the second parser called the mappers of the first")
	}
	if demoRender(out1.Result) == demoRender(out2.Result) {
		t.Errorf("different inputs, same result")
	}

	again, ok := p1.Parse(`[a-c]`)
	if !ok || demoRender(again.Result) != demoRender(out1.Result) {
		t.Errorf("parsing the same input again gave %s, first %s", demoRender(again.Result), demoRender(out1.Result))
	}
}

// demoGolden holds the outcomes recorded from the code before the refactoring, in the order of demoInputs.
var demoGolden = []string{
	"'\\\\'#92@0 rest=none calls=0 log=811c9dc5",
	"'|'#124@0 rest=none calls=0 log=811c9dc5",
	"'.'#46@0 rest=none calls=0 log=811c9dc5",
	"'?'#63@0 rest=none calls=0 log=811c9dc5",
	"'*'#42@0 rest=none calls=0 log=811c9dc5",
	"'+'#43@0 rest=none calls=0 log=811c9dc5",
	"'('#40@0 rest=none calls=0 log=811c9dc5",
	"')'#41@0 rest=none calls=0 log=811c9dc5",
	"'['#91@0 rest=none calls=0 log=811c9dc5",
	"']'#93@0 rest=none calls=0 log=811c9dc5",
	"'{'#123@0 rest=none calls=0 log=811c9dc5",
	"'}'#125@0 rest=none calls=0 log=811c9dc5",
	"'$'#36@0 rest=none calls=0 log=811c9dc5",
	"REJECT calls=0 log=811c9dc5",
	"REJECT calls=0 log=811c9dc5",
	"REJECT calls=0 log=811c9dc5",
	"REJECT calls=0 log=811c9dc5",
	"REJECT calls=0 log=811c9dc5",
	"REJECT calls=0 log=811c9dc5",
	"REJECT calls=0 log=811c9dc5",
	"'\\x00'#0@0 rest=none calls=0 log=811c9dc5",
	"'A'#65@0 rest=none calls=0 log=811c9dc5",
	"'\\x7f'#127@0 rest=none calls=0 log=811c9dc5",
	"'ÿ'#255@0 rest=none calls=0 log=811c9dc5",
	"'M'#77@0 rest=none calls=0 log=811c9dc5",
	"REJECT calls=0 log=811c9dc5",
	"REJECT calls=0 log=811c9dc5",
	"REJECT calls=0 log=811c9dc5",
	"REJECT calls=0 log=811c9dc5",
	"REJECT calls=0 log=811c9dc5",
	"'A'#65@0 rest=4 calls=0 log=811c9dc5",
	"REJECT calls=0 log=811c9dc5",
	"REJECT calls=0 log=811c9dc5",
	"'A'#65@0 rest=none calls=0 log=811c9dc5",
	"'Ʃ'#425@0 rest=none calls=0 log=811c9dc5",
	"'😀'#128512@0 rest=none calls=0 log=811c9dc5",
	"'\\U0010ffff'#1114111@0 rest=none calls=0 log=811c9dc5",
	"'\\U0010ffff'#1114111@0 rest=none calls=0 log=811c9dc5",
	"'�'#2147483647@0 rest=none calls=0 log=811c9dc5",
	"'�'#-2147483648@0 rest=none calls=0 log=811c9dc5",
	"'�'#-1@0 rest=none calls=0 log=811c9dc5",
	"'�'#-1@0 rest=10 calls=0 log=811c9dc5",
	"'\\x00'#0@0 rest=none calls=0 log=811c9dc5",
	"'\\x00'#0@0 rest=none calls=0 log=811c9dc5",
	"REJECT calls=0 log=811c9dc5",
	"REJECT calls=0 log=811c9dc5",
	"'A'#65@0 rest=6 calls=0 log=811c9dc5",
	"'Б'#1041@0 rest=none calls=0 log=811c9dc5",
	"REJECT calls=0 log=811c9dc5",
	"'�'#305419896@0 rest=none calls=0 log=811c9dc5",
	"'�'#305419896@0 rest=10 calls=0 log=811c9dc5",
	"InRange('a'#97@0)@0 rest=none calls=1 log=170f86dc",
	"InRange('-'#45@0)@0 rest=none calls=1 log=cd3af30f",
	"InRange(']'#93@0)@0 rest=none calls=1 log=c89c2454",
	"InRange('['#91@0)@0 rest=none calls=1 log=33cbf358",
	"InRange('\\\\'#92@0)@0 rest=none calls=1 log=6523f478",
	"InRange('^'#94@0)@0 rest=none calls=1 log=cf4fcdec",
	"InRange(' '#32@0)@0 rest=none calls=1 log=831b9486",
	"InRange('~'#126@0)@0 rest=none calls=1 log=6a8475c6",
	"REJECT calls=0 log=811c9dc5",
	"REJECT calls=0 log=811c9dc5",
	"REJECT calls=0 log=811c9dc5",
	"REJECT calls=0 log=811c9dc5",
	"InRange('A'#65@0)@0 rest=none calls=1 log=40795f9d",
	"InRange('A'#65@0)@0 rest=none calls=1 log=40795f9d",
	"InRange('😀'#128512@0)@0 rest=none calls=1 log=ae0eadf5",
	"InRange('\\\\'#92@0)@0 rest=1 calls=1 log=6523f478",
	"InRange('\\\\'#92@0)@0 rest=1 calls=1 log=6523f478",
	"InRange('\\\\'#92@0)@0 rest=1 calls=1 log=6523f478",
	"InRange('\\\\'#92@0)@0 rest=1 calls=1 log=6523f478",
	"CharRange([InRange('a'#97@0)@0 '-'#45@1 InRange('z'#122@2)@2]@0)@0 rest=none calls=3 log=523f4237",
	"CharRange([InRange('z'#122@0)@0 '-'#45@1 InRange('a'#97@2)@2]@0)@0 rest=none calls=3 log=71a11c0f",
	"CharRange([InRange('a'#97@0)@0 '-'#45@1 InRange('a'#97@2)@2]@0)@0 rest=none calls=3 log=350ff4d7",
	"CharRange([InRange('0'#48@0)@0 '-'#45@1 InRange('9'#57@2)@2]@0)@0 rest=none calls=3 log=c4804ab5",
	"REJECT calls=1 log=170f86dc",
	"REJECT calls=1 log=170f86dc",
	"REJECT calls=1 log=cd3af30f",
	"CharRange([InRange('a'#97@0)@0 '-'#45@1 InRange('z'#122@2)@2]@0)@0 rest=3 calls=3 log=523f4237",
	"CharRange([InRange('-'#45@0)@0 '-'#45@1 InRange('-'#45@2)@2]@0)@0 rest=3 calls=3 log=519f8705",
	"CharRange([InRange('A'#65@0)@0 '-'#45@4 InRange('Z'#90@5)@5]@0)@0 rest=none calls=3 log=be4d9c5f",
	"CharRange([InRange('A'#65@0)@0 '-'#45@6 InRange('Z'#90@7)@7]@0)@0 rest=none calls=3 log=d1222577",
	"CharRange([InRange('A'#65@0)@0 '-'#45@4 InRange('Z'#90@5)@5]@0)@0 rest=none calls=3 log=be4d9c5f",
	"CharRange([InRange('A'#65@0)@0 '-'#45@1 InRange('Z'#90@2)@2]@0)@0 rest=none calls=3 log=3a126f89",
	"CharRange([InRange('😀'#128512@0)@0 '-'#45@7 InRange('🙏'#128591@8)@8]@0)@0 rest=none calls=3 log=f7a3e469",
	"CharRange([InRange(']'#93@0)@0 '-'#45@1 InRange('a'#97@2)@2]@0)@0 rest=none calls=3 log=786e8657",
	"CharRange([InRange('['#91@0)@0 '-'#45@1 InRange(']'#93@2)@2]@0)@0 rest=none calls=3 log=9af6ca9f",
	"CharRange([InRange('.'#46@0)@0 '-'#45@1 InRange('0'#48@2)@2]@0)@0 rest=none calls=3 log=bc3c504d",
	"CharRange([InRange('a'#97@0)@0 '-'#45@1 InRange('\\\\'#92@2)@2]@0)@0 rest=3 calls=3 log=e4f9570b",
	"CharRange([InRange('\\\\'#92@0)@0 '-'#45@1 InRange(']'#93@2)@2]@0)@0 rest=none calls=3 log=a770b0df",
	"REJECT calls=1 log=170f86dc",
	"CharRange([InRange('a'#97@0)@0 '-'#45@1 InRange('-'#45@2)@2]@0)@0 rest=none calls=3 log=9e1609db",
	"CharRange([InRange(' '#32@0)@0 '-'#45@1 InRange('~'#126@2)@2]@0)@0 rest=none calls=3 log=f3584653",
	"REJECT calls=1 log=170f86dc",
	"CharRange([InRange('\\x00'#0@0)@0 '-'#45@4 InRange('ÿ'#255@5)@5]@0)@0 rest=none calls=3 log=120dbca3",
	"CharRange([InRange('�'#-1@0)@0 '-'#45@10 InRange('\\x00'#0@11)@11]@0)@0 rest=none calls=3 log=f00e5c01",
	"Item(Single('a'#97@0)@0)@0 rest=none calls=3 log=52b42888",
	"Item(Single('a'#97@0)@0)@0 rest=1 calls=3 log=52b42888",
	"Item(CharRange([InRange('a'#97@0)@0 '-'#45@1 InRange('z'#122@2)@2]@0)@0)@0 rest=none calls=4 log=42ce2527",
	"Item(Single('a'#97@0)@0)@0 rest=1 calls=3 log=52b42888",
	"Item(Single('-'#45@0)@0)@0 rest=none calls=3 log=4df20427",
	"Item(Single('-'#45@0)@0)@0 rest=1 calls=3 log=4df20427",
	"Item(Class(\"\\\\d\"@0)@0)@0 rest=none calls=2 log=27cf9c59",
	"Item(Class(\"\\\\D\"@0)@0)@0 rest=none calls=2 log=04f00f19",
	"Item(Class(\"\\\\s\"@0)@0)@0 rest=none calls=2 log=7a35b3ad",
	"Item(Class(\"\\\\S\"@0)@0)@0 rest=none calls=2 log=0afb93ed",
	"Item(Class(\"\\\\w\"@0)@0)@0 rest=none calls=2 log=44f0bab5",
	"Item(Class(\"\\\\W\"@0)@0)@0 rest=none calls=2 log=542edd75",
	"Item(Class(\"\\\\w\"@0)@0)@0 rest=2 calls=2 log=44f0bab5",
	"Item(ASCIIClass(\"[:alpha:]\"@0)@0)@0 rest=none calls=2 log=9d5a4707",
	"Item(ASCIIClass(\"[:alpha:]\"@0)@0)@0 rest=9 calls=2 log=9d5a4707",
	"REJECT calls=1 log=33cbf358",
	"REJECT calls=1 log=33cbf358",
	"Item(UniClass([\"\\\\p\"@0 '{'#123@2 Cat(\"Lu\"@3)@3 '}'#125@5]@0)@0)@0 rest=none calls=3 log=fa8d000c",
	"Item(UniClass([\"\\\\P\"@0 '{'#123@2 Cat(\"Greek\"@3)@3 '}'#125@8]@0)@0)@0 rest=none calls=3 log=fddc9bd5",
	"REJECT calls=1 log=6523f478",
	"Item(UniClass([\"\\\\p\"@0 '{'#123@2 Cat(\"L\"@3)@3 '}'#125@4]@0)@0)@0 rest=none calls=3 log=825e65b9",
	"Item(UniClass([\"\\\\p\"@0 '{'#123@2 Cat(\"Letter\"@3)@3 '}'#125@9]@0)@0)@0 rest=none calls=3 log=bea167cf",
	"REJECT calls=1 log=6523f478",
	"Item(Single('A'#65@0)@0)@0 rest=none calls=3 log=3660d8d1",
	"Item(Single('A'#65@0)@0)@0 rest=none calls=3 log=3660d8d1",
	"Item(CharRange([InRange('A'#65@0)@0 '-'#45@4 InRange('Z'#90@5)@5]@0)@0)@0 rest=none calls=4 log=1c2ef589",
	"Item(Single('.'#46@0)@0)@0 rest=none calls=3 log=c8745fac",
	"Item(Single(']'#93@0)@0)@0 rest=none calls=3 log=1e4c398c",
	"Item(Single('['#91@0)@0)@0 rest=none calls=3 log=2c3ff024",
	"Item(Single('\\\\'#92@0)@0)@0 rest=none calls=3 log=4f31f678",
	"Item(Single('\\\\'#92@0)@0)@0 rest=2 calls=3 log=4f31f678",
	"REJECT calls=1 log=654c61e3",
	"REJECT calls=1 log=c89c2454",
	"REJECT calls=1 log=33cbf358",
	"Item(CharRange([InRange('.'#46@0)@0 '-'#45@1 InRange('0'#48@2)@2]@0)@0)@0 rest=none calls=4 log=14251cc5",
	"Item(CharRange([InRange(']'#93@0)@0 '-'#45@1 InRange('a'#97@2)@2]@0)@0)@0 rest=none calls=4 log=bc10905d",
	"Item(CharRange([InRange('['#91@0)@0 '-'#45@1 InRange('a'#97@2)@2]@0)@0)@0 rest=none calls=4 log=06b8aa01",
	"REJECT calls=1 log=6523f478",
	"REJECT calls=1 log=6523f478",
	"Item(Single('^'#94@0)@0)@0 rest=none calls=3 log=f04762f0",
	"Item(CharRange([InRange('^'#94@0)@0 '-'#45@1 InRange('a'#97@2)@2]@0)@0)@0 rest=none calls=4 log=328d1c3d",
	"REJECT calls=0 log=811c9dc5",
	"REJECT calls=0 log=811c9dc5",
	"REJECT calls=1 log=a1d9af2e",
	"Item(CharRange([InRange('$'#36@0)@0 '-'#45@1 InRange('%'#37@2)@2]@0)@0)@0 rest=none calls=4 log=a96f48a5",
	"Item(CharRange([InRange('('#40@0)@0 '-'#45@1 InRange(')'#41@2)@2]@0)@0)@0 rest=none calls=4 log=87b800e1",
	"REJECT calls=1 log=00382f14",
	"REJECT calls=1 log=3e4b5856",
	"Item(CharRange([InRange('*'#42@0)@0 '-'#45@1 InRange('+'#43@2)@2]@0)@0)@0 rest=none calls=4 log=cbfc1bb9",
	"Group(['['#91@0 e@0 [Item(Single('a'#97@1)@1)@1]@1 ']'#93@2]@0)@0 rest=none calls=5 log=e775f603",
	"Group(['['#91@0 '^'#94@1 [Item(Single('a'#97@2)@2)@2]@2 ']'#93@3]@0)@0 rest=none calls=5 log=7427b8b3",
	"Group(['['#91@0 e@0 [Item(Single('a'#97@1)@1)@1 Item(Single('b'#98@2)@2)@2]@1 ']'#93@3]@0)@0 rest=none calls=8 log=d1a99151",
	"Group(['['#91@0 e@0 [Item(CharRange([InRange('a'#97@1)@1 '-'#45@2 InRange('z'#122@3)@3]@1)@1)@1]@1 ']'#93@4]@0)@0 rest=none calls=6 log=aff94d0f",
	"Group(['['#91@0 '^'#94@1 [Item(CharRange([InRange('a'#97@2)@2 '-'#45@3 InRange('z'#122@4)@4]@2)@2)@2 Item(CharRange([InRange('0'#48@5)@5 '-'#45@6 InRange('9'#57@7)@7]@5)@5)@5]@2 ']'#93@8]@0)@0 rest=none calls=10 log=bccb5914",
	"Group(['['#91@0 e@0 [Item(CharRange([InRange('z'#122@1)@1 '-'#45@2 InRange('a'#97@3)@3]@1)@1)@1]@1 ']'#93@4]@0)@0 rest=none calls=6 log=23b1c4db",
	"REJECT calls=4 log=1e796216",
	"Group(['['#91@0 e@0 [Item(Single('-'#45@1)@1)@1 Item(Single('a'#97@2)@2)@2]@1 ']'#93@3]@0)@0 rest=none calls=8 log=03bb5eaf",
	"Group(['['#91@0 e@0 [Item(Single('-'#45@1)@1)@1]@1 ']'#93@2]@0)@0 rest=none calls=5 log=676a7e9d",
	"Group(['['#91@0 e@0 [Item(CharRange([InRange('a'#97@1)@1 '-'#45@2 InRange('b'#98@3)@3]@1)@1)@1 Item(Single('-'#45@4)@4)@4 Item(Single('c'#99@5)@5)@5]@1 ']'#93@6]@0)@0 rest=none calls=12 log=c39fc590",
	"REJECT calls=1 log=d5ba65db",
	"REJECT calls=1 log=9a911e96",
	"REJECT calls=1 log=d5ba65db",
	"REJECT calls=1 log=9a911e96",
	"Group(['['#91@0 e@0 [Item(CharRange([InRange(']'#93@1)@1 '-'#45@2 InRange('a'#97@3)@3]@1)@1)@1]@1 ']'#93@4]@0)@0 rest=none calls=6 log=8d84bbb3",
	"Group(['['#91@0 e@0 [Item(CharRange([InRange('a'#97@1)@1 '-'#45@2 InRange(']'#93@3)@3]@1)@1)@1]@1 ']'#93@4]@0)@0 rest=none calls=6 log=558a7bc3",
	"REJECT calls=3 log=573f819c",
	"REJECT calls=4 log=c908ea1e",
	"REJECT calls=0 log=811c9dc5",
	"REJECT calls=0 log=811c9dc5",
	"REJECT calls=0 log=811c9dc5",
	"REJECT calls=0 log=811c9dc5",
	"REJECT calls=0 log=811c9dc5",
	"Group(['['#91@0 e@0 [Item(ASCIIClass(\"[:alpha:]\"@1)@1)@1]@1 ']'#93@10]@0)@0 rest=none calls=4 log=d05a7ff8",
	"Group(['['#91@0 e@0 [Item(ASCIIClass(\"[:alpha:]\"@1)@1)@1 Item(CharRange([InRange('0'#48@10)@10 '-'#45@11 InRange('9'#57@12)@12]@10)@10)@10 Item(Single('_'#95@13)@13)@13]@1 ']'#93@14]@0)@0 rest=none calls=11 log=f087d66d",
	"Group(['['#91@0 '^'#94@1 [Item(ASCIIClass(\"[:digit:]\"@2)@2)@2 Item(ASCIIClass(\"[:upper:]\"@11)@11)@11]@2 ']'#93@20]@0)@0 rest=none calls=6 log=daeac620",
	"REJECT calls=1 log=30ea1baf",
	"Group(['['#91@0 e@0 [Item(Single(':'#58@1)@1)@1 Item(Single('a'#97@2)@2)@2 Item(Single('l'#108@3)@3)@3 Item(Single('p'#112@4)@4)@4 Item(Single('h'#104@5)@5)@5 Item(Single('a'#97@6)@6)@6 Item(Single(':'#58@7)@7)@7]@1 ']'#93@8]@0)@0 rest=none calls=23 log=3ef466de",
	"Group(['['#91@0 e@0 [Item(Class(\"\\\\d\"@1)@1)@1 Item(Class(\"\\\\s\"@3)@3)@3]@1 ']'#93@5]@0)@0 rest=none calls=6 log=6fefae91",
	"Group(['['#91@0 e@0 [Item(UniClass([\"\\\\p\"@1 '{'#123@3 Cat(\"Lu\"@4)@4 '}'#125@6]@1)@1)@1 Item(UniClass([\"\\\\P\"@7 '{'#123@9 Cat(\"Greek\"@10)@10 '}'#125@15]@7)@7)@7]@1 ']'#93@16]@0)@0 rest=none calls=8 log=58ae787f",
	"REJECT calls=1 log=62421ccf",
	"Group(['['#91@0 e@0 [Item(CharRange([InRange('A'#65@1)@1 '-'#45@5 InRange('Z'#90@6)@6]@1)@1)@1]@1 ']'#93@10]@0)@0 rest=none calls=6 log=724ec993",
	"Group(['['#91@0 e@0 [Item(CharRange([InRange('A'#65@1)@1 '-'#45@7 InRange('Z'#90@8)@8]@1)@1)@1]@1 ']'#93@14]@0)@0 rest=none calls=6 log=17357713",
	"Group(['['#91@0 e@0 [Item(Single('A'#65@1)@1)@1]@1 ']'#93@11]@0)@0 rest=none calls=5 log=0217bae9",
	"REJECT calls=1 log=62421ccf",
	"Group(['['#91@0 e@0 [Item(Single('A'#65@1)@1)@1 Item(Single('F'#70@5)@5)@5]@1 ']'#93@6]@0)@0 rest=none calls=8 log=65baa2b6",
	"REJECT calls=1 log=62421ccf",
	"Group(['['#91@0 e@0 [Item(Single('.'#46@1)@1)@1 Item(Single(']'#93@3)@3)@3 Item(Single('['#91@5)@5)@5]@1 ']'#93@7]@0)@0 rest=none calls=11 log=3657ca10",
	"Group(['['#91@0 e@0 [Item(Single('\\\\'#92@1)@1)@1 Item(Single('-'#45@3)@3)@3 Item(Single(']'#93@4)@4)@4]@1 ']'#93@6]@0)@0 rest=none calls=11 log=7421fa32",
	"REJECT calls=1 log=d78f861c",
	"Group(['['#91@0 e@0 [Item(CharRange([InRange('.'#46@1)@1 '-'#45@2 InRange('0'#48@3)@3]@1)@1)@1]@1 ']'#93@4]@0)@0 rest=none calls=6 log=6f8a608d",
	"Group(['['#91@0 '^'#94@1 [Item(Single('^'#94@2)@2)@2]@2 ']'#93@3]@0)@0 rest=none calls=5 log=42fffd9b",
	"Group(['['#91@0 '^'#94@1 [Item(CharRange([InRange('^'#94@2)@2 '-'#45@3 InRange('a'#97@4)@4]@2)@2)@2]@2 ']'#93@5]@0)@0 rest=none calls=6 log=ab04ecbf",
	"Group(['['#91@0 e@0 [Item(Single('a'#97@1)@1)@1 Item(Single('^'#94@2)@2)@2]@1 ']'#93@3]@0)@0 rest=none calls=8 log=86f86f51",
	"Group(['['#91@0 e@0 [Item(CharRange([InRange(' '#32@1)@1 '-'#45@2 InRange('~'#126@3)@3]@1)@1)@1]@1 ']'#93@4]@0)@0 rest=none calls=6 log=419e8a3b",
	"REJECT calls=1 log=62421ccf",
	"REJECT calls=0 log=811c9dc5",
	"REJECT calls=6 log=3436be36",
	"Group(['['#91@0 e@0 [Item(Single('a'#97@1)@1)@1]@1 ']'#93@2]@0)@0 rest=3 calls=5 log=e775f603",
	"Group(['['#91@0 e@0 [Item(Single('a'#97@1)@1)@1]@1 ']'#93@2]@0)@0 rest=3 calls=5 log=e775f603",
	"Group(['['#91@0 e@0 [Item(Single('a'#97@1)@1)@1]@1 ']'#93@2]@0)@0 rest=3 calls=5 log=e775f603",
	"REJECT calls=1 log=30ea1baf",
	"Group(['['#91@0 e@0 [Item(CharRange([InRange('['#91@1)@1 '-'#45@2 InRange('a'#97@3)@3]@1)@1)@1]@1 ']'#93@4]@0)@0 rest=none calls=6 log=03a4c2d3",
	"Group(['['#91@0 e@0 [Item(ASCIIClass(\"[:alpha:]\"@1)@1)@1 Item(Single('-'#45@10)@10)@10 Item(Single('z'#122@11)@11)@11]@1 ']'#93@12]@0)@0 rest=none calls=10 log=c3df4081",
	"Group(['['#91@0 e@0 [Item(Class(\"\\\\w\"@1)@1)@1 Item(Single('-'#45@3)@3)@3 Item(Single('z'#122@4)@4)@4]@1 ']'#93@5]@0)@0 rest=none calls=10 log=51a08555",
	"Group(['['#91@0 e@0 [Item(CharRange([InRange('a'#97@1)@1 '-'#45@2 InRange('\\\\'#92@3)@3]@1)@1)@1 Item(Single('d'#100@4)@4)@4]@1 ']'#93@5]@0)@0 rest=none calls=9 log=fbda3a3f",
	"Group(['['#91@0 e@0 [Item(CharRange([InRange('A'#65@1)@1 '-'#45@2 InRange('Z'#90@3)@3]@1)@1)@1]@1 ']'#93@7]@0)@0 rest=none calls=6 log=a1702e0b",
	"Group(['['#91@0 e@0 [Item(CharRange([InRange('\\x00'#0@1)@1 '-'#45@5 InRange('ÿ'#255@6)@6]@1)@1)@1]@1 ']'#93@10]@0)@0 rest=none calls=6 log=93b8ee7b",
	"Group(['['#91@0 e@0 [Item(Single('�'#-1@1)@1)@1]@1 ']'#93@11]@0)@0 rest=none calls=5 log=ea00e8bd",
	"Group(['['#91@0 e@0 [Item(Single('�'#-1@1)@1)@1 Item(Single('F'#70@11)@11)@11]@1 ']'#93@12]@0)@0 rest=none calls=8 log=ca6b74a1",
	"REJECT calls=4 log=13229d67",
	"REJECT calls=1 log=462f96a0",
	"REJECT calls=4 log=33c44d3c",
	"REJECT calls=4 log=affc9c9c",
	"REJECT calls=4 log=c28499de",
	"REJECT calls=1 log=0d56709b",
	"REJECT calls=1 log=ff1f7e15",
	"Group(['['#91@0 e@0 [Item(CharRange([InRange('a'#97@1)@1 '-'#45@2 InRange('z'#122@3)@3]@1)@1)@1]@1 ']'#93@4]@0)@0 rest=5 calls=6 log=aff94d0f",
	"Group(['['#91@0 '^'#94@1 [Item(CharRange([InRange('\\x00'#0@2)@2 '-'#45@6 InRange('\\x1f'#31@7)@7]@2)@2)@2]@2 ']'#93@11]@0)@0 rest=none calls=6 log=a9201b45",
	"Group(['['#91@0 e@0 [Item(CharRange([InRange('😀'#128512@1)@1 '-'#45@8 InRange('🙏'#128591@9)@9]@1)@1)@1]@1 ']'#93@16]@0)@0 rest=none calls=6 log=3f8846c5",
	"Group(['['#91@0 e@0 [Item(CharRange([InRange('a'#97@1)@1 '-'#45@2 InRange('z'#122@3)@3]@1)@1)@1 Item(CharRange([InRange('A'#65@4)@4 '-'#45@5 InRange('Z'#90@6)@6]@4)@4)@4 Item(CharRange([InRange('0'#48@7)@7 '-'#45@8 InRange('9'#57@9)@9]@7)@7)@7 Item(Single('_'#95@10)@10)@10]@1 ']'#93@11]@0)@0 rest=none calls=17 log=de941f3d",
	"REJECT calls=3 log=5ec5225c",
	"Group(['['#91@0 '^'#94@1 [Item(Single('-'#45@2)@2)@2]@2 ']'#93@3]@0)@0 rest=none calls=5 log=d4f844fb",
	"REJECT calls=4 log=400904f7",
	"Group(['['#91@0 e@0 [Item(CharRange([InRange('-'#45@1)@1 '-'#45@2 InRange('-'#45@3)@3]@1)@1)@1]@1 ']'#93@4]@0)@0 rest=none calls=6 log=adf2f5c5",
	"Regex([e@0 Expr([Sub([SubItem(Match([MatchItem(Group(['['#91@0 e@0 [Item(Single('a'#97@1)@1)@1]@1 ']'#93@2]@0)@0)@0 e@0]@0)@0)@0]@0)@0 e@0]@0)@0]@0)@0 rest=none calls=11 log=04273eb2",
	"Regex([e@0 Expr([Sub([SubItem(Match([MatchItem(Group(['['#91@0 '^'#94@1 [Item(Single('a'#97@2)@2)@2]@2 ']'#93@3]@0)@0)@0 e@0]@0)@0)@0]@0)@0 e@0]@0)@0]@0)@0 rest=none calls=11 log=6d5fbfa8",
	"Regex([e@0 Expr([Sub([SubItem(Match([MatchItem(Group(['['#91@0 e@0 [Item(CharRange([InRange('a'#97@1)@1 '-'#45@2 InRange('z'#122@3)@3]@1)@1)@1]@1 ']'#93@4]@0)@0)@0 e@0]@0)@0)@0]@0)@0 e@0]@0)@0]@0)@0 rest=none calls=12 log=18190c32",
	"Regex([e@0 Expr([Sub([SubItem(Match([MatchItem(Group(['['#91@0 e@0 [Item(CharRange([InRange('z'#122@1)@1 '-'#45@2 InRange('a'#97@3)@3]@1)@1)@1]@1 ']'#93@4]@0)@0)@0 e@0]@0)@0)@0]@0)@0 e@0]@0)@0]@0)@0 rest=none calls=12 log=2e44e18e",
	"Regex([e@0 Expr([Sub([SubItem(Match([MatchItem(Group(['['#91@0 e@0 [Item(CharRange([InRange('a'#97@1)@1 '-'#45@2 InRange('z'#122@3)@3]@1)@1)@1]@1 ']'#93@4]@0)@0)@0 Quant([Rep(RepOp('+'#43@5)@5)@5 e@0]@5)@5]@0)@0)@0]@0)@0 e@0]@0)@0]@0)@0 rest=none calls=15 log=9e485d23",
	"Regex([e@0 Expr([Sub([SubItem(Match([MatchItem(Group(['['#91@0 e@0 [Item(CharRange([InRange('a'#97@1)@1 '-'#45@2 InRange('z'#122@3)@3]@1)@1)@1]@1 ']'#93@4]@0)@0)@0 Quant([Rep(RepOp('*'#42@5)@5)@5 '?'#63@6]@5)@5]@0)@0)@0]@0)@0 e@0]@0)@0]@0)@0 rest=none calls=15 log=833bcd8b",
	"Regex([e@0 Expr([Sub([SubItem(Match([MatchItem(Group(['['#91@0 e@0 [Item(CharRange([InRange('a'#97@1)@1 '-'#45@2 InRange('z'#122@3)@3]@1)@1)@1]@1 ']'#93@4]@0)@0)@0 Quant([Rep(Range(['{'#123@5 2@6 Upper([','#44@7 3@8]@7)@7 '}'#125@9]@5)@5)@5 e@0]@5)@5]@0)@0)@0]@0)@0 e@0]@0)@0]@0)@0 rest=none calls=16 log=54e8820c",
	"Regex([e@0 Expr([Sub([SubItem(Match([MatchItem(Group(['['#91@0 e@0 [Item(CharRange([InRange('a'#97@1)@1 '-'#45@2 InRange('z'#122@3)@3]@1)@1)@1]@1 ']'#93@4]@0)@0)@0 Quant([Rep(Range(['{'#123@5 3@6 Upper([','#44@7 2@8]@7)@7 '}'#125@9]@5)@5)@5 e@0]@5)@5]@0)@0)@0]@0)@0 e@0]@0)@0]@0)@0 rest=none calls=16 log=5502a2d3",
	"Regex([e@0 Expr([Sub([SubItem(Match([MatchItem(Group(['['#91@0 e@0 [Item(CharRange([InRange('a'#97@1)@1 '-'#45@2 InRange('z'#122@3)@3]@1)@1)@1]@1 ']'#93@4]@0)@0)@0 Quant([Rep(Range(['{'#123@5 2@6 Upper([','#44@7 e@0]@7)@7 '}'#125@8]@5)@5)@5 '?'#63@9]@5)@5]@0)@0)@0]@0)@0 e@0]@0)@0]@0)@0 rest=none calls=16 log=f0ea4ef4",
	"Regex(['^'#94@0 Expr([Sub([SubItem(Match([MatchItem(Group(['['#91@1 e@0 [Item(CharRange([InRange('a'#97@2)@2 '-'#45@3 InRange('z'#122@4)@4]@2)@2)@2]@2 ']'#93@5]@1)@1)@1 e@0]@1)@1)@1 SubItem(Anchor('$'#36@6)@6)@6]@1)@1 e@0]@1)@1]@0)@0 rest=none calls=14 log=794c2bae",
	"Regex([e@0 Expr([Sub([SubItem(Paren(['('#40@0 Expr([Sub([SubItem(Match([MatchItem(Group(['['#91@1 e@0 [Item(CharRange([InRange('a'#97@2)@2 '-'#45@3 InRange('z'#122@4)@4]@2)@2)@2]@2 ']'#93@5]@1)@1)@1 e@0]@1)@1)@1]@1)@1 ['|'#124@6 Expr([Sub([SubItem(Match([MatchItem(Group(['['#91@7 e@0 [Item(CharRange([InRange('0'#48@8)@8 '-'#45@9 InRange('9'#57@10)@10]@8)@8)@8]@8 ']'#93@11]@7)@7)@7 e@0]@7)@7)@7]@7)@7 e@0]@7)@7]@6]@1)@1 ')'#41@12 Quant([Rep(RepOp('*'#42@13)@13)@13 e@0]@13)@13]@0)@0)@0]@0)@0 e@0]@0)@0]@0)@0 rest=none calls=30 log=868f9177",
	"Regex([e@0 Expr([Sub([SubItem(Match([MatchItem(Group(['['#91@0 e@0 [Item(CharRange([InRange('a'#97@1)@1 '-'#45@2 InRange('z'#122@3)@3]@1)@1)@1 Item(CharRange([InRange('A'#65@4)@4 '-'#45@5 InRange('Z'#90@6)@6]@4)@4)@4 Item(Single('_'#95@7)@7)@7]@1 ']'#93@8]@0)@0)@0 e@0]@0)@0)@0 SubItem(Match([MatchItem(Group(['['#91@9 e@0 [Item(CharRange([InRange('a'#97@10)@10 '-'#45@11 InRange('z'#122@12)@12]@10)@10)@10 Item(CharRange([InRange('A'#65@13)@13 '-'#45@14 InRange('Z'#90@15)@15]@13)@13)@13 Item(CharRange([InRange('0'#48@16)@16 '-'#45@17 InRange('9'#57@18)@18]@16)@16)@16 Item(Single('_'#95@19)@19)@19]@10 ']'#93@20]@9)@9)@9 Quant([Rep(RepOp('*'#42@21)@21)@21 e@0]@21)@21]@9)@9)@9]@0)@0 e@0]@0)@0]@0)@0 rest=none calls=42 log=2bf5050d",
	"Regex([e@0 Expr([Sub([SubItem(Match([MatchItem(Single('\"'#34@0)@0)@0 e@0]@0)@0)@0 SubItem(Paren(['('#40@1 Expr([Sub([SubItem(Match([MatchItem(Group(['['#91@2 '^'#94@3 [Item(Single('\"'#34@4)@4)@4 Item(Single('\\\\'#92@5)@5)@5]@4 ']'#93@7]@2)@2)@2 e@0]@2)@2)@2]@2)@2 ['|'#124@8 Expr([Sub([SubItem(Match([MatchItem(Single('\\\\'#92@9)@9)@9 e@0]@9)@9)@9 SubItem(Match([MatchItem(Any('.'#46@11)@11)@11 e@0]@11)@11)@11]@9)@9 e@0]@9)@9]@8]@2)@2 ')'#41@12 Quant([Rep(RepOp('*'#42@13)@13)@13 e@0]@13)@13]@1)@1)@1 SubItem(Match([MatchItem(Single('\"'#34@14)@14)@14 e@0]@14)@14)@14]@0)@0 e@0]@0)@0]@0)@0 rest=none calls=39 log=b74cdefa",
	"REJECT calls=11 log=04273eb2",
	"REJECT calls=3 log=573f819c",
	"REJECT calls=7 log=38b0450f",
	"REJECT calls=1 log=d5ba65db",
	"REJECT calls=1 log=9a911e96",
	"Regex([e@0 Expr([Sub([SubItem(Match([MatchItem(Group(['['#91@0 e@0 [Item(CharRange([InRange(']'#93@1)@1 '-'#45@2 InRange('a'#97@3)@3]@1)@1)@1]@1 ']'#93@4]@0)@0)@0 e@0]@0)@0)@0]@0)@0 e@0]@0)@0]@0)@0 rest=none calls=12 log=f47d652c",
	"REJECT calls=1 log=d78f861c",
	"Regex([e@0 Expr([Sub([SubItem(Match([MatchItem(Group(['['#91@0 e@0 [Item(CharRange([InRange('.'#46@1)@1 '-'#45@2 InRange('0'#48@3)@3]@1)@1)@1]@1 ']'#93@4]@0)@0)@0 e@0]@0)@0)@0]@0)@0 e@0]@0)@0]@0)@0 rest=none calls=12 log=aae0b2fe",
	"Regex([e@0 Expr([Sub([SubItem(Match([MatchItem(Group(['['#91@0 e@0 [Item(ASCIIClass(\"[:alpha:]\"@1)@1)@1]@1 ']'#93@10]@0)@0)@0 e@0]@0)@0)@0]@0)@0 e@0]@0)@0]@0)@0 rest=none calls=10 log=6d31384f",
	"REJECT calls=2 log=72867286",
	"REJECT calls=10 log=6d31384f",
	"Regex([e@0 Expr([Sub([SubItem(Match([MatchItem(ASCIIClass(\"[:alpha:]\"@0)@0)@0 e@0]@0)@0)@0]@0)@0 e@0]@0)@0]@0)@0 rest=none calls=7 log=1694a668",
	"REJECT calls=9 log=3d75ec93",
	"Regex([e@0 Expr([Sub([SubItem(Match([MatchItem(Group(['['#91@0 e@0 [Item(CharRange([InRange('A'#65@1)@1 '-'#45@5 InRange('Z'#90@6)@6]@1)@1)@1]@1 ']'#93@10]@0)@0)@0 e@0]@0)@0)@0 SubItem(Match([MatchItem(Single('x'#120@11)@11)@11 e@0]@11)@11)@11]@0)@0 e@0]@0)@0]@0)@0 rest=none calls=16 log=cafe6278",
	"Regex([e@0 Expr([Sub([SubItem(Match([MatchItem(Group(['['#91@0 e@0 [Item(CharRange([InRange('A'#65@1)@1 '-'#45@7 InRange('Z'#90@8)@8]@1)@1)@1]@1 ']'#93@14]@0)@0)@0 Quant([Rep(RepOp('?'#63@15)@15)@15 e@0]@15)@15]@0)@0)@0]@0)@0 e@0]@0)@0]@0)@0 rest=none calls=15 log=6493a05f",
	"REJECT calls=1 log=62421ccf",
	"REJECT calls=1 log=62421ccf",
	"REJECT calls=0 log=811c9dc5",
	"REJECT calls=4 log=c908ea1e",
	"REJECT calls=12 log=18190c32",
	"REJECT calls=0 log=811c9dc5",
	"REJECT calls=12 log=18190c32",
	"REJECT calls=11 log=3763ac9b",
	"REJECT calls=12 log=18190c32",
	"REJECT calls=12 log=18190c32",
	"REJECT calls=12 log=18190c32",
	"REJECT calls=12 log=18190c32",
	"REJECT calls=13 log=98029846",
	"REJECT calls=15 log=2dc0a54b",
	"Regex([e@0 Expr([Sub([SubItem(Match([MatchItem(Group(['['#91@0 e@0 [Item(CharRange([InRange('a'#97@1)@1 '-'#45@2 InRange('z'#122@3)@3]@1)@1)@1]@1 ']'#93@4]@0)@0)@0 Quant([Rep(RepOp('+'#43@5)@5)@5 '?'#63@6]@5)@5]@0)@0)@0]@0)@0 e@0]@0)@0]@0)@0 rest=none calls=15 log=00e04ecb",
	"Regex([e@0 Expr([Sub([SubItem(Match([MatchItem(Group(['['#91@0 e@0 [Item(CharRange([InRange('a'#97@1)@1 '-'#45@2 InRange('z'#122@3)@3]@1)@1)@1]@1 ']'#93@4]@0)@0)@0 Quant([Rep(RepOp('?'#63@5)@5)@5 '?'#63@6]@5)@5]@0)@0)@0]@0)@0 e@0]@0)@0]@0)@0 rest=none calls=15 log=a37230eb",
	"REJECT calls=15 log=a37230eb",
	"Regex([e@0 Expr([Sub([SubItem(Match([MatchItem(Single('x'#120@0)@0)@0 e@0]@0)@0)@0 SubItem(Match([MatchItem(Group(['['#91@1 '^'#94@2 [Item(Single(']'#93@3)@3)@3]@3 ']'#93@5]@1)@1)@1 e@0]@1)@1)@1 SubItem(Match([MatchItem(Single('y'#121@6)@6)@6 e@0]@6)@6)@6]@0)@0 e@0]@0)@0]@0)@0 rest=none calls=19 log=5bc420da",
	"Regex([e@0 Expr([Sub([SubItem(Match([MatchItem(Group(['['#91@0 e@0 [Item(Single(']'#93@1)@1)@1]@1 ']'#93@3]@0)@0)@0 e@0]@0)@0)@0]@0)@0 e@0]@0)@0]@0)@0 rest=none calls=11 log=53ef57fe",
	"Regex([e@0 Expr([Sub([SubItem(Match([MatchItem(Group(['['#91@0 e@0 [Item(Single('['#91@1)@1)@1 Item(Single('-'#45@3)@3)@3 Item(Single(']'#93@4)@4)@4]@1 ']'#93@6]@0)@0)@0 e@0]@0)@0)@0]@0)@0 e@0]@0)@0]@0)@0 rest=none calls=17 log=1f75d54b",
	"Regex([e@0 Expr([Sub([SubItem(Match([MatchItem(Group(['['#91@0 e@0 [Item(Single('\\\\'#92@1)@1)@1]@1 ']'#93@3]@0)@0)@0 e@0]@0)@0)@0]@0)@0 e@0]@0)@0]@0)@0 rest=none calls=11 log=7479304c",
	"REJECT calls=3 log=601009b8",
	"REJECT calls=4 log=5ef24fa4",
	"Regex([e@0 Expr([Sub([SubItem(Match([MatchItem(Group(['['#91@0 e@0 [Item(Single('-'#45@1)@1)@1 Item(Single('A'#65@2)@2)@2]@1 ']'#93@6]@0)@0)@0 e@0]@0)@0)@0]@0)@0 e@0]@0)@0]@0)@0 rest=none calls=14 log=e79bf82c",
	"Regex([e@0 Expr([Sub([SubItem(Match([MatchItem(Group(['['#91@0 e@0 [Item(CharRange([InRange('�'#-1@1)@1 '-'#45@11 InRange('\\x00'#0@12)@12]@1)@1)@1]@1 ']'#93@22]@0)@0)@0 e@0]@0)@0)@0]@0)@0 e@0]@0)@0]@0)@0 rest=none calls=12 log=b1ee629a",
	"Regex([e@0 Expr([Sub([SubItem(Match([MatchItem(Single('a'#97@0)@0)@0 e@0]@0)@0)@0]@0)@0 e@0]@0)@0]@0)@0 rest=none calls=7 log=38b0450f",
	"Regex([e@0 Expr([Sub([SubItem(Match([MatchItem(Any('.'#46@0)@0)@0 e@0]@0)@0)@0]@0)@0 e@0]@0)@0]@0)@0 rest=none calls=7 log=dd06a85c",
	"Regex([e@0 Expr([Sub([SubItem(Match([MatchItem(Single('A'#65@0)@0)@0 e@0]@0)@0)@0]@0)@0 e@0]@0)@0]@0)@0 rest=none calls=7 log=10d116dc",
	"Regex([e@0 Expr([Sub([SubItem(Match([MatchItem(Single('A'#65@0)@0)@0 e@0]@0)@0)@0]@0)@0 e@0]@0)@0]@0)@0 rest=none calls=7 log=10d116dc",
	"REJECT calls=0 log=811c9dc5",
	"REJECT calls=0 log=811c9dc5",
	"Regex([e@0 Expr([Sub([SubItem(Anchor('$'#36@0)@0)@0]@0)@0 e@0]@0)@0]@0)@0 rest=none calls=5 log=2a61b8af",
	"Regex([e@0 Expr([Sub([SubItem(Match([MatchItem(Group(['['#91@0 e@0 [Item(Single('a'#97@1)@1)@1]@1 ']'#93@2]@0)@0)@0 e@0]@0)@0)@0 SubItem(Match([MatchItem(Group(['['#91@3 '^'#94@4 [Item(Single('b'#98@5)@5)@5]@5 ']'#93@6]@3)@3)@3 e@0]@3)@3)@3 SubItem(Match([MatchItem(Group(['['#91@7 e@0 [Item(CharRange([InRange('c'#99@8)@8 '-'#45@9 InRange('d'#100@10)@10]@8)@8)@8]@8 ']'#93@11]@7)@7)@7 e@0]@7)@7)@7]@0)@0 e@0]@0)@0]@0)@0 rest=none calls=28 log=e37ae4d0",
	"Regex([e@0 Expr([Sub([SubItem(Match([MatchItem(Group(['['#91@0 e@0 [Item(CharRange([InRange('a'#97@1)@1 '-'#45@2 InRange('c'#99@3)@3]@1)@1)@1 Item(Single('-'#45@4)@4)@4 Item(Single('e'#101@5)@5)@5]@1 ']'#93@6]@0)@0)@0 e@0]@0)@0)@0]@0)@0 e@0]@0)@0]@0)@0 rest=none calls=18 log=47ca3973",
	"REJECT calls=7 log=94c75612",
	"Regex([e@0 Expr([Sub([SubItem(Match([MatchItem(Group(['['#91@0 '^'#94@1 [Item(Single('-'#45@2)@2)@2 Item(Single('a'#97@3)@3)@3 Item(Single('b'#98@4)@4)@4]@2 ']'#93@5]@0)@0)@0 e@0]@0)@0)@0]@0)@0 e@0]@0)@0]@0)@0 rest=none calls=17 log=01503b63",
	"Regex([e@0 Expr([Sub([SubItem(Match([MatchItem(Group(['['#91@0 e@0 [Item(CharRange([InRange('!'#33@1)@1 '-'#45@2 InRange('/'#47@3)@3]@1)@1)@1 Item(CharRange([InRange(':'#58@4)@4 '-'#45@5 InRange('@'#64@6)@6]@4)@4)@4]@1 ']'#93@7]@0)@0)@0 e@0]@0)@0)@0]@0)@0 e@0]@0)@0]@0)@0 rest=none calls=16 log=27f93604",
	"Regex([e@0 Expr([Sub([SubItem(Match([MatchItem(Group(['['#91@0 e@0 [Item(ASCIIClass(\"[:upper:]\"@1)@1)@1 Item(ASCIIClass(\"[:lower:]\"@10)@10)@10]@1 ']'#93@19]@0)@0)@0 Quant([Rep(Range(['{'#123@20 1@21 Upper([','#44@22 5@23]@22)@22 '}'#125@24]@20)@20)@20 '?'#63@25]@20)@20]@0)@0)@0]@0)@0 e@0]@0)@0]@0)@0 rest=none calls=16 log=d06e17df",
	"Regex([e@0 Expr([Sub([SubItem(Match([MatchItem(Group(['['#91@0 e@0 [Item(Single(' '#32@1)@1)@1]@1 ']'#93@2]@0)@0)@0 e@0]@0)@0)@0]@0)@0 e@0]@0)@0]@0)@0 rest=none calls=11 log=766aab36",
	"Regex([e@0 Expr([Sub([SubItem(Match([MatchItem(Group(['['#91@0 '^'#94@1 [Item(Single(' '#32@2)@2)@2]@2 ']'#93@3]@0)@0)@0 Quant([Rep(RepOp('+'#43@4)@4)@4 e@0]@4)@4]@0)@0)@0]@0)@0 e@0]@0)@0]@0)@0 rest=none calls=14 log=6a00e381",
}
