package spec

import (
	"fmt"
	"strings"
	"testing"

	"github.com/moorara/algo/grammar"
)

// Characterization tests for the generated-name memo of the symbol table (GetGroup/GetOpt/GetStar/GetPlus),
// its naming helper, and hashStrings/eqStrings. The expected values were recorded from the code before the refactoring.

func demoT(xs ...string) grammar.String[grammar.Symbol] {
	r := grammar.String[grammar.Symbol]{}
	for _, x := range xs {
		r = append(r, grammar.Terminal(x))
	}
	return r
}

func demoN(xs ...string) grammar.String[grammar.Symbol] {
	r := grammar.String[grammar.Symbol]{}
	for _, x := range xs {
		r = append(r, grammar.NonTerminal(x))
	}
	return r
}

func TestRefactorDemo_Accessors(t *testing.T) {
	st := NewSymbolTable()

	type call struct {
		op   string
		s    Strings
		want grammar.NonTerminal
	}

	calls := []call{
		// Several strings get a numbered name; the same strings (in any order) share one entry, one slot per operator.
		{"group", Strings{demoT("BOOLEAN"), demoT("INTEGER")}, "gen1_group"},
		{"opt", Strings{demoT("INTEGER"), demoT("BOOLEAN")}, "gen2_opt"},
		{"group", Strings{demoT("INTEGER"), demoT("BOOLEAN")}, "gen1_group"},
		{"star", Strings{demoT("BOOLEAN"), demoT("INTEGER")}, "gen3_star"},
		{"plus", Strings{demoT("BOOLEAN"), demoT("INTEGER")}, "gen4_plus"},
		{"opt", Strings{demoT("BOOLEAN"), demoT("INTEGER")}, "gen2_opt"},
		{"star", Strings{demoT("INTEGER"), demoT("BOOLEAN")}, "gen3_star"},
		{"plus", Strings{demoT("INTEGER"), demoT("BOOLEAN")}, "gen4_plus"},
		// A single known symbol gets a readable name, and the counter stays.
		{"opt", Strings{demoT(";")}, "gen_semi_opt"},
		{"group", Strings{demoT(";")}, "gen_semi_group"},
		{"star", Strings{demoT("{")}, "gen_rbrace_star"},
		{"plus", Strings{demoT("}")}, "gen_lbrace_plus"},
		{"star", Strings{demoT("*")}, "gen_star_star"},
		{"plus", Strings{demoT("+")}, "gen_plus_plus"},
		{"star", Strings{demoN("decl")}, "gen_decl_star"},
		{"plus", Strings{demoN("decl")}, "gen_decl_plus"},
		{"opt", Strings{demoN("decl")}, "gen_decl_opt"},
		{"group", Strings{demoN("decl")}, "gen_decl_group"},
		{"star", Strings{demoN("decl")}, "gen_decl_star"},
		{"group", Strings{demoN("gen1_group")}, "gen_gen1_group_group"},
		// A terminal and a non-terminal of the same spelling are different strings, yet the names coincide.
		{"opt", Strings{demoN("x")}, "gen_x_opt"},
		{"opt", Strings{demoT("x")}, "gen5_opt"},
		// A single symbol without a readable name gets a numbered name.
		{"star", Strings{demoT("unknown")}, "gen6_star"},
		{"star", Strings{demoT("unknown")}, "gen6_star"},
		{"plus", Strings{demoN("")}, "gen7_plus"},
		{"plus", Strings{demoT("")}, "gen8_plus"},
		{"plus", Strings{demoN("")}, "gen7_plus"},
		// One string of two symbols, the empty string, no strings at all.
		{"opt", Strings{demoT(";", ";")}, "gen9_opt"},
		{"opt", Strings{demoT(";", ";")}, "gen9_opt"},
		{"group", Strings{grammar.E}, "gen10_group"},
		{"group", Strings{}, "gen11_group"},
		{"group", nil, "gen11_group"},
		{"opt", nil, "gen12_opt"},
		{"group", Strings{grammar.E}, "gen10_group"},
		{"star", Strings{demoT("a"), grammar.E}, "gen13_star"},
		{"star", Strings{grammar.E, demoT("a")}, "gen13_star"},
		{"star", Strings{demoT("a")}, "gen14_star"},
	}

	apply := func(op string, s Strings) grammar.NonTerminal {
		switch op {
		case "group":
			return st.GetGroup(s)
		case "opt":
			return st.GetOpt(s)
		case "star":
			return st.GetStar(s)
		default:
			return st.GetPlus(s)
		}
	}

	for i, c := range calls {
		if got := apply(c.op, c.s); got != c.want {
			t.Errorf("call %d: %s(%v) = %q, want %q", i, c.op, c.s, got, c.want)
		}
	}

	// The argument is put in order in place.
	s := Strings{demoT("REAL"), demoT("INTEGER"), grammar.E, demoT("BOOLEAN")}
	if got := st.GetPlus(s); got != "gen15_plus" {
		t.Errorf("GetPlus = %q, want gen15_plus", got)
	}
	if got := fmt.Sprint(s); got != `["BOOLEAN" "INTEGER" "REAL" ε]` {
		t.Errorf("argument after the call: %s", got)
	}

	// Reset forgets the entries, and the numbering goes on.
	st.Reset()
	if got := st.GetGroup(Strings{demoT("BOOLEAN"), demoT("INTEGER")}); got != "gen16_group" {
		t.Errorf("after Reset: GetGroup = %q, want gen16_group", got)
	}
	if got := st.GetOpt(Strings{demoT(";")}); got != "gen_semi_opt" {
		t.Errorf("after Reset: GetOpt = %q, want gen_semi_opt", got)
	}
	if got := st.GetGroup(Strings{demoT("INTEGER"), demoT("BOOLEAN")}); got != "gen16_group" {
		t.Errorf("after Reset: GetGroup = %q, want gen16_group", got)
	}
}

func TestRefactorDemo_TerminalNames(t *testing.T) {
	// Every terminal of the name table, for every operator, on one table: no numbered name is ever used.
	st := NewSymbolTable()
	for a, name := range terminalNames {
		s := func() Strings { return Strings{{a}} }
		got := []grammar.NonTerminal{st.GetGroup(s()), st.GetOpt(s()), st.GetStar(s()), st.GetPlus(s()), st.GetOpt(s())}
		want := []grammar.NonTerminal{
			grammar.NonTerminal("gen_" + name + "_group"),
			grammar.NonTerminal("gen_" + name + "_opt"),
			grammar.NonTerminal("gen_" + name + "_star"),
			grammar.NonTerminal("gen_" + name + "_plus"),
			grammar.NonTerminal("gen_" + name + "_opt"),
		}
		if fmt.Sprint(got) != fmt.Sprint(want) {
			t.Errorf("terminal %q: got %v, want %v", a, got, want)
		}
	}
	if got := st.GetGroup(Strings{demoT("a", "b")}); got != "gen1_group" {
		t.Errorf("first numbered name = %q, want gen1_group", got)
	}
}

func TestRefactorDemo_Strings(t *testing.T) {
	hashes := []struct {
		s     Strings
		want  uint64
		after string
	}{
		{nil, 0xcbf29ce484222325, `[]`},
		{Strings{}, 0xcbf29ce484222325, `[]`},
		{Strings{grammar.E}, 0xcbf29ce484222325, `[ε]`},
		{Strings{demoT("a")}, 0xd9b2a5186c652990, `["a"]`},
		{Strings{demoT("a"), demoT("b")}, 0x8f8080cb8769a43e, `["a" "b"]`},
		{Strings{demoT("b"), demoT("a")}, 0x8f8080cb8769a43e, `["a" "b"]`},
		{Strings{demoT("a"), demoT("a"), demoT("b")}, 0x95410b4a397b5037, `["a" "a" "b"]`},
		{Strings{demoT("a", "b")}, 0x8f8080cb8769a43e, `["a" "b"]`},
		{Strings{demoT("b", "a"), demoT("a", "b"), grammar.E}, 0xd6b4b6944111bd9b, `["a" "b" "b" "a" ε]`},
	}
	for i, c := range hashes {
		if got := hashStrings(c.s); got != c.want {
			t.Errorf("hash %d: %#x, want %#x", i, got, c.want)
		}
		if got := fmt.Sprint(c.s); got != c.after {
			t.Errorf("hash %d: argument after the call %s, want %s", i, got, c.after)
		}
	}

	eqs := []struct {
		lhs, rhs Strings
		want     bool
	}{
		{nil, nil, true},
		{nil, Strings{}, true},
		{Strings{}, Strings{grammar.E}, false},
		{Strings{grammar.E}, Strings{}, false},
		{Strings{grammar.E}, Strings{grammar.E}, true},
		{Strings{demoT("a"), demoT("b")}, Strings{demoT("b"), demoT("a")}, true},
		{Strings{demoT("a"), demoT("a"), demoT("b")}, Strings{demoT("b"), demoT("a")}, true},
		{Strings{demoT("a"), demoT("b")}, Strings{demoT("a")}, false},
		{Strings{demoT("a")}, Strings{demoT("a"), demoT("b")}, false},
		{Strings{demoT("a", "b")}, Strings{demoT("a"), demoT("b")}, false},
		{Strings{demoT("a", "b")}, Strings{demoT("b", "a")}, false},
		{Strings{demoT("x")}, Strings{demoN("x")}, false},
		{Strings{demoN("x"), grammar.E}, Strings{grammar.E, demoN("x")}, true},
	}
	for i, c := range eqs {
		if got := eqStrings(c.lhs, c.rhs); got != c.want {
			t.Errorf("eq %d: eqStrings(%v, %v) = %t, want %t", i, c.lhs, c.rhs, got, c.want)
		}
	}
}

func TestRefactorDemo_Parse(t *testing.T) {
	tests := []struct {
		src  string
		want []string
	}{
		{
			// Every operator on the same sub-expression.
			"grammar g;\nstart = {a} [a] {{a}} (a) a;\na = \"x\";\n",
			[]string{
				"a → \"x\"",
				"gen_a_group → a",
				"gen_a_opt → a",
				"gen_a_opt → ε",
				"gen_a_plus → gen_a_plus a",
				"gen_a_plus → a",
				"gen_a_star → gen_a_star a",
				"gen_a_star → ε",
				"start → gen_a_star gen_a_opt gen_a_plus gen_a_group a",
			},
		},
		{
			// Alternatives in either order, nested operators.
			"grammar g;\nstart = {\"x\" | \"y\"} [\"y\" | \"x\"] ((\"x\" | \"y\")) {{ [\"x\"] \"z\" }};\n",
			[]string{
				"gen1_star → gen1_star \"x\"",
				"gen1_star → gen1_star \"y\"",
				"gen1_star → ε",
				"gen2_opt → \"x\"",
				"gen2_opt → \"y\"",
				"gen2_opt → ε",
				"gen3_group → \"x\"",
				"gen3_group → \"y\"",
				"gen4_opt → \"x\"",
				"gen4_opt → ε",
				"gen5_plus → gen5_plus gen4_opt \"z\"",
				"gen5_plus → gen4_opt \"z\"",
				"gen_gen3_group_group → gen3_group",
				"start → gen1_star gen2_opt gen_gen3_group_group gen5_plus",
			},
		},
		{
			// Empty alternatives, operators on generated names, a user rule named like a generated one.
			"grammar g;\nID = $ID\nstart = { [ ID \",\" ] } {{ ( ID | ) }} [ { \";\" } ] gen1_star;\ngen1_star = \"q\" | ;\n",
			[]string{
				"gen1_opt → \"ID\" \",\"",
				"gen1_opt → ε",
				"gen1_star → \"q\"",
				"gen1_star → ε",
				"gen2_group → \"ID\"",
				"gen2_group → ε",
				"gen_gen1_opt_star → gen_gen1_opt_star gen1_opt",
				"gen_gen1_opt_star → ε",
				"gen_gen2_group_plus → gen_gen2_group_plus gen2_group",
				"gen_gen2_group_plus → gen2_group",
				"gen_gen_semi_star_opt → gen_semi_star",
				"gen_gen_semi_star_opt → ε",
				"gen_semi_star → gen_semi_star \";\"",
				"gen_semi_star → ε",
				"start → gen_gen1_opt_star gen_gen2_group_plus gen_gen_semi_star_opt gen1_star",
			},
		},
		{
			// Terminals with and without a readable name.
			"grammar g;\nstart = [\";\"] {\"{\"} {{\"}\"}} (\"ab\") [\"ab\"] [ (\";\") ];\n",
			[]string{
				"gen1_group → \"ab\"",
				"gen2_opt → \"ab\"",
				"gen2_opt → ε",
				"gen_gen_semi_group_opt → gen_semi_group",
				"gen_gen_semi_group_opt → ε",
				"gen_lbrace_plus → gen_lbrace_plus \"}\"",
				"gen_lbrace_plus → \"}\"",
				"gen_rbrace_star → gen_rbrace_star \"{\"",
				"gen_rbrace_star → ε",
				"gen_semi_group → \";\"",
				"gen_semi_opt → \";\"",
				"gen_semi_opt → ε",
				"start → gen_semi_opt gen_rbrace_star gen_lbrace_plus gen1_group gen2_opt gen_gen_semi_group_opt",
			},
		},
	}

	for i, tc := range tests {
		// Twice: every Parse call uses a fresh symbol table, so the numbering starts over.
		for run := 0; run < 2; run++ {
			sp, err := Parse("demo", strings.NewReader(tc.src))
			if err != nil {
				t.Fatalf("spec %d run %d: %v", i, run, err)
			}
			var got []string
			for _, p := range sp.Productions() {
				got = append(got, p.String())
			}
			if strings.Join(got, "\n") != strings.Join(tc.want, "\n") {
				t.Errorf("spec %d run %d: productions\n%s\nwant\n%s", i, run, strings.Join(got, "\n"), strings.Join(tc.want, "\n"))
			}
		}
	}
}
