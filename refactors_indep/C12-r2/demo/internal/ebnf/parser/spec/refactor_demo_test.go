package spec

import (
	"fmt"
	"strings"
	"testing"

	"github.com/moorara/algo/grammar"
	"github.com/moorara/algo/parser/lr"
)

// demoLevels renders the recorded precedence levels one per line, in recorded order.
// Within a level the handles are rendered in the canonical (sorted) order of the set.
func demoLevels(levels lr.PrecedenceLevels) []string {
	out := make([]string, 0, len(levels))
	for _, l := range levels {
		out = append(out, fmt.Sprintf("%s %d: %s", l.Associativity, l.Handles.Size(), l.Handles))
	}

	return out
}

const demoTail = `
start = expr;
expr  = expr "+" expr | expr "-" expr | expr "*" expr | expr "/" expr | "-" expr | NUM | ID;
NUM   = /[0-9]+/
ID    = $ID
`

func TestRefactorDemo_PrecedenceLevels(t *testing.T) {
	tests := []struct {
		name           string
		src            string
		expectedLevels []string
		expectedErrors []string
	}{
		{
			name:           "NoDirectives",
			src:            "grammar demo;" + demoTail,
			expectedLevels: []string{},
		},
		{
			name:           "SingleLeft",
			src:            "grammar demo;\n@left \"+\"\n" + demoTail,
			expectedLevels: []string{`LEFT 1: "+"`},
		},
		{
			name:           "SingleRight",
			src:            "grammar demo;\n@right \"+\"\n" + demoTail,
			expectedLevels: []string{`RIGHT 1: "+"`},
		},
		{
			name:           "SingleNone",
			src:            "grammar demo;\n@none \"+\"\n" + demoTail,
			expectedLevels: []string{`NONE 1: "+"`},
		},
		{
			name: "SourceOrderIsKept",
			src:  "grammar demo;\n@none \"/\"\n@left \"+\" \"-\";\n@right \"*\"\n@left NUM\n" + demoTail,
			expectedLevels: []string{
				`NONE 1: "/"`,
				`LEFT 2: "+", "-"`,
				`RIGHT 1: "*"`,
				`LEFT 1: "NUM"`,
			},
		},
		{
			name: "SourceOrderReversed",
			src:  "grammar demo;\n@left NUM\n@right \"*\";\n@left \"-\" \"+\"\n@none \"/\";\n" + demoTail,
			expectedLevels: []string{
				`LEFT 1: "NUM"`,
				`RIGHT 1: "*"`,
				`LEFT 2: "+", "-"`,
				`NONE 1: "/"`,
			},
		},
		{
			name: "DirectivesInterleavedWithRules",
			src: "grammar demo;\n@right \"*\"\nstart = expr;\n@left \"+\"\n" +
				"expr = expr \"+\" expr | expr \"*\" expr | NUM;\nNUM = /[0-9]+/\n@none NUM\n",
			expectedLevels: []string{
				`RIGHT 1: "*"`,
				`LEFT 1: "+"`,
				`NONE 1: "NUM"`,
			},
		},
		{
			name:           "RuleHandleFirst",
			src:            "grammar demo;\n@left <expr = expr \"+\" expr> \"*\" ID\n" + demoTail,
			expectedLevels: []string{`LEFT 3: "*", "ID", expr = expr "+" expr`},
		},
		{
			name:           "TermFirstThenRuleHandles",
			src:            "grammar demo;\n@right \"*\" <expr = \"-\" expr> \"/\" <expr = NUM>\n" + demoTail,
			expectedLevels: []string{`RIGHT 4: "*", "/", expr = "-" expr, expr = "NUM"`},
		},
		{
			name: "RuleHandleWithAlternation",
			src:  "grammar demo;\n@left <expr = expr \"+\" expr | expr \"-\" expr>\n@none <expr = NUM | ID> \"*\"\n" + demoTail,
			expectedLevels: []string{
				`LEFT 2: expr = expr "+" expr, expr = expr "-" expr`,
				`NONE 3: "*", expr = "ID", expr = "NUM"`,
			},
		},
		{
			name: "RuleHandleWithEmptyBodies",
			src: "grammar demo;\n@left <opt = > \"+\"\n@right <tail = \"*\" expr | >\n" +
				"opt = ;\ntail = \"*\" expr | ;\nstart = expr opt tail;\nexpr = expr \"+\" expr | NUM;\nNUM = /[0-9]+/\n",
			expectedLevels: []string{
				`LEFT 2: "+", opt = ε`,
				`RIGHT 2: tail = "*" expr, tail = ε`,
			},
		},
		{
			name: "RuleHandleWithExtendedOperators",
			src: "grammar demo;\n" +
				"@left <expr = expr (\"+\" | \"-\") expr>\n" +
				"@right <list = expr {\",\" expr}> <args = [list]>\n" +
				"@none <many = {{expr}} | NUM [\"!\"]>\n" +
				"start = args many;\nexpr = expr (\"+\" | \"-\") expr | NUM;\nlist = expr {\",\" expr};\nargs = [list];\n" +
				"many = {{expr}} | NUM [\"!\"];\nNUM = /[0-9]+/\n",
			expectedLevels: []string{
				`LEFT 1: expr = expr gen1_group expr`,
				`RIGHT 2: args = gen_list_opt, list = expr gen2_star`,
				`NONE 2: many = "NUM" gen_exclam_opt, many = gen_expr_plus`,
			},
		},
		{
			name:           "DuplicateHandlesInOneLevelCollapse",
			src:            "grammar demo;\n@left \"+\" \"-\" \"+\" <expr = NUM> <expr = NUM | NUM>\n" + demoTail,
			expectedLevels: []string{`LEFT 3: "+", "-", expr = "NUM"`},
		},
		{
			name:           "EscapedStringTerminal",
			src:            "grammar demo;\n@none \"\\\"\" \"\\\\\"\nstart = \"\\\"\" | \"\\\\\";\n",
			expectedLevels: []string{`NONE 2: "\"", "\\"`},
		},
		{
			name:           "RuleHandleAddsItsProductionToTheGrammar",
			src:            "grammar demo;\n@left <expr = expr \"%\" expr>\n" + demoTail,
			expectedLevels: []string{`LEFT 1: expr = expr "%" expr`},
		},
		{
			name: "HandleInTwoLevelsIsRejected",
			src:  "grammar demo;\n@left \"+\" \"-\"\n@right \"*\" \"+\"\n@none <expr = NUM>\n@left <expr = ID | NUM>\n" + demoTail,
			expectedErrors: []string{
				`2 errors occurred:`,
				`"+" appeared in more than one precedence level`,
				`expr = "NUM" appeared in more than one precedence level`,
			},
		},
		{
			name:           "DirectiveWithoutHandlesIsASyntaxError",
			src:            "grammar demo;\n@left\n" + demoTail,
			expectedErrors: []string{`demo.grammar:4:1`},
		},
	}

	for _, tc := range tests {
		t.Run(tc.name, func(t *testing.T) {
			s, err := Parse("demo.grammar", strings.NewReader(tc.src))

			if len(tc.expectedErrors) > 0 {
				if err == nil {
					t.Fatalf("expected an error, got levels:\n%s", s.Precedences)
				}

				for _, e := range tc.expectedErrors {
					if !strings.Contains(err.Error(), e) {
						t.Errorf("error %q does not contain %q", err, e)
					}
				}

				return
			}

			if err != nil {
				t.Fatalf("unexpected error: %s", err)
			}

			if s.Precedences == nil {
				t.Fatalf("recorded levels must not be nil")
			}

			got := demoLevels(s.Precedences)
			if fmt.Sprint(got) != fmt.Sprint(tc.expectedLevels) || len(got) != len(tc.expectedLevels) {
				t.Errorf("levels differ\n got: %q\nwant: %q", got, tc.expectedLevels)
			}

			// Every handle is either a terminal or a production, never both,
			// and every production handle is one of the productions of the grammar.
			for i, l := range s.Precedences {
				for h := range l.Handles.All() {
					switch {
					case h.IsTerminal():
						if !s.Grammar.Terminals.Contains(*h.Terminal) {
							t.Errorf("level %d: terminal %s is not a terminal of the grammar", i, h)
						}

					case h.IsProduction():
						if !demoHasProduction(s.Grammar, h.Production) {
							t.Errorf("level %d: production %s is not a production of the grammar", i, h)
						}

					default:
						t.Errorf("level %d: malformed handle %#v", i, h)
					}
				}
			}
		})
	}
}

func demoHasProduction(G *grammar.CFG, p *grammar.Production) bool {
	for q := range G.Productions.All() {
		if q.Equal(p) {
			return true
		}
	}

	return false
}

// The symbol table keeps the levels in the order they are added, starting from (and resetting to) an empty non-nil list.
func TestRefactorDemo_SymbolTableLevels(t *testing.T) {
	plus, star := grammar.Terminal("+"), grammar.Terminal("*")
	p := &grammar.Production{Head: "E", Body: grammar.String[grammar.Symbol]{grammar.NonTerminal("E"), plus, grammar.NonTerminal("E")}}

	st := NewSymbolTable()
	if got := st.Precedences(); got == nil || len(got) != 0 {
		t.Fatalf("a new table has an empty, non-nil list of levels, got %#v", got)
	}

	levels := []*lr.PrecedenceLevel{
		{Associativity: lr.RIGHT, Handles: lr.NewPrecedenceHandles(&lr.PrecedenceHandle{Terminal: &star})},
		{Associativity: lr.LEFT, Handles: lr.NewPrecedenceHandles(&lr.PrecedenceHandle{Production: p}, &lr.PrecedenceHandle{Terminal: &plus})},
		{Associativity: lr.NONE, Handles: lr.NewPrecedenceHandles()},
	}

	for i, l := range levels {
		st.AddPrecedence(l)

		got := st.Precedences()
		if len(got) != i+1 || got[i] != l {
			t.Fatalf("level %d is not recorded last: %s", i, got)
		}
	}

	want := []string{`RIGHT 1: "*"`, `LEFT 2: "+", E = E "+" E`, `NONE 0: `}
	if got := demoLevels(st.Precedences()); fmt.Sprint(got) != fmt.Sprint(want) {
		t.Errorf("levels differ\n got: %q\nwant: %q", got, want)
	}

	st.Reset()
	if got := st.Precedences(); got == nil || len(got) != 0 {
		t.Fatalf("a reset table has an empty, non-nil list of levels, got %#v", got)
	}
}
