package spec

import (
	"strings"
	"testing"

	auto "github.com/moorara/algo/automata"
	"github.com/moorara/algo/grammar"
)

// refUnescape is an independent, deliberately naive statement of what a string literal denotes:
// a backslash stands for the byte following it; a backslash with nothing after it stands for itself.
func refUnescape(s string) string {
	out := make([]byte, 0, len(s))
	for len(s) > 0 {
		if s[0] == '\\' && len(s) > 1 {
			out = append(out, s[1])
			s = s[2:]
			continue
		}
		out = append(out, s[0])
		s = s[1:]
	}
	return string(out)
}

// TestRefactorDemo_unescape_Table pins concrete results of unescape.
func TestRefactorDemo_unescape_Table(t *testing.T) {
	tests := []struct {
		in, want string
	}{
		{``, ``},
		{`a`, `a`},
		{`if`, `if`},
		{`<=`, `<=`},
		{`\`, `\`},             // dangling backslash stands for itself
		{`\\`, `\`},            // escaped backslash
		{`\\\`, `\\`},          // escaped backslash, then a dangling one
		{`\\\\`, `\\`},         // two escaped backslashes
		{`\\\\\`, `\\\`},       // two escaped, one dangling
		{`\"`, `"`},            // escaped quotation mark
		{`\"\"`, `""`},         // two of them
		{`"`, `"`},             // bare quotation mark is kept
		{`a\`, `a\`},           // dangling after text
		{`a\\`, `a\`},          // escaped backslash at the end
		{`\a`, `a`},            // backslash before an ordinary character just drops
		{`\n`, `n`},            // no C-style escapes: \n is the letter n
		{`\t\r\0`, `tr0`},      // likewise
		{`a\+b`, `a+b`},        // escape in the middle
		{`a\\b`, `a\b`},        // escaped backslash in the middle
		{`a\\\b`, `a\b`},       // escaped backslash followed by escaped b
		{`\\n`, `\n`},          // escaped backslash, then a plain n
		{`\\"`, `\"`},          // escaped backslash, then a plain quote
		{`\\\"`, `\"`},         // escaped backslash, then an escaped quote
		{`\"a\"`, `"a"`},       // quoted word
		{`ab\cd\ef`, `abcdef`}, // several escapes between runs
		{`\a\b\c`, `abc`},      // back to back escapes
		{`\\a\\b\\`, `\a\b\`},  // alternating
		{`x\\\\y`, `x\\y`},     // two escaped backslashes inside
		{`\ `, ` `},            // escaped space
		{`\é`, "é"},            // escaped multi-byte rune: its bytes stay together
		{`é\\ü`, `é\ü`},        // multi-byte runes around an escape
		{"\\\xc3", "\xc3"},     // escaped lone byte
		{"a\x00\\\x00", "a\x00\x00"},
		{`no-escapes-at-all`, `no-escapes-at-all`},
		{strings.Repeat(`\\`, 50), strings.Repeat(`\`, 50)},
		{strings.Repeat(`\`, 101), strings.Repeat(`\`, 51)},
		{strings.Repeat(`ab\"`, 20), strings.Repeat(`ab"`, 20)},
	}

	for _, tc := range tests {
		if got := unescape(tc.in); got != tc.want {
			t.Errorf("unescape(%q) = %q, want %q", tc.in, got, tc.want)
		}
		if ref := refUnescape(tc.in); ref != tc.want {
			t.Errorf("reference disagrees with the table for %q: %q, want %q", tc.in, ref, tc.want)
		}
	}
}

// TestRefactorDemo_unescape_Exhaustive compares unescape with the reference
// on every string of length 0..7 over a small alphabet that contains the interesting bytes.
func TestRefactorDemo_unescape_Exhaustive(t *testing.T) {
	alphabet := []byte{'\\', '"', 'a', 0xc3}
	const maxLen = 7

	count := 0
	buf := make([]byte, 0, maxLen)

	var walk func()
	walk = func() {
		in := string(buf)
		count++
		if got, want := unescape(in), refUnescape(in); got != want {
			t.Errorf("unescape(%q) = %q, want %q", in, got, want)
		}
		if len(buf) == maxLen {
			return
		}
		for _, c := range alphabet {
			buf = append(buf, c)
			walk()
			buf = buf[:len(buf)-1]
		}
	}
	walk()

	if want := (1<<(2*(maxLen+1)) - 1) / 3; count != want { // 1 + 4 + ... + 4^7
		t.Fatalf("visited %d strings, want %d", count, want)
	}
}

// TestRefactorDemo_unescape_Invariants checks structural facts that follow from the definition.
func TestRefactorDemo_unescape_Invariants(t *testing.T) {
	inputs := []string{``, `\`, `\\`, `a\`, `\a`, `a\\b\"c`, `\\\\\`, `"\""`, `plain`, `\\\"\\`, `x\y\z\`}

	for _, in := range inputs {
		got := unescape(in)

		// Every backslash that is not the last byte consumes itself, so the length drops by the number of escape pairs.
		pairs := 0
		for i := 0; i < len(in); i++ {
			if in[i] == '\\' && i+1 < len(in) {
				pairs++
				i++
			}
		}
		if len(got) != len(in)-pairs {
			t.Errorf("len(unescape(%q)) = %d, want %d", in, len(got), len(in)-pairs)
		}

		// Escaping every byte and unescaping gives the original back.
		var esc strings.Builder
		for i := 0; i < len(in); i++ {
			esc.WriteByte('\\')
			esc.WriteByte(in[i])
		}
		if back := unescape(esc.String()); back != in {
			t.Errorf("unescape(%q) = %q, want %q", esc.String(), back, in)
		}

		// A text without any backslash is returned as it is.
		if plain := strings.ReplaceAll(in, `\`, `_`); unescape(plain) != plain {
			t.Errorf("unescape(%q) = %q, want it unchanged", plain, unescape(plain))
		}
	}
}

const refactorDemoGrammar = `grammar demo;

QUOTE  = "\""
BSLASH = "\\"
PLUS   = "a\+b"
MIXED  = "\\\"x"
TAIL   = "q\\"
ID     = /[a-z]+/
PUNCT  = /[\\"]/

start = item start | item;
item  = QUOTE | BSLASH | PLUS | MIXED | TAIL | ID | PUNCT | "if" | "n\n" | "\\n" | "<\=" | "\"\"";
`

// run feeds the text to the automaton and returns the state reached (-1 when the automaton gets stuck).
func refactorDemoRun(d *auto.DFA, text string) auto.State {
	curr := d.Start
	for _, r := range text {
		if curr = d.Next(curr, auto.Symbol(r)); curr == auto.State(-1) {
			return curr
		}
	}
	return curr
}

// TestRefactorDemo_Parse_Literals goes through the two call sites of unescape:
// string token definitions and string literals used directly in production bodies.
func TestRefactorDemo_Parse_Literals(t *testing.T) {
	spec, err := Parse("demo.grammar", strings.NewReader(refactorDemoGrammar))
	if err != nil {
		t.Fatalf("unexpected error: %s", err)
	}

	type def struct {
		name, value string
		isRegex     bool
	}

	got := map[def]bool{}
	for _, d := range spec.Definitions {
		got[def{string(d.Terminal), d.Value, d.IsRegex}] = true
	}

	want := []def{
		// Named string tokens: the value is the literal with the escapes resolved.
		{"QUOTE", `"`, false},
		{"BSLASH", `\`, false},
		{"PLUS", `a+b`, false},
		{"MIXED", `\"x`, false},
		{"TAIL", `q\`, false},
		// Named patterns are not touched.
		{"ID", `[a-z]+`, true},
		{"PUNCT", `[\\"]`, true},
		// Inline literals are named after the characters they denote.
		{"if", `if`, false},
		{"nn", `nn`, false},
		{`\n`, `\n`, false},
		{"<=", `<=`, false},
		{`""`, `""`, false},
	}

	if len(spec.Definitions) != len(want) {
		t.Errorf("got %d definitions, want %d", len(spec.Definitions), len(want))
	}
	for _, w := range want {
		if !got[w] {
			t.Errorf("missing definition %+v; got %v", w, got)
		}
	}

	// The terminals of the grammar carry the resolved names too.
	for _, a := range []string{"QUOTE", "BSLASH", "PLUS", "MIXED", "TAIL", "ID", "PUNCT", "if", "nn", `\n`, "<=", `""`} {
		if !spec.Grammar.Terminals.Contains(grammar.Terminal(a)) {
			t.Errorf("grammar has no terminal %q: %s", a, spec.Grammar.Terminals)
		}
	}
	for _, a := range []string{`\"`, `\\`, `a\+b`, `n\n`, `\\n`, `<\=`, `\"\"`} {
		if spec.Grammar.Terminals.Contains(grammar.Terminal(a)) {
			t.Errorf("grammar has the unresolved terminal %q", a)
		}
	}

	// The combined automaton: every text is attributed to the terminal that must win.
	dfa, termMap, err := spec.DFA()
	if err != nil {
		t.Fatalf("unexpected error: %s", err)
	}

	owner := map[auto.State]grammar.Terminal{}
	for a, states := range termMap {
		for _, s := range states {
			if prev, ok := owner[s]; ok {
				t.Errorf("state %d attributed to both %q and %q", s, prev, a)
			}
			owner[s] = a
		}
	}

	scans := []struct {
		text string
		want string // "" means not accepted
	}{
		{`"`, "QUOTE"},   // literal wins over the pattern PUNCT
		{`\`, "BSLASH"},  // literal wins over the pattern PUNCT
		{`a+b`, "PLUS"},  // only the literal
		{`a\+b`, ""},     // the escape is not part of the text
		{`\"x`, "MIXED"}, //
		{`\\\"x`, ""},    //
		{`q\`, "TAIL"},   //
		{`q\\`, ""},      //
		{`q`, "ID"},      // proper prefix of TAIL is an identifier
		{`if`, "if"},     // keyword wins over ID
		{`i`, "ID"},      //
		{`iff`, "ID"},    //
		{`nn`, "nn"},     // "n\n" denotes nn and wins over ID
		{`n`, "ID"},      //
		{`nnn`, "ID"},    //
		{`\n`, `\n`},     // "\\n" denotes backslash n
		{"\n", ""},       // and not a line feed
		{`\\n`, ""},      //
		{`<=`, "<="},     //
		{`<\=`, ""},      //
		{`<`, ""},        //
		{`""`, `""`},     //
		{`\"\"`, ""},     //
		{`"""`, ""},      //
		{`a`, "ID"},      //
		{`ab`, "ID"},     //
		{`a+`, ""},       //
		{``, ""},         //
		{`A`, ""},        //
	}

	for _, sc := range scans {
		s := refactorDemoRun(dfa, sc.text)

		var got string
		if s != auto.State(-1) && dfa.Final.Contains(s) {
			a, ok := owner[s]
			if !ok {
				t.Errorf("scan(%q): accepting state %d has no terminal", sc.text, s)
			}
			got = string(a)
		}

		if got != sc.want {
			t.Errorf("scan(%q) = %q, want %q", sc.text, got, sc.want)
		}

		if accepted := dfa.Accept(auto.String([]auto.Symbol(toSymbols(sc.text)))); accepted != (sc.want != "") {
			t.Errorf("Accept(%q) = %t, want %t", sc.text, accepted, sc.want != "")
		}
	}
}

func toSymbols(text string) []auto.Symbol {
	out := []auto.Symbol{}
	for _, r := range text {
		out = append(out, auto.Symbol(r))
	}
	return out
}

// TestRefactorDemo_Parse_Conflicts: a conflict is reported exactly when two patterns match the same text
// with no literal to break the tie; an escaped literal breaks the tie like any other.
func TestRefactorDemo_Parse_Conflicts(t *testing.T) {
	tests := []struct {
		name     string
		src      string
		conflict bool
	}{
		{
			name: "TwoPatternsNoLiteral",
			src: `grammar demo;
PA = /[\\"]/
PB = /\\/
start = PA | PB;
`,
			conflict: true,
		},
		{
			name: "TwoPatternsEscapedLiteralBreaksTie",
			src: `grammar demo;
PA = /[\\"]/
PB = /\\/
LC = "\\"
start = PA | PB | LC;
`,
			conflict: false,
		},
		{
			name: "InlineEscapedLiteralBreaksTie",
			src: `grammar demo;
PA = /[\\"]/
PB = /\\/
start = PA | PB | "\\";
`,
			conflict: false,
		},
		{
			name: "LiteralForAnotherTextDoesNotBreakTie",
			src: `grammar demo;
PA = /[\\"]/
PB = /\\/
LC = "\""
start = PA | PB | LC;
`,
			conflict: true,
		},
		{
			name: "PatternAndEscapedLiteral",
			src: `grammar demo;
PA = /["]+/
start = PA | "\"\"";
`,
			conflict: false,
		},
	}

	for _, tc := range tests {
		t.Run(tc.name, func(t *testing.T) {
			spec, err := Parse("demo.grammar", strings.NewReader(tc.src))
			if err != nil {
				t.Fatalf("unexpected error: %s", err)
			}

			_, _, err = spec.DFA()
			switch {
			case tc.conflict && err == nil:
				t.Errorf("expected a conflict, got none")
			case tc.conflict && !strings.Contains(err.Error(), "conflicting definitions capture the same string"):
				t.Errorf("unexpected error: %s", err)
			case !tc.conflict && err != nil:
				t.Errorf("unexpected error: %s", err)
			}
		})
	}
}
