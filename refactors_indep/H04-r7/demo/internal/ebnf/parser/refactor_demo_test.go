package parser

import (
	"errors"
	"fmt"
	"io"
	"os"
	"path/filepath"
	"reflect"
	"strings"
	"testing"

	"github.com/moorara/algo/grammar"
	"github.com/moorara/algo/lexer"
	"github.com/moorara/algo/parser"
	"github.com/moorara/algo/parser/lr"

	ebnflexer "github.com/gardenbed/emerge/internal/ebnf/lexer"
)

// Characterization test for Parser.Parse and Parser.ParseAndEvaluate:
// order of the callbacks, values handed to the evaluation callback, and the errors that come back.

type demoEvent struct {
	token bool
	tok   lexer.Token // for a token event
	index int         // for a production event
}

func (e demoEvent) String() string {
	if e.token {
		return fmt.Sprintf("T %s %q %d:%d", string(e.tok.Terminal), e.tok.Lexeme, e.tok.Pos.Line, e.tok.Pos.Column)
	}
	return fmt.Sprintf("P %d", e.index)
}

func demoStrings(events []demoEvent) []string {
	out := make([]string, len(events))
	for i, e := range events {
		out[i] = e.String()
	}
	return out
}

var errDemo = errors.New("demo sentinel")

// demoTrace parses src and records every callback; the callback number failAt (0-based) returns errDemo.
func demoTrace(t *testing.T, src string, failAt int) ([]demoEvent, error) {
	t.Helper()

	p, err := New("demo", strings.NewReader(src))
	if err != nil {
		t.Fatalf("New: %v", err)
	}

	var events []demoEvent
	step := func(e demoEvent) error {
		events = append(events, e)
		if len(events)-1 == failAt {
			return errDemo
		}
		return nil
	}

	err = p.Parse(
		func(tok *lexer.Token) error { return step(demoEvent{token: true, tok: *tok}) },
		func(i int) error { return step(demoEvent{index: i}) },
	)

	return events, err
}

// demoTokens scans src with the lexer alone; the error is nil at the end of the input.
func demoTokens(t *testing.T, src string) ([]lexer.Token, error) {
	t.Helper()

	l, err := ebnflexer.New("demo", strings.NewReader(src))
	if err != nil {
		t.Fatalf("lexer.New: %v", err)
	}

	var toks []lexer.Token
	for {
		tok, err := l.NextToken()
		if err != nil {
			if errors.Is(err, io.EOF) {
				err = nil
			}
			return toks, err
		}
		toks = append(toks, tok)
	}
}

// demoReplay checks that the events are a bottom-up (reverse rightmost) derivation and returns the symbols left.
func demoReplay(t *testing.T, events []demoEvent) []grammar.Symbol {
	t.Helper()

	var syms []grammar.Symbol
	for n, e := range events {
		if e.token {
			syms = append(syms, e.tok.Terminal)
			continue
		}

		prod := productions[e.index]
		k := len(prod.Body)
		if len(syms) < k {
			t.Fatalf("event %d (%s): only %d symbols for a body of %d", n, e, len(syms), k)
		}
		for j, want := range prod.Body {
			if got := syms[len(syms)-k+j]; !got.Equal(want) {
				t.Fatalf("event %d (%s): body symbol %d is %s, handle has %s", n, e, j, want, got)
			}
		}
		syms = append(syms[:len(syms)-k], prod.Head)
	}

	return syms
}

func demoSources(t *testing.T) map[string]string {
	t.Helper()

	srcs := map[string]string{
		"name_only":       "grammar x;",
		"name_no_semi":    "grammar x",
		"one_token":       "grammar g\nNUM = /[0-9]+/\n",
		"token_kinds":     "grammar g; AA = \"a\"; BB = $ID\nCC = /c+/;",
		"empty_rule":      "grammar g; e = ;",
		"alternation":     "grammar g; s = a | \"b\" | ;",
		"nested":          "grammar g; s = ( a [ b ] { c } {{ d }} ) TT \"x\";",
		"directives":      "grammar g;\n@left \"+\" TT\n@right <e = e \"^\" e>;\n@none \"=\" <e = >\n",
		"comments":        "// c1\n/* c2 */ grammar g; // c3\n s = a; /* c4\n */\n",
		"two_rules":       "grammar g; a = b c; b = \"x\"; c = ;",
		"syntax_error_0":  "x = y;",
		"syntax_error_1":  "grammar g; s = ) ;",
		"syntax_error_2":  "grammar g; s = a",
		"syntax_error_3":  "grammar g; TT = ;",
		"lexical_error_0": "grammar g; s = a # b;",
		"lexical_error_1": "%",
		"lexical_error_2": "grammar g; s = a; T",
		"empty":           "",
		"only_comment":    "// nothing\n",
	}

	files, err := filepath.Glob(filepath.Join("..", "fixture", "*.grammar"))
	if err != nil || len(files) == 0 {
		t.Fatalf("no fixtures: %v", err)
	}
	for _, f := range files {
		b, err := os.ReadFile(f)
		if err != nil {
			t.Fatal(err)
		}
		srcs["fixture_"+filepath.Base(f)] = string(b)
	}

	return srcs
}

func TestRefactorDemo_ConcreteTraces(t *testing.T) {
	tests := []struct {
		src      string
		expected []string
		errText  string
	}{
		{
			src:      "grammar x;",
			expected: []string{`T grammar "grammar" 1:1`, `T IDENT "x" 1:9`, `T ; ";" 1:10`, `P 7`, `P 1`, `P 3`, `P 0`},
		},
		{
			src:      "grammar x",
			expected: []string{`T grammar "grammar" 1:1`, `T IDENT "x" 1:9`, `P 8`, `P 1`, `P 3`, `P 0`},
		},
		{
			src: "grammar g; e = ;",
			expected: []string{
				`T grammar "grammar" 1:1`, `T IDENT "g" 1:9`, `T ; ";" 1:10`, `P 7`, `P 1`, `P 3`,
				`T IDENT "e" 1:12`, `P 32`, `P 22`, `T = "=" 1:14`, `P 21`, `T ; ";" 1:16`, `P 6`, `P 2`, `P 0`,
			},
		},
		{
			src: "grammar g\nAB = $ID",
			expected: []string{
				`T grammar "grammar" 1:1`, `T IDENT "g" 1:9`, `P 8`, `P 1`, `P 3`,
				`T TOKEN "AB" 2:1`, `T = "=" 2:4`, `T PREDEF "$ID" 2:6`, `P 11`, `P 8`, `P 4`, `P 2`, `P 0`,
			},
		},
		{
			src:      "grammar g; s = ) ;",
			errText:  `demo:1:16: unexpected string ")": no action exists in the parsing table for ACTION[`,
			expected: []string{`T grammar "grammar" 1:1`, `T IDENT "g" 1:9`, `T ; ";" 1:10`, `P 7`, `P 1`, `P 3`, `T IDENT "s" 1:12`, `P 32`, `P 22`, `T = "=" 1:14`},
		},
		{
			src:     "",
			errText: `unexpected string "": no action exists in the parsing table for ACTION[0, $]`,
		},
	}

	for _, tc := range tests {
		t.Run(tc.src, func(t *testing.T) {
			events, err := demoTrace(t, tc.src, -1)

			got := demoStrings(events)
			if len(got) == 0 {
				got = nil
			}
			if !reflect.DeepEqual(got, tc.expected) {
				t.Errorf("trace:\n got %q\nwant %q", got, tc.expected)
			}

			if tc.errText == "" {
				if err != nil {
					t.Fatalf("unexpected error %v", err)
				}
				return
			}

			var perr *parser.ParseError
			if !errors.As(err, &perr) || err.(*parser.ParseError) != perr {
				t.Fatalf("error is %T, not a *ParseError", err)
			}
			if !strings.HasPrefix(err.Error(), tc.errText) {
				t.Errorf("error %q does not start with %q", err.Error(), tc.errText)
			}
		})
	}
}

func TestRefactorDemo_DerivationOrder(t *testing.T) {
	for name, src := range demoSources(t) {
		t.Run(name, func(t *testing.T) {
			events, err := demoTrace(t, src, -1)
			syms := demoReplay(t, events)
			toks, lexErr := demoTokens(t, src)

			// Token events are the tokens of the lexer, in source order, each one once.
			var seen []lexer.Token
			for _, e := range events {
				if e.token {
					seen = append(seen, e.tok)
				}
			}

			if err == nil {
				if !reflect.DeepEqual(seen, toks) && (len(seen) != 0 || len(toks) != 0) {
					t.Errorf("token events differ from the lexer's tokens:\n got %v\nwant %v", seen, toks)
				}
				if len(syms) != 1 || !syms[0].Equal(grammar.NonTerminal("grammar")) {
					t.Errorf("accepted with the symbols %v", syms)
				}
				if last := events[len(events)-1]; last.token || last.index != 0 {
					t.Errorf("last event is %s", last)
				}
				return
			}

			perr, ok := err.(*parser.ParseError)
			if !ok {
				t.Fatalf("error is %T", err)
			}

			// A lexical error: every token before it has been delivered, or a syntax error came first.
			if lexErr != nil && len(seen) == len(toks) {
				if !reflect.DeepEqual(seen, toks) && len(seen) != 0 {
					t.Errorf("token events differ from the lexer's tokens")
				}
				if perr.Description != "" || !perr.Pos.IsZero() || perr.Cause == nil || perr.Cause.Error() != lexErr.Error() {
					t.Errorf("got %#v, want the cause %v", perr, lexErr)
				}
				return
			}

			// A syntax error: the tokens delivered are a proper prefix and the offending token is described.
			if len(seen) > len(toks) || !reflect.DeepEqual(seen, toks[:len(seen)]) && len(seen) != 0 {
				t.Errorf("token events are not a prefix of the lexer's tokens")
			}
			bad := lexer.Token{Terminal: grammar.Endmarker}
			if len(seen) < len(toks) {
				bad = toks[len(seen)]
			}
			if want := fmt.Sprintf("unexpected string %q", bad.Lexeme); perr.Description != want {
				t.Errorf("description %q, want %q", perr.Description, want)
			}
			if len(seen) < len(toks) && perr.Pos != bad.Pos {
				t.Errorf("position %v, want %v", perr.Pos, bad.Pos)
			}
			if perr.Cause == nil || !strings.HasPrefix(perr.Cause.Error(), "no action exists in the parsing table for ACTION[") {
				t.Errorf("cause %v", perr.Cause)
			}
		})
	}
}

func TestRefactorDemo_CallbackErrorsAbort(t *testing.T) {
	for name, src := range demoSources(t) {
		t.Run(name, func(t *testing.T) {
			full, _ := demoTrace(t, src, -1)

			for k := range full {
				events, err := demoTrace(t, src, k)

				// Nothing is called after the failing callback and everything before it is unchanged.
				if !reflect.DeepEqual(events, full[:k+1]) {
					t.Fatalf("fail at %d: %d events, want the first %d of the full trace", k, len(events), k+1)
				}

				perr, ok := err.(*parser.ParseError)
				if !ok {
					t.Fatalf("fail at %d: error is %T (%v)", k, err, err)
				}
				if perr.Cause != errDemo || !errors.Is(err, errDemo) {
					t.Errorf("fail at %d: cause is %v", k, perr.Cause)
				}
				if perr.Description != "" {
					t.Errorf("fail at %d: description %q", k, perr.Description)
				}

				if e := full[k]; e.token {
					if perr.Pos != e.tok.Pos {
						t.Errorf("fail at %d: position %v, want %v", k, perr.Pos, e.tok.Pos)
					}
					if want := e.tok.Pos.String() + ": demo sentinel"; err.Error() != want {
						t.Errorf("fail at %d: message %q, want %q", k, err.Error(), want)
					}
				} else {
					if !perr.Pos.IsZero() {
						t.Errorf("fail at %d: position %v for a production", k, perr.Pos)
					}
					if err.Error() != "demo sentinel" {
						t.Errorf("fail at %d: message %q", k, err.Error())
					}
				}
			}
		})
	}
}

func TestRefactorDemo_NilCallbacks(t *testing.T) {
	const src = "grammar g; s = a | \"b\" | ; TT = /t/"

	full, err := demoTrace(t, src, -1)
	if err != nil {
		t.Fatal(err)
	}

	var toks, prods []string
	for _, e := range full {
		if e.token {
			toks = append(toks, e.String())
		} else {
			prods = append(prods, e.String())
		}
	}

	newParser := func() *Parser {
		p, err := New("demo", strings.NewReader(src))
		if err != nil {
			t.Fatal(err)
		}
		return p
	}

	if err := newParser().Parse(nil, nil); err != nil {
		t.Errorf("Parse(nil, nil): %v", err)
	}

	var got []string
	err = newParser().Parse(func(tok *lexer.Token) error {
		got = append(got, demoEvent{token: true, tok: *tok}.String())
		return nil
	}, nil)
	if err != nil || !reflect.DeepEqual(got, toks) {
		t.Errorf("Parse(tokenF, nil): %v, %q", err, got)
	}

	got = nil
	err = newParser().Parse(nil, func(i int) error {
		got = append(got, demoEvent{index: i}.String())
		return nil
	})
	if err != nil || !reflect.DeepEqual(got, prods) {
		t.Errorf("Parse(nil, prodF): %v, %q", err, got)
	}

	// A syntax error is found without any callback, too.
	p, _ := New("demo", strings.NewReader("grammar g; s = ) ;"))
	err = p.Parse(nil, nil)
	if perr, ok := err.(*parser.ParseError); !ok || perr.Description != `unexpected string ")"` || perr.Pos.Column != 16 {
		t.Errorf("Parse(nil, nil) on a syntax error: %v", err)
	}
}

// demoLexer delivers canned tokens and logs when it is asked.
type demoLexer struct {
	log   *[]string
	toks  []lexer.Token
	errAt int
	err   error
	next  int
}

func (l *demoLexer) NextToken() (lexer.Token, error) {
	i := l.next
	l.next++
	*l.log = append(*l.log, fmt.Sprintf("next %d", i))
	if i == l.errAt {
		return lexer.Token{Lexeme: "junk", Pos: lexer.Position{Filename: "junk", Offset: 99, Line: 9, Column: 9}}, l.err
	}
	if i >= len(l.toks) {
		return lexer.Token{}, io.EOF
	}
	return l.toks[i], nil
}

func demoPos(off int) lexer.Position {
	return lexer.Position{Filename: "mock", Offset: off, Line: 1, Column: off + 1}
}

func TestRefactorDemo_LexerInterleavingAndErrors(t *testing.T) {
	toks := []lexer.Token{
		{Terminal: grammar.Terminal("grammar"), Lexeme: "grammar", Pos: demoPos(0)},
		{Terminal: grammar.Terminal("IDENT"), Lexeme: "g", Pos: demoPos(8)},
		{Terminal: grammar.Terminal(";"), Lexeme: ";", Pos: demoPos(9)},
	}

	run := func(errAt int, lexErr error) ([]string, error) {
		var log []string
		p := &Parser{L: &demoLexer{log: &log, toks: toks, errAt: errAt, err: lexErr}}
		err := p.Parse(
			func(tok *lexer.Token) error { log = append(log, "tok "+tok.Lexeme); return nil },
			func(i int) error { log = append(log, fmt.Sprintf("prod %d", i)); return nil },
		)
		return log, err
	}

	// The token callback runs before the next token is read.
	log, err := run(-1, nil)
	want := []string{"next 0", "tok grammar", "next 1", "tok g", "next 2", "tok ;", "next 3", "prod 7", "prod 1", "prod 3", "prod 0"}
	if err != nil || !reflect.DeepEqual(log, want) {
		t.Errorf("interleaving: %v\n got %q\nwant %q", err, log, want)
	}

	lexErr := errors.New("cannot read rune")
	expected := [][]string{
		{"next 0"},
		{"next 0", "tok grammar", "next 1"},
		{"next 0", "tok grammar", "next 1", "tok g", "next 2"},
		{"next 0", "tok grammar", "next 1", "tok g", "next 2", "tok ;", "next 3"},
	}
	for errAt, want := range expected {
		log, err := run(errAt, lexErr)
		if !reflect.DeepEqual(log, want) {
			t.Errorf("lexer error at %d:\n got %q\nwant %q", errAt, log, want)
		}
		perr, ok := err.(*parser.ParseError)
		if !ok {
			t.Fatalf("lexer error at %d: error is %T", errAt, err)
		}
		if perr.Cause != lexErr || perr.Description != "" || !perr.Pos.IsZero() || err.Error() != "cannot read rune" {
			t.Errorf("lexer error at %d: %#v", errAt, perr)
		}
	}

	// An error that wraps io.EOF is the end of the input, not a failure.
	log, err = run(3, fmt.Errorf("wrapped: %w", io.EOF))
	if err != nil || len(log) != 11 {
		t.Errorf("wrapped EOF: %v, %q", err, log)
	}
}

func TestRefactorDemo_TokenPointerAndMutation(t *testing.T) {
	const src = "grammar g; s = a b;"

	// The position in the error is the one the token has when the callback returns.
	p, _ := New("demo", strings.NewReader(src))
	n := 0
	err := p.Parse(func(tok *lexer.Token) error {
		if n++; n == 5 {
			tok.Pos = lexer.Position{Filename: "moved", Offset: 41, Line: 4, Column: 2}
			return errDemo
		}
		return nil
	}, nil)
	perr, ok := err.(*parser.ParseError)
	if !ok || perr.Cause != errDemo || perr.Pos != (lexer.Position{Filename: "moved", Offset: 41, Line: 4, Column: 2}) {
		t.Errorf("mutated position: %v", err)
	}
	if err.Error() != "moved:4:2: demo sentinel" {
		t.Errorf("mutated position: message %q", err.Error())
	}

	// Changing the lexeme or the position of a delivered token does not change the parse.
	p, _ = New("demo", strings.NewReader(src))
	var prods []int
	err = p.Parse(func(tok *lexer.Token) error {
		tok.Lexeme, tok.Pos = "zzz", lexer.Position{}
		return nil
	}, func(i int) error {
		prods = append(prods, i)
		return nil
	})
	if want := []int{7, 1, 3, 32, 22, 32, 30, 32, 30, 23, 20, 6, 2, 0}; err != nil || !reflect.DeepEqual(prods, want) {
		t.Errorf("mutating tokens: %v, %v, want %v", err, prods, want)
	}

	// Every call gets the address of the same token variable.
	p, _ = New("demo", strings.NewReader(src))
	ptrs := map[*lexer.Token]int{}
	calls := 0
	if err := p.Parse(func(tok *lexer.Token) error { ptrs[tok]++; calls++; return nil }, nil); err != nil {
		t.Fatal(err)
	}
	if calls != 8 || len(ptrs) != 1 {
		t.Errorf("%d calls with %d distinct pointers", calls, len(ptrs))
	}
}

// demoSexpr evaluates every production to "(index child ...)" and checks what the callback receives.
func demoSexpr(t *testing.T, calls *[]int, failAt int, failWith error) EvaluateFunc {
	return func(i int, rhs []*lr.Value) (any, error) {
		*calls = append(*calls, i)

		body := productions[i].Body
		if len(rhs) != len(body) {
			t.Errorf("production %d: %d values for a body of %d", i, len(rhs), len(body))
		}

		parts := []string{fmt.Sprint(i)}
		for k, v := range rhs {
			if v == nil {
				t.Fatalf("production %d: value %d is nil", i, k)
			}
			s, ok := v.Val.(string)
			if !ok {
				t.Fatalf("production %d: value %d is a %T", i, k, v.Val)
			}
			if body[k].IsTerminal() {
				if v.Pos == nil {
					t.Errorf("production %d: token value %d has no position", i, k)
				}
				s = fmt.Sprintf("%q@%d", s, v.Pos.Offset)
			}
			parts = append(parts, s)
		}

		if len(*calls)-1 == failAt {
			return "discarded", failWith
		}

		return "(" + strings.Join(parts, " ") + ")", nil
	}
}

// demoNodeSexpr renders the tree of ParseAndBuildAST in the format of demoSexpr.
func demoNodeSexpr(t *testing.T, n parser.Node) (string, *lexer.Position) {
	switch n := n.(type) {
	case *parser.LeafNode:
		return fmt.Sprintf("%q@%d", n.Lexeme, n.Position.Offset), &n.Position

	case *parser.InternalNode:
		index := -1
		for i, prod := range productions {
			if prod.Equal(n.Production) {
				index = i
			}
		}
		parts := []string{fmt.Sprint(index)}
		var first *lexer.Position
		for k, c := range n.Children {
			s, pos := demoNodeSexpr(t, c)
			if k == 0 {
				first = pos
			}
			parts = append(parts, s)
		}
		return "(" + strings.Join(parts, " ") + ")", first
	}

	t.Fatalf("unknown node %T", n)
	return "", nil
}

func TestRefactorDemo_EvaluateConcrete(t *testing.T) {
	tests := []struct {
		src      string
		expected string
		offset   int
	}{
		{"grammar x;", `(0 (1 "grammar"@0 "x"@8 (7 ";"@9)) (3))`, 0},
		{"  grammar x", `(0 (1 "grammar"@2 "x"@10 (8)) (3))`, 2},
		{"grammar g; e = ;", `(0 (1 "grammar"@0 "g"@8 (7 ";"@9)) (2 (3) (6 (21 (22 (32 "e"@11)) "="@13) ";"@15)))`, 0},
		{
			"\ngrammar g\nAB = $ID\ns = a | AB;",
			`(0 (1 "grammar"@1 "g"@9 (8)) (2 (2 (3) (4 (11 "AB"@11 "="@14 "$ID"@16) (8))) (6 (20 (22 (32 "s"@20)) "="@22 (28 (30 (32 "a"@24)) "|"@26 (31 (33 "AB"@28)))) ";"@30)))`,
			1,
		},
	}

	for _, tc := range tests {
		t.Run(tc.src, func(t *testing.T) {
			p, _ := New("demo", strings.NewReader(tc.src))
			var calls []int
			val, err := p.ParseAndEvaluate(demoSexpr(t, &calls, -1, nil))
			if err != nil {
				t.Fatal(err)
			}
			if val.Val != tc.expected {
				t.Errorf("value:\n got %s\nwant %s", val.Val, tc.expected)
			}
			if val.Pos == nil || val.Pos.Offset != tc.offset || val.Pos.Filename != "demo" {
				t.Errorf("position %v, want offset %d", val.Pos, tc.offset)
			}
		})
	}
}

func TestRefactorDemo_EvaluateAgainstTree(t *testing.T) {
	for name, src := range demoSources(t) {
		t.Run(name, func(t *testing.T) {
			full, parseErr := demoTrace(t, src, -1)
			var prods []int
			for _, e := range full {
				if !e.token {
					prods = append(prods, e.index)
				}
			}

			p, _ := New("demo", strings.NewReader(src))
			var calls []int
			val, err := p.ParseAndEvaluate(demoSexpr(t, &calls, -1, nil))

			// The evaluation callback runs once per reduction, in the order of the production callback.
			if !reflect.DeepEqual(calls, prods) {
				t.Errorf("evaluated %v, reduced %v", calls, prods)
			}

			if parseErr != nil {
				if val != nil || err == nil || err.Error() != parseErr.Error() {
					t.Errorf("got (%v, %v), want the error %v", val, err, parseErr)
				}
				return
			}
			if err != nil {
				t.Fatal(err)
			}

			p, _ = New("demo", strings.NewReader(src))
			root, err := p.ParseAndBuildAST()
			if err != nil {
				t.Fatal(err)
			}
			want, pos := demoNodeSexpr(t, root)
			if val.Val != want {
				t.Errorf("value:\n got %s\nwant %s", val.Val, want)
			}
			if val.Pos == nil || pos == nil || *val.Pos != *pos {
				t.Errorf("position %v, want %v", val.Pos, pos)
			}
		})
	}
}

func TestRefactorDemo_EvaluatePositions(t *testing.T) {
	const src = "grammar g; a = ; BB = \"b\"; c = a BB | ;"

	// The head takes the very position of its first body symbol, or none for an empty body;
	// the values of different tokens never share a position.
	p, _ := New("demo", strings.NewReader(src))
	tokenPos := map[*lexer.Position]bool{}
	n := 0
	val, err := p.ParseAndEvaluate(func(i int, rhs []*lr.Value) (any, error) {
		n++
		for k, sym := range productions[i].Body {
			if sym.IsTerminal() {
				if tokenPos[rhs[k].Pos] {
					t.Errorf("production %d: position of token %d seen before", i, k)
				}
				tokenPos[rhs[k].Pos] = true
			}
		}
		if len(rhs) == 0 {
			return [2]any{i, (*lexer.Position)(nil)}, nil
		}
		if inner, ok := rhs[0].Val.([2]any); ok && inner[1] != rhs[0].Pos {
			t.Errorf("production %d: first value has position %v, its own first symbol had %v", i, rhs[0].Pos, inner[1])
		}
		return [2]any{i, rhs[0].Pos}, nil
	})
	if err != nil {
		t.Fatal(err)
	}
	if n != 24 || len(tokenPos) != 16 {
		t.Errorf("%d reductions, %d token positions", n, len(tokenPos))
	}
	if got := val.Val.([2]any); got[0] != 0 || got[1] != val.Pos || val.Pos.Offset != 0 {
		t.Errorf("root %v at %v", val.Val, val.Pos)
	}

	// A nil result is a value like any other.
	p, _ = New("demo", strings.NewReader(src))
	val, err = p.ParseAndEvaluate(func(int, []*lr.Value) (any, error) { return nil, nil })
	if err != nil || val == nil || val.Val != nil || val.Pos == nil || *val.Pos != (lexer.Position{Filename: "demo", Offset: 0, Line: 1, Column: 1}) {
		t.Errorf("nil results: %v, %v", val, err)
	}
}

func TestRefactorDemo_EvaluateErrorsAbort(t *testing.T) {
	inner := &parser.ParseError{Description: "inner", Pos: lexer.Position{Filename: "f", Offset: 3, Line: 2, Column: 1}}

	for name, src := range demoSources(t) {
		t.Run(name, func(t *testing.T) {
			var all []int
			p, _ := New("demo", strings.NewReader(src))
			_, _ = p.ParseAndEvaluate(demoSexpr(t, &all, -1, nil))

			for k := range all {
				for _, failWith := range []error{errDemo, inner} {
					var calls []int
					p, _ := New("demo", strings.NewReader(src))
					val, err := p.ParseAndEvaluate(demoSexpr(t, &calls, k, failWith))

					if val != nil {
						t.Errorf("fail at %d: value %v", k, val)
					}
					if !reflect.DeepEqual(calls, all[:k+1]) {
						t.Fatalf("fail at %d: evaluated %v, want %v", k, calls, all[:k+1])
					}
					perr, ok := err.(*parser.ParseError)
					if !ok {
						t.Fatalf("fail at %d: error is %T (%v)", k, err, err)
					}
					if perr == inner || perr.Cause != failWith || perr.Description != "" || !perr.Pos.IsZero() {
						t.Errorf("fail at %d: %#v", k, perr)
					}
					if err.Error() != failWith.Error() {
						t.Errorf("fail at %d: message %q, want %q", k, err.Error(), failWith.Error())
					}
				}
			}
		})
	}
}
