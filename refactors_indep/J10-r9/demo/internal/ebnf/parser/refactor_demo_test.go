package parser

import (
	"errors"
	"fmt"
	"os"
	"reflect"
	"strings"
	"testing"

	"github.com/moorara/algo/grammar"
	"github.com/moorara/algo/lexer"
	"github.com/moorara/algo/parser"
	"github.com/moorara/algo/parser/lr"
)

// Characterization of the LR driver (Parse, ParseAndBuildAST, ParseAndEvaluate) for property C18.
// Every expectation below is a concrete value; the file passes on the code before and after the refactoring.

type demoCase struct {
	name  string
	src   string
	trace string // tokens in source order and reductions, as seen by the callbacks of Parse
	sexpr string // value computed through ParseAndEvaluate, with the position of every head
	err   string // error text, if the input is rejected
}

var demoCases = []demoCase{
	{
		name:  "NameOnly",
		src:   `grammar g`,
		trace: `grammar:"grammar"@1:1 IDENT:"g"@1:9 r8 r1 r3 r0`,
		sexpr: `(0@1:1 (1@1:1 grammar g (8@-)) (3@-))`,
	},
	{
		name:  "NameSemi",
		src:   `grammar g;`,
		trace: `grammar:"grammar"@1:1 IDENT:"g"@1:9 ;:";"@1:10 r7 r1 r3 r0`,
		sexpr: `(0@1:1 (1@1:1 grammar g (7@1:10 ;)) (3@-))`,
	},
	{
		name:  "EmptyRule",
		src:   "grammar g\ns = ;",
		trace: `grammar:"grammar"@1:1 IDENT:"g"@1:9 r8 r1 r3 IDENT:"s"@2:1 r32 r22 =:"="@2:3 r21 ;:";"@2:5 r6 r2 r0`,
		sexpr: `(0@1:1 (1@1:1 grammar g (8@-)) (2@- (3@-) (6@2:1 (21@2:1 (22@2:1 (32@2:1 s)) =) ;)))`,
	},
	{
		name:  "StringToken",
		src:   "grammar g\nTK = \"x\"",
		trace: `grammar:"grammar"@1:1 IDENT:"g"@1:9 r8 r1 r3 TOKEN:"TK"@2:1 =:"="@2:4 STRING:"x"@2:6 r9 r8 r4 r2 r0`,
		sexpr: `(0@1:1 (1@1:1 grammar g (8@-)) (2@- (3@-) (4@2:1 (9@2:1 TK = x) (8@-))))`,
	},
	{
		name:  "RegexAndPredef",
		src:   "grammar g;\nAA = /a+/;\nBB = $ID",
		trace: `grammar:"grammar"@1:1 IDENT:"g"@1:9 ;:";"@1:10 r7 r1 r3 TOKEN:"AA"@2:1 =:"="@2:4 REGEX:"a+"@2:6 r10 ;:";"@2:10 r7 r4 r2 TOKEN:"BB"@3:1 =:"="@3:4 PREDEF:"$ID"@3:6 r11 r8 r4 r2 r0`,
		sexpr: `(0@1:1 (1@1:1 grammar g (7@1:10 ;)) (2@- (2@- (3@-) (4@2:1 (10@2:1 AA = a+) (7@2:10 ;))) (4@3:1 (11@3:1 BB = $ID) (8@-))))`,
	},
	{
		name:  "ConcatIsLeftAssociative",
		src:   "grammar g\ns = a b c;",
		trace: `grammar:"grammar"@1:1 IDENT:"g"@1:9 r8 r1 r3 IDENT:"s"@2:1 r32 r22 =:"="@2:3 IDENT:"a"@2:5 r32 r30 IDENT:"b"@2:7 r32 r30 r23 IDENT:"c"@2:9 r32 r30 r23 r20 ;:";"@2:10 r6 r2 r0`,
		sexpr: `(0@1:1 (1@1:1 grammar g (8@-)) (2@- (3@-) (6@2:1 (20@2:1 (22@2:1 (32@2:1 s)) = (23@2:5 (23@2:5 (30@2:5 (32@2:5 a)) (30@2:7 (32@2:7 b))) (30@2:9 (32@2:9 c)))) ;)))`,
	},
	{
		name:  "AltBindsLooserThanConcat",
		src:   "grammar g\ns = a BB | \"c\" | ;",
		trace: `grammar:"grammar"@1:1 IDENT:"g"@1:9 r8 r1 r3 IDENT:"s"@2:1 r32 r22 =:"="@2:3 IDENT:"a"@2:5 r32 r30 TOKEN:"BB"@2:7 r33 r31 r23 |:"|"@2:10 STRING:"c"@2:12 r34 r31 |:"|"@2:16 r29 r28 r20 ;:";"@2:18 r6 r2 r0`,
		sexpr: `(0@1:1 (1@1:1 grammar g (8@-)) (2@- (3@-) (6@2:1 (20@2:1 (22@2:1 (32@2:1 s)) = (28@2:5 (23@2:5 (30@2:5 (32@2:5 a)) (31@2:7 (33@2:7 BB))) | (29@2:12 (31@2:12 (34@2:12 c)) |))) ;)))`,
	},
	{
		name:  "Brackets",
		src:   "grammar g\ns = ( a ) [ b ] { c } {{ d }};",
		trace: `grammar:"grammar"@1:1 IDENT:"g"@1:9 r8 r1 r3 IDENT:"s"@2:1 r32 r22 =:"="@2:3 (:"("@2:5 IDENT:"a"@2:7 r32 r30 ):")"@2:9 r24 [:"["@2:11 IDENT:"b"@2:13 r32 r30 ]:"]"@2:15 r25 r23 {:"{"@2:17 IDENT:"c"@2:19 r32 r30 }:"}"@2:21 r26 r23 {{:"{{"@2:23 IDENT:"d"@2:26 r32 r30 }}:"}}"@2:28 r27 r23 r20 ;:";"@2:30 r6 r2 r0`,
		sexpr: `(0@1:1 (1@1:1 grammar g (8@-)) (2@- (3@-) (6@2:1 (20@2:1 (22@2:1 (32@2:1 s)) = (23@2:5 (23@2:5 (23@2:5 (24@2:5 ( (30@2:7 (32@2:7 a)) )) (25@2:11 [ (30@2:13 (32@2:13 b)) ])) (26@2:17 { (30@2:19 (32@2:19 c)) })) (27@2:23 {{ (30@2:26 (32@2:26 d)) }}))) ;)))`,
	},
	{
		name:  "Directives",
		src:   "grammar g\n@left AA \"b\" <e = e AA e>\n@right <e = > CC;\n@none DD",
		trace: `grammar:"grammar"@1:1 IDENT:"g"@1:9 r8 r1 r3 @left:"@left"@2:1 TOKEN:"AA"@2:7 r33 r17 STRING:"b"@2:10 r34 r15 <:"<"@2:14 IDENT:"e"@2:15 r32 r22 =:"="@2:17 IDENT:"e"@2:19 r32 r30 TOKEN:"AA"@2:21 r33 r31 r23 IDENT:"e"@2:24 r32 r30 r23 r20 >:">"@2:25 r19 r16 r12 r8 r5 r2 @right:"@right"@3:1 <:"<"@3:8 IDENT:"e"@3:9 r32 r22 =:"="@3:11 r21 >:">"@3:13 r19 r18 TOKEN:"CC"@3:15 r33 r15 r13 ;:";"@3:17 r7 r5 r2 @none:"@none"@4:1 TOKEN:"DD"@4:7 r33 r17 r14 r8 r5 r2 r0`,
		sexpr: `(0@1:1 (1@1:1 grammar g (8@-)) (2@- (2@- (2@- (3@-) (5@2:1 (12@2:1 @left (16@2:7 (15@2:7 (17@2:7 (33@2:7 AA)) (34@2:10 b)) (19@2:14 < (20@2:15 (22@2:15 (32@2:15 e)) = (23@2:19 (23@2:19 (30@2:19 (32@2:19 e)) (31@2:21 (33@2:21 AA))) (30@2:24 (32@2:24 e)))) >))) (8@-))) (5@3:1 (13@3:1 @right (15@3:8 (18@3:8 (19@3:8 < (21@3:9 (22@3:9 (32@3:9 e)) =) >)) (33@3:15 CC))) (7@3:17 ;))) (5@4:1 (14@4:1 @none (17@4:7 (33@4:7 DD))) (8@-))))`,
	},
	{
		name: "Empty",
		src:  ``,
		err:  `unexpected string "": no action exists in the parsing table for ACTION[0, $]`,
	},
	{
		name:  "MissingName",
		src:   `grammar ;`,
		trace: `grammar:"grammar"@1:1`,
		err:   `demo:1:9: unexpected string ";": no action exists in the parsing table for ACTION[43, ";"]`,
	},
	{
		name:  "RuleWithoutSemicolon",
		src:   "grammar g\ns = a",
		trace: `grammar:"grammar"@1:1 IDENT:"g"@1:9 r8 r1 r3 IDENT:"s"@2:1 r32 r22 =:"="@2:3 IDENT:"a"@2:5`,
		err:   `unexpected string "": no action exists in the parsing table for ACTION[44, $]`,
	},
	{
		name:  "UnbalancedParen",
		src:   "grammar g\ns = ( a ];",
		trace: `grammar:"grammar"@1:1 IDENT:"g"@1:9 r8 r1 r3 IDENT:"s"@2:1 r32 r22 =:"="@2:3 (:"("@2:5 IDENT:"a"@2:7 r32 r30`,
		err:   `demo:2:9: unexpected string "]": no action exists in the parsing table for ACTION[26, "]"]`,
	},
	{
		name:  "TokenWithoutValue",
		src:   "grammar g\nTK = ;",
		trace: `grammar:"grammar"@1:1 IDENT:"g"@1:9 r8 r1 r3 TOKEN:"TK"@2:1 =:"="@2:4`,
		err:   `demo:2:6: unexpected string ";": no action exists in the parsing table for ACTION[32, ";"]`,
	},
	{
		name:  "LexicalError",
		src:   "grammar g\ns = ? ;",
		trace: `grammar:"grammar"@1:1 IDENT:"g"@1:9 r8 r1 r3 IDENT:"s"@2:1 r32 r22 =:"="@2:3`,
		err:   `lexical error at demo:2:5:`,
	},
}

func demoParser(t *testing.T, src string) *Parser {
	t.Helper()

	p, err := New("demo", strings.NewReader(src))
	if err != nil {
		t.Fatalf("New: %v", err)
	}

	return p
}

func demoPos(p *lexer.Position) string {
	if p == nil {
		return "-"
	}

	return fmt.Sprintf("%d:%d", p.Line, p.Column)
}

// demoEvent is one invocation of a callback of Parse.
type demoEvent struct {
	token *lexer.Token // a copy; nil for a reduction
	prod  int
}

func demoRecord(p *Parser) ([]demoEvent, error) {
	var events []demoEvent

	err := p.Parse(
		func(tok *lexer.Token) error {
			c := *tok
			events = append(events, demoEvent{token: &c})
			return nil
		},
		func(i int) error {
			events = append(events, demoEvent{prod: i})
			return nil
		},
	)

	return events, err
}

func demoTrace(events []demoEvent) string {
	var parts []string

	for _, e := range events {
		if e.token != nil {
			parts = append(parts, fmt.Sprintf("%s:%q@%s", string(e.token.Terminal), e.token.Lexeme, demoPos(&e.token.Pos)))
		} else {
			parts = append(parts, fmt.Sprintf("r%d", e.prod))
		}
	}

	return strings.Join(parts, " ")
}

// demoTree rebuilds the parse tree from the events alone (a reference for ParseAndBuildAST).
func demoTree(events []demoEvent) parser.Node {
	var st []parser.Node

	for _, e := range events {
		if e.token != nil {
			st = append(st, &parser.LeafNode{Terminal: e.token.Terminal, Lexeme: e.token.Lexeme, Position: e.token.Pos})
			continue
		}

		prod := productions[e.prod]
		n := len(prod.Body)
		in := &parser.InternalNode{NonTerminal: prod.Head, Production: prod}
		for _, c := range st[len(st)-n:] {
			in.Children = append(in.Children, c)
		}
		st = append(st[:len(st)-n], in)
	}

	if len(st) != 1 {
		return nil
	}

	return st[0]
}

// demoSexpr evaluates a specification to an S-expression and checks, on every call,
// that the evaluation callback receives exactly the values of the body, left to right.
func demoSexpr(t *testing.T, p *Parser) (*lr.Value, error) {
	t.Helper()

	return p.ParseAndEvaluate(func(i int, rhs []*lr.Value) (any, error) {
		body := productions[i].Body

		if rhs == nil {
			t.Errorf("production %d: rhs is nil (it is an empty non-nil slice for ε)", i)
		}

		if len(rhs) != len(body) {
			t.Errorf("production %d: got %d values for %d body symbols", i, len(rhs), len(body))
		}

		pos := "-"
		if len(rhs) > 0 {
			pos = demoPos(rhs[0].Pos)
		}

		parts := []string{fmt.Sprintf("(%d@%s", i, pos)}

		for k, v := range rhs {
			switch x := v.Val.(type) {
			case string: // a token: the symbol must be a terminal
				if !body[k].IsTerminal() {
					t.Errorf("production %d: value %d is a lexeme, symbol %s is not a terminal", i, k, body[k])
				}
				if v.Pos == nil {
					t.Errorf("production %d: token value %d has no position", i, k)
				}
				parts = append(parts, x)
			case [2]string: // a head: {non-terminal, text}
				if body[k].IsTerminal() || grammar.NonTerminal(x[0]) != body[k] {
					t.Errorf("production %d: value %d stands for %s, symbol is %s", i, k, x[0], body[k])
				}
				parts = append(parts, x[1])
			default:
				t.Errorf("production %d: value %d has type %T", i, k, v.Val)
			}
		}

		return [2]string{string(productions[i].Head), strings.Join(parts, " ") + ")"}, nil
	})
}

func TestRefactorDemo_Cases(t *testing.T) {
	dump := os.Getenv("REFACTOR_DEMO_DUMP") != ""

	for _, tc := range demoCases {
		t.Run(tc.name, func(t *testing.T) {
			events, err := demoRecord(demoParser(t, tc.src))
			trace := demoTrace(events)

			if dump {
				fmt.Printf("DUMP\t%s\ttrace\t%s\nDUMP\t%s\terr\t%v\n", tc.name, trace, tc.name, err)
			}

			if trace != tc.trace {
				t.Errorf("trace:\n got  %s\n want %s", trace, tc.trace)
			}

			root, astErr := demoParser(t, tc.src).ParseAndBuildAST()
			val, evalErr := demoSexpr(t, demoParser(t, tc.src))

			if tc.err != "" {
				for name, e := range map[string]error{"Parse": err, "ParseAndBuildAST": astErr, "ParseAndEvaluate": evalErr} {
					var pe *parser.ParseError
					if e == nil || !errors.As(e, &pe) {
						t.Fatalf("%s: want a *parser.ParseError, got %v", name, e)
					}
					if e.Error() != tc.err {
						t.Errorf("%s: error %q, want %q", name, e, tc.err)
					}
				}
				if err.Error() != astErr.Error() || err.Error() != evalErr.Error() {
					t.Errorf("the three entry points disagree: %q / %q / %q", err, astErr, evalErr)
				}
				if root != nil {
					t.Errorf("ParseAndBuildAST: root %v with an error", root)
				}
				if val != nil {
					t.Errorf("ParseAndEvaluate: value %v with an error", val)
				}
				return
			}

			if err != nil || astErr != nil || evalErr != nil {
				t.Fatalf("unexpected errors: %v / %v / %v", err, astErr, evalErr)
			}

			// Last event is the reduction by the start production; tokens are in source order.
			if last := events[len(events)-1]; last.token != nil || last.prod != 0 {
				t.Errorf("last event is not the reduction r0")
			}

			prev := -1
			for _, e := range events {
				if e.token != nil {
					if e.token.Pos.Offset <= prev {
						t.Errorf("token %v out of source order", e.token)
					}
					prev = e.token.Pos.Offset
				}
			}

			// The AST is the tree of the derivation reported through the callbacks.
			want := demoTree(events)
			if want == nil || !reflect.DeepEqual(root, want) {
				t.Errorf("ParseAndBuildAST:\n got  %v\n want %v", root, want)
			}
			if !root.Equal(want) {
				t.Errorf("ParseAndBuildAST: Equal is false")
			}

			// Nodes of ε-productions have a nil list of children, others have exactly the body.
			var walk func(n parser.Node)
			walk = func(n parser.Node) {
				in, ok := n.(*parser.InternalNode)
				if !ok {
					return
				}
				if len(in.Production.Body) == 0 && in.Children != nil {
					t.Errorf("node of %s has a non-nil list of children", in.Production)
				}
				if len(in.Children) != len(in.Production.Body) {
					t.Errorf("node of %s has %d children", in.Production, len(in.Children))
				}
				for k, c := range in.Children {
					if c.Symbol() != in.Production.Body[k] {
						t.Errorf("node of %s: child %d is %s", in.Production, k, c.Symbol())
					}
					walk(c)
				}
			}
			walk(root)

			got := val.Val.([2]string)
			if dump {
				fmt.Printf("DUMP\t%s\tsexpr\t%s\n", tc.name, got[1])
			}
			if got[0] != "grammar" || got[1] != tc.sexpr {
				t.Errorf("ParseAndEvaluate:\n got  %s\n want %s", got[1], tc.sexpr)
			}
			if demoPos(val.Pos) != "1:1" {
				t.Errorf("ParseAndEvaluate: position of the result is %s", demoPos(val.Pos))
			}
		})
	}
}

// The position of a head is the very position object of its first body value (not a copy),
// and the slice handed to the evaluation callback is the callback's own.
func TestRefactorDemo_EvaluatePositionsAndSlices(t *testing.T) {
	src := "grammar g;\nTK = \"x\";\ns = a | ;"

	var seen [][]*lr.Value

	val, err := demoParser(t, src).ParseAndEvaluate(func(i int, rhs []*lr.Value) (any, error) {
		seen = append(seen, rhs)

		// Scribbling over the rest of the slice after use must not disturb the parse
		// (the first element is read once more for the position of the head).
		defer func() {
			for k := 1; k < len(rhs); k++ {
				rhs[k] = nil
			}
		}()

		if len(rhs) == 0 {
			return fmt.Sprintf("e%d", i), nil
		}

		return rhs[0], nil
	})

	if err != nil {
		t.Fatal(err)
	}

	// Every head value carries its first body value: walk down to the first token.
	depth := 0
	first := val.Pos
	for v := val; ; depth++ {
		inner, ok := v.Val.(*lr.Value)
		if !ok {
			if v.Val != "grammar" {
				t.Errorf("leftmost leaf is %v", v.Val)
			}
			break
		}
		if inner.Pos != first {
			t.Errorf("depth %d: position %p is not the position %p of the first body value", depth, inner.Pos, first)
		}
		v = inner
	}

	if depth != 2 { // grammar -> name -> "grammar"
		t.Errorf("depth = %d", depth)
	}

	if len(seen) != 16 {
		t.Errorf("eval was called %d times", len(seen))
	}
}

var errDemo = errors.New("boom")

// countingLexer counts the calls made to the underlying lexer.
type countingLexer struct {
	lexer.Lexer
	calls int
}

func (c *countingLexer) NextToken() (lexer.Token, error) {
	c.calls++
	return c.Lexer.NextToken()
}

// An error from the k-th callback stops the parse right there, for every k.
func TestRefactorDemo_ErrorsAbort(t *testing.T) {
	src := "grammar g;\nTK = \"x\"\n@left TK <s = s TK>;\ns = s TK | [ a ] {{ b }} | ;"

	all, err := demoRecord(demoParser(t, src))
	if err != nil {
		t.Fatal(err)
	}

	if len(all) != 71 {
		t.Fatalf("%d events", len(all))
	}

	nTokens := 0
	for _, e := range all {
		if e.token != nil {
			nTokens++
		}
	}

	if nTokens != 28 {
		t.Fatalf("%d tokens", nTokens)
	}

	for k := range all {
		p := demoParser(t, src)
		cl := &countingLexer{Lexer: p.L}
		p.L = cl

		var got []demoEvent
		tokensSeen := 0

		fail := func(e demoEvent) error {
			got = append(got, e)
			if len(got) == k+1 {
				return errDemo
			}
			return nil
		}

		err := p.Parse(
			func(tok *lexer.Token) error {
				c := *tok
				tokensSeen++
				return fail(demoEvent{token: &c})
			},
			func(i int) error { return fail(demoEvent{prod: i}) },
		)

		var pe *parser.ParseError
		if !errors.As(err, &pe) || pe.Cause != errDemo || !errors.Is(err, errDemo) {
			t.Fatalf("k=%d: error %v", k, err)
		}

		if pe.Description != "" {
			t.Errorf("k=%d: description %q", k, pe.Description)
		}

		// No callback after the failing one, and the prefix is the prefix of the full run.
		if len(got) != k+1 || demoTrace(got) != demoTrace(all[:k+1]) {
			t.Errorf("k=%d: events %s", k, demoTrace(got))
		}

		if tok := all[k].token; tok != nil {
			// Token callback: the error carries the position of the token, and the lexer is not consulted again.
			if pe.Pos != tok.Pos {
				t.Errorf("k=%d: position %v, want %v", k, pe.Pos, tok.Pos)
			}
			if want := fmt.Sprintf("demo:%d:%d: boom", tok.Pos.Line, tok.Pos.Column); err.Error() != want {
				t.Errorf("k=%d: text %q, want %q", k, err, want)
			}
			if cl.calls != tokensSeen {
				t.Errorf("k=%d: %d tokens read, %d yielded", k, cl.calls, tokensSeen)
			}
		} else {
			// Production callback: no position; the lookahead has been read, nothing more.
			if !pe.Pos.IsZero() || err.Error() != "boom" {
				t.Errorf("k=%d: error %q with position %v", k, err, pe.Pos)
			}
			if cl.calls != tokensSeen+1 {
				t.Errorf("k=%d: %d tokens read, %d yielded", k, cl.calls, tokensSeen)
			}
		}
	}

	// The same through ParseAndEvaluate: the j-th evaluation fails.
	nProds := len(all) - nTokens
	for j := 0; j < nProds; j++ {
		calls := 0
		val, err := demoParser(t, src).ParseAndEvaluate(func(i int, rhs []*lr.Value) (any, error) {
			calls++
			if calls == j+1 {
				return "ignored", fmt.Errorf("eval %d of %d: %w", calls, i, errDemo)
			}
			return i, nil
		})

		var pe *parser.ParseError
		if val != nil || !errors.As(err, &pe) || !errors.Is(err, errDemo) || !pe.Pos.IsZero() || pe.Description != "" {
			t.Fatalf("j=%d: value %v, error %v", j, val, err)
		}

		if calls != j+1 {
			t.Errorf("j=%d: eval called %d times", j, calls)
		}

		// Which production was being reduced: the (j+1)-th reduction of the full run.
		seen, want := 0, -1
		for _, e := range all {
			if e.token == nil {
				if seen == j {
					want = e.prod
					break
				}
				seen++
			}
		}

		if text := fmt.Sprintf("eval %d of %d: boom", j+1, want); err.Error() != text {
			t.Errorf("j=%d: text %q, want %q", j, err, text)
		}
	}
}

// Nil callbacks are allowed, in every combination, and do not change what the other one sees.
func TestRefactorDemo_NilCallbacks(t *testing.T) {
	src := "grammar g\nTK = /t/\ns = TK s | ;"

	full, err := demoRecord(demoParser(t, src))
	if err != nil {
		t.Fatal(err)
	}

	var toks, prods []demoEvent
	for _, e := range full {
		if e.token != nil {
			toks = append(toks, e)
		} else {
			prods = append(prods, e)
		}
	}

	if err := demoParser(t, src).Parse(nil, nil); err != nil {
		t.Errorf("Parse(nil, nil): %v", err)
	}

	var got []demoEvent
	err = demoParser(t, src).Parse(func(tok *lexer.Token) error {
		c := *tok
		got = append(got, demoEvent{token: &c})
		return nil
	}, nil)
	if err != nil || demoTrace(got) != demoTrace(toks) {
		t.Errorf("Parse(f, nil): %v, %s", err, demoTrace(got))
	}

	got = nil
	err = demoParser(t, src).Parse(nil, func(i int) error {
		got = append(got, demoEvent{prod: i})
		return nil
	})
	if err != nil || demoTrace(got) != demoTrace(prods) {
		t.Errorf("Parse(nil, f): %v, %s", err, demoTrace(got))
	}

	if demoTrace(prods) != "r8 r1 r3 r10 r8 r4 r2 r32 r22 r33 r31 r32 r30 r23 r29 r20 r6 r2 r0" {
		t.Errorf("reductions: %s", demoTrace(prods))
	}

	// Syntax errors with nil callbacks keep their text.
	err = demoParser(t, "grammar g )").Parse(nil, nil)
	if err == nil || err.Error() != `demo:1:11: unexpected string ")": no action exists in the parsing table for ACTION[23, ")"]` {
		t.Errorf("Parse(nil, nil) on bad input: %v", err)
	}
}

// The token callback is always handed the address of the same lookahead variable,
// which holds the end marker once the input is accepted.
func TestRefactorDemo_TokenPointer(t *testing.T) {
	var ptrs []*lexer.Token

	err := demoParser(t, "grammar g; s = a;").Parse(func(tok *lexer.Token) error {
		ptrs = append(ptrs, tok)
		return nil
	}, nil)

	if err != nil {
		t.Fatal(err)
	}

	if len(ptrs) != 7 {
		t.Fatalf("%d tokens", len(ptrs))
	}

	for _, p := range ptrs {
		if p != ptrs[0] {
			t.Errorf("token callback got different addresses")
		}
	}

	if ptrs[0].Terminal != grammar.Endmarker || ptrs[0].Lexeme != "" {
		t.Errorf("retained token is %v", ptrs[0])
	}
}

// Lexer failures: at the first token, in the middle, with and without a partial token.
func TestRefactorDemo_LexerFailures(t *testing.T) {
	tok := func(term, lexeme string, off int) NextTokenMock {
		return NextTokenMock{OutToken: lexer.Token{
			Terminal: grammar.Terminal(term),
			Lexeme:   lexeme,
			Pos:      lexer.Position{Filename: "m", Offset: off, Line: 1, Column: off + 1},
		}}
	}

	ioErr := errors.New("disk on fire")

	stream := []NextTokenMock{
		tok("grammar", "grammar", 0), tok("IDENT", "g", 8), tok("IDENT", "s", 10), tok("=", "=", 12), tok(";", ";", 14),
	}

	wantTraces := []string{
		``,
		`grammar:"grammar"@1:1`,
		`grammar:"grammar"@1:1 IDENT:"g"@1:9`,
		`grammar:"grammar"@1:1 IDENT:"g"@1:9 r8 r1 r3 IDENT:"s"@1:11`,
		`grammar:"grammar"@1:1 IDENT:"g"@1:9 r8 r1 r3 IDENT:"s"@1:11 r32 r22 =:"="@1:13`,
		`grammar:"grammar"@1:1 IDENT:"g"@1:9 r8 r1 r3 IDENT:"s"@1:11 r32 r22 =:"="@1:13 r21 ;:";"@1:15`,
	}

	for n := 0; n <= len(stream); n++ {
		mocks := append(append([]NextTokenMock{}, stream[:n]...), NextTokenMock{
			OutToken: lexer.Token{Lexeme: "partial", Pos: lexer.Position{Filename: "m", Offset: 99, Line: 9, Column: 9}},
			OutError: ioErr,
		})

		ml := &MockLexer{NextTokenMocks: mocks}
		events, err := demoRecord(&Parser{L: ml})

		var pe *parser.ParseError
		if !errors.As(err, &pe) || pe.Cause != ioErr || !pe.Pos.IsZero() || pe.Description != "" || err.Error() != "disk on fire" {
			t.Errorf("n=%d: error %v", n, err)
		}

		if ml.NextTokenIndex != n+1 {
			t.Errorf("n=%d: lexer consulted %d times", n, ml.NextTokenIndex)
		}

		if demoTrace(events) != wantTraces[n] {
			t.Errorf("n=%d: trace %s", n, demoTrace(events))
		}

		root, err := (&Parser{L: &MockLexer{NextTokenMocks: mocks}}).ParseAndBuildAST()
		if root != nil || err == nil || err.Error() != "disk on fire" {
			t.Errorf("n=%d: ParseAndBuildAST: %v, %v", n, root, err)
		}
	}
}

// Deep nesting and long lists: stacks well beyond a thousand entries.
func TestRefactorDemo_LargeInputs(t *testing.T) {
	const depth, width = 1500, 3000

	nested := "grammar g\ns = " + strings.Repeat("( ", depth) + "a" + strings.Repeat(" )", depth) + ";"
	long := "grammar g\ns = " + strings.Repeat("a ", width) + ";\n" + strings.Repeat("t = b;\n", width)

	for name, tc := range map[string]struct {
		src            string
		tokens, prods  int
		leaves, inners int
	}{
		"Nested": {nested, 2*depth + 6, depth + 11, 2*depth + 6, depth + 11},
		"Long":   {long, 4*width + width + 5, 0, 0, 0},
	} {
		events, err := demoRecord(demoParser(t, tc.src))
		if err != nil {
			t.Fatalf("%s: %v", name, err)
		}

		tokens := 0
		for _, e := range events {
			if e.token != nil {
				tokens++
			}
		}

		if tokens != tc.tokens {
			t.Errorf("%s: %d tokens, want %d", name, tokens, tc.tokens)
		}

		if tc.prods != 0 && len(events)-tokens != tc.prods {
			t.Errorf("%s: %d reductions, want %d", name, len(events)-tokens, tc.prods)
		}

		root, err := demoParser(t, tc.src).ParseAndBuildAST()
		if err != nil || !reflect.DeepEqual(root, demoTree(events)) {
			t.Errorf("%s: ParseAndBuildAST differs from the derivation (%v)", name, err)
		}

		// Count through ParseAndEvaluate: the value of a head is the number of tokens below it.
		val, err := demoParser(t, tc.src).ParseAndEvaluate(func(i int, rhs []*lr.Value) (any, error) {
			sum := 0
			for _, v := range rhs {
				if n, ok := v.Val.(int); ok {
					sum += n
				} else {
					sum++
				}
			}
			return sum, nil
		})

		if err != nil || val.Val != tc.tokens || demoPos(val.Pos) != "1:1" {
			t.Errorf("%s: ParseAndEvaluate = %v, %v", name, val, err)
		}
	}
}
