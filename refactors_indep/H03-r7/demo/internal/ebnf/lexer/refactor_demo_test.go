package lexer

import (
	"errors"
	"fmt"
	"io"
	"strings"
	"testing"

	"github.com/moorara/algo/lexer"
)

// demoScan scans the whole text and renders every token as TERMINAL(lexeme)@offset:line:column,
// followed by the text of the error that ended the scan.
func demoScan(t *testing.T, src string) string {
	t.Helper()

	l, err := New("f", strings.NewReader(src))
	if err != nil {
		t.Fatalf("New: %v", err)
	}

	var parts []string
	for n := 0; ; n++ {
		if n > len(src)+2 {
			t.Fatalf("scanner does not terminate on %q", src)
		}

		tok, err := l.NextToken()
		if err != nil {
			if tok != (lexer.Token{}) {
				t.Fatalf("token %v returned together with error %v", tok, err)
			}
			parts = append(parts, "!"+err.Error())
			break
		}

		parts = append(parts, fmt.Sprintf("%s(%s)@%d:%d:%d", string(tok.Terminal), tok.Lexeme, tok.Pos.Offset, tok.Pos.Line, tok.Pos.Column))
	}

	return strings.Join(parts, " ")
}

// demoTokens scans the whole text and returns its tokens; the scan must end with io.EOF itself.
func demoTokens(t *testing.T, src string) []lexer.Token {
	t.Helper()

	l, err := New("f", strings.NewReader(src))
	if err != nil {
		t.Fatalf("New: %v", err)
	}

	var toks []lexer.Token
	for {
		tok, err := l.NextToken()
		if err == io.EOF {
			return toks
		}
		if err != nil {
			t.Fatalf("unexpected error on %d bytes: %v", len(src), err)
		}
		toks = append(toks, tok)
	}
}

func TestRefactorDemo_Characterization(t *testing.T) {
	tests := []struct {
		src      string
		expected string
	}{
		// End of the input, with and without pending layout.
		{"", "!EOF"},
		{" ", "!EOF"},
		{"\n", "!EOF"},
		{" \t \n\r\n ", "!EOF"},
		{"// only a comment", "!EOF"},
		{"// only a comment\n", "!EOF"},
		{"/* a */", "!EOF"},
		{"/* a\n b **/ // c", "!EOF"},

		// A pending lexeme at the end of the input is evaluated, with and without a final newline.
		{"a", "IDENT(a)@0:1:1 !EOF"},
		{"a\n", "IDENT(a)@0:1:1 !EOF"},
		{"abc", "IDENT(abc)@0:1:1 !EOF"},
		{"grammar", "grammar(grammar)@0:1:1 !EOF"},
		{"gramma", "IDENT(gramma)@0:1:1 !EOF"},
		{"grammars", "IDENT(grammars)@0:1:1 !EOF"},
		{"ID", "TOKEN(ID)@0:1:1 !EOF"},
		{"$STR", "PREDEF($STR)@0:1:1 !EOF"},
		{"@left", "@left(@left)@0:1:1 !EOF"},
		{"@right", "@right(@right)@0:1:1 !EOF"},
		{"@none", "@none(@none)@0:1:1 !EOF"},
		{`"if"`, "STRING(if)@0:1:1 !EOF"},
		{`/[a-z]+/`, "REGEX([a-z]+)@0:1:1 !EOF"},
		{"{", "{({)@0:1:1 !EOF"},
		{"{{", "{{({{)@0:1:1 !EOF"},
		{"{{{", "{{({{)@0:1:1 {({)@2:1:3 !EOF"},
		{"}}}", "}}(}})@0:1:1 }(})@2:1:3 !EOF"},
		{";", ";(;)@0:1:1 !EOF"},

		// A pending lexeme that is not a token at the end of the input.
		{"A", "!lexical error at f:1:1:A"},
		{"$", "!lexical error at f:1:1:$"},
		{"@lef", "!lexical error at f:1:1:@lef"},
		{`"abc`, `!lexical error at f:1:1:"abc`},
		{"/abc", "!lexical error at f:1:1:/abc"},
		{"/* open", "!lexical error at f:1:1:/* open"},
		{"x = /* open *", "IDENT(x)@0:1:1 =(=)@2:1:3 !lexical error at f:1:5:/* open *"},
		{"a\n\n  $", "IDENT(a)@0:1:1 !lexical error at f:3:3:$"},

		// Dead transitions: the last character is retracted.
		{"#", "!lexical error at f:1:1:"},
		{"a#", "IDENT(a)@0:1:1 !lexical error at f:1:2:"},
		{"a #", "IDENT(a)@0:1:1 !lexical error at f:1:3:"},
		{"@lefty", "@left(@left)@0:1:1 IDENT(y)@5:1:6 !EOF"},
		{"@lex", "!lexical error at f:1:1:@le"},
		{"A b", "!lexical error at f:1:1:A"},
		{"\"a\nb\"", "!lexical error at f:1:1:\"a"},
		{"é", "!lexical error at f:1:1:"},
		{"a\xffb", "!f:1:2: invalid utf-8 character"},
		{"a \xffb", "IDENT(a)@0:1:1 !f:1:3: invalid utf-8 character"},
		{"ab\xff", "!f:1:3: invalid utf-8 character"},
		{"\xff", "!f:1:1: invalid utf-8 character"},

		// Tokens without any layout between them.
		{"a=b|c;", "IDENT(a)@0:1:1 =(=)@1:1:2 IDENT(b)@2:1:3 |(|)@3:1:4 IDENT(c)@4:1:5 ;(;)@5:1:6 !EOF"},
		{"([{<>}])", "((()@0:1:1 [([)@1:1:2 {({)@2:1:3 <(<)@3:1:4 >(>)@4:1:5 }(})@5:1:6 ](])@6:1:7 )())@7:1:8 !EOF"},
		{`"a""b"`, "STRING(a)@0:1:1 STRING(b)@3:1:4 !EOF"},
		{"aB", "IDENT(a)@0:1:1 !lexical error at f:1:2:B"},
		{"aBC", "IDENT(a)@0:1:1 TOKEN(BC)@1:1:2 !EOF"},
		{"a/*x*/b//y\nc", "IDENT(a)@0:1:1 IDENT(b)@6:1:7 IDENT(c)@11:2:1 !EOF"},

		// Layout in all its forms.
		{
			"grammar  calc ;\n\n// c\nexpr = expr \"+\" term\t| term;\r\n/* m\n l */ NUM = /[0-9]+/\n@left \"+\"",
			"grammar(grammar)@0:1:1 IDENT(calc)@9:1:10 ;(;)@14:1:15 " +
				"IDENT(expr)@22:4:1 =(=)@27:4:6 IDENT(expr)@29:4:8 STRING(+)@34:4:13 IDENT(term)@38:4:17 |(|)@43:4:22 IDENT(term)@45:4:24 ;(;)@49:4:28 " +
				"TOKEN(NUM)@63:6:7 =(=)@67:6:11 REGEX([0-9]+)@69:6:13 " +
				"@left(@left)@78:7:1 STRING(+)@84:7:7 !EOF",
		},
	}

	for _, tc := range tests {
		if got := demoScan(t, tc.src); got != tc.expected {
			t.Errorf("scan of %q\n got: %s\nwant: %s", tc.src, got, tc.expected)
		}
	}
}

// The tokens of a specification do not depend on the layout between them,
// and their positions move by exactly the inserted text.
func TestRefactorDemo_LayoutIndependence(t *testing.T) {
	words := []string{
		"grammar", "calc", ";",
		"expr", "=", "expr", `"+"`, "term", "|", "{{", "term", "}}", "|", "[", "ID", "]", ";",
		"ID", "=", `/[a-z\/]+/`, "$STRING", "<", "x", ">",
		"@left", `"+"`, "@right", `"*"`, "@none", "ID",
	}

	compact := demoTokens(t, strings.Join(words, " "))
	if len(compact) != len(words) {
		t.Fatalf("expected %d tokens, got %d", len(words), len(compact))
	}

	pads := []string{
		" ", "\t", "\n", "\r\n", "  \t ", "\n\n\n", "// note\n", "/* note */", " /* a\n b */ ", "/***/", "//\n",
		" // x = y;\n\t", "/* \"s\" /r/ */", strings.Repeat(" ", 4095), strings.Repeat("\n", 4097),
		strings.Repeat("// filler filler filler\n", 400), "/*" + strings.Repeat("*", 8190) + "*/",
	}

	for k := 0; k < len(pads)*3; k++ {
		for _, tail := range []string{"", "\n", " ", "// end", "/* end */"} {
			var sb strings.Builder
			var offsets, lines, columns []int

			offset, line, column := 0, 1, 1
			advance := func(s string) {
				sb.WriteString(s)
				for _, r := range s {
					offset++
					if r == '\n' {
						line, column = line+1, 1
					} else {
						column++
					}
				}
			}

			if k%3 == 0 {
				advance(pads[(k/3)%len(pads)])
			}

			for i, w := range words {
				if i > 0 {
					advance(pads[(i*7+k)%len(pads)])
					if (i+k)%4 == 0 {
						advance(pads[(i+k*5)%len(pads)])
					}
				}

				offsets, lines, columns = append(offsets, offset), append(lines, line), append(columns, column)
				advance(w)
			}

			advance(tail)

			toks := demoTokens(t, sb.String())
			if len(toks) != len(compact) {
				t.Fatalf("variant %d/%q: expected %d tokens, got %d", k, tail, len(compact), len(toks))
			}

			for i, tok := range toks {
				if tok.Terminal != compact[i].Terminal || tok.Lexeme != compact[i].Lexeme {
					t.Errorf("variant %d/%q: token %d is %s(%s), expected %s(%s)", k, tail, i, tok.Terminal, tok.Lexeme, compact[i].Terminal, compact[i].Lexeme)
				}

				expectedPos := lexer.Position{Filename: "f", Offset: offsets[i], Line: lines[i], Column: columns[i]}
				if tok.Pos != expectedPos {
					t.Errorf("variant %d/%q: token %d is at %v, expected %v", k, tail, i, tok.Pos, expectedPos)
				}
			}
		}
	}
}

// The same token at every distance from the beginning, over several sizes of padding around powers of two.
func TestRefactorDemo_PaddingSizes(t *testing.T) {
	for _, n := range []int{0, 1, 2, 7, 1023, 1024, 1025, 2047, 2048, 2049, 4094, 4095, 4096, 4097, 8191, 8192, 8193, 65537} {
		for _, pad := range []string{" ", "\n", "\t"} {
			for _, end := range []string{"", "\n"} {
				src := strings.Repeat(pad, n) + "rule = other" + end
				got := demoScan(t, src)

				line, column := 1, 1+n
				if pad == "\n" {
					line, column = 1+n, 1
				}

				expected := fmt.Sprintf("IDENT(rule)@%d:%d:%d =(=)@%d:%d:%d IDENT(other)@%d:%d:%d !EOF",
					n, line, column, n+5, line, column+5, n+7, line, column+7)
				if got != expected {
					t.Errorf("padding %q x %d, end %q\n got: %s\nwant: %s", pad, n, end, got, expected)
				}
			}
		}
	}
}

type demoEOFError struct{ isCalls int }

func (e *demoEOFError) Error() string { return "wrapped end" }

func (e *demoEOFError) Is(target error) bool {
	e.isCalls++
	return target == io.EOF
}

// The calls made on the input buffer: which errors end a pending lexeme, what is retracted, what is evaluated.
func TestRefactorDemo_InputBufferProtocol(t *testing.T) {
	pos := lexer.Position{Filename: "m", Offset: 3, Line: 2, Column: 1}
	ioErr := errors.New("io error")

	t.Run("ErrorWhileLexemePending", func(t *testing.T) {
		m := &mockInputBuffer{NextMocks: []NextMock{{OutRune: 'a'}, {OutRune: 'b'}, {OutError: ioErr}}}
		tok, err := (&Lexer{in: m}).NextToken()
		if tok != (lexer.Token{}) || err != ioErr {
			t.Errorf("got %v, %v", tok, err)
		}
		if m.NextIndex != 3 || m.RetractIndex != 0 || m.LexemeIndex != 0 || m.SkipIndex != 0 {
			t.Errorf("calls: %+v", m)
		}
	})

	t.Run("ErrorAfterLayout", func(t *testing.T) {
		m := &mockInputBuffer{
			NextMocks: []NextMock{{OutRune: ' '}, {OutRune: 'a'}, {OutError: ioErr}},
			SkipMocks: []SkipMock{{OutPos: pos}},
		}
		tok, err := (&Lexer{in: m}).NextToken()
		if tok != (lexer.Token{}) || err != ioErr {
			t.Errorf("got %v, %v", tok, err)
		}
		if m.NextIndex != 3 || m.RetractIndex != 1 || m.LexemeIndex != 0 || m.SkipIndex != 1 {
			t.Errorf("calls: %+v", m)
		}
	})

	t.Run("EOFAtStart", func(t *testing.T) {
		e := &demoEOFError{}
		m := &mockInputBuffer{NextMocks: []NextMock{{OutError: e}}}
		tok, err := (&Lexer{in: m}).NextToken()
		if tok != (lexer.Token{}) || err != error(e) {
			t.Errorf("got %v, %v", tok, err)
		}
		if e.isCalls != 0 {
			t.Errorf("error inspected %d times", e.isCalls)
		}
		if m.NextIndex != 1 || m.RetractIndex != 0 || m.LexemeIndex != 0 || m.SkipIndex != 0 {
			t.Errorf("calls: %+v", m)
		}
	})

	t.Run("WrappedEOFWhileLexemePending", func(t *testing.T) {
		e := &demoEOFError{}
		m := &mockInputBuffer{
			NextMocks:   []NextMock{{OutRune: 'I'}, {OutRune: 'D'}, {OutError: e}},
			LexemeMocks: []LexemeMock{{OutVal: "ID", OutPos: pos}},
		}
		tok, err := (&Lexer{in: m}).NextToken()
		if tok != (lexer.Token{Terminal: TOKEN, Lexeme: "ID", Pos: pos}) || err != nil {
			t.Errorf("got %v, %v", tok, err)
		}
		if e.isCalls != 1 {
			t.Errorf("error inspected %d times", e.isCalls)
		}
		if m.NextIndex != 3 || m.RetractIndex != 0 || m.LexemeIndex != 1 || m.SkipIndex != 0 {
			t.Errorf("calls: %+v", m)
		}
	})

	t.Run("EOFWhileLayoutPending", func(t *testing.T) {
		m := &mockInputBuffer{
			NextMocks: []NextMock{{OutRune: '/'}, {OutRune: '/'}, {OutRune: 'x'}, {OutError: io.EOF}, {OutError: io.EOF}},
			SkipMocks: []SkipMock{{OutPos: pos}},
		}
		tok, err := (&Lexer{in: m}).NextToken()
		if tok != (lexer.Token{}) || err != io.EOF {
			t.Errorf("got %v, %v", tok, err)
		}
		if m.NextIndex != 5 || m.RetractIndex != 0 || m.LexemeIndex != 0 || m.SkipIndex != 1 {
			t.Errorf("calls: %+v", m)
		}
	})

	t.Run("EOFWhileErrorLexemePending", func(t *testing.T) {
		m := &mockInputBuffer{
			NextMocks:   []NextMock{{OutRune: '"'}, {OutRune: 'x'}, {OutError: io.EOF}},
			LexemeMocks: []LexemeMock{{OutVal: `"x`, OutPos: pos}},
		}
		tok, err := (&Lexer{in: m}).NextToken()
		if tok != (lexer.Token{}) || err == nil || err.Error() != `lexical error at m:2:1:"x` {
			t.Errorf("got %v, %v", tok, err)
		}
		if m.NextIndex != 3 || m.RetractIndex != 0 || m.LexemeIndex != 1 || m.SkipIndex != 0 {
			t.Errorf("calls: %+v", m)
		}
	})

	t.Run("DeadTransitionAtStart", func(t *testing.T) {
		m := &mockInputBuffer{
			NextMocks:   []NextMock{{OutRune: '%'}},
			LexemeMocks: []LexemeMock{{OutVal: "", OutPos: pos}},
		}
		tok, err := (&Lexer{in: m}).NextToken()
		if tok != (lexer.Token{}) || err == nil || err.Error() != "lexical error at m:2:1:" {
			t.Errorf("got %v, %v", tok, err)
		}
		if m.NextIndex != 1 || m.RetractIndex != 1 || m.LexemeIndex != 1 || m.SkipIndex != 0 {
			t.Errorf("calls: %+v", m)
		}
	})

	t.Run("LayoutRunThenToken", func(t *testing.T) {
		// ' ' '\n' '//' ... are separate layout lexemes; every one of them ends with a retraction.
		m := &mockInputBuffer{
			NextMocks: []NextMock{
				{OutRune: ' '}, {OutRune: '\n'},
				{OutRune: '\n'}, {OutRune: '/'},
				{OutRune: '/'}, {OutRune: '*'}, {OutRune: '*'}, {OutRune: '/'}, {OutRune: '{'},
				{OutRune: '{'}, {OutRune: '{'}, {OutRune: '{'},
			},
			SkipMocks: []SkipMock{{}, {}, {}, {OutPos: pos}},
		}
		tok, err := (&Lexer{in: m}).NextToken()
		if tok != (lexer.Token{Terminal: LLBRACE, Lexeme: "{{", Pos: pos}) || err != nil {
			t.Errorf("got %v, %v", tok, err)
		}
		if m.NextIndex != 12 || m.RetractIndex != 4 || m.LexemeIndex != 0 || m.SkipIndex != 4 {
			t.Errorf("calls: %+v", m)
		}
	})
}
