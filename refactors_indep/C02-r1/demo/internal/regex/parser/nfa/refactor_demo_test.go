package nfa

import (
	"crypto/sha256"
	"fmt"
	"strings"
	"testing"

	auto "github.com/moorara/algo/automata"
	comb "github.com/moorara/algo/parser/combinator"
)

// This file is a characterization test for the quantifier and character-class helpers of the regex-to-NFA mappers.
// It pins (1) the language accepted for every quantifier form, at every stage of the pipeline the lexer generator uses
// (NFA, DFA, minimised DFA, pruned and reindexed DFA), (2) the exact structure of the NFAs that are built,
// and (3) the bags and values the ToMatch and ToGroup mappers return.

func toSymbols(s string) auto.String {
	out := auto.String{}
	for _, r := range s {
		out = append(out, auto.Symbol(r))
	}
	return out
}

func fingerprint(n *auto.NFA) string {
	sum := sha256.Sum256([]byte(n.String()))
	return fmt.Sprintf("%d/%x", len(n.States()), sum[:6])
}

func TestRefactorDemo_Language(t *testing.T) {
	tests := []struct {
		regex  string
		accept []string
		reject []string
		fp     string
	}{
		// No quantifier
		{`a`, []string{"a"}, []string{"", "aa", "b"}, "2/79bc7df13b13"},
		{`ab`, []string{"ab"}, []string{"", "a", "b", "abb", "ba"}, "3/f18b1c976aa4"},
		{`(ab)`, []string{"ab"}, []string{"", "a", "abab"}, "3/f18b1c976aa4"},
		// Simple quantifiers, greedy and lazy, on matches and on groups
		{`a?`, []string{"", "a"}, []string{"aa", "b"}, "6/f7019cc42cf5"},
		{`a??`, []string{"", "a"}, []string{"aa", "b"}, "6/f7019cc42cf5"},
		{`a*`, []string{"", "a", "aaaa"}, []string{"b", "ab", "ba"}, "4/58f2e5d3612f"},
		{`a*?`, []string{"", "a", "aaaa"}, []string{"b", "ab"}, "4/58f2e5d3612f"},
		{`a+`, []string{"a", "aa", "aaaaa"}, []string{"", "b", "ab"}, "5/d492026fe814"},
		{`a+?`, []string{"a", "aa", "aaaaa"}, []string{"", "b"}, "5/d492026fe814"},
		{`(ab)?`, []string{"", "ab"}, []string{"a", "b", "abab"}, "7/f77e3f2185cb"},
		{`(ab)*`, []string{"", "ab", "ababab"}, []string{"a", "aba", "ba"}, "5/17279ed154c7"},
		{`(ab)+`, []string{"ab", "abab"}, []string{"", "a", "aba"}, "7/4440848fe7b7"},
		{`(ab)+?c`, []string{"abc", "ababc"}, []string{"", "c", "ab", "abac"}, "8/85e2408cc052"},
		{`(a|b)*c`, []string{"c", "ac", "bc", "abbac"}, []string{"", "a", "ca", "cc"}, "9/cecebaa02ca2"},
		// Range quantifiers
		{`a{0}`, []string{""}, []string{"a", "aa"}, "2/897cacd56ea3"},
		{`a{1}`, []string{"a"}, []string{"", "aa"}, "2/79bc7df13b13"},
		{`a{3}`, []string{"aaa"}, []string{"", "a", "aa", "aaaa"}, "4/cc5ee75d70cd"},
		{`a{0,}`, []string{"", "a", "aaaa"}, []string{"b", "ab"}, "4/58f2e5d3612f"},
		{`a{2,}`, []string{"aa", "aaa", "aaaaaa"}, []string{"", "a", "aab"}, "6/ac8d1b6c065a"},
		{`a{2,}?`, []string{"aa", "aaa", "aaaaaa"}, []string{"", "a"}, "6/ac8d1b6c065a"},
		{`a{0,0}`, []string{""}, []string{"a"}, "2/897cacd56ea3"},
		{`a{0,2}`, []string{"", "a", "aa"}, []string{"aaa", "b"}, "11/b00825f9fce0"},
		{`a{2,2}`, []string{"aa"}, []string{"", "a", "aaa"}, "3/571f46c638bb"},
		{`a{2,4}`, []string{"aa", "aaa", "aaaa"}, []string{"", "a", "aaaaa"}, "13/66f377b95f24"},
		{`a{2,4}?`, []string{"aa", "aaa", "aaaa"}, []string{"", "a", "aaaaa"}, "13/66f377b95f24"},
		{`(ab){1,2}`, []string{"ab", "abab"}, []string{"", "a", "aba", "ababab"}, "9/b8521ea27503"},
		{`(ab){2}c`, []string{"ababc"}, []string{"abc", "abababc", "abab"}, "6/3c57fcbf94d8"},
		{`x(a|bc){1,}y`, []string{"xay", "xbcy", "xabcay"}, []string{"xy", "xby", "x", "ay"}, "17/6f0c4bbafab0"},
		{`[ab]{2,3}`, []string{"ab", "ba", "aab", "bbb"}, []string{"", "a", "abab", "ac"}, "8/d2ecd7e1fd83"},
		{`[^ab]{1,2}`, []string{"c", "cd", "  "}, []string{"a", "ca", "cde"}, "7/19418a3cc313"},
		{`a?b*c+`, []string{"c", "ac", "bc", "abbcc"}, []string{"", "a", "ab", "aac", "cb"}, "13/8cc669a6dc99"},
		{`(a?){2}`, []string{"", "a", "aa"}, []string{"aaa", "b"}, "11/b00825f9fce0"},
		{`(a*)+`, []string{"", "a", "aaa"}, []string{"b"}, "9/8f39307784f6"},
		{`(a+)?b`, []string{"b", "ab", "aaab"}, []string{"", "a", "bb"}, "10/8b637838fce3"},
		// Negated classes (complement is taken over the ASCII alphabet)
		{`\d+`, []string{"0", "42", "0123456789"}, []string{"", "a", "4a"}, "5/baab8bdb0844"},
		{`\D`, []string{"a", " ", "~", "\x01", "\x7f"}, []string{"0", "5", "9", "ab", "é"}, "2/7a8b61bee17e"},
		{`\S{2}`, []string{"ab", "!~"}, []string{"a b", " a", "\t\t", "abc"}, "3/742853944a4c"},
		{`\W?`, []string{"", "-", " "}, []string{"a", "Z", "0", "_", "--"}, "6/1b52e5635cdd"},
		{`\s*`, []string{"", " ", " \t\n\r\f"}, []string{"a", " a", "\v"}, "4/53d07c506eef"},
		{`\w{1,3}`, []string{"a", "a_1", "Zz9"}, []string{"", "-", "abcd", "a-"}, "12/66f24900b1fc"},
		{`[:digit:]{2}[:alpha:]?`, []string{"11", "42z"}, []string{"", "1", "a", "1a", "123", "12ab"}, "8/97b4b4e76fc4"},
	}

	for _, tc := range tests {
		t.Run(tc.regex, func(t *testing.T) {
			n, err := Parse(tc.regex)
			if err != nil {
				t.Fatalf("Parse(%q): %v", tc.regex, err)
			}

			if os := fingerprint(n); os != tc.fp {
				t.Errorf("FP %q %s", tc.regex, os)
			}

			d1 := n.ToDFA()
			d2 := d1.Minimize()
			d3 := d2.EliminateDeadStates().ReindexStates()

			check := func(s string, want bool) {
				in := toSymbols(s)
				got := []bool{n.Accept(in), d1.Accept(in), d2.Accept(in), d3.Accept(in)}
				for stage, g := range got {
					if g != want {
						t.Errorf("%q on %q at stage %d: accept=%t, want %t", tc.regex, s, stage, g, want)
					}
				}
			}

			for _, s := range tc.accept {
				check(s, true)
			}
			for _, s := range tc.reject {
				check(s, false)
			}
		})
	}
}

func TestRefactorDemo_Errors(t *testing.T) {
	tests := []struct {
		regex string
		want  string
	}{
		{`a{3,1}`, "invalid repetition range {3,1}"},
		{`(ab){2,0}?c`, "invalid repetition range {2,0}"},
		{`[z-a]`, "invalid character range z-a"},
		{`a{2,1}[z-a]`, "invalid repetition range {2,1}\ninvalid character range z-a"},
		{`a{`, "invalid regular expression: a{"},
		{`(a`, "invalid regular expression: (a"},
		{`*`, "invalid regular expression: *"},
	}

	for _, tc := range tests {
		n, err := Parse(tc.regex)
		if err == nil || n != nil {
			t.Errorf("Parse(%q) = %v, %v; want an error", tc.regex, n, err)
			continue
		}
		if got := strings.TrimSpace(err.Error()); got != tc.want {
			t.Errorf("Parse(%q) error = %q, want %q", tc.regex, got, tc.want)
		}
	}
}

func TestRefactorDemo_MatchAndGroupMappers(t *testing.T) {
	two, four := 2, 4
	a := func() *auto.NFA { return runeToNFA('a') }

	quantifiers := []struct {
		name     string
		val      any
		wantLazy bool
		accept   []string
		reject   []string
	}{
		{"none", comb.Empty{}, false, []string{"a"}, []string{"", "aa"}},
		{"?", tuple[any, bool]{p: '?', q: false}, false, []string{"", "a"}, []string{"aa"}},
		{"*?", tuple[any, bool]{p: '*', q: true}, true, []string{"", "a", "aaa"}, []string{"b"}},
		{"+", tuple[any, bool]{p: '+', q: false}, false, []string{"a", "aaa"}, []string{""}},
		{"{2}", tuple[any, bool]{p: tuple[int, *int]{p: 2, q: &two}, q: false}, false, []string{"aa"}, []string{"", "a", "aaa"}},
		{"{2,}?", tuple[any, bool]{p: tuple[int, *int]{p: 2, q: nil}, q: true}, true, []string{"aa", "aaaaa"}, []string{"", "a"}},
		{"{2,4}", tuple[any, bool]{p: tuple[int, *int]{p: 2, q: &four}, q: false}, false, []string{"aa", "aaa", "aaaa"}, []string{"a", "aaaaa"}},
		{"{4,2}", tuple[any, bool]{p: tuple[int, *int]{p: 4, q: &two}, q: false}, false, []string{"aaaa"}, []string{"aa", "aaa", "aaaaa"}},
	}

	for _, q := range quantifiers {
		m := new(mappers)

		match, ok1 := m.ToMatch(comb.Result{Val: comb.List{
			{Val: a(), Pos: 3},
			{Val: q.val, Pos: 4},
		}})

		group, ok2 := m.ToGroup(comb.Result{Val: comb.List{
			{Val: '(', Pos: 2},
			{Val: a(), Pos: 3},
			{Val: ')', Pos: 4},
			{Val: q.val, Pos: 5},
		}})

		if !ok1 || !ok2 || m.errors != nil {
			t.Fatalf("%s: ok=%t,%t errors=%v", q.name, ok1, ok2, m.errors)
		}

		if match.Pos != 3 || group.Pos != 2 {
			t.Errorf("%s: positions %d, %d", q.name, match.Pos, group.Pos)
		}

		for i, res := range []comb.Result{match, group} {
			if q.wantLazy {
				if len(res.Bag) != 1 || res.Bag[bagKeyLazyQuantifier] != true {
					t.Errorf("%s/%d: bag = %v, want the lazy marker only", q.name, i, res.Bag)
				}
			} else if res.Bag != nil {
				t.Errorf("%s/%d: bag = %v, want nil", q.name, i, res.Bag)
			}

			n := res.Val.(*auto.NFA)
			for _, s := range q.accept {
				if !n.Accept(toSymbols(s)) {
					t.Errorf("%s/%d: %q must be accepted", q.name, i, s)
				}
			}
			for _, s := range q.reject {
				if n.Accept(toSymbols(s)) {
					t.Errorf("%s/%d: %q must be rejected", q.name, i, s)
				}
			}
		}

		if mn, gn := match.Val.(*auto.NFA), group.Val.(*auto.NFA); !mn.Equal(gn) {
			t.Errorf("%s: match and group NFAs differ", q.name)
		}
	}

	// An unknown repetition operator yields no automaton, with or without the lazy modifier.
	if n := quantifyNFA(a(), '!'); n != nil {
		t.Errorf("quantifyNFA with an unknown operator = %v, want nil", n)
	}
	if n := quantifyNFA(a(), "?"); n != nil {
		t.Errorf("quantifyNFA with an unknown quantifier type = %v, want nil", n)
	}
}

func TestRefactorDemo_NegatedRunes(t *testing.T) {
	n, chars := runesToNFA(true, 'b', 'd', 'b', 0x7f, 0x00)
	if len(chars) != 128-4 {
		t.Fatalf("len(chars) = %d, want 124", len(chars))
	}
	for i := 1; i < len(chars); i++ {
		if chars[i-1] >= chars[i] {
			t.Fatalf("chars are not strictly increasing at %d", i)
		}
	}
	for r := rune(0); r < 128; r++ {
		excluded := r == 'b' || r == 'd' || r == 0x7f || r == 0
		if got := n.Accept(auto.String{auto.Symbol(r)}); r != 0 && got == excluded {
			t.Errorf("rune %q: accept = %t", r, got)
		}
	}

	n, chars = runesToNFA(true)
	if len(chars) != 128 || len(n.States()) != 2 {
		t.Errorf("complement of nothing: %d chars, %d states", len(chars), len(n.States()))
	}

	n, chars = runesToNFA(false, 'x', 'x', 'y')
	if string(chars) != "xxy" || !n.Accept(toSymbols("x")) || !n.Accept(toSymbols("y")) || n.Accept(toSymbols("z")) {
		t.Errorf("plain runes: chars = %q", string(chars))
	}
}
