package parser_test

import (
	"fmt"
	"hash/fnv"
	"strings"
	"testing"

	auto "github.com/moorara/algo/automata"
	comb "github.com/moorara/algo/parser/combinator"

	"github.com/gardenbed/emerge/internal/regex/parser"
	"github.com/gardenbed/emerge/internal/regex/parser/ast"
	"github.com/gardenbed/emerge/internal/regex/parser/nfa"
)

// demoMappers renders every rule application as text and records the order in which the mappers are called,
// including the calls made on paths that the parser later abandons.
type demoMappers struct {
	trace []string
}

func demoRender(r comb.Result) string {
	switch v := r.Val.(type) {
	case nil:
		return "nil"
	case comb.Empty:
		return "_"
	case rune:
		return fmt.Sprintf("%q", v)
	case int:
		return fmt.Sprintf("%d", v)
	case string:
		return v
	case comb.List:
		parts := make([]string, len(v))
		for i, e := range v {
			parts[i] = demoRender(e)
		}
		return "[" + strings.Join(parts, " ") + "]"
	default:
		return fmt.Sprintf("?%T", v)
	}
}

func (m *demoMappers) apply(name string, r comb.Result) (comb.Result, bool) {
	m.trace = append(m.trace, fmt.Sprintf("%s@%d", name, r.Pos))
	return comb.Result{
		Val: name + "<" + demoRender(r) + ">",
		Pos: r.Pos,
	}, true
}

func (m *demoMappers) ToAnyChar(r comb.Result) (comb.Result, bool)     { return m.apply("any", r) }
func (m *demoMappers) ToSingleChar(r comb.Result) (comb.Result, bool)  { return m.apply("chr", r) }
func (m *demoMappers) ToCharClass(r comb.Result) (comb.Result, bool)   { return m.apply("cls", r) }
func (m *demoMappers) ToRepOp(r comb.Result) (comb.Result, bool)       { return m.apply("op", r) }
func (m *demoMappers) ToUpperBound(r comb.Result) (comb.Result, bool)  { return m.apply("ub", r) }
func (m *demoMappers) ToRange(r comb.Result) (comb.Result, bool)       { return m.apply("rng", r) }
func (m *demoMappers) ToRepetition(r comb.Result) (comb.Result, bool)  { return m.apply("rep", r) }
func (m *demoMappers) ToQuantifier(r comb.Result) (comb.Result, bool)  { return m.apply("q", r) }
func (m *demoMappers) ToCharInRange(r comb.Result) (comb.Result, bool) { return m.apply("cir", r) }
func (m *demoMappers) ToCharRange(r comb.Result) (comb.Result, bool)   { return m.apply("cr", r) }
func (m *demoMappers) ToCharGroup(r comb.Result) (comb.Result, bool)   { return m.apply("cg", r) }
func (m *demoMappers) ToMatchItem(r comb.Result) (comb.Result, bool)   { return m.apply("mi", r) }
func (m *demoMappers) ToMatch(r comb.Result) (comb.Result, bool)       { return m.apply("m", r) }
func (m *demoMappers) ToGroup(r comb.Result) (comb.Result, bool)       { return m.apply("grp", r) }
func (m *demoMappers) ToAnchor(r comb.Result) (comb.Result, bool)      { return m.apply("anc", r) }
func (m *demoMappers) ToSubexprItem(r comb.Result) (comb.Result, bool) { return m.apply("si", r) }
func (m *demoMappers) ToSubexpr(r comb.Result) (comb.Result, bool)     { return m.apply("sub", r) }
func (m *demoMappers) ToExpr(r comb.Result) (comb.Result, bool)        { return m.apply("expr", r) }
func (m *demoMappers) ToRegex(r comb.Result) (comb.Result, bool)       { return m.apply("re", r) }

func (m *demoMappers) ToASCIICharClass(r comb.Result) (comb.Result, bool) {
	return m.apply("acls", r)
}

func (m *demoMappers) ToUnicodeCategory(r comb.Result) (comb.Result, bool) {
	return m.apply("ucat", r)
}

func (m *demoMappers) ToUnicodeCharClass(r comb.Result) (comb.Result, bool) {
	return m.apply("ucls", r)
}

func (m *demoMappers) ToCharGroupItem(r comb.Result) (comb.Result, bool) {
	return m.apply("cgi", r)
}

func demoHash(trace []string) string {
	h := fnv.New32a()
	_, _ = h.Write([]byte(strings.Join(trace, ",")))
	return fmt.Sprintf("%d:%08x", len(trace), h.Sum32())
}

// demoCases pins down, for every pattern, whether the parser accepts it, the text rendered from the rule applications,
// and the number and a digest of the mapper calls in the order they were made.
var demoCases = []struct {
	pattern string
	ok      bool
	val     string
	trace   string
}{
	{"", false, "", "0:811c9dc5"},
	{"a", true, "re<[_ expr<[sub<[si<m<[mi<chr<'a'>> _]>>]> _]>]>", "7:733a1c8d"},
	{"ab", true, "re<[_ expr<[sub<[si<m<[mi<chr<'a'>> _]>> si<m<[mi<chr<'b'>> _]>>]> _]>]>", "11:ff014035"},
	{"a|b", true, "re<[_ expr<[sub<[si<m<[mi<chr<'a'>> _]>>]> ['|' expr<[sub<[si<m<[mi<chr<'b'>> _]>>]> _]>]]>]>", "13:5f070d86"},
	{"a|b|c", true, "re<[_ expr<[sub<[si<m<[mi<chr<'a'>> _]>>]> ['|' expr<[sub<[si<m<[mi<chr<'b'>> _]>>]> ['|' expr<[sub<[si<m<[mi<chr<'c'>> _]>>]> _]>]]>]]>]>", "19:0335d65b"},
	{"a|", false, "", "7:733a1c8d"},
	{"|a", false, "", "0:811c9dc5"},
	{"a||b", false, "", "7:733a1c8d"},
	{".", true, "re<[_ expr<[sub<[si<m<[mi<any<'.'>> _]>>]> _]>]>", "7:1fa414e0"},
	{".*", true, "re<[_ expr<[sub<[si<m<[mi<any<'.'>> q<[rep<op<'*'>> _]>]>>]> _]>]>", "10:3b43794e"},
	{"a?", true, "re<[_ expr<[sub<[si<m<[mi<chr<'a'>> q<[rep<op<'?'>> _]>]>>]> _]>]>", "10:03ee6989"},
	{"a*?", true, "re<[_ expr<[sub<[si<m<[mi<chr<'a'>> q<[rep<op<'*'>> '?']>]>>]> _]>]>", "10:03ee6989"},
	{"a+?", true, "re<[_ expr<[sub<[si<m<[mi<chr<'a'>> q<[rep<op<'+'>> '?']>]>>]> _]>]>", "10:03ee6989"},
	{"a??", true, "re<[_ expr<[sub<[si<m<[mi<chr<'a'>> q<[rep<op<'?'>> '?']>]>>]> _]>]>", "10:03ee6989"},
	{"a**", false, "", "10:03ee6989"},
	{"?", false, "", "0:811c9dc5"},
	{"*a", false, "", "0:811c9dc5"},
	{"a{2}", true, "re<[_ expr<[sub<[si<m<[mi<chr<'a'>> q<[rep<rng<['{' 2 _ '}']>> _]>]>>]> _]>]>", "10:b687de97"},
	{"a{2,}", true, "re<[_ expr<[sub<[si<m<[mi<chr<'a'>> q<[rep<rng<['{' 2 ub<[',' _]> '}']>> _]>]>>]> _]>]>", "11:004613b9"},
	{"a{2,5}", true, "re<[_ expr<[sub<[si<m<[mi<chr<'a'>> q<[rep<rng<['{' 2 ub<[',' 5]> '}']>> _]>]>>]> _]>]>", "11:004613b9"},
	{"a{2,5}?", true, "re<[_ expr<[sub<[si<m<[mi<chr<'a'>> q<[rep<rng<['{' 2 ub<[',' 5]> '}']>> '?']>]>>]> _]>]>", "11:004613b9"},
	{"a{5,2}", true, "re<[_ expr<[sub<[si<m<[mi<chr<'a'>> q<[rep<rng<['{' 5 ub<[',' 2]> '}']>> _]>]>>]> _]>]>", "11:004613b9"},
	{"a{,5}", false, "", "7:733a1c8d"},
	{"a{}", false, "", "7:733a1c8d"},
	{"a{2", false, "", "7:733a1c8d"},
	{"a{2,5", false, "", "8:f3d41087"},
	{"a{x}", false, "", "7:733a1c8d"},
	{"a{ 2}", false, "", "7:733a1c8d"},
	{"a}", false, "", "7:733a1c8d"},
	{"a{99999999999999999999}", false, "", "7:733a1c8d"},
	{"(a)", true, "re<[_ expr<[sub<[si<grp<['(' expr<[sub<[si<m<[mi<chr<'a'>> _]>>]> _]> ')' _]>>]> _]>]>", "11:3eac09e5"},
	{"(a)*", true, "re<[_ expr<[sub<[si<grp<['(' expr<[sub<[si<m<[mi<chr<'a'>> _]>>]> _]> ')' q<[rep<op<'*'>> _]>]>>]> _]>]>", "14:3f43f10f"},
	{"(a|b)+?", true, "re<[_ expr<[sub<[si<grp<['(' expr<[sub<[si<m<[mi<chr<'a'>> _]>>]> ['|' expr<[sub<[si<m<[mi<chr<'b'>> _]>>]> _]>]]> ')' q<[rep<op<'+'>> '?']>]>>]> _]>]>", "20:141d28b4"},
	{"((a))", true, "re<[_ expr<[sub<[si<grp<['(' expr<[sub<[si<grp<['(' expr<[sub<[si<m<[mi<chr<'a'>> _]>>]> _]> ')' _]>>]> _]> ')' _]>>]> _]>]>", "15:69834311"},
	{"(a", false, "", "6:81c17ac2"},
	{"a)", false, "", "7:733a1c8d"},
	{"()", false, "", "0:811c9dc5"},
	{"(|a)", false, "", "0:811c9dc5"},
	{"(a)(b)", true, "re<[_ expr<[sub<[si<grp<['(' expr<[sub<[si<m<[mi<chr<'a'>> _]>>]> _]> ')' _]>> si<grp<['(' expr<[sub<[si<m<[mi<chr<'b'>> _]>>]> _]> ')' _]>>]> _]>]>", "19:d41ccf59"},
	{"(a(b|c){2,3}d)?e", true, "re<[_ expr<[sub<[si<grp<['(' expr<[sub<[si<m<[mi<chr<'a'>> _]>> si<grp<['(' expr<[sub<[si<m<[mi<chr<'b'>> _]>>]> ['|' expr<[sub<[si<m<[mi<chr<'c'>> _]>>]> _]>]]> ')' q<[rep<rng<['{' 2 ub<[',' 3]> '}']>> _]>]>> si<m<[mi<chr<'d'>> _]>>]> _]> ')' q<[rep<op<'?'>> _]>]>> si<m<[mi<chr<'e'>> _]>>]> _]>]>", "40:f848a768"},
	{"$", true, "re<[_ expr<[sub<[si<anc<'$'>>]> _]>]>", "5:fc32b87f"},
	{"a$", true, "re<[_ expr<[sub<[si<m<[mi<chr<'a'>> _]>> si<anc<'$'>>]> _]>]>", "9:38a93a2d"},
	{"^a", true, "re<['^' expr<[sub<[si<m<[mi<chr<'a'>> _]>>]> _]>]>", "7:4e51059f"},
	{"^a$", true, "re<['^' expr<[sub<[si<m<[mi<chr<'a'>> _]>> si<anc<'$'>>]> _]>]>", "9:c8d12415"},
	{"^", false, "", "0:811c9dc5"},
	{"a^", true, "re<[_ expr<[sub<[si<m<[mi<chr<'a'>> _]>> si<m<[mi<chr<'^'>> _]>>]> _]>]>", "11:ff014035"},
	{"^^a", true, "re<['^' expr<[sub<[si<m<[mi<chr<'^'>> _]>> si<m<[mi<chr<'a'>> _]>>]> _]>]>", "11:dfaf2d83"},
	{"$a", true, "re<[_ expr<[sub<[si<anc<'$'>> si<m<[mi<chr<'a'>> _]>>]> _]>]>", "9:4724997b"},
	{"\\s", true, "re<[_ expr<[sub<[si<m<[mi<cls<\\s>> _]>>]> _]>]>", "7:4383d9b2"},
	{"\\S", true, "re<[_ expr<[sub<[si<m<[mi<cls<\\S>> _]>>]> _]>]>", "7:4383d9b2"},
	{"\\d", true, "re<[_ expr<[sub<[si<m<[mi<cls<\\d>> _]>>]> _]>]>", "7:4383d9b2"},
	{"\\D", true, "re<[_ expr<[sub<[si<m<[mi<cls<\\D>> _]>>]> _]>]>", "7:4383d9b2"},
	{"\\w", true, "re<[_ expr<[sub<[si<m<[mi<cls<\\w>> _]>>]> _]>]>", "7:4383d9b2"},
	{"\\W", true, "re<[_ expr<[sub<[si<m<[mi<cls<\\W>> _]>>]> _]>]>", "7:4383d9b2"},
	{"\\s+", true, "re<[_ expr<[sub<[si<m<[mi<cls<\\s>> q<[rep<op<'+'>> _]>]>>]> _]>]>", "10:8dbecc5f"},
	{"\\q", false, "", "0:811c9dc5"},
	{"\\", false, "", "0:811c9dc5"},
	{"\\\\", true, "re<[_ expr<[sub<[si<m<[mi<chr<'\\\\'>> _]>>]> _]>]>", "7:733a1c8d"},
	{"\\.", true, "re<[_ expr<[sub<[si<m<[mi<chr<'.'>> _]>>]> _]>]>", "7:733a1c8d"},
	{"\\$", true, "re<[_ expr<[sub<[si<m<[mi<chr<'$'>> _]>>]> _]>]>", "7:733a1c8d"},
	{"\\t", false, "", "0:811c9dc5"},
	{"\\n", false, "", "0:811c9dc5"},
	{"\\a", false, "", "0:811c9dc5"},
	{"\\x41", true, "re<[_ expr<[sub<[si<m<[mi<chr<'A'>> _]>>]> _]>]>", "7:733a1c8d"},
	{"\\x4", false, "", "0:811c9dc5"},
	{"\\x4G", false, "", "0:811c9dc5"},
	{"\\x4a", false, "", "0:811c9dc5"},
	{"\\x0041", true, "re<[_ expr<[sub<[si<m<[mi<chr<'A'>> _]>>]> _]>]>", "7:733a1c8d"},
	{"\\x00041", true, "re<[_ expr<[sub<[si<m<[mi<chr<'A'>> _]>>]> _]>]>", "7:733a1c8d"},
	{"\\x0001F600", true, "re<[_ expr<[sub<[si<m<[mi<chr<'😀'>> _]>>]> _]>]>", "7:733a1c8d"},
	{"\\x0001F6001", true, "re<[_ expr<[sub<[si<m<[mi<chr<'😀'>> _]>> si<m<[mi<chr<'1'>> _]>>]> _]>]>", "11:88da7351"},
	{"\\x", false, "", "0:811c9dc5"},
	{"[a]", true, "re<[_ expr<[sub<[si<m<[mi<cg<['[' _ [cgi<chr<'a'>>] ']']>> _]>>]> _]>]>", "11:b4c38f33"},
	{"[abc]", true, "re<[_ expr<[sub<[si<m<[mi<cg<['[' _ [cgi<chr<'a'>> cgi<chr<'b'>> cgi<chr<'c'>>] ']']>> _]>>]> _]>]>", "17:96d96364"},
	{"[^abc]", true, "re<[_ expr<[sub<[si<m<[mi<cg<['[' '^' [cgi<chr<'a'>> cgi<chr<'b'>> cgi<chr<'c'>>] ']']>> _]>>]> _]>]>", "17:7f3e1c38"},
	{"[a-z]", true, "re<[_ expr<[sub<[si<m<[mi<cg<['[' _ [cgi<cr<[cir<'a'> '-' cir<'z'>]>>] ']']>> _]>>]> _]>]>", "12:64a53bbc"},
	{"[z-a]", true, "re<[_ expr<[sub<[si<m<[mi<cg<['[' _ [cgi<cr<[cir<'z'> '-' cir<'a'>]>>] ']']>> _]>>]> _]>]>", "12:64a53bbc"},
	{"[a-]", false, "", "4:8e4a8adf"},
	{"[-a]", true, "re<[_ expr<[sub<[si<m<[mi<cg<['[' _ [cgi<chr<'-'>> cgi<chr<'a'>>] ']']>> _]>>]> _]>]>", "14:01b85630"},
	{"[a-z0-9_]", true, "re<[_ expr<[sub<[si<m<[mi<cg<['[' _ [cgi<cr<[cir<'a'> '-' cir<'z'>]>> cgi<cr<[cir<'0'> '-' cir<'9'>]>> cgi<chr<'_'>>] ']']>> _]>>]> _]>]>", "19:4403308f"},
	{"[]", false, "", "1:d3ec83ce"},
	{"[^]", false, "", "1:d2ec823b"},
	{"[a", false, "", "3:ee0e6a34"},
	{"a]", false, "", "7:733a1c8d"},
	{"[[]", false, "", "1:d3ec83ce"},
	{"[]]", false, "", "1:d3ec83ce"},
	{"[\\]]", true, "re<[_ expr<[sub<[si<m<[mi<cg<['[' _ [cgi<chr<']'>>] ']']>> _]>>]> _]>]>", "11:244c2e0e"},
	{"[\\x41-\\x5A]", true, "re<[_ expr<[sub<[si<m<[mi<cg<['[' _ [cgi<cr<[cir<'A'> '-' cir<'Z'>]>>] ']']>> _]>>]> _]>]>", "12:09086e28"},
	{"[\\x0041-\\x005A]", true, "re<[_ expr<[sub<[si<m<[mi<cg<['[' _ [cgi<cr<[cir<'A'> '-' cir<'Z'>]>>] ']']>> _]>>]> _]>]>", "12:6dbb115a"},
	{"[\\d\\s]", true, "re<[_ expr<[sub<[si<m<[mi<cg<['[' _ [cgi<cls<\\d>> cgi<cls<\\s>>] ']']>> _]>>]> _]>]>", "12:96b3211d"},
	{"[\\w-z]", true, "re<[_ expr<[sub<[si<m<[mi<cg<['[' _ [cgi<cls<\\w>> cgi<chr<'-'>> cgi<chr<'z'>>] ']']>> _]>>]> _]>]>", "16:8b55c7d9"},
	{"[a-c-e]", true, "re<[_ expr<[sub<[si<m<[mi<cg<['[' _ [cgi<cr<[cir<'a'> '-' cir<'c'>]>> cgi<chr<'-'>> cgi<chr<'e'>>] ']']>> _]>>]> _]>]>", "18:579fafb7"},
	{"[^^]", true, "re<[_ expr<[sub<[si<m<[mi<cg<['[' '^' [cgi<chr<'^'>>] ']']>> _]>>]> _]>]>", "11:457e1511"},
	{"[.]", false, "", "1:d3ec83ce"},
	{"[a|b]", false, "", "4:357f8de8"},
	{"[(]", false, "", "1:d3ec83ce"},
	{"[$]", false, "", "1:d3ec83ce"},
	{"[a]{2}", true, "re<[_ expr<[sub<[si<m<[mi<cg<['[' _ [cgi<chr<'a'>>] ']']>> q<[rep<rng<['{' 2 _ '}']>> _]>]>>]> _]>]>", "14:287f0023"},
	{"[:digit:]", true, "re<[_ expr<[sub<[si<m<[mi<acls<[:digit:]>> _]>>]> _]>]>", "7:ef7676b1"},
	{"[:xdigit:]", true, "re<[_ expr<[sub<[si<m<[mi<acls<[:xdigit:]>> _]>>]> _]>]>", "7:ef7676b1"},
	{"[:alpha:]+", true, "re<[_ expr<[sub<[si<m<[mi<acls<[:alpha:]>> q<[rep<op<'+'>> _]>]>>]> _]>]>", "10:434b1a35"},
	{"[:alnum:]", true, "re<[_ expr<[sub<[si<m<[mi<acls<[:alnum:]>> _]>>]> _]>]>", "7:ef7676b1"},
	{"[:word:]", true, "re<[_ expr<[sub<[si<m<[mi<acls<[:word:]>> _]>>]> _]>]>", "7:ef7676b1"},
	{"[:ascii:]", true, "re<[_ expr<[sub<[si<m<[mi<acls<[:ascii:]>> _]>>]> _]>]>", "7:ef7676b1"},
	{"[:blank:]", true, "re<[_ expr<[sub<[si<m<[mi<acls<[:blank:]>> _]>>]> _]>]>", "7:ef7676b1"},
	{"[:space:]", true, "re<[_ expr<[sub<[si<m<[mi<acls<[:space:]>> _]>>]> _]>]>", "7:ef7676b1"},
	{"[:upper:]", true, "re<[_ expr<[sub<[si<m<[mi<acls<[:upper:]>> _]>>]> _]>]>", "7:ef7676b1"},
	{"[:lower:]", true, "re<[_ expr<[sub<[si<m<[mi<acls<[:lower:]>> _]>>]> _]>]>", "7:ef7676b1"},
	{"[:punct:]", true, "re<[_ expr<[sub<[si<m<[mi<cg<['[' _ [cgi<chr<':'>> cgi<chr<'p'>> cgi<chr<'u'>> cgi<chr<'n'>> cgi<chr<'c'>> cgi<chr<'t'>> cgi<chr<':'>>] ']']>> _]>>]> _]>]>", "29:12c14638"},
	{"[:digit", false, "", "18:09d038b6"},
	{"[[:digit:]]", true, "re<[_ expr<[sub<[si<m<[mi<cg<['[' _ [cgi<acls<[:digit:]>>] ']']>> _]>>]> _]>]>", "10:7d9b16eb"},
	{"[^[:alpha:]_]", true, "re<[_ expr<[sub<[si<m<[mi<cg<['[' '^' [cgi<acls<[:alpha:]>> cgi<chr<'_'>>] ']']>> _]>>]> _]>]>", "13:196e9cf7"},
	{"[[:digit:]-z]", true, "re<[_ expr<[sub<[si<m<[mi<cg<['[' _ [cgi<acls<[:digit:]>> cgi<chr<'-'>> cgi<chr<'z'>>] ']']>> _]>>]> _]>]>", "16:087b9e62"},
	{"\\p{L}", true, "re<[_ expr<[sub<[si<m<[mi<ucls<[\\p '{' ucat<L> '}']>> _]>>]> _]>]>", "8:90c759d7"},
	{"\\p{Lu}", true, "re<[_ expr<[sub<[si<m<[mi<ucls<[\\p '{' ucat<Lu> '}']>> _]>>]> _]>]>", "8:90c759d7"},
	{"\\p{Letter}", true, "re<[_ expr<[sub<[si<m<[mi<ucls<[\\p '{' ucat<Letter> '}']>> _]>>]> _]>]>", "8:90c759d7"},
	{"\\P{Letter}", true, "re<[_ expr<[sub<[si<m<[mi<ucls<[\\P '{' ucat<Letter> '}']>> _]>>]> _]>]>", "8:90c759d7"},
	{"\\p{Latin}", true, "re<[_ expr<[sub<[si<m<[mi<ucls<[\\p '{' ucat<Latin> '}']>> _]>>]> _]>]>", "8:90c759d7"},
	{"\\p{Lx}", false, "", "1:3d2adf8d"},
	{"\\p{}", false, "", "0:811c9dc5"},
	{"\\p{L", false, "", "1:3d2adf8d"},
	{"\\pL", false, "", "0:811c9dc5"},
	{"\\p{Lux}", false, "", "1:3d2adf8d"},
	{"\\p{Letters}", false, "", "1:3d2adf8d"},
	{"\\p{Math}", true, "re<[_ expr<[sub<[si<m<[mi<ucls<[\\p '{' ucat<Math> '}']>> _]>>]> _]>]>", "8:90c759d7"},
	{"\\p{M}", true, "re<[_ expr<[sub<[si<m<[mi<ucls<[\\p '{' ucat<M> '}']>> _]>>]> _]>]>", "8:90c759d7"},
	{"\\p{Mark}", true, "re<[_ expr<[sub<[si<m<[mi<ucls<[\\p '{' ucat<Mark> '}']>> _]>>]> _]>]>", "8:90c759d7"},
	{"\\p{Mn}", true, "re<[_ expr<[sub<[si<m<[mi<ucls<[\\p '{' ucat<Mn> '}']>> _]>>]> _]>]>", "8:90c759d7"},
	{"\\p{Emoji}", true, "re<[_ expr<[sub<[si<m<[mi<ucls<[\\p '{' ucat<Emoji> '}']>> _]>>]> _]>]>", "8:90c759d7"},
	{"\\p{Han}", true, "re<[_ expr<[sub<[si<m<[mi<ucls<[\\p '{' ucat<Han> '}']>> _]>>]> _]>]>", "8:90c759d7"},
	{"\\p{Persian}", true, "re<[_ expr<[sub<[si<m<[mi<ucls<[\\p '{' ucat<Persian> '}']>> _]>>]> _]>]>", "8:90c759d7"},
	{"\\p{Cyrillic}", true, "re<[_ expr<[sub<[si<m<[mi<ucls<[\\p '{' ucat<Cyrillic> '}']>> _]>>]> _]>]>", "8:90c759d7"},
	{"\\p{Greek}", true, "re<[_ expr<[sub<[si<m<[mi<ucls<[\\p '{' ucat<Greek> '}']>> _]>>]> _]>]>", "8:90c759d7"},
	{"\\p{N}", true, "re<[_ expr<[sub<[si<m<[mi<ucls<[\\p '{' ucat<N> '}']>> _]>>]> _]>]>", "8:90c759d7"},
	{"\\p{Number}", true, "re<[_ expr<[sub<[si<m<[mi<ucls<[\\p '{' ucat<Number> '}']>> _]>>]> _]>]>", "8:90c759d7"},
	{"\\p{Nd}", true, "re<[_ expr<[sub<[si<m<[mi<ucls<[\\p '{' ucat<Nd> '}']>> _]>>]> _]>]>", "8:90c759d7"},
	{"\\p{Nl}", true, "re<[_ expr<[sub<[si<m<[mi<ucls<[\\p '{' ucat<Nl> '}']>> _]>>]> _]>]>", "8:90c759d7"},
	{"\\p{No}", true, "re<[_ expr<[sub<[si<m<[mi<ucls<[\\p '{' ucat<No> '}']>> _]>>]> _]>]>", "8:90c759d7"},
	{"\\p{P}", true, "re<[_ expr<[sub<[si<m<[mi<ucls<[\\p '{' ucat<P> '}']>> _]>>]> _]>]>", "8:90c759d7"},
	{"\\p{Punctuation}", true, "re<[_ expr<[sub<[si<m<[mi<ucls<[\\p '{' ucat<Punctuation> '}']>> _]>>]> _]>]>", "8:90c759d7"},
	{"\\p{Pc}", true, "re<[_ expr<[sub<[si<m<[mi<ucls<[\\p '{' ucat<Pc> '}']>> _]>>]> _]>]>", "8:90c759d7"},
	{"\\p{Pd}", true, "re<[_ expr<[sub<[si<m<[mi<ucls<[\\p '{' ucat<Pd> '}']>> _]>>]> _]>]>", "8:90c759d7"},
	{"\\p{Ps}", true, "re<[_ expr<[sub<[si<m<[mi<ucls<[\\p '{' ucat<Ps> '}']>> _]>>]> _]>]>", "8:90c759d7"},
	{"\\p{Pe}", true, "re<[_ expr<[sub<[si<m<[mi<ucls<[\\p '{' ucat<Pe> '}']>> _]>>]> _]>]>", "8:90c759d7"},
	{"\\p{Pi}", true, "re<[_ expr<[sub<[si<m<[mi<ucls<[\\p '{' ucat<Pi> '}']>> _]>>]> _]>]>", "8:90c759d7"},
	{"\\p{Pf}", true, "re<[_ expr<[sub<[si<m<[mi<ucls<[\\p '{' ucat<Pf> '}']>> _]>>]> _]>]>", "8:90c759d7"},
	{"\\p{Po}", true, "re<[_ expr<[sub<[si<m<[mi<ucls<[\\p '{' ucat<Po> '}']>> _]>>]> _]>]>", "8:90c759d7"},
	{"\\p{Z}", true, "re<[_ expr<[sub<[si<m<[mi<ucls<[\\p '{' ucat<Z> '}']>> _]>>]> _]>]>", "8:90c759d7"},
	{"\\p{Separator}", true, "re<[_ expr<[sub<[si<m<[mi<ucls<[\\p '{' ucat<Separator> '}']>> _]>>]> _]>]>", "8:90c759d7"},
	{"\\p{Zs}", true, "re<[_ expr<[sub<[si<m<[mi<ucls<[\\p '{' ucat<Zs> '}']>> _]>>]> _]>]>", "8:90c759d7"},
	{"\\p{Zl}", true, "re<[_ expr<[sub<[si<m<[mi<ucls<[\\p '{' ucat<Zl> '}']>> _]>>]> _]>]>", "8:90c759d7"},
	{"\\p{Zp}", true, "re<[_ expr<[sub<[si<m<[mi<ucls<[\\p '{' ucat<Zp> '}']>> _]>>]> _]>]>", "8:90c759d7"},
	{"\\p{S}", true, "re<[_ expr<[sub<[si<m<[mi<ucls<[\\p '{' ucat<S> '}']>> _]>>]> _]>]>", "8:90c759d7"},
	{"\\p{Symbol}", true, "re<[_ expr<[sub<[si<m<[mi<ucls<[\\p '{' ucat<Symbol> '}']>> _]>>]> _]>]>", "8:90c759d7"},
	{"\\p{Sm}", true, "re<[_ expr<[sub<[si<m<[mi<ucls<[\\p '{' ucat<Sm> '}']>> _]>>]> _]>]>", "8:90c759d7"},
	{"\\p{Sc}", true, "re<[_ expr<[sub<[si<m<[mi<ucls<[\\p '{' ucat<Sc> '}']>> _]>>]> _]>]>", "8:90c759d7"},
	{"\\p{Sk}", true, "re<[_ expr<[sub<[si<m<[mi<ucls<[\\p '{' ucat<Sk> '}']>> _]>>]> _]>]>", "8:90c759d7"},
	{"\\p{So}", true, "re<[_ expr<[sub<[si<m<[mi<ucls<[\\p '{' ucat<So> '}']>> _]>>]> _]>]>", "8:90c759d7"},
	{"\\p{Lt}", true, "re<[_ expr<[sub<[si<m<[mi<ucls<[\\p '{' ucat<Lt> '}']>> _]>>]> _]>]>", "8:90c759d7"},
	{"\\p{Lm}", true, "re<[_ expr<[sub<[si<m<[mi<ucls<[\\p '{' ucat<Lm> '}']>> _]>>]> _]>]>", "8:90c759d7"},
	{"\\p{Lo}", true, "re<[_ expr<[sub<[si<m<[mi<ucls<[\\p '{' ucat<Lo> '}']>> _]>>]> _]>]>", "8:90c759d7"},
	{"\\p{Ll}", true, "re<[_ expr<[sub<[si<m<[mi<ucls<[\\p '{' ucat<Ll> '}']>> _]>>]> _]>]>", "8:90c759d7"},
	{"\\p{Me}", true, "re<[_ expr<[sub<[si<m<[mi<ucls<[\\p '{' ucat<Me> '}']>> _]>>]> _]>]>", "8:90c759d7"},
	{"\\p{Mc}", true, "re<[_ expr<[sub<[si<m<[mi<ucls<[\\p '{' ucat<Mc> '}']>> _]>>]> _]>]>", "8:90c759d7"},
	{"[\\p{L}\\P{Nd}]", true, "re<[_ expr<[sub<[si<m<[mi<cg<['[' _ [cgi<ucls<[\\p '{' ucat<L> '}']>> cgi<ucls<[\\P '{' ucat<Nd> '}']>>] ']']>> _]>>]> _]>]>", "14:d504ff12"},
	{"\\p{L}*", true, "re<[_ expr<[sub<[si<m<[mi<ucls<[\\p '{' ucat<L> '}']>> q<[rep<op<'*'>> _]>]>>]> _]>]>", "11:14bbdbdb"},
	{"\\P{Sm}{2,3}?", true, "re<[_ expr<[sub<[si<m<[mi<ucls<[\\P '{' ucat<Sm> '}']>> q<[rep<rng<['{' 2 ub<[',' 3]> '}']>> '?']>]>>]> _]>]>", "12:01e41d1f"},
	{"\\p{l}", false, "", "0:811c9dc5"},
	{"\\p {L}", false, "", "0:811c9dc5"},
	{"é", false, "", "0:811c9dc5"},
	{"a\tb", false, "", "7:733a1c8d"},
	{"a b", true, "re<[_ expr<[sub<[si<m<[mi<chr<'a'>> _]>> si<m<[mi<chr<' '>> _]>> si<m<[mi<chr<'b'>> _]>>]> _]>]>", "15:612d1ef9"},
	{"a\nb", false, "", "7:733a1c8d"},
	{"~", true, "re<[_ expr<[sub<[si<m<[mi<chr<'~'>> _]>>]> _]>]>", "7:733a1c8d"},
	{"\x7f", false, "", "0:811c9dc5"},
	{"[\\x5A-\\x41]", true, "re<[_ expr<[sub<[si<m<[mi<cg<['[' _ [cgi<cr<[cir<'Z'> '-' cir<'A'>]>>] ']']>> _]>>]> _]>]>", "12:09086e28"},
	{"(a{3,1})|b", true, "re<[_ expr<[sub<[si<grp<['(' expr<[sub<[si<m<[mi<chr<'a'>> q<[rep<rng<['{' 3 ub<[',' 1]> '}']>> _]>]>>]> _]> ')' _]>>]> ['|' expr<[sub<[si<m<[mi<chr<'b'>> _]>>]> _]>]]>]>", "21:37953a50"},
	{"[b-a]|c{2,1}", true, "re<[_ expr<[sub<[si<m<[mi<cg<['[' _ [cgi<cr<[cir<'b'> '-' cir<'a'>]>>] ']']>> _]>>]> ['|' expr<[sub<[si<m<[mi<chr<'c'>> q<[rep<rng<['{' 2 ub<[',' 1]> '}']>> _]>]>>]> _]>]]>]>", "22:828417bf"},
	{"a{0}", true, "re<[_ expr<[sub<[si<m<[mi<chr<'a'>> q<[rep<rng<['{' 0 _ '}']>> _]>]>>]> _]>]>", "10:b687de97"},
	{"a{0,0}", true, "re<[_ expr<[sub<[si<m<[mi<chr<'a'>> q<[rep<rng<['{' 0 ub<[',' 0]> '}']>> _]>]>>]> _]>]>", "11:004613b9"},
	{"a{1,1}", true, "re<[_ expr<[sub<[si<m<[mi<chr<'a'>> q<[rep<rng<['{' 1 ub<[',' 1]> '}']>> _]>]>>]> _]>]>", "11:004613b9"},
	{"a{007}", true, "re<[_ expr<[sub<[si<m<[mi<chr<'a'>> q<[rep<rng<['{' 7 _ '}']>> _]>]>>]> _]>]>", "10:b687de97"},
	{"[a-a]", true, "re<[_ expr<[sub<[si<m<[mi<cg<['[' _ [cgi<cr<[cir<'a'> '-' cir<'a'>]>>] ']']>> _]>>]> _]>]>", "12:64a53bbc"},
	{"(a|b", false, "", "12:ad1bd5cb"},
	{"a|b)", false, "", "13:5f070d86"},
	{"(a))", false, "", "11:3eac09e5"},
	{"((a)", false, "", "10:ed068ede"},
	{"a{2}{3}", false, "", "10:b687de97"},
	{"a+*", false, "", "10:03ee6989"},
	{"(a)?+", false, "", "14:3f43f10f"},
	{"(a){2,3}?", true, "re<[_ expr<[sub<[si<grp<['(' expr<[sub<[si<m<[mi<chr<'a'>> _]>>]> _]> ')' q<[rep<rng<['{' 2 ub<[',' 3]> '}']>> '?']>]>>]> _]>]>", "15:f5d2fa75"},
	{"(^a)", true, "re<[_ expr<[sub<[si<grp<['(' expr<[sub<[si<m<[mi<chr<'^'>> _]>> si<m<[mi<chr<'a'>> _]>>]> _]> ')' _]>>]> _]>]>", "15:041036e1"},
	{"a|^b", true, "re<[_ expr<[sub<[si<m<[mi<chr<'a'>> _]>>]> ['|' expr<[sub<[si<m<[mi<chr<'^'>> _]>> si<m<[mi<chr<'b'>> _]>>]> _]>]]>]>", "17:111d6a76"},
	{"($)", true, "re<[_ expr<[sub<[si<grp<['(' expr<[sub<[si<anc<'$'>>]> _]> ')' _]>>]> _]>]>", "9:30ea837d"},
	{"a(b", false, "", "13:805fbe9e"},
	{"[a-z", false, "", "4:8e4a8adf"},
	{"\\p{L}}", false, "", "8:90c759d7"},
	{"[:digit:]]", false, "", "7:ef7676b1"},
	{"a\\", false, "", "7:733a1c8d"},
	{"[A-Za-z_][0-9A-Za-z_]*", true, "re<[_ expr<[sub<[si<m<[mi<cg<['[' _ [cgi<cr<[cir<'A'> '-' cir<'Z'>]>> cgi<cr<[cir<'a'> '-' cir<'z'>]>> cgi<chr<'_'>>] ']']>> _]>> si<m<[mi<cg<['[' _ [cgi<cr<[cir<'0'> '-' cir<'9'>]>> cgi<cr<[cir<'A'> '-' cir<'Z'>]>> cgi<cr<[cir<'a'> '-' cir<'z'>]>> cgi<chr<'_'>>] ']']>> q<[rep<op<'*'>> _]>]>>]> _]>]>", "42:88b845d2"},
	{"\"([^\\\\\"]|\\\\[\\\\\"'tnr])*\"", true, "re<[_ expr<[sub<[si<m<[mi<chr<'\"'>> _]>> si<grp<['(' expr<[sub<[si<m<[mi<cg<['[' '^' [cgi<chr<'\\\\'>> cgi<chr<'\"'>>] ']']>> _]>>]> ['|' expr<[sub<[si<m<[mi<chr<'\\\\'>> _]>> si<m<[mi<cg<['[' _ [cgi<chr<'\\\\'>> cgi<chr<'\"'>> cgi<chr<'\\''>> cgi<chr<'t'>> cgi<chr<'n'>> cgi<chr<'r'>>] ']']>> _]>>]> _]>]]> ')' q<[rep<op<'*'>> _]>]>> si<m<[mi<chr<'\"'>> _]>>]> _]>]>", "58:37ff6adb"},
	{"(0|[1-9][0-9]*)(\\.[0-9]+)?", true, "re<[_ expr<[sub<[si<grp<['(' expr<[sub<[si<m<[mi<chr<'0'>> _]>>]> ['|' expr<[sub<[si<m<[mi<cg<['[' _ [cgi<cr<[cir<'1'> '-' cir<'9'>]>>] ']']>> _]>> si<m<[mi<cg<['[' _ [cgi<cr<[cir<'0'> '-' cir<'9'>]>>] ']']>> q<[rep<op<'*'>> _]>]>>]> _]>]]> ')' _]>> si<grp<['(' expr<[sub<[si<m<[mi<chr<'.'>> _]>> si<m<[mi<cg<['[' _ [cgi<cr<[cir<'0'> '-' cir<'9'>]>>] ']']>> q<[rep<op<'+'>> _]>]>>]> _]> ')' q<[rep<op<'?'>> _]>]>>]> _]>]>", "57:c20c6898"},
	{"^(a|b)*abb$", true, "re<['^' expr<[sub<[si<grp<['(' expr<[sub<[si<m<[mi<chr<'a'>> _]>>]> ['|' expr<[sub<[si<m<[mi<chr<'b'>> _]>>]> _]>]]> ')' q<[rep<op<'*'>> _]>]>> si<m<[mi<chr<'a'>> _]>> si<m<[mi<chr<'b'>> _]>> si<m<[mi<chr<'b'>> _]>> si<anc<'$'>>]> _]>]>", "34:a03d5917"},
	{"/\\*.*?\\*/", true, "re<[_ expr<[sub<[si<m<[mi<chr<'/'>> _]>> si<m<[mi<chr<'*'>> _]>> si<m<[mi<any<'.'>> q<[rep<op<'*'>> '?']>]>> si<m<[mi<chr<'*'>> _]>> si<m<[mi<chr<'/'>> _]>>]> _]>]>", "26:17fd72e3"},
}

func demoParse(p *parser.Parser, m *demoMappers, pattern string) (bool, string, string) {
	m.trace = nil
	out, ok := p.Parse(pattern)
	val := ""
	if ok {
		val = out.Result.Val.(string)
	}
	return ok, val, demoHash(m.trace)
}

func TestRefactorDemo_ParseTree(t *testing.T) {
	for _, tc := range demoCases {
		m := new(demoMappers)
		ok, val, trace := demoParse(parser.New(m), m, tc.pattern)
		if ok != tc.ok || val != tc.val || trace != tc.trace {
			t.Errorf("%q: got (%v, %q, %q), want (%v, %q, %q)", tc.pattern, ok, val, trace, tc.ok, tc.val, tc.trace)
		}
	}
}

// One parser is used for all patterns, twice over and in both directions:
// a parse must not leave anything behind (such as the nesting depth) that changes a later parse.
func TestRefactorDemo_ParserReuse(t *testing.T) {
	m := new(demoMappers)
	p := parser.New(m)

	check := func(i int) {
		tc := demoCases[i]
		ok, val, trace := demoParse(p, m, tc.pattern)
		if ok != tc.ok || val != tc.val || trace != tc.trace {
			t.Errorf("%q: got (%v, %q, %q), want (%v, %q, %q)", tc.pattern, ok, val, trace, tc.ok, tc.val, tc.trace)
		}
	}

	for i := range demoCases {
		check(i)
	}
	for i := len(demoCases) - 1; i >= 0; i-- {
		check(i)
	}
}

// A pattern is rejected as a whole if any suffix of it is left over: every accepted pattern followed by
// a character that cannot continue it is rejected, and so is every proper prefix that ends inside a construct.
func TestRefactorDemo_NoIgnoredSuffix(t *testing.T) {
	for _, tc := range demoCases {
		if !tc.ok {
			continue
		}
		for _, suffix := range []string{")", "]", "}", `\x`, "|", "\t", "\u00e9", "\u007f", "(", "[", "**"} {
			pattern := tc.pattern + suffix
			m := new(demoMappers)
			if ok, _, _ := demoParse(parser.New(m), m, pattern); ok {
				t.Errorf("%q: accepted", pattern)
			}
		}
	}
}

var demoSemanticErrors = map[string]string{
	`a{5,2}`:       "invalid repetition range {5,2}",
	`[z-a]`:        "invalid character range z-a",
	`[\x5A-\x41]`:  "invalid character range Z-A",
	`(a{3,1})|b`:   "invalid repetition range {3,1}",
	`[b-a]|c{2,1}`: "invalid character range b-a\ninvalid repetition range {2,1}",
}

func TestRefactorDemo_EndToEnd(t *testing.T) {
	seen := 0
	for _, tc := range demoCases {
		want := ""
		if !tc.ok {
			want = "invalid regular expression: " + tc.pattern
		} else if msg, found := demoSemanticErrors[tc.pattern]; found {
			want = msg
			seen++
		}

		_, err := ast.Parse(tc.pattern)
		if got := demoErrString(err); got != want {
			t.Errorf("ast.Parse(%q): got error %q, want %q", tc.pattern, got, want)
		}

		_, err = nfa.Parse(tc.pattern)
		if got := demoErrString(err); got != want {
			t.Errorf("nfa.Parse(%q): got error %q, want %q", tc.pattern, got, want)
		}
	}
	if seen != len(demoSemanticErrors) {
		t.Errorf("only %d of %d meaningless patterns were exercised", seen, len(demoSemanticErrors))
	}
}

func demoErrString(err error) string {
	if err == nil {
		return ""
	}
	return err.Error()
}

func demoString(s string) auto.String {
	var res auto.String
	for _, c := range s {
		res = append(res, auto.Symbol(c))
	}
	return res
}

func TestRefactorDemo_Automata(t *testing.T) {
	tests := []struct {
		pattern  string
		accepted []string
		rejected []string
	}{
		{`(0|[1-9][0-9]*)(\.[0-9]+)?`, []string{"0", "7", "10.5"}, []string{"", "01", "1."}},
		{`[A-Za-z_][0-9A-Za-z_]*`, []string{"_a1", "x"}, []string{"1a", "a-b"}},
		{`a{2,3}`, []string{"aa", "aaa"}, []string{"a", "aaaa"}},
		{`\p{Lu}+`, []string{"AB"}, []string{"", "Ab"}},
		{`\P{Lu}`, []string{"a"}, []string{"A"}},
		{`[^abc]`, []string{"d"}, []string{"a", "dd"}},
		{`[:digit:]+|x`, []string{"123", "x"}, []string{"", "x1"}},
		{`\x41\x0042`, []string{"AB"}, []string{"ab"}},
		{`(a|b)*abb`, []string{"abb", "babb"}, []string{"ab", "abba"}},
		{`\d\D\s\S\w\W`, []string{"1a b_-"}, []string{"1a b_a"}},
		{`[\d-]`, []string{"-", "5"}, []string{"a"}},
		{`\$\(\)`, []string{"$()"}, []string{"$"}},
	}

	for _, tc := range tests {
		a, err := ast.Parse(tc.pattern)
		if err != nil {
			t.Errorf("ast.Parse(%q): %v", tc.pattern, err)
			continue
		}
		n, err := nfa.Parse(tc.pattern)
		if err != nil {
			t.Errorf("nfa.Parse(%q): %v", tc.pattern, err)
			continue
		}

		d1, d2 := a.ToDFA(), n.ToDFA()
		for _, s := range tc.accepted {
			if !d1.Accept(demoString(s)) || !d2.Accept(demoString(s)) {
				t.Errorf("%q does not accept %q", tc.pattern, s)
			}
		}
		for _, s := range tc.rejected {
			if d1.Accept(demoString(s)) || d2.Accept(demoString(s)) {
				t.Errorf("%q accepts %q", tc.pattern, s)
			}
		}
	}
}

// quietMappers only counts the calls, so that very deeply nested patterns stay cheap.
type quietMappers struct {
	demoMappers
	calls int
}

func (m *quietMappers) ToExpr(r comb.Result) (comb.Result, bool) {
	m.calls++
	return comb.Result{Val: "expr", Pos: r.Pos}, true
}

func (m *quietMappers) ToSubexpr(r comb.Result) (comb.Result, bool) {
	return comb.Result{Val: "sub", Pos: r.Pos}, true
}

func (m *quietMappers) ToSubexprItem(r comb.Result) (comb.Result, bool) {
	return comb.Result{Val: "si", Pos: r.Pos}, true
}

func (m *quietMappers) ToGroup(r comb.Result) (comb.Result, bool) {
	return comb.Result{Val: "grp", Pos: r.Pos}, true
}

func (m *quietMappers) ToMatch(r comb.Result) (comb.Result, bool) {
	return comb.Result{Val: "m", Pos: r.Pos}, true
}

func (m *quietMappers) ToMatchItem(r comb.Result) (comb.Result, bool) {
	return comb.Result{Val: "mi", Pos: r.Pos}, true
}

func (m *quietMappers) ToSingleChar(r comb.Result) (comb.Result, bool) {
	return comb.Result{Val: "chr", Pos: r.Pos}, true
}

func TestRefactorDemo_Depth(t *testing.T) {
	tests := []struct {
		name      string
		pattern   string
		ok        bool
		exprCalls int
	}{
		{"Alternatives_9999", "a" + strings.Repeat("|a", 9999), true, 10000},
		{"Alternatives_10000", "a" + strings.Repeat("|a", 10000), false, 10000},
		{"Groups_9999", strings.Repeat("(", 9999) + "a" + strings.Repeat(")", 9999), true, 10000},
		{"Groups_10000", strings.Repeat("(", 10000) + "a" + strings.Repeat(")", 10000), false, 0},
		{"Groups_300_Unclosed", strings.Repeat("(", 300) + "a" + strings.Repeat(")", 299), false, 300},
	}

	for _, tc := range tests {
		m := new(quietMappers)
		p := parser.New(m)

		// The second parse shows that the first one, accepted or not, has left the parser as it found it.
		for i := 0; i < 2; i++ {
			m.calls = 0
			_, ok := p.Parse(tc.pattern)
			if ok != tc.ok || m.calls != tc.exprCalls {
				t.Errorf("%s (parse %d): got (%v, %d), want (%v, %d)", tc.name, i, ok, m.calls, tc.ok, tc.exprCalls)
			}
		}

		m.calls = 0
		if _, ok := p.Parse("(a|b)c"); !ok || m.calls != 3 {
			t.Errorf("%s: a simple pattern afterwards: got (%v, %d), want (true, 3)", tc.name, ok, m.calls)
		}
	}
}
