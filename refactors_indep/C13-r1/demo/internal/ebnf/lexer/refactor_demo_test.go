package lexer

import (
	"errors"
	"fmt"
	"io"
	"strings"
	"testing"

	"github.com/moorara/algo/lexer"
)

// demoTok is a token without the file name: terminal, lexeme, offset, line, column.
type demoTok struct {
	term        string
	lexeme      string
	off, ln, cl int
}

// demoScan scans the whole text and returns the tokens and the text of the error that ended the scan ("EOF" for io.EOF).
func demoScan(t *testing.T, text string) ([]demoTok, string) {
	t.Helper()

	l, err := New("demo", strings.NewReader(text))
	if err != nil {
		t.Fatalf("New: %s", err)
	}

	var toks []demoTok
	for n := 0; n < 1000000; n++ {
		tok, err := l.NextToken()
		if err != nil {
			if tok != (lexer.Token{}) {
				t.Fatalf("a token is returned alongside an error: %v", tok)
			}
			if errors.Is(err, io.EOF) {
				// The end of the input is reported again and again.
				if _, again := l.NextToken(); again != io.EOF {
					t.Fatalf("second call at the end: %v", again)
				}
				return toks, "EOF"
			}
			return toks, err.Error()
		}

		if tok.Pos.Filename != "demo" {
			t.Fatalf("file name: %q", tok.Pos.Filename)
		}

		toks = append(toks, demoTok{string(tok.Terminal), tok.Lexeme, tok.Pos.Offset, tok.Pos.Line, tok.Pos.Column})
	}

	t.Fatal("the scan does not end")
	return nil, ""
}

func demoEqual(t *testing.T, name string, got, want []demoTok, gotEnd, wantEnd string) {
	t.Helper()

	if gotEnd != wantEnd {
		t.Errorf("%s: end %q, expected %q", name, gotEnd, wantEnd)
	}
	if len(got) != len(want) {
		t.Errorf("%s: %d tokens, expected %d\n got: %v\nwant: %v", name, len(got), len(want), got, want)
		return
	}
	for i := range got {
		if got[i] != want[i] {
			t.Errorf("%s: token %d is %v, expected %v", name, i, got[i], want[i])
		}
	}
}

// demoShift moves the tokens behind a padding of the given number of runes, lines, and columns of the last line.
func demoShift(toks []demoTok, runes, lines, cols int) []demoTok {
	out := make([]demoTok, len(toks))
	for i, tk := range toks {
		tk.off += runes
		if tk.ln == 1 {
			// Only the first line of the text continues the last line of the padding.
			tk.cl += cols
		}
		tk.ln += lines
		out[i] = tk
	}
	return out
}

const demoSpec = `grammar demo

// precedences
@left "+" "-"
@right <unary>;
@none "=="

NUM = /[0-9]+/
ID = $ID /* predefined */
expr = expr "+" term | {{ term }} | [ "-" ] ( NUM ) { ID } <unary>;
s_1 = "\"q\\" /a\/b/`

var demoSpecTokens = []demoTok{
	{"grammar", "grammar", 0, 1, 1},
	{"IDENT", "demo", 8, 1, 9},
	{"@left", "@left", 29, 4, 1},
	{"STRING", "+", 35, 4, 7},
	{"STRING", "-", 39, 4, 11},
	{"@right", "@right", 43, 5, 1},
	{"<", "<", 50, 5, 8},
	{"IDENT", "unary", 51, 5, 9},
	{">", ">", 56, 5, 14},
	{";", ";", 57, 5, 15},
	{"@none", "@none", 59, 6, 1},
	{"STRING", "==", 65, 6, 7},
	{"TOKEN", "NUM", 71, 8, 1},
	{"=", "=", 75, 8, 5},
	{"REGEX", "[0-9]+", 77, 8, 7},
	{"TOKEN", "ID", 86, 9, 1},
	{"=", "=", 89, 9, 4},
	{"PREDEF", "$ID", 91, 9, 6},
	{"IDENT", "expr", 112, 10, 1},
	{"=", "=", 117, 10, 6},
	{"IDENT", "expr", 119, 10, 8},
	{"STRING", "+", 124, 10, 13},
	{"IDENT", "term", 128, 10, 17},
	{"|", "|", 133, 10, 22},
	{"{{", "{{", 135, 10, 24},
	{"IDENT", "term", 138, 10, 27},
	{"}}", "}}", 143, 10, 32},
	{"|", "|", 146, 10, 35},
	{"[", "[", 148, 10, 37},
	{"STRING", "-", 150, 10, 39},
	{"]", "]", 154, 10, 43},
	{"(", "(", 156, 10, 45},
	{"TOKEN", "NUM", 158, 10, 47},
	{")", ")", 162, 10, 51},
	{"{", "{", 164, 10, 53},
	{"TOKEN", "ID", 166, 10, 55},
	{"}", "}", 169, 10, 58},
	{"<", "<", 171, 10, 60},
	{"IDENT", "unary", 172, 10, 61},
	{">", ">", 177, 10, 66},
	{";", ";", 178, 10, 67},
	{"IDENT", "s_1", 180, 11, 1},
	{"=", "=", 184, 11, 5},
	{"STRING", `\"q\\`, 186, 11, 7},
	{"REGEX", `a\/b`, 194, 11, 15},
}

// The tokens and their positions of a specification that ends without a newline are pinned down.
func TestRefactorDemo_Spec(t *testing.T) {
	got, end := demoScan(t, demoSpec)
	demoEqual(t, "spec", got, demoSpecTokens, end, "EOF")

	// A final newline, final blanks, and a final comment with or without a newline add nothing.
	for _, tail := range []string{"\n", "\r\n", " ", "\t \n\n", " // end", " // end\n", "/* end */", "\n/* end\n*/\n"} {
		got, end := demoScan(t, demoSpec+tail)
		demoEqual(t, fmt.Sprintf("tail %q", tail), got, demoSpecTokens, end, "EOF")
	}
}

// A padding before the text moves the positions by exactly the padding, for paddings around the sizes of the usual buffers.
func TestRefactorDemo_Padding(t *testing.T) {
	sizes := []int{1, 2, 7, 63, 64, 65, 511, 512, 513, 1023, 1024, 1025, 2047, 2048, 2049,
		4093, 4094, 4095, 4096, 4097, 4098, 8191, 8192, 8193, 16384, 65535, 65536, 65537, 200001}

	for _, n := range sizes {
		// Blanks on the first line.
		got, end := demoScan(t, strings.Repeat(" ", n)+demoSpec)
		demoEqual(t, fmt.Sprintf("%d blanks", n), got, demoShift(demoSpecTokens, n, 0, n), end, "EOF")

		// Empty lines.
		got, end = demoScan(t, strings.Repeat("\n", n)+demoSpec)
		demoEqual(t, fmt.Sprintf("%d newlines", n), got, demoShift(demoSpecTokens, n, n, 0), end, "EOF")

		// One long single-line comment, and its newline.
		got, end = demoScan(t, "//"+strings.Repeat("x", n)+"\n"+demoSpec)
		demoEqual(t, fmt.Sprintf("comment of %d", n), got, demoShift(demoSpecTokens, n+3, 1, 0), end, "EOF")

		// One multi-line comment with a newline inside, followed by two blanks.
		got, end = demoScan(t, "/*"+strings.Repeat("*", n)+"\n*/  "+demoSpec)
		demoEqual(t, fmt.Sprintf("block of %d", n), got, demoShift(demoSpecTokens, n+7, 1, 4), end, "EOF")
	}

	// Many short comments and blank lines in a row: no token, and no growth of the stack.
	many := strings.Repeat("// c\n\n/* d */ \t\r\n", 30000)
	got, end := demoScan(t, many+demoSpec)
	demoEqual(t, "many comments", got, demoShift(demoSpecTokens, 30000*17, 30000*3, 0), end, "EOF")
}

// A token that is moved over every index near 4096 and 8192 is always the same token, at its own index.
func TestRefactorDemo_Sliding(t *testing.T) {
	words := []struct {
		text string
		tok  demoTok
	}{
		{`grammar`, demoTok{"grammar", "grammar", 0, 1, 1}},
		{`grammars`, demoTok{"IDENT", "grammars", 0, 1, 1}},
		{`"a\"b"`, demoTok{"STRING", `a\"b`, 0, 1, 1}},
		{`/[a-z]\/+/`, demoTok{"REGEX", `[a-z]\/+`, 0, 1, 1}},
		{`$STRING_9`, demoTok{"PREDEF", "$STRING_9", 0, 1, 1}},
		{`{{`, demoTok{"{{", "{{", 0, 1, 1}},
		{`@right`, demoTok{"@right", "@right", 0, 1, 1}},
	}

	for _, base := range []int{0, 4096, 8192} {
		for d := -12; d <= 12; d++ {
			n := base + d
			if n < 0 {
				continue
			}
			for _, w := range words {
				want := demoShift([]demoTok{w.tok}, n, 0, n)

				// The token is the last thing of the text.
				got, end := demoScan(t, strings.Repeat(" ", n)+w.text)
				demoEqual(t, fmt.Sprintf("%q at %d, last", w.text, n), got, want, end, "EOF")

				// The token is followed by another token on the next line.
				got, end = demoScan(t, strings.Repeat(" ", n)+w.text+"\nX_1")
				want = append(want, demoTok{"TOKEN", "X_1", n + len(w.text) + 1, 2, 1})
				demoEqual(t, fmt.Sprintf("%q at %d", w.text, n), got, want, end, "EOF")
			}
		}
	}
}

// Lexical errors, the end of the input inside a lexeme, and runes of more than one byte.
func TestRefactorDemo_Errors(t *testing.T) {
	tests := []struct {
		text string
		toks []demoTok
		end  string
	}{
		{"", nil, "EOF"},
		{" \n\t", nil, "EOF"},
		{"//", nil, "EOF"},
		{"/**/", nil, "EOF"},
		{"a", []demoTok{{"IDENT", "a", 0, 1, 1}}, "EOF"},
		{"a ?", []demoTok{{"IDENT", "a", 0, 1, 1}}, "lexical error at demo:1:3:"},
		{"a\n  \"b", []demoTok{{"IDENT", "a", 0, 1, 1}}, "lexical error at demo:2:3:\"b"},
		{"a\n  \"b c\"", []demoTok{{"IDENT", "a", 0, 1, 1}}, "lexical error at demo:2:3:\"b"},
		{"AB = /ab", []demoTok{{"TOKEN", "AB", 0, 1, 1}, {"=", "=", 3, 1, 4}}, "lexical error at demo:1:6:/ab"},
		{"AB /* b\n\n c *", []demoTok{{"TOKEN", "AB", 0, 1, 1}}, "lexical error at demo:1:4:/* b\n\n c *"},
		{"@lef t", nil, "lexical error at demo:1:1:@lef"},
		{"$ A", nil, "lexical error at demo:1:1:$"},
		{"$", nil, "lexical error at demo:1:1:$"},
		{"Q", nil, "lexical error at demo:1:1:Q"},
		{"Q1", []demoTok{{"TOKEN", "Q1", 0, 1, 1}}, "EOF"},
		// A rune of more than one byte ends a comment, and it is one column and one offset.
		{"a // é", []demoTok{{"IDENT", "a", 0, 1, 1}}, "lexical error at demo:1:6:"},
		{"/* é */", nil, "lexical error at demo:1:1:/* "},
		{"✓", nil, "lexical error at demo:1:1:"},
		{"b \"✓\"", []demoTok{{"IDENT", "b", 0, 1, 1}}, "lexical error at demo:1:3:\""},
		{"\n\nb�", []demoTok{{"IDENT", "b", 2, 3, 1}}, "lexical error at demo:3:2:"},
		// Bytes that are no UTF-8: the position is the one of the offending byte.
		{"\xff", nil, "demo:1:1: invalid utf-8 character"},
		{"ab\n c\xc3", []demoTok{{"IDENT", "ab", 0, 1, 1}}, "demo:2:3: invalid utf-8 character"},
		{"ab\n \xe2\x9c", []demoTok{{"IDENT", "ab", 0, 1, 1}}, "demo:2:2: invalid utf-8 character"},
		{"// x\n/* y\n z \x80", nil, "demo:3:4: invalid utf-8 character"},
		{"x \"a\xc0\"", []demoTok{{"IDENT", "x", 0, 1, 1}}, "demo:1:5: invalid utf-8 character"},
	}

	for _, tc := range tests {
		got, end := demoScan(t, tc.text)
		demoEqual(t, fmt.Sprintf("%q", tc.text), got, tc.toks, end, tc.end)

		// The same behind a padding that ends at 4096 and at 8192 bytes.
		for _, n := range []int{4095, 4096, 8192} {
			pad := strings.Repeat("\n", n)
			wantEnd := tc.end
			if wantEnd != "EOF" {
				// The line of the reported position moves by n.
				var rest string
				var ln int
				if strings.HasPrefix(wantEnd, "lexical error at demo:") {
					_, _ = fmt.Sscanf(wantEnd, "lexical error at demo:%d", &ln)
					rest = strings.TrimPrefix(wantEnd, fmt.Sprintf("lexical error at demo:%d", ln))
					wantEnd = fmt.Sprintf("lexical error at demo:%d%s", ln+n, rest)
				} else {
					_, _ = fmt.Sscanf(wantEnd, "demo:%d", &ln)
					rest = strings.TrimPrefix(wantEnd, fmt.Sprintf("demo:%d", ln))
					wantEnd = fmt.Sprintf("demo:%d%s", ln+n, rest)
				}
			}
			got, end := demoScan(t, pad+tc.text)
			demoEqual(t, fmt.Sprintf("%d newlines, %q", n, tc.text), got, demoShift(tc.toks, n, n, 0), end, wantEnd)
		}
	}
}

// The reader itself: reading, retracting, and positions that count runes, not bytes.
func TestRefactorDemo_Reader(t *testing.T) {
	in := newTextInput("demo", []byte("a✓\nbé\r\n\U0001F600z"))

	pos := func(off, ln, cl int) lexer.Position {
		return lexer.Position{Filename: "demo", Offset: off, Line: ln, Column: cl}
	}
	next := func(want rune) {
		t.Helper()
		if r, err := in.Next(); err != nil || r != want {
			t.Fatalf("Next: %q, %v; expected %q", r, err, want)
		}
	}

	// Nothing is pending: retracting does nothing, and the lexeme is empty.
	in.Retract()
	if s, p := in.Lexeme(); s != "" || p != pos(0, 1, 1) {
		t.Fatalf("empty lexeme: %q %v", s, p)
	}

	next('a')
	next('✓')
	next('\n')
	in.Retract()
	if s, p := in.Lexeme(); s != "a✓" || p != pos(0, 1, 1) {
		t.Fatalf("first lexeme: %q %v", s, p)
	}
	in.Retract() // Not before the beginning of the lexeme.
	next('\n')
	if p := in.Skip(); p != pos(2, 1, 3) {
		t.Fatalf("newline: %v", p)
	}
	if p := in.Skip(); p != pos(3, 2, 1) {
		t.Fatalf("empty skip: %v", p)
	}

	next('b')
	next('é')
	in.Retract()
	in.Retract()
	in.Retract()
	next('b')
	next('é')
	next('\r')
	next('\n')
	next('\U0001F600')
	in.Retract()
	if s, p := in.Lexeme(); s != "bé\r\n" || p != pos(3, 2, 1) {
		t.Fatalf("second lexeme: %q %v", s, p)
	}

	next('\U0001F600')
	if s, p := in.Lexeme(); s != "\U0001F600" || p != pos(7, 3, 1) {
		t.Fatalf("third lexeme: %q %v", s, p)
	}
	next('z')
	for n := 0; n < 3; n++ {
		if r, err := in.Next(); r != 0 || err != io.EOF {
			t.Fatalf("end: %q %v", r, err)
		}
	}
	in.Retract()
	next('z')
	if s, p := in.Lexeme(); s != "z" || p != pos(8, 3, 2) {
		t.Fatalf("last lexeme: %q %v", s, p)
	}
	if p := in.Skip(); p != pos(9, 3, 3) {
		t.Fatalf("position of the end: %v", p)
	}
	if r, err := in.Next(); r != 0 || err != io.EOF {
		t.Fatalf("end: %q %v", r, err)
	}

	// An invalid byte is not consumed: the error repeats, and the pending lexeme stays as it is.
	bad := newTextInput("bad", []byte("xé\n\xe2\x9cy"))
	for _, want := range []rune{'x', 'é', '\n'} {
		if r, err := bad.Next(); err != nil || r != want {
			t.Fatalf("Next: %q %v", r, err)
		}
	}
	for n := 0; n < 2; n++ {
		if r, err := bad.Next(); r != 0 || err == nil || err.Error() != "bad:2:1: invalid utf-8 character" {
			t.Fatalf("invalid byte: %q %v", r, err)
		}
	}
	if s, p := bad.Lexeme(); s != "xé\n" || p != (lexer.Position{Filename: "bad", Offset: 0, Line: 1, Column: 1}) {
		t.Fatalf("lexeme before the invalid byte: %q %v", s, p)
	}
}
