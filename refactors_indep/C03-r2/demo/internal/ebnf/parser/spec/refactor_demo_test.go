package spec

import (
	"fmt"
	"sort"
	"strings"
	"testing"

	auto "github.com/moorara/algo/automata"
	"github.com/moorara/algo/grammar"
	"github.com/moorara/algo/lexer"
)

// This file characterizes the construction of the combined scanner automaton (Spec.DFA),
// the per-definition automata it is built from, and the resolution of string literal escapes.
// It only relies on names that exist both before and after the refactoring.

func demoPos(line int) *lexer.Position {
	return &lexer.Position{Filename: "demo", Offset: 10 * line, Line: line, Column: 1}
}

func demoLit(name, value string, line int) *TerminalDef {
	return &TerminalDef{Terminal: grammar.Terminal(name), Value: value, IsRegex: false, Pos: demoPos(line)}
}

func demoPat(name, value string, line int) *TerminalDef {
	return &TerminalDef{Terminal: grammar.Terminal(name), Value: value, IsRegex: true, Pos: demoPos(line)}
}

// demoScan runs the whole input through the automaton and
// reports the terminal the reached state is attributed to ("-" if the input is not accepted).
func demoScan(t *testing.T, dfa *auto.DFA, termMap map[grammar.Terminal][]auto.State, input string) string {
	t.Helper()

	curr := dfa.Start
	for _, r := range input {
		if curr = dfa.Next(curr, auto.Symbol(r)); curr == -1 {
			return "-"
		}
	}

	var owners []string
	for a, states := range termMap {
		for _, s := range states {
			if s == curr {
				owners = append(owners, string(a))
			}
		}
	}

	if dfa.Final.Contains(curr) != (len(owners) == 1) {
		t.Errorf("state %d reached by %q: final=%t but attributed to %v", curr, input, dfa.Final.Contains(curr), owners)
	}

	if len(owners) == 0 {
		return "-"
	}

	sort.Strings(owners)

	return strings.Join(owners, "+")
}

func demoTermMap(termMap map[grammar.Terminal][]auto.State) string {
	lines := make([]string, 0, len(termMap))
	for a, states := range termMap {
		lines = append(lines, fmt.Sprintf("%s=%v", string(a), states))
	}

	sort.Strings(lines)

	return strings.Join(lines, " ")
}

func TestRefactorDemo_DFA(t *testing.T) {
	tests := []struct {
		name            string
		defs            []*TerminalDef
		expectedError   string
		expectedTermMap string
		expectedDFA     string
		expectedScans   map[string]string
	}{
		{
			name: "KeywordsWinOverIdentifiers",
			defs: []*TerminalDef{
				demoLit(";", ";", 1), demoLit("if", "if", 2), demoLit("in", "in", 3),
				demoPat("ID", "[a-z]+", 4), demoPat("NUM", "[0-9]+", 5),
			},
			expectedTermMap: ";=[2] ID=[3 4] NUM=[1] if=[5] in=[6]",
			expectedScans: map[string]string{
				"": "-", ";": ";", ";;": "-", "if": "if", "in": "in", "i": "ID", "f": "ID", "ifx": "ID", "inn": "ID",
				"fi": "ID", "7": "NUM", "42": "NUM", "4x": "-", "x4": "-", "I": "-", "if;": "-", "iff": "ID",
			},
		},
		{
			name:            "LiteralWinsOverTwoPatterns",
			defs:            []*TerminalDef{demoLit("ab", "ab", 1), demoPat("P", "[a-b]+", 2), demoPat("Q", "ab|cd", 3)},
			expectedTermMap: "P=[1 2] Q=[5] ab=[4]",
			expectedDFA: "Start state: 0\nFinal states: 1, 2, 4, 5\nTransitions:\n" +
				"  (0, a) --> 1\n  (0, b) --> 2\n  (0, c) --> 3\n  (1, a) --> 2\n  (1, b) --> 4\n" +
				"  (2, a) --> 2\n  (2, b) --> 2\n  (3, d) --> 5\n  (4, a) --> 2\n  (4, b) --> 2\n",
			expectedScans: map[string]string{
				"ab": "ab", "a": "P", "b": "P", "ba": "P", "aba": "P", "abb": "P", "cd": "Q", "c": "-", "cda": "-", "abcd": "-",
			},
		},
		{
			name: "PartiallyOverlappingPatterns",
			defs: []*TerminalDef{demoPat("A", "[a-c]+", 1), demoPat("B", "[b-d]+", 2)},
			expectedError: "1 error occurred:\n\n  • conflicting definitions capture the same string:\n" +
				"      demo:1:1: \"A\"\n      demo:2:1: \"B\"\n",
		},
		{
			name: "TwoLiteralsDoNotBreakTheTie",
			defs: []*TerminalDef{demoLit("K1", "if", 1), demoLit("K2", "if", 2), demoPat("ID", "[a-z]+", 3)},
			expectedError: "1 error occurred:\n\n  • conflicting definitions capture the same string:\n" +
				"      demo:1:1: \"K1\"\n      demo:2:1: \"K2\"\n      demo:3:1: \"ID\"\n",
		},
		{
			name: "TwoLiteralsAlone",
			defs: []*TerminalDef{demoLit("K1", "if", 1), demoLit("K2", "if", 2)},
			expectedError: "1 error occurred:\n\n  • conflicting definitions capture the same string:\n" +
				"      demo:1:1: \"K1\"\n      demo:2:1: \"K2\"\n",
		},
		{
			name: "ConflictsReportedPerFinalStateInOrder",
			defs: []*TerminalDef{
				demoPat("P1", "a", 1), demoPat("P2", "a", 2), demoPat("P3", "b", 3), demoPat("P4", "b", 4), demoLit("c", "c", 5),
			},
			expectedError: "2 errors occurred:\n\n" +
				"  • conflicting definitions capture the same string:\n      demo:1:1: \"P1\"\n      demo:2:1: \"P2\"\n" +
				"  • conflicting definitions capture the same string:\n      demo:3:1: \"P3\"\n      demo:4:1: \"P4\"\n",
		},
		{
			name: "InvalidPatterns",
			defs: []*TerminalDef{
				demoLit("x", "x", 1), demoPat("BAD1", "[a-z", 2), demoPat("OK", "[a-z]", 3), demoPat("BAD2", "(ab", 4),
			},
			expectedError: "2 errors occurred:\n\n" +
				"  • \"BAD1\": invalid regular expression: [a-z\n  • \"BAD2\": invalid regular expression: (ab\n",
		},
		{
			name:            "NonASCIILiterals",
			defs:            []*TerminalDef{demoLit("→", "→", 1), demoLit("λx", "λx", 2), demoPat("ID", "[a-z]+", 3)},
			expectedTermMap: "ID=[1] λx=[4] →=[3]",
			expectedScans:   map[string]string{"→": "→", "λx": "λx", "λ": "-", "x": "ID", "→→": "-", "λxx": "-", "\xe2": "-"},
		},
		{
			name:            "InvalidUTF8InLiteral",
			defs:            []*TerminalDef{demoLit("B", "a\xffb", 1)},
			expectedTermMap: "B=[3]",
			expectedDFA:     "Start state: 0\nFinal states: 3\nTransitions:\n  (0, a) --> 1\n  (1, �) --> 2\n  (2, b) --> 3\n",
			expectedScans:   map[string]string{"a�b": "B", "a\xffb": "B", "ab": "-", "a�": "-"},
		},
		{
			name:            "EmptyLiteral",
			defs:            []*TerminalDef{demoLit("E", "", 1), demoPat("ID", "[a-z]+", 2)},
			expectedTermMap: "E=[0] ID=[1]",
			expectedScans:   map[string]string{"": "E", "a": "ID", "zz": "ID", "A": "-"},
		},
		{
			name: "QuotesAndBackslashes",
			defs: []*TerminalDef{
				demoLit("Q", `"`, 1), demoLit("B", `\`, 2), demoLit("QB", `a"b\`, 3), demoPat("STR", `"[a-z]*"`, 4),
			},
			expectedTermMap: "B=[2] Q=[1] QB=[8] STR=[4]",
			expectedScans: map[string]string{
				`"`: "Q", `\`: "B", `a"b\`: "QB", `a"b`: "-", `""`: "STR", `"ab"`: "STR", `"ab`: "-", `\\`: "-", `a"b\\`: "-",
			},
		},
		{
			name:            "NoDefinitions",
			defs:            []*TerminalDef{},
			expectedTermMap: "",
			expectedDFA:     "Start state: 0\nFinal states\nTransitions:\n",
			expectedScans:   map[string]string{"": "-", "a": "-"},
		},
		{
			name:            "LiteralsSharingPrefixes",
			defs:            []*TerminalDef{demoLit("=", "=", 1), demoLit("==", "==", 2), demoLit("=>", "=>", 3), demoPat("OP", "[=<>]+", 4)},
			expectedTermMap: "===[3] ==[2] =>=[4] OP=[1]",
			expectedDFA: "Start state: 0\nFinal states: 1, 2, 3, 4\nTransitions:\n" +
				"  (0, <) --> 1\n  (0, =) --> 2\n  (0, >) --> 1\n  (1, <) --> 1\n  (1, =) --> 1\n  (1, >) --> 1\n" +
				"  (2, <) --> 1\n  (2, =) --> 3\n  (2, >) --> 4\n  (3, <) --> 1\n  (3, =) --> 1\n  (3, >) --> 1\n" +
				"  (4, <) --> 1\n  (4, =) --> 1\n  (4, >) --> 1\n",
			expectedScans: map[string]string{
				"=": "=", "==": "==", "=>": "=>", "===": "OP", "=>=": "OP", "<": "OP", "<=": "OP", ">": "OP", "=<": "OP", "": "-",
			},
		},
		{
			name:            "SingleLiteral",
			defs:            []*TerminalDef{demoLit("for", "for", 1)},
			expectedTermMap: "for=[3]",
			expectedDFA:     "Start state: 0\nFinal states: 3\nTransitions:\n  (0, f) --> 1\n  (1, o) --> 2\n  (2, r) --> 3\n",
			expectedScans:   map[string]string{"for": "for", "fo": "-", "forr": "-", "": "-"},
		},
		{
			name:            "SinglePattern",
			defs:            []*TerminalDef{demoPat("N", "[0-9]+", 1)},
			expectedTermMap: "N=[1]",
			expectedScans:   map[string]string{"0": "N", "0123456789": "N", "": "-", "1a": "-"},
		},
	}

	for _, tc := range tests {
		t.Run(tc.name, func(t *testing.T) {
			s := &Spec{Name: "demo", Definitions: tc.defs}
			dfa, termMap, err := s.DFA()

			if tc.expectedError != "" {
				if err == nil || err.Error() != tc.expectedError {
					t.Fatalf("unexpected error:\n%v\nexpected:\n%s", err, tc.expectedError)
				}
				if dfa != nil || termMap != nil {
					t.Fatalf("expected no automaton alongside an error")
				}
				return
			}

			if err != nil {
				t.Fatalf("unexpected error: %s", err)
			}

			if got := demoTermMap(termMap); got != tc.expectedTermMap {
				t.Errorf("terminal map:\n%s\nexpected:\n%s", got, tc.expectedTermMap)
			}

			if tc.expectedDFA != "" && dfa.String() != tc.expectedDFA {
				t.Errorf("automaton:\n%s\nexpected:\n%s", dfa, tc.expectedDFA)
			}

			for input, expected := range tc.expectedScans {
				if got := demoScan(t, dfa, termMap, input); got != expected {
					t.Errorf("scanning %q: got %s, expected %s", input, got, expected)
				}
			}
		})
	}
}

func TestRefactorDemo_Unescape(t *testing.T) {
	tests := []struct {
		in       string
		expected string
	}{
		{``, ``},
		{`abc`, `abc`},
		{`\"`, `"`},
		{`\\`, `\`},
		{`\`, `\`},
		{`\\\`, `\\`},
		{`\\\\`, `\\`},
		{`a\"b`, `a"b`},
		{`a\\\"b`, `a\"b`},
		{`\n`, `n`},
		{`\a\b\c`, `abc`},
		{`tail\`, `tail\`},
		{`tail\\`, `tail\`},
		{`\"quoted\"`, `"quoted"`},
		{`x\\y\\z`, `x\y\z`},
		{`\→`, `→`},
		{`λ\\λ`, `λ\λ`},
		{"\\\xff", "\xff"},
		{`no escapes at all, just text`, `no escapes at all, just text`},
	}

	for _, tc := range tests {
		if got := unescape(tc.in); got != tc.expected {
			t.Errorf("unescape(%q) = %q, expected %q", tc.in, got, tc.expected)
		}
	}
}

func TestRefactorDemo_ParseThenDFA(t *testing.T) {
	src := `grammar demo;

QUOTE = "\""
BSL   = "\\"
ID    = /[a-z]+/

start = QUOTE ID BSL "a\"b" "if" "\\n";
`

	s, err := Parse("demo.grammar", strings.NewReader(src))
	if err != nil {
		t.Fatalf("unexpected error: %s", err)
	}

	defs := make([]string, len(s.Definitions))
	for i, def := range s.Definitions {
		defs[i] = fmt.Sprintf("%s:%q:%t", string(def.Terminal), def.Value, def.IsRegex)
	}

	expectedDefs := []string{
		`\n:"\\n":false`, `if:"if":false`, `BSL:"\\":false`, `a"b:"a\"b":false`, `QUOTE:"\"":false`, `ID:"[a-z]+":true`,
	}
	if got, expected := strings.Join(defs, "\n"), strings.Join(expectedDefs, "\n"); got != expected {
		t.Errorf("definitions:\n%s\nexpected:\n%s", got, expected)
	}

	dfa, termMap, err := s.DFA()
	if err != nil {
		t.Fatalf("unexpected error: %s", err)
	}

	if got, expected := demoTermMap(termMap), `BSL=[2] ID=[3 4 5] QUOTE=[1] \n=[6] a"b=[9] if=[8]`; got != expected {
		t.Errorf("terminal map:\n%s\nexpected:\n%s", got, expected)
	}

	scans := map[string]string{
		`"`: "QUOTE", `\`: "BSL", `a"b`: `a"b`, `if`: "if", `\n`: `\n`, `i`: "ID", `ab`: "ID", `a`: "ID", `a"`: "-", `\\`: "-", `a\"b`: "-",
	}

	for input, expected := range scans {
		if got := demoScan(t, dfa, termMap, input); got != expected {
			t.Errorf("scanning %q: got %s, expected %s", input, got, expected)
		}
	}
}
