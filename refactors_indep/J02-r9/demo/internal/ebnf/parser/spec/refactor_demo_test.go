package spec

import (
	"fmt"
	"math/rand"
	"reflect"
	"sort"
	"strings"
	"testing"

	"github.com/gardenbed/emerge/internal/regex/parser/nfa"
	auto "github.com/moorara/algo/automata"
	"github.com/moorara/algo/errors"
	"github.com/moorara/algo/generic"
	"github.com/moorara/algo/grammar"
	"github.com/moorara/algo/lexer"
)

// demoPos makes a position for the n-th definition of a demo spec.
func demoPos(n int) *lexer.Position {
	return &lexer.Position{Filename: "demo", Offset: 10 * n, Line: n, Column: 1}
}

// demoLit and demoPat make a string-based and a regex-based definition, declared on line n.
func demoLit(n int, term, value string) *TerminalDef {
	return &TerminalDef{Terminal: grammar.Terminal(term), Value: value, IsRegex: false, Pos: demoPos(n)}
}

func demoPat(n int, term, value string) *TerminalDef {
	return &TerminalDef{Terminal: grammar.Terminal(term), Value: value, IsRegex: true, Pos: demoPos(n)}
}

// demoScan runs the combined DFA over the text and returns the terminal that the reached state identifies,
// "-" if the text is not accepted, and "?" if the reached final state is attributed to no terminal or to several.
func demoScan(d *auto.DFA, m map[grammar.Terminal][]auto.State, text string) string {
	curr := d.Start
	for _, r := range text {
		if curr = d.Next(curr, auto.Symbol(r)); curr == auto.State(-1) {
			return "-"
		}
	}

	if !d.Final.Contains(curr) {
		return "-"
	}

	var owners []string
	for a, states := range m {
		for _, s := range states {
			if s == curr {
				owners = append(owners, string(a))
			}
		}
	}

	if len(owners) != 1 {
		return "?"
	}

	return owners[0]
}

// demoMapString renders a terminal mapping deterministically (terminals sorted, states in the order given).
func demoMapString(m map[grammar.Terminal][]auto.State) string {
	if m == nil {
		return "<nil>"
	}

	keys := make([]string, 0, len(m))
	for a := range m {
		keys = append(keys, string(a))
	}
	sort.Strings(keys)

	parts := make([]string, 0, len(keys))
	for _, k := range keys {
		parts = append(parts, fmt.Sprintf("%s=%v", k, m[grammar.Terminal(k)]))
	}

	return "{" + strings.Join(parts, " ") + "}"
}

func TestRefactorDemo_SpecDFA(t *testing.T) {
	tests := []struct {
		name        string
		defs        []*TerminalDef
		expectedMap string            // Rendered by demoMapString
		expectedErr string            // The exact error text, empty for success
		scans       map[string]string // text --> winning terminal ("-" for no match)
	}{
		{
			name: "KeywordsBeatIdentifier",
			defs: []*TerminalDef{
				demoLit(1, ";", ";"),
				demoLit(2, "if", "if"),
				demoPat(3, "ID", "[A-Za-z_][0-9A-Za-z_]*"),
				demoPat(4, "NUM", "[0-9]+"),
			},
			expectedMap: "{;=[2] ID=[3 4] NUM=[1] if=[5]}",
			scans: map[string]string{
				"": "-", ";": ";", "if": "if", "i": "ID", "iff": "ID", "_9": "ID", "42": "NUM", "4x": "-", ";;": "-", "if;": "-",
			},
		},
		{
			name: "LiteralBeatsTwoPatterns",
			defs: []*TerminalDef{
				demoPat(1, "WORD", "[a-z]+"),
				demoPat(2, "PAIR", "ab|cd"),
				demoLit(3, "ab", "ab"),
				demoLit(4, "cd", "cd"),
			},
			expectedMap: "{WORD=[1 2 3] ab=[4] cd=[5]}",
			scans: map[string]string{
				"ab": "ab", "cd": "cd", "a": "WORD", "c": "WORD", "abc": "WORD", "cda": "WORD", "zz": "WORD", "ad": "WORD", "": "-", "aB": "-",
			},
		},
		{
			name: "DisjointAndPrefixLanguages",
			defs: []*TerminalDef{
				demoPat(1, "AS", "a+"),
				demoPat(2, "ASB", "a*b"),
				demoLit(3, "=", "="),
				demoLit(4, "==", "=="),
				demoLit(5, "=>", "=>"),
			},
			expectedMap: "{==[1] ===[4] =>=[5] AS=[2] ASB=[3]}",
			scans: map[string]string{
				"a": "AS", "aaa": "AS", "b": "ASB", "aab": "ASB", "ab": "ASB", "ba": "-", "=": "=", "==": "==", "=>": "=>", "===": "-", "": "-",
			},
		},
		{
			name: "SingleLiteralOnly",
			defs: []*TerminalDef{
				demoLit(1, "x", "x"),
			},
			expectedMap: "{x=[1]}",
			scans:       map[string]string{"x": "x", "": "-", "xx": "-"},
		},
		{
			name: "EscapedAndUnicodeLiterals",
			defs: []*TerminalDef{
				demoLit(1, "QUOTE", "a\"b"),
				demoLit(2, "NL", "\n"),
				demoLit(3, "BSLASH", "\\"),
				demoLit(4, "LAMBDA", "λx"),
				demoPat(5, "ANY2", "[a-z]\"[a-z]"),
			},
			expectedMap: "{ANY2=[9] BSLASH=[2] LAMBDA=[8] NL=[1] QUOTE=[10]}",
			scans: map[string]string{
				"a\"b": "QUOTE", "c\"d": "ANY2", "\n": "NL", "\\": "BSLASH", "λx": "LAMBDA", "λ": "-", "\\n": "-", "a\"": "-",
			},
		},
		{
			name: "SamePatternTwice",
			defs: []*TerminalDef{
				demoPat(2, "NUM", "[0-9]+"),
				demoPat(3, "INT", "[0-9]+"),
			},
			expectedMap: "<nil>",
			expectedErr: "1 error occurred:\n\n" +
				"  • conflicting definitions capture the same string:\n" +
				"      demo:2:1: \"NUM\"\n" +
				"      demo:3:1: \"INT\"\n",
		},
		{
			name: "ThreePatternsOverlapInTwoStates",
			defs: []*TerminalDef{
				demoPat(1, "LOWER", "[a-c]+"),
				demoLit(2, "kw", "abc"),
				demoPat(3, "AB", "ab?"),
				demoPat(4, "ANYA", "a[a-z]*"),
			},
			expectedMap: "<nil>",
			// "abc" goes to the literal; "a", "ab" and the other words over a-c that start with a are in conflict.
			expectedErr: "3 errors occurred:\n\n" +
				"  • conflicting definitions capture the same string:\n" +
				"      demo:1:1: \"LOWER\"\n" +
				"      demo:3:1: \"AB\"\n" +
				"      demo:4:1: \"ANYA\"\n" +
				"  • conflicting definitions capture the same string:\n" +
				"      demo:1:1: \"LOWER\"\n" +
				"      demo:4:1: \"ANYA\"\n" +
				"  • conflicting definitions capture the same string:\n" +
				"      demo:1:1: \"LOWER\"\n" +
				"      demo:3:1: \"AB\"\n" +
				"      demo:4:1: \"ANYA\"\n",
		},
		{
			name: "TwoLiteralsCannotBreakTheTie",
			defs: []*TerminalDef{
				demoLit(1, "first", "go"),
				demoLit(2, "second", "go"),
			},
			expectedMap: "<nil>",
			expectedErr: "1 error occurred:\n\n" +
				"  • conflicting definitions capture the same string:\n" +
				"      demo:1:1: \"first\"\n" +
				"      demo:2:1: \"second\"\n",
		},
		{
			name: "TwoLiteralsAndOnePattern",
			defs: []*TerminalDef{
				demoPat(1, "ID", "[a-z]+"),
				demoLit(2, "first", "go"),
				demoLit(3, "second", "go"),
			},
			expectedMap: "<nil>",
			expectedErr: "1 error occurred:\n\n" +
				"  • conflicting definitions capture the same string:\n" +
				"      demo:1:1: \"ID\"\n" +
				"      demo:2:1: \"first\"\n" +
				"      demo:3:1: \"second\"\n",
		},
		{
			name: "ConflictWithoutPositions",
			defs: []*TerminalDef{
				{Terminal: "P", Value: "x|y", IsRegex: true},
				{Terminal: "Q", Value: "y|z", IsRegex: true},
			},
			expectedMap: "<nil>",
			expectedErr: "1 error occurred:\n\n" +
				"  • conflicting definitions capture the same string:\n" +
				"      <nil>: \"P\"\n" +
				"      <nil>: \"Q\"\n",
		},
		{
			name: "InvalidPatternsAreAllReported",
			defs: []*TerminalDef{
				demoPat(1, "ID", "[A-Z"),
				demoLit(2, "ok", "ok"),
				demoPat(3, "NUM", "[0-9"),
				demoPat(4, "DUP1", "q"),
				demoPat(5, "DUP2", "q"),
			},
			expectedMap: "<nil>",
			// The conflict between DUP1 and DUP2 is not reached.
			expectedErr: "2 errors occurred:\n\n" +
				"  • \"ID\": invalid regular expression: [A-Z\n" +
				"  • \"NUM\": invalid regular expression: [0-9\n",
		},
		{
			name:        "NoDefinitions",
			defs:        []*TerminalDef{},
			expectedMap: "{}",
			scans:       map[string]string{"": "-", "a": "-"},
		},
		{
			name: "EmptyLiteralAndNullablePattern",
			defs: []*TerminalDef{
				demoLit(1, "EMPTY", ""),
				demoPat(2, "AS", "a*"),
			},
			expectedMap: "{AS=[1] EMPTY=[0]}",
			scans:       map[string]string{"": "EMPTY", "a": "AS", "aaaa": "AS", "b": "-"},
		},
		{
			name: "LiteralOf70Characters",
			defs: []*TerminalDef{
				demoLit(1, "LONG", strings.Repeat("ab", 35)),
			},
			expectedMap: "<nil>",
			expectedErr: "error on building the automaton of the tokens: internal error of the automata library, " +
				"the longest definitions are too long for it (runtime error: index out of range [64] with length 64)",
		},
		{
			name: "NilDefinition",
			defs: []*TerminalDef{
				demoLit(1, "x", "x"),
				nil,
			},
			expectedMap: "<nil>",
			expectedErr: "error on building the automaton of the tokens: internal error of the automata library, " +
				"the longest definitions are too long for it (runtime error: invalid memory address or nil pointer dereference)",
		},
	}

	for _, tc := range tests {
		t.Run(tc.name, func(t *testing.T) {
			s := &Spec{Name: "demo", Definitions: tc.defs}
			d, m, err := s.DFA()

			if got := demoMapString(m); got != tc.expectedMap {
				t.Errorf("terminal mapping: got %s, want %s", got, tc.expectedMap)
			}

			if tc.expectedErr == "" {
				if err != nil {
					t.Fatalf("unexpected error: %s", err)
				}
				if d == nil {
					t.Fatalf("no DFA and no error")
				}
			} else {
				if err == nil {
					t.Fatalf("no error, want %q", tc.expectedErr)
				}
				if got := err.Error(); got != tc.expectedErr {
					t.Errorf("error text:\ngot  %q\nwant %q", got, tc.expectedErr)
				}
				if d != nil {
					t.Errorf("a DFA is returned together with an error")
				}
				return
			}

			for text, want := range tc.scans {
				if got := demoScan(d, m, text); got != want {
					t.Errorf("scanning %q: got %s, want %s", text, got, want)
				}
			}

			// Every final state identifies exactly one terminal, and the mapping has nothing but final states.
			owners := map[auto.State]int{}
			for _, states := range m {
				for _, f := range states {
					owners[f]++
					if !d.Final.Contains(f) {
						t.Errorf("state %d of the mapping is not final", f)
					}
				}
			}
			for f := range d.Final.All() {
				if owners[f] != 1 {
					t.Errorf("final state %d identifies %d terminals", f, owners[f])
				}
			}
		})
	}
}

func TestRefactorDemo_StringToDFA(t *testing.T) {
	tests := []struct {
		name     string
		value    string
		symbols  []auto.Symbol // The chain of symbols expected from state 0 onwards
		accepted []string
		rejected []string
	}{
		{"Empty", "", nil, []string{""}, []string{"a", " "}},
		{"OneChar", "a", []auto.Symbol{'a'}, []string{"a"}, []string{"", "aa", "b"}},
		{"Repeated", "aaa", []auto.Symbol{'a', 'a', 'a'}, []string{"aaa"}, []string{"", "a", "aa", "aaaa"}},
		{"Unicode", "héλ", []auto.Symbol{'h', 'é', 'λ'}, []string{"héλ"}, []string{"he\u0301λ", "hé"}},
		{"Escapes", "\\\"\n\t", []auto.Symbol{'\\', '"', '\n', '\t'}, []string{"\\\"\n\t"}, []string{"\\\"\\n\\t"}},
		{"InvalidUTF8", "a\xff\xfeb", []auto.Symbol{'a', 0xFFFD, 0xFFFD, 'b'}, []string{"a\uFFFD\uFFFDb"}, []string{"ab"}},
	}

	for _, tc := range tests {
		t.Run(tc.name, func(t *testing.T) {
			d := stringToDFA(tc.value)

			want := auto.NewDFA(0, []auto.State{auto.State(len(tc.symbols))})
			for i, a := range tc.symbols {
				want.Add(auto.State(i), a, auto.State(i+1))
			}

			if !d.Equal(want) {
				t.Errorf("got:\n%s\nwant:\n%s", d, want)
			}

			if d.Start != 0 {
				t.Errorf("start state: got %d, want 0", d.Start)
			}

			if finals := fmt.Sprint(generic.Collect1(d.Final.All())); finals != fmt.Sprintf("[%d]", len(tc.symbols)) {
				t.Errorf("final states: got %s, want [%d]", finals, len(tc.symbols))
			}

			for _, text := range tc.accepted {
				if !d.Accept(auto.String([]auto.Symbol(demoSymbols(text)))) {
					t.Errorf("%q is not accepted", text)
				}
			}

			for _, text := range tc.rejected {
				if d.Accept(auto.String([]auto.Symbol(demoSymbols(text)))) {
					t.Errorf("%q is accepted", text)
				}
			}
		})
	}
}

func demoSymbols(text string) []auto.Symbol {
	var syms []auto.Symbol
	for _, r := range text {
		syms = append(syms, auto.Symbol(r))
	}
	return syms
}

// demoReferenceDFA is an independent transcription of the algorithm of Spec.DFA as it was before the clean-up:
// a map from final states to definitions, the final states sorted, a switch on the number of definitions.
func demoReferenceDFA(defs []*TerminalDef) (*auto.DFA, map[grammar.Terminal][]auto.State, error) {
	errs := &errors.MultiError{Format: errors.BulletErrorFormat}

	ds := make([]*auto.DFA, len(defs))
	for i, def := range defs {
		if !def.IsRegex {
			start := auto.State(0)
			ds[i] = auto.NewDFA(start, nil)
			curr, next := start, start+1
			for _, r := range def.Value {
				ds[i].Add(curr, auto.Symbol(r), next)
				curr, next = next, next+1
			}
			ds[i].Final = auto.NewStates(curr)
		} else {
			n, err := nfa.Parse(def.Value)
			if err != nil {
				errs = errors.Append(errs, fmt.Errorf("%s: %s", def.Terminal, err))
				continue
			}
			ds[i] = n.ToDFA().Minimize().EliminateDeadStates().ReindexStates()
		}
	}

	if err := errs.ErrorOrNil(); err != nil {
		return nil, nil, err
	}

	dfa, stateMap := auto.CombineDFA(ds...)

	stateDefs := make(map[auto.State][]*TerminalDef)
	for i, finals := range stateMap {
		for _, f := range finals {
			stateDefs[f] = append(stateDefs[f], defs[i])
		}
	}

	finals := make([]int, 0, len(stateDefs))
	for f := range stateDefs {
		finals = append(finals, int(f))
	}
	sort.Ints(finals)

	termMap := make(map[grammar.Terminal][]auto.State)
	for _, f := range finals {
		f := auto.State(f)
		sds := stateDefs[f]
		switch len(sds) {
		case 0:
		case 1:
			termMap[sds[0].Terminal] = append(termMap[sds[0].Terminal], f)
		default:
			var strDefs []*TerminalDef
			for _, def := range sds {
				if !def.IsRegex {
					strDefs = append(strDefs, def)
				}
			}

			if len(strDefs) == 1 {
				termMap[strDefs[0].Terminal] = append(termMap[strDefs[0].Terminal], f)
			} else {
				poses := make([]string, len(sds))
				for i, def := range sds {
					poses[i] = fmt.Sprintf("  %s: %s", def.Pos, def.Terminal)
				}
				errs = errors.Append(errs,
					fmt.Errorf("conflicting definitions capture the same string:\n%s", strings.Join(poses, "\n")))
			}
		}
	}

	if err := errs.ErrorOrNil(); err != nil {
		return nil, nil, err
	}

	return dfa, termMap, nil
}

// TestRefactorDemo_Differential compares Spec.DFA with the reference on pseudo-random sets of definitions
// over a small alphabet, where overlaps between literals and patterns are frequent.
func TestRefactorDemo_Differential(t *testing.T) {
	literals := []string{"a", "b", "ab", "ba", "abc", "aa", "c", "cab", "", "bb"}
	patterns := []string{
		"a+", "a*b", "[ab]+", "ab|ba", "[a-c]", "[a-c][a-c]", "a(b|c)*", "(ab)+", "c?ab", "b+a?", "[ab]*c", "abc", "a", "(a|b)(a|b)", "[a-c]+", "[bc",
	}

	rnd := rand.New(rand.NewSource(20261002))
	conflicts, successes, invalid := 0, 0, 0

	for round := 0; round < 400; round++ {
		n := 1 + rnd.Intn(5)
		defs := make([]*TerminalDef, 0, n)
		for i := 0; i < n; i++ {
			name := fmt.Sprintf("T%d", i)
			// A bad pattern is rare, and now and then two literals have the same value.
			if rnd.Intn(3) == 0 {
				defs = append(defs, demoLit(i+1, name, literals[rnd.Intn(len(literals))]))
			} else {
				k := rnd.Intn(len(patterns))
				if patterns[k] == "[bc" && rnd.Intn(4) != 0 {
					k = 0
				}
				defs = append(defs, demoPat(i+1, name, patterns[k]))
			}
		}

		desc := make([]string, len(defs))
		for i, def := range defs {
			desc[i] = fmt.Sprintf("%s regex=%t %q", def.Terminal, def.IsRegex, def.Value)
		}

		wantD, wantM, wantErr := demoReferenceDFA(defs)
		gotD, gotM, gotErr := (&Spec{Definitions: defs}).DFA()

		if fmt.Sprint(gotErr) != fmt.Sprint(wantErr) {
			t.Fatalf("round %d %v: error\ngot  %q\nwant %q", round, desc, fmt.Sprint(gotErr), fmt.Sprint(wantErr))
		}

		if !reflect.DeepEqual(gotM, wantM) {
			t.Fatalf("round %d %v: mapping got %s, want %s", round, desc, demoMapString(gotM), demoMapString(wantM))
		}

		switch {
		case wantErr == nil:
			successes++
			if gotD == nil || !gotD.Equal(wantD) {
				t.Fatalf("round %d %v: DFA\ngot\n%s\nwant\n%s", round, desc, gotD, wantD)
			}
		case strings.Contains(wantErr.Error(), "conflicting definitions"):
			conflicts++
		default:
			invalid++
		}

		if wantErr != nil && gotD != nil {
			t.Fatalf("round %d %v: a DFA is returned together with an error", round, desc)
		}
	}

	// The generator is seeded, so these are fixed: all three outcomes are well represented.
	if successes < 50 || conflicts < 50 || invalid < 5 {
		t.Errorf("unbalanced sample: %d successes, %d conflicts, %d invalid", successes, conflicts, invalid)
	}
	t.Logf("%d successes, %d conflicts, %d invalid", successes, conflicts, invalid)
}
