package spec

import (
	"bytes"
	"crypto/sha256"
	"errors"
	"fmt"
	"os"
	"os/exec"
	"path/filepath"
	"sort"
	"strings"
	"testing"

	"github.com/moorara/algo/parser/lr"
)

// This file is a characterization test for the table-builder wrappers of Spec
// (SLRParsingTable, LALRParsingTable, GLRParsingTable) and for the error handling of the command-line tool.
// It pins down the observable behaviour, so that it passes before and after a behaviour-preserving refactoring.

const (
	demoPanicForm = "error on building %s parsing table:\n" +
		"ambiguous grammar: a conflict that involves accepting the input cannot be resolved " +
		"(runtime error: invalid memory address or nil pointer dereference)"
)

type demoBuilder struct {
	kind  string
	build func(*Spec) (*lr.ParsingTable, error)
}

var demoBuilders = []demoBuilder{
	{"SLR(1)", (*Spec).SLRParsingTable},
	{"LALR(1)", (*Spec).LALRParsingTable},
	{"GLR(1)", (*Spec).GLRParsingTable},
}

func demoHash(b []byte) string {
	sum := sha256.Sum256(b)
	return fmt.Sprintf("%x", sum[:6])
}

func demoParse(t *testing.T, src string) *Spec {
	t.Helper()
	s, err := Parse("demo.ebnf", strings.NewReader(src))
	if err != nil || s == nil {
		t.Fatalf("unexpected parse result for %q: %v, %v", src, s, err)
	}
	return s
}

func TestRefactorDemo_TableBuilders(t *testing.T) {
	tests := []struct {
		name string
		src  string
		// hash is the expected digest of the printed table (the same for all three kinds); empty when an error is expected.
		hash string
		// errs are the acceptable error texts with a %s verb for the kind of the table.
		// A conflict that involves accepting the input is found in an order that depends on map iteration in the builders,
		// so both the reported form and the recovered form are acceptable for such grammars.
		errs []string
	}{
		{
			name: "SingleString",
			src:  "grammar g;\nstart = \"a\";\n",
			hash: "1b335466e991",
		},
		{
			name: "ResolvedByAssociativity",
			src:  "grammar g;\n@left \"+\";\nstart = e;\ne = e \"+\" e | \"x\";\n",
			hash: "47231a010da9",
		},
		{
			name: "EmptyStart",
			src:  "grammar g;\nstart = ;\n",
			hash: "e05df1791428",
		},
		{
			name: "TwoHeadsSameBody",
			src:  "grammar g;\nstart = a \"x\" | b \"y\"; a = \"q\"; b = \"q\";\n",
			hash: "f11016ec9cb8",
		},
		{
			name: "ShiftReduce",
			src:  "grammar g;\nstart = e;\ne = e \"+\" e | \"x\";\n",
			errs: []string{
				"error on building %s parsing table:\nError:      Ambiguous Grammar\n" +
					"Cause:      Shift/Reduce conflict in ACTION[2, \"+\"]\n" +
					"Context:    The parser cannot decide whether to\n" +
					"              1. Shift the terminal \"+\", or\n" +
					"              2. Reduce by production e → e \"+\" e\n" +
					"Resolution: Specify associativity for \"+\".\n",
			},
		},
		{
			name: "ReduceReduce",
			src:  "grammar g;\nstart = a | b ; a = \"q\"; b = \"q\";\n",
			errs: []string{
				"error on building %s parsing table:\nError:      Ambiguous Grammar\n" +
					"Cause:      Reduce/Reduce conflict in ACTION[2, $]\n" +
					"Context:    The parser cannot decide whether to\n" +
					"              1. Reduce by production a → \"q\", or\n" +
					"              2. Reduce by production b → \"q\"\n" +
					"Resolution: Specify associativity for \"q\".\n",
			},
		},
		{
			name: "StarOfStart",
			src:  "grammar g;\nstart = {start};\n",
			errs: []string{
				"error on building %s parsing table:\nError:      Ambiguous Grammar\n" +
					"Cause:      Reduce/Reduce conflict in ACTION[3, $]\n" +
					"Context:    The parser cannot decide whether to\n" +
					"              1. Reduce by production gen_start_star → ε, or\n" +
					"              2. Reduce by production start → gen_start_star\n" +
					"Resolution: Specify associativity and precedence for these Terminals/Productions:\n" +
					"              • gen_start_star = ε vs. start = gen_start_star\n" +
					"            Terminals/Productions listed earlier will have higher precedence.\n" +
					"            Terminals/Productions in the same line will have the same precedence.\n",
			},
		},
		{
			name: "StartDerivesItself",
			src:  "grammar g;\nstart = start | \"a\";\n",
			errs: []string{
				demoPanicForm,
				"error on building %s parsing table:\nError:      Ambiguous Grammar\n" +
					"Context:    The parser cannot decide whether to\n" +
					"              1. Reduce by production start → start, or\n" +
					"              2. \n" +
					"Resolution: Specify associativity for start = start.\n",
			},
		},
		{
			name: "StartDerivesItselfOnly",
			src:  "grammar g;\nstart = start;\n",
			errs: []string{
				demoPanicForm,
				"error on building %s parsing table:\nError:      Ambiguous Grammar\n" +
					"Context:    The parser cannot decide whether to\n" +
					"              1. Reduce by production start → start, or\n" +
					"              2. \n" +
					"Resolution: Specify associativity for start = start.\n",
			},
		},
		{
			name: "StartDerivesItselfIndirectly",
			src:  "grammar g;\nstart = a; a = start | \"x\";\n",
			errs: []string{
				demoPanicForm,
				"error on building %s parsing table:\nError:      Ambiguous Grammar\n" +
					"Context:    The parser cannot decide whether to\n" +
					"              1. Reduce by production a → start, or\n" +
					"              2. \n" +
					"Resolution: Specify associativity for a = start.\n",
			},
		},
	}

	for _, tc := range tests {
		for _, b := range demoBuilders {
			t.Run(tc.name+"/"+b.kind, func(t *testing.T) {
				// The outcome of some grammars depends on map iteration, so every case is tried several times.
				for round := 0; round < 5; round++ {
					T, err := b.build(demoParse(t, tc.src))

					if tc.hash != "" {
						if err != nil || T == nil {
							t.Fatalf("expected a table and no error, got %v, %v", T, err)
						}
						if h := demoHash([]byte(T.String())); h != tc.hash {
							t.Fatalf("unexpected table (digest %s):\n%s", h, T)
						}
						continue
					}

					if T != nil || err == nil {
						t.Fatalf("expected no table and an error, got %v, %v", T, err)
					}

					matched := false
					for _, e := range tc.errs {
						matched = matched || err.Error() == fmt.Sprintf(e, b.kind)
					}
					if !matched {
						t.Fatalf("unexpected error: %q", err)
					}
				}
			})
		}
	}
}

// A builder that panics for any reason, including a nil receiver and a nil grammar,
// results in an error of the wrapper and never in a panic of the caller or in a nil error.
func TestRefactorDemo_TableBuilders_Panics(t *testing.T) {
	var nilSpec *Spec

	specs := map[string]*Spec{
		"NilReceiver":  nilSpec,
		"ZeroSpec":     {},
		"NilGrammar":   {Name: "g", Precedences: lr.PrecedenceLevels{}},
		"OnlyTerminal": {Name: "g", Definitions: []*TerminalDef{{Terminal: "a", Value: "a"}}},
	}

	for name, s := range specs {
		for _, b := range demoBuilders {
			t.Run(name+"/"+b.kind, func(t *testing.T) {
				T, err := b.build(s)
				if T != nil {
					t.Fatalf("expected no table, got %v", T)
				}
				if err == nil || err.Error() != fmt.Sprintf(demoPanicForm, b.kind) {
					t.Fatalf("unexpected error: %v", err)
				}
			})
		}
	}
}

// The command-line tool turns every failure into a message and a non-zero exit status, never a stack trace.
func TestRefactorDemo_CommandLine(t *testing.T) {
	root, err := filepath.Abs(filepath.Join("..", "..", "..", ".."))
	if err != nil {
		t.Fatal(err)
	}

	dir := t.TempDir()
	bin := filepath.Join(dir, "emerge")

	build := exec.Command("go", "build", "-o", bin, "./cmd/emerge")
	build.Dir = root
	if out, err := build.CombinedOutput(); err != nil {
		t.Fatalf("cannot build the command: %v\n%s", err, out)
	}

	write := func(name, content string) {
		if err := os.WriteFile(filepath.Join(dir, name), []byte(content), 0o644); err != nil {
			t.Fatal(err)
		}
	}

	write("ok.ebnf", "grammar ok;\nstart = \"a\";\n")
	write("acc.ebnf", "grammar acc;\nstart = a; a = start | \"x\";\n")
	write("sr.ebnf", "grammar sr;\nstart = e;\ne = e \"+\" e | \"x\";\n")
	write("bad.ebnf", "grammar \x00\xff;;; = = |")
	write("empty.ebnf", "")
	if err := os.Mkdir(filepath.Join(dir, "out"), 0o755); err != nil {
		t.Fatal(err)
	}

	tests := []struct {
		name   string
		args   []string
		status int
		stdout []string
		stderr []string
	}{
		{"NoArgs", nil, 1, nil, []string{"\x1b[31m\nno input file specified, please provide a file path\n\x1b[0m\n"}},
		{"OnlyFlags", []string{"-debug"}, 1, nil, []string{"\x1b[31m\nno input file specified, please provide a file path\n\x1b[0m\n"}},
		{"UnknownFlag", []string{"-bogus"}, 2, nil, []string{"flag provided but not defined: -bogus\nUsage of emerge:\n", "\x1b[31mflag provided but not defined: -bogus\x1b[0m\n"}},
		{"BadFlagValue", []string{"-verbose=maybe", "ok.ebnf"}, 2, nil, []string{"invalid boolean value \"maybe\" for -verbose: parse error\n"}},
		{"MissingFile", []string{"missing.ebnf"}, 1, []string{"Parsing \"missing.ebnf\" ..."}, []string{"\x1b[31m\nopen missing.ebnf: no such file or directory\n\x1b[0m\n"}},
		{"Directory", []string{"out"}, 1, nil, []string{"\x1b[31m\nread out: is a directory\n\x1b[0m\n"}},
		{"EmptyFile", []string{"-out=out", "empty.ebnf"}, 1, nil, []string{"\x1b[31m\n"}},
		{"GarbageFile", []string{"-out=out", "bad.ebnf"}, 1, nil, []string{"\x1b[31m\n"}},
		{"MissingOut", []string{"-out=nodir", "ok.ebnf"}, 1, []string{"Generating parser ..."}, []string{"\x1b[31m\noutput path does not exist: \"nodir\"\n\x1b[0m\n"}},
		{"BadName", []string{"-out=out", "-name=1x", "ok.ebnf"}, 1, nil, []string{"\x1b[31m\ninvalid package name: 1x\n\x1b[0m\n"}},
		{"ShiftReduce", []string{"-out=out", "sr.ebnf"}, 1, []string{"Constructing LALR(1) Parsing Table ..."}, []string{"\x1b[31m\nerror on building LALR(1) parsing table:\nError:      Ambiguous Grammar\nCause:      Shift/Reduce conflict in ACTION[2, \"+\"]\n"}},
		{"AcceptConflict", []string{"-out=out", "acc.ebnf"}, 1, []string{"Constructing LALR(1) Parsing Table ..."}, []string{"\x1b[31m\nerror on building LALR(1) parsing table:\n"}},
		{"Version", []string{"-version"}, 0, []string{"Version:", "Go Version:"}, nil},
		{"Help", []string{"-help"}, 0, []string{"emerge [flags] FILE_PATH"}, nil},
		{"Success", []string{"-out=out", "ok.ebnf"}, 0, []string{"Constructing LALR(1) Parsing Table ...", "Successful!"}, nil},
		{"SuccessVerbose", []string{"-verbose", "-out=out", "-name=okv", "ok.ebnf"}, 0, []string{"Rendering \"parser.go\" ...", "Successful!"}, nil},
		{"PackageExists", []string{"-out=out", "ok.ebnf"}, 1, nil, []string{"\x1b[31m\nerror on creating package directory: mkdir out/ok: file exists\n\x1b[0m\n"}},
	}

	for _, tc := range tests {
		t.Run(tc.name, func(t *testing.T) {
			var stdout, stderr bytes.Buffer
			cmd := exec.Command(bin, tc.args...)
			cmd.Dir = dir
			cmd.Stdout, cmd.Stderr = &stdout, &stderr

			status := 0
			if err := cmd.Run(); err != nil {
				var exitErr *exec.ExitError
				if !errors.As(err, &exitErr) {
					t.Fatal(err)
				}
				status = exitErr.ExitCode()
			}

			if status != tc.status {
				t.Errorf("expected exit status %d, got %d\nstdout: %s\nstderr: %s", tc.status, status, &stdout, &stderr)
			}

			for _, s := range tc.stdout {
				if !strings.Contains(stdout.String(), s) {
					t.Errorf("expected %q in the standard output:\n%q", s, &stdout)
				}
			}

			for _, s := range tc.stderr {
				if !strings.Contains(stderr.String(), s) {
					t.Errorf("expected %q in the standard error:\n%q", s, &stderr)
				}
			}

			if tc.status == 0 && stderr.Len() != 0 {
				t.Errorf("expected an empty standard error: %q", &stderr)
			}

			if tc.status != 0 && !strings.HasSuffix(stderr.String(), "\x1b[0m\n") {
				t.Errorf("expected the standard error to end with the error message: %q", &stderr)
			}

			for _, s := range []string{"goroutine ", "panic:", "runtime error", ".go:"} {
				if tc.name != "AcceptConflict" && (strings.Contains(stdout.String(), s) || strings.Contains(stderr.String(), s)) {
					t.Errorf("unexpected %q in the output\nstdout: %s\nstderr: %s", s, &stdout, &stderr)
				}
			}
		})
	}

	// The generated packages are complete and the parser file has the expected content.
	for pkg, hash := range map[string]string{"ok": "24d7162d410e", "okv": "8916e897f31f"} {
		entries, err := os.ReadDir(filepath.Join(dir, "out", pkg))
		if err != nil {
			t.Fatal(err)
		}

		names := []string{}
		for _, e := range entries {
			names = append(names, e.Name())
		}
		sort.Strings(names)

		if got := strings.Join(names, " "); got != "errors.go input.go lexer.go parser.go stack.go types.go" {
			t.Errorf("unexpected files for package %s: %s", pkg, got)
		}

		content, err := os.ReadFile(filepath.Join(dir, "out", pkg, "parser.go"))
		if err != nil {
			t.Fatal(err)
		}

		if h := demoHash(content); h != hash {
			t.Errorf("unexpected parser.go for package %s (digest %s)", pkg, h)
		}
	}

	// A failed table construction leaves no parser file behind.
	for _, pkg := range []string{"sr", "acc"} {
		if _, err := os.Stat(filepath.Join(dir, "out", pkg, "parser.go")); !os.IsNotExist(err) {
			t.Errorf("unexpected parser.go for package %s: %v", pkg, err)
		}
	}
}
