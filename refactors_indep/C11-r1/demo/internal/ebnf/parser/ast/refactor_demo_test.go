package ast

import (
	"crypto/sha256"
	"fmt"
	"os"
	"strings"
	"testing"

	"github.com/moorara/algo/lexer"
)

// demoPos renders a position as line:column+offset, or "-" when there is none.
func demoPos(p *lexer.Position) string {
	if p == nil {
		return "-"
	}
	return fmt.Sprintf("%d:%d+%d", p.Line, p.Column, p.Offset)
}

// demoDump renders every field of a typed tree, including all positions, operand order and nesting.
func demoDump(n Node) string {
	switch n := n.(type) {
	case *Grammar:
		parts := make([]string, len(n.Decls))
		for i, d := range n.Decls {
			parts[i] = demoDump(d)
		}
		nilness := ""
		if n.Decls == nil {
			nilness = "nil"
		}
		return fmt.Sprintf("G(%s@%s %s[%s])", n.Name, demoPos(n.Position), nilness, strings.Join(parts, " "))
	case *StringTokenDecl:
		return fmt.Sprintf("STR(%s=%q@%s)", n.Name, n.Value, demoPos(n.Position))
	case *RegexTokenDecl:
		return fmt.Sprintf("RE(%s=/%s/@%s)", n.Name, n.Regex, demoPos(n.Position))
	case *PrecedenceDecl:
		parts := make([]string, len(n.Handles))
		for i, h := range n.Handles {
			parts[i] = demoDump(h)
		}
		return fmt.Sprintf("PREC(%s@%s [%s])", n.Associativity, demoPos(n.Position), strings.Join(parts, " "))
	case *TerminalHandle:
		return fmt.Sprintf("TH(%s@%s)", n.Terminal, demoPos(n.Position))
	case *ProductionHandle:
		return fmt.Sprintf("PH(%s@%s = %s)", n.LHS, demoPos(n.Position), demoDump(n.RHS))
	case *RuleDecl:
		return fmt.Sprintf("RULE(%s@%s = %s)", n.LHS, demoPos(n.Position), demoDump(n.RHS))
	case *ConcatRHS:
		parts := make([]string, len(n.Ops))
		for i, op := range n.Ops {
			parts[i] = demoDump(op)
		}
		return fmt.Sprintf("CAT#%d(%s)", len(n.Ops), strings.Join(parts, " "))
	case *AltRHS:
		parts := make([]string, len(n.Ops))
		for i, op := range n.Ops {
			parts[i] = demoDump(op)
		}
		return fmt.Sprintf("ALT#%d(%s)", len(n.Ops), strings.Join(parts, " | "))
	case *OptRHS:
		return fmt.Sprintf("OPT@%s(%s)", demoPos(n.Position), demoDump(n.Op))
	case *StarRHS:
		return fmt.Sprintf("STAR@%s(%s)", demoPos(n.Position), demoDump(n.Op))
	case *PlusRHS:
		return fmt.Sprintf("PLUS@%s(%s)", demoPos(n.Position), demoDump(n.Op))
	case *NonTerminalRHS:
		return fmt.Sprintf("N(%s@%s)", n.NonTerminal, demoPos(n.Position))
	case *TerminalRHS:
		return fmt.Sprintf("T(%s@%s)", n.Terminal, demoPos(n.Position))
	case *EmptyRHS:
		return "EPS"
	default:
		return fmt.Sprintf("?%T", n)
	}
}

var demoCases = []struct {
	name string
	src  string
	want string
}{
	{
		name: "Empty_NoSemi",
		src:  "grammar g",
		want: "G(g@1:1+0 nil[])",
	},
	{
		name: "Empty_Semi",
		src:  "grammar g;",
		want: "G(g@1:1+0 nil[])",
	},
	{
		name: "Tokens",
		src:  "grammar g;\nAA = \"a\"\nBB = /b+/;\nCC = $ID\nDD = $STRING;\nEE = $WS EE = \"again\"",
		want: "G(g@1:1+0 [STR(AA=\"a\"@2:1+11) RE(BB=/b+/@3:1+20) RE(CC=/[A-Za-z_][0-9A-Za-z_]*/@4:1+31) RE(DD=/\"([\\x21\\x23-\\x5B\\x5D-\\x7E]|\\\\[\\x21-\\x7E])+\"/@5:1+40) RE(EE=/[\\x09\\x0A\\x0D\\x20]/@6:1+54) STR(EE=\"again\"@6:10+63)])",
	},
	{
		name: "Predef_Invalid",
		src:  "grammar g; AA = $FOO",
		want: "ERR: invalid predefined regex: $FOO",
	},
	{
		name: "Rule_Empty",
		src:  "grammar g; s = ;",
		want: "G(g@1:1+0 [RULE(s@1:12+11 = EPS)])",
	},
	{
		name: "Rule_NonTerminal",
		src:  "grammar g; s = a;",
		want: "G(g@1:1+0 [RULE(s@1:12+11 = N(a@1:16+15))])",
	},
	{
		name: "Rule_String",
		src:  "grammar g; s = \"x\";",
		want: "G(g@1:1+0 [RULE(s@1:12+11 = T(\"x\"@1:16+15))])",
	},
	{
		name: "Rule_StringEscapes",
		src:  "grammar g; s = \"\\\"\" \"\\\\\" \"a_b\";",
		want: "G(g@1:1+0 [RULE(s@1:12+11 = CAT#3(T(\"\\\\\\\"\"@1:16+15) T(\"\\\\\\\\\"@1:21+20) T(\"a_b\"@1:26+25)))])",
	},
	{
		name: "Rule_Token",
		src:  "grammar g; s = TOK;",
		want: "G(g@1:1+0 [RULE(s@1:12+11 = T(TOK@1:16+15))])",
	},
	{
		name: "Concat_2",
		src:  "grammar g; s = a b;",
		want: "G(g@1:1+0 [RULE(s@1:12+11 = CAT#2(N(a@1:16+15) N(b@1:18+17)))])",
	},
	{
		name: "Concat_4",
		src:  "grammar g; s = a b c d;",
		want: "G(g@1:1+0 [RULE(s@1:12+11 = CAT#4(N(a@1:16+15) N(b@1:18+17) N(c@1:20+19) N(d@1:22+21)))])",
	},
	{
		name: "Concat_ParenLeft",
		src:  "grammar g; s = (a b) c;",
		want: "G(g@1:1+0 [RULE(s@1:12+11 = CAT#3(N(a@1:17+16) N(b@1:19+18) N(c@1:22+21)))])",
	},
	{
		name: "Concat_ParenRight",
		src:  "grammar g; s = a (b c);",
		want: "G(g@1:1+0 [RULE(s@1:12+11 = CAT#3(N(a@1:16+15) N(b@1:19+18) N(c@1:21+20)))])",
	},
	{
		name: "Concat_ParenBoth",
		src:  "grammar g; s = (a b) (c d);",
		want: "G(g@1:1+0 [RULE(s@1:12+11 = CAT#4(N(a@1:17+16) N(b@1:19+18) N(c@1:23+22) N(d@1:25+24)))])",
	},
	{
		name: "Concat_ParenDeep",
		src:  "grammar g; s = ((a b)) ((c)) (d (e f));",
		want: "G(g@1:1+0 [RULE(s@1:12+11 = CAT#6(N(a@1:18+17) N(b@1:20+19) N(c@1:26+25) N(d@1:31+30) N(e@1:34+33) N(f@1:36+35)))])",
	},
	{
		name: "Alt_3",
		src:  "grammar g; s = a | b | c;",
		want: "G(g@1:1+0 [RULE(s@1:12+11 = ALT#3(N(a@1:16+15) | N(b@1:20+19) | N(c@1:24+23)))])",
	},
	{
		name: "Alt_ParenLeft",
		src:  "grammar g; s = (a | b) | c;",
		want: "G(g@1:1+0 [RULE(s@1:12+11 = ALT#3(N(a@1:17+16) | N(b@1:21+20) | N(c@1:26+25)))])",
	},
	{
		name: "Alt_ParenRight",
		src:  "grammar g; s = a | (b | c);",
		want: "G(g@1:1+0 [RULE(s@1:12+11 = ALT#3(N(a@1:16+15) | N(b@1:21+20) | N(c@1:25+24)))])",
	},
	{
		name: "Alt_ParenBoth",
		src:  "grammar g; s = (a | b) | (c | d);",
		want: "G(g@1:1+0 [RULE(s@1:12+11 = ALT#4(N(a@1:17+16) | N(b@1:21+20) | N(c@1:27+26) | N(d@1:31+30)))])",
	},
	{
		name: "Alt_TrailingEmpty",
		src:  "grammar g; s = a | ;",
		want: "G(g@1:1+0 [RULE(s@1:12+11 = ALT#2(N(a@1:16+15) | EPS))])",
	},
	{
		name: "Alt_TrailingEmpty2",
		src:  "grammar g; s = a | b | ;",
		want: "G(g@1:1+0 [RULE(s@1:12+11 = ALT#3(N(a@1:16+15) | N(b@1:20+19) | EPS))])",
	},
	{
		name: "Alt_TrailingEmptyParen",
		src:  "grammar g; s = (a |) | b;",
		want: "G(g@1:1+0 [RULE(s@1:12+11 = ALT#3(N(a@1:17+16) | EPS | N(b@1:24+23)))])",
	},
	{
		name: "Alt_TrailingEmptyParenRight",
		src:  "grammar g; s = a | (b |);",
		want: "G(g@1:1+0 [RULE(s@1:12+11 = ALT#3(N(a@1:16+15) | N(b@1:21+20) | EPS))])",
	},
	{
		name: "Alt_TrailingEmptyTwice",
		src:  "grammar g; s = (a |) | ;",
		want: "G(g@1:1+0 [RULE(s@1:12+11 = ALT#3(N(a@1:17+16) | EPS | EPS))])",
	},
	{
		name: "Alt_TrailingInOpt",
		src:  "grammar g; s = [a |] {b | c |} {{(d |)}};",
		want: "G(g@1:1+0 [RULE(s@1:12+11 = CAT#3(OPT@1:16+15(ALT#2(N(a@1:17+16) | EPS)) STAR@1:22+21(ALT#3(N(b@1:23+22) | N(c@1:27+26) | EPS)) PLUS@1:32+31(ALT#2(N(d@1:35+34) | EPS))))])",
	},
	{
		name: "Alt_DoubleBar",
		src:  "grammar g; s = a | | b;",
		want: "G(g@1:1+0 [RULE(s@1:12+11 = ALT#3(N(a@1:16+15) | EPS | N(b@1:22+21)))])",
	},
	{
		name: "Alt_LeadingBar",
		src:  "grammar g; s = | a;",
		want: "ERR: demo:1:16: unexpected string \"|\": no action exists in the parsing table for ACTION[30, \"|\"]",
	},
	{
		name: "Mix_ConcatInAlt",
		src:  "grammar g; s = a b | c d | e;",
		want: "G(g@1:1+0 [RULE(s@1:12+11 = ALT#3(CAT#2(N(a@1:16+15) N(b@1:18+17)) | CAT#2(N(c@1:22+21) N(d@1:24+23)) | N(e@1:28+27)))])",
	},
	{
		name: "Mix_AltInConcat",
		src:  "grammar g; s = a (b | c) d;",
		want: "G(g@1:1+0 [RULE(s@1:12+11 = CAT#3(N(a@1:16+15) ALT#2(N(b@1:19+18) | N(c@1:23+22)) N(d@1:26+25)))])",
	},
	{
		name: "Mix_AltOfAltConcat",
		src:  "grammar g; s = (a | b) (c | d);",
		want: "G(g@1:1+0 [RULE(s@1:12+11 = CAT#2(ALT#2(N(a@1:17+16) | N(b@1:21+20)) ALT#2(N(c@1:25+24) | N(d@1:29+28))))])",
	},
	{
		name: "Mix_ConcatOfParenAltThenAlt",
		src:  "grammar g; s = (a | b) c | d (e | f) | ;",
		want: "G(g@1:1+0 [RULE(s@1:12+11 = ALT#3(CAT#2(ALT#2(N(a@1:17+16) | N(b@1:21+20)) N(c@1:24+23)) | CAT#2(N(d@1:28+27) ALT#2(N(e@1:31+30) | N(f@1:35+34))) | EPS))])",
	},
	{
		name: "Mix_Precedence",
		src:  "grammar g; s = a | b c | d e f;",
		want: "G(g@1:1+0 [RULE(s@1:12+11 = ALT#3(N(a@1:16+15) | CAT#2(N(b@1:20+19) N(c@1:22+21)) | CAT#3(N(d@1:26+25) N(e@1:28+27) N(f@1:30+29))))])",
	},
	{
		name: "Nest_All",
		src:  "grammar g; s = {a b} [c | d] {{e}};",
		want: "G(g@1:1+0 [RULE(s@1:12+11 = CAT#3(STAR@1:16+15(CAT#2(N(a@1:17+16) N(b@1:19+18))) OPT@1:22+21(ALT#2(N(c@1:23+22) | N(d@1:27+26))) PLUS@1:30+29(N(e@1:32+31))))])",
	},
	{
		name: "Nest_Deep",
		src:  "grammar g; s = {{ {a} [b] ( {c d} | [e | f] ) }};",
		want: "G(g@1:1+0 [RULE(s@1:12+11 = PLUS@1:16+15(CAT#3(STAR@1:19+18(N(a@1:20+19)) OPT@1:23+22(N(b@1:24+23)) ALT#2(STAR@1:29+28(CAT#2(N(c@1:30+29) N(d@1:32+31))) | OPT@1:37+36(ALT#2(N(e@1:38+37) | N(f@1:42+41)))))))])",
	},
	{
		name: "Nest_AltOfUnary",
		src:  "grammar g; s = [a] | {b} | {{c}};",
		want: "G(g@1:1+0 [RULE(s@1:12+11 = ALT#3(OPT@1:16+15(N(a@1:17+16)) | STAR@1:22+21(N(b@1:23+22)) | PLUS@1:28+27(N(c@1:30+29))))])",
	},
	{
		name: "Nest_ConcatInsideUnaryInsideConcat",
		src:  "grammar g; s = x {y z} w;",
		want: "G(g@1:1+0 [RULE(s@1:12+11 = CAT#3(N(x@1:16+15) STAR@1:18+17(CAT#2(N(y@1:19+18) N(z@1:21+20))) N(w@1:24+23)))])",
	},
	{
		name: "Terms_Mixed",
		src:  "grammar g; s = \"if\" \"(\" e \")\" s ELSE s | ID \"=\" NUM;",
		want: "G(g@1:1+0 [RULE(s@1:12+11 = ALT#2(CAT#7(T(\"if\"@1:16+15) T(\"(\"@1:21+20) N(e@1:25+24) T(\")\"@1:27+26) N(s@1:31+30) T(ELSE@1:33+32) N(s@1:38+37)) | CAT#3(T(ID@1:42+41) T(\"=\"@1:45+44) T(NUM@1:49+48))))])",
	},
	{
		name: "Prec_Terminals",
		src:  "grammar g;\n@left \"+\" \"-\"\n@right \"*\" TOK;\n@none \"=\"",
		want: "G(g@1:1+0 [PREC(LEFT@2:1+11 [TH(\"+\"@2:7+17) TH(\"-\"@2:11+21)]) PREC(RIGHT@3:1+25 [TH(\"*\"@3:8+32) TH(TOK@3:12+36)]) PREC(NONE@4:1+41 [TH(\"=\"@4:7+47)])])",
	},
	{
		name: "Prec_RuleHandleFirst",
		src:  "grammar g; @right <e = e \"+\" e> \"x\" <e = >;",
		want: "G(g@1:1+0 [PREC(RIGHT@1:12+11 [PH(e@1:19+18 = CAT#3(N(e@1:24+23) T(\"+\"@1:26+25) N(e@1:30+29))) TH(\"x\"@1:33+32) PH(e@1:37+36 = EPS)])])",
	},
	{
		name: "Prec_RuleHandleLater",
		src:  "grammar g; @none TOK <e = a | b> <f = {a} [b]> \"y\"",
		want: "G(g@1:1+0 [PREC(NONE@1:12+11 [TH(TOK@1:18+17) PH(e@1:22+21 = ALT#2(N(a@1:27+26) | N(b@1:31+30))) PH(f@1:34+33 = CAT#2(STAR@1:39+38(N(a@1:40+39)) OPT@1:43+42(N(b@1:44+43)))) TH(\"y\"@1:48+47)])])",
	},
	{
		name: "Prec_RuleHandleOnly",
		src:  "grammar g; @left <e = e e>",
		want: "G(g@1:1+0 [PREC(LEFT@1:12+11 [PH(e@1:18+17 = CAT#2(N(e@1:23+22) N(e@1:25+24)))])])",
	},
	{
		name: "Prec_RuleHandleAltFlatten",
		src:  "grammar g; @left <e = (a | b) | c d | > \"z\" <e = (a b) c>;",
		want: "G(g@1:1+0 [PREC(LEFT@1:12+11 [PH(e@1:18+17 = ALT#4(N(a@1:24+23) | N(b@1:28+27) | CAT#2(N(c@1:33+32) N(d@1:35+34)) | EPS)) TH(\"z\"@1:41+40) PH(e@1:45+44 = CAT#3(N(a@1:51+50) N(b@1:53+52) N(c@1:56+55)))])])",
	},
	{
		name: "MultiLine",
		src:  "// comment\ngrammar multi;\n\n/* another\n   one */\nNUM = /[0-9]+/\n@left \"+\"\n\nexpr = expr \"+\" expr\n     | \"(\" expr \")\"\n     | NUM /* trailing */ ;\nlist = {{ expr [\",\"] }} | ;\n",
		want: "G(multi@2:1+11 [RE(NUM=/[0-9]+/@6:1+48) PREC(LEFT@7:1+63 [TH(\"+\"@7:7+69)]) RULE(expr@9:1+74 = ALT#3(CAT#3(N(expr@9:8+81) T(\"+\"@9:13+86) N(expr@9:17+90)) | CAT#3(T(\"(\"@10:8+102) N(expr@10:12+106) T(\")\"@10:17+111)) | T(NUM@11:8+122))) RULE(list@12:1+143 = ALT#2(PLUS@12:8+150(CAT#2(N(expr@12:11+153) OPT@12:16+158(T(\",\"@12:17+159)))) | EPS))])",
	},
	{
		name: "MultipleRules",
		src:  "grammar g; a = b c; b = \"b\" | ; c = {a};",
		want: "G(g@1:1+0 [RULE(a@1:12+11 = CAT#2(N(b@1:16+15) N(c@1:18+17))) RULE(b@1:21+20 = ALT#2(T(\"b\"@1:25+24) | EPS)) RULE(c@1:33+32 = STAR@1:37+36(N(a@1:38+37)))])",
	},
	{
		name: "Err_MissingSemi",
		src:  "grammar g; s = a",
		want: "ERR: unexpected string \"\": no action exists in the parsing table for ACTION[44, $]",
	},
	{
		name: "Err_UnclosedParen",
		src:  "grammar g; s = (a b;",
		want: "ERR: demo:1:20: unexpected string \";\": no action exists in the parsing table for ACTION[26, \";\"]",
	},
	{
		name: "Err_UnclosedHandle",
		src:  "grammar g; @left <e = e \"+\" e",
		want: "ERR: unexpected string \"\": no action exists in the parsing table for ACTION[44, $]",
	},
	{
		name: "Err_NoName",
		src:  "s = a;",
		want: "ERR: demo:1:1: unexpected string \"s\": no action exists in the parsing table for ACTION[0, \"IDENT\"]",
	},
	{
		name: "Err_Lexical",
		src:  "grammar g; s = a ~ b;",
		want: "ERR: lexical error at demo:1:18:",
	},
}

func TestRefactorDemo_TypedTree(t *testing.T) {
	for _, tc := range demoCases {
		t.Run(tc.name, func(t *testing.T) {
			g, err := Parse("demo", strings.NewReader(tc.src))
			got := ""
			if err != nil {
				got = "ERR: " + err.Error()
			} else {
				got = demoDump(g)
			}
			if got != tc.want {
				t.Errorf("typed tree mismatch\nsrc:  %s\ngot:  %s\nwant: %s", tc.src, got, tc.want)
			}

			// Parsing is deterministic and yields an equal tree each time.
			if err == nil {
				again, err2 := Parse("demo", strings.NewReader(tc.src))
				if err2 != nil || !g.Equal(again) || !again.Equal(g) {
					t.Errorf("second parse of %q is not equal to the first", tc.src)
				}
			}
		})
	}
}

// The fixture grammars are large; their complete typed trees are pinned by length and digest.
func TestRefactorDemo_Fixtures(t *testing.T) {
	tests := []struct {
		filename string
		decls    int
		length   int
		digest   string
	}{
		{"../../fixture/test.success.grammar", 18, 1828, "06587b81517c77727c08a079ab2319ff7784b41384254eee0eae5d6bc22bf5a3"},
		{"../../fixture/ebnf.grammar", 20, 2097, "33d47964dec10f52891eee0e17ea333383e0df1be1d4ff28446a3ae78d2c1519"},
		{"../../fixture/pascal.grammar", 23, 2678, "7038ba1353bd7568b0d1005658892045593761b09bbd7ecc70fb0bd8e200f7e6"},
		{"../../fixture/please.grammar", 29, 6055, "0178330e3b3e0ea832b591a9e21b4035c3fb99ab07f2dfaf0ba1d5ddb1183c47"},
	}

	for _, tc := range tests {
		t.Run(tc.filename, func(t *testing.T) {
			f, err := os.Open(tc.filename)
			if err != nil {
				t.Fatal(err)
			}
			defer f.Close()

			g, err := Parse("fixture", f)
			if err != nil {
				t.Fatal(err)
			}

			dump := demoDump(g)
			digest := fmt.Sprintf("%x", sha256.Sum256([]byte(dump)))
			if len(g.Decls) != tc.decls || len(dump) != tc.length || digest != tc.digest {
				t.Errorf("typed tree changed: got {%q, %d, %d, %q}", tc.filename, len(g.Decls), len(dump), digest)
			}
		})
	}
}
