package parser

import (
	"errors"
	"fmt"
	"io"
	"math/rand"
	"strings"
	"testing"

	"github.com/moorara/algo/generic"
	"github.com/moorara/algo/grammar"
	"github.com/moorara/algo/lexer"
	"github.com/moorara/algo/list"
	"github.com/moorara/algo/parser"
	"github.com/moorara/algo/parser/lr"
)

// demoTrace runs Parse over src and records every shift and reduction in order.
func demoTrace(src string) string {
	var b strings.Builder

	p, err := New("demo", strings.NewReader(src))
	if err != nil {
		return "new:" + err.Error()
	}

	err = p.Parse(
		func(tok *lexer.Token) error {
			fmt.Fprintf(&b, "%s ", tok.Lexeme)
			return nil
		},
		func(i int) error {
			fmt.Fprintf(&b, "r%d ", i)
			return nil
		},
	)

	if err != nil {
		fmt.Fprintf(&b, "=> %s", err)
	} else {
		b.WriteString("=> ok")
	}

	return b.String()
}

// demoTree renders a node; ε-reductions are shown with their nil-ness.
func demoTree(n parser.Node) string {
	switch n := n.(type) {
	case *parser.LeafNode:
		return fmt.Sprintf("%s@%d", n.Lexeme, n.Position.Offset)
	case *parser.InternalNode:
		if n.Children == nil {
			return fmt.Sprintf("(%s nil)", n.NonTerminal)
		}
		parts := make([]string, 0, len(n.Children)+1)
		parts = append(parts, string(n.NonTerminal))
		for _, c := range n.Children {
			parts = append(parts, demoTree(c))
		}
		return "(" + strings.Join(parts, " ") + ")"
	default:
		return fmt.Sprintf("<%v>", n)
	}
}

func demoAST(src string) string {
	p, err := New("demo", strings.NewReader(src))
	if err != nil {
		return "new:" + err.Error()
	}

	root, err := p.ParseAndBuildAST()
	if err != nil {
		return "=> " + err.Error()
	}

	in, ok := root.(*parser.InternalNode)
	if !ok {
		return "root is not internal"
	}

	// Every internal node must reference the table's own production.
	var check func(n parser.Node) error
	check = func(n parser.Node) error {
		if in, ok := n.(*parser.InternalNode); ok {
			found := false
			for _, q := range productions {
				if q == in.Production {
					found = true
				}
			}
			if !found || in.Production.Head != in.NonTerminal || len(in.Production.Body) != len(in.Children) {
				return fmt.Errorf("bad production on %s", in.NonTerminal)
			}
			for _, c := range in.Children {
				if err := check(c); err != nil {
					return err
				}
			}
		}
		return nil
	}
	if err := check(in); err != nil {
		return err.Error()
	}

	return demoTree(root)
}

func demoEval(src string) string {
	p, err := New("demo", strings.NewReader(src))
	if err != nil {
		return "new:" + err.Error()
	}

	v, err := p.ParseAndEvaluate(func(i int, rhs []*lr.Value) (any, error) {
		parts := make([]string, 0, len(rhs)+1)
		parts = append(parts, fmt.Sprintf("%d", i))
		for _, r := range rhs {
			parts = append(parts, fmt.Sprint(r.Val))
		}
		return "[" + strings.Join(parts, " ") + "]", nil
	})
	if err != nil {
		return "=> " + err.Error()
	}

	pos := "nopos"
	if v.Pos != nil {
		pos = fmt.Sprintf("%d", v.Pos.Offset)
	}
	return fmt.Sprintf("%v @%s", v.Val, pos)
}

var demoTraceCases = []struct{ src, want string }{
	{"",
		"=> unexpected string \"\": no action exists in the parsing table for ACTION[0, $]"},
	{"grammar",
		"grammar => unexpected string \"\": no action exists in the parsing table for ACTION[43, $]"},
	{"grammar g",
		"grammar g r8 r1 r3 r0 => ok"},
	{"grammar g;",
		"grammar g ; r7 r1 r3 r0 => ok"},
	{"grammar g;;",
		"grammar g ; => demo:1:11: unexpected string \";\": no action exists in the parsing table for ACTION[53, \";\"]"},
	{"g",
		"=> demo:1:1: unexpected string \"g\": no action exists in the parsing table for ACTION[0, \"IDENT\"]"},
	{"grammar G",
		"grammar => lexical error at demo:1:9:G"},
	{"grammar GG",
		"grammar => demo:1:9: unexpected string \"GG\": no action exists in the parsing table for ACTION[43, \"TOKEN\"]"},
	{"grammar g; AA = $ID $ID",
		"grammar g ; r7 r1 r3 AA = $ID => demo:1:21: unexpected string \"$ID\": no action exists in the parsing table for ACTION[10, \"PREDEF\"]"},
	{"grammar g; AA = /x/ /y/",
		"grammar g ; r7 r1 r3 AA = x => demo:1:21: unexpected string \"y\": no action exists in the parsing table for ACTION[11, \"REGEX\"]"},
	{"grammar g; AA BB = \"x\"",
		"grammar g ; r7 r1 r3 AA => demo:1:15: unexpected string \"BB\": no action exists in the parsing table for ACTION[56, \"TOKEN\"]"},
	{"grammar g; a = AA = b;",
		"grammar g ; r7 r1 r3 a r32 r22 = AA => demo:1:19: unexpected string \"=\": no action exists in the parsing table for ACTION[55, \"=\"]"},
	{"grammar g a = ;",
		"grammar g r8 r1 r3 a r32 r22 = r21 ; r6 r2 r0 => ok"},
	{"grammar g a = b",
		"grammar g r8 r1 r3 a r32 r22 = b => unexpected string \"\": no action exists in the parsing table for ACTION[44, $]"},
	{"grammar g a = b;",
		"grammar g r8 r1 r3 a r32 r22 = b r32 r30 r20 ; r6 r2 r0 => ok"},
	{"grammar g; a = b c | d e | f;",
		"grammar g ; r7 r1 r3 a r32 r22 = b r32 r30 c r32 r30 r23 | d r32 r30 e r32 r30 r23 | f r32 r30 r28 r28 r20 ; r6 r2 r0 => ok"},
	{"grammar g; a = b | c | d;",
		"grammar g ; r7 r1 r3 a r32 r22 = b r32 r30 | c r32 r30 | d r32 r30 r28 r28 r20 ; r6 r2 r0 => ok"},
	{"grammar g; a = b c d;",
		"grammar g ; r7 r1 r3 a r32 r22 = b r32 r30 c r32 r30 r23 d r32 r30 r23 r20 ; r6 r2 r0 => ok"},
	{"grammar g; a = b |;",
		"grammar g ; r7 r1 r3 a r32 r22 = b r32 r30 | r29 r20 ; r6 r2 r0 => ok"},
	{"grammar g; a = b | | c;",
		"grammar g ; r7 r1 r3 a r32 r22 = b r32 r30 | r29 | c r32 r30 r28 r20 ; r6 r2 r0 => ok"},
	{"grammar g; a = | b;",
		"grammar g ; r7 r1 r3 a r32 r22 = => demo:1:16: unexpected string \"|\": no action exists in the parsing table for ACTION[30, \"|\"]"},
	{"grammar g; a = b | c d |;",
		"grammar g ; r7 r1 r3 a r32 r22 = b r32 r30 | c r32 r30 d r32 r30 r23 | r29 r28 r20 ; r6 r2 r0 => ok"},
	{"grammar g; a = (b | c) d;",
		"grammar g ; r7 r1 r3 a r32 r22 = ( b r32 r30 | c r32 r30 r28 ) r24 d r32 r30 r23 r20 ; r6 r2 r0 => ok"},
	{"grammar g; a = b (c | d);",
		"grammar g ; r7 r1 r3 a r32 r22 = b r32 r30 ( c r32 r30 | d r32 r30 r28 ) r24 r23 r20 ; r6 r2 r0 => ok"},
	{"grammar g; a = [b] {c} {{d}} (e);",
		"grammar g ; r7 r1 r3 a r32 r22 = [ b r32 r30 ] r25 { c r32 r30 } r26 r23 {{ d r32 r30 }} r27 r23 ( e r32 r30 ) r24 r23 r20 ; r6 r2 r0 => ok"},
	{"grammar g; a = b [c | d e] | {f} g;",
		"grammar g ; r7 r1 r3 a r32 r22 = b r32 r30 [ c r32 r30 | d r32 r30 e r32 r30 r23 r28 ] r25 r23 | { f r32 r30 } r26 g r32 r30 r23 r28 r20 ; r6 r2 r0 => ok"},
	{"grammar g; a = ();",
		"grammar g ; r7 r1 r3 a r32 r22 = ( => demo:1:17: unexpected string \")\": no action exists in the parsing table for ACTION[45, \")\"]"},
	{"grammar g; a = (b;",
		"grammar g ; r7 r1 r3 a r32 r22 = ( b r32 r30 => demo:1:18: unexpected string \";\": no action exists in the parsing table for ACTION[26, \";\"]"},
	{"grammar g; a = b);",
		"grammar g ; r7 r1 r3 a r32 r22 = b r32 r30 => demo:1:17: unexpected string \")\": no action exists in the parsing table for ACTION[8, \")\"]"},
	{"grammar g; a = [b};",
		"grammar g ; r7 r1 r3 a r32 r22 = [ b r32 r30 => demo:1:18: unexpected string \"}\": no action exists in the parsing table for ACTION[27, \"}\"]"},
	{"grammar g; a = {{b}};",
		"grammar g ; r7 r1 r3 a r32 r22 = {{ b r32 r30 }} r27 r20 ; r6 r2 r0 => ok"},
	{"grammar g; a = {{b} };",
		"grammar g ; r7 r1 r3 a r32 r22 = {{ b r32 r30 => demo:1:19: unexpected string \"}\": no action exists in the parsing table for ACTION[29, \"}\"]"},
	{"grammar g; a = { {b} };",
		"grammar g ; r7 r1 r3 a r32 r22 = { { b r32 r30 } r26 } r26 r20 ; r6 r2 r0 => ok"},
	{"grammar g; a = BB \"c\" d;",
		"grammar g ; r7 r1 r3 a r32 r22 = BB r33 r31 c r34 r31 r23 d r32 r30 r23 r20 ; r6 r2 r0 => ok"},
	{"grammar g; a = = b;",
		"grammar g ; r7 r1 r3 a r32 r22 = => demo:1:16: unexpected string \"=\": no action exists in the parsing table for ACTION[30, \"=\"]"},
	{"grammar g; a b = c;",
		"grammar g ; r7 r1 r3 a r32 => demo:1:14: unexpected string \"b\": no action exists in the parsing table for ACTION[42, \"IDENT\"]"},
	{"grammar g; AA = b;",
		"grammar g ; r7 r1 r3 AA = => demo:1:17: unexpected string \"b\": no action exists in the parsing table for ACTION[32, \"IDENT\"]"},
	{"grammar g; AA = \"x\"",
		"grammar g ; r7 r1 r3 AA = x r9 r8 r4 r2 r0 => ok"},
	{"grammar g; AA = \"x\";",
		"grammar g ; r7 r1 r3 AA = x r9 ; r7 r4 r2 r0 => ok"},
	{"grammar g; AA = /[a-z]+/ BB = $ID; CC = \"c\"",
		"grammar g ; r7 r1 r3 AA = [a-z]+ r10 r8 r4 r2 BB = $ID r11 ; r7 r4 r2 CC = c r9 r8 r4 r2 r0 => ok"},
	{"grammar g; AA = ;",
		"grammar g ; r7 r1 r3 AA = => demo:1:17: unexpected string \";\": no action exists in the parsing table for ACTION[32, \";\"]"},
	{"grammar g; AA = BB;",
		"grammar g ; r7 r1 r3 AA = => demo:1:17: unexpected string \"BB\": no action exists in the parsing table for ACTION[32, \"TOKEN\"]"},
	{"grammar g AA = \"x\" a = AA; BB = \"y\"",
		"grammar g r8 r1 r3 AA = x r9 r8 r4 r2 a r32 r22 = AA r33 r31 r20 ; r6 r2 BB = y r9 r8 r4 r2 r0 => ok"},
	{"grammar g; @left \"+\" \"-\"",
		"grammar g ; r7 r1 r3 @left + r34 r17 - r34 r15 r12 r8 r5 r2 r0 => ok"},
	{"grammar g; @left \"+\" \"-\";",
		"grammar g ; r7 r1 r3 @left + r34 r17 - r34 r15 r12 ; r7 r5 r2 r0 => ok"},
	{"grammar g; @right PLUS <e = e \"+\" e> \"*\"; @none <e = >",
		"grammar g ; r7 r1 r3 @right PLUS r33 r17 < e r32 r22 = e r32 r30 + r34 r31 r23 e r32 r30 r23 r20 > r19 r16 * r34 r15 r13 ; r7 r5 r2 @none < e r32 r22 = r21 > r19 r18 r14 r8 r5 r2 r0 => ok"},
	{"grammar g; @none",
		"grammar g ; r7 r1 r3 @none => unexpected string \"\": no action exists in the parsing table for ACTION[37, $]"},
	{"grammar g; @left <e = e e",
		"grammar g ; r7 r1 r3 @left < e r32 r22 = e r32 r30 e => unexpected string \"\": no action exists in the parsing table for ACTION[44, $]"},
	{"grammar g; @left <e = e | f g> e = e e;",
		"grammar g ; r7 r1 r3 @left < e r32 r22 = e r32 r30 | f r32 r30 g r32 r30 r23 r28 r20 > r19 r18 r12 r8 r5 r2 e r32 r22 = e r32 r30 e r32 r30 r23 r20 ; r6 r2 r0 => ok"},
	{"grammar g; @left x",
		"grammar g ; r7 r1 r3 @left => demo:1:18: unexpected string \"x\": no action exists in the parsing table for ACTION[36, \"IDENT\"]"},
	{"grammar g; @left \"a\" @right \"b\" @none \"c\" s = \"a\" | \"b\" | \"c\";",
		"grammar g ; r7 r1 r3 @left a r34 r17 r12 r8 r5 r2 @right b r34 r17 r13 r8 r5 r2 @none c r34 r17 r14 r8 r5 r2 s r32 r22 = a r34 r31 | b r34 r31 | c r34 r31 r28 r28 r20 ; r6 r2 r0 => ok"},
	{"grammar g; a = b; c = d e | ; f = ;",
		"grammar g ; r7 r1 r3 a r32 r22 = b r32 r30 r20 ; r6 r2 c r32 r22 = d r32 r30 e r32 r30 r23 | r29 r20 ; r6 r2 f r32 r22 = r21 ; r6 r2 r0 => ok"},
	{"grammar g; a = b;; c = d;",
		"grammar g ; r7 r1 r3 a r32 r22 = b r32 r30 r20 ; => demo:1:18: unexpected string \";\": no action exists in the parsing table for ACTION[15, \";\"]"},
	{"grammar g; a = b c = d;",
		"grammar g ; r7 r1 r3 a r32 r22 = b r32 r30 c r32 => demo:1:20: unexpected string \"=\": no action exists in the parsing table for ACTION[49, \"=\"]"},
	{"grammar g; a = b | c d | e f g | h;",
		"grammar g ; r7 r1 r3 a r32 r22 = b r32 r30 | c r32 r30 d r32 r30 r23 | e r32 r30 f r32 r30 r23 g r32 r30 r23 | h r32 r30 r28 r28 r28 r20 ; r6 r2 r0 => ok"},
	{"grammar g; a = b {c | d} | [e | f g] h;",
		"grammar g ; r7 r1 r3 a r32 r22 = b r32 r30 { c r32 r30 | d r32 r30 r28 } r26 r23 | [ e r32 r30 | f r32 r30 g r32 r30 r23 r28 ] r25 h r32 r30 r23 r28 r20 ; r6 r2 r0 => ok"},
	{"grammar g; a = < b >;",
		"grammar g ; r7 r1 r3 a r32 r22 = => demo:1:16: unexpected string \"<\": no action exists in the parsing table for ACTION[30, \"<\"]"},
	{"grammar g; a = b | (c | d) | e;",
		"grammar g ; r7 r1 r3 a r32 r22 = b r32 r30 | ( c r32 r30 | d r32 r30 r28 ) r24 | e r32 r30 r28 r28 r20 ; r6 r2 r0 => ok"},
	{"grammar g; a = ((((b))));",
		"grammar g ; r7 r1 r3 a r32 r22 = ( ( ( ( b r32 r30 ) r24 ) r24 ) r24 ) r24 r20 ; r6 r2 r0 => ok"},
	{"grammar g; a = b\n// comment\n c; /* x */ d = e;",
		"grammar g ; r7 r1 r3 a r32 r22 = b r32 r30 c r32 r30 r23 r20 ; r6 r2 d r32 r22 = e r32 r30 r20 ; r6 r2 r0 => ok"},
	{"grammar grammar",
		"grammar => demo:1:9: unexpected string \"grammar\": no action exists in the parsing table for ACTION[43, \"grammar\"]"},
	{"grammar g grammar h",
		"grammar g => demo:1:11: unexpected string \"grammar\": no action exists in the parsing table for ACTION[23, \"grammar\"]"},
	{"grammar g; a = b; @",
		"grammar g ; r7 r1 r3 a r32 r22 = b r32 r30 r20 ; => lexical error at demo:1:19:@"},
	{"grammar g; a = b ! c;",
		"grammar g ; r7 r1 r3 a r32 r22 = b => lexical error at demo:1:18:"},
}

var demoASTCases = []struct{ src, want string }{
	{"grammar g",
		"(grammar (name grammar@0 g@8 (semi_opt nil)) (decls nil))"},
	{"grammar g;",
		"(grammar (name grammar@0 g@8 (semi_opt ;@9)) (decls nil))"},
	{"grammar g; a = ;",
		"(grammar (name grammar@0 g@8 (semi_opt ;@9)) (decls (decls nil) (decl (rule (lhs (nonterm a@11)) =@13) ;@15)))"},
	{"grammar g; a = b c | d e | f;",
		"(grammar (name grammar@0 g@8 (semi_opt ;@9)) (decls (decls nil) (decl (rule (lhs (nonterm a@11)) =@13 (rhs (rhs (rhs (nonterm b@15)) (rhs (nonterm c@17))) |@19 (rhs (rhs (rhs (nonterm d@21)) (rhs (nonterm e@23))) |@25 (rhs (nonterm f@27))))) ;@28)))"},
	{"grammar g; a = b | c | d;",
		"(grammar (name grammar@0 g@8 (semi_opt ;@9)) (decls (decls nil) (decl (rule (lhs (nonterm a@11)) =@13 (rhs (rhs (nonterm b@15)) |@17 (rhs (rhs (nonterm c@19)) |@21 (rhs (nonterm d@23))))) ;@24)))"},
	{"grammar g; a = b c d;",
		"(grammar (name grammar@0 g@8 (semi_opt ;@9)) (decls (decls nil) (decl (rule (lhs (nonterm a@11)) =@13 (rhs (rhs (rhs (nonterm b@15)) (rhs (nonterm c@17))) (rhs (nonterm d@19)))) ;@20)))"},
	{"grammar g; a = b |;",
		"(grammar (name grammar@0 g@8 (semi_opt ;@9)) (decls (decls nil) (decl (rule (lhs (nonterm a@11)) =@13 (rhs (rhs (nonterm b@15)) |@17)) ;@18)))"},
	{"grammar g; a = b | c d |;",
		"(grammar (name grammar@0 g@8 (semi_opt ;@9)) (decls (decls nil) (decl (rule (lhs (nonterm a@11)) =@13 (rhs (rhs (nonterm b@15)) |@17 (rhs (rhs (rhs (nonterm c@19)) (rhs (nonterm d@21))) |@23))) ;@24)))"},
	{"grammar g; a = [b] {c} {{d}} (e);",
		"(grammar (name grammar@0 g@8 (semi_opt ;@9)) (decls (decls nil) (decl (rule (lhs (nonterm a@11)) =@13 (rhs (rhs (rhs (rhs [@15 (rhs (nonterm b@16)) ]@17) (rhs {@19 (rhs (nonterm c@20)) }@21)) (rhs {{@23 (rhs (nonterm d@25)) }}@26)) (rhs (@29 (rhs (nonterm e@30)) )@31))) ;@32)))"},
	{"grammar g; AA = /[a-z]+/ BB = $ID; CC = \"c\"",
		"(grammar (name grammar@0 g@8 (semi_opt ;@9)) (decls (decls (decls (decls nil) (decl (token AA@11 =@14 [a-z]+@16) (semi_opt nil))) (decl (token BB@25 =@28 $ID@30) (semi_opt ;@33))) (decl (token CC@35 =@38 c@40) (semi_opt nil))))"},
	{"grammar g; @right PLUS <e = e \"+\" e> \"*\"; @none <e = >",
		"(grammar (name grammar@0 g@8 (semi_opt ;@9)) (decls (decls (decls nil) (decl (directive @right@11 (handles (handles (handles (term PLUS@18)) (rule_handle <@23 (rule (lhs (nonterm e@24)) =@26 (rhs (rhs (rhs (nonterm e@28)) (rhs (term +@30))) (rhs (nonterm e@34)))) >@35)) (term *@37))) (semi_opt ;@40))) (decl (directive @none@42 (handles (rule_handle <@48 (rule (lhs (nonterm e@49)) =@51) >@53))) (semi_opt nil))))"},
	{"grammar g; a = b); ",
		"=> demo:1:17: unexpected string \")\": no action exists in the parsing table for ACTION[8, \")\"]"},
	{"",
		"=> unexpected string \"\": no action exists in the parsing table for ACTION[0, $]"},
}

var demoEvalCases = []struct{ src, want string }{
	{"grammar g",
		"[0 [1 grammar g [8]] [3]] @0"},
	{"grammar g;",
		"[0 [1 grammar g [7 ;]] [3]] @0"},
	{"grammar g; a = ;",
		"[0 [1 grammar g [7 ;]] [2 [3] [6 [21 [22 [32 a]] =] ;]]] @0"},
	{"grammar g; a = b c | d e | f;",
		"[0 [1 grammar g [7 ;]] [2 [3] [6 [20 [22 [32 a]] = [28 [23 [30 [32 b]] [30 [32 c]]] | [28 [23 [30 [32 d]] [30 [32 e]]] | [30 [32 f]]]]] ;]]] @0"},
	{"grammar g; a = b | c | d;",
		"[0 [1 grammar g [7 ;]] [2 [3] [6 [20 [22 [32 a]] = [28 [30 [32 b]] | [28 [30 [32 c]] | [30 [32 d]]]]] ;]]] @0"},
	{"grammar g; a = b c d;",
		"[0 [1 grammar g [7 ;]] [2 [3] [6 [20 [22 [32 a]] = [23 [23 [30 [32 b]] [30 [32 c]]] [30 [32 d]]]] ;]]] @0"},
	{"grammar g; a = b |;",
		"[0 [1 grammar g [7 ;]] [2 [3] [6 [20 [22 [32 a]] = [29 [30 [32 b]] |]] ;]]] @0"},
	{"grammar g; a = b | c d |;",
		"[0 [1 grammar g [7 ;]] [2 [3] [6 [20 [22 [32 a]] = [28 [30 [32 b]] | [29 [23 [30 [32 c]] [30 [32 d]]] |]]] ;]]] @0"},
	{"grammar g; a = [b] {c} {{d}} (e);",
		"[0 [1 grammar g [7 ;]] [2 [3] [6 [20 [22 [32 a]] = [23 [23 [23 [25 [ [30 [32 b]] ]] [26 { [30 [32 c]] }]] [27 {{ [30 [32 d]] }}]] [24 ( [30 [32 e]] )]]] ;]]] @0"},
	{"grammar g; AA = /[a-z]+/ BB = $ID; CC = \"c\"",
		"[0 [1 grammar g [7 ;]] [2 [2 [2 [3] [4 [10 AA = [a-z]+] [8]]] [4 [11 BB = $ID] [7 ;]]] [4 [9 CC = c] [8]]]] @0"},
	{"grammar g; @right PLUS <e = e \"+\" e> \"*\"; @none <e = >",
		"[0 [1 grammar g [7 ;]] [2 [2 [3] [5 [13 @right [15 [16 [17 [33 PLUS]] [19 < [20 [22 [32 e]] = [23 [23 [30 [32 e]] [31 [34 +]]] [30 [32 e]]]] >]] [34 *]]] [7 ;]]] [5 [14 @none [18 [19 < [21 [22 [32 e]] =] >]]] [8]]]] @0"},
	{"grammar g; a = b); ",
		"=> demo:1:17: unexpected string \")\": no action exists in the parsing table for ACTION[8, \")\"]"},
	{"",
		"=> unexpected string \"\": no action exists in the parsing table for ACTION[0, $]"},
}

func TestRefactorDemo_Trace(t *testing.T) {
	for _, tc := range demoTraceCases {
		if got := demoTrace(tc.src); got != tc.want {
			t.Errorf("trace %q:\n got  %s\n want %s", tc.src, got, tc.want)
		}
	}
}

func TestRefactorDemo_AST(t *testing.T) {
	for _, tc := range demoASTCases {
		if got := demoAST(tc.src); got != tc.want {
			t.Errorf("ast %q:\n got  %s\n want %s", tc.src, got, tc.want)
		}
	}
}

func TestRefactorDemo_Eval(t *testing.T) {
	for _, tc := range demoEvalCases {
		if got := demoEval(tc.src); got != tc.want {
			t.Errorf("eval %q:\n got  %s\n want %s", tc.src, got, tc.want)
		}
	}
}

// TestRefactorDemo_Callbacks pins down when the callbacks fire and how their errors surface.
func TestRefactorDemo_Callbacks(t *testing.T) {
	const src = "grammar g; a = b CC | \"d\";"

	for failAt := 0; failAt < 12; failAt++ {
		var log []string
		n := 0
		p, err := New("demo", strings.NewReader(src))
		if err != nil {
			t.Fatal(err)
		}

		err = p.Parse(
			func(tok *lexer.Token) error {
				log = append(log, tok.Lexeme)
				if n++; n == failAt {
					return errors.New("token boom")
				}
				return nil
			},
			func(i int) error {
				log = append(log, fmt.Sprintf("r%d", i))
				if n++; n == failAt {
					return errors.New("prod boom")
				}
				return nil
			},
		)

		got := strings.Join(log, " ")
		if err != nil {
			got += " => " + err.Error()
		}
		if want := demoCallbackWant[failAt]; got != want {
			t.Errorf("failAt %d:\n got  %s\n want %s", failAt, got, want)
		}
	}

	// Nil callbacks are allowed and do not change acceptance.
	for src, wantOK := range map[string]bool{src: true, "grammar g; a = b": false} {
		p, err := New("demo", strings.NewReader(src))
		if err != nil {
			t.Fatal(err)
		}
		if err := p.Parse(nil, nil); (err == nil) != wantOK {
			t.Errorf("nil callbacks on %q: err=%v", src, err)
		}
	}
}

var demoCallbackWant = map[int]string{
	0:  "grammar g ; r7 r1 r3 a r32 r22 = b r32 r30 CC r33 r31 r23 | d r34 r31 r28 r20 ; r6 r2 r0",
	1:  "grammar => demo:1:1: token boom",
	2:  "grammar g => demo:1:9: token boom",
	3:  "grammar g ; => demo:1:10: token boom",
	4:  "grammar g ; r7 => prod boom",
	5:  "grammar g ; r7 r1 => prod boom",
	6:  "grammar g ; r7 r1 r3 => prod boom",
	7:  "grammar g ; r7 r1 r3 a => demo:1:12: token boom",
	8:  "grammar g ; r7 r1 r3 a r32 => prod boom",
	9:  "grammar g ; r7 r1 r3 a r32 r22 => prod boom",
	10: "grammar g ; r7 r1 r3 a r32 r22 = => demo:1:14: token boom",
	11: "grammar g ; r7 r1 r3 a r32 r22 = b => demo:1:16: token boom",
}

// demoLexer replays a fixed sequence of tokens and then reports io.EOF.
type demoLexer struct {
	toks []lexer.Token
	i    int
}

func (l *demoLexer) NextToken() (lexer.Token, error) {
	if l.i >= len(l.toks) {
		return lexer.Token{}, io.EOF
	}
	l.i++
	return l.toks[l.i-1], nil
}

// demoReference is the textbook LR driver written directly against ACTION, GOTO and productions.
// It is the oracle for the differential test below.
func demoReference(toks []lexer.Token) string {
	var b strings.Builder
	stack := list.NewStack[int](16, generic.NewEqualFunc[int]())
	stack.Push(0)

	i := 0
	next := func() lexer.Token {
		if i >= len(toks) {
			return lexer.Token{Terminal: grammar.Endmarker}
		}
		i++
		return toks[i-1]
	}

	tok := next()
	for {
		s, _ := stack.Peek()
		typ, param, err := ACTION(s, tok.Terminal)
		if err != nil {
			fmt.Fprintf(&b, "=> %s", &parser.ParseError{
				Description: fmt.Sprintf("unexpected string %q", tok.Lexeme),
				Cause:       err,
				Pos:         tok.Pos,
			})
			return b.String()
		}

		switch typ {
		case lr.SHIFT:
			stack.Push(param)
			fmt.Fprintf(&b, "%s ", tok.Lexeme)
			tok = next()
		case lr.REDUCE:
			for range len(productions[param].Body) {
				stack.Pop()
			}
			t, _ := stack.Peek()
			stack.Push(GOTO(t, productions[param].Head))
			fmt.Fprintf(&b, "r%d ", param)
		case lr.ACCEPT:
			b.WriteString("=> ok")
			return b.String()
		}
	}
}

func demoParseTokens(toks []lexer.Token) string {
	var b strings.Builder
	p := &Parser{L: &demoLexer{toks: toks}}

	err := p.Parse(
		func(tok *lexer.Token) error {
			fmt.Fprintf(&b, "%s ", tok.Lexeme)
			return nil
		},
		func(i int) error {
			fmt.Fprintf(&b, "r%d ", i)
			return nil
		},
	)

	if err != nil {
		fmt.Fprintf(&b, "=> %s", err)
	} else {
		b.WriteString("=> ok")
	}

	return b.String()
}

// TestRefactorDemo_Differential compares Parse with the oracle on token sequences:
// valid specifications, all their single-token deletions, replacements and insertions, and random sequences.
func TestRefactorDemo_Differential(t *testing.T) {
	mk := func(words ...string) []lexer.Token {
		toks := make([]lexer.Token, len(words))
		for i, w := range words {
			toks[i] = lexer.Token{
				Terminal: grammar.Terminal(w),
				Lexeme:   fmt.Sprintf("%s#%d", w, i),
				Pos:      lexer.Position{Filename: "d", Offset: i, Line: 1, Column: i + 1},
			}
		}
		return toks
	}

	seeds := [][]string{
		{"grammar", "IDENT"},
		{"grammar", "IDENT", ";", "TOKEN", "=", "STRING", "TOKEN", "=", "REGEX", ";", "TOKEN", "=", "PREDEF"},
		{"grammar", "IDENT", "@left", "STRING", "TOKEN", "<", "IDENT", "=", "IDENT", "IDENT", ">", ";", "@right", "<", "IDENT", "=", ">", "@none", "STRING"},
		{"grammar", "IDENT", ";", "IDENT", "=", "IDENT", "TOKEN", "|", "STRING", "IDENT", "|", "IDENT", ";"},
		{"grammar", "IDENT", ";", "IDENT", "=", "(", "IDENT", "|", ")", "[", "TOKEN", "]", "{", "STRING", "}", "{{", "IDENT", "IDENT", "}}", "|", ";", "IDENT", "=", ";"},
	}

	all := append(append([]grammar.Terminal{}, terminals...), grammar.Endmarker, grammar.Terminal("bogus"))

	var cases [][]lexer.Token
	accepted := 0
	for _, seed := range seeds {
		cases = append(cases, mk(seed...))
		for i := range seed {
			del := append(append([]string{}, seed[:i]...), seed[i+1:]...)
			cases = append(cases, mk(del...))
			for _, a := range all {
				rep := append([]string{}, seed...)
				rep[i] = string(a)
				cases = append(cases, mk(rep...))
				ins := append(append(append([]string{}, seed[:i]...), string(a)), seed[i:]...)
				cases = append(cases, mk(ins...))
			}
		}
	}

	rng := rand.New(rand.NewSource(4))
	for n := 0; n < 2000; n++ {
		words := []string{"grammar", "IDENT"}
		for k := rng.Intn(12); k > 0; k-- {
			words = append(words, string(terminals[rng.Intn(len(terminals))]))
		}
		cases = append(cases, mk(words...))
	}

	for _, toks := range cases {
		want := demoReference(toks)
		got := demoParseTokens(toks)
		if got != want {
			t.Fatalf("tokens %v:\n got  %s\n want %s", toks, got, want)
		}
		if strings.HasSuffix(got, "=> ok") {
			accepted++
		}
	}

	// Concrete anchors so that the comparison cannot pass vacuously.
	if len(cases) != 5484 || accepted != 482 {
		t.Errorf("cases=%d accepted=%d", len(cases), accepted)
	}
	if got, want := demoParseTokens(mk(seeds[3]...)), "grammar#0 IDENT#1 ;#2 r7 r1 r3 IDENT#3 r32 r22 =#4 IDENT#5 r32 r30 TOKEN#6 r33 r31 r23 |#7 STRING#8 r34 r31 IDENT#9 r32 r30 r23 |#10 IDENT#11 r32 r30 r28 r28 r20 ;#12 r6 r2 r0 => ok"; got != want {
		t.Errorf("seed 3:\n got  %s\n want %s", got, want)
	}
}
