package lexer

import (
	"errors"
	"fmt"
	"io"
	"strings"
	"testing"
	"unicode/utf8"

	"github.com/moorara/algo/lexer"
	"github.com/moorara/algo/lexer/input"
)

// The tests of this file use only newTextInput and the methods of inputBuffer, and the exported API of the package.

func demoPos(offset, line, column int) lexer.Position {
	return lexer.Position{Filename: "demo", Offset: offset, Line: line, Column: column}
}

// TestRefactorDemo_Script drives the reader with scripts of operations and compares every result.
//
//	n  Next, the expected result follows in the list of results: a rune, "EOF" or "ERR offset line column"
//	r  Retract
//	l  Lexeme, the expected result is "lexeme|offset line column"
//	s  Skip, the expected result is "offset line column"
func TestRefactorDemo_Script(t *testing.T) {
	tests := []struct {
		name    string
		text    string
		ops     string
		results []string
	}{
		{
			name:    "Empty",
			text:    "",
			ops:     "nrnlsn",
			results: []string{"EOF", "EOF", "|0 1 1", "0 1 1", "EOF"},
		},
		{
			name:    "RetractWithoutPending",
			text:    "ab",
			ops:     "rrnrrnnlrn",
			results: []string{"a", "a", "b", "ab|0 1 1", "EOF"},
		},
		{
			name:    "RetractDoesNotCrossLexemeBegin",
			text:    "abc",
			ops:     "nsrrnrnnln",
			results: []string{"a", "0 1 1", "b", "b", "c", "bc|1 1 2", "EOF"},
		},
		{
			name:    "EOFIsNotLatched",
			text:    "xy",
			ops:     "nnnrnnrrnnnl",
			results: []string{"x", "y", "EOF", "y", "EOF", "x", "y", "EOF", "xy|0 1 1"},
		},
		{
			name:    "Lines",
			text:    "a\nb\n\nc",
			ops:     "nnsnsnnsnsnsl",
			results: []string{"a", "\n", "0 1 1", "b", "2 2 1", "\n", "\n", "3 2 2", "c", "5 4 1", "EOF", "6 4 2", "|6 4 2"},
		},
		{
			name:    "CarriageReturnIsAColumn",
			text:    "a\r\nb",
			ops:     "nnnsnl",
			results: []string{"a", "\r", "\n", "0 1 1", "b", "b|3 2 1"},
		},
		{
			name:    "MultiByteRunes",
			text:    "é€😀x",
			ops:     "nnnrlnnln",
			results: []string{"é", "€", "😀", "é€|0 1 1", "😀", "x", "😀x|2 1 3", "EOF"},
		},
		{
			name:    "RetractMultiByteOneAtATime",
			text:    "a€é",
			ops:     "nnnrrnrrrnl",
			results: []string{"a", "€", "é", "€", "a", "a|0 1 1"},
		},
		{
			name:    "EncodedReplacementCharacterIsValid",
			text:    "a�b",
			ops:     "nnrnnl",
			results: []string{"a", "�", "�", "b", "a�b|0 1 1"},
		},
		{
			name:    "InvalidByteAtStart",
			text:    "\xffa",
			ops:     "nnls",
			results: []string{"ERR 0 1 1", "ERR 0 1 1", "|0 1 1", "0 1 1"},
		},
		{
			name:    "InvalidByteAfterPending",
			text:    "ab\n€\xc3(",
			ops:     "nnnnnrnnls",
			results: []string{"a", "b", "\n", "€", "ERR 4 2 2", "€", "ERR 4 2 2", "ab\n€|0 1 1", "4 2 2"},
		},
		{
			name:    "InvalidByteAfterSkip",
			text:    "x\n\n\x80",
			ops:     "nnsnnsn",
			results: []string{"x", "\n", "0 1 1", "\n", "ERR 3 3 1", "2 2 1", "ERR 3 3 1"},
		},
		{
			name:    "TruncatedRuneAtEnd",
			text:    "ok\xe2\x82",
			ops:     "nnnln",
			results: []string{"o", "k", "ERR 2 1 3", "ok|0 1 1", "ERR 2 1 3"},
		},
		{
			name:    "NulByte",
			text:    "\x00\x00",
			ops:     "nnnl",
			results: []string{"\x00", "\x00", "EOF", "\x00\x00|0 1 1"},
		},
	}

	for _, tc := range tests {
		t.Run(tc.name, func(t *testing.T) {
			var in inputBuffer = newTextInput("demo", []byte(tc.text))
			results := tc.results

			expect := func(step int, op rune, got string) {
				t.Helper()

				if len(results) == 0 {
					t.Fatalf("step %d (%c): no expected result left, got %q", step, op, got)
				}

				if got != results[0] {
					t.Fatalf("step %d (%c): expected %q, got %q", step, op, results[0], got)
				}

				results = results[1:]
			}

			for step, op := range tc.ops {
				switch op {
				case 'n':
					r, err := in.Next()

					var inErr *input.InputError
					switch {
					case err == nil:
						expect(step, op, string(r))
					case err == io.EOF:
						if r != 0 {
							t.Fatalf("step %d: rune %q with EOF", step, r)
						}
						expect(step, op, "EOF")
					case errors.As(err, &inErr):
						if r != 0 {
							t.Fatalf("step %d: rune %q with error", step, r)
						}
						if inErr.Description != "invalid utf-8 character" || inErr.Pos.Filename != "demo" {
							t.Fatalf("step %d: unexpected error %#v", step, inErr)
						}
						expect(step, op, fmt.Sprintf("ERR %d %d %d", inErr.Pos.Offset, inErr.Pos.Line, inErr.Pos.Column))
					default:
						t.Fatalf("step %d: unexpected error %v", step, err)
					}

				case 'r':
					in.Retract()

				case 'l':
					lexeme, pos := in.Lexeme()
					if pos.Filename != "demo" {
						t.Fatalf("step %d: filename %q", step, pos.Filename)
					}
					expect(step, op, fmt.Sprintf("%s|%d %d %d", lexeme, pos.Offset, pos.Line, pos.Column))

				case 's':
					pos := in.Skip()
					if pos.Filename != "demo" {
						t.Fatalf("step %d: filename %q", step, pos.Filename)
					}
					expect(step, op, fmt.Sprintf("%d %d %d", pos.Offset, pos.Line, pos.Column))
				}
			}

			if len(results) != 0 {
				t.Fatalf("results not consumed: %q", results)
			}
		})
	}
}

// TestRefactorDemo_Model compares the reader with a model that is written down independently,
// over runs of operations chosen by a small deterministic generator.
func TestRefactorDemo_Model(t *testing.T) {
	texts := []string{
		"",
		"a",
		"\n",
		"grammar x;\n",
		"a\nbc\n\ndef",
		"€\n😀é\r\nz",
		"ab\xffcd",
		"\n\n\xc3\n",
		"x�y\n\xf0\x9f\x98",
		strings.Repeat("ab\n", 40),
	}

	for ti, text := range texts {
		for seed := uint32(1); seed <= 25; seed++ {
			in := newTextInput("demo", []byte(text))

			// The model: positions of the runes, and two indices into the text.
			begin, forward := 0, 0

			posOf := func(idx int) lexer.Position {
				p := demoPos(0, 1, 1)
				for _, r := range text[:idx] {
					p.Offset++
					if r == '\n' {
						p.Line, p.Column = p.Line+1, 1
					} else {
						p.Column++
					}
				}
				return p
			}

			state := seed*2654435761 + uint32(ti)
			for step := 0; step < 200; step++ {
				state = state*1664525 + 1013904223
				id := fmt.Sprintf("text %d seed %d step %d", ti, seed, step)

				switch choice := (state >> 24) % 10; {
				case choice < 6: // Next
					r, err := in.Next()

					if forward == len(text) {
						if r != 0 || err != io.EOF {
							t.Fatalf("%s: expected EOF, got %q, %v", id, r, err)
						}
						break
					}

					wr, size := utf8.DecodeRuneInString(text[forward:])
					if wr == utf8.RuneError && size == 1 {
						var inErr *input.InputError
						if r != 0 || !errors.As(err, &inErr) {
							t.Fatalf("%s: expected an input error, got %q, %v", id, r, err)
						}
						if inErr.Description != "invalid utf-8 character" || inErr.Pos != posOf(forward) {
							t.Fatalf("%s: expected the error at %v, got %#v", id, posOf(forward), inErr)
						}
						break
					}

					if r != wr || err != nil {
						t.Fatalf("%s: expected %q, got %q, %v", id, wr, r, err)
					}
					forward += size

				case choice < 8: // Retract
					in.Retract()
					if forward > begin {
						_, size := utf8.DecodeLastRuneInString(text[begin:forward])
						forward -= size
					}

				case choice < 9: // Lexeme
					lexeme, pos := in.Lexeme()
					if lexeme != text[begin:forward] || pos != posOf(begin) {
						t.Fatalf("%s: expected %q at %v, got %q at %v", id, text[begin:forward], posOf(begin), lexeme, pos)
					}
					begin = forward

				default: // Skip
					pos := in.Skip()
					if pos != posOf(begin) {
						t.Fatalf("%s: expected %v, got %v", id, posOf(begin), pos)
					}
					begin = forward
				}
			}
		}
	}
}

// TestRefactorDemo_Tokens scans specification texts through the exported API and compares tokens, lexemes and positions.
func TestRefactorDemo_Tokens(t *testing.T) {
	tests := []struct {
		name   string
		src    string
		tokens []string // "TERMINAL lexeme offset line column"
		err    string   // The error after the tokens, "EOF" for io.EOF.
	}{
		{
			name: "Header",
			src:  "grammar demo;\n",
			tokens: []string{
				`grammar "grammar" 0 1 1`,
				`IDENT "demo" 8 1 9`,
				`; ";" 12 1 13`,
			},
			err: "EOF",
		},
		{
			name: "KeywordsAndLongestMatch",
			src:  "grammar grammars gramma g {{{ }}} $A_1 @left@right @none",
			tokens: []string{
				`grammar "grammar" 0 1 1`,
				`IDENT "grammars" 8 1 9`,
				`IDENT "gramma" 17 1 18`,
				`IDENT "g" 24 1 25`,
				`{{ "{{" 26 1 27`,
				`{ "{" 28 1 29`,
				`}} "}}" 30 1 31`,
				`} "}" 32 1 33`,
				`PREDEF "$A_1" 34 1 35`,
				`@left "@left" 39 1 40`,
				`@right "@right" 44 1 45`,
				`@none "@none" 51 1 52`,
			},
			err: "EOF",
		},
		{
			name: "StringsPatternsComments",
			src:  "// first\nexpr = \"a\\\"b\" /* x\n * y **/ | /[0-9]+\\//\r\n\tNUM;",
			tokens: []string{
				`IDENT "expr" 9 2 1`,
				`= "=" 14 2 6`,
				`STRING "a\\\"b" 16 2 8`,
				`| "|" 37 3 10`,
				`REGEX "[0-9]+\\/" 39 3 12`,
				`TOKEN "NUM" 52 4 2`,
				`; ";" 55 4 5`,
			},
			err: "EOF",
		},
		{
			name: "CommentEndsAtFirstTerminator",
			src:  "/* a */ b */",
			tokens: []string{
				`IDENT "b" 8 1 9`,
			},
			err: "lexical error at demo:1:11:",
		},
		{
			name: "UnterminatedString",
			src:  "a = \"bc",
			tokens: []string{
				`IDENT "a" 0 1 1`,
				`= "=" 2 1 3`,
			},
			err: "lexical error at demo:1:5:\"bc",
		},
		{
			name: "NotAToken",
			src:  "x\n  #",
			tokens: []string{
				`IDENT "x" 0 1 1`,
			},
			err: "lexical error at demo:2:3:",
		},
		{
			name: "NonASCIIAfterToken",
			src:  "ab\n cd€",
			tokens: []string{
				`IDENT "ab" 0 1 1`,
				`IDENT "cd" 4 2 2`,
			},
			err: "lexical error at demo:2:4:",
		},
		{
			name: "InvalidUTF8",
			src:  "a;\nTOK \xff",
			tokens: []string{
				`IDENT "a" 0 1 1`,
				`; ";" 1 1 2`,
				`TOKEN "TOK" 3 2 1`,
			},
			err: "demo:2:5: invalid utf-8 character",
		},
		{
			name: "SingleUpperCaseLetterIsNoToken",
			src:  "AB A",
			tokens: []string{
				`TOKEN "AB" 0 1 1`,
			},
			err: "lexical error at demo:1:4:A",
		},
	}

	for _, tc := range tests {
		t.Run(tc.name, func(t *testing.T) {
			l, err := New("demo", strings.NewReader(tc.src))
			if err != nil {
				t.Fatal(err)
			}

			for k, expected := range tc.tokens {
				token, err := l.NextToken()
				if err != nil {
					t.Fatalf("token %d: unexpected error %v", k, err)
				}

				if token.Pos.Filename != "demo" {
					t.Fatalf("token %d: filename %q", k, token.Pos.Filename)
				}

				got := fmt.Sprintf("%s %q %d %d %d", string(token.Terminal), token.Lexeme, token.Pos.Offset, token.Pos.Line, token.Pos.Column)
				if got != expected {
					t.Fatalf("token %d: expected %s, got %s", k, expected, got)
				}
			}

			_, err = l.NextToken()
			switch {
			case err == nil:
				t.Fatalf("expected error %q, got a token", tc.err)
			case tc.err == "EOF":
				if err != io.EOF {
					t.Fatalf("expected EOF, got %v", err)
				}
			case err.Error() != tc.err:
				t.Fatalf("expected error %q, got %q", tc.err, err.Error())
			}
		})
	}
}
