package golang

import (
	"os"
	"os/exec"
	"path/filepath"
	"testing"

	"github.com/gardenbed/charm/ui"

	"github.com/gardenbed/emerge/internal/ebnf/parser/spec"
)

// TestRefactorDemo is a characterization test for the byte-level reader of the emitted lexer
// (next, loadFirst, loadSecond and Retract in templates/input.go.tmpl).
//
// It generates a complete package from a small specification, adds an in-package test file to the generated package,
// and compiles and runs that test file with the go tool.
// The in-package tests compare the reader against a straightforward model (the whole input decoded into runes)
// for many buffer sizes, readers and pseudo-random sequences of operations,
// and compare the token stream of the emitted lexer against token streams that are known by construction.
func TestRefactorDemo(t *testing.T) {
	goTool, err := exec.LookPath("go")
	if err != nil {
		t.Skipf("go tool not found: %s", err)
	}

	dir := t.TempDir()

	params := &Params{
		Path: dir,
		Spec: &spec.Spec{
			Name: "demolex",
			Definitions: []*spec.TerminalDef{
				{Terminal: "ID", Value: "[A-Za-z_][0-9A-Za-z_]*", IsRegex: true},
				{Terminal: "NUM", Value: "[0-9]+", IsRegex: true},
				{Terminal: "PLUS", Value: "+"},
				{Terminal: "EQ", Value: "=="},
				{Terminal: "ASSIGN", Value: "="},
				{Terminal: "FATARROW", Value: "=>>"},
				{Terminal: "LAMBDA", Value: "λ"},
				{Terminal: "ARROW", Value: "→"},
				{Terminal: "SMILE", Value: "😀"},
				{Terminal: "WS", Value: " "},
				{Terminal: "COMMENT", Value: "#[a-z]*;", IsRegex: true},
			},
			Grammar:     grammars[0],
			Precedences: precedences[0],
		},
	}

	if err := Generate(ui.NewNop(), params); err != nil {
		t.Fatalf("generating the package failed: %s", err)
	}

	pkgDir := filepath.Join(dir, "demolex")

	files := map[string]string{
		"go.mod":        "module demolex\n\ngo 1.21\n",
		"inner_test.go": refactorDemoInnerTest,
	}

	for name, content := range files {
		if err := os.WriteFile(filepath.Join(pkgDir, name), []byte(content), 0o644); err != nil {
			t.Fatal(err)
		}
	}

	cmd := exec.Command(goTool, "test", "-count=1", "-vet=off", "-v", ".")
	cmd.Dir = pkgDir
	cmd.Env = append(os.Environ(), "GOWORK=off", "GOFLAGS=-mod=mod", "GOPROXY=off")

	out, err := cmd.CombinedOutput()
	if err != nil {
		t.Fatalf("the tests of the generated package failed: %s\n%s", err, out)
	}

	t.Logf("%s", out)
}

// refactorDemoInnerTest is the test file that is compiled together with the generated package.
// It must not contain a back quote.
const refactorDemoInnerTest = `package demolex

import (
	"bytes"
	"errors"
	"fmt"
	"io"
	"math/rand"
	"strings"
	"testing"
	"testing/iotest"
	"unicode/utf8"
)

// ---------------------------------------------------------------------------------------------------------------------
// The reader against a model
// ---------------------------------------------------------------------------------------------------------------------

// model is the reference for the reader: the whole input as runes, the beginning of the lexeme and the forward index.
type model struct {
	runes      []rune
	positions  []Position
	start, pos int
}

func newModel(data string) *model {
	m := &model{runes: []rune(data)}

	line, column := 1, 1
	for k, r := range m.runes {
		m.positions = append(m.positions, Position{Filename: "f", Offset: k, Line: line, Column: column})
		if r == '\n' {
			line, column = line+1, 1
		} else {
			column++
		}
	}

	m.positions = append(m.positions, Position{Filename: "f", Offset: len(m.runes), Line: line, Column: column})

	return m
}

// position returns the position of the k-th rune.
func (m *model) position(k int) Position {
	return m.positions[k]
}

type readerKind struct {
	name string
	make func([]byte) io.Reader
}

var readerKinds = []readerKind{
	{"bytes", func(b []byte) io.Reader { return bytes.NewReader(b) }},
	{"onebyte", func(b []byte) io.Reader { return iotest.OneByteReader(bytes.NewReader(b)) }},
	{"half", func(b []byte) io.Reader { return iotest.HalfReader(bytes.NewReader(b)) }},
	{"dataerr", func(b []byte) io.Reader { return iotest.DataErrReader(bytes.NewReader(b)) }},
}

// checkOps drives the reader and the model with the same pseudo-random sequence of operations.
// The pending lexeme never grows beyond n bytes, which is what the two-buffer scheme supports.
func checkOps(t *testing.T, data string, n int, kind readerKind, seed int64) {
	t.Helper()

	id := fmt.Sprintf("len=%d n=%d reader=%s seed=%d", len(data), n, kind.name, seed)

	in, err := newInput("f", kind.make([]byte(data)), n)
	if err != nil {
		t.Fatalf("%s: newInput: %s", id, err)
	}

	m := newModel(data)
	rng := rand.New(rand.NewSource(seed))
	pending := 0

	checkForward := func(step int, what string) {
		if got, want := in.forwardPos(), m.position(m.pos); got != want {
			t.Fatalf("%s: step %d (%s): forward position %+v, want %+v", id, step, what, got, want)
		}
	}

	lexeme := func(step int) {
		got, pos := in.Lexeme()
		if want := string(m.runes[m.start:m.pos]); got != want {
			t.Fatalf("%s: step %d: lexeme %q, want %q", id, step, got, want)
		}
		if want := m.position(m.start); pos != want {
			t.Fatalf("%s: step %d: lexeme position %+v, want %+v", id, step, pos, want)
		}
		m.start, pending = m.pos, 0
	}

	next := func(step int) (eof bool) {
		if m.pos < len(m.runes) {
			size := utf8.RuneLen(m.runes[m.pos])
			if pending+size > n {
				lexeme(step)
			}

			r, err := in.Next()
			if err != nil || r != m.runes[m.pos] {
				t.Fatalf("%s: step %d: Next returned %q, %v, want %q", id, step, r, err, m.runes[m.pos])
			}

			m.pos++
			pending += size
			checkForward(step, "Next")
			return false
		}

		r, err := in.Next()
		if err != io.EOF || r != 0 {
			t.Fatalf("%s: step %d: Next returned %q, %v, want the end of the input", id, step, r, err)
		}

		checkForward(step, "Next at the end")
		return true
	}

	step, eofs := 0, 0
	for ; step < 6*len(m.runes)+60 && eofs < 4; step++ {
		switch op := rng.Intn(10); {
		case op < 5:
			if next(step) {
				eofs++
			}

		case op < 7:
			in.Retract()
			if m.pos > m.start {
				m.pos--
				pending -= utf8.RuneLen(m.runes[m.pos])
			}
			checkForward(step, "Retract")

		case op < 9:
			lexeme(step)

		default:
			pos := in.Skip()
			if want := m.position(m.start); pos != want {
				t.Fatalf("%s: step %d: skip position %+v, want %+v", id, step, pos, want)
			}
			m.start, pending = m.pos, 0
			checkForward(step, "Skip")
		}
	}

	// The rest of the input, rune by rune, and the end of the input more than once.
	for !next(step) {
		step++
	}

	in.Retract()
	if m.pos > m.start {
		m.pos--
		pending -= utf8.RuneLen(m.runes[m.pos])
	}

	for !next(step) {
		step++
	}

	next(step)
	lexeme(step)

	if got, want := in.pos(), m.position(len(m.runes)); got != want {
		t.Fatalf("%s: final position %+v, want %+v", id, got, want)
	}
}

func asciiText(length int) string {
	const alphabet = "ab\ncd e\n\nf0\x00g\t"
	var b strings.Builder
	for j := 0; j < length; j++ {
		b.WriteByte(alphabet[(j*7+j/5)%len(alphabet)])
	}
	return b.String()
}

func mixedText(length int) string {
	pieces := []string{"a", "λ", "\n", "→", "b1", "😀", " ", "é\n", "\x00", "日本"}
	var b strings.Builder
	for j := 0; b.Len() < length; j++ {
		b.WriteString(pieces[(j*3+j/4)%len(pieces)])
	}
	return b.String()
}

func TestReaderAgainstModel(t *testing.T) {
	runs := 0

	// Inputs of single-byte runes, every small buffer size, every length around the boundaries of the halves.
	for n := 1; n <= 6; n++ {
		for length := 1; length <= 6*n+2; length++ {
			for _, kind := range readerKinds {
				for seed := int64(1); seed <= 3; seed++ {
					checkOps(t, asciiText(length), n, kind, seed)
					runs++
				}
			}
		}
	}

	// Inputs with runes of one to four bytes; a rune must fit into a half.
	for _, n := range []int{4, 5, 6, 7, 8, 13, 16} {
		for length := 1; length <= 5*n+3; length++ {
			for _, kind := range readerKinds {
				for seed := int64(1); seed <= 3; seed++ {
					checkOps(t, mixedText(length), n, kind, seed)
					runs++
				}
			}
		}
	}

	// The size of the buffer of the emitted lexer.
	for _, length := range []int{4095, 4096, 4097, 8191, 8192, 8193, 12288, 20000} {
		for _, kind := range readerKinds {
			checkOps(t, mixedText(length), bufferSize, kind, int64(length))
			runs++
		}
	}

	t.Logf("%d runs of the reader against the model", runs)
}

func TestReaderConcrete(t *testing.T) {
	// An input without any byte cannot be opened.
	if _, err := newInput("f", strings.NewReader(""), 4); err != io.EOF {
		t.Fatalf("empty input: error %v, want io.EOF", err)
	}

	// The bytes are handed out one by one, across the halves and around the buffer, and the end is latched.
	in, err := newInput("f", strings.NewReader("abcdefghij"), 2)
	if err != nil {
		t.Fatal(err)
	}

	var got []byte
	for {
		b, err := in.next()
		if err != nil {
			if err != io.EOF {
				t.Fatalf("next: %v", err)
			}
			break
		}
		got = append(got, b)
	}

	if string(got) != "abcdefghij" {
		t.Fatalf("bytes %q", got)
	}

	for j := 0; j < 3; j++ {
		if b, err := in.next(); b != 0 || err != io.EOF {
			t.Fatalf("next after the end: %d, %v", b, err)
		}
	}

	// Retract at the end of an input that fills the buffer exactly, then read the last rune again.
	for _, data := range []string{"ab", "abcd", "abcdefgh", "abc", "abcde", "a\n", "abc\n", "λ→", "ab😀"} {
		in, err := newInput("f", iotest.OneByteReader(strings.NewReader(data)), 4)
		if err != nil {
			t.Fatal(err)
		}

		// The runes before the last one are skipped, the last one is pending.
		runes := []rune(data)
		for j, want := range runes {
			if j > 0 {
				in.Skip()
			}
			if r, err := in.Next(); r != want || err != nil {
				t.Fatalf("%q: Next %q, %v, want %q", data, r, err, want)
			}
		}

		last := runes[len(runes)-1]

		for j := 0; j < 3; j++ {
			if _, err := in.Next(); err != io.EOF {
				t.Fatalf("%q: error %v after the last rune, want io.EOF", data, err)
			}

			in.Retract()

			if r, err := in.Next(); r != last || err != nil {
				t.Fatalf("%q: Next after Retract %q, %v, want %q", data, r, err, last)
			}
		}
	}

	// Retract without a pending rune does nothing.
	in, err = newInput("f", strings.NewReader("xy\nz"), 4)
	if err != nil {
		t.Fatal(err)
	}

	in.Retract()
	if pos := in.forwardPos(); pos != (Position{Filename: "f", Offset: 0, Line: 1, Column: 1}) {
		t.Fatalf("position %+v after Retract at the beginning", pos)
	}

	for _, want := range "xy\nz" {
		if r, err := in.Next(); r != want || err != nil {
			t.Fatalf("Next %q, %v, want %q", r, err, want)
		}
	}

	if pos := in.forwardPos(); pos != (Position{Filename: "f", Offset: 4, Line: 2, Column: 2}) {
		t.Fatalf("position %+v after four runes", pos)
	}

	in.Retract()
	in.Retract()
	if pos := in.forwardPos(); pos != (Position{Filename: "f", Offset: 2, Line: 1, Column: 3}) {
		t.Fatalf("position %+v after two retractions", pos)
	}

	if lexeme, pos := in.Lexeme(); lexeme != "xy" || pos != (Position{Filename: "f", Offset: 0, Line: 1, Column: 1}) {
		t.Fatalf("lexeme %q at %+v", lexeme, pos)
	}

	in.Retract()
	if pos := in.forwardPos(); pos != (Position{Filename: "f", Offset: 2, Line: 1, Column: 3}) {
		t.Fatalf("position %+v after Retract behind a lexeme", pos)
	}
}

func TestReaderInvalidUTF8(t *testing.T) {
	tests := []struct {
		data   string
		runes  string
		offset int
		line   int
		column int
	}{
		{"ab\xffcd", "ab", 2, 1, 3},
		{"a\nb\x80", "a\nb", 3, 2, 2},
		{"xyz\xc3(", "xyz", 3, 1, 4},
		{"xy\xe2\x86(", "xy", 2, 1, 3},
		{"abcdef\xf0\x9f\x98(", "abcdef", 6, 1, 7},
		{"\xc0\x80", "", 0, 1, 1},
	}

	for _, tc := range tests {
		for _, n := range []int{4, 5, 8} {
			in, err := newInput("f", strings.NewReader(tc.data), n)
			if err != nil {
				t.Fatal(err)
			}

			for _, want := range tc.runes {
				if r, err := in.Next(); r != want || err != nil {
					t.Fatalf("%q: Next %q, %v, want %q", tc.data, r, err, want)
				}
				in.Skip()
			}

			_, err = in.Next()

			var inErr *InputError
			if !errors.As(err, &inErr) {
				t.Fatalf("%q: error %v, want an input error", tc.data, err)
			}

			want := Position{Filename: "f", Offset: tc.offset, Line: tc.line, Column: tc.column}
			if inErr.Description != "invalid utf-8 character" || inErr.Pos != want {
				t.Fatalf("%q: error %+v, want position %+v", tc.data, inErr, want)
			}
		}
	}
}

// A reader that fails is reported when the forward pointer arrives at the half that could not be loaded,
// and the failure is not undone by a retraction.
func TestReaderFailure(t *testing.T) {
	failure := errors.New("reader failed")

	for n := 1; n <= 5; n++ {
		for length := 0; length <= 5*n+1; length++ {
			data := asciiText(length)
			src := io.MultiReader(strings.NewReader(data), iotest.ErrReader(failure))

			in, err := newInput("f", src, n)
			served := n * (length / n)

			if served == 0 {
				if err != failure || in != nil {
					t.Fatalf("n=%d len=%d: newInput returned %v, %v", n, length, in, err)
				}
				continue
			}

			if err != nil {
				t.Fatalf("n=%d len=%d: newInput: %v", n, length, err)
			}

			for j := 0; j < served; j++ {
				if r, err := in.Next(); r != rune(data[j]) || err != nil {
					t.Fatalf("n=%d len=%d: Next %d returned %q, %v", n, length, j, r, err)
				}
				if j < served-1 {
					in.Skip()
				}
			}

			for j := 0; j < 2; j++ {
				if r, err := in.Next(); r != 0 || err != failure {
					t.Fatalf("n=%d len=%d: Next after %d bytes returned %q, %v", n, length, served, r, err)
				}
				in.Retract()
			}

			if lexeme, _ := in.Lexeme(); lexeme != "" {
				t.Fatalf("n=%d len=%d: lexeme %q after two retractions of one rune", n, length, lexeme)
			}
		}
	}
}

// ---------------------------------------------------------------------------------------------------------------------
// The emitted lexer against token streams known by construction
// ---------------------------------------------------------------------------------------------------------------------

// script builds an input and, along with it, the tokens that the lexer has to return.
type script struct {
	text                 strings.Builder
	tokens               []Token
	offset, line, column int
}

func newScript() *script {
	return &script{line: 1, column: 1}
}

// add appends text to the input; the text is a token if the terminal is not empty.
func (s *script) add(terminal, text string) {
	if terminal != "" {
		s.tokens = append(s.tokens, Token{
			Terminal: Terminal(terminal),
			Lexeme:   text,
			Pos:      Position{Filename: "t", Offset: s.offset, Line: s.line, Column: s.column},
		})
	}

	s.text.WriteString(text)

	for _, r := range text {
		s.offset++
		if r == '\n' {
			s.line++
			s.column = 1
		} else {
			s.column++
		}
	}
}

// One cycle is 31 bytes long, so that the tokens meet the boundaries of the buffer in every alignment.
func (s *script) cycle() {
	s.head()
	s.add("", "#note;")
	s.add("", "\n \t")
}

func (s *script) head() {
	s.add("ID", "ab")
	s.add("PLUS", "+")
	s.add("NUM", "12")
	s.add("EQ", "==")
	s.add("ID", "c")
	s.add("ASSIGN", "=")
	s.add("LAMBDA", "λ")
	s.add("ID", "x_1")
	s.add("ARROW", "→")
	s.add("NUM", "7")
	s.add("SMILE", "😀")
}

// finish appends one of the endings of the input.
func (s *script) finish(tail int) {
	switch tail {
	case 0: // blank characters
	case 1: // a rune of four bytes
		s.head()
	case 2: // a pending identifier
		s.add("ID", "ab")
	case 3: // a line terminator
		s.head()
		s.add("", "\n")
	case 4: // a comment
		s.head()
		s.add("", "#note;")
	case 5: // a number and a carriage return with a line feed
		s.add("NUM", "2024")
		s.add("", "\r\n")
	}
}

func checkTokens(t *testing.T, id string, s *script, src io.Reader) {
	t.Helper()

	l, err := New("t", src)
	if err != nil {
		t.Fatalf("%s: New: %s", id, err)
	}

	for j, want := range s.tokens {
		got, err := l.NextToken()
		if err != nil {
			t.Fatalf("%s: token %d: error %v, want %s", id, j, err, want)
		}
		if got != want {
			t.Fatalf("%s: token %d: %s, want %s", id, j, got, want)
		}
	}

	for j := 0; j < 3; j++ {
		if got, err := l.NextToken(); err != io.EOF || got != (Token{}) {
			t.Fatalf("%s: after the last token: %s, %v, want io.EOF", id, got, err)
		}
	}
}

func TestLexerTokens(t *testing.T) {
	runs := 0

	// Every alignment of the cycle with the boundaries of the buffer.
	for prefix := 0; prefix <= 62; prefix++ {
		tail := prefix % 6

		s := newScript()
		s.add("", strings.Repeat("\t", prefix))
		for j := 0; j < 280; j++ {
			s.cycle()
		}
		s.finish(tail)

		kind := readerKinds[(prefix/2)%len(readerKinds)]
		id := fmt.Sprintf("prefix=%d tail=%d reader=%s", prefix, tail, kind.name)
		checkTokens(t, id, s, kind.make([]byte(s.text.String())))
		runs++
	}

	// Inputs whose lengths are around the size of a half and the size of the buffer.
	for _, total := range []int{bufferSize - 1, bufferSize, bufferSize + 1, 2*bufferSize - 1, 2 * bufferSize, 2*bufferSize + 1, 3 * bufferSize, 4 * bufferSize} {
		for tail := 0; tail <= 5; tail++ {
			body := newScript()
			cycles := (total - 64) / 31
			for j := 0; j < cycles; j++ {
				body.cycle()
			}
			body.finish(tail)

			s := newScript()
			s.add("", strings.Repeat("\n", total-body.text.Len()))
			for j := 0; j < cycles; j++ {
				s.cycle()
			}
			s.finish(tail)

			if s.text.Len() != total {
				t.Fatalf("input of %d bytes, want %d", s.text.Len(), total)
			}

			kind := readerKinds[(total+tail)%len(readerKinds)]
			id := fmt.Sprintf("total=%d tail=%d reader=%s", total, tail, kind.name)
			checkTokens(t, id, s, kind.make([]byte(s.text.String())))
			runs++
		}
	}

	t.Logf("%d token streams", runs)
}

func TestLexerConcrete(t *testing.T) {
	// A small input, token by token.
	l, err := New("t", strings.NewReader("sum = a1+42 ==λ\n  #c;→😀=>>\tz"))
	if err != nil {
		t.Fatal(err)
	}

	expected := []Token{
		{Terminal: "ID", Lexeme: "sum", Pos: Position{Filename: "t", Offset: 0, Line: 1, Column: 1}},
		{Terminal: "ASSIGN", Lexeme: "=", Pos: Position{Filename: "t", Offset: 4, Line: 1, Column: 5}},
		{Terminal: "ID", Lexeme: "a1", Pos: Position{Filename: "t", Offset: 6, Line: 1, Column: 7}},
		{Terminal: "PLUS", Lexeme: "+", Pos: Position{Filename: "t", Offset: 8, Line: 1, Column: 9}},
		{Terminal: "NUM", Lexeme: "42", Pos: Position{Filename: "t", Offset: 9, Line: 1, Column: 10}},
		{Terminal: "EQ", Lexeme: "==", Pos: Position{Filename: "t", Offset: 12, Line: 1, Column: 13}},
		{Terminal: "LAMBDA", Lexeme: "λ", Pos: Position{Filename: "t", Offset: 14, Line: 1, Column: 15}},
		{Terminal: "ARROW", Lexeme: "→", Pos: Position{Filename: "t", Offset: 21, Line: 2, Column: 6}},
		{Terminal: "SMILE", Lexeme: "😀", Pos: Position{Filename: "t", Offset: 22, Line: 2, Column: 7}},
		{Terminal: "FATARROW", Lexeme: "=>>", Pos: Position{Filename: "t", Offset: 23, Line: 2, Column: 8}},
		{Terminal: "ID", Lexeme: "z", Pos: Position{Filename: "t", Offset: 27, Line: 2, Column: 12}},
	}

	for j, want := range expected {
		if got, err := l.NextToken(); err != nil || got != want {
			t.Fatalf("token %d: %s, %v, want %s", j, got, err, want)
		}
	}

	if _, err := l.NextToken(); err != io.EOF {
		t.Fatalf("error %v, want io.EOF", err)
	}

	// An input without any byte cannot be opened.
	if _, err := New("t", strings.NewReader("")); err != io.EOF {
		t.Fatalf("empty input: error %v, want io.EOF", err)
	}

	// Lexical errors, also where the lexeme lies across the boundary of the halves and of the buffer.
	errorTests := []struct {
		blanks  int
		text    string
		tokens  int
		message string
	}{
		{0, "ab =>x", 1, "lexical error at t:1:4:=>"},
		{0, "ab #c x", 1, "lexical error at t:1:4:#c"},
		{0, "ab\n$", 1, "lexical error at t:2:1:"},
		{0, "ab =>", 1, "lexical error at t:1:4:=>"},
		{bufferSize - 4, "ab =>x", 1, "lexical error at t:1:4096:=>"},
		{bufferSize - 5, "ab =>x", 1, "lexical error at t:1:4095:=>"},
		{2*bufferSize - 4, "ab =>x", 1, "lexical error at t:1:8192:=>"},
		{2*bufferSize - 5, "ab =>", 1, "lexical error at t:1:8191:=>"},
		{bufferSize - 3, "ab\xffcd", 0, "t:1:4096: invalid utf-8 character"},
		{bufferSize - 4, "ab λ\xe2\x86", 2, "EOF"},
	}

	for _, tc := range errorTests {
		l, err := New("t", strings.NewReader(strings.Repeat(" ", tc.blanks)+tc.text))
		if err != nil {
			t.Fatal(err)
		}

		for j := 0; j < tc.tokens; j++ {
			if _, err := l.NextToken(); err != nil {
				t.Fatalf("%d blanks and %q: token %d: %v", tc.blanks, tc.text, j, err)
			}
		}

		if got, err := l.NextToken(); err == nil || err.Error() != tc.message || got != (Token{}) {
			t.Fatalf("%d blanks and %q: %s, %v, want the error %q", tc.blanks, tc.text, got, err, tc.message)
		}
	}
}
`
