package command

import (
	"bytes"
	"crypto/sha256"
	"errors"
	"fmt"
	"io"
	"os"
	"os/exec"
	"path/filepath"
	"regexp"
	"sort"
	"strings"
	"testing"

	"github.com/gardenbed/charm/ui"

	"github.com/gardenbed/emerge/internal/ebnf/parser/spec"
	"github.com/gardenbed/emerge/internal/generate/golang"
)

// demoUI records every message it is given (the random emoji argument is dropped).
type demoUI struct {
	log []string
}

func (u *demoUI) rec(kind, format string, a []interface{}) {
	var rest []string
	for _, v := range a {
		if _, isRune := v.(rune); isRune {
			continue
		}
		rest = append(rest, fmt.Sprint(v))
	}
	u.log = append(u.log, kind+"|"+format+"|"+strings.Join(rest, ","))
}

func (u *demoUI) Printf(format string, a ...interface{})        { u.rec("P", format, a) }
func (u *demoUI) GetLevel() ui.Level                            { return ui.Debug }
func (u *demoUI) SetLevel(ui.Level)                             {}
func (u *demoUI) Tracef(_ ui.Style, f string, a ...interface{}) { u.rec("T", f, a) }
func (u *demoUI) Debugf(_ ui.Style, f string, a ...interface{}) { u.rec("D", f, a) }
func (u *demoUI) Infof(_ ui.Style, f string, a ...interface{})  { u.rec("I", f, a) }
func (u *demoUI) Warnf(_ ui.Style, f string, a ...interface{})  { u.rec("W", f, a) }
func (u *demoUI) Errorf(_ ui.Style, f string, a ...interface{}) { u.rec("E", f, a) }

const (
	demoFixture   = "../ebnf/fixture/test.success.grammar"
	demoGood      = "grammar calc;\nNUM = /[0-9]+/\n@left \"*\"\n@left \"+\"\nstart = expr;\nexpr = expr \"+\" expr | expr \"*\" expr | \"(\" expr \")\" | NUM;\n"
	demoAmbiguous = "grammar amb;\nNUM = /[0-9]+/\nstart = expr;\nexpr = expr \"+\" expr | NUM;\n"
	demoMsgParse  = `I|%c Parsing %q ...|`
	demoMsgGen    = `I|%c Generating parser ...|`
	demoMsgOK     = `I|%c Successful!|`
	demoNoInput   = "no input file specified, please provide a file path"
	demoCalcSum   = "1f456ab8fa47d299a0f193baf0755c242cc16664f1ebdbce2da7cf2f18503c96"
	demoGoodSum   = "d096b38632ca9f7b2dfb1e187b96f84663f0b915ab8f7a9b09d2596edce4e7ed"
	demoConflict  = "error on building LALR(1) parsing table:\nError:      Ambiguous Grammar\nCause:      Shift/Reduce conflict in ACTION[2, \"+\"]\n" +
		"Context:    The parser cannot decide whether to\n              1. Shift the terminal \"+\", or\n" +
		"              2. Reduce by production expr → expr \"+\" expr\nResolution: Specify associativity for \"+\".\n\n"
)

func demoErrText(err error) string {
	if err == nil {
		return "<nil>"
	}
	return err.Error()
}

// demoTree lists the files below dir (relative, sorted) and hashes their names and contents.
func demoTree(t *testing.T, dir string) ([]string, string) {
	t.Helper()
	var names []string
	h := sha256.New()
	err := filepath.Walk(dir, func(p string, info os.FileInfo, err error) error {
		if err != nil {
			return err
		}
		if info.IsDir() {
			return nil
		}
		rel, _ := filepath.Rel(dir, p)
		names = append(names, rel)
		return nil
	})
	if err != nil {
		t.Fatal(err)
	}
	sort.Strings(names)
	for _, n := range names {
		b, err := os.ReadFile(filepath.Join(dir, n))
		if err != nil {
			t.Fatal(err)
		}
		fmt.Fprintf(h, "%s %d\n", n, len(b))
		h.Write(b)
	}
	return names, fmt.Sprintf("%x", h.Sum(nil))
}

// TestRefactorDemo_RunMocked drives Command.Run with recording stand-ins for Parse and Generate.
func TestRefactorDemo_RunMocked(t *testing.T) {
	tmp := t.TempDir()
	garbage := filepath.Join(tmp, "-dash-dir", "bytes.grammar")
	if err := os.MkdirAll(filepath.Dir(garbage), 0o755); err != nil {
		t.Fatal(err)
	}
	if err := os.WriteFile(garbage, []byte("\x00\xff\xfehello"), 0o644); err != nil {
		t.Fatal(err)
	}
	fixtureBytes, err := os.ReadFile(demoFixture)
	if err != nil {
		t.Fatal(err)
	}

	errParse := errors.New("demo: parse failed")
	errGen := errors.New("demo: generate failed")

	tests := []struct {
		name       string
		args       []string
		cmdName    string
		debug      bool
		parseErr   error
		parseNil   bool
		genErr     error
		wantErr    string
		wantErrIs  error
		wantLog    []string
		wantParsed string // file name handed to Parse ("" when Parse must not be called)
		wantBytes  []byte
		wantGen    bool
		wantSpec   string // name of the spec handed to Generate
	}{
		{name: "nil args", args: nil, wantErr: demoNoInput},
		{name: "empty args", args: []string{}, wantErr: demoNoInput},
		{name: "only flags", args: []string{"-x", "--y", "-"}, wantErr: demoNoInput},
		{
			name: "empty string is a path", args: []string{"-x", ""},
			wantErr: "open : no such file or directory", wantErrIs: os.ErrNotExist,
			wantLog: []string{demoMsgParse + "."},
		},
		{
			name: "missing file", args: []string{"-debug", "nowhere/missing.grammar", demoFixture},
			wantErr: "open nowhere/missing.grammar: no such file or directory", wantErrIs: os.ErrNotExist,
			wantLog: []string{demoMsgParse + "missing.grammar"},
		},
		{
			name: "parse fails", args: []string{demoFixture}, parseErr: errParse,
			wantErr: "demo: parse failed", wantErrIs: errParse,
			wantLog:    []string{demoMsgParse + "test.success.grammar"},
			wantParsed: "test.success.grammar", wantBytes: fixtureBytes,
		},
		{
			name: "parse fails, name override not applied", args: []string{demoFixture}, parseErr: errParse, parseNil: true, cmdName: "other",
			wantErr: "demo: parse failed", wantErrIs: errParse,
			wantLog:    []string{demoMsgParse + "test.success.grammar"},
			wantParsed: "test.success.grammar", wantBytes: fixtureBytes,
		},
		{
			name: "generate fails", args: []string{"-a", demoFixture, "-b", "ignored"}, genErr: errGen, debug: true,
			wantErr: "demo: generate failed", wantErrIs: errGen,
			wantLog:    []string{demoMsgParse + "test.success.grammar", demoMsgGen},
			wantParsed: "test.success.grammar", wantBytes: fixtureBytes, wantGen: true, wantSpec: "parsed",
		},
		{
			name: "success", args: []string{garbage},
			wantLog:    []string{demoMsgParse + "bytes.grammar", demoMsgGen, demoMsgOK},
			wantParsed: "bytes.grammar", wantBytes: []byte("\x00\xff\xfehello"), wantGen: true, wantSpec: "parsed",
		},
		{
			name: "success with name override", args: []string{demoFixture}, cmdName: "override", debug: true,
			wantLog:    []string{demoMsgParse + "test.success.grammar", demoMsgGen, demoMsgOK},
			wantParsed: "test.success.grammar", wantBytes: fixtureBytes, wantGen: true, wantSpec: "override",
		},
		{
			name: "nil spec without override reaches Generate", args: []string{demoFixture}, parseNil: true,
			wantLog:    []string{demoMsgParse + "test.success.grammar", demoMsgGen, demoMsgOK},
			wantParsed: "test.success.grammar", wantBytes: fixtureBytes, wantGen: true, wantSpec: "<nil>",
		},
	}

	for _, tc := range tests {
		t.Run(tc.name, func(t *testing.T) {
			u := &demoUI{}
			var parsed string
			var parsedBytes []byte
			var parsedSpec *spec.Spec
			var genCalls int
			var genParams *golang.Params
			var genUI ui.UI

			c := &Command{UI: u, Out: "/demo/out", Name: tc.cmdName, Debug: tc.debug}
			c.funcs.Parse = func(name string, r io.Reader) (*spec.Spec, error) {
				parsed = name
				parsedBytes, _ = io.ReadAll(r)
				if !tc.parseNil {
					parsedSpec = &spec.Spec{Name: "parsed"}
				}
				return parsedSpec, tc.parseErr
			}
			c.funcs.Generate = func(u ui.UI, p *golang.Params) error {
				genCalls++
				genUI, genParams = u, p
				return tc.genErr
			}

			err := c.Run(tc.args)

			if got := demoErrText(err); tc.wantErr == "" && err != nil || tc.wantErr != "" && got != tc.wantErr {
				t.Errorf("error: got %q, want %q", got, tc.wantErr)
			}
			if tc.wantErrIs != nil && !errors.Is(err, tc.wantErrIs) {
				t.Errorf("error %v is not %v", err, tc.wantErrIs)
			}
			if strings.Join(u.log, "\n") != strings.Join(tc.wantLog, "\n") {
				t.Errorf("messages: got %q, want %q", u.log, tc.wantLog)
			}
			if parsed != tc.wantParsed || !bytes.Equal(parsedBytes, tc.wantBytes) {
				t.Errorf("Parse: got (%q, %d bytes), want (%q, %d bytes)", parsed, len(parsedBytes), tc.wantParsed, len(tc.wantBytes))
			}
			if tc.wantGen != (genCalls == 1) || genCalls > 1 {
				t.Fatalf("Generate called %d times, want called=%v", genCalls, tc.wantGen)
			}
			if tc.wantGen {
				if genUI != ui.UI(u) {
					t.Errorf("Generate got another UI")
				}
				if genParams.Path != "/demo/out" || genParams.Debug != tc.debug || genParams.Spec != parsedSpec {
					t.Errorf("Generate params: %+v", genParams)
				}
				name := "<nil>"
				if genParams.Spec != nil {
					name = genParams.Spec.Name
				}
				if name != tc.wantSpec {
					t.Errorf("spec name: got %q, want %q", name, tc.wantSpec)
				}
			}
		})
	}
}

// TestRefactorDemo_RunReal drives Command.Run with the real parser and generator on good and bad specifications.
func TestRefactorDemo_RunReal(t *testing.T) {
	tmp := t.TempDir()
	write := func(name string, content []byte) string {
		p := filepath.Join(tmp, name)
		if err := os.WriteFile(p, content, 0o644); err != nil {
			t.Fatal(err)
		}
		return p
	}

	tests := []struct {
		name        string
		path        string
		cmdName     string
		wantErr     []string // substrings; empty means success
		wantPackage string
	}{
		{name: "good", path: write("good.grammar", []byte(demoGood)), wantPackage: "calc"},
		{name: "good again", path: write("good.grammar", []byte(demoGood)), wantErr: []string{"error on creating package directory: mkdir ", "calc: file exists"}},
		{name: "good renamed", path: write("good.grammar", []byte(demoGood)), cmdName: "renamed", wantPackage: "renamed"},
		{name: "bad package name", path: write("good.grammar", []byte(demoGood)), cmdName: "1bad", wantErr: []string{"invalid package name: 1bad"}},
		{name: "fixture is ambiguous for LALR(1)", path: demoFixture, wantErr: []string{"error on building LALR(1) parsing table:"}},
		{name: "directory", path: tmp, wantErr: []string{"is a directory"}},
		{name: "empty", path: write("empty.grammar", nil), wantErr: []string{""}},
		{name: "text", path: "../ebnf/fixture/test.invalid.grammar", wantErr: []string{"test.invalid.grammar"}},
		{name: "semantic errors", path: "../ebnf/fixture/test.error.grammar", wantErr: []string{"invalid predefined regex: $IDN"}},
		{name: "bytes", path: write("bytes.grammar", []byte("\x00\xff\xfe\x80grammar")), wantErr: []string{""}},
		{name: "truncated", path: write("trunc.grammar", []byte("grammar t;\nS = \"a")), wantErr: []string{""}},
		{name: "ambiguous", path: write("amb.grammar", []byte(demoAmbiguous)), wantErr: []string{"error on building LALR(1) parsing table:"}},
	}

	out := filepath.Join(tmp, "out")
	if err := os.Mkdir(out, 0o755); err != nil {
		t.Fatal(err)
	}

	for _, tc := range tests {
		t.Run(tc.name, func(t *testing.T) {
			u := &demoUI{}
			c, err := New(u)
			if err != nil || c == nil {
				t.Fatalf("New: %v, %v", c, err)
			}
			c.Out, c.Name = out, tc.cmdName

			err = c.Run([]string{"-ignored", tc.path})
			last := u.log[len(u.log)-1]

			if len(tc.wantErr) == 0 {
				if err != nil {
					t.Fatalf("unexpected error: %v", err)
				}
				if last != demoMsgOK {
					t.Errorf("last message: %q", last)
				}
				names, _ := demoTree(t, filepath.Join(out, tc.wantPackage))
				if got := strings.Join(names, " "); got != "errors.go input.go lexer.go parser.go stack.go types.go" {
					t.Errorf("files: %s", got)
				}
				return
			}

			if err == nil {
				t.Fatalf("expected an error")
			}
			if last == demoMsgOK {
				t.Errorf("success announced although Run failed")
			}
			for _, s := range tc.wantErr {
				if !strings.Contains(err.Error(), s) {
					t.Errorf("error %q does not contain %q", err, s)
				}
			}
		})
	}
}

// TestRefactorDemo_Generate calls golang.Generate directly.
func TestRefactorDemo_Generate(t *testing.T) {
	tmp := t.TempDir()
	file := filepath.Join(tmp, "plain.txt")
	if err := os.WriteFile(file, []byte("x"), 0o644); err != nil {
		t.Fatal(err)
	}

	parse := func(src string) *spec.Spec {
		s, err := spec.Parse("demo.grammar", strings.NewReader(src))
		if err != nil || s == nil {
			t.Fatalf("Parse: %v", err)
		}
		return s
	}
	checkStageError := func(t *testing.T, err error, parts int, text string) {
		t.Helper()
		if demoErrText(err) != text {
			t.Errorf("error text: got %q, want %q", demoErrText(err), text)
		}
		if got := fmt.Sprintf("%T", err); got != "*errors.MultiError" {
			t.Errorf("error type: %s", got)
		}
		if m, ok := err.(interface{ Unwrap() []error }); !ok || len(m.Unwrap()) != parts {
			t.Errorf("error parts: want %d in %#v", parts, err)
		}
	}

	t.Run("prepare failures stop everything", func(t *testing.T) {
		for _, tc := range []struct {
			path, name, want string
		}{
			{filepath.Join(tmp, "missing"), "ok", fmt.Sprintf("output path does not exist: %q", filepath.Join(tmp, "missing"))},
			{file, "ok", fmt.Sprintf("output path is not a directory: %q", file)},
			{tmp, "", "invalid package name: "},
			{tmp, "a-b", "invalid package name: a-b"},
			{tmp + "/./", "plain.txt", "invalid package name: plain.txt"},
		} {
			u := &demoUI{}
			err := golang.Generate(u, &golang.Params{Path: tc.path, Spec: &spec.Spec{Name: tc.name}})
			if demoErrText(err) != tc.want {
				t.Errorf("got %q, want %q", demoErrText(err), tc.want)
			}
			for _, m := range u.log {
				if strings.HasPrefix(m, "I|") {
					t.Errorf("a stage ran after prepare failed: %q", m)
				}
			}
		}
		if names, _ := demoTree(t, tmp); strings.Join(names, " ") != "plain.txt" {
			t.Errorf("unexpected files: %v", names)
		}
	})

	t.Run("success", func(t *testing.T) {
		var sums []string
		for _, sub := range []string{"one", "two"} {
			dir := filepath.Join(tmp, sub)
			if err := os.Mkdir(dir, 0o755); err != nil {
				t.Fatal(err)
			}
			u := &demoUI{}
			if err := golang.Generate(u, &golang.Params{Path: dir, Spec: parse(demoGood)}); err != nil {
				t.Fatalf("Generate: %v (%T)", err, err)
			}
			names, sum := demoTree(t, dir)
			if got := strings.Join(names, " "); got != "calc/errors.go calc/input.go calc/lexer.go calc/parser.go calc/stack.go calc/types.go" {
				t.Errorf("files: %s", got)
			}
			sums = append(sums, sum)

			var infos []string
			for _, m := range u.log {
				if strings.HasPrefix(m, "I|") {
					infos = append(infos, strings.TrimSpace(strings.Trim(m, "I|")))
				}
			}
			want := "Generating core types ...;Generating the lexer ...;Constructing Automaton ...;Generating the parser ...;Constructing LALR(1) Parsing Table ..."
			if got := strings.Join(infos, ";"); got != want {
				t.Errorf("stage order: %s", got)
			}
		}
		if sums[0] != sums[1] || sums[0] != demoGoodSum {
			t.Errorf("output bytes: got %v, want %s", sums, demoGoodSum)
		}
	})

	t.Run("parser stage fails, other stages still run", func(t *testing.T) {
		dir := filepath.Join(tmp, "amb")
		if err := os.Mkdir(dir, 0o755); err != nil {
			t.Fatal(err)
		}
		err := golang.Generate(&demoUI{}, &golang.Params{Path: dir, Spec: parse(demoAmbiguous)})
		checkStageError(t, err, 1, demoConflict)
		names, _ := demoTree(t, dir)
		if got := strings.Join(names, " "); got != "amb/errors.go amb/input.go amb/lexer.go amb/stack.go amb/types.go" {
			t.Errorf("files: %s", got)
		}
	})

	t.Run("lexer and parser stages fail", func(t *testing.T) {
		dir := filepath.Join(tmp, "both")
		if err := os.Mkdir(dir, 0o755); err != nil {
			t.Fatal(err)
		}
		s := parse(demoAmbiguous)
		s.Definitions = append(s.Definitions, &spec.TerminalDef{Terminal: "BAD", Value: "(", IsRegex: true})
		err := golang.Generate(&demoUI{}, &golang.Params{Path: dir, Spec: s})
		checkStageError(t, err, 2, "\"BAD\": invalid regular expression: (\n"+demoConflict)
		names, _ := demoTree(t, dir)
		if got := strings.Join(names, " "); got != "amb/errors.go amb/stack.go amb/types.go" {
			t.Errorf("files: %s", got)
		}
	})
}

// TestRefactorDemo_Binary builds the command-line tool and checks messages and exit statuses.
func TestRefactorDemo_Binary(t *testing.T) {
	tmp := t.TempDir()
	bin := filepath.Join(tmp, "emerge-demo")
	if out, err := exec.Command("go", "build", "-o", bin, "../../cmd/emerge").CombinedOutput(); err != nil {
		t.Fatalf("go build: %v\n%s", err, out)
	}
	fixture := filepath.Join(tmp, "good.grammar")
	if err := os.WriteFile(fixture, []byte(demoGood), 0o644); err != nil {
		t.Fatal(err)
	}
	garbage := filepath.Join(tmp, "garbage.grammar")
	if err := os.WriteFile(garbage, []byte("\x00\xff\xfe{{{{"), 0o644); err != nil {
		t.Fatal(err)
	}

	run := func(args ...string) (int, string, string) {
		cmd := exec.Command(bin, args...)
		cmd.Dir = tmp
		cmd.Env = append(os.Environ(), "NO_COLOR=1")
		var so, se bytes.Buffer
		cmd.Stdout, cmd.Stderr = &so, &se
		err := cmd.Run()
		code := 0
		if err != nil {
			var ee *exec.ExitError
			if !errors.As(err, &ee) {
				t.Fatalf("run %v: %v", args, err)
			}
			code = ee.ExitCode()
		}
		return code, so.String(), se.String()
	}

	red := func(msg string) string { return "\x1b[31m" + msg + "\x1b[0m\n" }
	ansi := regexp.MustCompile("\x1b\\[[0-9;]*m")
	// plain removes the colours and the random emoji at the start of a line.
	plain := func(out string) string {
		lines := strings.Split(ansi.ReplaceAllString(out, ""), "\n")
		for i, l := range lines {
			if l != "" && !strings.HasPrefix(l, " ") {
				_, rest, _ := strings.Cut(l, " ")
				lines[i] = "* " + rest
			}
		}
		return strings.Join(lines, "\n")
	}

	const (
		parsingGood = "* Parsing \"good.grammar\" ...\n* Generating parser ...\n"
		stages      = "     Generating core types ...\n     Generating the lexer ...\n       Constructing Automaton ...\n" +
			"     Generating the parser ...\n       Constructing LALR(1) Parsing Table ...\n"
	)
	verboseStages := "     Checking output path " + fmt.Sprintf("%q", tmp) + " ...\n     Checking package directory \"second\" ...\n" +
		"     Generating core types ...\n       Rendering \"errors.go\" ...\n       Rendering \"types.go\" ...\n       Rendering \"stack.go\" ...\n" +
		"     Generating the lexer ...\n       Constructing Automaton ...\n       Rendering \"input.go\" ...\n       Rendering \"lexer.go\" ...\n" +
		"     Generating the parser ...\n       Constructing LALR(1) Parsing Table ...\n       Rendering \"parser.go\" ...\n"

	tests := []struct {
		args       []string
		wantCode   int
		wantOut    string // expected plain(stdout); "?" skips the check
		wantErrPre string // expected start of stderr
		wantErrEnd string // expected end of stderr (the whole of it when wantErrPre is empty)
	}{
		{args: nil, wantCode: 1, wantErrEnd: red("\n" + demoNoInput + "\n")},
		{args: []string{"--", "-dash"}, wantCode: 1, wantErrEnd: red("\n" + demoNoInput + "\n")},
		{
			args: []string{"-bogus"}, wantCode: 2,
			wantErrPre: "flag provided but not defined: -bogus\nUsage of emerge:\n", wantErrEnd: red("flag provided but not defined: -bogus"),
		},
		{
			args: []string{"-help", "-version", "-bogus"}, wantCode: 2,
			wantErrPre: "flag provided but not defined: -bogus\nUsage of emerge:\n", wantErrEnd: red("flag provided but not defined: -bogus"),
		},
		{args: []string{"-h"}, wantCode: 2, wantErrPre: "Usage of emerge:\n", wantErrEnd: red("flag: help requested")},
		{
			args: []string{"-debug=maybe", fixture}, wantCode: 2,
			wantErrPre: "invalid boolean value \"maybe\" for -debug: parse error\nUsage of emerge:\n",
			wantErrEnd: red("invalid boolean value \"maybe\" for -debug: parse error"),
		},
		{args: []string{"-out"}, wantCode: 2, wantErrPre: "flag needs an argument: -out\nUsage of emerge:\n", wantErrEnd: red("flag needs an argument: -out")},
		{args: []string{"-version"}, wantCode: 0, wantOut: "\n  Version:     \n  Commit:      \n  Branch:      \n  Go Version:  \n  Build Tool:  \n  Build Time:  \n\n"},
		{args: []string{"-version", "-help", "missing.grammar"}, wantCode: 0, wantOut: "?"},
		{args: []string{"-help"}, wantCode: 0, wantOut: "?"},
		{
			args: []string{"missing.grammar"}, wantCode: 1, wantOut: "* Parsing \"missing.grammar\" ...\n",
			wantErrEnd: red("\nopen missing.grammar: no such file or directory\n"),
		},
		{
			args: []string{"-out=" + filepath.Join(tmp, "nope"), fixture}, wantCode: 1, wantOut: parsingGood,
			wantErrEnd: red("\noutput path does not exist: " + fmt.Sprintf("%q", filepath.Join(tmp, "nope")) + "\n"),
		},
		{
			args: []string{garbage}, wantCode: 1, wantOut: "* Parsing \"garbage.grammar\" ...\n",
			wantErrEnd: red("\nlexical error at garbage.grammar:1:1:\n"),
		},
		{args: []string{"-name=1x", fixture}, wantCode: 1, wantOut: parsingGood, wantErrEnd: red("\ninvalid package name: 1x\n")},
		{args: []string{fixture}, wantCode: 0, wantOut: parsingGood + stages + "* Successful!\n"},
		{
			args: []string{fixture}, wantCode: 1, wantOut: parsingGood,
			wantErrEnd: red("\nerror on creating package directory: mkdir " + filepath.Join(tmp, "calc") + ": file exists\n"),
		},
		{args: []string{"-verbose", "-name=second", fixture, "ignored"}, wantCode: 0, wantOut: parsingGood + verboseStages + "* Successful!\n"},
	}

	for _, tc := range tests {
		code, so, se := run(tc.args...)
		if code != tc.wantCode {
			t.Errorf("%q: exit status %d, want %d", tc.args, code, tc.wantCode)
		}
		if tc.wantOut != "?" && plain(so) != tc.wantOut {
			t.Errorf("%q: stdout %q, want %q", tc.args, plain(so), tc.wantOut)
		}
		if !strings.HasPrefix(se, tc.wantErrPre) || !strings.HasSuffix(se, tc.wantErrEnd) || tc.wantErrPre == "" && se != tc.wantErrEnd {
			t.Errorf("%q: stderr %q, want %q ... %q", tc.args, se, tc.wantErrPre, tc.wantErrEnd)
		}
		if strings.Contains(se, "goroutine ") || strings.Contains(se, "panic:") {
			t.Errorf("%q: stack trace on stderr: %q", tc.args, se)
		}
	}

	// -help wins over -version, and -version over running.
	_, helpOut, _ := run("-help")
	_, bothOut, _ := run("-version", "-help", "missing.grammar")
	if bothOut != helpOut || !strings.Contains(plain(helpOut), "  Usage:  emerge [flags] FILE_PATH\n") || !strings.Contains(helpOut, "(default: false)") {
		t.Errorf("help text: %q vs %q", bothOut, helpOut)
	}

	for _, pkg := range []string{"calc", "second"} {
		names, sum := demoTree(t, filepath.Join(tmp, pkg))
		if got := strings.Join(names, " "); got != "errors.go input.go lexer.go parser.go stack.go types.go" {
			t.Errorf("%s: files %s", pkg, got)
		}
		if pkg == "calc" && sum != demoCalcSum {
			t.Errorf("%s: output bytes %s, want %s", pkg, sum, demoCalcSum)
		}
	}
}
