package ast

import (
	"crypto/sha256"
	"fmt"
	"os"
	"sort"
	"strings"
	"sync"
	"testing"

	auto "github.com/moorara/algo/automata"
)

// demoDumpNode serialises a node WITHOUT calling nullable/firstPos/lastPos,
// so that it also pins down which inner nodes have been memoised by Parse.
func demoDumpNode(b *strings.Builder, n Node) {
	comp := func(c *computed) {
		if c == nil {
			b.WriteString("{-}")
			return
		}
		fmt.Fprintf(b, "{%t %v %v}", c.nullable, []Pos(c.firstPos), []Pos(c.lastPos))
	}

	switch v := n.(type) {
	case *Concat:
		b.WriteString("Cat")
		comp(v.comp)
		b.WriteString("(")
		for i, e := range v.Exprs {
			if i > 0 {
				b.WriteString(",")
			}
			demoDumpNode(b, e)
		}
		b.WriteString(")")
	case *Alt:
		b.WriteString("Alt")
		comp(v.comp)
		b.WriteString("(")
		for i, e := range v.Exprs {
			if i > 0 {
				b.WriteString(",")
			}
			demoDumpNode(b, e)
		}
		b.WriteString(")")
	case *Star:
		b.WriteString("Star(")
		demoDumpNode(b, v.Expr)
		b.WriteString(")")
	case *Empty:
		b.WriteString("Eps")
	case *Char:
		fmt.Fprintf(b, "%U@%d", v.Val, v.Pos)
	default:
		fmt.Fprintf(b, "?%T", n)
	}
}

func demoDump(a *AST) string {
	var b strings.Builder
	demoDumpNode(&b, a.Root)
	fmt.Fprintf(&b, "\nlast=%d\np2c:", a.lastPos)

	ps := make([]int, 0, len(a.posToChar))
	for p := range a.posToChar {
		ps = append(ps, int(p))
	}
	sort.Ints(ps)
	for _, p := range ps {
		fmt.Fprintf(&b, " %d=%U", p, a.posToChar[Pos(p)])
	}

	b.WriteString("\nc2p:")
	cs := make([]int, 0, len(a.charToPos))
	for c := range a.charToPos {
		cs = append(cs, int(c))
	}
	sort.Ints(cs)
	for _, c := range cs {
		fmt.Fprintf(&b, " %U=%v", rune(c), []Pos(a.charToPos[rune(c)]))
	}

	b.WriteString("\nfol:")
	fs := make([]int, 0, len(a.follows))
	for p := range a.follows {
		fs = append(fs, int(p))
	}
	sort.Ints(fs)
	for _, p := range fs {
		fmt.Fprintf(&b, " %d=%v", p, []Pos(a.follows[Pos(p)]))
	}

	// Only now touch the root functions (they memoise on the root node).
	fmt.Fprintf(&b, "\nroot: %t %v %v", a.Root.nullable(), []Pos(a.Root.firstPos()), []Pos(a.Root.lastPos()))
	return b.String()
}

// demoFingerprint is the full outcome of processing one pattern: error text or AST dump plus DFA behaviour.
func demoFingerprint(regex string, probes []string) string {
	a, err := Parse(regex)
	if err != nil {
		if a != nil {
			return "ERR+AST " + err.Error()
		}
		return "ERR " + err.Error()
	}

	d := demoDump(a)
	if len(d) > 600 {
		d = fmt.Sprintf("sha256:%x len=%d", sha256.Sum256([]byte(d)), len(d))
	}

	dfa := a.ToDFA()
	var acc strings.Builder
	for _, s := range probes {
		if dfa.Accept(auto.String(s)) {
			acc.WriteString("1")
		} else {
			acc.WriteString("0")
		}
	}

	return fmt.Sprintf("%s\nstates=%d accept=%s", d, len(dfa.States()), acc.String())
}

var demoProbes = []string{"", "a", "b", "ab", "abb", "aabb", "babb", "abc", "d", "cd", "abcd", "aa", "aaa", "aaaa", "x", "ax", "abcx", "xy", "xaby", "xbay", "g", "abeg", "cdcdg", "e", "f0", "a09f", "7", "42", "c", "bc", "aabbc", "\uEEEE"}

var demoCases = []struct {
	regex  string
	golden string
}{
	// Goldens recorded on the code before the refactoring.
	{"a", "Cat{-}(Cat{false [1] [1]}(U+0061@1),U+EEEE@2)\nlast=2\np2c: 1=U+0061 2=U+EEEE\nc2p: U+0061=[1] U+EEEE=[2]\nfol: 1=[2]\nroot: false [1] [2]\nstates=3 accept=01000000000000000000000000000000"},
	{"ab", "Cat{-}(Cat{false [1] [2]}(U+0061@1,U+0062@2),U+EEEE@3)\nlast=3\np2c: 1=U+0061 2=U+0062 3=U+EEEE\nc2p: U+0061=[1] U+0062=[2] U+EEEE=[3]\nfol: 1=[2] 2=[3]\nroot: false [1] [3]\nstates=4 accept=00010000000000000000000000000000"},
	{"a|b", "Cat{-}(Alt{false [1 2] [1 2]}(Cat{false [1] [1]}(U+0061@1),Cat{false [2] [2]}(U+0062@2)),U+EEEE@3)\nlast=3\np2c: 1=U+0061 2=U+0062 3=U+EEEE\nc2p: U+0061=[1] U+0062=[2] U+EEEE=[3]\nfol: 1=[3] 2=[3]\nroot: false [1 2] [3]\nstates=3 accept=01100000000000000000000000000000"},
	{"a*", "Cat{-}(Cat{true [1] [1]}(Star(U+0061@1)),U+EEEE@2)\nlast=2\np2c: 1=U+0061 2=U+EEEE\nc2p: U+0061=[1] U+EEEE=[2]\nfol: 1=[1 2]\nroot: false [1 2] [2]\nstates=1 accept=11000000000111000000000000000000"},
	{"a+", "Cat{-}(Cat{false [1] [1 2]}(Cat{false [1] [1 2]}(U+0061@1,Star(U+0061@2))),U+EEEE@3)\nlast=3\np2c: 1=U+0061 2=U+0061 3=U+EEEE\nc2p: U+0061=[1 2] U+EEEE=[3]\nfol: 1=[2 3] 2=[2 3]\nroot: false [1] [3]\nstates=2 accept=01000000000111000000000000000000"},
	{"a?", "Cat{-}(Cat{true [1] [1]}(Alt{true [1] [1]}(Eps,U+0061@1)),U+EEEE@2)\nlast=2\np2c: 1=U+0061 2=U+EEEE\nc2p: U+0061=[1] U+EEEE=[2]\nfol: 1=[2]\nroot: false [1 2] [2]\nstates=3 accept=11000000000000000000000000000000"},
	{"(a|b)*abb", "Cat{-}(Cat{false [1 2 3] [5]}(Star(Alt{false [1 2] [1 2]}(Cat{false [1] [1]}(U+0061@1),Cat{false [2] [2]}(U+0062@2))),U+0061@3,U+0062@4,U+0062@5),U+EEEE@6)\nlast=6\np2c: 1=U+0061 2=U+0062 3=U+0061 4=U+0062 5=U+0062 6=U+EEEE\nc2p: U+0061=[1 3] U+0062=[2 4 5] U+EEEE=[6]\nfol: 1=[1 2 3] 2=[1 2 3] 3=[4] 4=[5] 5=[6]\nroot: false [1 2 3] [6]\nstates=4 accept=00001110000000000000000000000000"},
	{"a?b?c?d", "Cat{-}(Cat{false [1 2 3 4] [4]}(Alt{true [1] [1]}(Eps,U+0061@1),Alt{true [2] [2]}(Eps,U+0062@2),Alt{true [3] [3]}(Eps,U+0063@3),U+0064@4),U+EEEE@5)\nlast=5\np2c: 1=U+0061 2=U+0062 3=U+0063 4=U+0064 5=U+EEEE\nc2p: U+0061=[1] U+0062=[2] U+0063=[3] U+0064=[4] U+EEEE=[5]\nfol: 1=[2 3 4] 2=[3 4] 3=[4] 4=[5]\nroot: false [1 2 3 4] [5]\nstates=6 accept=00000000111000000000000000000000"},
	{"a?b?c?", "Cat{-}(Cat{true [1 2 3] [1 2 3]}(Alt{true [1] [1]}(Eps,U+0061@1),Alt{true [2] [2]}(Eps,U+0062@2),Alt{true [3] [3]}(Eps,U+0063@3)),U+EEEE@4)\nlast=4\np2c: 1=U+0061 2=U+0062 3=U+0063 4=U+EEEE\nc2p: U+0061=[1] U+0062=[2] U+0063=[3] U+EEEE=[4]\nfol: 1=[2 3 4] 2=[3 4] 3=[4]\nroot: false [1 2 3 4] [4]\nstates=5 accept=11110001000000000000000000001100"},
	{"(a*b*)*c", "Cat{-}(Cat{false [1 2 3] [3]}(Star(Cat{true [1 2] [1 2]}(Star(U+0061@1),Star(U+0062@2))),U+0063@3),U+EEEE@4)\nlast=4\np2c: 1=U+0061 2=U+0062 3=U+0063 4=U+EEEE\nc2p: U+0061=[1] U+0062=[2] U+0063=[3] U+EEEE=[4]\nfol: 1=[1 1 2 2 3] 2=[1 2 2 3] 3=[4]\nroot: false [1 2 3] [4]\nstates=3 accept=00000001000000000000000000001110"},
	{"(a?b?)*", "Cat{-}(Cat{true [1 2] [1 2]}(Star(Cat{true [1 2] [1 2]}(Alt{true [1] [1]}(Eps,U+0061@1),Alt{true [2] [2]}(Eps,U+0062@2)))),U+EEEE@3)\nlast=3\np2c: 1=U+0061 2=U+0062 3=U+EEEE\nc2p: U+0061=[1] U+0062=[2] U+EEEE=[3]\nfol: 1=[1 2 2 3] 2=[1 2 3]\nroot: false [1 2 3] [3]\nstates=1 accept=11111110000111000000000000000000"},
	{"x(a?b?)*y", "Cat{-}(Cat{false [1] [4]}(U+0078@1,Star(Cat{true [2 3] [2 3]}(Alt{true [2] [2]}(Eps,U+0061@2),Alt{true [3] [3]}(Eps,U+0062@3))),U+0079@4),U+EEEE@5)\nlast=5\np2c: 1=U+0078 2=U+0061 3=U+0062 4=U+0079 5=U+EEEE\nc2p: U+0061=[2] U+0062=[3] U+0078=[1] U+0079=[4] U+EEEE=[5]\nfol: 1=[2 3 4] 2=[2 3 3 4] 3=[2 3 4] 4=[5]\nroot: false [1] [5]\nstates=4 accept=00000000000000000111000000000000"},
	{"a{2,3}", "Cat{-}(Cat{false [1] [2 3]}(Cat{false [1] [2 3]}(U+0061@1,U+0061@2,Alt{true [3] [3]}(Eps,U+0061@3))),U+EEEE@4)\nlast=4\np2c: 1=U+0061 2=U+0061 3=U+0061 4=U+EEEE\nc2p: U+0061=[1 2 3] U+EEEE=[4]\nfol: 1=[2] 2=[3 4] 3=[4]\nroot: false [1] [4]\nstates=5 accept=00000000000110000000000000000000"},
	{"a{2,}", "Cat{-}(Cat{false [1] [2 3]}(Cat{false [1] [2 3]}(U+0061@1,U+0061@2,Star(U+0061@3))),U+EEEE@4)\nlast=4\np2c: 1=U+0061 2=U+0061 3=U+0061 4=U+EEEE\nc2p: U+0061=[1 2 3] U+EEEE=[4]\nfol: 1=[2] 2=[3 4] 3=[3 4]\nroot: false [1] [4]\nstates=3 accept=00000000000111000000000000000000"},
	{"(ab){2}", "Cat{-}(Cat{false [1] [4]}(Cat{false [1] [4]}(Cat{false [1] [2]}(U+0061@1,U+0062@2),Cat{false [3] [4]}(U+0061@3,U+0062@4))),U+EEEE@5)\nlast=5\np2c: 1=U+0061 2=U+0062 3=U+0061 4=U+0062 5=U+EEEE\nc2p: U+0061=[1 3] U+0062=[2 4] U+EEEE=[5]\nfol: 1=[2] 2=[3] 3=[4] 4=[5]\nroot: false [1] [5]\nstates=6 accept=00000000000000000000000000000000"},
	{"[a-c]+x", "Cat{-}(Cat{false [1 2 3] [7]}(Cat{false [1 2 3] [1 2 3 4 5 6]}(Alt{false [1 2 3] [1 2 3]}(U+0061@1,U+0062@2,U+0063@3),Star(Alt{false [4 5 6] [4 5 6]}(U+0061@4,U+0062@5,U+0063@6))),U+0078@7),U+EEEE@8)\nlast=8\np2c: 1=U+0061 2=U+0062 3=U+0063 4=U+0061 5=U+0062 6=U+0063 7=U+0078 8=U+EEEE\nc2p: U+0061=[1 4] U+0062=[2 5] U+0063=[3 6] U+0078=[7] U+EEEE=[8]\nfol: 1=[4 5 6 7] 2=[4 5 6 7] 3=[4 5 6 7] 4=[4 5 6 7] 5=[4 5 6 7] 6=[4 5 6 7] 7=[8]\nroot: false [1 2 3] [8]\nstates=4 accept=00000000000000011000000000000000"},
	{"^[a-f][0-9a-f]*$", "sha256:6cabd66e6e835f3de7cf07ff25f05e6f54a9c99e510643219dc01c11653f73e7 len=2110\nstates=3 accept=01111111111111000000000111001110"},
	{"(ab|cd)*(e|f)?g", "Cat{-}(Cat{false [1 3 5 6 7] [7]}(Star(Alt{false [1 3] [2 4]}(Cat{false [1] [2]}(U+0061@1,U+0062@2),Cat{false [3] [4]}(U+0063@3,U+0064@4))),Alt{true [5 6] [5 6]}(Eps,Alt{false [5 6] [5 6]}(Cat{false [5] [5]}(U+0065@5),Cat{false [6] [6]}(U+0066@6))),U+0067@7),U+EEEE@8)\nlast=8\np2c: 1=U+0061 2=U+0062 3=U+0063 4=U+0064 5=U+0065 6=U+0066 7=U+0067 8=U+EEEE\nc2p: U+0061=[1] U+0062=[2] U+0063=[3] U+0064=[4] U+0065=[5] U+0066=[6] U+0067=[7] U+EEEE=[8]\nfol: 1=[2] 2=[1 3 5 6 7] 3=[4] 4=[1 3 5 6 7] 5=[7] 6=[7] 7=[8]\nroot: false [1 3 5 6 7] [8]\nstates=6 accept=00000000000000000000111000000000"},
	{"((a|b)(c|d))*", "Cat{-}(Cat{true [1 2] [3 4]}(Star(Cat{false [1 2] [3 4]}(Alt{false [1 2] [1 2]}(Cat{false [1] [1]}(U+0061@1),Cat{false [2] [2]}(U+0062@2)),Alt{false [3 4] [3 4]}(Cat{false [3] [3]}(U+0063@3),Cat{false [4] [4]}(U+0064@4))))),U+EEEE@5)\nlast=5\np2c: 1=U+0061 2=U+0062 3=U+0063 4=U+0064 5=U+EEEE\nc2p: U+0061=[1] U+0062=[2] U+0063=[3] U+0064=[4] U+EEEE=[5]\nfol: 1=[3 4] 2=[3 4] 3=[1 2 5] 4=[1 2 5]\nroot: false [1 2 5] [5]\nstates=3 accept=10000000000000000000000000000100"},
	{"(a*)*", "Cat{-}(Cat{true [1] [1]}(Star(Cat{true [1] [1]}(Star(U+0061@1)))),U+EEEE@2)\nlast=2\np2c: 1=U+0061 2=U+EEEE\nc2p: U+0061=[1] U+EEEE=[2]\nfol: 1=[1 1 2]\nroot: false [1 2] [2]\nstates=1 accept=11000000000111000000000000000000"},
	{"a**", "ERR invalid regular expression: a**"},
	{"\\d+", "sha256:fe74f50d6254cc9dbf86390d1eb65853dbd4902f216050e8a9d470a088ff4688 len=1692\nstates=2 accept=00000000000000000000000000110000"},
	{"[0-9]{1,2}", "sha256:26b2f5156055c96a2a29ad89d20b56df920ce6cebb4058813af7a5c0cd3df9a6 len=1465\nstates=4 accept=00000000000000000000000000110000"},
	{".", "sha256:89523fc018d66f734dac6ffcb393be0fd4d0b7fd683200b24916f6c169b75014 len=7466\nstates=3 accept=01100000100000100000100100101000"},
	{"[^a]", "sha256:ea1794d248e290658bddfbc7282b656ec8a2033b22bda6c5518d0930d56b833d len=7401\nstates=3 accept=00100000100000100000100100101000"},
	{"a.c", "sha256:4c5f26f48d6a7cf4a36acdc2f416398ac20fbe869795097038ef1f37d74f19ed len=6740\nstates=5 accept=00000001000000000000000000000000"},
	{"(a|ab)(c|bcd)", "Cat{-}(Cat{false [1 2] [4 7]}(Alt{false [1 2] [1 3]}(Cat{false [1] [1]}(U+0061@1),Cat{false [2] [3]}(U+0061@2,U+0062@3)),Alt{false [4 5] [4 7]}(Cat{false [4] [4]}(U+0063@4),Cat{false [5] [7]}(U+0062@5,U+0063@6,U+0064@7))),U+EEEE@8)\nlast=8\np2c: 1=U+0061 2=U+0061 3=U+0062 4=U+0063 5=U+0062 6=U+0063 7=U+0064 8=U+EEEE\nc2p: U+0061=[1 2] U+0062=[3 5] U+0063=[4 6] U+0064=[7] U+EEEE=[8]\nfol: 1=[4 5] 2=[3] 3=[4 5] 4=[8] 5=[6] 6=[7] 7=[8]\nroot: false [1 2] [8]\nstates=8 accept=00000001001000000000000000000000"},
	{"", "ERR invalid regular expression: "},
	{"[", "ERR invalid regular expression: ["},
	{"[9-0]", "ERR invalid character range 9-0"},
	{"[0-9]{4,2}", "ERR invalid repetition range {4,2}"},
	{"(", "ERR invalid regular expression: ("},
	{"a)", "ERR invalid regular expression: a)"},
	{"*", "ERR invalid regular expression: *"},
	{"a\ueeeeb", "ERR invalid regular expression: a\ueeeeb"},
	{"a\\xEEEEb", "ERR unsupported character U+EEEE in regular expression: a\\xEEEEb"},
	{"\\xEEEE", "ERR unsupported character U+EEEE in regular expression: \\xEEEE"},
	{"[\\xEEED-\\xEEEF]", "ERR unsupported non-ASCII character in character group"},
	{"(a|\\xEEEE)*", "ERR unsupported character U+EEEE in regular expression: (a|\\xEEEE)*"},
	{"x(\\xEEEE)?", "ERR unsupported character U+EEEE in regular expression: x(\\xEEEE)?"},
	{"\\xEEED", "Cat{-}(Cat{false [1] [1]}(U+EEED@1),U+EEEE@2)\nlast=2\np2c: 1=U+EEED 2=U+EEEE\nc2p: U+EEED=[1] U+EEEE=[2]\nfol: 1=[2]\nroot: false [1] [2]\nstates=3 accept=00000000000000000000000000000000"},
	{"\\xEEEF+a", "Cat{-}(Cat{false [1] [3]}(Cat{false [1] [1 2]}(U+EEEF@1,Star(U+EEEF@2)),U+0061@3),U+EEEE@4)\nlast=4\np2c: 1=U+EEEF 2=U+EEEF 3=U+0061 4=U+EEEE\nc2p: U+0061=[3] U+EEEE=[4] U+EEEF=[1 2]\nfol: 1=[2 3] 2=[2 3] 3=[4]\nroot: false [1] [4]\nstates=4 accept=00000000000000000000000000000000"},
}

func TestRefactorDemo_Characterization(t *testing.T) {
	if os.Getenv("REFDEMO_PRINT") != "" {
		for _, c := range demoCases {
			fmt.Printf("GOLD\t{%q, %q},\n", c.regex, demoFingerprint(c.regex, demoProbes))
		}
		return
	}

	for _, c := range demoCases {
		if got := demoFingerprint(c.regex, demoProbes); got != c.golden {
			t.Errorf("regex %q:\n got: %s\nwant: %s", c.regex, got, c.golden)
		}
	}
}

// The outcome for a pattern must not depend on what was processed before it in the same process.
func TestRefactorDemo_OrderIndependence(t *testing.T) {
	if os.Getenv("REFDEMO_PRINT") != "" {
		t.Skip()
	}

	// forward, backward, and each pattern twice in a row
	for pass := 0; pass < 3; pass++ {
		for i := range demoCases {
			c := demoCases[i]
			if pass == 1 {
				c = demoCases[len(demoCases)-1-i]
			}
			if got := demoFingerprint(c.regex, demoProbes); got != c.golden {
				t.Errorf("pass %d regex %q:\n got: %s\nwant: %s", pass, c.regex, got, c.golden)
			}
			if pass == 2 {
				if got := demoFingerprint(c.regex, demoProbes); got != c.golden {
					t.Errorf("repeat regex %q:\n got: %s\nwant: %s", c.regex, got, c.golden)
				}
			}
		}
	}
}

// The end-marker leaf must be a fresh node per AST: positions are written into it.
func TestRefactorDemo_EndMarkerNotShared(t *testing.T) {
	if os.Getenv("REFDEMO_PRINT") != "" {
		t.Skip()
	}

	a1, err1 := Parse("abc")
	a2, err2 := Parse("a")
	if err1 != nil || err2 != nil {
		t.Fatalf("unexpected errors: %v %v", err1, err2)
	}

	m1 := a1.Root.(*Concat).Exprs[1].(*Char)
	m2 := a2.Root.(*Concat).Exprs[1].(*Char)
	if m1 == m2 {
		t.Fatal("end-marker node shared between two ASTs")
	}
	if m1.Val != endMarker || m1.Pos != 4 || m2.Val != endMarker || m2.Pos != 2 {
		t.Errorf("end markers: %U@%d %U@%d", m1.Val, m1.Pos, m2.Val, m2.Pos)
	}
	if len(a1.Root.(*Concat).Exprs) != 2 || a1.Root.(*Concat).comp != nil {
		t.Errorf("root of augmented expression must be a fresh two-operand concat that Parse has not memoised")
	}
	if got := fmt.Sprint(a1.charToPos[endMarker], a2.charToPos[endMarker]); got != "[4] [2]" {
		t.Errorf("end-marker positions: %s", got)
	}
}

// Concurrent use gives the same outcomes as isolated runs (run with -race to also check for data races).
func TestRefactorDemo_Concurrent(t *testing.T) {
	if os.Getenv("REFDEMO_PRINT") != "" {
		t.Skip()
	}

	const workers = 8
	var wg sync.WaitGroup
	errs := make(chan string, workers*len(demoCases)*2)

	for w := 0; w < workers; w++ {
		wg.Add(1)
		go func(w int) {
			defer wg.Done()
			for round := 0; round < 2; round++ {
				for i := range demoCases {
					c := demoCases[(i*7+w*3+round)%len(demoCases)]
					if got := demoFingerprint(c.regex, demoProbes); got != c.golden {
						errs <- fmt.Sprintf("worker %d regex %q:\n got: %s\nwant: %s", w, c.regex, got, c.golden)
					}
				}
			}
		}(w)
	}

	wg.Wait()
	close(errs)
	for e := range errs {
		t.Error(e)
	}
}
