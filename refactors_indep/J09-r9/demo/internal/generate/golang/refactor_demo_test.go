package golang

// Characterization test for the emitted lexer and its two-buffer reader (property C19).
//
// The test generates a lexer with Generate, adds a small driver to the emitted package, compiles it with the go tool,
// and runs the binary over a batch of cases. The results are compared with
//
//   - token streams and reader events written down by hand, and
//   - a model that walks the token automaton of the specification (Spec.DFA) over runes decoded with unicode/utf8.
//
// The driver only uses names of the emitted code that are the same before and after the refactoring
// (New, newInput, Lexer.in, NextToken, Next, Retract, Lexeme, Skip).

import (
	"bytes"
	"crypto/sha256"
	"encoding/json"
	"fmt"
	"math/rand"
	"os"
	"os/exec"
	"path/filepath"
	"strings"
	"testing"
	"unicode/utf8"

	"github.com/gardenbed/charm/ui"
	auto "github.com/moorara/algo/automata"

	"github.com/gardenbed/emerge/internal/ebnf/parser/spec"
)

const demoDriver = `package main

import (
	"crypto/sha256"
	"encoding/json"
	"fmt"
	"io"
	"os"
)

type demoCase struct {
	Mode  string // tokens, script, runes, records
	Input []byte
	N     int    // size of a half of the buffer; 0 means New (the default size)
	Chunk int    // the reader hands out at most Chunk bytes per Read; 0 means everything
	Ops   string // script: n(ext), r(etract), l(exeme), s(kip)
	Width int    // records: width of a record
}

type demoResult struct {
	Events []string
}

type chunkReader struct {
	data  []byte
	chunk int
}

func (r *chunkReader) Read(p []byte) (int, error) {
	if len(r.data) == 0 {
		return 0, io.EOF
	}
	n := len(p)
	if r.chunk > 0 && n > r.chunk {
		n = r.chunk
	}
	n = copy(p[:n], r.data)
	r.data = r.data[n:]
	return n, nil
}

func posString(p Position) string {
	return fmt.Sprintf("%d:%d:%d", p.Offset, p.Line, p.Column)
}

func open(c demoCase, data []byte) (*Lexer, error) {
	src := &chunkReader{data: data, chunk: c.Chunk}
	if c.N == 0 {
		return New("f", src)
	}
	in, err := newInput("f", src, c.N)
	if err != nil {
		return nil, err
	}
	return &Lexer{in: in}, nil
}

func run(c demoCase) (res demoResult) {
	add := func(format string, args ...any) {
		res.Events = append(res.Events, fmt.Sprintf(format, args...))
	}

	if c.Mode == "records" {
		for k := 0; k+c.Width <= len(c.Input); k += c.Width {
			l, err := open(c, c.Input[k:k+c.Width])
			if err != nil {
				add("NEW|%s", err)
				continue
			}
			r, err := l.in.Next()
			lexeme, _ := l.in.Lexeme()
			if err != nil {
				add("%d|%s", len(lexeme), err)
			} else {
				add("%d|%U", len(lexeme), r)
			}
		}
		return res
	}

	l, err := open(c, c.Input)
	if err != nil {
		add("NEW|%s", err)
		return res
	}

	switch c.Mode {
	case "tokens":
		for {
			tok, err := l.NextToken()
			if err != nil {
				add("END|%s", err)
				return res
			}
			add("TOK|%s|%q|%s", tok.Terminal.Name(), tok.Lexeme, posString(tok.Pos))
		}

	case "script":
		for _, op := range c.Ops {
			switch op {
			case 'n':
				if r, err := l.in.Next(); err != nil {
					add("n|%s", err)
				} else {
					add("n|%U", r)
				}
			case 'r':
				l.in.Retract()
				add("r")
			case 'l':
				lexeme, pos := l.in.Lexeme()
				add("l|%q|%s", lexeme, posString(pos))
			case 's':
				add("s|%s", posString(l.in.Skip()))
			}
		}

	case "runes":
		count := 0
		runes, lexemes := sha256.New(), sha256.New()
		for {
			r, err := l.in.Next()
			if err != nil {
				add("END|%d|%s|%s", count, err, posString(l.in.Skip()))
				add("RUNES|%x", runes.Sum(nil))
				add("LEXEMES|%x", lexemes.Sum(nil))
				return res
			}
			count++
			lexeme, _ := l.in.Lexeme()
			io.WriteString(runes, string(r))
			io.WriteString(lexemes, lexeme)
		}
	}

	return res
}

func main() {
	var cases []demoCase
	if err := json.NewDecoder(os.Stdin).Decode(&cases); err != nil {
		fmt.Fprintln(os.Stderr, err)
		os.Exit(2)
	}
	results := make([]demoResult, len(cases))
	for k, c := range cases {
		results[k] = run(c)
	}
	if err := json.NewEncoder(os.Stdout).Encode(results); err != nil {
		fmt.Fprintln(os.Stderr, err)
		os.Exit(2)
	}
}
`

type demoCase struct {
	Mode  string
	Input []byte
	N     int
	Chunk int
	Ops   string
	Width int
}

type demoResult struct {
	Events []string
}

// demoLexer is a compiled emitted lexer together with the token automaton it was emitted from.
type demoLexer struct {
	bin    string
	dfa    *auto.DFA
	termOf map[auto.State]string
}

func demoGoEnv() []string {
	return append(os.Environ(), "GOFLAGS=-mod=mod", "GOPROXY=off", "GOWORK=off")
}

// demoBuild emits a lexer for the definitions into a package main, adds the driver, vets and compiles it.
func demoBuild(t *testing.T, defs []*spec.TerminalDef) *demoLexer {
	t.Helper()

	goTool, err := exec.LookPath("go")
	if err != nil {
		t.Fatalf("the go tool is needed to compile the emitted lexer: %s", err)
	}

	s := &spec.Spec{
		Name:        "main",
		Definitions: defs,
		Grammar:     grammars[0],
		Precedences: precedences[0],
	}

	dir := t.TempDir()
	if err := Generate(ui.NewNop(), &Params{Path: dir, Spec: s}); err != nil {
		t.Fatalf("Generate: %s", err)
	}

	pkg := filepath.Join(dir, "main")
	for name, content := range map[string]string{
		"go.mod":         "module demolexer\n\ngo 1.21\n",
		"demo_driver.go": demoDriver,
	} {
		if err := os.WriteFile(filepath.Join(pkg, name), []byte(content), 0o644); err != nil {
			t.Fatal(err)
		}
	}

	bin := filepath.Join(dir, "demolexer.bin")
	for _, args := range [][]string{{"vet", "."}, {"build", "-o", bin, "."}} {
		cmd := exec.Command(goTool, args...)
		cmd.Dir = pkg
		cmd.Env = demoGoEnv()
		if out, err := cmd.CombinedOutput(); err != nil {
			t.Fatalf("go %s: %s\n%s", strings.Join(args, " "), err, out)
		}
	}

	dfa, termMap, err := s.DFA()
	if err != nil {
		t.Fatalf("DFA: %s", err)
	}
	if dfa.Start != 0 {
		t.Fatalf("the emitted scan loop starts in state 0, the automaton in %d", dfa.Start)
	}

	termOf := map[auto.State]string{}
	for term, states := range termMap {
		for _, f := range states {
			termOf[f] = string(term)
		}
	}

	return &demoLexer{bin: bin, dfa: dfa, termOf: termOf}
}

func (l *demoLexer) run(t *testing.T, cases []demoCase) []demoResult {
	t.Helper()

	in, err := json.Marshal(cases)
	if err != nil {
		t.Fatal(err)
	}

	var stdout, stderr bytes.Buffer
	cmd := exec.Command(l.bin)
	cmd.Stdin = bytes.NewReader(in)
	cmd.Stdout = &stdout
	cmd.Stderr = &stderr
	if err := cmd.Run(); err != nil {
		t.Fatalf("driver: %s\n%s", err, stderr.String())
	}

	var results []demoResult
	if err := json.Unmarshal(stdout.Bytes(), &results); err != nil {
		t.Fatal(err)
	}
	if len(results) != len(cases) {
		t.Fatalf("%d results for %d cases", len(results), len(cases))
	}

	return results
}

const (
	demoOK = iota
	demoEOF
	demoInvalid
)

// demoDecode says what the reader makes of the bytes at in[p:]: a rune of some size, the end of the input
// (also in the middle of a sequence that is fine so far), or an invalid byte after used bytes.
func demoDecode(in []byte, p int) (r rune, used int, status int) {
	if p >= len(in) {
		return 0, 0, demoEOF
	}

	if r, size := utf8.DecodeRune(in[p:]); r != utf8.RuneError || size == 3 {
		return r, size, demoOK
	}

	b0 := in[p]
	var size int
	switch {
	case 0xC2 <= b0 && b0 <= 0xDF:
		size = 2
	case 0xE0 <= b0 && b0 <= 0xEF:
		size = 3
	case 0xF0 <= b0 && b0 <= 0xF4:
		size = 4
	default:
		return 0, 1, demoInvalid
	}

	for k := 1; k < size; k++ {
		if p+k >= len(in) {
			return 0, k, demoEOF
		}

		lo, hi := byte(0x80), byte(0xBF)
		if k == 1 {
			switch b0 {
			case 0xE0:
				lo = 0xA0
			case 0xED:
				hi = 0x9F
			case 0xF0:
				lo = 0x90
			case 0xF4:
				hi = 0x8F
			}
		}

		if b := in[p+k]; b < lo || hi < b {
			return 0, k + 1, demoInvalid
		}
	}

	panic(fmt.Sprintf("unreachable: % x", in[p:]))
}

// model is the token stream the token automaton prescribes for the input, in the format of the driver.
// It stops at the first error, as the driver does.
func (l *demoLexer) model(in []byte) []string {
	if len(in) == 0 {
		return []string{"NEW|EOF"}
	}

	var events []string
	p, off, line, col := 0, 0, 1, 1

	for {
		curr := l.dfa.Start
		q, n, fl, fc := p, 0, line, col
		var done, dropped bool

		for !done {
			r, size, status := demoDecode(in, q)

			switch {
			case status == demoInvalid:
				return append(events, fmt.Sprintf("END|f:%d:%d: invalid utf-8 character", fl, fc))
			case status == demoEOF && curr == l.dfa.Start:
				return append(events, "END|EOF")
			case status == demoEOF:
				// The bytes of a sequence the input ends in are not decoded, but they are part of the pending lexeme.
				q, done = q+size, true
				continue
			}

			next := l.dfa.Next(curr, auto.Symbol(r))
			if next == -1 && curr == l.dfa.Start && (r == ' ' || r == '\t' || r == '\n' || r == '\r') {
				// A blank that no token begins with is dropped.
				next, done, dropped = curr, true, true
			} else if next == -1 {
				done = true
				continue
			}

			q, n, curr = q+size, n+1, next
			if fc++; r == '\n' {
				fl, fc = fl+1, 1
			}
		}

		term, final := l.termOf[curr]
		if dropped {
			term, final = "WS", true
		}

		lexeme := string(in[p:q])
		if !final {
			return append(events, fmt.Sprintf("END|lexical error at f:%d:%d:%s", line, col, lexeme))
		}

		if term != "WS" && term != "EOL" && term != "COMMENT" {
			events = append(events, fmt.Sprintf("TOK|%s|%q|%d:%d:%d", term, lexeme, off, line, col))
		}

		p, off, line, col = q, off+n, fl, fc
	}
}

var demoFullDefs = []*spec.TerminalDef{
	{Terminal: "IF", Value: "if"},
	{Terminal: "ARROW", Value: "→"},
	{Terminal: "LAMBDA", Value: "λ"},
	{Terminal: "ALPHA", Value: "𝛼"},
	{Terminal: "MIX", Value: "é→𝛼"},
	{Terminal: "DOT", Value: "."},
	{Terminal: "DOTS", Value: "..."},
	{Terminal: "ID", Value: "[A-Za-z_][0-9A-Za-z_]*", IsRegex: true},
	{Terminal: "NUM", Value: "[0-9]+", IsRegex: true},
	{Terminal: "WS", Value: "[ \\x09]+", IsRegex: true},
	{Terminal: "EOL", Value: "\\x0A", IsRegex: true},
	{Terminal: "COMMENT", Value: "#[0-9A-Za-z ]*", IsRegex: true},
}

var demoBareDefs = []*spec.TerminalDef{
	{Terminal: "EQ", Value: "=="},
	{Terminal: "PLUS", Value: "+"},
	{Terminal: "LAMBDA", Value: "λ"},
	{Terminal: "PAIR", Value: "a b"},
	{Terminal: "ID", Value: "[a-z]+", IsRegex: true},
	{Terminal: "NUM", Value: "[0-9]+", IsRegex: true},
	{Terminal: "GREEK", Value: "(\\x03B1|\\x03B2)+", IsRegex: true},
}

func demoCompare(t *testing.T, what string, input []byte, got, want []string) {
	t.Helper()

	if len(got) != len(want) {
		t.Errorf("%s, input %q:\n got  %q\n want %q", what, input, got, want)
		return
	}

	for k := range want {
		if got[k] != want[k] {
			t.Errorf("%s, input %q, event %d:\n got  %q\n want %q", what, input, k, got[k], want[k])
			return
		}
	}
}

// TestRefactorDemo_Tokens pins token streams of compiled emitted lexers.
func TestRefactorDemo_Tokens(t *testing.T) {
	full := demoBuild(t, demoFullDefs)
	bare := demoBuild(t, demoBareDefs)

	t.Run("ByHand", func(t *testing.T) {
		tests := []struct {
			lexer    *demoLexer
			input    string
			expected []string
		}{
			{full, "", []string{"NEW|EOF"}},
			{full, "if", []string{`TOK|IF|"if"|0:1:1`, "END|EOF"}},
			{full, "iffy if x1 42\n", []string{
				`TOK|ID|"iffy"|0:1:1`, `TOK|IF|"if"|5:1:6`, `TOK|ID|"x1"|8:1:9`, `TOK|NUM|"42"|11:1:12`, "END|EOF",
			}},
			{full, "λ→𝛼é→𝛼x", []string{
				`TOK|LAMBDA|"λ"|0:1:1`, `TOK|ARROW|"→"|1:1:2`, `TOK|ALPHA|"𝛼"|2:1:3`, `TOK|MIX|"é→𝛼"|3:1:4`, `TOK|ID|"x"|6:1:7`, "END|EOF",
			}},
			{full, "a # note 1\n\n  →\tb\r\n....", []string{
				`TOK|ID|"a"|0:1:1`, `TOK|ARROW|"→"|14:3:3`, `TOK|ID|"b"|16:3:5`, `TOK|DOTS|"..."|19:4:1`, `TOK|DOT|"."|22:4:4`, "END|EOF",
			}},
			{full, "x ..", []string{`TOK|ID|"x"|0:1:1`, "END|lexical error at f:1:3:.."}},
			{full, "λ\né→x", []string{`TOK|LAMBDA|"λ"|0:1:1`, "END|lexical error at f:2:1:é→"}},
			{full, "a$", []string{`TOK|ID|"a"|0:1:1`, "END|lexical error at f:1:2:"}},
			{full, "a\n\xffb", []string{`TOK|ID|"a"|0:1:1`, "END|f:2:1: invalid utf-8 character"}},
			{full, "ab\xc3(", []string{"END|f:1:3: invalid utf-8 character"}},
			{full, "λ \xe2\x86x", []string{`TOK|LAMBDA|"λ"|0:1:1`, "END|f:1:3: invalid utf-8 character"}},
			{full, "λ\xf0\x9d\x9b!", []string{"END|f:1:2: invalid utf-8 character"}},
			{full, "x \xed\xa0\x80", []string{`TOK|ID|"x"|0:1:1`, "END|f:1:3: invalid utf-8 character"}},
			{full, "x \xe2\x86", []string{`TOK|ID|"x"|0:1:1`, "END|EOF"}},
			// The bytes of a sequence the input ends in are not decoded, but they are part of the pending lexeme.
			{full, "ab\xe2\x86", []string{`TOK|ID|"ab\xe2\x86"|0:1:1`, "END|EOF"}},
			{full, "\x00", []string{"END|lexical error at f:1:1:"}},
			{full, "\uFFFD", []string{"END|lexical error at f:1:1:"}},
			{bare, "a b ab b  a\tb\n\r a==+λ 12", []string{
				`TOK|PAIR|"a b"|0:1:1`, `TOK|ID|"ab"|4:1:5`, `TOK|ID|"b"|7:1:8`, `TOK|ID|"a"|10:1:11`, `TOK|ID|"b"|12:1:13`,
				`TOK|ID|"a"|16:2:3`, `TOK|EQ|"=="|17:2:4`, `TOK|PLUS|"+"|19:2:6`, `TOK|LAMBDA|"λ"|20:2:7`, `TOK|NUM|"12"|22:2:9`, "END|EOF",
			}},
			{bare, "a =", []string{"END|lexical error at f:1:1:a "}},
			{bare, "b a  b", []string{`TOK|ID|"b"|0:1:1`, "END|lexical error at f:1:3:a "}},
			{bare, " \n\t\r\n", []string{"END|EOF"}},
			{bare, "αβαλβ γ", []string{`TOK|GREEK|"αβα"|0:1:1`, `TOK|LAMBDA|"λ"|3:1:4`, `TOK|GREEK|"β"|4:1:5`, "END|lexical error at f:1:7:"}},
			{bare, "a\n=λ", []string{`TOK|ID|"a"|0:1:1`, "END|lexical error at f:2:1:="}},
		}

		for _, tc := range tests {
			// The streams are the same for every size of the buffer and however the reader cuts the input.
			var cases []demoCase
			for _, n := range []int{0, 16, 17, 64} {
				for _, chunk := range []int{0, 1, 5} {
					cases = append(cases, demoCase{Mode: "tokens", Input: []byte(tc.input), N: n, Chunk: chunk})
				}
			}

			for k, res := range tc.lexer.run(t, cases) {
				demoCompare(t, fmt.Sprintf("n=%d chunk=%d", cases[k].N, cases[k].Chunk), cases[k].Input, res.Events, tc.expected)
			}

			demoCompare(t, "model", []byte(tc.input), tc.lexer.model([]byte(tc.input)), tc.expected)
		}
	})

	t.Run("Model", func(t *testing.T) {
		fragments := map[*demoLexer][]string{
			full: {
				"if", "iffy", "x1", "_", "42", "0", " ", " ", " ", "\t", "\n", "\n", "\r", "→", "λ", "𝛼", "é→𝛼", ".", "...", "# note 1\n", "#",
				"if ", "x ", "7 ", "λ ", "→\n", "𝛼 ", "é→𝛼 ",
			},
			bare: {
				"a", "b", "ab", "a b", "a b", "zz", "12", "==", "+", "λ", "α", "βα", " ", " ", " ", "\t", "\n", "\r", "\r\n", "b ", "12 ", "λ ", "+ ",
			},
		}
		spoilers := []string{"é→", "é", "..", "$", "\x00", "\xff", "\xc0\x80", "\xed\xa0\x80", "\xf4\x90\x80\x80", "\xe2\x28", "\xe2\x86x", "=", "€", "\U0010FFFF", "\u07FF"}

		rnd := rand.New(rand.NewSource(19))

		for _, l := range []*demoLexer{full, bare} {
			var cases []demoCase
			for k := 0; k < 400; k++ {
				// A lexeme has to fit into a half of the buffer, so no line is longer than the smallest half.
				var input []byte
				for f := rnd.Intn(40); f >= 0; f-- {
					input = append(input, fragments[l][rnd.Intn(len(fragments[l]))]...)
					if len(input)-bytes.LastIndexByte(input, '\n') > 20 {
						input = append(input, '\n')
					}
				}
				if k%4 == 0 {
					input = append(input, spoilers[rnd.Intn(len(spoilers))]...)
					input = append(input, fragments[l][rnd.Intn(len(fragments[l]))]...)
				}
				if k%50 == 0 {
					// A long input for the default size of the buffer.
					input = bytes.Repeat(input, 1+9000/len(input))
				}

				n := []int{0, 48, 49, 61, 64, 4096}[rnd.Intn(6)]
				if k%50 == 0 {
					n = 0
				}
				cases = append(cases, demoCase{Mode: "tokens", Input: input, N: n, Chunk: []int{0, 1, 3, 4096, 5000}[rnd.Intn(5)]})
			}

			tokens := 0
			for k, res := range l.run(t, cases) {
				tokens += len(res.Events)
				demoCompare(t, fmt.Sprintf("case %d n=%d chunk=%d", k, cases[k].N, cases[k].Chunk), cases[k].Input, res.Events, l.model(cases[k].Input))
			}
			if tokens < 5000 {
				t.Errorf("only %d events, the inputs are too poor", tokens)
			}
		}
	})
}

// TestRefactorDemo_Reader pins the runes, errors, lexemes and positions of the emitted reader.
func TestRefactorDemo_Reader(t *testing.T) {
	l := demoBuild(t, demoBareDefs)

	t.Run("Script", func(t *testing.T) {
		tests := []struct {
			input    string
			ops      string
			expected []string
		}{
			{
				"a\nλ→\n𝛼b", "nnlnnrnnlnrrnlnnsnn",
				[]string{
					"n|U+0061", "n|U+000A", `l|"a\n"|0:1:1`,
					"n|U+03BB", "n|U+2192", "r", "n|U+2192", "n|U+000A", `l|"λ→\n"|2:2:1`,
					"n|U+1D6FC", "r", "r", "n|U+1D6FC", `l|"𝛼"|5:3:1`,
					"n|U+0062", "n|EOF", "s|6:3:2", "n|EOF", "n|EOF",
				},
			},
			{
				"\n\n\nx", "nnnrrnnnrlnrnl",
				[]string{
					"n|U+000A", "n|U+000A", "n|U+000A", "r", "r", "n|U+000A", "n|U+000A", "n|U+0078", "r", `l|"\n\n\n"|0:1:1`,
					"n|U+0078", "r", "n|U+0078", `l|"x"|3:4:1`,
				},
			},
			{
				"é\xe2\x82\xac\xe2\x82(z", "nnnlnl",
				[]string{"n|U+00E9", "n|U+20AC", "n|f:1:3: invalid utf-8 character", `l|"é€\xe2\x82("|0:1:1`, "n|U+007A", `l|"z"|2:1:3`},
			},
			{"\x80", "nl", []string{"n|f:1:1: invalid utf-8 character", `l|"\x80"|0:1:1`}},
			{"\xf5\x80", "nl", []string{"n|f:1:1: invalid utf-8 character", `l|"\xf5"|0:1:1`}},
			{"\xf0\x8f\x80\x80", "nl", []string{"n|f:1:1: invalid utf-8 character", `l|"\xf0\x8f"|0:1:1`}},
			{"\xf0\x90\x80\x7f", "nl", []string{"n|f:1:1: invalid utf-8 character", `l|"\xf0\x90\x80\x7f"|0:1:1`}},
			{"\n\xf0\x90\xc0", "nnl", []string{"n|U+000A", "n|f:2:1: invalid utf-8 character", `l|"\n\xf0\x90\xc0"|0:1:1`}},
			{"\xf0\x90\x80", "nrnl", []string{"n|EOF", "r", "n|EOF", `l|"\xf0\x90\x80"|0:1:1`}},
			{"\xc3", "nn", []string{"n|EOF", "n|EOF"}},
			{"\x00\x7f\u0080\u07ff\u0800\uffff\U00010000\U0010ffff", "nnnnlnnlnnnl", []string{
				"n|U+0000", "n|U+007F", "n|U+0080", "n|U+07FF", fmt.Sprintf("l|%q|0:1:1", "\x00\x7f\u0080\u07ff"),
				"n|U+0800", "n|U+FFFF", fmt.Sprintf("l|%q|4:1:5", "\u0800\uffff"),
				"n|U+10000", "n|U+10FFFF", "n|EOF", fmt.Sprintf("l|%q|6:1:7", "\U00010000\U0010ffff"),
			}},
		}

		for _, tc := range tests {
			var cases []demoCase
			for _, n := range []int{0, 8, 9, 11, 16} {
				for _, chunk := range []int{0, 1, 3} {
					cases = append(cases, demoCase{Mode: "script", Input: []byte(tc.input), Ops: tc.ops, N: n, Chunk: chunk})
				}
			}

			for k, res := range l.run(t, cases) {
				demoCompare(t, fmt.Sprintf("n=%d chunk=%d", cases[k].N, cases[k].Chunk), cases[k].Input, res.Events, tc.expected)
			}
		}
	})

	// Every code point is decoded to itself and its lexeme are its bytes, wherever it lies in the buffer:
	// the driver reports the hashes of the runes and of the lexemes it has seen.
	t.Run("AllRunes", func(t *testing.T) {
		// All code points for two sizes of the buffer, every fifth or tenth code point for some more.
		// (The emitted reader is slow with a large buffer if every rune is a lexeme: an empty stack allocates a block per push.)
		for step, sizes := range map[int][]int{1: {5, 8}, 5: {4, 6, 7, 9}, 10: {0}} {
			var input []byte
			count, inFirstLine := 0, 0
			for r := rune(0); r <= utf8.MaxRune; r += rune(step) {
				if utf8.ValidRune(r) {
					input = utf8.AppendRune(input, r)
					if count++; r <= '\n' {
						inFirstLine++
					}
				}
			}

			if step == 1 && (count != 0x110000-0x800 || inFirstLine != 11) {
				t.Fatalf("%d code points, %d in the first line", count, inFirstLine)
			}

			// The new line (U+000A) is the only rune that ends a line.
			sum := sha256.Sum256(input)
			expected := []string{
				fmt.Sprintf("END|%d|EOF|%d:2:%d", count, count, count-inFirstLine+1),
				fmt.Sprintf("RUNES|%x", sum),
				fmt.Sprintf("LEXEMES|%x", sum),
			}

			var cases []demoCase
			for _, n := range sizes {
				cases = append(cases, demoCase{Mode: "runes", Input: input, N: n, Chunk: n % 4})
			}

			for k, res := range l.run(t, cases) {
				demoCompare(t, fmt.Sprintf("step=%d n=%d", step, cases[k].N), nil, res.Events, expected)
			}
		}
	})

	// One Next on every pair of a non-ASCII first byte and a second byte, followed by good and bad third and fourth bytes,
	// and on sequences the input ends in.
	t.Run("AllPrefixes", func(t *testing.T) {
		for _, tail := range []string{"\x80\x80", "\xbf\x7f", "\x7f\x80", "\xc0\x80", "\x80", ""} {
			width := 2 + len(tail)

			var records []byte
			var expected []string
			for b0 := 0x80; b0 <= 0xFF; b0++ {
				for b1 := 0x00; b1 <= 0xFF; b1++ {
					rec := append([]byte{byte(b0), byte(b1)}, tail...)
					records = append(records, rec...)

					switch r, used, status := demoDecode(rec, 0); status {
					case demoOK:
						expected = append(expected, fmt.Sprintf("%d|%U", used, r))
					case demoInvalid:
						expected = append(expected, fmt.Sprintf("%d|f:1:1: invalid utf-8 character", used))
					case demoEOF:
						expected = append(expected, fmt.Sprintf("%d|EOF", used))
					}
				}
			}

			cases := []demoCase{
				{Mode: "records", Input: records, Width: width, N: 0},
				{Mode: "records", Input: records, Width: width, N: 4, Chunk: 1},
			}

			for k, res := range l.run(t, cases) {
				demoCompare(t, fmt.Sprintf("tail %q n=%d", tail, cases[k].N), nil, res.Events, expected)
			}
		}

		// Spot checks of the expectation itself.
		for rec, want := range map[string]string{
			"\xc3\xa9\x80\x80":     "2|U+00E9",
			"\xe2\x82\xac\x80":     "3|U+20AC",
			"\xf0\x9d\x9b\xbc":     "4|U+1D6FC",
			"\xed\xa0\x80\x80":     "2|invalid",
			"\xe2\x82\x7f\x80":     "3|invalid",
			"\xf4\x8f\xbf\xc0":     "4|invalid",
			"\xc1\xbf\x80\x80":     "1|invalid",
			"\xf4\x8f\xbf":         "3|EOF",
			"\xe0\xa0":             "2|EOF",
			"\xef\xbf\xbd\x80\x80": "3|U+FFFD",
		} {
			r, used, status := demoDecode([]byte(rec), 0)
			got := fmt.Sprintf("%d|%s", used, map[int]string{demoOK: fmt.Sprintf("%U", r), demoInvalid: "invalid", demoEOF: "EOF"}[status])
			if got != want {
				t.Errorf("demoDecode(%q) = %s, want %s", rec, got, want)
			}
		}
	})
}
