package golang

import (
	"fmt"
	"go/ast"
	"go/importer"
	"go/parser"
	"go/token"
	"go/types"
	"os"
	"path/filepath"
	"sort"
	"strconv"
	"strings"
	"testing"

	"github.com/gardenbed/charm/ui"
	auto "github.com/moorara/algo/automata"

	"github.com/gardenbed/emerge/internal/ebnf/parser/spec"
)

// The demo specifications. Every one of them is accepted by Spec.DFA.
var demoSpecs = []struct {
	name string
	defs []*spec.TerminalDef
	// The terminals that are expected to own no state of the automaton.
	stateless []string
	// The expected body of the switch statement in evalDFA, and in advanceDFA (empty means not pinned down).
	evalGolden, advanceGolden string
}{
	{
		name: "Empty",
		defs: []*spec.TerminalDef{},
		evalGolden: "\tswitch state {\n" +
			"\t}\n",
		advanceGolden: "\tswitch state {\n" +
			"\t}\n",
	},
	{
		name: "SingleChar",
		defs: []*spec.TerminalDef{
			{Terminal: "+", Value: "+"},
		},
		evalGolden: "\tswitch state {\n" +
			"\tcase 1:\n" +
			"\t\tlexeme, pos := l.in.Lexeme()\n" +
			"\t\treturn Token{Terminal: Terminal(\"+\"), Lexeme: lexeme, Pos: pos}\n" +
			"\n" +
			"\t}\n",
		advanceGolden: "\tswitch state {\n" +
			"\tcase 0:\n" +
			"\t\tswitch r {\n" +
			"\t\tcase '+':\n" +
			"\t\t\treturn 1\n" +
			"\t\t}\n" +
			"\n" +
			"\t}\n",
	},
	{
		name: "IdentifiersAndNumbers",
		defs: []*spec.TerminalDef{
			{Terminal: "ID", Value: "[A-Za-z_][0-9A-Za-z_]*", IsRegex: true},
			{Terminal: "NUM", Value: "[0-9]+", IsRegex: true},
		},
	},
	{
		name: "EscapedSymbols",
		defs: []*spec.TerminalDef{
			{Terminal: "QUOTE", Value: "\""},
			{Terminal: "APOS", Value: "'"},
			{Terminal: "BACKSLASH", Value: "\\"},
			{Terminal: "TAB", Value: "\t"},
			{Terminal: "BELL", Value: "\a"},
			{Terminal: "DEL", Value: "\x7f"},
			{Terminal: "ARROW", Value: "→"},
			{Terminal: "WORLD", Value: "世界"},
			{Terminal: "NBSP", Value: "\u00a0"},
			{Terminal: "EMOJI", Value: "\U0001F600"},
		},
		advanceGolden: "\tswitch state {\n" +
			"\tcase 0:\n" +
			"\t\tswitch r {\n" +
			"\t\tcase '\\a':\n\t\t\treturn 1\n" +
			"\t\tcase '\\t':\n\t\t\treturn 2\n" +
			"\t\tcase '\"':\n\t\t\treturn 3\n" +
			"\t\tcase '\\'':\n\t\t\treturn 4\n" +
			"\t\tcase '\\\\':\n\t\t\treturn 5\n" +
			"\t\tcase '\\x7f':\n\t\t\treturn 6\n" +
			"\t\tcase '\\u00a0':\n\t\t\treturn 7\n" +
			"\t\tcase '→':\n\t\t\treturn 8\n" +
			"\t\tcase '世':\n\t\t\treturn 9\n" +
			"\t\tcase '😀':\n\t\t\treturn 10\n" +
			"\t\t}\n" +
			"\n" +
			"\tcase 9:\n" +
			"\t\tswitch r {\n" +
			"\t\tcase '界':\n\t\t\treturn 11\n" +
			"\t\t}\n" +
			"\n" +
			"\t}\n",
		evalGolden: "\tswitch state {\n" +
			demoEvalClause("3", `"QUOTE"`) +
			demoEvalClause("4", `"APOS"`) +
			demoEvalClause("5", `"BACKSLASH"`) +
			demoEvalClause("2", `"TAB"`) +
			demoEvalClause("1", `"BELL"`) +
			demoEvalClause("6", `"DEL"`) +
			demoEvalClause("8", `"ARROW"`) +
			demoEvalClause("11", `"WORLD"`) +
			demoEvalClause("7", `"NBSP"`) +
			demoEvalClause("10", `"EMOJI"`) +
			"\t}\n",
	},
	{
		name: "EscapedTerminalNames",
		defs: []*spec.TerminalDef{
			{Terminal: "\"", Value: "a"},
			{Terminal: "\\", Value: "b"},
			{Terminal: "x\ny", Value: "c"},
			{Terminal: "→", Value: "d"},
			{Terminal: "`", Value: "e"},
			{Terminal: "\x01", Value: "f"},
			{Terminal: "{{.}}", Value: "g"},
		},
		evalGolden: "\tswitch state {\n" +
			"\tcase 1:\n" +
			"\t\tlexeme, pos := l.in.Lexeme()\n" +
			"\t\treturn Token{Terminal: Terminal(\"\\\"\"), Lexeme: lexeme, Pos: pos}\n" +
			"\n" +
			"\tcase 2:\n" +
			"\t\tlexeme, pos := l.in.Lexeme()\n" +
			"\t\treturn Token{Terminal: Terminal(\"\\\\\"), Lexeme: lexeme, Pos: pos}\n" +
			"\n" +
			"\tcase 3:\n" +
			"\t\tlexeme, pos := l.in.Lexeme()\n" +
			"\t\treturn Token{Terminal: Terminal(\"x\\ny\"), Lexeme: lexeme, Pos: pos}\n" +
			"\n" +
			"\tcase 4:\n" +
			"\t\tlexeme, pos := l.in.Lexeme()\n" +
			"\t\treturn Token{Terminal: Terminal(\"→\"), Lexeme: lexeme, Pos: pos}\n" +
			"\n" +
			"\tcase 5:\n" +
			"\t\tlexeme, pos := l.in.Lexeme()\n" +
			"\t\treturn Token{Terminal: Terminal(\"`\"), Lexeme: lexeme, Pos: pos}\n" +
			"\n" +
			"\tcase 6:\n" +
			"\t\tlexeme, pos := l.in.Lexeme()\n" +
			"\t\treturn Token{Terminal: Terminal(\"\\x01\"), Lexeme: lexeme, Pos: pos}\n" +
			"\n" +
			"\tcase 7:\n" +
			"\t\tlexeme, pos := l.in.Lexeme()\n" +
			"\t\treturn Token{Terminal: Terminal(\"{{.}}\"), Lexeme: lexeme, Pos: pos}\n" +
			"\n" +
			"\t}\n",
	},
	{
		// The keyword captures the only string of the regular expression, which is left with no state.
		name: "StatelessTerminalFirst",
		defs: []*spec.TerminalDef{
			{Terminal: "SHADOWED", Value: "if", IsRegex: true},
			{Terminal: "IF", Value: "if"},
			{Terminal: "ID", Value: "[a-z]+", IsRegex: true},
		},
		stateless: []string{"SHADOWED"},
	},
	{
		name: "StatelessTerminalLastAndMiddle",
		defs: []*spec.TerminalDef{
			{Terminal: "IF", Value: "if"},
			{Terminal: "MIDDLE", Value: "if", IsRegex: true},
			{Terminal: "NUM", Value: "[0-9]+", IsRegex: true},
			{Terminal: "LAST", Value: "if", IsRegex: true},
		},
		stateless: []string{"MIDDLE", "LAST"},
		evalGolden: "\tswitch state {\n" +
			demoEvalClause("3", `"IF"`) +
			demoEvalClause("1", `"NUM"`) +
			"\t}\n",
		advanceGolden: "\tswitch state {\n" +
			"\tcase 0:\n" +
			"\t\tswitch r {\n" +
			"\t\tcase '0', '1', '2', '3', '4', '5', '6', '7', '8', '9':\n\t\t\treturn 1\n" +
			"\t\tcase 'i':\n\t\t\treturn 2\n" +
			"\t\t}\n" +
			"\n" +
			"\tcase 1:\n" +
			"\t\tswitch r {\n" +
			"\t\tcase '0', '1', '2', '3', '4', '5', '6', '7', '8', '9':\n\t\t\treturn 1\n" +
			"\t\t}\n" +
			"\n" +
			"\tcase 2:\n" +
			"\t\tswitch r {\n" +
			"\t\tcase 'f':\n\t\t\treturn 3\n" +
			"\t\t}\n" +
			"\n" +
			"\t}\n",
	},
	{
		name: "OnlyStatelessBesidesOne",
		defs: []*spec.TerminalDef{
			{Terminal: "A", Value: "x", IsRegex: true},
			{Terminal: "B", Value: "x"},
		},
		stateless: []string{"A"},
		evalGolden: "\tswitch state {\n" +
			"\tcase 1:\n" +
			"\t\tlexeme, pos := l.in.Lexeme()\n" +
			"\t\treturn Token{Terminal: Terminal(\"B\"), Lexeme: lexeme, Pos: pos}\n" +
			"\n" +
			"\t}\n",
	},
	{
		// Keywords that share prefixes with each other and with the identifiers; many accepting states per terminal.
		name: "KeywordsAndOperators",
		defs: []*spec.TerminalDef{
			{Terminal: "if", Value: "if"},
			{Terminal: "int", Value: "int"},
			{Terminal: "import", Value: "import"},
			{Terminal: "=", Value: "="},
			{Terminal: "==", Value: "=="},
			{Terminal: "=>", Value: "=>"},
			{Terminal: "ID", Value: "[a-z][a-z0-9]*", IsRegex: true},
			{Terminal: "NUM", Value: "[0-9]+(\\.[0-9]+)?", IsRegex: true},
			{Terminal: "STR", Value: "\"[a-z ]*\"", IsRegex: true},
		},
		evalGolden: "\tswitch state {\n" +
			demoEvalClause("10", `"if"`) +
			demoEvalClause("15", `"int"`) +
			demoEvalClause("18", `"import"`) +
			demoEvalClause("3", `"="`) +
			demoEvalClause("8", `"=="`) +
			demoEvalClause("9", `"=>"`) +
			demoEvalClause("4, 5, 11, 12, 14, 16, 17", `"ID"`) +
			demoEvalClause("2, 13", `"NUM"`) +
			demoEvalClause("6", `"STR"`) +
			"\t}\n",
	},
}

// demoEvalClause is the expected text of one clause of evalDFA, for the list of states and the quoted terminal.
func demoEvalClause(states, quoted string) string {
	return "\tcase " + states + ":\n" +
		"\t\tlexeme, pos := l.in.Lexeme()\n" +
		"\t\treturn Token{Terminal: Terminal(" + quoted + "), Lexeme: lexeme, Pos: pos}\n" +
		"\n"
}

// demoGenerate runs the lexer generator (together with the core types) for the definitions and
// returns the directory of the emitted package.
func demoGenerate(t *testing.T, defs []*spec.TerminalDef) (*generator, string) {
	t.Helper()

	g := &generator{
		UI: ui.NewNop(),
		Params: &Params{
			Path: t.TempDir(),
			Spec: &spec.Spec{Name: "demo", Definitions: defs},
		},
	}

	if err := g.prepare(); err != nil {
		t.Fatalf("prepare: %s", err)
	}

	if err := g.generateCore(); err != nil {
		t.Fatalf("generateCore: %s", err)
	}

	if err := g.generateLexer(); err != nil {
		t.Fatalf("generateLexer: %s", err)
	}

	return g, filepath.Join(g.Path, "demo")
}

// demoFuncDecl finds a function or a method of the emitted lexer by name.
func demoFuncDecl(t *testing.T, file *ast.File, name string) *ast.FuncDecl {
	t.Helper()

	for _, decl := range file.Decls {
		if fn, ok := decl.(*ast.FuncDecl); ok && fn.Name.Name == name {
			return fn
		}
	}

	t.Fatalf("function %s not found in the emitted lexer", name)
	return nil
}

// demoSwitchSource returns the source text of the first statement of the function, from the beginning of its line.
func demoSwitchSource(t *testing.T, fset *token.FileSet, src []byte, fn *ast.FuncDecl) string {
	t.Helper()

	sw, ok := fn.Body.List[0].(*ast.SwitchStmt)
	if !ok {
		t.Fatalf("%s does not begin with a switch statement", fn.Name.Name)
	}

	from, to := fset.Position(sw.Pos()).Offset, fset.Position(sw.End()).Offset
	return "\t" + string(src[from:to]) + "\n"
}

type demoEdge struct {
	state int
	char  rune
}

// demoReadAdvance interprets the emitted advanceDFA function as a table.
func demoReadAdvance(t *testing.T, fn *ast.FuncDecl) map[demoEdge]int {
	t.Helper()

	table := map[demoEdge]int{}
	outer := fn.Body.List[0].(*ast.SwitchStmt)

	if id, ok := outer.Tag.(*ast.Ident); !ok || id.Name != "state" {
		t.Fatalf("advanceDFA does not switch on the state")
	}

	if len(fn.Body.List) != 2 {
		t.Fatalf("advanceDFA has %d statements, expected 2", len(fn.Body.List))
	}

	if ret, ok := fn.Body.List[1].(*ast.ReturnStmt); !ok || ret.Results[0].(*ast.Ident).Name != "errorState" {
		t.Fatalf("advanceDFA does not end with returning the error state")
	}

	for _, stmt := range outer.Body.List {
		clause := stmt.(*ast.CaseClause)
		if len(clause.List) != 1 || len(clause.Body) != 1 {
			t.Fatalf("unexpected shape of a state clause in advanceDFA")
		}

		state, err := strconv.Atoi(clause.List[0].(*ast.BasicLit).Value)
		if err != nil {
			t.Fatal(err)
		}

		inner := clause.Body[0].(*ast.SwitchStmt)
		if id, ok := inner.Tag.(*ast.Ident); !ok || id.Name != "r" {
			t.Fatalf("advanceDFA does not switch on the character")
		}

		for _, stmt := range inner.Body.List {
			clause := stmt.(*ast.CaseClause)
			if len(clause.List) == 0 || len(clause.Body) != 1 {
				t.Fatalf("unexpected shape of a character clause in advanceDFA")
			}

			next, err := strconv.Atoi(clause.Body[0].(*ast.ReturnStmt).Results[0].(*ast.BasicLit).Value)
			if err != nil {
				t.Fatal(err)
			}

			for _, expr := range clause.List {
				lit := expr.(*ast.BasicLit)
				if lit.Kind != token.CHAR {
					t.Fatalf("%s is not a character literal", lit.Value)
				}

				char, _, _, err := strconv.UnquoteChar(lit.Value[1:len(lit.Value)-1], '\'')
				if err != nil {
					t.Fatal(err)
				}

				edge := demoEdge{state, char}
				if _, ok := table[edge]; ok {
					t.Fatalf("advanceDFA has two entries for %v", edge)
				}

				table[edge] = next
			}
		}
	}

	return table
}

// demoReadEval interprets the emitted evalDFA function as a table.
func demoReadEval(t *testing.T, fn *ast.FuncDecl) map[int]string {
	t.Helper()

	table := map[int]string{}
	sw := fn.Body.List[0].(*ast.SwitchStmt)

	if id, ok := sw.Tag.(*ast.Ident); !ok || id.Name != "state" {
		t.Fatalf("evalDFA does not switch on the state")
	}

	for _, stmt := range sw.Body.List {
		clause := stmt.(*ast.CaseClause)
		if len(clause.List) == 0 || len(clause.Body) != 2 {
			t.Fatalf("unexpected shape of a clause in evalDFA")
		}

		// return Token{Terminal: Terminal("..."), Lexeme: lexeme, Pos: pos}
		lit := clause.Body[1].(*ast.ReturnStmt).Results[0].(*ast.CompositeLit)
		kv := lit.Elts[0].(*ast.KeyValueExpr)
		if kv.Key.(*ast.Ident).Name != "Terminal" {
			t.Fatalf("unexpected first field of the token in evalDFA")
		}

		call := kv.Value.(*ast.CallExpr)
		if call.Fun.(*ast.Ident).Name != "Terminal" || len(call.Args) != 1 {
			t.Fatalf("unexpected terminal conversion in evalDFA")
		}

		term, err := strconv.Unquote(call.Args[0].(*ast.BasicLit).Value)
		if err != nil {
			t.Fatal(err)
		}

		for _, expr := range clause.List {
			state, err := strconv.Atoi(expr.(*ast.BasicLit).Value)
			if err != nil {
				t.Fatal(err)
			}

			if _, ok := table[state]; ok {
				t.Fatalf("evalDFA has two entries for the state %d", state)
			}

			table[state] = term
		}
	}

	return table
}

// TestRefactorDemo_EmittedLexer generates the lexer for every demo specification, checks that the emitted package
// is valid Go that type-checks with the standard library only, and compares the emitted tables with the automaton.
func TestRefactorDemo_EmittedLexer(t *testing.T) {
	for _, tc := range demoSpecs {
		t.Run(tc.name, func(t *testing.T) {
			g, dir := demoGenerate(t, tc.defs)

			// The emitted package parses and type-checks; the only imports are from the standard library.
			fset := token.NewFileSet()
			pkgs, err := parser.ParseDir(fset, dir, nil, parser.AllErrors)
			if err != nil {
				t.Fatalf("emitted package does not parse: %s", err)
			}

			var files []*ast.File
			var lexer *ast.File
			for name, file := range pkgs["demo"].Files {
				files = append(files, file)
				if filepath.Base(name) == "lexer.go" {
					lexer = file
				}

				for _, imp := range file.Imports {
					if path, _ := strconv.Unquote(imp.Path.Value); strings.Contains(path, ".") {
						t.Errorf("%s imports %s", name, path)
					}
				}
			}

			conf := types.Config{Importer: importer.ForCompiler(fset, "source", nil)}
			if _, err := conf.Check("demo", fset, files, nil); err != nil {
				t.Fatalf("emitted package does not type-check: %s", err)
			}

			src, err := os.ReadFile(filepath.Join(dir, "lexer.go"))
			if err != nil {
				t.Fatal(err)
			}

			advanceFn, evalFn := demoFuncDecl(t, lexer, "advanceDFA"), demoFuncDecl(t, lexer, "evalDFA")

			// The automaton computed by emerge.
			dfa, termMap, err := g.Spec.DFA()
			if err != nil {
				t.Fatal(err)
			}

			// The transition function is identical to the one of the automaton.
			expectedAdvance := map[demoEdge]int{}
			for tr := range dfa.Transitions() {
				expectedAdvance[demoEdge{int(tr.State), rune(tr.Symbol)}] = int(tr.Next)
			}

			advance := demoReadAdvance(t, advanceFn)
			if len(advance) != len(expectedAdvance) {
				t.Errorf("advanceDFA has %d entries, the automaton has %d transitions", len(advance), len(expectedAdvance))
			}

			for edge, next := range expectedAdvance {
				if got, ok := advance[edge]; !ok || got != next {
					t.Errorf("advanceDFA(%d, %q) = %d (%t), expected %d", edge.state, edge.char, got, ok, next)
				}
			}

			// The accepting-state table is identical to the one of the automaton.
			expectedEval := map[int]string{}
			for term, states := range termMap {
				for _, s := range states {
					expectedEval[int(s)] = string(term)
				}
			}

			eval := demoReadEval(t, evalFn)
			if len(eval) != len(expectedEval) {
				t.Errorf("evalDFA has %d entries, the automaton has %d accepting states", len(eval), len(expectedEval))
			}

			for state, term := range expectedEval {
				if got, ok := eval[state]; !ok || got != term {
					t.Errorf("evalDFA(%d) = %q (%t), expected %q", state, got, ok, term)
				}
			}

			// Only the final states of the automaton are accepting.
			for state := range eval {
				if !dfa.Final.Contains(auto.State(state)) {
					t.Errorf("evalDFA accepts the state %d, which is not final", state)
				}
			}

			// The clauses of evalDFA follow the order of the definitions, the terminals with no state are left out.
			var expectedOrder, order []string
			for _, def := range tc.defs {
				if len(termMap[def.Terminal]) > 0 {
					expectedOrder = append(expectedOrder, string(def.Terminal))
				}
			}

			for _, stmt := range evalFn.Body.List[0].(*ast.SwitchStmt).Body.List {
				states := stmt.(*ast.CaseClause).List
				first, _ := strconv.Atoi(states[0].(*ast.BasicLit).Value)
				order = append(order, eval[first])

				// The states of a clause are in ascending order.
				if !sort.SliceIsSorted(states, func(i, j int) bool {
					a, _ := strconv.Atoi(states[i].(*ast.BasicLit).Value)
					b, _ := strconv.Atoi(states[j].(*ast.BasicLit).Value)
					return a < b
				}) {
					t.Errorf("the states of %q are not sorted", eval[first])
				}
			}

			if fmt.Sprint(order) != fmt.Sprint(expectedOrder) {
				t.Errorf("evalDFA clauses are for %q, expected %q", order, expectedOrder)
			}

			var stateless []string
			for _, def := range tc.defs {
				if len(termMap[def.Terminal]) == 0 {
					stateless = append(stateless, string(def.Terminal))
				}
			}

			if fmt.Sprint(stateless) != fmt.Sprint(tc.stateless) {
				t.Errorf("terminals with no state are %q, expected %q", stateless, tc.stateless)
			}

			for _, term := range tc.stateless {
				if strings.Contains(string(src), strconv.Quote(term)) {
					t.Errorf("the emitted lexer mentions %q, which owns no state", term)
				}
			}

			// The exact bytes of the two tables.
			if tc.evalGolden != "" {
				if got := demoSwitchSource(t, fset, src, evalFn); got != tc.evalGolden {
					t.Errorf("evalDFA switch is\n%s\nexpected\n%s", got, tc.evalGolden)
				}
			}

			if tc.advanceGolden != "" {
				if got := demoSwitchSource(t, fset, src, advanceFn); got != tc.advanceGolden {
					t.Errorf("advanceDFA switch is\n%s\nexpected\n%s", got, tc.advanceGolden)
				}
			}
		})
	}
}

// TestRefactorDemo_Deterministic checks that generating twice gives the same bytes.
func TestRefactorDemo_Deterministic(t *testing.T) {
	for _, tc := range demoSpecs {
		t.Run(tc.name, func(t *testing.T) {
			_, dir1 := demoGenerate(t, tc.defs)
			_, dir2 := demoGenerate(t, tc.defs)

			src1, err := os.ReadFile(filepath.Join(dir1, "lexer.go"))
			if err != nil {
				t.Fatal(err)
			}

			src2, err := os.ReadFile(filepath.Join(dir2, "lexer.go"))
			if err != nil {
				t.Fatal(err)
			}

			if string(src1) != string(src2) {
				t.Errorf("two runs of the generator emitted different lexers")
			}
		})
	}
}

func TestRefactorDemo_FormatInts(t *testing.T) {
	tests := []struct {
		vals     []int
		expected string
	}{
		{nil, ""},
		{[]int{}, ""},
		{[]int{0}, "0"},
		{[]int{7}, "7"},
		{[]int{1, 2}, "1, 2"},
		{[]int{3, 1, 2}, "3, 1, 2"},
		{[]int{-1, 0, 10, 100, 4096}, "-1, 0, 10, 100, 4096"},
		{[]int{5, 5}, "5, 5"},
	}

	for _, tc := range tests {
		if got := formatInts(tc.vals); got != tc.expected {
			t.Errorf("formatInts(%v) = %q, expected %q", tc.vals, got, tc.expected)
		}
	}
}

func TestRefactorDemo_FormatRunes(t *testing.T) {
	tests := []struct {
		runes    []rune
		expected string
	}{
		{nil, ""},
		{[]rune{}, ""},
		{[]rune{'a'}, `'a'`},
		{[]rune{'a', 'b', 'c'}, `'a', 'b', 'c'`},
		{[]rune{'\''}, `'\''`},
		{[]rune{'"'}, `'"'`},
		{[]rune{'\\'}, `'\\'`},
		{[]rune{','}, `','`},
		{[]rune{' ', ','}, `' ', ','`},
		{[]rune{'\n', '\t', '\r'}, `'\n', '\t', '\r'`},
		{[]rune{'\a', '\b', '\f', '\v'}, `'\a', '\b', '\f', '\v'`},
		{[]rune{0, 0x1f, 0x7f}, `'\x00', '\x1f', '\x7f'`},
		{[]rune{0x80, 0xa0, 0xad}, `'\u0080', '\u00a0', '\u00ad'`},
		{[]rune{'é', '→', '世'}, `'é', '→', '世'`},
		{[]rune{0x2028, 0xfeff}, `'\u2028', '\ufeff'`},
		{[]rune{0x1F600, 0x10FFFF}, `'😀', '\U0010ffff'`},
		{[]rune{0xD800, 0x110000, -1}, `'�', '�', '�'`},
	}

	for _, tc := range tests {
		if got := formatRunes(tc.runes); got != tc.expected {
			t.Errorf("formatRunes(%q) = %s, expected %s", tc.runes, got, tc.expected)
		}
	}
}
