package spec

import (
	"fmt"
	"sort"
	"strings"
	"testing"

	auto "github.com/moorara/algo/automata"
	"github.com/moorara/algo/grammar"
	"github.com/moorara/algo/lexer"
)

// Characterization of Spec.DFA (property C03): the combined scanner automaton recognises the union of the definitions,
// every accepting state belongs to the one terminal that must win there, and conflicts are reported iff they are real.
// All the expectations below are concrete and hold both before and after the refactoring of Spec.DFA.

func demoPos(line int) *lexer.Position {
	return &lexer.Position{Filename: "demo", Offset: 10 * line, Line: line, Column: 1}
}

func demoLit(name, value string, line int) *TerminalDef {
	return &TerminalDef{Terminal: grammar.Terminal(name), Value: value, IsRegex: false, Pos: demoPos(line)}
}

func demoRe(name, value string, line int) *TerminalDef {
	return &TerminalDef{Terminal: grammar.Terminal(name), Value: value, IsRegex: true, Pos: demoPos(line)}
}

// demoScan runs the whole input through the automaton and returns the terminals owning the state reached.
// The result is "" if the input is not accepted, and the names joined by "|" otherwise.
func demoScan(d *auto.DFA, termMap map[grammar.Terminal][]auto.State, input string) string {
	curr := d.Start
	for _, r := range input {
		if curr = d.Next(curr, auto.Symbol(r)); curr == auto.State(-1) {
			return ""
		}
	}

	if !d.Final.Contains(curr) {
		return ""
	}

	var owners []string
	for a, states := range termMap {
		for _, s := range states {
			if s == curr {
				owners = append(owners, string(a))
			}
		}
	}

	if len(owners) == 0 {
		return "<final state without terminal>"
	}

	sort.Strings(owners)
	return strings.Join(owners, "|")
}

func demoMapString(termMap map[grammar.Terminal][]auto.State) string {
	if termMap == nil {
		return "<nil>"
	}

	keys := make([]string, 0, len(termMap))
	for a := range termMap {
		keys = append(keys, string(a))
	}
	sort.Strings(keys)

	parts := make([]string, len(keys))
	for i, k := range keys {
		parts[i] = fmt.Sprintf("%s=%v", k, termMap[grammar.Terminal(k)])
	}

	return strings.Join(parts, " ")
}

func demoBullets(items ...string) string {
	var b strings.Builder
	if len(items) == 1 {
		b.WriteString("1 error occurred:\n\n")
	} else {
		fmt.Fprintf(&b, "%d errors occurred:\n\n", len(items))
	}

	for _, item := range items {
		for i, line := range strings.Split(item, "\n") {
			if i == 0 {
				fmt.Fprintf(&b, "  • %s\n", line)
			} else {
				fmt.Fprintf(&b, "    %s\n", line)
			}
		}
	}

	return b.String()
}

func demoConflict(lines ...string) string {
	return "conflicting definitions capture the same string:\n  " + strings.Join(lines, "\n  ")
}

func TestRefactorDemo_SpecDFA(t *testing.T) {
	tests := []struct {
		name    string
		defs    []*TerminalDef
		wantErr string            // exact error text, "" for success
		wantMap string            // rendered terminal mapping, for success
		scans   map[string]string // input --> owning terminal ("" when rejected), for success
	}{
		{
			name:    "SingleLiteral",
			defs:    []*TerminalDef{demoLit("if", "if", 1)},
			wantMap: `if=[2]`,
			scans:   map[string]string{"if": "if", "i": "", "": "", "iff": "", "f": "", "IF": ""},
		},
		{
			name:    "SingleRegex",
			defs:    []*TerminalDef{demoRe("NUM", "[0-9]+", 1)},
			wantMap: `NUM=[1]`,
			scans:   map[string]string{"0": "NUM", "2024": "NUM", "": "", "a": "", "1a": "", "-1": ""},
		},
		{
			name: "LiteralDenotesItsOwnCharacters",
			defs: []*TerminalDef{
				demoLit("PLUS", "a+b", 1),
				demoLit("STAR", ".*", 2),
				demoLit("CLASS", "[0-9]", 3),
				demoLit("BSLASH", `x\y`, 4),
				demoLit("NL", "\n", 5),
				demoLit("QUOTE", `"`, 6),
			},
			wantMap: `BSLASH=[13] CLASS=[15] NL=[1] PLUS=[12] QUOTE=[2] STAR=[7]`,
			scans: map[string]string{
				"a+b": "PLUS", "aab": "", "ab": "", "aa+b": "",
				".*": "STAR", "zz": "", ".": "", "": "",
				"[0-9]": "CLASS", "5": "",
				`x\y`: "BSLASH", "xy": "", `x\\y`: "",
				"\n": "NL", `\n`: "", "n": "",
				`"`: "QUOTE", `\"`: "",
			},
		},
		{
			name: "KeywordBeatsIdentifier",
			defs: []*TerminalDef{
				demoLit("if", "if", 1),
				demoLit("else", "else", 2),
				demoRe("ID", "[a-z]+", 3),
				demoRe("NUM", "[0-9]+", 4),
			},
			wantMap: `ID=[2 3 4 5 7] NUM=[1] else=[8] if=[6]`,
			scans: map[string]string{
				"if": "if", "else": "else", "i": "ID", "iff": "ID", "els": "ID", "elsee": "ID", "e": "ID", "x": "ID",
				"42": "NUM", "": "", "if0": "", "0if": "", "IF": "",
			},
		},
		{
			name: "DefinitionOrderDoesNotChangeTheWinner",
			defs: []*TerminalDef{
				demoRe("ID", "[a-z]+", 1),
				demoRe("NUM", "[0-9]+", 2),
				demoLit("else", "else", 3),
				demoLit("if", "if", 4),
			},
			wantMap: `ID=[2 3 4 5 7] NUM=[1] else=[8] if=[6]`,
			scans:   map[string]string{"if": "if", "else": "else", "iff": "ID", "el": "ID", "7": "NUM", "": ""},
		},
		{
			name: "LiteralBeatsSeveralPatterns",
			defs: []*TerminalDef{
				demoRe("AB", "[ab]", 1),
				demoLit("B", "b", 2),
				demoRe("BC", "[bc]", 3),
			},
			wantMap: `AB=[1] B=[2] BC=[3]`,
			scans:   map[string]string{"a": "AB", "b": "B", "c": "BC", "d": "", "": "", "bb": "", "ab": ""},
		},
		{
			name: "DisjointPatterns",
			defs: []*TerminalDef{
				demoRe("LOWER", "[a-z]+", 1),
				demoRe("UPPER", "[A-Z]+", 2),
				demoRe("MIXED", "[a-z]+[A-Z]+", 3),
			},
			wantMap: `LOWER=[2] MIXED=[3] UPPER=[1]`,
			scans:   map[string]string{"abc": "LOWER", "ABC": "UPPER", "abC": "MIXED", "aBc": "", "Ab": "", "": ""},
		},
		{
			name: "UnicodeLiteralAndPattern",
			defs: []*TerminalDef{
				demoLit("ARROW", "→", 1),
				demoLit("LAMBDA", "λx", 2),
				demoRe("ID", "[a-z]+", 3),
			},
			wantMap: `ARROW=[3] ID=[1] LAMBDA=[4]`,
			scans:   map[string]string{"→": "ARROW", "λx": "LAMBDA", "λ": "", "x": "ID", "\xe2": "", "": ""},
		},
		{
			name: "SameTerminalFromDisjointDefinitions",
			defs: []*TerminalDef{
				demoLit("OP", "+", 1),
				demoLit("OP", "-", 2),
				demoRe("OP", `\*|/`, 3),
			},
			wantMap: `OP=[1 2 3]`,
			scans:   map[string]string{"+": "OP", "-": "OP", "*": "OP", "/": "OP", "+-": "", "": ""},
		},
		{
			name: "TwoPatternsSameLanguage",
			defs: []*TerminalDef{
				demoRe("NUM", "[0-9]+", 2),
				demoRe("INT", "[0-9]+", 3),
			},
			wantErr: demoBullets(demoConflict(`demo:2:1: "NUM"`, `demo:3:1: "INT"`)),
		},
		{
			name: "ThreePatternsListedInDefinitionOrder",
			defs: []*TerminalDef{
				demoRe("C", "x+", 7),
				demoRe("A", "x+", 8),
				demoRe("B", "xx*", 9),
			},
			wantErr: demoBullets(demoConflict(`demo:7:1: "C"`, `demo:8:1: "A"`, `demo:9:1: "B"`)),
		},
		{
			name: "PartialOverlapIsAConflict",
			defs: []*TerminalDef{
				demoRe("ABC", "[a-c]+", 1),
				demoRe("BCD", "[b-d]+", 2),
			},
			wantErr: demoBullets(demoConflict(`demo:1:1: "ABC"`, `demo:2:1: "BCD"`)),
		},
		{
			name: "LiteralDoesNotExcuseAnotherOverlap",
			defs: []*TerminalDef{
				demoLit("if", "if", 1),
				demoRe("ID", "[a-z]+", 2),
				demoRe("WORD", "[a-z][a-z][a-z]+", 3),
			},
			wantErr: demoBullets(demoConflict(`demo:2:1: "ID"`, `demo:3:1: "WORD"`)),
		},
		{
			name: "TwoLiteralsSameText",
			defs: []*TerminalDef{
				demoLit("PLUS", "+", 4),
				demoLit("ADD", "+", 5),
			},
			wantErr: demoBullets(demoConflict(`demo:4:1: "PLUS"`, `demo:5:1: "ADD"`)),
		},
		{
			name: "TwoLiteralsAndAPattern",
			defs: []*TerminalDef{
				demoLit("PLUS", "+", 4),
				demoRe("OP", `\+|\*`, 5),
				demoLit("ADD", "+", 6),
			},
			wantErr: demoBullets(demoConflict(`demo:4:1: "PLUS"`, `demo:5:1: "OP"`, `demo:6:1: "ADD"`)),
		},
		{
			name: "SameTerminalTwiceStillConflicts",
			defs: []*TerminalDef{
				demoRe("NUM", "[0-9]+", 1),
				demoRe("NUM", "[0-7]+", 2),
			},
			wantErr: demoBullets(demoConflict(`demo:1:1: "NUM"`, `demo:2:1: "NUM"`)),
		},
		{
			name: "ConflictWithoutPositions",
			defs: []*TerminalDef{
				{Terminal: "P", Value: "p+", IsRegex: true},
				{Terminal: "Q", Value: "p+", IsRegex: true, Pos: &lexer.Position{Offset: 33}},
			},
			wantErr: demoBullets(demoConflict(`<nil>: "P"`, `33: "Q"`)),
		},
		{
			name: "SeveralConflictsInAscendingStateOrder",
			defs: []*TerminalDef{
				demoRe("D1", "[0-9]", 1),
				demoRe("D2", "[0-9]", 2),
				demoRe("L1", "[a-z][a-z]", 3),
				demoRe("L2", "[a-z][a-z]", 4),
				demoLit("kw", "kw", 5),
			},
			wantErr: demoBullets(
				demoConflict(`demo:1:1: "D1"`, `demo:2:1: "D2"`),
				demoConflict(`demo:3:1: "L1"`, `demo:4:1: "L2"`),
			),
		},
		{
			name: "InvalidPattern",
			defs: []*TerminalDef{
				demoRe("ID", "[A-Z", 1),
			},
			wantErr: demoBullets(`"ID": invalid regular expression: [A-Z`),
		},
		{
			name: "InvalidPatternsReportedInDefinitionOrderBeforeAnyConflict",
			defs: []*TerminalDef{
				demoRe("NUM", "[0-9]+", 1),
				demoRe("BAD2", "[0-9", 2),
				demoRe("INT", "[0-9]+", 3),
				demoLit("x", "x", 4),
				demoRe("BAD1", "(a", 5),
			},
			wantErr: demoBullets(
				`"BAD2": invalid regular expression: [0-9`,
				`"BAD1": invalid regular expression: (a`,
			),
		},
	}

	for _, tc := range tests {
		t.Run(tc.name, func(t *testing.T) {
			// The final states are sorted by a randomized quick sort: the result must be the same every time.
			for round := 0; round < 5; round++ {
				s := &Spec{Name: "demo", Definitions: tc.defs}
				d, termMap, err := s.DFA()

				if tc.wantErr != "" {
					if err == nil {
						t.Fatalf("expected an error, got mapping %s", demoMapString(termMap))
					}
					if err.Error() != tc.wantErr {
						t.Fatalf("unexpected error text\n got: %q\nwant: %q", err.Error(), tc.wantErr)
					}
					if d != nil || termMap != nil {
						t.Fatalf("expected nil results along with the error")
					}
					continue
				}

				if err != nil {
					t.Fatalf("unexpected error: %s", err)
				}
				if got := demoMapString(termMap); got != tc.wantMap {
					t.Fatalf("unexpected terminal mapping\n got: %s\nwant: %s", got, tc.wantMap)
				}

				// Every final state is attributed to exactly one terminal, and nothing else is attributed.
				owned := map[auto.State]int{}
				for _, states := range termMap {
					for _, f := range states {
						owned[f]++
					}
				}
				for f := range d.Final.All() {
					if owned[f] != 1 {
						t.Fatalf("final state %d is attributed %d times", f, owned[f])
					}
				}
				if len(owned) != d.Final.Size() {
					t.Fatalf("%d states attributed, %d final states", len(owned), d.Final.Size())
				}

				for input, want := range tc.scans {
					if got := demoScan(d, termMap, input); got != want {
						t.Errorf("scan %q: got %q, want %q", input, got, want)
					}
				}
			}
		})
	}
}
