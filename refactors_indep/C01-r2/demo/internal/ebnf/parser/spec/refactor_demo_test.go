package spec

// Characterization test for the clean-up of the generated-name bookkeeping in symbol_table.go
// (GetGroup/GetOpt/GetStar/GetPlus and the naming helper behind them).
// It only goes through Parse, Spec.Productions and the exported SymbolTable methods,
// so it runs unchanged before and after the refactoring.

import (
	"sort"
	"strings"
	"testing"

	"github.com/moorara/algo/grammar"
	"github.com/stretchr/testify/assert"
)

// demoProductions parses an EBNF text and returns the derived productions, rendered and sorted.
func demoProductions(t *testing.T, src string) (*Spec, []string) {
	t.Helper()

	sp, err := Parse("demo", strings.NewReader(src))
	if !assert.NoError(t, err) {
		t.FailNow()
	}

	var lines []string
	for _, p := range sp.Productions() {
		lines = append(lines, p.String())
	}
	sort.Strings(lines)

	return sp, lines
}

// demoSentences enumerates every terminal string of at most max symbols derivable from the given symbol.
// It expands the leftmost non-terminal breadth-first and drops forms having more than max terminals
// or more than max+3 symbols overall (enough slack for the nullable helpers of the inputs below).
func demoSentences(sp *Spec, from grammar.NonTerminal, max int) []string {
	byHead := map[grammar.NonTerminal][]grammar.String[grammar.Symbol]{}
	for _, p := range sp.Productions() {
		byHead[p.Head] = append(byHead[p.Head], p.Body)
	}

	key := func(f grammar.String[grammar.Symbol]) string {
		parts := make([]string, len(f))
		for i, x := range f {
			if x.IsTerminal() {
				parts[i] = "t:" + x.Name()
			} else {
				parts[i] = "n:" + x.Name()
			}
		}
		return strings.Join(parts, " ")
	}

	found := map[string]bool{}
	seen := map[string]bool{}
	queue := []grammar.String[grammar.Symbol]{{from}}

	for len(queue) > 0 {
		form := queue[0]
		queue = queue[1:]

		terms, at := 0, -1
		for i, x := range form {
			if x.IsTerminal() {
				terms++
			} else if at < 0 {
				at = i
			}
		}

		if terms > max || len(form) > max+3 {
			continue
		}

		if at < 0 {
			words := make([]string, len(form))
			for i, x := range form {
				words[i] = x.Name()
			}
			found[strings.Join(words, " ")] = true
			continue
		}

		for _, body := range byHead[form[at].(grammar.NonTerminal)] {
			next := grammar.String[grammar.Symbol]{}
			next = append(next, form[:at]...)
			next = append(next, body...)
			next = append(next, form[at+1:]...)
			if k := key(next); !seen[k] {
				seen[k] = true
				queue = append(queue, next)
			}
		}
	}

	all := make([]string, 0, len(found))
	for w := range found {
		all = append(all, w)
	}
	sort.Strings(all)

	return all
}

// The expected productions were recorded from the code before the refactoring.
var demoCases = []struct {
	src  string
	want []string
}{
	{
		src: `grammar g; start = ["a"];`,
		want: []string{
			`gen1_opt → "a"`,
			`gen1_opt → ε`,
			`start → gen1_opt`,
		},
	},
	{
		src: `grammar g; start = {"a"} {{"a"}} ["a"] ("a");`,
		want: []string{
			`gen1_star → gen1_star "a"`,
			`gen1_star → ε`,
			`gen2_plus → "a"`,
			`gen2_plus → gen2_plus "a"`,
			`gen3_opt → "a"`,
			`gen3_opt → ε`,
			`gen4_group → "a"`,
			`start → gen1_star gen2_plus gen3_opt gen4_group`,
		},
	},
	{
		src: `grammar g; start = ["a"] ["a"] x; x = ["a"] | {"a"};`,
		want: []string{
			`gen1_opt → "a"`,
			`gen1_opt → ε`,
			`gen2_star → gen2_star "a"`,
			`gen2_star → ε`,
			`start → gen1_opt gen1_opt x`,
			`x → gen1_opt`,
			`x → gen2_star`,
		},
	},
	{
		src: `grammar g; start = ("a" | "b") ["a" | "b"] {"b" | "a"} {{"a" | "b"}};`,
		want: []string{
			`gen1_group → "a"`,
			`gen1_group → "b"`,
			`gen2_opt → "a"`,
			`gen2_opt → "b"`,
			`gen2_opt → ε`,
			`gen3_star → gen3_star "a"`,
			`gen3_star → gen3_star "b"`,
			`gen3_star → ε`,
			`gen4_plus → "a"`,
			`gen4_plus → "b"`,
			`gen4_plus → gen4_plus "a"`,
			`gen4_plus → gen4_plus "b"`,
			`start → gen1_group gen2_opt gen3_star gen4_plus`,
		},
	},
	{
		src: `grammar g; start = [["a"]] {{ {"a"} }} ({{"a" "b"}} | );`,
		want: []string{
			`gen1_opt → "a"`,
			`gen1_opt → ε`,
			`gen2_star → gen2_star "a"`,
			`gen2_star → ε`,
			`gen3_plus → "a" "b"`,
			`gen3_plus → gen3_plus "a" "b"`,
			`gen4_group → gen3_plus`,
			`gen4_group → ε`,
			`gen_gen1_opt_opt → gen1_opt`,
			`gen_gen1_opt_opt → ε`,
			`gen_gen2_star_plus → gen2_star`,
			`gen_gen2_star_plus → gen_gen2_star_plus gen2_star`,
			`start → gen_gen1_opt_opt gen_gen2_star_plus gen4_group`,
		},
	},
	{
		src: `grammar g; start = {x} {{x}} [x] (x); x = ";" | "+" | ;`,
		want: []string{
			`gen_x_group → x`,
			`gen_x_opt → x`,
			`gen_x_opt → ε`,
			`gen_x_plus → gen_x_plus x`,
			`gen_x_plus → x`,
			`gen_x_star → gen_x_star x`,
			`gen_x_star → ε`,
			`start → gen_x_star gen_x_plus gen_x_opt gen_x_group`,
			`x → "+"`,
			`x → ";"`,
			`x → ε`,
		},
	},
	{
		src: `grammar g; start = [";"] {"+"} {{"{"}} ("}");`,
		want: []string{
			`gen_lbrace_group → "}"`,
			`gen_plus_star → gen_plus_star "+"`,
			`gen_plus_star → ε`,
			`gen_rbrace_plus → "{"`,
			`gen_rbrace_plus → gen_rbrace_plus "{"`,
			`gen_semi_opt → ";"`,
			`gen_semi_opt → ε`,
			`start → gen_semi_opt gen_plus_star gen_rbrace_plus gen_lbrace_group`,
		},
	},
	{
		src: `grammar g; TK = "t"; start = [TK] {TK} {{TK}} (TK) [TK TK] {TK TK};`,
		want: []string{
			`gen1_opt → "TK"`,
			`gen1_opt → ε`,
			`gen2_star → gen2_star "TK"`,
			`gen2_star → ε`,
			`gen3_plus → "TK"`,
			`gen3_plus → gen3_plus "TK"`,
			`gen4_group → "TK"`,
			`gen5_opt → "TK" "TK"`,
			`gen5_opt → ε`,
			`gen6_star → gen6_star "TK" "TK"`,
			`gen6_star → ε`,
			`start → gen1_opt gen2_star gen3_plus gen4_group gen5_opt gen6_star`,
		},
	},
	{
		src: `grammar g; start = ["a" "b"] ["b" "a"] ["a" "b"] {"c" | } ("c" | );`,
		want: []string{
			`gen1_opt → "a" "b"`,
			`gen1_opt → ε`,
			`gen2_opt → "b" "a"`,
			`gen2_opt → ε`,
			`gen3_star → gen3_star`,
			`gen3_star → gen3_star "c"`,
			`gen3_star → ε`,
			`gen4_group → "c"`,
			`gen4_group → ε`,
			`start → gen1_opt gen2_opt gen1_opt gen3_star gen4_group`,
		},
	},
	{
		src: `grammar g; start = gen1_opt ["a" "b"]; gen1_opt = "z";`,
		want: []string{
			`gen1_opt → "a" "b"`,
			`gen1_opt → "z"`,
			`gen1_opt → ε`,
			`start → gen1_opt gen1_opt`,
		},
	},
	{
		src: `grammar g; start = [start] | {start "a"} | ;`,
		want: []string{
			`gen1_star → gen1_star start "a"`,
			`gen1_star → ε`,
			`gen_start_opt → start`,
			`gen_start_opt → ε`,
			`start → gen1_star`,
			`start → gen_start_opt`,
			`start → ε`,
		},
	},
	{
		src: `grammar g; start = ("a" ["b" {"c" {{"d" | "e"}}}]) | ["b" {"c" {{"e" | "d"}}}];`,
		want: []string{
			`gen1_plus → "d"`,
			`gen1_plus → "e"`,
			`gen1_plus → gen1_plus "d"`,
			`gen1_plus → gen1_plus "e"`,
			`gen2_star → gen2_star "c" gen1_plus`,
			`gen2_star → ε`,
			`gen3_opt → "b" gen2_star`,
			`gen3_opt → ε`,
			`gen4_group → "a" gen3_opt`,
			`start → gen3_opt`,
			`start → gen4_group`,
		},
	},
}

func TestRefactorDemo_Productions(t *testing.T) {
	for _, tc := range demoCases {
		t.Run(tc.src, func(t *testing.T) {
			_, got := demoProductions(t, tc.src)
			assert.Equal(t, tc.want, got)

			// Parsing the same text again, with a fresh symbol table, gives the same grammar.
			_, again := demoProductions(t, tc.src)
			assert.Equal(t, got, again)
		})
	}
}

func TestRefactorDemo_Language(t *testing.T) {
	tests := []struct {
		src  string
		from grammar.NonTerminal
		max  int
		want []string
	}{
		{
			src:  `grammar g; start = ["a"] ["a"] x; x = ["a"] | {"a"};`,
			from: "start",
			max:  4,
			want: []string{"", "a", "a a", "a a a", "a a a a"},
		},
		{
			src:  `grammar g; start = ["a"] ["a"] x; x = ["a"] | {"a"};`,
			from: "x",
			max:  3,
			want: []string{"", "a", "a a", "a a a"},
		},
		{
			src:  `grammar g; start = {"a"} {{"a"}} ["a"] ("a");`,
			from: "start",
			max:  4,
			want: []string{"a a", "a a a", "a a a a"},
		},
		{
			src:  `grammar g; start = ("a" | "b") ["a" | "b"] {"b" | "a"} {{"a" | "b"}};`,
			from: "start",
			max:  2,
			want: []string{"a a", "a b", "b a", "b b"},
		},
		{
			src:  `grammar g; start = [["a"]] {{ {"a"} }} ({{"a" "b"}} | );`,
			from: "start",
			max:  3,
			want: []string{"", "a", "a a", "a a a", "a a b", "a b"},
		},
		{
			src:  `grammar g; start = ["a" "b"] ["b" "a"] ["a" "b"] {"c" | } ("c" | );`,
			from: "start",
			max:  2,
			want: []string{"", "a b", "b a", "c", "c c"},
		},
		{
			src:  `grammar g; start = ("a" ["b" {"c" {{"d" | "e"}}}]) | ["b" {"c" {{"e" | "d"}}}];`,
			from: "start",
			max:  3,
			want: []string{"", "a", "a b", "b", "b c d", "b c e"},
		},
		{
			src:  `grammar g; TK = "t"; start = [TK] {TK} {{TK}} (TK) [TK TK] {TK TK};`,
			from: "start",
			max:  3,
			want: []string{"TK TK", "TK TK TK"},
		},
	}

	for _, tc := range tests {
		t.Run(tc.src+" from "+string(tc.from), func(t *testing.T) {
			sp, _ := demoProductions(t, tc.src)
			assert.Equal(t, tc.want, demoSentences(sp, tc.from, tc.max))
		})
	}
}

func TestRefactorDemo_GeneratedNames(t *testing.T) {
	str := func(syms ...grammar.Symbol) grammar.String[grammar.Symbol] {
		return grammar.String[grammar.Symbol](syms)
	}

	a, b := grammar.Terminal("a"), grammar.Terminal("b")
	st := NewSymbolTable()

	// One entry per list of strings, one name per operator, each generated on first demand.
	ab := func() Strings { return Strings{str(a, b)} }
	assert.Equal(t, grammar.NonTerminal("gen1_opt"), st.GetOpt(ab()))
	assert.Equal(t, grammar.NonTerminal("gen2_star"), st.GetStar(ab()))
	assert.Equal(t, grammar.NonTerminal("gen1_opt"), st.GetOpt(ab()))
	assert.Equal(t, grammar.NonTerminal("gen3_plus"), st.GetPlus(ab()))
	assert.Equal(t, grammar.NonTerminal("gen4_group"), st.GetGroup(ab()))
	assert.Equal(t, grammar.NonTerminal("gen2_star"), st.GetStar(ab()))
	assert.Equal(t, grammar.NonTerminal("gen3_plus"), st.GetPlus(ab()))
	assert.Equal(t, grammar.NonTerminal("gen4_group"), st.GetGroup(ab()))

	// The order of the symbols matters, the order of the alternatives does not.
	assert.Equal(t, grammar.NonTerminal("gen5_opt"), st.GetOpt(Strings{str(b, a)}))
	ba := Strings{str(b), str(a)}
	assert.Equal(t, grammar.NonTerminal("gen6_group"), st.GetGroup(ba))
	assert.Equal(t, Strings{str(a), str(b)}, ba) // looking up sorts the argument
	assert.Equal(t, grammar.NonTerminal("gen6_group"), st.GetGroup(Strings{str(a), str(b)}))
	assert.Equal(t, grammar.NonTerminal("gen7_star"), st.GetStar(Strings{str(b), str(a)}))

	// A single non-terminal or punctuation terminal gives a readable name and leaves the counter alone.
	expr := Strings{str(grammar.NonTerminal("expr"))}
	assert.Equal(t, grammar.NonTerminal("gen_expr_opt"), st.GetOpt(expr))
	assert.Equal(t, grammar.NonTerminal("gen_expr_star"), st.GetStar(expr))
	assert.Equal(t, grammar.NonTerminal("gen_expr_plus"), st.GetPlus(expr))
	assert.Equal(t, grammar.NonTerminal("gen_expr_group"), st.GetGroup(expr))
	assert.Equal(t, grammar.NonTerminal("gen_expr_opt"), st.GetOpt(expr))
	assert.Equal(t, grammar.NonTerminal("gen_semi_plus"), st.GetPlus(Strings{str(grammar.Terminal(";"))}))
	assert.Equal(t, grammar.NonTerminal("gen_rbrace_star"), st.GetStar(Strings{str(grammar.Terminal("{"))}))
	assert.Equal(t, grammar.NonTerminal("gen_lbrace_group"), st.GetGroup(Strings{str(grammar.Terminal("}"))}))
	assert.Equal(t, grammar.NonTerminal("gen_tab_opt"), st.GetOpt(Strings{str(grammar.Terminal("\t"))}))

	// Any other single terminal, a token name, or more than one symbol or alternative gets a number.
	assert.Equal(t, grammar.NonTerminal("gen8_opt"), st.GetOpt(Strings{str(a)}))
	assert.Equal(t, grammar.NonTerminal("gen9_opt"), st.GetOpt(Strings{str(grammar.Terminal("ID"))}))
	assert.Equal(t, grammar.NonTerminal("gen10_opt"), st.GetOpt(Strings{str(grammar.Terminal("=="))}))
	assert.Equal(t, grammar.NonTerminal("gen11_opt"), st.GetOpt(Strings{str(grammar.NonTerminal("expr"), grammar.NonTerminal("expr"))}))
	assert.Equal(t, grammar.NonTerminal("gen12_opt"), st.GetOpt(Strings{str(grammar.NonTerminal("expr")), grammar.E}))
	assert.Equal(t, grammar.NonTerminal("gen13_opt"), st.GetOpt(Strings{str(grammar.NonTerminal(""))}))

	// Degenerate lists.
	assert.Equal(t, grammar.NonTerminal("gen14_star"), st.GetStar(Strings{grammar.E}))
	assert.Equal(t, grammar.NonTerminal("gen14_star"), st.GetStar(Strings{str()}))
	assert.Equal(t, grammar.NonTerminal("gen15_plus"), st.GetPlus(Strings{}))
	assert.Equal(t, grammar.NonTerminal("gen15_plus"), st.GetPlus(nil))

	// Resetting forgets the entries but not the numbering; another table starts from scratch.
	st.Reset()
	assert.Equal(t, grammar.NonTerminal("gen16_opt"), st.GetOpt(ab()))
	assert.Equal(t, grammar.NonTerminal("gen_expr_opt"), st.GetOpt(expr))
	assert.Equal(t, grammar.NonTerminal("gen17_star"), st.GetStar(ab()))
	assert.Equal(t, grammar.NonTerminal("gen1_plus"), NewSymbolTable().GetPlus(ab()))
}
