package ast

import (
	"fmt"
	"os"
	"sort"
	"strings"
	"testing"

	auto "github.com/moorara/algo/automata"

	"github.com/gardenbed/emerge/internal/regex/parser/nfa"
)

// This file is a characterization test for the follow sets (followpos), the node attributes
// (nullable, firstpos, lastpos) together with their caches, and the direct DFA construction.
// The golden strings were recorded from the code before the refactoring.

func demoPoses(p Poses) string {
	if p == nil {
		return "nil"
	}
	return fmt.Sprint([]Pos(p))
}

// demoTree renders a tree including the state of the attribute caches (without touching them).
func demoTree(n Node) string {
	comp := func(c *computed) string {
		if c == nil {
			return "<->"
		}
		return fmt.Sprintf("<%v %s %s>", c.nullable, demoPoses(c.firstPos), demoPoses(c.lastPos))
	}

	list := func(ns []Node) string {
		ss := make([]string, len(ns))
		for i, e := range ns {
			ss[i] = demoTree(e)
		}
		return strings.Join(ss, " ")
	}

	switch v := n.(type) {
	case *Concat:
		return "C(" + list(v.Exprs) + ")" + comp(v.comp)
	case *Alt:
		return "A(" + list(v.Exprs) + ")" + comp(v.comp)
	case *Star:
		return "S(" + demoTree(v.Expr) + ")"
	case *Empty:
		return "e"
	case *Char:
		if v.Val == endMarker {
			return fmt.Sprintf("#%d", v.Pos)
		}
		return fmt.Sprintf("%c%d", v.Val, v.Pos)
	}
	return "?"
}

func demoFollows(a *AST) string {
	keys := make([]int, 0, len(a.follows))
	for p := range a.follows {
		keys = append(keys, int(p))
	}
	sort.Ints(keys)

	ss := make([]string, len(keys))
	for i, p := range keys {
		ss[i] = fmt.Sprintf("%d:%s", p, demoPoses(a.follows[Pos(p)]))
	}
	return strings.Join(ss, " ")
}

// demoDescribe renders everything the construction depends on:
// the tree and its caches as they are left behind by the preprocessing, the follow sets, and the root attributes.
func demoDescribe(a *AST) string {
	tree := demoTree(a.Root)
	follows := demoFollows(a)
	null, first, last := a.Root.nullable(), a.Root.firstPos(), a.Root.lastPos()
	// The attributes are cached: asking again yields the same values.
	if null != a.Root.nullable() || !first.Equal(a.Root.firstPos()) || !last.Equal(a.Root.lastPos()) {
		return "UNSTABLE"
	}
	return fmt.Sprintf("tree=%s | follows=%s | null=%v first=%s last=%s | after=%s",
		tree, follows, null, demoPoses(first), demoPoses(last), demoTree(a.Root))
}

func demoString(s string) auto.String {
	res := auto.String{}
	for _, r := range s {
		res = append(res, auto.Symbol(r))
	}
	return res
}

type demoPattern struct {
	regex  string
	golden string
	yes    []string
	no     []string
}

var demoPatterns = []demoPattern{
	{
		regex:  `a`,
		golden: `tree=C(C(a1)<false [1] [1]> #2)<-> | follows=1:[2] | null=false first=[1] last=[2] | after=C(C(a1)<false [1] [1]> #2)<false [1] [2]>`,
		yes:    []string{"a"},
		no:     []string{"", "aa", "b"},
	},
	{
		regex:  `ab`,
		golden: `tree=C(C(a1 b2)<false [1] [2]> #3)<-> | follows=1:[2] 2:[3] | null=false first=[1] last=[3] | after=C(C(a1 b2)<false [1] [2]> #3)<false [1] [3]>`,
		yes:    []string{"ab"},
		no:     []string{"", "a", "b", "ba", "abb"},
	},
	{
		regex:  `a*`,
		golden: `tree=C(C(S(a1))<true [1] [1]> #2)<-> | follows=1:[1 2] | null=false first=[1 2] last=[2] | after=C(C(S(a1))<true [1] [1]> #2)<false [1 2] [2]>`,
		yes:    []string{"", "a", "aaaa"},
		no:     []string{"b", "ab"},
	},
	{
		regex:  `a?`,
		golden: `tree=C(C(A(e a1)<true [1] [1]>)<true [1] [1]> #2)<-> | follows=1:[2] | null=false first=[1 2] last=[2] | after=C(C(A(e a1)<true [1] [1]>)<true [1] [1]> #2)<false [1 2] [2]>`,
		yes:    []string{"", "a"},
		no:     []string{"aa", "b"},
	},
	{
		regex:  `a+`,
		golden: `tree=C(C(C(a1 S(a2))<false [1] [1 2]>)<false [1] [1 2]> #3)<-> | follows=1:[2 3] 2:[2 3] | null=false first=[1] last=[3] | after=C(C(C(a1 S(a2))<false [1] [1 2]>)<false [1] [1 2]> #3)<false [1] [3]>`,
		yes:    []string{"a", "aa", "aaaaa"},
		no:     []string{"", "b", "ab"},
	},
	{
		regex:  `a?b?c?`,
		golden: `tree=C(C(A(e a1)<true [1] [1]> A(e b2)<true [2] [2]> A(e c3)<true [3] [3]>)<true [1 2 3] [1 2 3]> #4)<-> | follows=1:[2 3 4] 2:[3 4] 3:[4] | null=false first=[1 2 3 4] last=[4] | after=C(C(A(e a1)<true [1] [1]> A(e b2)<true [2] [2]> A(e c3)<true [3] [3]>)<true [1 2 3] [1 2 3]> #4)<false [1 2 3 4] [4]>`,
		yes:    []string{"", "a", "b", "c", "ab", "ac", "bc", "abc"},
		no:     []string{"ba", "ca", "cb", "aa", "abcc", "abca"},
	},
	{
		regex:  `a*b*c`,
		golden: `tree=C(C(S(a1) S(b2) c3)<false [1 2 3] [3]> #4)<-> | follows=1:[1 2 3] 2:[2 3] 3:[4] | null=false first=[1 2 3] last=[4] | after=C(C(S(a1) S(b2) c3)<false [1 2 3] [3]> #4)<false [1 2 3] [4]>`,
		yes:    []string{"c", "ac", "bc", "abc", "aabbc", "aac"},
		no:     []string{"", "a", "ab", "bac", "cc", "abca"},
	},
	{
		regex:  `ab?c*d`,
		golden: `tree=C(C(a1 A(e b2)<true [2] [2]> S(c3) d4)<false [1] [4]> #5)<-> | follows=1:[2 3 4] 2:[3 4] 3:[3 4] 4:[5] | null=false first=[1] last=[5] | after=C(C(a1 A(e b2)<true [2] [2]> S(c3) d4)<false [1] [4]> #5)<false [1] [5]>`,
		yes:    []string{"ad", "abd", "acd", "abcd", "abcccd", "accd"},
		no:     []string{"", "a", "d", "abbd", "acbd", "abc", "add"},
	},
	{
		regex:  `(a|b)*abb`,
		golden: `tree=C(C(S(A(C(a1)<false [1] [1]> C(b2)<false [2] [2]>)<false [1 2] [1 2]>) a3 b4 b5)<false [1 2 3] [5]> #6)<-> | follows=1:[1 2 3] 2:[1 2 3] 3:[4] 4:[5] 5:[6] | null=false first=[1 2 3] last=[6] | after=C(C(S(A(C(a1)<false [1] [1]> C(b2)<false [2] [2]>)<false [1 2] [1 2]>) a3 b4 b5)<false [1 2 3] [5]> #6)<false [1 2 3] [6]>`,
		yes:    []string{"abb", "aabb", "babb", "abababb", "abbabb"},
		no:     []string{"", "ab", "abba", "bb", "abbb"},
	},
	{
		regex:  `(a*)*`,
		golden: `tree=C(C(S(C(S(a1))<true [1] [1]>))<true [1] [1]> #2)<-> | follows=1:[1 1 2] | null=false first=[1 2] last=[2] | after=C(C(S(C(S(a1))<true [1] [1]>))<true [1] [1]> #2)<false [1 2] [2]>`,
		yes:    []string{"", "a", "aaa"},
		no:     []string{"b", "ab"},
	},
	{
		regex:  `(a?b?)*`,
		golden: `tree=C(C(S(C(A(e a1)<true [1] [1]> A(e b2)<true [2] [2]>)<true [1 2] [1 2]>))<true [1 2] [1 2]> #3)<-> | follows=1:[1 2 2 3] 2:[1 2 3] | null=false first=[1 2 3] last=[3] | after=C(C(S(C(A(e a1)<true [1] [1]> A(e b2)<true [2] [2]>)<true [1 2] [1 2]>))<true [1 2] [1 2]> #3)<false [1 2 3] [3]>`,
		yes:    []string{"", "a", "b", "ab", "ba", "bbaab", "aaaa"},
		no:     []string{"c", "abc"},
	},
	{
		regex:  `(a|b?)c`,
		golden: `tree=C(C(A(C(a1)<false [1] [1]> C(A(e b2)<true [2] [2]>)<true [2] [2]>)<true [1 2] [1 2]> c3)<false [1 2 3] [3]> #4)<-> | follows=1:[3] 2:[3] 3:[4] | null=false first=[1 2 3] last=[4] | after=C(C(A(C(a1)<false [1] [1]> C(A(e b2)<true [2] [2]>)<true [2] [2]>)<true [1 2] [1 2]> c3)<false [1 2 3] [3]> #4)<false [1 2 3] [4]>`,
		yes:    []string{"c", "ac", "bc"},
		no:     []string{"", "abc", "a", "b", "cc", "bbc"},
	},
	{
		regex:  `a{0}`,
		golden: `tree=C(C(C()<true [] []>)<true [] []> #1)<-> | follows= | null=false first=[1] last=[1] | after=C(C(C()<true [] []>)<true [] []> #1)<false [1] [1]>`,
		yes:    []string{""},
		no:     []string{"a", "aa"},
	},
	{
		regex:  `a{0}b`,
		golden: `tree=C(C(C()<true [] []> b1)<false [1] [1]> #2)<-> | follows=1:[2] | null=false first=[1] last=[2] | after=C(C(C()<true [] []> b1)<false [1] [1]> #2)<false [1] [2]>`,
		yes:    []string{"b"},
		no:     []string{"", "ab", "a", "bb"},
	},
	{
		regex:  `a{2}`,
		golden: `tree=C(C(C(a1 a2)<false [1] [2]>)<false [1] [2]> #3)<-> | follows=1:[2] 2:[3] | null=false first=[1] last=[3] | after=C(C(C(a1 a2)<false [1] [2]>)<false [1] [2]> #3)<false [1] [3]>`,
		yes:    []string{"aa"},
		no:     []string{"", "a", "aaa"},
	},
	{
		regex:  `a{2,}`,
		golden: `tree=C(C(C(a1 a2 S(a3))<false [1] [2 3]>)<false [1] [2 3]> #4)<-> | follows=1:[2] 2:[3 4] 3:[3 4] | null=false first=[1] last=[4] | after=C(C(C(a1 a2 S(a3))<false [1] [2 3]>)<false [1] [2 3]> #4)<false [1] [4]>`,
		yes:    []string{"aa", "aaa", "aaaaaa"},
		no:     []string{"", "a", "aab"},
	},
	{
		regex:  `a{0,2}`,
		golden: `tree=C(C(C(A(e a1)<true [1] [1]> A(e a2)<true [2] [2]>)<true [1 2] [1 2]>)<true [1 2] [1 2]> #3)<-> | follows=1:[2 3] 2:[3] | null=false first=[1 2 3] last=[3] | after=C(C(C(A(e a1)<true [1] [1]> A(e a2)<true [2] [2]>)<true [1 2] [1 2]>)<true [1 2] [1 2]> #3)<false [1 2 3] [3]>`,
		yes:    []string{"", "a", "aa"},
		no:     []string{"aaa", "b"},
	},
	{
		regex:  `a{1,3}b`,
		golden: `tree=C(C(C(a1 A(e a2)<true [2] [2]> A(e a3)<true [3] [3]>)<false [1] [1 2 3]> b4)<false [1] [4]> #5)<-> | follows=1:[2 3 4] 2:[3 4] 3:[4] 4:[5] | null=false first=[1] last=[5] | after=C(C(C(a1 A(e a2)<true [2] [2]> A(e a3)<true [3] [3]>)<false [1] [1 2 3]> b4)<false [1] [4]> #5)<false [1] [5]>`,
		yes:    []string{"ab", "aab", "aaab"},
		no:     []string{"", "b", "aaaab", "a", "aaa"},
	},
	{
		regex:  `(ab?){2,3}`,
		golden: `tree=C(C(C(C(a1 A(e b2)<true [2] [2]>)<false [1] [1 2]> C(a3 A(e b4)<true [4] [4]>)<false [3] [3 4]> A(e C(a5 A(e b6)<true [6] [6]>)<false [5] [5 6]>)<true [5] [5 6]>)<false [1] [3 4 5 6]>)<false [1] [3 4 5 6]> #7)<-> | follows=1:[2 3] 2:[3] 3:[4 5 7] 4:[5 7] 5:[6 7] 6:[7] | null=false first=[1] last=[7] | after=C(C(C(C(a1 A(e b2)<true [2] [2]>)<false [1] [1 2]> C(a3 A(e b4)<true [4] [4]>)<false [3] [3 4]> A(e C(a5 A(e b6)<true [6] [6]>)<false [5] [5 6]>)<true [5] [5 6]>)<false [1] [3 4 5 6]>)<false [1] [3 4 5 6]> #7)<false [1] [7]>`,
		yes:    []string{"aa", "aba", "aab", "abab", "aaa", "ababab", "aabab", "abaab"},
		no:     []string{"", "a", "ab", "aaaa", "abababab", "abb", "ba"},
	},
	{
		regex:  `(a*b?){2}`,
		golden: `tree=C(C(C(C(S(a1) A(e b2)<true [2] [2]>)<true [1 2] [1 2]> C(S(a3) A(e b4)<true [4] [4]>)<true [3 4] [3 4]>)<true [1 2 3 4] [1 2 3 4]>)<true [1 2 3 4] [1 2 3 4]> #5)<-> | follows=1:[1 2 3 4 5] 2:[3 4 5] 3:[3 4 5] 4:[5] | null=false first=[1 2 3 4 5] last=[5] | after=C(C(C(C(S(a1) A(e b2)<true [2] [2]>)<true [1 2] [1 2]> C(S(a3) A(e b4)<true [4] [4]>)<true [3 4] [3 4]>)<true [1 2 3 4] [1 2 3 4]>)<true [1 2 3 4] [1 2 3 4]> #5)<false [1 2 3 4 5] [5]>`,
		yes:    []string{"", "a", "b", "ab", "ba", "bb", "aab", "abab", "aabaab", "baa", "aaaa"},
		no:     []string{"bbb", "abbb", "babab", "c"},
	},
	{
		regex:  `(a|b*)+c?`,
		golden: `tree=C(C(C(A(C(a1)<false [1] [1]> C(S(b2))<true [2] [2]>)<true [1 2] [1 2]> S(A(C(a3)<false [3] [3]> C(S(b4))<true [4] [4]>)<true [3 4] [3 4]>))<true [1 2 3 4] [1 2 3 4]> A(e c5)<true [5] [5]>)<true [1 2 3 4 5] [1 2 3 4 5]> #6)<-> | follows=1:[3 4 5 6] 2:[2 3 4 5 6] 3:[3 4 5 6] 4:[3 4 4 5 6] 5:[6] | null=false first=[1 2 3 4 5 6] last=[6] | after=C(C(C(A(C(a1)<false [1] [1]> C(S(b2))<true [2] [2]>)<true [1 2] [1 2]> S(A(C(a3)<false [3] [3]> C(S(b4))<true [4] [4]>)<true [3 4] [3 4]>))<true [1 2 3 4] [1 2 3 4]> A(e c5)<true [5] [5]>)<true [1 2 3 4 5] [1 2 3 4 5]> #6)<false [1 2 3 4 5 6] [6]>`,
		yes:    []string{"", "c", "a", "b", "ab", "bbabba", "aac", "bbc"},
		no:     []string{"cc", "ca", "acb"},
	},
	{
		regex:  `[ab]{2}c?`,
		golden: `tree=C(C(C(A(a1 b2)<false [1 2] [1 2]> A(a3 b4)<false [3 4] [3 4]>)<false [1 2] [3 4]> A(e c5)<true [5] [5]>)<false [1 2] [3 4 5]> #6)<-> | follows=1:[3 4] 2:[3 4] 3:[5 6] 4:[5 6] 5:[6] | null=false first=[1 2] last=[6] | after=C(C(C(A(a1 b2)<false [1 2] [1 2]> A(a3 b4)<false [3 4] [3 4]>)<false [1 2] [3 4]> A(e c5)<true [5] [5]>)<false [1 2] [3 4 5]> #6)<false [1 2] [6]>`,
		yes:    []string{"aa", "ab", "ba", "bb", "aac", "bac"},
		no:     []string{"", "a", "aaa", "abcc", "ca"},
	},
}

func TestRefactorDemo_Patterns(t *testing.T) {
	record := os.Getenv("REFACTOR_DEMO_RECORD") != ""

	for _, tc := range demoPatterns {
		t.Run(tc.regex, func(t *testing.T) {
			a, err := Parse(tc.regex)
			if err != nil {
				t.Fatalf("Parse(%q): %v", tc.regex, err)
			}

			got := demoDescribe(a)
			if record {
				fmt.Printf("RECORD\t%s\t%s\n", tc.regex, got)
			} else if got != tc.golden {
				t.Errorf("description of %q\n got: %s\nwant: %s", tc.regex, got, tc.golden)
			}

			// A second, independent parse leaves behind an identical structure (no order dependence).
			if b, _ := Parse(tc.regex); demoDescribe(b) != got {
				t.Errorf("description of %q is not deterministic", tc.regex)
			}

			// The direct construction, the NFA route and the documented meaning agree.
			direct := a.ToDFA()
			n, err := nfa.Parse(tc.regex)
			if err != nil {
				t.Fatalf("nfa.Parse(%q): %v", tc.regex, err)
			}
			viaNFA := n.ToDFA()

			check := func(s string, want bool) {
				if got := direct.Accept(demoString(s)); got != want {
					t.Errorf("direct DFA of %q on %q: got %v, want %v", tc.regex, s, got, want)
				}
				if got := viaNFA.Accept(demoString(s)); got != want {
					t.Errorf("NFA route of %q on %q: got %v, want %v", tc.regex, s, got, want)
				}
			}
			for _, s := range tc.yes {
				check(s, true)
			}
			for _, s := range tc.no {
				check(s, false)
			}

			// Building the DFA twice from the same tree gives the same automaton.
			if again := a.ToDFA(); !again.Isomorphic(direct) {
				t.Errorf("ToDFA of %q is not repeatable", tc.regex)
			}
		})
	}
}

// demoBuild runs the preprocessing on a hand-made tree the same way Parse does.
func demoBuild(root Node) *AST {
	a := &AST{
		Root:      root,
		posToChar: map[Pos]rune{},
		charToPos: map[rune]Poses{},
		follows:   map[Pos]Poses{},
	}
	a.indexChars(a.Root)
	a.computeFollows(a.Root)
	for _, l := range a.follows {
		sort.Sort(l)
	}
	return a
}

func demoChar(c rune) *Char { return &Char{Val: c} }

func TestRefactorDemo_HandMadeTrees(t *testing.T) {
	tests := []struct {
		name   string
		root   Node
		golden string
		yes    []string
		no     []string
	}{
		{
			name:   "EmptyConcat",
			root:   &Concat{},
			golden: `tree=C()<-> | follows= | null=true first=[] last=[] | after=C()<true [] []>`,
		},
		{
			name:   "EmptyAlt",
			root:   &Alt{},
			golden: `tree=A()<-> | follows= | null=false first=[] last=[] | after=A()<false [] []>`,
		},
		{
			name:   "SingleOperandConcat",
			root:   &Concat{Exprs: []Node{&Alt{Exprs: []Node{demoChar('a'), &Empty{}}}}},
			golden: `tree=C(A(a1 e)<->)<-> | follows= | null=true first=[1] last=[1] | after=C(A(a1 e)<true [1] [1]>)<true [1] [1]>`,
		},
		{
			name: "EmptyOperandsEverywhere",
			root: &Concat{Exprs: []Node{
				&Empty{}, demoChar('a'), &Empty{}, &Empty{}, demoChar('b'), &Empty{}, demoChar(endMarker),
			}},
			golden: `tree=C(e a1 e e b2 e #3)<-> | follows=1:[2] 2:[3] | null=false first=[1] last=[3] | after=C(e a1 e e b2 e #3)<false [1] [3]>`,
			yes:    []string{"ab"},
			no:     []string{"", "a", "b", "abb"},
		},
		{
			name: "StarOfEmpty",
			root: &Concat{Exprs: []Node{
				&Star{Expr: &Empty{}}, demoChar('a'), &Star{Expr: &Empty{}}, demoChar(endMarker),
			}},
			golden: `tree=C(S(e) a1 S(e) #2)<-> | follows=1:[2] | null=false first=[1] last=[2] | after=C(S(e) a1 S(e) #2)<false [1] [2]>`,
			yes:    []string{"a"},
			no:     []string{"", "aa"},
		},
		{
			name: "NoLastPosBeforeStar",
			root: &Concat{Exprs: []Node{
				&Alt{},
				&Star{Expr: &Concat{Exprs: []Node{demoChar('a'), demoChar('b')}}},
				demoChar('c'),
				demoChar(endMarker),
			}},
			golden: `tree=C(A()<false [] []> S(C(a1 b2)<false [1] [2]>) c3 #4)<-> | follows=1:[2] 2:[1 3] 3:[4] | null=false first=[] last=[4] | after=C(A()<false [] []> S(C(a1 b2)<false [1] [2]>) c3 #4)<false [] [4]>`,
			no:     []string{"", "c", "abc"},
		},
		{
			name: "NestedStars",
			root: &Concat{Exprs: []Node{
				&Star{Expr: &Star{Expr: &Alt{Exprs: []Node{&Empty{}, demoChar('a'), demoChar('b')}}}},
				demoChar(endMarker),
			}},
			golden: `tree=C(S(S(A(e a1 b2)<true [1 2] [1 2]>)) #3)<-> | follows=1:[1 1 2 2 3] 2:[1 1 2 2 3] | null=false first=[1 2 3] last=[3] | after=C(S(S(A(e a1 b2)<true [1 2] [1 2]>)) #3)<false [1 2 3] [3]>`,
			yes:    []string{"", "a", "b", "abba"},
			no:     []string{"c"},
		},
		{
			name: "NullableRunsInTheMiddle",
			root: &Concat{Exprs: []Node{
				&Concat{Exprs: []Node{&Alt{Exprs: []Node{demoChar('a'), &Empty{}}}}},
				&Concat{Exprs: []Node{demoChar('b')}},
				&Star{Expr: demoChar('c')},
				&Alt{Exprs: []Node{&Empty{}, &Concat{Exprs: []Node{demoChar('d'), demoChar('e')}}}},
				&Concat{},
				demoChar(endMarker),
			}},
			golden: `tree=C(C(A(a1 e)<true [1] [1]>)<true [1] [1]> C(b2)<false [2] [2]> S(c3) A(e C(d4 e5)<false [4] [5]>)<true [4] [5]> C()<true [] []> #6)<-> | follows=1:[2] 2:[3 4 6] 3:[3 4 6] 4:[5] 5:[6] | null=false first=[1 2] last=[6] | after=C(C(A(a1 e)<true [1] [1]>)<true [1] [1]> C(b2)<false [2] [2]> S(c3) A(e C(d4 e5)<false [4] [5]>)<true [4] [5]> C()<true [] []> #6)<false [1 2] [6]>`,
			yes:    []string{"b", "ab", "bc", "abccc", "bde", "abcde", "bccde"},
			no:     []string{"", "a", "bd", "bdec", "abb", "bdede"},
		},
		{
			name: "UntouchedMiddleOperands",
			root: &Alt{Exprs: []Node{
				&Concat{Exprs: []Node{
					demoChar('a'),
					&Alt{Exprs: []Node{demoChar('b'), demoChar('c')}},
					&Concat{Exprs: []Node{demoChar('d')}},
					demoChar('e'),
				}},
			}},
			golden: `tree=A(C(a1 A(b2 c3)<false [2 3] [2 3]> C(d4)<false [4] [4]> e5)<->)<-> | follows=1:[2 3] 2:[4] 3:[4] 4:[5] | null=false first=[1] last=[5] | after=A(C(a1 A(b2 c3)<false [2 3] [2 3]> C(d4)<false [4] [4]> e5)<false [1] [5]>)<false [1] [5]>`,
		},
	}

	record := os.Getenv("REFACTOR_DEMO_RECORD") != ""

	for _, tc := range tests {
		t.Run(tc.name, func(t *testing.T) {
			a := demoBuild(tc.root)

			got := demoDescribe(a)
			if record {
				fmt.Printf("RECORD\t%s\t%s\n", tc.name, got)
			} else if got != tc.golden {
				t.Errorf("description of %s\n got: %s\nwant: %s", tc.name, got, tc.golden)
			}

			if len(tc.yes)+len(tc.no) == 0 {
				return
			}

			dfa := a.ToDFA()
			for _, s := range tc.yes {
				if !dfa.Accept(demoString(s)) {
					t.Errorf("%s: %q must be accepted", tc.name, s)
				}
			}
			for _, s := range tc.no {
				if dfa.Accept(demoString(s)) {
					t.Errorf("%s: %q must be rejected", tc.name, s)
				}
			}
		})
	}
}

// The helpers of a concatenation see a plain sequence of operands:
// the follow sets of a long sequence match what the pairwise definition from the textbook gives.
func TestRefactorDemo_PairwiseDefinition(t *testing.T) {
	// All sequences of length up to 5 over four kinds of operands.
	kinds := []func() Node{
		func() Node { return demoChar('x') },
		func() Node { return &Alt{Exprs: []Node{&Empty{}, demoChar('y')}} },
		func() Node { return &Star{Expr: &Concat{Exprs: []Node{demoChar('z'), demoChar('w')}}} },
		func() Node { return &Empty{} },
	}

	var gen func(n int, prefix []int, visit func([]int))
	gen = func(n int, prefix []int, visit func([]int)) {
		visit(prefix)
		if n == 0 {
			return
		}
		for k := range kinds {
			gen(n-1, append(append([]int{}, prefix...), k), visit)
		}
	}

	count := 0
	gen(5, nil, func(seq []int) {
		count++
		root := &Concat{}
		for _, k := range seq {
			root.Exprs = append(root.Exprs, kinds[k]())
		}
		a := demoBuild(root)

		// Reference: binary, right-nested concatenation of the same operands, by the two textbook rules.
		want := map[Pos]Poses{}
		add := func(from, to Poses) {
			for _, p := range from {
				want[p] = want[p].Union(to)
			}
		}
		var inner func(n Node)
		inner = func(n Node) {
			switch v := n.(type) {
			case *Concat:
				for _, e := range v.Exprs {
					inner(e)
				}
				for i := range v.Exprs {
					if i+1 < len(v.Exprs) {
						left := &Concat{Exprs: v.Exprs[:i+1]}
						right := &Concat{Exprs: v.Exprs[i+1:]}
						add(left.lastPos(), right.firstPos())
					}
				}
			case *Alt:
				for _, e := range v.Exprs {
					inner(e)
				}
			case *Star:
				inner(v.Expr)
				add(v.Expr.lastPos(), v.Expr.firstPos())
			}
		}
		inner(root)

		if len(want) != len(a.follows) {
			t.Fatalf("%v: follow sets defined for %d positions, want %d", seq, len(a.follows), len(want))
		}
		for p, w := range want {
			if !w.Equal(a.follows[p]) {
				t.Fatalf("%v: followpos(%d) = %v, want %v", seq, p, a.follows[p], w)
			}
		}
	})

	if count != 1+4+16+64+256+1024 {
		t.Fatalf("visited %d sequences", count)
	}
}
