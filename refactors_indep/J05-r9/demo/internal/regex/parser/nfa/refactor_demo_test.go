package nfa

import (
	"crypto/sha256"
	"encoding/hex"
	"fmt"
	"os"
	"reflect"
	"sort"
	"strings"
	"testing"

	auto "github.com/moorara/algo/automata"
	comb "github.com/moorara/algo/parser/combinator"

	"github.com/gardenbed/emerge/internal/regex/parser"
)

// The demo pins the observable behaviour of the NFA mappers:
//   - the exact structure (String rendering) of the NFA built for a corpus of patterns,
//   - the language of those NFAs on a set of probe strings,
//   - the characters a class hands up to a bracket group (the bag), in their exact order,
//   - the errors and error texts of semantically invalid patterns.

func demoFingerprint(n *auto.NFA) string {
	sum := sha256.Sum256([]byte(n.String()))
	return hex.EncodeToString(sum[:6])
}

func demoRunes(s string) auto.String {
	out := auto.String{}
	for _, r := range s {
		out = append(out, auto.Symbol(r))
	}
	return out
}

// demoAccepted returns the probes accepted by the NFA, separated by a comma ("ε" stands for the empty string).
func demoAccepted(n *auto.NFA, probes []string) string {
	acc := []string{}
	for _, p := range probes {
		if n.Accept(demoRunes(p)) {
			if p == "" {
				p = "ε"
			}
			acc = append(acc, p)
		}
	}
	return strings.Join(acc, ",")
}

var demoProbes = []string{
	"", "a", "b", "c", "aa", "ab", "ba", "abc", "aaa", "aaaa", "aaaaa", "aaaaaa", "abab", "ababab",
	"0", "7", "42", "_", " ", "\t", "\n", "\v", "A", "Z", "z", "-", "+", "é", "a1", "1a", "x9_", "ac", "abcabc",
	"\x00", "\x7f", "[", "]", "^", "F", "g", "G",
}

type demoCase struct {
	regex       string
	fingerprint string
	accepted    string
}

var demoCases = []demoCase{
	{`a`, "79bc7df13b13", "a"},
	{`abc`, "6241ed5018e8", "abc"},
	{`\.`, "1ad497bd9a1b", ""},
	{`\x41`, "a0da583d04bf", "A"},
	{`\x0041`, "a0da583d04bf", "A"},
	{`\$\{\}`, "71a2a7a3fc74", ""},
	{`.`, "0a9ba9f493fa", "ε,a,b,c,0,7,_, ,\t,\n,\v,A,Z,z,-,+,\x00,\x7f,[,],^,F,g,G"},
	{`a.c`, "8c088cf22f29", "abc,ac"},
	{`\s`, "dfb8d3e56a6d", " ,\t,\n"},
	{`\S`, "5ab1456bf172", "ε,a,b,c,0,7,_,\v,A,Z,z,-,+,\x00,\x7f,[,],^,F,g,G"},
	{`\d`, "45545ad1f181", "0,7"},
	{`\D`, "7a8b61bee17e", "ε,a,b,c,_, ,\t,\n,\v,A,Z,z,-,+,\x00,\x7f,[,],^,F,g,G"},
	{`\w`, "201bfa60582e", "a,b,c,0,7,_,A,Z,z,F,g,G"},
	{`\W`, "c9dc88eaf665", "ε, ,\t,\n,\v,-,+,\x00,\x7f,[,],^"},
	{`\d\w\s`, "b24d9f30e6df", ""},
	{`\D+`, "f6931515def0", "ε,a,b,c,aa,ab,ba,abc,aaa,aaaa,aaaaa,aaaaaa,abab,ababab,_, ,\t,\n,\v,A,Z,z,-,+,ac,abcabc,\x00,\x7f,[,],^,F,g,G"},
	{`\W?\w*`, "e0288c689e72", "ε,a,b,c,aa,ab,ba,abc,aaa,aaaa,aaaaa,aaaaaa,abab,ababab,0,7,42,_, ,\t,\n,\v,A,Z,z,-,+,a1,1a,x9_,ac,abcabc,\x00,\x7f,[,],^,F,g,G"},
	{`[:blank:]`, "c8088418dfc0", " ,\t"},
	{`[:space:]`, "82a3885f10c0", " ,\t,\n,\v"},
	{`[:digit:]`, "45545ad1f181", "0,7"},
	{`[:xdigit:]`, "c62f0e7c48ba", "a,b,c,0,7,A,F"},
	{`[:upper:]`, "3ed079f9bfab", "A,Z,F,G"},
	{`[:lower:]`, "fb417d7631f3", "a,b,c,z,g"},
	{`[:alpha:]`, "e700eff0f1ec", "a,b,c,A,Z,z,F,g,G"},
	{`[:alnum:]`, "f3287c81c390", "a,b,c,0,7,A,Z,z,F,g,G"},
	{`[:word:]`, "201bfa60582e", "a,b,c,0,7,_,A,Z,z,F,g,G"},
	{`[:ascii:]`, "0a9ba9f493fa", "ε,a,b,c,0,7,_, ,\t,\n,\v,A,Z,z,-,+,\x00,\x7f,[,],^,F,g,G"},
	{`\p{Letter}`, "e700eff0f1ec", "a,b,c,A,Z,z,F,g,G"},
	{`\P{Letter}`, "ef1ee3dba3da", "ε,0,7,_, ,\t,\n,\v,-,+,\x00,\x7f,[,],^"},
	{`\p{Lu}`, "3ed079f9bfab", "A,Z,F,G"},
	{`\P{Lu}`, "09369a3ba552", "ε,a,b,c,0,7,_, ,\t,\n,\v,z,-,+,\x00,\x7f,[,],^,g"},
	{`\p{Lt}`, "40de461d2fa3", ""},
	{`\P{Lt}`, "0a9ba9f493fa", "ε,a,b,c,0,7,_, ,\t,\n,\v,A,Z,z,-,+,\x00,\x7f,[,],^,F,g,G"},
	{`\p{Nd}`, "45545ad1f181", "0,7"},
	{`\P{N}`, "7a8b61bee17e", "ε,a,b,c,_, ,\t,\n,\v,A,Z,z,-,+,\x00,\x7f,[,],^,F,g,G"},
	{`\p{Punctuation}`, "a241867fb484", "_,-,[,]"},
	{`\P{P}`, "c231476f8861", "ε,a,b,c,0,7, ,\t,\n,\v,A,Z,z,+,\x00,\x7f,^,F,g,G"},
	{`\p{Po}`, "941542bb1cdf", ""},
	{`\p{Symbol}`, "0c626d82c0e1", "+,^"},
	{`\P{Sm}`, "819f7e5f60bd", "ε,a,b,c,0,7,_, ,\t,\n,\v,A,Z,z,-,\x00,\x7f,[,],^,F,g,G"},
	{`\p{Zs}`, "4812c76cbf8e", " "},
	{`\P{Z}`, "54a438c71ed3", "ε,a,b,c,0,7,_,\t,\n,\v,A,Z,z,-,+,\x00,\x7f,[,],^,F,g,G"},
	{`\p{Latin}`, "761294c20228", "ε,a,b,c,0,7,_, ,\t,\n,\v,A,Z,z,-,+,é,\x00,\x7f,[,],^,F,g,G"},
	{`\P{Latin}`, "40de461d2fa3", ""},
	{`\p{Greek}`, "a18472ebb999", ""},
	{`\P{Greek}`, "0a9ba9f493fa", "ε,a,b,c,0,7,_, ,\t,\n,\v,A,Z,z,-,+,\x00,\x7f,[,],^,F,g,G"},
	{`\P{Han}`, "0a9ba9f493fa", "ε,a,b,c,0,7,_, ,\t,\n,\v,A,Z,z,-,+,\x00,\x7f,[,],^,F,g,G"},
	{`\p{Mark}`, "40de461d2fa3", ""},
	{`[abc]`, "e183fda4816b", "a,b,c"},
	{`[^abc]`, "d27dc385090a", "ε,0,7,_, ,\t,\n,\v,A,Z,z,-,+,\x00,\x7f,[,],^,F,g,G"},
	{`[a-c]`, "e183fda4816b", "a,b,c"},
	{`[^a-c]`, "d27dc385090a", "ε,0,7,_, ,\t,\n,\v,A,Z,z,-,+,\x00,\x7f,[,],^,F,g,G"},
	{`[a-a]`, "79bc7df13b13", "a"},
	{`[a-cx-z0-9_]`, "879410c0a9eb", "a,b,c,0,7,_,z"},
	{`[^a-cx-z0-9_]`, "6e3ad3ba9bea", "ε, ,\t,\n,\v,A,Z,-,+,\x00,\x7f,[,],^,F,g,G"},
	{`[\d_]`, "be71053e1c03", "0,7,_"},
	{`[^\D]`, "45545ad1f181", "0,7"},
	{`[\w-]`, "75cfbc8e7d56", "a,b,c,0,7,_,A,Z,z,-,F,g,G"},
	{`[^\s\S]`, "40de461d2fa3", ""},
	{`[[:upper:]0-9]`, "8b098d4492cd", "0,7,A,Z,F,G"},
	{`[^[:alpha:]]`, "ef1ee3dba3da", "ε,0,7,_, ,\t,\n,\v,-,+,\x00,\x7f,[,],^"},
	{`[\p{Lu}\p{Nd}]`, "8b098d4492cd", "0,7,A,Z,F,G"},
	{`[^\P{Ll}]`, "fb417d7631f3", "a,b,c,z,g"},
	{`[\x00-\x7F]`, "0a9ba9f493fa", "ε,a,b,c,0,7,_, ,\t,\n,\v,A,Z,z,-,+,\x00,\x7f,[,],^,F,g,G"},
	{`[\x00-\x1F]`, "2bcedda5b107", "ε,\t,\n,\v,\x00"},
	{`[^\x00-\x7E]`, "15f746bb0237", "\x7f"},
	{`[ -~]`, "e8f8939a01a9", "a,b,c,0,7,_, ,A,Z,z,-,+,[,],^,F,g,G"},
	{`[+--]`, "03c6e01a6d5d", "-,+"},
	{`[\x41-\x46]`, "774860c9e34c", "A,F"},
	{`[\.\$^]`, "10d961dc04a6", "^"},
	{`[\]\[]`, "edbc413933d9", "[,]"},
	{`a?`, "f7019cc42cf5", "ε,a,\x00"},
	{`a*`, "58f2e5d3612f", "ε,a,aa,aaa,aaaa,aaaaa,aaaaaa,\x00"},
	{`a+`, "d492026fe814", "a,aa,aaa,aaaa,aaaaa,aaaaaa"},
	{`a??`, "f7019cc42cf5", "ε,a,\x00"},
	{`a*?`, "58f2e5d3612f", "ε,a,aa,aaa,aaaa,aaaaa,aaaaaa,\x00"},
	{`a+?`, "d492026fe814", "a,aa,aaa,aaaa,aaaaa,aaaaaa"},
	{`a{0}`, "897cacd56ea3", "ε,\x00"},
	{`a{1}`, "79bc7df13b13", "a"},
	{`a{3}`, "cc5ee75d70cd", "aaa"},
	{`a{0,}`, "58f2e5d3612f", "ε,a,aa,aaa,aaaa,aaaaa,aaaaaa,\x00"},
	{`a{2,}`, "ac8d1b6c065a", "aa,aaa,aaaa,aaaaa,aaaaaa"},
	{`a{0,0}`, "897cacd56ea3", "ε,\x00"},
	{`a{0,1}`, "47ac3c69a23d", "ε,a,\x00"},
	{`a{2,4}`, "66f377b95f24", "aa,aaa,aaaa"},
	{`a{3,3}`, "cc5ee75d70cd", "aaa"},
	{`a{2,4}?`, "66f377b95f24", "aa,aaa,aaaa"},
	{`a{2,}?`, "ac8d1b6c065a", "aa,aaa,aaaa,aaaaa,aaaaaa"},
	{`a{3}?`, "cc5ee75d70cd", "aaa"},
	{`(ab)?`, "f77e3f2185cb", "ε,ab,\x00"},
	{`(ab)*`, "17279ed154c7", "ε,ab,abab,ababab,\x00"},
	{`(ab)+`, "4440848fe7b7", "ab,abab,ababab"},
	{`(ab){2}`, "aa27f8eab9b6", "abab"},
	{`(ab){1,}`, "4440848fe7b7", "ab,abab,ababab"},
	{`(ab){1,3}`, "78b4ecbf2c21", "ab,abab,ababab"},
	{`(ab){0,2}?`, "8c2cbcae5be6", "ε,ab,abab,\x00"},
	{`(a|b){2,3}`, "00337ca95416", "aa,ab,ba,aaa"},
	{`(a*)*`, "b6de944d802e", "ε,a,aa,aaa,aaaa,aaaaa,aaaaaa,\x00"},
	{`(a?){3}`, "296ab5624a9a", "ε,a,aa,aaa,\x00"},
	{`(a+)?b`, "8b637838fce3", "b,ab"},
	{`[ab]{2,3}c?`, "480b1a4f7c68", "aa,ab,ba,abc,aaa"},
	{`\d{1,2}`, "ea485ca353b7", "0,7,42"},
	{`.{2}`, "35c56cb9d388", "ε,a,b,c,aa,ab,ba,0,7,42,_, ,\t,\n,\v,A,Z,z,-,+,a1,1a,ac,\x00,\x7f,[,],^,F,g,G"},
	{`ab|c`, "34b2fc276d70", "c,ab"},
	{`a|b|c`, "004ed0b1ce6b", "a,b,c"},
	{`(a|b)c`, "e77e08185619", "ac"},
	{`a(b|c)*`, "264c3c212161", "a,ab,abc,ac"},
	{`(a)(b)(c)`, "6241ed5018e8", "abc"},
	{`((a))`, "79bc7df13b13", "a"},
	{`(a|b)*abb`, "a0e3dcadb4b2", ""},
	{`^ab`, "f18b1c976aa4", "ab"},
	{`ab$`, "f18b1c976aa4", "ab"},
	{`^a|b$`, "2c42bc33af05", "a,b"},
	{`[a-c]+\d*|_`, "6864d1b0aefc", "a,b,c,aa,ab,ba,abc,aaa,aaaa,aaaaa,aaaaaa,abab,ababab,_,a1,ac,abcabc"},
	{`(\w+ )*\w+`, "8849a2ee7382", "a,b,c,aa,ab,ba,abc,aaa,aaaa,aaaaa,aaaaaa,abab,ababab,0,7,42,_,A,Z,z,a1,1a,x9_,ac,abcabc,F,g,G"},
	{`-?[0-9]+(\.[0-9]+)?`, "2b3e1481a932", "0,7,42"},
}

var demoPatterns = []string{
	// literals, escapes and any char
	`a`, `abc`, `\.`, `\x41`, `\x0041`, `\$\{\}`, `.`, `a.c`,
	// escape classes and their negations
	`\s`, `\S`, `\d`, `\D`, `\w`, `\W`, `\d\w\s`, `\D+`, `\W?\w*`,
	// ASCII classes
	`[:blank:]`, `[:space:]`, `[:digit:]`, `[:xdigit:]`, `[:upper:]`, `[:lower:]`, `[:alpha:]`, `[:alnum:]`, `[:word:]`, `[:ascii:]`,
	// unicode classes and their negations (ASCII members only)
	`\p{Letter}`, `\P{Letter}`, `\p{Lu}`, `\P{Lu}`, `\p{Lt}`, `\P{Lt}`, `\p{Nd}`, `\P{N}`, `\p{Punctuation}`, `\P{P}`,
	`\p{Po}`, `\p{Symbol}`, `\P{Sm}`, `\p{Zs}`, `\P{Z}`, `\p{Latin}`, `\P{Latin}`, `\p{Greek}`, `\P{Greek}`, `\P{Han}`, `\p{Mark}`,
	// bracket groups, ranges and negations
	`[abc]`, `[^abc]`, `[a-c]`, `[^a-c]`, `[a-a]`, `[a-cx-z0-9_]`, `[^a-cx-z0-9_]`, `[\d_]`, `[^\D]`, `[\w-]`, `[^\s\S]`,
	`[[:upper:]0-9]`, `[^[:alpha:]]`, `[\p{Lu}\p{Nd}]`, `[^\P{Ll}]`, `[\x00-\x7F]`, `[\x00-\x1F]`, `[^\x00-\x7E]`, `[ -~]`, `[+--]`,
	`[\x41-\x46]`, `[\.\$^]`, `[\]\[]`,
	// quantifiers
	`a?`, `a*`, `a+`, `a??`, `a*?`, `a+?`, `a{0}`, `a{1}`, `a{3}`, `a{0,}`, `a{2,}`, `a{0,0}`, `a{0,1}`, `a{2,4}`, `a{3,3}`, `a{2,4}?`, `a{2,}?`, `a{3}?`,
	`(ab)?`, `(ab)*`, `(ab)+`, `(ab){2}`, `(ab){1,}`, `(ab){1,3}`, `(ab){0,2}?`, `(a|b){2,3}`, `(a*)*`, `(a?){3}`, `(a+)?b`, `[ab]{2,3}c?`, `\d{1,2}`, `.{2}`,
	// grouping, concatenation and alternation
	`ab|c`, `a|b|c`, `(a|b)c`, `a(b|c)*`, `(a)(b)(c)`, `((a))`, `(a|b)*abb`, `^ab`, `ab$`, `^a|b$`,
	`[a-c]+\d*|_`, `(\w+ )*\w+`, `-?[0-9]+(\.[0-9]+)?`,
}

type demoErrCase struct {
	regex string
	err   string
}

var demoErrCases = []demoErrCase{
	{`a{3,1}`, "invalid repetition range {3,1}"},
	{`(ab){2,0}?`, "invalid repetition range {2,0}"},
	{`[z-a]`, "invalid character range z-a"},
	{`[c-a]{2,1}`, "invalid character range c-a\ninvalid repetition range {2,1}"},
	{`[\x00E9]`, "unsupported non-ASCII character in character group"},
	{`[a-\x00E9]`, "unsupported non-ASCII character in character group"},
	{`[^\x0100-\x7FFFFFFF]`, "unsupported non-ASCII character in character group"},
	{`[\p{Greek}]`, "unsupported non-ASCII character in character group"},
	{`[\p{Latin}]x{2,1}`, "unsupported non-ASCII character in character group\ninvalid repetition range {2,1}"},
	{`[b-a][\x00E9]`, "invalid character range b-a\nunsupported non-ASCII character in character group"},
	{`(`, "invalid regular expression: ("},
	{`a{`, "invalid regular expression: a{"},
	{`[]`, "invalid regular expression: []"},
	{`\q`, "invalid regular expression: \\q"},
	{`\p{Foo}`, "invalid regular expression: \\p{Foo}"},
	{`*a`, "invalid regular expression: *a"},
	{``, "invalid regular expression: "},
}

func TestRefactorDemo_Parse(t *testing.T) {
	if os.Getenv("REFACTOR_DEMO_GENERATE") != "" {
		for _, p := range demoPatterns {
			n, err := Parse(p)
			if err != nil {
				t.Fatalf("%q: %v", p, err)
			}
			fmt.Printf("\t{%s, %q, %q},\n", "`"+p+"`", demoFingerprint(n), demoAccepted(n, demoProbes))
		}
		return
	}

	if len(demoCases) != len(demoPatterns) {
		t.Fatalf("corpus out of sync: %d cases, %d patterns", len(demoCases), len(demoPatterns))
	}

	for i, tc := range demoCases {
		if tc.regex != demoPatterns[i] {
			t.Fatalf("corpus out of sync at %d: %q vs %q", i, tc.regex, demoPatterns[i])
		}

		n, err := Parse(tc.regex)
		if err != nil {
			t.Errorf("%q: unexpected error %v", tc.regex, err)
			continue
		}
		if fp := demoFingerprint(n); fp != tc.fingerprint {
			t.Errorf("%q: NFA structure changed: fingerprint %s, want %s\n%s", tc.regex, fp, tc.fingerprint, n)
		}
		if acc := demoAccepted(n, demoProbes); acc != tc.accepted {
			t.Errorf("%q: accepted %q, want %q", tc.regex, acc, tc.accepted)
		}
	}
}

func TestRefactorDemo_Errors(t *testing.T) {
	for _, tc := range demoErrCases {
		n, err := Parse(tc.regex)
		if err == nil {
			t.Errorf("%q: expected error %q, got NFA\n%s", tc.regex, tc.err, n)
			continue
		}
		if n != nil {
			t.Errorf("%q: expected a nil NFA next to the error", tc.regex)
		}
		if err.Error() != tc.err {
			t.Errorf("%q: error %q, want %q", tc.regex, err.Error(), tc.err)
		}
	}
}

// A few hand-checked languages, independent of the generated corpus.
// (The empty string is left out for classes that contain NUL: the automata package uses symbol 0 for ε,
// so those classes currently accept it; the generated corpus above pins that as it is.)
func TestRefactorDemo_Language(t *testing.T) {
	tests := []struct {
		regex string
		yes   []string
		no    []string
	}{
		{`a{2,4}`, []string{"aa", "aaa", "aaaa"}, []string{"", "a", "aaaaa", "ab"}},
		{`a{2,}`, []string{"aa", "aaaaaa"}, []string{"", "a"}},
		{`a{0}`, []string{""}, []string{"a"}},
		{`a{3}?`, []string{"aaa"}, []string{"aa", "aaaa"}},
		{`(ab)+`, []string{"ab", "abab"}, []string{"", "a", "aba"}},
		{`(ab)?c`, []string{"c", "abc"}, []string{"", "ab", "ababc"}},
		{`\W`, []string{" ", "-", "\x00", "\x7f"}, []string{"a", "Z", "0", "_", "é"}},
		{`\S`, []string{"a", "\v", "\x00"}, []string{" ", "\t", "\n", "\r", "\f", "é"}},
		{`\D`, []string{"a", " "}, []string{"0", "9", "é"}},
		{`[^a-c]`, []string{"d", "\x00", "\x7f", "A"}, []string{"a", "b", "c", "é"}},
		{`[a-cx-z]`, []string{"a", "b", "c", "x", "y", "z"}, []string{"d", "w", "A", "-"}},
		{`\P{Greek}`, []string{"a", "\x00", "\x7f"}, []string{"α", "é"}},
		{`\p{Lt}`, nil, []string{"", "a", "A"}},
		{`\P{Lt}`, []string{"a", "A", "\x7f"}, []string{"é"}},
		{`[^\s\S]`, nil, []string{"", "a", " "}},
		{`.`, []string{"a", "\n", "\x00", "\x7f"}, []string{"é", "aa"}},
	}

	for _, tc := range tests {
		n, err := Parse(tc.regex)
		if err != nil {
			t.Errorf("%q: %v", tc.regex, err)
			continue
		}
		for _, s := range tc.yes {
			if !n.Accept(demoRunes(s)) {
				t.Errorf("%q should accept %q", tc.regex, s)
			}
		}
		for _, s := range tc.no {
			if n.Accept(demoRunes(s)) {
				t.Errorf("%q should not accept %q", tc.regex, s)
			}
		}
	}
}

func demoBagChars(t *testing.T, res comb.Result) []rune {
	t.Helper()
	chars, ok := res.Bag[bagKeyChars].([]rune)
	if !ok {
		t.Fatalf("no chars in the bag: %#v", res.Bag)
	}
	if chars == nil {
		t.Fatalf("chars in the bag must not be a nil slice")
	}
	return chars
}

func demoSymbols(n *auto.NFA) []rune {
	syms := []rune{}
	for _, a := range n.Symbols() {
		syms = append(syms, rune(a))
	}
	return syms
}

// The class mappers hand the characters up in table order (complements in ascending order),
// and the NFA has exactly one transition 0 --c--> 1 per character.
func TestRefactorDemo_ClassMappers(t *testing.T) {
	ascii := parser.RuneClasses["ASCII"].Runes()
	complement := func(runes []rune) []rune {
		rest := []rune{}
		for _, a := range ascii {
			found := false
			for _, r := range runes {
				found = found || r == a
			}
			if !found {
				rest = append(rest, a)
			}
		}
		return rest
	}

	check := func(name string, res comb.Result, ok bool, pos int, want []rune) {
		t.Helper()
		if !ok {
			t.Errorf("%s: not ok", name)
			return
		}
		if res.Pos != pos {
			t.Errorf("%s: pos %d, want %d", name, res.Pos, pos)
		}
		if got := demoBagChars(t, res); !reflect.DeepEqual(got, want) {
			t.Errorf("%s: chars %q, want %q", name, string(got), string(want))
		}
		n := res.Val.(*auto.NFA)
		sorted := append([]rune{}, want...)
		sort.Slice(sorted, func(i, j int) bool { return sorted[i] < sorted[j] })
		if len(sorted) > 0 && sorted[0] == rune(auto.E) {
			sorted = sorted[1:] // symbol 0 is ε for the automata package and is not listed
		}
		if got := demoSymbols(n); !reflect.DeepEqual(got, sorted) {
			t.Errorf("%s: symbols %q, want %q", name, string(got), string(sorted))
		}
		expected := auto.NewNFA(0, []auto.State{1})
		for _, c := range want {
			expected.Add(0, auto.Symbol(c), []auto.State{1})
		}
		if !n.Equal(expected) {
			t.Errorf("%s: unexpected NFA\n%s", name, n)
		}
	}

	m := new(mappers)

	// Escape classes
	for _, tc := range []struct {
		class string
		key   string
		neg   bool
	}{
		{`\s`, `\s`, false}, {`\S`, `\s`, true}, {`\d`, `\d`, false}, {`\D`, `\d`, true}, {`\w`, `\w`, false}, {`\W`, `\w`, true},
	} {
		want := parser.RuneClasses[tc.key].Runes()
		if tc.neg {
			want = complement(want)
		}
		res, ok := m.ToCharClass(comb.Result{Val: tc.class, Pos: 7})
		check(tc.class, res, ok, 7, want)
	}

	if got := string(demoBagChars(t, first(m.ToCharClass(comb.Result{Val: `\s`})))); got != " \t\n\r\f" {
		t.Errorf(`\s: chars %q`, got)
	}
	if got := string(demoBagChars(t, first(m.ToCharClass(comb.Result{Val: `\w`})))); got != "0123456789ABCDEFGHIJKLMNOPQRSTUVWXYZ_abcdefghijklmnopqrstuvwxyz" {
		t.Errorf(`\w: chars %q`, got)
	}
	if got := len(demoBagChars(t, first(m.ToCharClass(comb.Result{Val: `\W`})))); got != 128-63 {
		t.Errorf(`\W: %d chars`, got)
	}

	// Anything else is refused, including keys of the rune class table
	for _, class := range []string{``, `\x`, `\p`, `s`, `\ss`, `ASCII`, `[:blank:]`, `[:digit:]`, `Lu`, `\b`, `\T`, `\N`} {
		res, ok := m.ToCharClass(comb.Result{Val: class, Pos: 3})
		if ok || !reflect.DeepEqual(res, comb.Result{}) {
			t.Errorf("ToCharClass(%q): expected refusal, got %v, %#v", class, ok, res)
		}
	}

	// ASCII and unicode classes: every key of the table
	keys := []string{}
	for k := range parser.RuneClasses {
		keys = append(keys, k)
	}
	sort.Strings(keys)

	for _, k := range keys {
		if k == "UTF-8" {
			continue // over a million runes, never reached from the grammar
		}
		runes := parser.RuneClasses[k].Runes()

		res, ok := m.ToASCIICharClass(comb.Result{Val: k, Pos: 5})
		check("ascii "+k, res, ok, 5, runes)

		for _, prop := range []string{`\p`, `\P`} {
			want := runes
			if prop == `\P` {
				want = complement(runes)
			}
			res, ok := m.ToUnicodeCharClass(comb.Result{
				Val: comb.List{{Val: prop, Pos: 2}, {Val: '{', Pos: 4}, {Val: k, Pos: 5}, {Val: '}', Pos: 9}},
				Pos: 2,
			})
			check(prop+"{"+k+"}", res, ok, 2, want)
		}
	}

	for _, class := range []string{``, `[:nope:]`, `\S`, `ascii`} {
		if res, ok := m.ToASCIICharClass(comb.Result{Val: class}); ok || !reflect.DeepEqual(res, comb.Result{}) {
			t.Errorf("ToASCIICharClass(%q): expected refusal", class)
		}
		res, ok := m.ToUnicodeCharClass(comb.Result{Val: comb.List{{Val: `\P`}, {Val: '{'}, {Val: class}, {Val: '}'}}})
		if ok || !reflect.DeepEqual(res, comb.Result{}) {
			t.Errorf("ToUnicodeCharClass(%q): expected refusal", class)
		}
	}

	if m.errors != nil {
		t.Errorf("unexpected errors: %v", m.errors)
	}

	// Any char: no bag, every ASCII character
	res, ok := m.ToAnyChar(comb.Result{Val: '.', Pos: 11})
	if !ok || res.Pos != 11 || res.Bag != nil {
		t.Errorf("ToAnyChar: %v, %#v", ok, res)
	}
	if got := demoSymbols(res.Val.(*auto.NFA)); !reflect.DeepEqual(got, ascii[1:]) {
		t.Errorf("ToAnyChar: symbols %q", string(got))
	}
}

func first(res comb.Result, _ bool) comb.Result {
	return res
}

// Ranges: enumeration, clamping on either side of the ASCII table, and the reversed range.
func TestRefactorDemo_CharRange(t *testing.T) {
	tests := []struct {
		low, up rune
		chars   []rune
		err     string
	}{
		{'a', 'f', []rune("abcdef"), ""},
		{'a', 'a', []rune("a"), ""},
		{0x7E, 0x7F, []rune{0x7E, 0x7F}, ""},
		{0x7E, 0xE9, []rune{0x7E, 0x7F, 0x80}, ""},
		{0x7E, 0x7FFFFFFF, []rune{0x7E, 0x7F, 0x80}, ""},
		{0x100, 0x10FFFF, []rune{0x80}, ""},
		{0x80, 0x80, []rune{0x80}, ""},
		{-5, 1, []rune{-1, 0, 1}, ""},
		{-9, -3, []rune{-1}, ""},
		{'f', 'a', []rune{}, "invalid character range f-a"},
		{0xE9, 'a', []rune{}, "invalid character range é-a"},
	}

	for _, tc := range tests {
		m := new(mappers)
		res, ok := m.ToCharRange(comb.Result{
			Val: comb.List{{Val: tc.low, Pos: 2}, {Val: '-', Pos: 3}, {Val: tc.up, Pos: 4}},
			Pos: 2,
		})
		name := fmt.Sprintf("%U-%U", tc.low, tc.up)
		if !ok || res.Pos != 2 {
			t.Errorf("%s: ok %v, pos %d", name, ok, res.Pos)
		}
		if got := demoBagChars(t, res); !reflect.DeepEqual(got, tc.chars) {
			t.Errorf("%s: chars %v, want %v", name, got, tc.chars)
		}
		expected := auto.NewNFA(0, []auto.State{1})
		for _, c := range tc.chars {
			expected.Add(0, auto.Symbol(c), []auto.State{1})
		}
		if n := res.Val.(*auto.NFA); !n.Equal(expected) {
			t.Errorf("%s: unexpected NFA\n%s", name, n)
		}
		switch {
		case tc.err == "" && m.errors != nil:
			t.Errorf("%s: unexpected error %v", name, m.errors)
		case tc.err != "" && (m.errors == nil || m.errors.Error() != tc.err):
			t.Errorf("%s: error %v, want %q", name, m.errors, tc.err)
		}
	}
}

// Quantified matches and groups: the bag carries the lazy flag only for lazy quantifiers,
// and a group takes its position from the opening parenthesis.
func TestRefactorDemo_MatchAndGroup(t *testing.T) {
	three, zero := 3, 0
	quants := []struct {
		name string
		val  any
		lazy bool
		yes  []string
		no   []string
	}{
		{"none", comb.Empty{}, false, []string{"a"}, []string{"", "aa"}},
		{"?", tuple[any, bool]{p: '?', q: false}, false, []string{"", "a"}, []string{"aa"}},
		{"??", tuple[any, bool]{p: '?', q: true}, true, []string{"", "a"}, []string{"aa"}},
		{"*", tuple[any, bool]{p: '*', q: false}, false, []string{"", "a", "aaaa"}, []string{"b"}},
		{"+?", tuple[any, bool]{p: '+', q: true}, true, []string{"a", "aaa"}, []string{""}},
		{"{1,3}", tuple[any, bool]{p: tuple[int, *int]{p: 1, q: &three}, q: false}, false, []string{"a", "aa", "aaa"}, []string{"", "aaaa"}},
		{"{3,3}?", tuple[any, bool]{p: tuple[int, *int]{p: 3, q: &three}, q: true}, true, []string{"aaa"}, []string{"aa", "aaaa"}},
		{"{0,0}", tuple[any, bool]{p: tuple[int, *int]{p: 0, q: &zero}, q: false}, false, []string{""}, []string{"a"}},
		{"{2,}", tuple[any, bool]{p: tuple[int, *int]{p: 2, q: nil}, q: false}, false, []string{"aa", "aaaaa"}, []string{"", "a"}},
		{"{0,}?", tuple[any, bool]{p: tuple[int, *int]{p: 0, q: nil}, q: true}, true, []string{"", "a", "aaa"}, []string{"b"}},
	}

	for _, q := range quants {
		m := new(mappers)

		results := map[string]comb.Result{}
		res, ok := m.ToMatch(comb.Result{
			Val: comb.List{{Val: demoCharNFA(), Pos: 4}, {Val: q.val, Pos: 5}},
			Pos: 4,
		})
		if !ok || res.Pos != 4 {
			t.Errorf("ToMatch %s: ok %v, pos %d", q.name, ok, res.Pos)
		}
		results["ToMatch"] = res

		res, ok = m.ToGroup(comb.Result{
			Val: comb.List{{Val: '(', Pos: 3}, {Val: demoCharNFA(), Pos: 4}, {Val: ')', Pos: 5}, {Val: q.val, Pos: 6}},
			Pos: 3,
		})
		if !ok || res.Pos != 3 {
			t.Errorf("ToGroup %s: ok %v, pos %d", q.name, ok, res.Pos)
		}
		results["ToGroup"] = res

		for name, res := range results {
			var wantBag comb.Bag
			if q.lazy {
				wantBag = comb.Bag{bagKeyLazyQuantifier: true}
			}
			if !reflect.DeepEqual(res.Bag, wantBag) {
				t.Errorf("%s %s: bag %#v, want %#v", name, q.name, res.Bag, wantBag)
			}
			n := res.Val.(*auto.NFA)
			for _, s := range q.yes {
				if !n.Accept(demoRunes(s)) {
					t.Errorf("%s %s should accept %q", name, q.name, s)
				}
			}
			for _, s := range q.no {
				if n.Accept(demoRunes(s)) {
					t.Errorf("%s %s should not accept %q", name, q.name, s)
				}
			}
		}

		if !results["ToMatch"].Val.(*auto.NFA).Equal(results["ToGroup"].Val.(*auto.NFA)) {
			t.Errorf("%s: match and group quantify differently", q.name)
		}
		if m.errors != nil {
			t.Errorf("%s: unexpected errors %v", q.name, m.errors)
		}
	}
}

func demoCharNFA() *auto.NFA {
	n := auto.NewNFA(0, []auto.State{1})
	n.Add(0, 'a', []auto.State{1})
	return n
}
