package nfa

import (
	"strings"
	"testing"

	auto "github.com/moorara/algo/automata"
	comb "github.com/moorara/algo/parser/combinator"

	"github.com/gardenbed/emerge/internal/regex/parser"
)

// Characterization test for the refactoring of the regex front-end
// (parser.Parse whole-input check, ToRange, ToCharRange, ToCharGroup and the error collection).
// Every expectation is a concrete value; the test passes on the code before and after the refactoring.

func demoString(s string) auto.String {
	str := auto.String{}
	for _, r := range s {
		str = append(str, auto.Symbol(r))
	}
	return str
}

func TestRefactorDemo_Parse(t *testing.T) {
	const invalid = "invalid regular expression: "

	tests := []struct {
		regex   string
		err     string   // expected error text ("" means the pattern is accepted)
		states  int      // expected number of NFA states (accepted patterns only)
		accepts []string // strings the resulting NFA must accept
		rejects []string // strings the resulting NFA must reject
	}{
		// Whole-sentence acceptance: unambiguous documented constructs
		{regex: `a`, states: 2, accepts: []string{"a"}, rejects: []string{"", "b", "aa"}},
		{regex: `abc`, states: 4, accepts: []string{"abc"}, rejects: []string{"ab", "abcd"}},
		{regex: `a|b`, states: 6, accepts: []string{"a", "b"}, rejects: []string{"", "ab"}},
		{regex: `a|b|c`, states: 10, accepts: []string{"a", "b", "c"}, rejects: []string{"d", "abc"}},
		{regex: `(ab)+`, states: 7, accepts: []string{"ab", "abab"}, rejects: []string{"", "a", "aba"}},
		{regex: `(a|b)*c`, states: 9, accepts: []string{"c", "abbac"}, rejects: []string{"", "ab"}},
		{regex: `a?`, states: 6, accepts: []string{"", "a"}, rejects: []string{"aa"}},
		{regex: `a*?`, states: 4, accepts: []string{"", "aaa"}, rejects: []string{"b"}},
		{regex: `a+?b`, states: 6, accepts: []string{"ab", "aaab"}, rejects: []string{"b", "a"}},
		{regex: `.`, states: 2, accepts: []string{"a", " ", "\x01", "\x7f"}, rejects: []string{"ab", "é"}},
		{regex: `\d+`, states: 5, accepts: []string{"0", "2024"}, rejects: []string{"", "a1"}},
		{regex: `\D`, states: 2, accepts: []string{"a", "-"}, rejects: []string{"5"}},
		{regex: `\s\S`, states: 3, accepts: []string{" x", "\ty"}, rejects: []string{"x ", "  "}},
		{regex: `\w\W`, states: 3, accepts: []string{"a-", "_ "}, rejects: []string{"ab", "-a"}},
		{regex: `[:digit:][:alpha:]`, states: 3, accepts: []string{"1a", "9Z"}, rejects: []string{"a1", "11"}},
		{regex: `\p{Lu}`, states: 2, accepts: []string{"A", "Z"}, rejects: []string{"a", "1", "AB"}},
		{regex: `\x41`, states: 2, accepts: []string{"A"}, rejects: []string{"a", "x41"}},
		{regex: `\x0041`, states: 2, accepts: []string{"A"}, rejects: []string{"a"}},
		{regex: `\.\*\+\?\(\)\[\]\{\}\|\$\\`, states: 14, accepts: []string{`.*+?()[]{}|$\`}, rejects: []string{`a`}},
		{regex: `^ab$`, states: 3, accepts: []string{"ab"}, rejects: []string{"a", "ab$", "^ab"}},
		{regex: `a$b`, states: 3, accepts: []string{"ab"}, rejects: []string{"a$b"}},

		// Character groups and ranges
		{regex: `[abc]`, states: 2, accepts: []string{"a", "b", "c"}, rejects: []string{"d", "", "ab"}},
		{regex: `[^abc]`, states: 2, accepts: []string{"d", "\x01", "\x7f", " "}, rejects: []string{"a", "b", "c", "é"}},
		{regex: `[a-c]`, states: 2, accepts: []string{"a", "b", "c"}, rejects: []string{"d", "-"}},
		{regex: `[a-a]`, states: 2, accepts: []string{"a"}, rejects: []string{"b", "-"}},
		{regex: `[^a-y]`, states: 2, accepts: []string{"z", "A", "0"}, rejects: []string{"a", "m", "y"}},
		{regex: `[0-9A-Fa-f_]`, states: 2, accepts: []string{"0", "9", "A", "F", "a", "f", "_"}, rejects: []string{"G", "g", "-"}},
		{regex: `[\d\s]`, states: 2, accepts: []string{"7", " ", "\n"}, rejects: []string{"a"}},
		{regex: `[^\w]`, states: 2, accepts: []string{"-", " "}, rejects: []string{"a", "Z", "0", "_"}},
		{regex: `[[:upper:][:digit:]]`, states: 2, accepts: []string{"Q", "3"}, rejects: []string{"q"}},
		{regex: `[\x41-\x43]`, states: 2, accepts: []string{"A", "B", "C"}, rejects: []string{"D", "x"}},
		{regex: `[\x01-\x7F]`, states: 2, accepts: []string{"\x01", "a", "\x7f"}, rejects: []string{"\u0080"}},
		{regex: `[ -~]`, states: 2, accepts: []string{" ", "~", "M"}, rejects: []string{"\t", "\x7f"}},
		{regex: `[a\-z]`, states: 2, accepts: []string{"a", `\`, "z", "^"}, rejects: []string{"-", "A"}}, // "a" and the range "\" to "z"
		{regex: `[-a]`, states: 2, accepts: []string{"-", "a"}, rejects: []string{"b"}},
		{regex: `[a-]`, err: invalid + `[a-]`},

		// Repetition ranges
		{regex: `a{2}`, states: 3, accepts: []string{"aa"}, rejects: []string{"a", "aaa"}},
		{regex: `a{0}`, states: 2, accepts: []string{""}, rejects: []string{"a"}},
		{regex: `a{0,0}`, states: 2, accepts: []string{""}, rejects: []string{"a"}},
		{regex: `a{2,2}`, states: 3, accepts: []string{"aa"}, rejects: []string{"a", "aaa"}},
		{regex: `a{1,3}`, states: 12, accepts: []string{"a", "aa", "aaa"}, rejects: []string{"", "aaaa"}},
		{regex: `a{2,}`, states: 6, accepts: []string{"aa", "aaaaa"}, rejects: []string{"", "a"}},
		{regex: `a{0,}`, states: 4, accepts: []string{"", "aaa"}, rejects: []string{"b"}},
		{regex: `a{2,}?`, states: 6, accepts: []string{"aa", "aaa"}, rejects: []string{"a"}},
		{regex: `(ab){1,2}c`, states: 10, accepts: []string{"abc", "ababc"}, rejects: []string{"c", "abababc"}},
		{regex: `[0-9]{2,3}`, states: 8, accepts: []string{"12", "123"}, rejects: []string{"1", "1234"}},

		// Grammatical but meaningless patterns: rejected with an error naming the problem
		{regex: `[9-0]`, err: "invalid character range 9-0"},
		{regex: `[z-a]`, err: "invalid character range z-a"},
		{regex: `[b-a]x`, err: "invalid character range b-a"},
		{regex: `[\x43-\x41]`, err: "invalid character range C-A"},
		{regex: `[^9-0]`, err: "invalid character range 9-0"},
		{regex: `a{4,2}`, err: "invalid repetition range {4,2}"},
		{regex: `a{1,0}`, err: "invalid repetition range {1,0}"},
		{regex: `(ab){10,9}?`, err: "invalid repetition range {10,9}"},
		{regex: `[0-9]{4,2}`, err: "invalid repetition range {4,2}"},
		{regex: `[9-0]{4,2}`, err: "invalid character range 9-0\ninvalid repetition range {4,2}"},
		{regex: `[z-a][9-0]`, err: "invalid character range z-a\ninvalid character range 9-0"},
		{regex: `a{3,1}b{2,1}`, err: "invalid repetition range {3,1}\ninvalid repetition range {2,1}"},
		{regex: `[z-a9-0]+`, err: "invalid character range z-a\ninvalid character range 9-0"},

		// Non-ASCII characters in character groups
		{regex: `[\x00E9]`, err: "unsupported non-ASCII character in character group"},
		{regex: `[a\x00E9\x0100]`, err: "unsupported non-ASCII character in character group"},
		{regex: `[^\x00E9]`, err: "unsupported non-ASCII character in character group"},
		{regex: `[a-\x00E9]`, err: "unsupported non-ASCII character in character group"},
		{regex: `[\x00E9][\x00EA]`, err: "unsupported non-ASCII character in character group\nunsupported non-ASCII character in character group"},
		{regex: `[\x00E9-a]`, err: "invalid character range é-a"},
		{regex: `\x00E9`, states: 2, accepts: []string{"é"}, rejects: []string{"e"}},

		// Not a sentence: a prefix parses but a suffix or an unknown construct remains
		{regex: ``, err: invalid},
		{regex: `a)`, err: invalid + `a)`},
		{regex: `(a`, err: invalid + `(a`},
		{regex: `(a))`, err: invalid + `(a))`},
		{regex: `()`, err: invalid + `()`},
		{regex: `a|`, err: invalid + `a|`},
		{regex: `|a`, err: invalid + `|a`},
		{regex: `a||b`, err: invalid + `a||b`},
		{regex: `*a`, err: invalid + `*a`},
		{regex: `a**`, err: invalid + `a**`},
		{regex: `a??`, states: 6, accepts: []string{"", "a"}, rejects: []string{"aa", "a?"}},
		{regex: `a???`, err: invalid + `a???`},
		{regex: `a{`, err: invalid + `a{`},
		{regex: `a{}`, err: invalid + `a{}`},
		{regex: `a{,2}`, err: invalid + `a{,2}`},
		{regex: `a{1,2`, err: invalid + `a{1,2`},
		{regex: `a{1;2}`, err: invalid + `a{1;2}`},
		{regex: `a{2,1`, err: invalid + `a{2,1`},
		{regex: `a}`, err: invalid + `a}`},
		{regex: `[`, err: invalid + `[`},
		{regex: `[]`, err: invalid + `[]`},
		{regex: `[^]`, err: invalid + `[^]`},
		{regex: `[a`, err: invalid + `[a`},
		{regex: `[9-0`, err: invalid + `[9-0`},
		{regex: `a]`, err: invalid + `a]`},
		{regex: `ab\`, err: invalid + `ab\`},
		{regex: `\q`, err: invalid + `\q`},
		{regex: `a\b`, err: invalid + `a\b`},
		{regex: `\x4`, err: invalid + `\x4`},
		{regex: `\x4g`, err: invalid + `\x4g`},
		{regex: `\p{Foo}`, err: invalid + `\p{Foo}`},
		{regex: `\p{Lu`, err: invalid + `\p{Lu`},
		{regex: `[:foo:]`, states: 2, accepts: []string{":", "f", "o"}, rejects: []string{"[", "]", "foo"}}, // a character group, not a class
		{regex: `a^`, states: 3, accepts: []string{"a^"}, rejects: []string{"a"}},
		{regex: `^^a`, states: 3, accepts: []string{"^a"}, rejects: []string{"a"}},
		{regex: `^`, err: invalid + `^`},
		{regex: `$`, states: 2, accepts: []string{""}, rejects: []string{"$"}},
		{regex: "a\tb", err: invalid + "a\tb"},
		{regex: "aé", err: invalid + "aé"},
		{regex: "ab\n", err: invalid + "ab\n"},
		{regex: `(?:a)`, err: invalid + `(?:a)`},
		{regex: `a{4,2}(`, err: invalid + `a{4,2}(`},
		{regex: `[9-0])`, err: invalid + `[9-0])`},
	}

	for _, tc := range tests {
		t.Run(tc.regex, func(t *testing.T) {
			nfa, err := Parse(tc.regex)

			if tc.err != "" {
				if nfa != nil {
					t.Errorf("Parse(%q): expected a nil NFA", tc.regex)
				}
				if err == nil || err.Error() != tc.err {
					t.Fatalf("Parse(%q): expected error %q, got %v", tc.regex, tc.err, err)
				}
				return
			}

			if err != nil || nfa == nil {
				t.Fatalf("Parse(%q): expected to be accepted, got error %v", tc.regex, err)
			}

			if tc.states != 0 {
				if n := len(nfa.States()); n != tc.states {
					t.Errorf("Parse(%q): expected %d states, got %d", tc.regex, tc.states, n)
				}
			}

			for _, s := range tc.accepts {
				if !nfa.Accept(demoString(s)) {
					t.Errorf("Parse(%q): NFA expected to accept %q", tc.regex, s)
				}
			}

			for _, s := range tc.rejects {
				if nfa.Accept(demoString(s)) {
					t.Errorf("Parse(%q): NFA expected to reject %q", tc.regex, s)
				}
			}
		})
	}
}

// The front-end parser must consume the whole input and report the position and remaining input consistently.
func TestRefactorDemo_ParserParse(t *testing.T) {
	tests := []struct {
		regex string
		ok    bool
	}{
		{``, false},
		{`a`, true},
		{`ab|c`, true},
		{`^a$`, true},
		{`a)`, false},
		{`a|`, false},
		{`a{2,1}`, true}, // grammatical; the semantic error is recorded by the mappers
		{`[9-0]`, true},  // grammatical; the semantic error is recorded by the mappers
		{`a{2,1}}`, false},
		{`[9-0]]`, false},
		{strings.Repeat("(", 50) + "a" + strings.Repeat(")", 50), true},
		{strings.Repeat("(", 50) + "a" + strings.Repeat(")", 49), false},
		{strings.Repeat("(", 50) + "a" + strings.Repeat(")", 51), false},
	}

	for _, tc := range tests {
		m := new(mappers)
		out, ok := parser.New(m).Parse(tc.regex)

		if ok != tc.ok {
			t.Errorf("parser.Parse(%q): expected ok=%t, got %t", tc.regex, tc.ok, ok)
			continue
		}

		if ok {
			if out.Remaining != nil {
				t.Errorf("parser.Parse(%q): expected no remaining input", tc.regex)
			}
			if _, isNFA := out.Result.Val.(*auto.NFA); !isNFA {
				t.Errorf("parser.Parse(%q): expected an NFA result, got %T", tc.regex, out.Result.Val)
			}
		} else if out.Remaining != nil || out.Result.Val != nil || out.Result.Pos != 0 || out.Result.Bag != nil {
			t.Errorf("parser.Parse(%q): expected the zero output, got %+v", tc.regex, out)
		}
	}
}

func demoInt(v int) *int { return &v }

func TestRefactorDemo_ToRange(t *testing.T) {
	tests := []struct {
		name    string
		upper   any // the value of the optional upper_bound result
		low     int
		wantUp  *int
		wantErr string
	}{
		{name: "NoUpperBound", upper: comb.Empty{}, low: 3, wantUp: demoInt(3)},
		{name: "NoUpperBoundZero", upper: comb.Empty{}, low: 0, wantUp: demoInt(0)},
		{name: "Unbounded", upper: (*int)(nil), low: 5, wantUp: nil},
		{name: "Bounded", upper: demoInt(7), low: 5, wantUp: demoInt(7)},
		{name: "BoundedEqual", upper: demoInt(5), low: 5, wantUp: demoInt(5)},
		{name: "BoundedZero", upper: demoInt(0), low: 0, wantUp: demoInt(0)},
		{name: "Descending", upper: demoInt(4), low: 5, wantUp: demoInt(4), wantErr: "invalid repetition range {5,4}"},
		{name: "DescendingToZero", upper: demoInt(0), low: 1, wantUp: demoInt(0), wantErr: "invalid repetition range {1,0}"},
	}

	for _, tc := range tests {
		t.Run(tc.name, func(t *testing.T) {
			m := new(mappers)
			res, ok := m.ToRange(comb.Result{
				Val: comb.List{
					{Val: '{', Pos: 2},
					{Val: tc.low, Pos: 3},
					{Val: tc.upper, Pos: 4},
					{Val: '}', Pos: 6},
				},
				Pos: 2,
			})

			if !ok || res.Pos != 2 || res.Bag != nil {
				t.Fatalf("unexpected result: %+v, %t", res, ok)
			}

			tup, isTuple := res.Val.(tuple[int, *int])
			if !isTuple || tup.p != tc.low {
				t.Fatalf("unexpected value: %#v", res.Val)
			}

			switch {
			case tc.wantUp == nil && tup.q != nil:
				t.Errorf("expected an unbounded range, got %d", *tup.q)
			case tc.wantUp != nil && (tup.q == nil || *tup.q != *tc.wantUp):
				t.Errorf("expected upper bound %d, got %v", *tc.wantUp, tup.q)
			}

			if tc.wantErr == "" {
				if m.errors != nil {
					t.Errorf("expected no error, got %v", m.errors)
				}
			} else if m.errors == nil || m.errors.Error() != tc.wantErr {
				t.Errorf("expected error %q, got %v", tc.wantErr, m.errors)
			}
		})
	}
}

func TestRefactorDemo_ToCharGroup(t *testing.T) {
	item := func(chars ...rune) comb.Result {
		return comb.Result{Val: empty(), Bag: comb.Bag{bagKeyChars: chars}}
	}

	tests := []struct {
		name    string
		neg     any
		items   comb.List
		symbols int    // expected number of symbols of the resulting NFA
		has     []rune // symbols that must be present
		hasNot  []rune // symbols that must be absent
		wantErr string
	}{
		{name: "Plain", neg: comb.Empty{}, items: comb.List{item('a', 'b'), item('b', 'c')}, symbols: 3, has: []rune{'a', 'b', 'c'}, hasNot: []rune{'d'}},
		{name: "Negated", neg: '^', items: comb.List{item('a', 'b'), item('c')}, symbols: 125, has: []rune{0, 'd', 127}, hasNot: []rune{'a', 'b', 'c'}},
		{name: "Bounds", neg: comb.Empty{}, items: comb.List{item(0, 127)}, symbols: 2, has: []rune{0, 127}, hasNot: []rune{1}},
		{name: "NoBag", neg: comb.Empty{}, items: comb.List{{Val: empty()}, item('x')}, symbols: 1, has: []rune{'x'}},
		{name: "BagOfOtherType", neg: '^', items: comb.List{{Val: empty(), Bag: comb.Bag{bagKeyChars: "xyz"}}}, symbols: 128, has: []rune{'x', 'y', 'z'}},
		{name: "NoItems", neg: comb.Empty{}, items: comb.List{}, symbols: 0},
		{name: "NonASCII", neg: comb.Empty{}, items: comb.List{item('a', 128, 'b'), item(0xE9)}, symbols: 2, has: []rune{'a', 'b'}, hasNot: []rune{128, 0xE9}, wantErr: "unsupported non-ASCII character in character group"},
		{name: "NonASCIINegated", neg: '^', items: comb.List{item(128, 'a')}, symbols: 127, has: []rune{'b'}, hasNot: []rune{'a', 128}, wantErr: "unsupported non-ASCII character in character group"},
		{name: "Negative", neg: comb.Empty{}, items: comb.List{item(-1, 'q')}, symbols: 1, has: []rune{'q'}, wantErr: "unsupported non-ASCII character in character group"},
	}

	for _, tc := range tests {
		t.Run(tc.name, func(t *testing.T) {
			m := new(mappers)
			res, ok := m.ToCharGroup(comb.Result{
				Val: comb.List{
					{Val: '[', Pos: 4},
					{Val: tc.neg, Pos: 5},
					{Val: tc.items, Pos: 6},
					{Val: ']', Pos: 9},
				},
				Pos: 4,
			})

			if !ok || res.Pos != 4 || res.Bag != nil {
				t.Fatalf("unexpected result: %+v, %t", res, ok)
			}

			// The symbol 0 is included on purpose: the character group adds a transition for it like for any other.
			nfa := res.Val.(*auto.NFA)
			symbols := map[rune]bool{}
			for c := rune(-5); c < 0x400; c++ {
				if next := nfa.Next(0, auto.Symbol(c)); len(next) > 0 {
					if len(next) != 1 || next[0] != 1 {
						t.Errorf("unexpected transition on %q: %v", c, next)
					}
					symbols[c] = true
				}
			}

			if nfa.Start != 0 || len(nfa.States()) > 2 {
				t.Errorf("unexpected NFA: %s", nfa)
			}

			if len(symbols) != tc.symbols {
				t.Errorf("expected %d symbols, got %d", tc.symbols, len(symbols))
			}

			for _, c := range tc.has {
				if !symbols[c] {
					t.Errorf("expected symbol %q to be present", c)
				}
			}

			for _, c := range tc.hasNot {
				if symbols[c] {
					t.Errorf("expected symbol %q to be absent", c)
				}
			}

			if tc.wantErr == "" {
				if m.errors != nil {
					t.Errorf("expected no error, got %v", m.errors)
				}
			} else if m.errors == nil || m.errors.Error() != tc.wantErr {
				t.Errorf("expected error %q, got %v", tc.wantErr, m.errors)
			}
		})
	}
}

// Errors are accumulated in the order in which the mappers report them, including pre-existing ones.
func TestRefactorDemo_ErrorAccumulation(t *testing.T) {
	m := new(mappers)

	m.ToCharRange(comb.Result{Val: comb.List{{Val: 'z', Pos: 1}, {Val: '-', Pos: 2}, {Val: 'a', Pos: 3}}})
	m.ToCharRange(comb.Result{Val: comb.List{{Val: 'a', Pos: 1}, {Val: '-', Pos: 2}, {Val: 'a', Pos: 3}}})
	m.ToRange(comb.Result{Val: comb.List{{Val: '{'}, {Val: 9}, {Val: demoInt(8)}, {Val: '}'}}})
	m.ToCharGroup(comb.Result{Val: comb.List{
		{Val: '['},
		{Val: comb.Empty{}},
		{Val: comb.List{{Val: empty(), Bag: comb.Bag{bagKeyChars: []rune{0x3A9}}}}},
		{Val: ']'},
	}})

	want := "invalid character range z-a\ninvalid repetition range {9,8}\nunsupported non-ASCII character in character group"
	if m.errors == nil || m.errors.Error() != want {
		t.Errorf("expected error %q, got %v", want, m.errors)
	}
}
