package parser

import (
	"fmt"
	"hash/fnv"
	"os"
	"reflect"
	"strings"
	"sync"
	"testing"

	comb "github.com/moorara/algo/parser/combinator"
)

// This file characterizes the behaviour of the string cursor, of the rune class table and its accessors,
// and of the parser built by New. It passes on the code before and after the refactoring.

//==================================================< TRACE MAPPERS >==================================================

// demoTrace implements Mappers. Every mapper records its name, the position and a rendering of the value it was given,
// and hands the result on unchanged, so that a trace is a complete account of what the combinators did, in order.
type demoTrace struct {
	calls []string
}

func demoRender(v any) string {
	switch v := v.(type) {
	case rune:
		return fmt.Sprintf("%q", v)
	case string:
		return fmt.Sprintf("%q", v)
	case int:
		return fmt.Sprintf("%d", v)
	case comb.Empty:
		return "ε"
	case comb.List:
		parts := make([]string, len(v))
		for i, r := range v {
			parts[i] = fmt.Sprintf("%d:%s", r.Pos, demoRender(r.Val))
		}
		return "[" + strings.Join(parts, " ") + "]"
	default:
		return fmt.Sprintf("<%T>", v)
	}
}

func (m *demoTrace) rec(name string, r comb.Result) (comb.Result, bool) {
	m.calls = append(m.calls, fmt.Sprintf("%s@%d=%s", name, r.Pos, demoRender(r.Val)))
	return r, true
}

func (m *demoTrace) ToAnyChar(r comb.Result) (comb.Result, bool)    { return m.rec("AnyChar", r) }
func (m *demoTrace) ToSingleChar(r comb.Result) (comb.Result, bool) { return m.rec("SingleChar", r) }
func (m *demoTrace) ToCharClass(r comb.Result) (comb.Result, bool)  { return m.rec("CharClass", r) }
func (m *demoTrace) ToASCIICharClass(r comb.Result) (comb.Result, bool) {
	return m.rec("ASCIICharClass", r)
}
func (m *demoTrace) ToUnicodeCategory(r comb.Result) (comb.Result, bool) {
	return m.rec("UnicodeCategory", r)
}
func (m *demoTrace) ToUnicodeCharClass(r comb.Result) (comb.Result, bool) {
	return m.rec("UnicodeCharClass", r)
}
func (m *demoTrace) ToRepOp(r comb.Result) (comb.Result, bool)       { return m.rec("RepOp", r) }
func (m *demoTrace) ToUpperBound(r comb.Result) (comb.Result, bool)  { return m.rec("UpperBound", r) }
func (m *demoTrace) ToRange(r comb.Result) (comb.Result, bool)       { return m.rec("Range", r) }
func (m *demoTrace) ToRepetition(r comb.Result) (comb.Result, bool)  { return m.rec("Repetition", r) }
func (m *demoTrace) ToQuantifier(r comb.Result) (comb.Result, bool)  { return m.rec("Quantifier", r) }
func (m *demoTrace) ToCharInRange(r comb.Result) (comb.Result, bool) { return m.rec("CharInRange", r) }
func (m *demoTrace) ToCharRange(r comb.Result) (comb.Result, bool)   { return m.rec("CharRange", r) }
func (m *demoTrace) ToCharGroupItem(r comb.Result) (comb.Result, bool) {
	return m.rec("CharGroupItem", r)
}
func (m *demoTrace) ToCharGroup(r comb.Result) (comb.Result, bool)   { return m.rec("CharGroup", r) }
func (m *demoTrace) ToMatchItem(r comb.Result) (comb.Result, bool)   { return m.rec("MatchItem", r) }
func (m *demoTrace) ToMatch(r comb.Result) (comb.Result, bool)       { return m.rec("Match", r) }
func (m *demoTrace) ToGroup(r comb.Result) (comb.Result, bool)       { return m.rec("Group", r) }
func (m *demoTrace) ToAnchor(r comb.Result) (comb.Result, bool)      { return m.rec("Anchor", r) }
func (m *demoTrace) ToSubexprItem(r comb.Result) (comb.Result, bool) { return m.rec("SubexprItem", r) }
func (m *demoTrace) ToSubexpr(r comb.Result) (comb.Result, bool)     { return m.rec("Subexpr", r) }
func (m *demoTrace) ToExpr(r comb.Result) (comb.Result, bool)        { return m.rec("Expr", r) }
func (m *demoTrace) ToRegex(r comb.Result) (comb.Result, bool)       { return m.rec("Regex", r) }

// demoOutcome is what one isolated run of a pattern amounts to.
type demoOutcome struct {
	ok    bool
	calls int    // the number of mapper calls, including those on branches abandoned later
	sum   string // FNV-1a of the trace followed by the rendering of the final result
}

func (o demoOutcome) String() string {
	return fmt.Sprintf("{%t, %d, %q}", o.ok, o.calls, o.sum)
}

func demoRunWith(p *Parser, m *demoTrace, regex string) (demoOutcome, []string) {
	m.calls = nil
	out, ok := p.Parse(regex)

	h := fnv.New64a()
	for _, c := range m.calls {
		_, _ = h.Write([]byte(c))
		_, _ = h.Write([]byte{0})
	}
	if ok {
		_, _ = h.Write([]byte(demoRender(out.Result.Val)))
	}

	return demoOutcome{ok: ok, calls: len(m.calls), sum: fmt.Sprintf("%016x", h.Sum64())}, m.calls
}

// demoRun processes the pattern with a parser of its own.
func demoRun(regex string) (demoOutcome, []string) {
	m := new(demoTrace)
	return demoRunWith(New(m), m, regex)
}

func demoFind(calls []string, prefix string) []string {
	var found []string
	for _, c := range calls {
		if strings.HasPrefix(c, prefix) {
			found = append(found, c)
		}
	}
	return found
}

//==================================================< CURSOR >==================================================

func TestRefactorDemo_StringInput(t *testing.T) {
	type step struct {
		r   rune
		pos int
	}

	tests := []struct {
		s    string
		want []step
	}{
		{s: "", want: nil},
		{s: "a", want: []step{{'a', 0}}},
		{s: "ab", want: []step{{'a', 0}, {'b', 1}}},
		{s: "\x00", want: []step{{0, 0}}},
		{s: "hé世\U0001F600!", want: []step{{'h', 0}, {0xE9, 1}, {0x4E16, 2}, {0x1F600, 3}, {'!', 4}}},
		// Invalid encodings decode to one replacement character per offending byte; positions count runes, not bytes.
		{s: "a\xffb", want: []step{{'a', 0}, {0xFFFD, 1}, {'b', 2}}},
		{s: "\xed\xa0\x80", want: []step{{0xFFFD, 0}, {0xFFFD, 1}, {0xFFFD, 2}}},
		{s: "\xe4\xb8", want: []step{{0xFFFD, 0}, {0xFFFD, 1}}},
	}

	for _, tc := range tests {
		in := newStringInput(tc.s)
		if len(tc.want) == 0 {
			if in != nil {
				t.Errorf("%q: expected the nil input", tc.s)
			}
			continue
		}

		var got []step
		var cursors []comb.Input
		for c := in; c != nil; c = c.Remaining() {
			r, pos := c.Current()
			got = append(got, step{r, pos})
			cursors = append(cursors, c)
		}

		if !reflect.DeepEqual(got, tc.want) {
			t.Errorf("%q: got %v, want %v", tc.s, got, tc.want)
		}

		// A cursor is a value: walking on from it neither moves it nor depends on who else walked from it before.
		for i, c := range cursors {
			for k := 0; k < 3; k++ {
				if r, pos := c.Current(); (step{r, pos}) != tc.want[i] {
					t.Errorf("%q: cursor %d moved to %q,%d", tc.s, i, r, pos)
				}

				next := c.Remaining()
				switch {
				case i+1 == len(cursors):
					if next != nil {
						t.Errorf("%q: cursor %d: expected the nil input after the last rune", tc.s, i)
					}
				case next == nil:
					t.Errorf("%q: cursor %d: unexpected end of input", tc.s, i)
				default:
					if r, pos := next.Current(); (step{r, pos}) != tc.want[i+1] {
						t.Errorf("%q: cursor %d is followed by %q,%d", tc.s, i, r, pos)
					}
				}
			}
		}
	}

	// Two inputs over different strings, advanced alternately, do not see each other.
	a, b := newStringInput("xyz"), newStringInput("12")
	a = a.Remaining()
	b = b.Remaining()
	a = a.Remaining()
	if r, pos := a.Current(); r != 'z' || pos != 2 {
		t.Errorf("got %q,%d, want 'z',2", r, pos)
	}
	if r, pos := b.Current(); r != '2' || pos != 1 {
		t.Errorf("got %q,%d, want '2',1", r, pos)
	}
	if b.Remaining() != nil || a.Remaining() != nil {
		t.Errorf("expected both inputs to be exhausted")
	}

	// Many goroutines walk on from one and the same cursor (meaningful with -race).
	shared := newStringInput(strings.Repeat("ab世", 50)).Remaining()
	var wg sync.WaitGroup
	errs := make(chan string, 16)
	for g := 0; g < 16; g++ {
		wg.Add(1)
		go func() {
			defer wg.Done()
			n, want := 0, 1
			for c := shared; c != nil; c = c.Remaining() {
				r, pos := c.Current()
				if exp := []rune{'a', 'b', 0x4E16}[pos%3]; pos != want || r != exp {
					errs <- fmt.Sprintf("got %q,%d at step %d", r, pos, n)
					return
				}
				n, want = n+1, want+1
			}
			if n != 149 {
				errs <- fmt.Sprintf("walked %d runes, want 149", n)
			}
		}()
	}
	wg.Wait()
	close(errs)
	for e := range errs {
		t.Error(e)
	}
}

//==================================================< RUNE CLASSES >==================================================

// demoRunes is a collection of runes the package knows nothing about.
type demoRunes struct{}

func (demoRunes) Runes() []rune { return []rune{'x', 'y'} }

func TestRefactorDemo_RuneCollections(t *testing.T) {
	// runeList hands out the very slice it is made of.
	l := runeList{'c', 'a', 'b', 'a'}
	if got := l.Runes(); !reflect.DeepEqual(got, []rune{'c', 'a', 'b', 'a'}) || &got[0] != &l[0] {
		t.Errorf("runeList: got %q", got)
	}
	if got := (runeList{}).Runes(); got == nil || len(got) != 0 {
		t.Errorf("empty runeList: got %#v", got)
	}
	if got := (runeList(nil)).Runes(); got != nil {
		t.Errorf("nil runeList: got %#v", got)
	}

	ranges := []struct {
		r    runeRange
		want []rune
	}{
		{runeRange{'a', 'e'}, []rune{'a', 'b', 'c', 'd', 'e'}},
		{runeRange{'q', 'q'}, []rune{'q'}},
		{runeRange{0, 2}, []rune{0, 1, 2}},
		{runeRange{0x10FFFE, 0x10FFFF}, []rune{0x10FFFE, 0x10FFFF}},
		{runeRange{0xD7FF, 0xD801}, []rune{0xD7FF, 0xD800, 0xD801}}, // surrogate halves are enumerated like any other value
		{runeRange{'5', '4'}, []rune{}},                             // an empty range is an empty, non-nil slice
	}
	for _, tc := range ranges {
		got := tc.r.Runes()
		if got == nil || !reflect.DeepEqual(got, tc.want) {
			t.Errorf("runeRange %v: got %#v, want %#v", tc.r, got, tc.want)
		}
	}

	func() {
		defer func() {
			if recover() == nil {
				t.Errorf("runeRange{'9', '0'}: expected a panic")
			}
		}()
		_ = runeRange{'9', '0'}.Runes()
	}()

	classes := []struct {
		c    RuneClass
		want []rune
	}{
		{nil, []rune{}},
		{RuneClass{}, []rune{}},
		{RuneClass{runeList{}, runeRange{'1', '0'}}, []rune{}},
		{RuneClass{runeList{'-', '.'}, runeRange{'0', '3'}}, []rune{'-', '.', '0', '1', '2', '3'}},
		// Nothing is sorted or deduplicated, the members come in the order they are listed.
		{RuneClass{runeRange{'b', 'c'}, runeList{'c', 'a'}, runeRange{'a', 'b'}}, []rune{'b', 'c', 'c', 'a', 'a', 'b'}},
		// Classes nest, and collections defined elsewhere are welcome.
		{RuneClass{RuneClass{runeList{'1'}, RuneClass{runeRange{'2', '3'}}}, demoRunes{}, runeList{'4'}}, []rune{'1', '2', '3', 'x', 'y', '4'}},
	}
	for i, tc := range classes {
		got := tc.c.Runes()
		if got == nil || !reflect.DeepEqual(got, tc.want) {
			t.Errorf("class %d: got %#v, want %#v", i, got, tc.want)
		}
	}

	// The slice a class returns belongs to the caller, even if the class is a single list.
	single := RuneClass{runeList{'a', 'b'}}
	got := single.Runes()
	got[0] = 'Z'
	_ = append(got[:1], 'Q')
	if again := single.Runes(); !reflect.DeepEqual(again, []rune{'a', 'b'}) {
		t.Errorf("class shares its runes with the caller: %q", again)
	}
}

func TestRefactorDemo_RuneClassesTable(t *testing.T) {
	small := map[string]string{
		`\s`:         " \t\n\r\f",
		`\d`:         "0123456789",
		`\w`:         "0123456789ABCDEFGHIJKLMNOPQRSTUVWXYZ_abcdefghijklmnopqrstuvwxyz",
		`[:blank:]`:  " \t",
		`[:space:]`:  " \t\n\r\f\v",
		`[:digit:]`:  "0123456789",
		`[:xdigit:]`: "0123456789ABCDEFabcdef",
		`[:upper:]`:  "ABCDEFGHIJKLMNOPQRSTUVWXYZ",
		`[:lower:]`:  "abcdefghijklmnopqrstuvwxyz",
		`[:alpha:]`:  "ABCDEFGHIJKLMNOPQRSTUVWXYZabcdefghijklmnopqrstuvwxyz",
		`[:alnum:]`:  "0123456789ABCDEFGHIJKLMNOPQRSTUVWXYZabcdefghijklmnopqrstuvwxyz",
		`[:word:]`:   "0123456789ABCDEFGHIJKLMNOPQRSTUVWXYZ_abcdefghijklmnopqrstuvwxyz",
		`Letter`:     "ABCDEFGHIJKLMNOPQRSTUVWXYZabcdefghijklmnopqrstuvwxyz",
		`L`:          "ABCDEFGHIJKLMNOPQRSTUVWXYZabcdefghijklmnopqrstuvwxyz",
		`Lu`:         "ABCDEFGHIJKLMNOPQRSTUVWXYZ",
		`Ll`:         "abcdefghijklmnopqrstuvwxyz",
		`Lt`:         "", `Lm`: "", `Lo`: "",
		`Mark`: "", `M`: "", `Mn`: "", `Mc`: "", `Me`: "",
		`Number`: "0123456789",
		`N`:      "0123456789",
		`Nd`:     "0123456789",
		`Nl`:     "", `No`: "",
		`Punctuation`: "!\"#%&'()*,-./:;?@[\\]_{}",
		`P`:           "!\"#%&'()*,-./:;?@[\\]_{}",
		`Pc`:          "_",
		`Pd`:          "-",
		`Ps`:          "([{",
		`Pe`:          ")]}",
		`Pi`:          "", `Pf`: "",
		`Po`:        "!\"#%&'*,./:;?@\\",
		`Symbol`:    "$+<=>^`|~",
		`S`:         "$+<=>^`|~",
		`Sm`:        "+<=>|~",
		`Sc`:        "$",
		`Sk`:        "^`",
		`So`:        "",
		`Separator`: " ", `Z`: " ", `Zs`: " ",
		`Zl`: "", `Zp`: "",
	}

	// name --> number of runes, first rune, last rune, sum of all runes
	large := map[string][4]int64{
		`ASCII`:     {128, 0, 0x7F, 8128},
		`[:ascii:]`: {128, 0, 0x7F, 8128},
		`UTF-8`:     {0x110000, 0, 0x10FFFF, 0x110000 * 0x10FFFF / 2},
		`Latin`:     {848, 0, 0x1EFF, 2173656},
		`Greek`:     {400, 0x370, 0x1FFF, 2201272},
		`Cyrillic`:  {448, 0x400, 0x1C8F, 4940832},
		`Han`:       {92853, 0x4E00, 0x3134A, 11460394591},
		`Persian`:   {1344, 0x600, 0x103DF, 58983264},
		`Math`:      {1712, 0x2200, 0x1D7FF, 130110760},
		`Emoji`:     {1376, 0x1F300, 0x1FAFF, 176968016},
	}

	if len(RuneClasses) != len(small)+len(large) {
		t.Errorf("the table has %d entries, want %d", len(RuneClasses), len(small)+len(large))
	}

	for name, want := range small {
		rc, ok := RuneClasses[name]
		if !ok {
			t.Errorf("%s is missing", name)
			continue
		}
		got := rc.Runes()
		if got == nil || string(got) != want {
			t.Errorf("%s: got %q, want %q", name, string(got), want)
		}
	}

	for name, want := range large {
		rc, ok := RuneClasses[name]
		if !ok {
			t.Errorf("%s is missing", name)
			continue
		}
		got := rc.Runes()
		var sum int64
		for _, r := range got {
			sum += int64(r)
		}
		if have := [4]int64{int64(len(got)), int64(got[0]), int64(got[len(got)-1]), sum}; have != want {
			t.Errorf("%s: got %v, want %v", name, have, want)
		}
	}

	// Whatever a caller does to what it was given does not reach the table, not even for single-list classes.
	for _, name := range []string{`\s`, `Pc`, `[:blank:]`, `Symbol`, `ASCII`} {
		before := string(RuneClasses[name].Runes())
		got := RuneClasses[name].Runes()
		for i := range got {
			got[i] = '#'
		}
		_ = append(got[:0], '!', '!')
		if after := string(RuneClasses[name].Runes()); after != before {
			t.Errorf("%s changed from %q to %q", name, before, after)
		}
	}

	// Concurrent readers (meaningful with -race).
	var wg sync.WaitGroup
	errs := make(chan string, 8)
	for g := 0; g < 8; g++ {
		wg.Add(1)
		go func(g int) {
			defer wg.Done()
			for name, want := range small {
				got := RuneClasses[name].Runes()
				if string(got) != want {
					errs <- fmt.Sprintf("goroutine %d: %s: got %q", g, name, string(got))
					return
				}
				for i := range got {
					got[i] = rune('0' + g)
				}
			}
		}(g)
	}
	wg.Wait()
	close(errs)
	for e := range errs {
		t.Error(e)
	}
}

//==================================================< PARSER >==================================================

// The spellings of the three name productions, in no particular order.
var (
	demoCharClasses  = []string{`\w`, `\D`, `\s`, `\W`, `\d`, `\S`}
	demoASCIIClasses = []string{
		"[:ascii:]", "[:word:]", "[:alnum:]", "[:alpha:]", "[:lower:]", "[:upper:]", "[:xdigit:]", "[:digit:]", "[:space:]", "[:blank:]",
	}
	demoCategories = []string{
		"L", "Lu", "Ll", "Lt", "Lm", "Lo", "Letter", "M", "Mn", "Mc", "Me", "Mark", "N", "Nd", "Nl", "No", "Number",
		"P", "Pc", "Pd", "Ps", "Pe", "Pi", "Pf", "Po", "Punctuation", "S", "Sm", "Sc", "Sk", "So", "Symbol",
		"Z", "Zs", "Zl", "Zp", "Separator", "Latin", "Greek", "Cyrillic", "Han", "Persian", "Math", "Emoji",
	}
)

func TestRefactorDemo_Names(t *testing.T) {
	for _, name := range demoCharClasses {
		o, calls := demoRun(name)
		want := []string{fmt.Sprintf("CharClass@0=%q", name)}
		if got := demoFind(calls, "CharClass@"); !o.ok || !reflect.DeepEqual(got, want) {
			t.Errorf("%s: ok=%t, got %v, want %v", name, o.ok, got, want)
		}

		// Inside a group the name is offered to the class productions only.
		o, calls = demoRun("[^" + name + "]")
		want = []string{fmt.Sprintf("CharClass@2=%q", name)}
		if got := demoFind(calls, "CharClass@"); !o.ok || !reflect.DeepEqual(got, want) {
			t.Errorf("[^%s]: ok=%t, got %v, want %v", name, o.ok, got, want)
		}
	}

	for _, name := range demoASCIIClasses {
		// At the top level the class production is offered the name before the group production is
		// (which would read [:blank:] as the group of : b l a n k :).
		o, calls := demoRun("x" + name)
		wantTop := []string{fmt.Sprintf("ASCIICharClass@1=%q", name)}
		if got := demoFind(calls, "ASCIICharClass@"); !o.ok || !reflect.DeepEqual(got, wantTop) {
			t.Errorf("x%s: ok=%t, got %v, want %v", name, o.ok, got, wantTop)
		}
		if got := demoFind(calls, "CharGroup@"); len(got) != 0 {
			t.Errorf("x%s: got %v, want no group", name, got)
		}

		o, calls = demoRun("[" + name + "]")
		want := []string{fmt.Sprintf("ASCIICharClass@1=%q", name)}
		if got := demoFind(calls, "ASCIICharClass@"); !o.ok || !reflect.DeepEqual(got, want) {
			t.Errorf("[%s]: ok=%t, got %v, want %v", name, o.ok, got, want)
		}
	}

	for _, name := range demoCategories {
		for _, prop := range []string{`\p`, `\P`} {
			o, calls := demoRun("a" + prop + "{" + name + "}")
			want := []string{fmt.Sprintf("UnicodeCategory@4=%q", name)}
			if got := demoFind(calls, "UnicodeCategory@"); !o.ok || !reflect.DeepEqual(got, want) {
				t.Errorf("%s{%s}: ok=%t, got %v, want %v", prop, name, o.ok, got, want)
			}
			wantClass := []string{fmt.Sprintf("UnicodeCharClass@1=[1:%q 3:'{' 4:%q %d:'}']", prop, name, 4+len(name))}
			if got := demoFind(calls, "UnicodeCharClass@"); !reflect.DeepEqual(got, wantClass) {
				t.Errorf("%s{%s}: got %v, want %v", prop, name, got, wantClass)
			}
		}
	}

	// Near misses. The longest name wins only where it is listed first; a name followed by junk is no name.
	misses := []struct {
		regex    string
		ok       bool
		category []string
	}{
		{`\p{Letters}`, false, []string{`UnicodeCategory@3="Letter"`}},
		{`\p{Lx}`, false, []string{`UnicodeCategory@3="L"`}},
		{`\p{Mathematics}`, false, []string{`UnicodeCategory@3="Math"`}},
		{`\p{Marks}`, false, []string{`UnicodeCategory@3="Mark"`}},
		{`\p{Hangul}`, false, []string{`UnicodeCategory@3="Han"`}},
		{`\p{l}`, false, nil},
		{`\p{}`, false, nil},
		{`\p{Arabic}`, false, nil},
		{`\p{ L}`, false, nil},
		{`\p{Emoji`, false, []string{`UnicodeCategory@3="Emoji"`}},
		{`\pL`, false, nil},
		{`\p{Latin}\P{Greek}`, true, []string{`UnicodeCategory@3="Latin"`, `UnicodeCategory@12="Greek"`}},
		{`[\p{Nd}\P{Zs}]`, true, []string{`UnicodeCategory@4="Nd"`, `UnicodeCategory@10="Zs"`}},
	}
	for _, tc := range misses {
		o, calls := demoRun(tc.regex)
		if got := demoFind(calls, "UnicodeCategory@"); o.ok != tc.ok || !reflect.DeepEqual(got, tc.category) {
			t.Errorf("%s: ok=%t, got %v, want ok=%t, %v", tc.regex, o.ok, got, tc.ok, tc.category)
		}
	}

	for _, regex := range []string{`\q`, `\sx\Z`, `[[:blank]]`, `[[:Blank:]]`, `[[:punct:]]x[`} {
		if o, _ := demoRun(regex); o.ok {
			t.Errorf("%s: expected a failure", regex)
		}
	}
}

func TestRefactorDemo_RepOps(t *testing.T) {
	tests := []struct {
		regex string
		ok    bool
		trace string
	}{
		{`a?`, true, `SingleChar@0='a' MatchItem@0='a' RepOp@1='?' Repetition@1='?' Quantifier@1=[1:'?' 0:ε] Match@0=[0:'a' 1:[1:'?' 0:ε]] SubexprItem@0=[0:'a' 1:[1:'?' 0:ε]] Subexpr@0=[0:[0:'a' 1:[1:'?' 0:ε]]] Expr@0=[0:[0:[0:'a' 1:[1:'?' 0:ε]]] 0:ε] Regex@0=[0:ε 0:[0:[0:[0:'a' 1:[1:'?' 0:ε]]] 0:ε]]`},
		{`a*`, true, `SingleChar@0='a' MatchItem@0='a' RepOp@1='*' Repetition@1='*' Quantifier@1=[1:'*' 0:ε] Match@0=[0:'a' 1:[1:'*' 0:ε]] SubexprItem@0=[0:'a' 1:[1:'*' 0:ε]] Subexpr@0=[0:[0:'a' 1:[1:'*' 0:ε]]] Expr@0=[0:[0:[0:'a' 1:[1:'*' 0:ε]]] 0:ε] Regex@0=[0:ε 0:[0:[0:[0:'a' 1:[1:'*' 0:ε]]] 0:ε]]`},
		{`a+?`, true, `SingleChar@0='a' MatchItem@0='a' RepOp@1='+' Repetition@1='+' Quantifier@1=[1:'+' 2:'?'] Match@0=[0:'a' 1:[1:'+' 2:'?']] SubexprItem@0=[0:'a' 1:[1:'+' 2:'?']] Subexpr@0=[0:[0:'a' 1:[1:'+' 2:'?']]] Expr@0=[0:[0:[0:'a' 1:[1:'+' 2:'?']]] 0:ε] Regex@0=[0:ε 0:[0:[0:[0:'a' 1:[1:'+' 2:'?']]] 0:ε]]`},
		{`?`, false, ``},
		{`*a`, false, ``},
		{`a**`, false, `SingleChar@0='a' MatchItem@0='a' RepOp@1='*' Repetition@1='*' Quantifier@1=[1:'*' 0:ε] Match@0=[0:'a' 1:[1:'*' 0:ε]] SubexprItem@0=[0:'a' 1:[1:'*' 0:ε]] Subexpr@0=[0:[0:'a' 1:[1:'*' 0:ε]]] Expr@0=[0:[0:[0:'a' 1:[1:'*' 0:ε]]] 0:ε] Regex@0=[0:ε 0:[0:[0:[0:'a' 1:[1:'*' 0:ε]]] 0:ε]]`},
	}

	for _, tc := range tests {
		o, calls := demoRun(tc.regex)
		if got := strings.Join(calls, " "); o.ok != tc.ok || got != tc.trace {
			t.Errorf("%s: ok=%t, want %t\n got %s\nwant %s", tc.regex, o.ok, tc.ok, got, tc.trace)
		}
	}
}

// demoCorpus maps patterns to the outcome of processing them in isolation.
var demoCorpus = map[string]demoOutcome{
	``:                                 {false, 0, "cbf29ce484222325"},
	`a`:                                {true, 7, "6f11c754b5c0b3a7"},
	`^a`:                               {true, 7, "a72c5bdbb30fc7aa"},
	`^`:                                {false, 0, "cbf29ce484222325"},
	`$`:                                {true, 5, "2ba5613d351bc555"},
	`^$`:                               {true, 5, "91417b2294a6e69c"},
	`ab|cd|ef`:                         {true, 31, "d31413d6d6ef26e6"},
	`a|`:                               {false, 7, "21f3a6b06cfb149f"},
	`|a`:                               {false, 0, "cbf29ce484222325"},
	`(a|b)*abb`:                        {true, 32, "c54f0741625dc2b2"},
	`((a))`:                            {true, 15, "ff1a5b16da27af06"},
	`(a`:                               {false, 6, "4ed028b0c24bfbd0"},
	`a)`:                               {false, 7, "21f3a6b06cfb149f"},
	`()`:                               {false, 0, "cbf29ce484222325"},
	`.`:                                {true, 7, "e71f457ce690ae15"},
	`.*?x`:                             {true, 14, "2e9245a2b0350683"},
	`\.\*\?\+\(\)\[\]\{\}\$\|\\`:       {true, 55, "23bac19dd8be1e3b"},
	`\t\n`:                             {false, 0, "cbf29ce484222325"},
	`\x41`:                             {true, 7, "7f8206efaa0be8e7"},
	`\x4`:                              {false, 0, "cbf29ce484222325"},
	`\x4G`:                             {false, 0, "cbf29ce484222325"},
	`\x0041`:                           {true, 7, "7f8206efaa0be8e7"},
	`\x00004E16`:                       {true, 7, "5626f2d877ccf761"},
	`\x0010FFFFF`:                      {true, 11, "26ffa08e56876102"},
	`\xD800`:                           {true, 7, "4ac5bb1095fecf8f"},
	`\xFFFFFFFF`:                       {true, 7, "4ac5bb1095fecf8f"},
	`\xab`:                             {false, 0, "cbf29ce484222325"},
	`[a-z]`:                            {true, 12, "e3e7375d5c4d97b6"},
	`[^a-z0-9_]`:                       {true, 19, "5d1c9615ee64a203"},
	`[z-a]`:                            {true, 12, "d95b6a8e5b267216"},
	`[\x41-\x5A]`:                      {true, 12, "65b209f1c7f9d3ce"},
	`[\x0041-\x005A]+`:                 {true, 15, "394fcbbea0f058e8"},
	`[a-]`:                             {false, 4, "a983ca4521b3ecb4"},
	`[-a]`:                             {true, 14, "0807ee6849902620"},
	`[]`:                               {false, 1, "5b1521e94a388508"},
	`[^]`:                              {false, 1, "11811db8ba33fc43"},
	`[a`:                               {false, 3, "08ae836564f5f858"},
	`[\d\s\w]`:                         {true, 14, "85411c9247261f21"},
	`\d+\.\d*`:                         {true, 21, "13118eb3230b5dd6"},
	`\D\S\W`:                           {true, 15, "2880c1b3e2b369ab"},
	`[[:alpha:]_][[:alnum:]_]*`:        {true, 26, "41dd084ce3027a8f"},
	`[[:xdigit:][:space:]]{2}`:         {true, 15, "70ca32f2f35ea927"},
	`[:word:]+`:                        {true, 10, "b10c349da42c2d28"},
	`[[:digit:]`:                       {false, 2, "2a1436a9080ea198"},
	`\p{Lu}\p{Ll}*`:                    {true, 16, "65fb6d68460ef1e4"},
	`\P{Number}{1,3}?`:                 {true, 12, "9a6ea2933e3c2546"},
	`[^\p{Punctuation}\P{Symbol}]`:     {true, 14, "207794899c04d8e4"},
	`\p{Separator}|\p{Sk}|\p{Persian}`: {true, 22, "3c34b413159a4d99"},
	`\p{Lux}`:                          {false, 1, "825dccca1d6105c7"},
	`a{3}`:                             {true, 10, "5c11daf5e8aedad7"},
	`a{3,}`:                            {true, 11, "0d5d26e901b726e2"},
	`a{3,5}`:                           {true, 11, "d86f197bd121d37b"},
	`a{3,5}?`:                          {true, 11, "06b2f8819696b9a5"},
	`a{,5}`:                            {false, 7, "21f3a6b06cfb149f"},
	`a{}`:                              {false, 7, "21f3a6b06cfb149f"},
	`a{3`:                              {false, 7, "21f3a6b06cfb149f"},
	`a{5,3}`:                           {true, 11, "f837dd30b86d7ca5"},
	`a{0}`:                             {true, 10, "2be14622a38a9742"},
	`a{007}`:                           {true, 10, "2945d6d7466fd91d"},
	`a{9223372036854775807}`:           {true, 10, "5e1b57ad8faad5a6"},
	`a{9223372036854775808}`:           {false, 7, "21f3a6b06cfb149f"},
	`a{99999999999999999999999,1}`:     {false, 7, "21f3a6b06cfb149f"},
	`(ab){2,3}?c+d*e?`:                 {true, 40, "d0a6b1d6846b9f42"},
	`a??b*?c+?`:                        {true, 24, "0e819a8657ec8c69"},
	`a?*`:                              {false, 10, "7dc8ebba527fa87a"},
	`x$|^y`:                            {true, 19, "3d736e31a867513b"},
	`"([^"\\]|\\.)*"`:                  {true, 39, "0696d6dc4d2830bf"},
	`/\*([^*]|\*+[^*/])*\*+/`:          {false, 12, "6b6b0203b596ab1a"},
	`[A-Za-z_][0-9A-Za-z_]*`:           {true, 42, "2516b07f8148613a"},
	`0|[1-9][0-9]*`:                    {true, 30, "bf0d169852394109"},
	`(((((((((((((((((((((((((((((((x)))))))))))))))))))))))))))))))`: {true, 131, "7f0bba327e015865"},
	`a|b|c|d|e|f|g|h|i|j|k|l|m|n|o|p|q|r|s|t|u|v|w|x|y|z`:             {true, 157, "d14a5bb7bb4e320b"},
	`a	b`:                               {false, 7, "21f3a6b06cfb149f"},
	"a\nb":                              {false, 7, "21f3a6b06cfb149f"},
	`café`:                              {false, 15, "5fc24f1127bdd8bc"},
	`世`:                                 {false, 0, "cbf29ce484222325"},
	"a\xffb":                            {false, 7, "21f3a6b06cfb149f"},
	"\x7f":                              {false, 0, "cbf29ce484222325"},
	` `:                                 {true, 7, "e7ab6408967eb579"},
	`~`:                                 {true, 7, "9d49d93b4b75c8b1"},
	`a b`:                               {true, 15, "f5830effa7a5c0a9"},
	`\s*(\w+)\s*=\s*(\d+|"[^"]*")\s*;?`: {true, 85, "cb9391af6fd06517"},
}

func TestRefactorDemo_Corpus(t *testing.T) {
	if os.Getenv("REFACTOR_DEMO_PRINT") != "" {
		for _, regex := range demoCorpusOrder {
			o, _ := demoRun(regex)
			fmt.Printf("\t%#q: %s,\n", regex, o)
		}
		return
	}

	if len(demoCorpus) != len(demoCorpusOrder) {
		t.Fatalf("the corpus has %d outcomes for %d patterns", len(demoCorpus), len(demoCorpusOrder))
	}

	// Each pattern on its own.
	for _, regex := range demoCorpusOrder {
		if o, _ := demoRun(regex); o != demoCorpus[regex] {
			t.Errorf("%#q: got %s, want %s", regex, o, demoCorpus[regex])
		}
	}

	// One parser after all the others have been built and used, processing the corpus back to front and then again:
	// what was processed earlier leaves nothing behind.
	m := new(demoTrace)
	p := New(m)
	for round := 0; round < 2; round++ {
		for i := len(demoCorpusOrder) - 1; i >= 0; i-- {
			regex := demoCorpusOrder[i]
			if o, _ := demoRunWith(p, m, regex); o != demoCorpus[regex] {
				t.Errorf("reused parser, round %d: %#q: got %s, want %s", round, regex, o, demoCorpus[regex])
			}
		}
	}

	// Every goroutine with a parser of its own, all at once, each starting somewhere else in the corpus.
	var wg sync.WaitGroup
	errs := make(chan string, 12)
	for g := 0; g < 12; g++ {
		wg.Add(1)
		go func(g int) {
			defer wg.Done()
			m := new(demoTrace)
			p := New(m)
			for i := range demoCorpusOrder {
				regex := demoCorpusOrder[(i*7+g*5)%len(demoCorpusOrder)]
				var o demoOutcome
				if i%2 == 0 {
					o, _ = demoRunWith(p, m, regex)
				} else {
					o, _ = demoRun(regex)
				}
				if o != demoCorpus[regex] {
					errs <- fmt.Sprintf("goroutine %d: %#q: got %s, want %s", g, regex, o, demoCorpus[regex])
					return
				}
			}
		}(g)
	}
	wg.Wait()
	close(errs)
	for e := range errs {
		t.Error(e)
	}
}

var demoCorpusOrder = []string{
	``,
	`a`,
	`^a`,
	`^`,
	`$`,
	`^$`,
	`ab|cd|ef`,
	`a|`,
	`|a`,
	`(a|b)*abb`,
	`((a))`,
	`(a`,
	`a)`,
	`()`,
	`.`,
	`.*?x`,
	`\.\*\?\+\(\)\[\]\{\}\$\|\\`,
	`\t\n`,
	`\x41`,
	`\x4`,
	`\x4G`,
	`\x0041`,
	`\x00004E16`,
	`\x0010FFFFF`,
	`\xD800`,
	`\xFFFFFFFF`,
	`\xab`,
	`[a-z]`,
	`[^a-z0-9_]`,
	`[z-a]`,
	`[\x41-\x5A]`,
	`[\x0041-\x005A]+`,
	`[a-]`,
	`[-a]`,
	`[]`,
	`[^]`,
	`[a`,
	`[\d\s\w]`,
	`\d+\.\d*`,
	`\D\S\W`,
	`[[:alpha:]_][[:alnum:]_]*`,
	`[[:xdigit:][:space:]]{2}`,
	`[:word:]+`,
	`[[:digit:]`,
	`\p{Lu}\p{Ll}*`,
	`\P{Number}{1,3}?`,
	`[^\p{Punctuation}\P{Symbol}]`,
	`\p{Separator}|\p{Sk}|\p{Persian}`,
	`\p{Lux}`,
	`a{3}`,
	`a{3,}`,
	`a{3,5}`,
	`a{3,5}?`,
	`a{,5}`,
	`a{}`,
	`a{3`,
	`a{5,3}`,
	`a{0}`,
	`a{007}`,
	`a{9223372036854775807}`,
	`a{9223372036854775808}`,
	`a{99999999999999999999999,1}`,
	`(ab){2,3}?c+d*e?`,
	`a??b*?c+?`,
	`a?*`,
	`x$|^y`,
	`"([^"\\]|\\.)*"`,
	`/\*([^*]|\*+[^*/])*\*+/`,
	`[A-Za-z_][0-9A-Za-z_]*`,
	`0|[1-9][0-9]*`,
	`(((((((((((((((((((((((((((((((x)))))))))))))))))))))))))))))))`,
	`a|b|c|d|e|f|g|h|i|j|k|l|m|n|o|p|q|r|s|t|u|v|w|x|y|z`,
	"a\tb",
	"a\nb",
	"café",
	"世",
	"a\xffb",
	"\x7f",
	` `,
	`~`,
	`a b`,
	`\s*(\w+)\s*=\s*(\d+|"[^"]*")\s*;?`,
}
