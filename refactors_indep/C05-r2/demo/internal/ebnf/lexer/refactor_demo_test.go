package lexer

// Characterization test for the reader of the specification text (input.go) as it is seen through the lexer
// and through the inputBuffer methods. It uses only New, NextToken, newTextInput and the inputBuffer methods,
// so it does not depend on how the reader represents its pointers and positions.

import (
	"fmt"
	"io"
	"math/rand"
	"strings"
	"testing"
	"unicode/utf8"

	"github.com/moorara/algo/lexer"
)

// demoScan renders the tokens of src as `TERMINAL "lexeme" offset:line:column|`, followed by EOF or by `!` and the error.
func demoScan(src string) string {
	lex, err := New("f", strings.NewReader(src))
	if err != nil {
		return "new: " + err.Error()
	}

	var b strings.Builder
	for n := 0; n < 200; n++ {
		tok, err := lex.NextToken()
		if err == io.EOF {
			b.WriteString("EOF")
			return b.String()
		}
		if err != nil {
			fmt.Fprintf(&b, "!%s", err.Error())
			return b.String()
		}
		fmt.Fprintf(&b, "%s %q %d:%d:%d|", tok.Terminal, tok.Lexeme, tok.Pos.Offset, tok.Pos.Line, tok.Pos.Column)
	}

	return b.String() + "..."
}

func TestRefactorDemo_TokensLexemesPositions(t *testing.T) {
	tests := []struct{ src, expected string }{
		{"", "EOF"},
		{"grammar g;", "\"grammar\" \"grammar\" 0:1:1|\"IDENT\" \"g\" 8:1:9|\";\" \";\" 9:1:10|EOF"},
		{"  \t x", "\"IDENT\" \"x\" 4:1:5|EOF"},
		{"\r\n\r\nx", "\"IDENT\" \"x\" 4:3:1|EOF"},
		{"\rx", "\"IDENT\" \"x\" 1:1:2|EOF"},
		{"a\n\n  b", "\"IDENT\" \"a\" 0:1:1|\"IDENT\" \"b\" 5:3:3|EOF"},
		{"// c\nx", "\"IDENT\" \"x\" 5:2:1|EOF"},
		{"/* a\n b */ x", "\"IDENT\" \"x\" 11:2:7|EOF"},
		{"/* a */ */", "!lexical error at f:1:9:"},
		{"/**/x", "\"IDENT\" \"x\" 4:1:5|EOF"},
		{"/***/x", "\"IDENT\" \"x\" 5:1:6|EOF"},
		{"/* * / */x", "\"IDENT\" \"x\" 9:1:10|EOF"},
		{"\"a b\"", "!lexical error at f:1:1:\"a"},
		{"\"ab\"", "\"STRING\" \"ab\" 0:1:1|EOF"},
		{"\"a\\\"b\" x", "\"STRING\" \"a\\\\\\\"b\" 0:1:1|\"IDENT\" \"x\" 7:1:8|EOF"},
		{"\"\"", "!lexical error at f:1:1:\""},
		{"\"abc", "!lexical error at f:1:1:\"abc"},
		{"/re+/ /a\\/b/", "\"REGEX\" \"re+\" 0:1:1|\"REGEX\" \"a\\\\/b\" 6:1:7|EOF"},
		{"/ab", "!lexical error at f:1:1:/ab"},
		{"//", "EOF"},
		{"// x", "EOF"},
		{"/*", "!lexical error at f:1:1:/*"},
		{"/* x *", "!lexical error at f:1:1:/* x *"},
		{"#", "!lexical error at f:1:1:"},
		{"a #", "\"IDENT\" \"a\" 0:1:1|!lexical error at f:1:3:"},
		{"@left @right @none", "\"@left\" \"@left\" 0:1:1|\"@right\" \"@right\" 6:1:7|\"@none\" \"@none\" 13:1:14|EOF"},
		{"@lef", "!lexical error at f:1:1:@lef"},
		{"@leftx", "\"@left\" \"@left\" 0:1:1|\"IDENT\" \"x\" 5:1:6|EOF"},
		{"grammar grammars gramma g gr grammar_1", "\"grammar\" \"grammar\" 0:1:1|\"IDENT\" \"grammars\" 8:1:9|\"IDENT\" \"gramma\" 17:1:18|\"IDENT\" \"g\" 24:1:25|\"IDENT\" \"gr\" 26:1:27|\"IDENT\" \"grammar_1\" 29:1:30|EOF"},
		{"ID I A1 A_", "\"TOKEN\" \"ID\" 0:1:1|!lexical error at f:1:4:I"},
		{"$A $AB_1 $a $", "\"PREDEF\" \"$A\" 0:1:1|\"PREDEF\" \"$AB_1\" 3:1:4|!lexical error at f:1:10:$"},
		{"{{{ }}} {}", "\"{{\" \"{{\" 0:1:1|\"{\" \"{\" 2:1:3|\"}}\" \"}}\" 4:1:5|\"}\" \"}\" 6:1:7|\"{\" \"{\" 8:1:9|\"}\" \"}\" 9:1:10|EOF"},
		{"<a>=[b]|(c);", "\"<\" \"<\" 0:1:1|\"IDENT\" \"a\" 1:1:2|\">\" \">\" 2:1:3|\"=\" \"=\" 3:1:4|\"[\" \"[\" 4:1:5|\"IDENT\" \"b\" 5:1:6|\"]\" \"]\" 6:1:7|\"|\" \"|\" 7:1:8|\"(\" \"(\" 8:1:9|\"IDENT\" \"c\" 9:1:10|\")\" \")\" 10:1:11|\";\" \";\" 11:1:12|EOF"},
		{"é", "!lexical error at f:1:1:"},
		{"a é", "\"IDENT\" \"a\" 0:1:1|!lexical error at f:1:3:"},
		{"// é", "!lexical error at f:1:4:"},
		{"x\n  \xff", "\"IDENT\" \"x\" 0:1:1|!f:2:3: invalid utf-8 character"},
		{"ab\xffcd", "!f:1:3: invalid utf-8 character"},
		{"\"a\nb\"", "!lexical error at f:1:1:\"a"},
		{"/* é */", "!lexical error at f:1:1:/* "},
		{"Ab", "!lexical error at f:1:1:A"},
		{"aB", "\"IDENT\" \"a\" 0:1:1|!lexical error at f:1:2:B"},
		{"a1_b 1", "\"IDENT\" \"a1_b\" 0:1:1|!lexical error at f:1:6:"},
		{"_a", "!lexical error at f:1:1:"},
		{"a\tb", "\"IDENT\" \"a\" 0:1:1|\"IDENT\" \"b\" 2:1:3|EOF"},
		{"a\n\tb\r\n c", "\"IDENT\" \"a\" 0:1:1|\"IDENT\" \"b\" 3:2:2|\"IDENT\" \"c\" 7:3:2|EOF"},
		{"x /* 1\n2\n3 */ y // z\n w", "\"IDENT\" \"x\" 0:1:1|\"IDENT\" \"y\" 14:3:6|\"IDENT\" \"w\" 22:4:2|EOF"},
		{"\"//\" /\\// /*/ x */ y", "\"STRING\" \"//\" 0:1:1|\"REGEX\" \"\\\\/\" 5:1:6|\"IDENT\" \"y\" 19:1:20|EOF"},
		{"/ /", "\"REGEX\" \" \" 0:1:1|EOF"},
		{"/*/", "!lexical error at f:1:1:/*/"},
		{"a/**/b", "\"IDENT\" \"a\" 0:1:1|\"IDENT\" \"b\" 5:1:6|EOF"},
	}

	for _, tc := range tests {
		if got := demoScan(tc.src); got != tc.expected {
			t.Errorf("scan %q\n got: %s\nwant: %s", tc.src, got, tc.expected)
		}
	}
}

// demoPosAt is the reference: the position of the rune that begins at byte index n of text.
func demoPosAt(text string, n int) lexer.Position {
	pos := lexer.Position{Filename: "ref", Offset: 0, Line: 1, Column: 1}
	for _, r := range text[:n] {
		pos.Offset++
		if r == '\n' {
			pos.Line++
			pos.Column = 1
		} else {
			pos.Column++
		}
	}
	return pos
}

func TestRefactorDemo_TextInputDirect(t *testing.T) {
	text := "h\u00e9llo\nw\u00f6rld \u4e16\u754c\r\n\n\tx"
	var in inputBuffer = newTextInput("ref", []byte(text))

	// Retracting and evaluating with nothing pending does nothing.
	in.Retract()
	if lexeme, pos := in.Lexeme(); lexeme != "" || pos != demoPosAt(text, 0) {
		t.Fatalf("empty lexeme: %q %v", lexeme, pos)
	}
	in.Retract()

	read := func(n int) {
		t.Helper()
		for k := 0; k < n; k++ {
			if _, err := in.Next(); err != nil {
				t.Fatalf("unexpected error: %v", err)
			}
		}
	}

	// "héllo" then one rune too many, which is given back.
	read(6)
	in.Retract()
	lexeme, pos := in.Lexeme()
	if lexeme != "h\u00e9llo" || pos != (lexer.Position{Filename: "ref", Offset: 0, Line: 1, Column: 1}) {
		t.Errorf("first lexeme: %q %v", lexeme, pos)
	}

	// The newline alone, skipped.
	read(1)
	if pos := in.Skip(); pos != (lexer.Position{Filename: "ref", Offset: 5, Line: 1, Column: 6}) {
		t.Errorf("newline: %v", pos)
	}

	// "wö" read, retracted over the two-byte rune, read again together with "rld".
	read(2)
	in.Retract()
	read(4)
	lexeme, pos = in.Lexeme()
	if lexeme != "w\u00f6rld" || pos != (lexer.Position{Filename: "ref", Offset: 6, Line: 2, Column: 1}) {
		t.Errorf("second lexeme: %q %v", lexeme, pos)
	}

	// Blank, two three-byte runes, CR LF LF and a tab in one lexeme; one rune too many; two retractions, the tab again.
	read(8)
	in.Retract()
	in.Retract()
	read(1)
	lexeme, pos = in.Lexeme()
	if lexeme != " \u4e16\u754c\r\n\n\t" || pos != (lexer.Position{Filename: "ref", Offset: 11, Line: 2, Column: 6}) {
		t.Errorf("third lexeme: %q %v", lexeme, pos)
	}

	// The end of the input is not latched: it is reported, the last rune can be given back and read again.
	read(1)
	if r, err := in.Next(); r != 0 || err != io.EOF {
		t.Errorf("end of input: %q %v", r, err)
	}
	in.Retract()
	if r, err := in.Next(); r != 'x' || err != nil {
		t.Errorf("last rune again: %q %v", r, err)
	}
	if r, err := in.Next(); r != 0 || err != io.EOF {
		t.Errorf("end of input again: %q %v", r, err)
	}
	lexeme, pos = in.Lexeme()
	if lexeme != "x" || pos != (lexer.Position{Filename: "ref", Offset: 18, Line: 4, Column: 2}) {
		t.Errorf("last lexeme: %q %v", lexeme, pos)
	}
	if pos := in.Skip(); pos != (lexer.Position{Filename: "ref", Offset: 19, Line: 4, Column: 3}) {
		t.Errorf("position of the end: %v", pos)
	}
}

func TestRefactorDemo_InvalidUTF8(t *testing.T) {
	tests := []struct {
		text     string
		good     int // Number of runes that can be read.
		expected string
	}{
		{"\xff", 0, "ref:1:1: invalid utf-8 character"},
		{"a\n\xff", 2, "ref:2:1: invalid utf-8 character"},
		{"a\r\xc3", 2, "ref:1:3: invalid utf-8 character"},
		{"\u00e9\n\n\u4e16b\xe4\xb8", 5, "ref:3:3: invalid utf-8 character"},
		{"ab\xc0\x80", 2, "ref:1:3: invalid utf-8 character"},
	}

	for _, tc := range tests {
		var in inputBuffer = newTextInput("ref", []byte(tc.text))
		for k := 0; k < tc.good; k++ {
			if _, err := in.Next(); err != nil {
				t.Fatalf("%q: unexpected error: %v", tc.text, err)
			}
		}

		// The error does not move the pointer, so it is reported again.
		for k := 0; k < 2; k++ {
			r, err := in.Next()
			if r != 0 || err == nil || err.Error() != tc.expected {
				t.Errorf("%q: got %q %v, want %s", tc.text, r, err, tc.expected)
			}
		}

		// A literal U+FFFD is a valid rune.
		in = newTextInput("ref", []byte("\ufffd"))
		if r, err := in.Next(); r != utf8.RuneError || err != nil {
			t.Errorf("U+FFFD: %q %v", r, err)
		}
	}
}

// Random walks over random texts, compared with the reference position.
func TestRefactorDemo_RandomWalk(t *testing.T) {
	alphabet := []string{"a", "B", "_", " ", "\t", "\n", "\n", "\r", "\r\n", "\u00e9", "\u4e16", "\U0001F600", "\ufffd", "/", "*", "\x00", "\xff", "\xe4\xb8"}
	rng := rand.New(rand.NewSource(5))

	for round := 0; round < 300; round++ {
		// The walk cannot get past an invalid byte, so two rounds out of three use valid texts only.
		letters := alphabet
		if round%3 != 0 {
			letters = alphabet[:len(alphabet)-2]
		}

		var sb strings.Builder
		for n := rng.Intn(40); n > 0; n-- {
			sb.WriteString(letters[rng.Intn(len(letters))])
		}
		text := sb.String()

		var in inputBuffer = newTextInput("ref", []byte(text))
		begin, forward := 0, 0 // Byte indices, kept by the test.

		for step := 0; step < 200; step++ {
			switch op := rng.Intn(10); {
			case op < 6:
				r, err := in.Next()
				if forward == len(text) {
					if r != 0 || err != io.EOF {
						t.Fatalf("%q: end of input: %q %v", text, r, err)
					}
				} else {
					want, size := utf8.DecodeRuneInString(text[forward:])
					if want == utf8.RuneError && size == 1 {
						// An invalid byte is reported at the position of the forward pointer, which stays where it is.
						msg := fmt.Sprintf("%s: invalid utf-8 character", demoPosAt(text, forward))
						if r != 0 || err == nil || err.Error() != msg {
							t.Fatalf("%q at %d: got %q %v, want %s", text, forward, r, err, msg)
						}
					} else if forward += size; r != want || err != nil {
						t.Fatalf("%q at %d: got %q %v, want %q", text, forward, r, err, want)
					}
				}

			case op < 8:
				in.Retract()
				if forward > begin {
					_, size := utf8.DecodeLastRuneInString(text[begin:forward])
					forward -= size
				}

			case op < 9:
				lexeme, pos := in.Lexeme()
				if lexeme != text[begin:forward] || pos != demoPosAt(text, begin) {
					t.Fatalf("%q [%d:%d]: lexeme %q %v, want %q %v", text, begin, forward, lexeme, pos, text[begin:forward], demoPosAt(text, begin))
				}
				begin = forward

			default:
				if pos := in.Skip(); pos != demoPosAt(text, begin) {
					t.Fatalf("%q [%d:%d]: skip %v, want %v", text, begin, forward, pos, demoPosAt(text, begin))
				}
				begin = forward
			}
		}
	}
}
