package parser_test

// Characterization test for the semantic mappers ToCharRange, ToUnicodeCharClass, ToRange and ToUpperBound
// of both mapper sets (internal/regex/parser/nfa and internal/regex/parser/ast).
//
// Every pattern is parsed with nfa.Parse and with ast.Parse, and the complete observable outcome is compared with
// the values recorded below: the error text, or else the structure of the result (the rendered syntax tree and the
// printed automaton, or a hash and the length of them when they are long) and the verdicts on some sample strings.
//
// Run with REFACTOR_DEMO_PRINT=1 to print the outcomes instead of comparing them.

import (
	"fmt"
	"hash/fnv"
	"os"
	"strings"
	"testing"
	"time"

	auto "github.com/moorara/algo/automata"

	"github.com/gardenbed/emerge/internal/regex/parser/ast"
	"github.com/gardenbed/emerge/internal/regex/parser/nfa"
)

// digest returns s itself if it is short and a hash with the length of s otherwise.
func digest(s string) string {
	if len(s) <= 100 {
		return s
	}

	h := fnv.New64a()
	_, _ = h.Write([]byte(s))

	return fmt.Sprintf("fnv64a:%016x len=%d", h.Sum64(), len(s))
}

func renderNode(b *strings.Builder, n ast.Node) {
	switch v := n.(type) {
	case *ast.Concat:
		b.WriteString("C(")
		for i, e := range v.Exprs {
			if i > 0 {
				b.WriteString(" ")
			}
			renderNode(b, e)
		}
		b.WriteString(")")
	case *ast.Alt:
		b.WriteString("A(")
		for i, e := range v.Exprs {
			if i > 0 {
				b.WriteString(" ")
			}
			renderNode(b, e)
		}
		b.WriteString(")")
	case *ast.Star:
		b.WriteString("S(")
		renderNode(b, v.Expr)
		b.WriteString(")")
	case *ast.Empty:
		b.WriteString("e")
	case *ast.Char:
		fmt.Fprintf(b, "%x@%d", v.Val, v.Pos)
	default:
		fmt.Fprintf(b, "?%T", n)
	}
}

func toString(s string) auto.String {
	res := auto.String{}
	for _, r := range s {
		res = append(res, auto.Symbol(r))
	}
	return res
}

// samples are the strings whose acceptance is recorded for every accepted pattern.
var samples = []string{
	"", "a", "b", "c", "d", "z", "A", "Z", "0", "9", "_", "-", "+", " ", "~", "!", "\x00", "\x7f", "é", "λ", "Ж",
	"aa", "aaa", "aaaa", "aaaaa", "ab", "abab", "ababab", "ac", "cab", "bca", "abc", "abcd", "xyz", "a-", "{", "}",
	"aaaaaaaaaa", "b5", "Zz", "09", "$", "^", "|", "\t", "\n",
}

func verdicts(accept func(auto.String) bool) string {
	var b strings.Builder
	for _, s := range samples {
		if accept(toString(s)) {
			b.WriteByte('1')
		} else {
			b.WriteByte('0')
		}
	}
	return b.String()
}

// outcome is everything that is observed for one pattern.
type outcome struct {
	nfaErr, nfaShape, nfaAccepts string
	astErr, astShape, astAccepts string
}

func observe(pattern string) outcome {
	var o outcome

	if n, err := nfa.Parse(pattern); err != nil {
		o.nfaErr = err.Error()
	} else {
		o.nfaShape = digest(n.String())
		o.nfaAccepts = verdicts(n.Accept)
	}

	if a, err := ast.Parse(pattern); err != nil {
		o.astErr = err.Error()
	} else {
		var b strings.Builder
		renderNode(&b, a.Root)
		o.astShape = digest(b.String())
		o.astAccepts = verdicts(a.ToDFA().Accept)
	}

	return o
}

var unicodeCategories = []string{
	"Letter", "Math", "Emoji", "Latin", "Greek", "Cyrillic", "Han", "Persian",
	"Lu", "Ll", "Lt", "Lm", "Lo", "L", "Mark", "Mn", "Mc", "Me", "M", "Number", "Nd", "Nl", "No", "N",
	"Punctuation", "Pc", "Pd", "Ps", "Pe", "Pi", "Pf", "Po", "P", "Separator", "Zs", "Zl", "Zp", "Z",
	"Symbol", "Sm", "Sc", "Sk", "So", "S",
}

func demoPatterns() []string {
	patterns := []string{
		// Character ranges
		`[a-c]`, `[a-a]`, `[^a-c]`, `[a-cx-z]`, `[a-c-e]`, `[a-]`, `[-a]`, `[+--]`, `[--+]`, `[!-~]`, `[^!-~]`, `[ -~]+`,
		`[c-a]`, `[z-a9-0]`, `[^c-a]`, `[b-a]x`, `x[b-a]`, `[a-cc-a]`, `[c-aa-c]`, `[a-c]|[c-a]`, `([z-a])*`,
		`[\x41-\x5A]`, `[\x5A-\x41]`, `[\x00-\x7F]`, `[\x00-\x7F]*`, `[\x7F-\x00]`, `[a-\x7F]`, `[\x00-a]`, `[\x7F-\x7F]`,
		`[a-\x0080]`, `[a-\x00E9]`, `[\x0080-\x0100]`, `[\x0100-\x0080]`, `[a-\x7FFFFFFF]`, `[\x0000-\x7FFFFFFF]`,
		`[\x7FFFFFFF-a]`, `[\x80000000-a]`, `[a-\x80000000]`, `[\xFFFFFFFF-\xFFFFFFFF]`, `[\x0010FFFF-\x00110000]`,
		`[^a-\x0080]`, `[\x0080-\x0080]`, `[\x007F-\x0080]`, `[\x0061-\x0063]`, `[\x0063-\x0061]`,
		`[a-\x0080c-a]`, `[c-aa-\x0080]`, `[a-c`, `[a-c]]`, `a-c`, `[a--]`, `[]`, `[^]`, `[\d-z]`, `[a-\d]`, `[a-b-c-d]`,
		`[\.-\]]`, `[\]-\.]`, `[a-c]{2}`, `[c-a]{3,1}`, `[c-a]{1,3}`, `[a-c]{3,1}`, `[a-c]{2,3}`, `[a-c]{0,}`,

		// Repetition ranges
		`a{2}`, `a{0}`, `a{1}`, `a{0,}`, `a{1,}`, `a{2,}`, `a{0,0}`, `a{0,1}`, `a{1,1}`, `a{2,4}`, `a{4,4}`, `a{10}`,
		`a{4,2}`, `a{1,0}`, `a{10,2}`, `a{2,1}`, `a{3,1}b{5,0}`, `a{3,1}b{1,5}`, `a{1,3}b{5,0}`, `(a{2,1}){2,1}`,
		`a{02,03}`, `a{03,02}`, `a{2,}?`, `a{2,4}?`, `a{4,2}?`, `a{2}?`, `(ab){1,2}`, `(ab){2,1}`, `(a|b){2}`, `.{0,1}`,
		`a{,3}`, `a{}`, `a{,}`, `a{2,3`, `a{2`, `a{ 2}`, `a{2 }`, `a{2, 3}`, `a{2,3}{2}`, `a{-1}`, `a{1,-1}`, `a{a}`,
		`a{2,b}`, `{2}`, `a{2}}`, `a{2,3,4}`, `a{+2}`, `a{2}*`, `a*{2}`, `a{1,2}|b{2,1}`, `ab{2}c{1,}d{0,1}`,
		`a{99999999999999999999}`, `a{1,99999999999999999999}`, `a{99999999999999999999,1}`,
		`a\{2,1\}`, `a\{2}`, `[a{2,1}]`, `[{-}]`, `[}-{]`,

		// Unicode character classes
		`\p{Latin}`, `\P{Latin}`, `\p{Nd}+`, `\P{Nd}+`, `\p{L}\p{N}`, `\p{Lu}\P{Lu}`, `[\p{Nd}]`, `[^\p{Nd}]`, `[\P{Nd}]`,
		`[\p{Latin}]`, `[\P{Latin}]`, `[\p{Greek}]`, `[\P{Greek}]`, `[\p{L}\p{N}_]+`, `\p{L}{2,1}`, `\P{L}{1,2}`,
		`[\p{Lu}-\p{Ll}]`, `[a-\p{L}]`, `\p{Foo}`, `\P{Foo}`, `\p{}`, `\p{Latin`, `\pL`, `\p`, `\P`, `\p{latin}`,
		`\p{L }`, `\p{Letters}`, `\p{Lx}`, `\p{LuLl}`, `\p{L}}`, `\q{L}`, `\p[L]`, `\p{L|N}`, `\p{Zl}`, `\P{Zl}`,
		`\p{Mark}*`, `\P{Mark}*`, `(\p{Sm}|\P{Sm})`, `^\p{Lu}\p{Ll}*$`, `\p{Lu}?`, `\P{Lu}??`,
	}

	for _, c := range unicodeCategories {
		patterns = append(patterns, `\P{`+c+`}`, `[\p{`+c+`}]`, `[^\P{`+c+`}x]`)

		// The automata for the tens of thousands of characters of Han take minutes to build
		if c != "Han" {
			patterns = append(patterns, `\p{`+c+`}`)
		}
	}

	// Drop the patterns that are listed twice
	seen := map[string]bool{}
	unique := patterns[:0]
	for _, p := range patterns {
		if !seen[p] {
			seen[p] = true
			unique = append(unique, p)
		}
	}

	return unique
}

func TestRefactorDemo(t *testing.T) {
	patterns := demoPatterns()

	if os.Getenv("REFACTOR_DEMO_PRINT") != "" {
		for _, p := range patterns {
			o := observe(p)
			fmt.Printf("\t%q: {\n\t\t%q, %q, %q,\n\t\t%q, %q, %q,\n\t},\n",
				p, o.nfaErr, o.nfaShape, o.nfaAccepts, o.astErr, o.astShape, o.astAccepts)
		}
		return
	}

	if len(expectedOutcomes) != len(patterns) {
		t.Fatalf("%d outcomes are recorded for %d patterns", len(expectedOutcomes), len(patterns))
	}

	for _, p := range patterns {
		expected, ok := expectedOutcomes[p]
		if !ok {
			t.Errorf("no outcome is recorded for %q", p)
			continue
		}

		start := time.Now()
		o := observe(p)
		if d := time.Since(start); d > 30*time.Second {
			t.Errorf("%q took %s", p, d)
		}

		if o != expected {
			t.Errorf("%q:\n     got %#v\nexpected %#v", p, o, expected)
		}
	}
}

// TestRefactorDemo_Property spells out what the property says about a handful of the patterns above,
// independently of the recorded outcomes.
func TestRefactorDemo_Property(t *testing.T) {
	parse := map[string]func(string) error{
		"nfa": func(p string) error { _, err := nfa.Parse(p); return err },
		"ast": func(p string) error { _, err := ast.Parse(p); return err },
	}

	accepted := []string{
		`[a-c]`, `[a-a]`, `[\x00-\x7F]`, `a{2}`, `a{0}`, `a{2,}`, `a{2,2}`, `a{0,0}`, `a{2,4}?`, `\p{Latin}`, `\P{Nd}+`,
	}

	rejected := map[string]string{
		`[c-a]`:           "invalid character range c-a",
		`[\x5A-\x41]`:     "invalid character range Z-A",
		`[z-a9-0]`:        "invalid character range z-a\ninvalid character range 9-0",
		`a{4,2}`:          "invalid repetition range {4,2}",
		`a{1,0}`:          "invalid repetition range {1,0}",
		`a{3,1}b{5,0}`:    "invalid repetition range {3,1}\ninvalid repetition range {5,0}",
		`[c-a]{3,1}`:      "invalid character range c-a\ninvalid repetition range {3,1}",
		`[a-\x7FFFFFFF]`:  "unsupported non-ASCII character in character group",
		`[\x0080-\x0100]`: "unsupported non-ASCII character in character group",
		`a{,3}`:           "invalid regular expression: a{,3}",
		`a{2,3`:           "invalid regular expression: a{2,3",
		`a{2}}`:           "invalid regular expression: a{2}}",
		`[a-c]]`:          "invalid regular expression: [a-c]]",
		`\p{Foo}`:         `invalid regular expression: \p{Foo}`,
		`\p{L}}`:          `invalid regular expression: \p{L}}`,
		`\pL`:             `invalid regular expression: \pL`,
	}

	for name, f := range parse {
		for _, p := range accepted {
			if err := f(p); err != nil {
				t.Errorf("%s: %q is rejected: %s", name, p, err)
			}
		}

		for p, msg := range rejected {
			if err := f(p); err == nil {
				t.Errorf("%s: %q is accepted", name, p)
			} else if err.Error() != msg {
				t.Errorf("%s: %q is rejected with %q, expected %q", name, p, err, msg)
			}
		}
	}
}

// expectedOutcomes were recorded on the code before the refactoring.
var expectedOutcomes = map[string]outcome{
	"[a-c]": {
		"", "Start state: 0\nFinal states: 1\nTransitions:\n  (0, a) --> {1}\n  (0, b) --> {1}\n  (0, c) --> {1}\n", "0111000000000000000000000000000000000000000000",
		"", "C(C(A(61@1 62@2 63@3)) eeee@4)", "0111000000000000000000000000000000000000000000",
	},
	"[a-a]": {
		"", "Start state: 0\nFinal states: 1\nTransitions:\n  (0, a) --> {1}\n", "0100000000000000000000000000000000000000000000",
		"", "C(C(A(61@1)) eeee@2)", "0100000000000000000000000000000000000000000000",
	},
	"[^a-c]": {
		"", "fnv64a:ea7952ba6a933734 len=2170", "1000111111111111110000000000000000011000011111",
		"", "fnv64a:a729ea4b6f09ae87 len=768", "0000111111111111110000000000000000011000011111",
	},
	"[a-cx-z]": {
		"", "fnv64a:6c39abfb585da890 len=146", "0111010000000000000000000000000000000000000000",
		"", "C(C(A(61@1 62@2 63@3 78@4 79@5 7a@6)) eeee@7)", "0111010000000000000000000000000000000000000000",
	},
	"[a-c-e]": {
		"", "fnv64a:df8d291aa2422bbf len=129", "0111000000010000000000000000000000000000000000",
		"", "C(C(A(2d@1 61@2 62@3 63@4 65@5)) eeee@6)", "0111000000010000000000000000000000000000000000",
	},
	"[a-]": {
		"invalid regular expression: [a-]", "", "",
		"invalid regular expression: [a-]", "", "",
	},
	"[-a]": {
		"", "Start state: 0\nFinal states: 1\nTransitions:\n  (0, -) --> {1}\n  (0, a) --> {1}\n", "0100000000010000000000000000000000000000000000",
		"", "C(C(A(2d@1 61@2)) eeee@3)", "0100000000010000000000000000000000000000000000",
	},
	"[+--]": {
		"", "Start state: 0\nFinal states: 1\nTransitions:\n  (0, +) --> {1}\n  (0, ,) --> {1}\n  (0, -) --> {1}\n", "0000000000011000000000000000000000000000000000",
		"", "C(C(A(2b@1 2c@2 2d@3)) eeee@4)", "0000000000011000000000000000000000000000000000",
	},
	"[--+]": {
		"invalid character range --+", "", "",
		"invalid character range --+", "", "",
	},
	"[!-~]": {
		"", "fnv64a:9ba00231cc0c9bd4 len=1642", "0111111111111011000000000000000000011000011100",
		"", "fnv64a:6691489e3d7ad6a0 len=571", "0111111111111011000000000000000000011000011100",
	},
	"[^!-~]": {
		"", "fnv64a:7f55856af8c21fe7 len=623", "1000000000000100110000000000000000000000000011",
		"", "fnv64a:3e1af4e194cd21e6 len=195", "0000000000000100110000000000000000000000000011",
	},
	"[ -~]+": {
		"", "fnv64a:540a6dc9bcb97be3 len=3316", "0111111111111111000001111111111111111111111100",
		"", "fnv64a:7c1aa0496ef28d91 len=1248", "0111111111111111000001111111111111111111111100",
	},
	"[c-a]": {
		"invalid character range c-a", "", "",
		"invalid character range c-a", "", "",
	},
	"[z-a9-0]": {
		"invalid character range z-a\ninvalid character range 9-0", "", "",
		"invalid character range z-a\ninvalid character range 9-0", "", "",
	},
	"[^c-a]": {
		"invalid character range c-a", "", "",
		"invalid character range c-a", "", "",
	},
	"[b-a]x": {
		"invalid character range b-a", "", "",
		"invalid character range b-a", "", "",
	},
	"x[b-a]": {
		"invalid character range b-a", "", "",
		"invalid character range b-a", "", "",
	},
	"[a-cc-a]": {
		"invalid character range c-a", "", "",
		"invalid character range c-a", "", "",
	},
	"[c-aa-c]": {
		"invalid character range c-a", "", "",
		"invalid character range c-a", "", "",
	},
	"[a-c]|[c-a]": {
		"invalid character range c-a", "", "",
		"invalid character range c-a", "", "",
	},
	"([z-a])*": {
		"invalid character range z-a", "", "",
		"invalid character range z-a", "", "",
	},
	"[\\x41-\\x5A]": {
		"", "fnv64a:0085264c8187df70 len=486", "0000001100000000000000000000000000000000000000",
		"", "fnv64a:c8214fe5d17a83a8 len=163", "0000001100000000000000000000000000000000000000",
	},
	"[\\x5A-\\x41]": {
		"invalid character range Z-A", "", "",
		"invalid character range Z-A", "", "",
	},
	"[\\x00-\\x7F]": {
		"", "fnv64a:06b8ae769a8e1ea2 len=2221", "1111111111111111110000000000000000011000011111",
		"", "fnv64a:50c4eb6768be6854 len=789", "0111111111111111110000000000000000011000011111",
	},
	"[\\x00-\\x7F]*": {
		"", "fnv64a:217aaddc70cd91ab len=2263", "1111111111111111110001111111111111111111111111",
		"", "fnv64a:6c1016671347d55a len=792", "1111111111111111110001111111111111111111111111",
	},
	"[\\x7F-\\x00]": {
		"invalid character range \x7f-\x00", "", "",
		"invalid character range \x7f-\x00", "", "",
	},
	"[a-\\x7F]": {
		"", "fnv64a:9cb2ab1a7771e90b len=571", "0111110000000010010000000000000000011000000100",
		"", "fnv64a:dbfe876fca091686 len=193", "0111110000000010010000000000000000011000000100",
	},
	"[\\x00-a]": {
		"", "fnv64a:17c15f64284b69c9 len=1711", "1100001111111101100000000000000000000000011011",
		"", "fnv64a:0557977b4dac71b6 len=579", "0100001111111101100000000000000000000000011011",
	},
	"[\\x7F-\\x7F]": {
		"", "Start state: 0\nFinal states: 1\nTransitions:\n  (0, \x7f) --> {1}\n", "0000000000000000010000000000000000000000000000",
		"", "C(C(A(7f@1)) eeee@2)", "0000000000000000010000000000000000000000000000",
	},
	"[a-\\x0080]": {
		"unsupported non-ASCII character in character group", "", "",
		"unsupported non-ASCII character in character group", "", "",
	},
	"[a-\\x00E9]": {
		"unsupported non-ASCII character in character group", "", "",
		"unsupported non-ASCII character in character group", "", "",
	},
	"[\\x0080-\\x0100]": {
		"unsupported non-ASCII character in character group", "", "",
		"unsupported non-ASCII character in character group", "", "",
	},
	"[\\x0100-\\x0080]": {
		"invalid character range Ā-\u0080", "", "",
		"invalid character range Ā-\u0080", "", "",
	},
	"[a-\\x7FFFFFFF]": {
		"unsupported non-ASCII character in character group", "", "",
		"unsupported non-ASCII character in character group", "", "",
	},
	"[\\x0000-\\x7FFFFFFF]": {
		"unsupported non-ASCII character in character group", "", "",
		"unsupported non-ASCII character in character group", "", "",
	},
	"[\\x7FFFFFFF-a]": {
		"invalid character range �-a", "", "",
		"invalid character range �-a", "", "",
	},
	"[\\x80000000-a]": {
		"unsupported non-ASCII character in character group", "", "",
		"unsupported non-ASCII character in character group", "", "",
	},
	"[a-\\x80000000]": {
		"invalid character range a-�", "", "",
		"invalid character range a-�", "", "",
	},
	"[\\xFFFFFFFF-\\xFFFFFFFF]": {
		"unsupported non-ASCII character in character group", "", "",
		"unsupported non-ASCII character in character group", "", "",
	},
	"[\\x0010FFFF-\\x00110000]": {
		"unsupported non-ASCII character in character group", "", "",
		"unsupported non-ASCII character in character group", "", "",
	},
	"[^a-\\x0080]": {
		"unsupported non-ASCII character in character group", "", "",
		"unsupported non-ASCII character in character group", "", "",
	},
	"[\\x0080-\\x0080]": {
		"unsupported non-ASCII character in character group", "", "",
		"unsupported non-ASCII character in character group", "", "",
	},
	"[\\x007F-\\x0080]": {
		"unsupported non-ASCII character in character group", "", "",
		"unsupported non-ASCII character in character group", "", "",
	},
	"[\\x0061-\\x0063]": {
		"", "Start state: 0\nFinal states: 1\nTransitions:\n  (0, a) --> {1}\n  (0, b) --> {1}\n  (0, c) --> {1}\n", "0111000000000000000000000000000000000000000000",
		"", "C(C(A(61@1 62@2 63@3)) eeee@4)", "0111000000000000000000000000000000000000000000",
	},
	"[\\x0063-\\x0061]": {
		"invalid character range c-a", "", "",
		"invalid character range c-a", "", "",
	},
	"[a-\\x0080c-a]": {
		"invalid character range c-a\nunsupported non-ASCII character in character group", "", "",
		"invalid character range c-a\nunsupported non-ASCII character in character group", "", "",
	},
	"[c-aa-\\x0080]": {
		"invalid character range c-a\nunsupported non-ASCII character in character group", "", "",
		"invalid character range c-a\nunsupported non-ASCII character in character group", "", "",
	},
	"[a-c": {
		"invalid regular expression: [a-c", "", "",
		"invalid regular expression: [a-c", "", "",
	},
	"[a-c]]": {
		"invalid regular expression: [a-c]]", "", "",
		"invalid regular expression: [a-c]]", "", "",
	},
	"a-c": {
		"", "Start state: 0\nFinal states: 3\nTransitions:\n  (0, a) --> {1}\n  (1, -) --> {2}\n  (2, c) --> {3}\n", "0000000000000000000000000000000000000000000000",
		"", "C(C(61@1 2d@2 63@3) eeee@4)", "0000000000000000000000000000000000000000000000",
	},
	"[a--]": {
		"invalid character range a--", "", "",
		"invalid character range a--", "", "",
	},
	"[]": {
		"invalid regular expression: []", "", "",
		"invalid regular expression: []", "", "",
	},
	"[^]": {
		"invalid regular expression: [^]", "", "",
		"invalid regular expression: [^]", "", "",
	},
	"[\\d-z]": {
		"", "fnv64a:2453e5b993753e39 len=248", "0000010011010000000000000000000000000000000000",
		"", "C(C(A(2d@1 30@2 31@3 32@4 33@5 34@6 35@7 36@8 37@9 38@10 39@11 7a@12)) eeee@13)", "0000010011010000000000000000000000000000000000",
	},
	"[a-\\d]": {
		"invalid character range a-\\", "", "",
		"invalid character range a-\\", "", "",
	},
	"[a-b-c-d]": {
		"", "fnv64a:e18a301340ceea54 len=129", "0111100000010000000000000000000000000000000000",
		"", "C(C(A(2d@1 61@2 62@3 63@4 64@5)) eeee@6)", "0111100000010000000000000000000000000000000000",
	},
	"[\\.-\\]]": {
		"", "Start state: 0\nFinal states: 1\nTransitions:\n  (0, -) --> {1}\n  (0, .) --> {1}\n  (0, ]) --> {1}\n", "0000000000010000000000000000000000000000000000",
		"", "C(C(A(2d@1 2e@2 5d@3)) eeee@4)", "0000000000010000000000000000000000000000000000",
	},
	"[\\]-\\.]": {
		"", "Start state: 0\nFinal states: 1\nTransitions:\n  (0, -) --> {1}\n  (0, .) --> {1}\n  (0, ]) --> {1}\n", "0000000000010000000000000000000000000000000000",
		"", "C(C(A(2d@1 2e@2 5d@3)) eeee@4)", "0000000000010000000000000000000000000000000000",
	},
	"[a-c]{2}": {
		"", "fnv64a:251519ea587d1cc2 len=146", "0000000000000000000001000100100000000000000000",
		"", "C(C(C(A(61@1 62@2 63@3) A(61@4 62@5 63@6))) eeee@7)", "0000000000000000000001000100100000000000000000",
	},
	"[c-a]{3,1}": {
		"invalid character range c-a\ninvalid repetition range {3,1}", "", "",
		"invalid character range c-a\ninvalid repetition range {3,1}", "", "",
	},
	"[c-a]{1,3}": {
		"invalid character range c-a", "", "",
		"invalid character range c-a", "", "",
	},
	"[a-c]{3,1}": {
		"invalid repetition range {3,1}", "", "",
		"invalid repetition range {3,1}", "", "",
	},
	"[a-c]{2,3}": {
		"", "fnv64a:722357347717480e len=272", "0000000000000000000001100100111100000000000000",
		"", "C(C(C(A(61@1 62@2 63@3) A(61@4 62@5 63@6) A(e A(61@7 62@8 63@9)))) eeee@10)", "0000000000000000000001100100111100000000000000",
	},
	"[a-c]{0,}": {
		"", "fnv64a:b820b3ba7137daf8 len=137", "1111000000000000100001111111111100000100000000",
		"", "C(C(C(S(A(61@1 62@2 63@3)))) eeee@4)", "1111000000000000000001111111111100000100000000",
	},
	"a{2}": {
		"", "Start state: 0\nFinal states: 2\nTransitions:\n  (0, a) --> {1}\n  (1, a) --> {2}\n", "0000000000000000000001000000000000000000000000",
		"", "C(C(C(61@1 61@2)) eeee@3)", "0000000000000000000001000000000000000000000000",
	},
	"a{0}": {
		"", "Start state: 0\nFinal states: 1\nTransitions:\n  (0, ε) --> {1}\n", "1000000000000000100000000000000000000000000000",
		"", "C(C(C()) eeee@1)", "1000000000000000000000000000000000000000000000",
	},
	"a{1}": {
		"", "Start state: 0\nFinal states: 1\nTransitions:\n  (0, a) --> {1}\n", "0100000000000000000000000000000000000000000000",
		"", "C(C(C(61@1)) eeee@2)", "0100000000000000000000000000000000000000000000",
	},
	"a{0,}": {
		"", "fnv64a:76985888539896e1 len=103", "1100000000000000100001111000000000000100000000",
		"", "C(C(C(S(61@1))) eeee@2)", "1100000000000000000001111000000000000100000000",
	},
	"a{1,}": {
		"", "fnv64a:c16c3973554f2277 len=120", "0100000000000000000001111000000000000100000000",
		"", "C(C(C(61@1 S(61@2))) eeee@3)", "0100000000000000000001111000000000000100000000",
	},
	"a{2,}": {
		"", "fnv64a:adb1259deaed1275 len=137", "0000000000000000000001111000000000000100000000",
		"", "C(C(C(61@1 61@2 S(61@3))) eeee@4)", "0000000000000000000001111000000000000100000000",
	},
	"a{0,0}": {
		"", "Start state: 0\nFinal states: 1\nTransitions:\n  (0, ε) --> {1}\n", "1000000000000000100000000000000000000000000000",
		"", "C(C(C()) eeee@1)", "1000000000000000000000000000000000000000000000",
	},
	"a{0,1}": {
		"", "fnv64a:21653d57148d1da7 len=136", "1100000000000000100000000000000000000000000000",
		"", "C(C(C(A(e 61@1))) eeee@2)", "1100000000000000000000000000000000000000000000",
	},
	"a{1,1}": {
		"", "Start state: 0\nFinal states: 1\nTransitions:\n  (0, a) --> {1}\n", "0100000000000000000000000000000000000000000000",
		"", "C(C(C(61@1)) eeee@2)", "0100000000000000000000000000000000000000000000",
	},
	"a{2,4}": {
		"", "fnv64a:6040086172534212 len=269", "0000000000000000000001110000000000000000000000",
		"", "C(C(C(61@1 61@2 A(e 61@3) A(e 61@4))) eeee@5)", "0000000000000000000001110000000000000000000000",
	},
	"a{4,4}": {
		"", "fnv64a:1b3ee020101e2994 len=112", "0000000000000000000000010000000000000000000000",
		"", "C(C(C(61@1 61@2 61@3 61@4)) eeee@5)", "0000000000000000000000010000000000000000000000",
	},
	"a{10}": {
		"", "fnv64a:cc0ee1dccf6945bc len=216", "0000000000000000000000000000000000000100000000",
		"", "C(C(C(61@1 61@2 61@3 61@4 61@5 61@6 61@7 61@8 61@9 61@10)) eeee@11)", "0000000000000000000000000000000000000100000000",
	},
	"a{4,2}": {
		"invalid repetition range {4,2}", "", "",
		"invalid repetition range {4,2}", "", "",
	},
	"a{1,0}": {
		"invalid repetition range {1,0}", "", "",
		"invalid repetition range {1,0}", "", "",
	},
	"a{10,2}": {
		"invalid repetition range {10,2}", "", "",
		"invalid repetition range {10,2}", "", "",
	},
	"a{2,1}": {
		"invalid repetition range {2,1}", "", "",
		"invalid repetition range {2,1}", "", "",
	},
	"a{3,1}b{5,0}": {
		"invalid repetition range {3,1}\ninvalid repetition range {5,0}", "", "",
		"invalid repetition range {3,1}\ninvalid repetition range {5,0}", "", "",
	},
	"a{3,1}b{1,5}": {
		"invalid repetition range {3,1}", "", "",
		"invalid repetition range {3,1}", "", "",
	},
	"a{1,3}b{5,0}": {
		"invalid repetition range {5,0}", "", "",
		"invalid repetition range {5,0}", "", "",
	},
	"(a{2,1}){2,1}": {
		"invalid repetition range {2,1}\ninvalid repetition range {2,1}", "", "",
		"invalid repetition range {2,1}\ninvalid repetition range {2,1}", "", "",
	},
	"a{02,03}": {
		"", "fnv64a:4b779e5f10db3265 len=170", "0000000000000000000001100000000000000000000000",
		"", "C(C(C(61@1 61@2 A(e 61@3))) eeee@4)", "0000000000000000000001100000000000000000000000",
	},
	"a{03,02}": {
		"invalid repetition range {3,2}", "", "",
		"invalid repetition range {3,2}", "", "",
	},
	"a{2,}?": {
		"", "fnv64a:adb1259deaed1275 len=137", "0000000000000000000001111000000000000100000000",
		"", "C(C(C(61@1 61@2 S(61@3))) eeee@4)", "0000000000000000000001111000000000000100000000",
	},
	"a{2,4}?": {
		"", "fnv64a:6040086172534212 len=269", "0000000000000000000001110000000000000000000000",
		"", "C(C(C(61@1 61@2 A(e 61@3) A(e 61@4))) eeee@5)", "0000000000000000000001110000000000000000000000",
	},
	"a{4,2}?": {
		"invalid repetition range {4,2}", "", "",
		"invalid repetition range {4,2}", "", "",
	},
	"a{2}?": {
		"", "Start state: 0\nFinal states: 2\nTransitions:\n  (0, a) --> {1}\n  (1, a) --> {2}\n", "0000000000000000000001000000000000000000000000",
		"", "C(C(C(61@1 61@2)) eeee@3)", "0000000000000000000001000000000000000000000000",
	},
	"(ab){1,2}": {
		"", "fnv64a:6d48230ba3902175 len=187", "0000000000000000000000000110000000000000000000",
		"", "C(C(C(C(61@1 62@2) A(e C(61@3 62@4)))) eeee@5)", "0000000000000000000000000110000000000000000000",
	},
	"(ab){2,1}": {
		"invalid repetition range {2,1}", "", "",
		"invalid repetition range {2,1}", "", "",
	},
	"(a|b){2}": {
		"", "fnv64a:290551ce770a0a28 len=229", "0000000000000000000001000100000000000000000000",
		"", "C(C(C(A(C(61@1) C(62@2)) A(C(61@3) C(62@4)))) eeee@5)", "0000000000000000000001000100000000000000000000",
	},
	".{0,1}": {
		"", "fnv64a:23c4bd01467676e8 len=2296", "1111111111111111110000000000000000011000011111",
		"", "fnv64a:2aaba49115e402cb len=797", "1111111111111111110000000000000000011000011111",
	},
	"a{,3}": {
		"invalid regular expression: a{,3}", "", "",
		"invalid regular expression: a{,3}", "", "",
	},
	"a{}": {
		"invalid regular expression: a{}", "", "",
		"invalid regular expression: a{}", "", "",
	},
	"a{,}": {
		"invalid regular expression: a{,}", "", "",
		"invalid regular expression: a{,}", "", "",
	},
	"a{2,3": {
		"invalid regular expression: a{2,3", "", "",
		"invalid regular expression: a{2,3", "", "",
	},
	"a{2": {
		"invalid regular expression: a{2", "", "",
		"invalid regular expression: a{2", "", "",
	},
	"a{ 2}": {
		"invalid regular expression: a{ 2}", "", "",
		"invalid regular expression: a{ 2}", "", "",
	},
	"a{2 }": {
		"invalid regular expression: a{2 }", "", "",
		"invalid regular expression: a{2 }", "", "",
	},
	"a{2, 3}": {
		"invalid regular expression: a{2, 3}", "", "",
		"invalid regular expression: a{2, 3}", "", "",
	},
	"a{2,3}{2}": {
		"invalid regular expression: a{2,3}{2}", "", "",
		"invalid regular expression: a{2,3}{2}", "", "",
	},
	"a{-1}": {
		"invalid regular expression: a{-1}", "", "",
		"invalid regular expression: a{-1}", "", "",
	},
	"a{1,-1}": {
		"invalid regular expression: a{1,-1}", "", "",
		"invalid regular expression: a{1,-1}", "", "",
	},
	"a{a}": {
		"invalid regular expression: a{a}", "", "",
		"invalid regular expression: a{a}", "", "",
	},
	"a{2,b}": {
		"invalid regular expression: a{2,b}", "", "",
		"invalid regular expression: a{2,b}", "", "",
	},
	"{2}": {
		"invalid regular expression: {2}", "", "",
		"invalid regular expression: {2}", "", "",
	},
	"a{2}}": {
		"invalid regular expression: a{2}}", "", "",
		"invalid regular expression: a{2}}", "", "",
	},
	"a{2,3,4}": {
		"invalid regular expression: a{2,3,4}", "", "",
		"invalid regular expression: a{2,3,4}", "", "",
	},
	"a{+2}": {
		"invalid regular expression: a{+2}", "", "",
		"invalid regular expression: a{+2}", "", "",
	},
	"a{2}*": {
		"invalid regular expression: a{2}*", "", "",
		"invalid regular expression: a{2}*", "", "",
	},
	"a*{2}": {
		"invalid regular expression: a*{2}", "", "",
		"invalid regular expression: a*{2}", "", "",
	},
	"a{1,2}|b{2,1}": {
		"invalid repetition range {2,1}", "", "",
		"invalid repetition range {2,1}", "", "",
	},
	"ab{2}c{1,}d{0,1}": {
		"", "fnv64a:d7a89f61b64e068b len=270", "0000000000000000000000000000000000000000000000",
		"", "C(C(61@1 C(62@2 62@3) C(63@4 S(63@5)) C(A(e 64@6))) eeee@7)", "0000000000000000000000000000000000000000000000",
	},
	"a{99999999999999999999}": {
		"invalid regular expression: a{99999999999999999999}", "", "",
		"invalid regular expression: a{99999999999999999999}", "", "",
	},
	"a{1,99999999999999999999}": {
		"invalid regular expression: a{1,99999999999999999999}", "", "",
		"invalid regular expression: a{1,99999999999999999999}", "", "",
	},
	"a{99999999999999999999,1}": {
		"invalid regular expression: a{99999999999999999999,1}", "", "",
		"invalid regular expression: a{99999999999999999999,1}", "", "",
	},
	"a\\{2,1\\}": {
		"", "fnv64a:ce9506ba67e2adca len=146", "0000000000000000000000000000000000000000000000",
		"", "C(C(61@1 7b@2 32@3 2c@4 31@5 7d@6) eeee@7)", "0000000000000000000000000000000000000000000000",
	},
	"a\\{2}": {
		"invalid regular expression: a\\{2}", "", "",
		"invalid regular expression: a\\{2}", "", "",
	},
	"[a{2,1}]": {
		"invalid regular expression: [a{2,1}]", "", "",
		"invalid regular expression: [a{2,1}]", "", "",
	},
	"[{-}]": {
		"", "Start state: 0\nFinal states: 1\nTransitions:\n  (0, {) --> {1}\n  (0, |) --> {1}\n  (0, }) --> {1}\n", "0000000000000000000000000000000000011000000100",
		"", "C(C(A(7b@1 7c@2 7d@3)) eeee@4)", "0000000000000000000000000000000000011000000100",
	},
	"[}-{]": {
		"invalid character range }-{", "", "",
		"invalid character range }-{", "", "",
	},
	"\\p{Latin}": {
		"", "fnv64a:a11a8bc698d63b92 len=15437", "1111111111111111111000000000000000011000011111",
		"", "fnv64a:fa11591734ee89fa len=6677", "0111111111111111111000000000000000011000011111",
	},
	"\\P{Latin}": {
		"", "Start state: 0\nFinal states: 1\nTransitions:\n", "0000000000000000000000000000000000000000000000",
		"", "C(C(A()) eeee@1)", "0000000000000000000000000000000000000000000000",
	},
	"\\p{Nd}+": {
		"", "fnv64a:734d257c99bef5ad len=426", "0000000011000000000000000000000000000000100000",
		"", "fnv64a:33d17cb01fc7ad3a len=136", "0000000011000000000000000000000000000000100000",
	},
	"\\P{Nd}+": {
		"", "fnv64a:f1a950b23d43a5ad len=4100", "1111111100111111110001111111111111111101011111",
		"", "fnv64a:4fa3b2b4e2ede996 len=1538", "0111111100111111110001111111111111111101011111",
	},
	"\\p{L}\\p{N}": {
		"", "fnv64a:d00961abbcac0405 len=1098", "0000000000000000000000000000000000000010000000",
		"", "fnv64a:6a4b54f758df3cca len=382", "0000000000000000000000000000000000000010000000",
	},
	"\\p{Lu}\\P{Lu}": {
		"", "fnv64a:a8ff93cdc7ddf7ef len=2221", "0000001100000000000000000000000000000001000000",
		"", "fnv64a:2f2ed5af73fe5caa len=792", "0000000000000000000000000000000000000001000000",
	},
	"[\\p{Nd}]": {
		"", "fnv64a:e4b7c75c41617738 len=214", "0000000011000000000000000000000000000000000000",
		"", "C(C(A(30@1 31@2 32@3 33@4 34@5 35@6 36@7 37@8 38@9 39@10)) eeee@11)", "0000000011000000000000000000000000000000000000",
	},
	"[^\\p{Nd}]": {
		"", "fnv64a:e13eba85d958d62d len=2051", "1111111100111111110000000000000000011000011111",
		"", "fnv64a:7242e95bd10b2f74 len=719", "0111111100111111110000000000000000011000011111",
	},
	"[\\P{Nd}]": {
		"", "fnv64a:e13eba85d958d62d len=2051", "1111111100111111110000000000000000011000011111",
		"", "fnv64a:7242e95bd10b2f74 len=719", "0111111100111111110000000000000000011000011111",
	},
	"[\\p{Latin}]": {
		"unsupported non-ASCII character in character group", "", "",
		"unsupported non-ASCII character in character group", "", "",
	},
	"[\\P{Latin}]": {
		"", "Start state: 0\nFinal states: 1\nTransitions:\n", "0000000000000000000000000000000000000000000000",
		"", "C(C(A()) eeee@1)", "0000000000000000000000000000000000000000000000",
	},
	"[\\p{Greek}]": {
		"unsupported non-ASCII character in character group", "", "",
		"unsupported non-ASCII character in character group", "", "",
	},
	"[\\P{Greek}]": {
		"", "fnv64a:06b8ae769a8e1ea2 len=2221", "1111111111111111110000000000000000011000011111",
		"", "fnv64a:50c4eb6768be6854 len=789", "0111111111111111110000000000000000011000011111",
	},
	"[\\p{L}\\p{N}_]+": {
		"", "fnv64a:c3fc95bc0541d5ab len=2228", "0111111111100000000001111111111111000111100000",
		"", "fnv64a:b9493c945e68fd29 len=800", "0111111111100000000001111111111111000111100000",
	},
	"\\p{L}{2,1}": {
		"invalid repetition range {2,1}", "", "",
		"invalid repetition range {2,1}", "", "",
	},
	"\\P{L}{1,2}": {
		"", "fnv64a:d3941378dd90df39 len=2705", "1000000011111111110000000000000000011000111111",
		"", "fnv64a:080fea0d15c94e47 len=952", "0000000011111111110000000000000000011000111111",
	},
	"[\\p{Lu}-\\p{Ll}]": {
		"", "fnv64a:cdf2e8ed504fb1f4 len=945", "0111111100010000000000000000000000000000000000",
		"", "fnv64a:cbabbd9f3e112d11 len=325", "0111111100010000000000000000000000000000000000",
	},
	"[a-\\p{L}]": {
		"invalid regular expression: [a-\\p{L}]", "", "",
		"invalid regular expression: [a-\\p{L}]", "", "",
	},
	"\\p{Foo}": {
		"invalid regular expression: \\p{Foo}", "", "",
		"invalid regular expression: \\p{Foo}", "", "",
	},
	"\\P{Foo}": {
		"invalid regular expression: \\P{Foo}", "", "",
		"invalid regular expression: \\P{Foo}", "", "",
	},
	"\\p{}": {
		"invalid regular expression: \\p{}", "", "",
		"invalid regular expression: \\p{}", "", "",
	},
	"\\p{Latin": {
		"invalid regular expression: \\p{Latin", "", "",
		"invalid regular expression: \\p{Latin", "", "",
	},
	"\\pL": {
		"invalid regular expression: \\pL", "", "",
		"invalid regular expression: \\pL", "", "",
	},
	"\\p": {
		"invalid regular expression: \\p", "", "",
		"invalid regular expression: \\p", "", "",
	},
	"\\P": {
		"invalid regular expression: \\P", "", "",
		"invalid regular expression: \\P", "", "",
	},
	"\\p{latin}": {
		"invalid regular expression: \\p{latin}", "", "",
		"invalid regular expression: \\p{latin}", "", "",
	},
	"\\p{L }": {
		"invalid regular expression: \\p{L }", "", "",
		"invalid regular expression: \\p{L }", "", "",
	},
	"\\p{Letters}": {
		"invalid regular expression: \\p{Letters}", "", "",
		"invalid regular expression: \\p{Letters}", "", "",
	},
	"\\p{Lx}": {
		"invalid regular expression: \\p{Lx}", "", "",
		"invalid regular expression: \\p{Lx}", "", "",
	},
	"\\p{LuLl}": {
		"invalid regular expression: \\p{LuLl}", "", "",
		"invalid regular expression: \\p{LuLl}", "", "",
	},
	"\\p{L}}": {
		"invalid regular expression: \\p{L}}", "", "",
		"invalid regular expression: \\p{L}}", "", "",
	},
	"\\q{L}": {
		"invalid regular expression: \\q{L}", "", "",
		"invalid regular expression: \\q{L}", "", "",
	},
	"\\p[L]": {
		"invalid regular expression: \\p[L]", "", "",
		"invalid regular expression: \\p[L]", "", "",
	},
	"\\p{L|N}": {
		"invalid regular expression: \\p{L|N}", "", "",
		"invalid regular expression: \\p{L|N}", "", "",
	},
	"\\p{Zl}": {
		"", "Start state: 0\nFinal states: 1\nTransitions:\n", "0000000000000000000000000000000000000000000000",
		"", "C(C(A()) eeee@1)", "0000000000000000000000000000000000000000000000",
	},
	"\\P{Zl}": {
		"", "fnv64a:06b8ae769a8e1ea2 len=2221", "1111111111111111110000000000000000011000011111",
		"", "fnv64a:50c4eb6768be6854 len=789", "0111111111111111110000000000000000011000011111",
	},
	"\\p{Mark}*": {
		"", "Start state: 0\nFinal states: 1\nTransitions:\n  (0, ε) --> {1, 2}\n  (3, ε) --> {1, 2}\n", "1000000000000000100000000000000000000000000000",
		"", "C(C(S(A())) eeee@1)", "1000000000000000000000000000000000000000000000",
	},
	"\\P{Mark}*": {
		"", "fnv64a:217aaddc70cd91ab len=2263", "1111111111111111110001111111111111111111111111",
		"", "fnv64a:6c1016671347d55a len=792", "1111111111111111110001111111111111111111111111",
	},
	"(\\p{Sm}|\\P{Sm})": {
		"", "fnv64a:3cafe9557114efb2 len=2278", "1111111111111111110000000000000000011000011111",
		"", "fnv64a:3c194d2491b64600 len=801", "0111111111111111110000000000000000011000011111",
	},
	"^\\p{Lu}\\p{Ll}*$": {
		"", "fnv64a:0aa3ff17f4452261 len=970", "0000001100000000000000000000000000000001000000",
		"", "fnv64a:200ac7a4af5fe624 len=325", "0000001100000000000000000000000000000001000000",
	},
	"\\p{Lu}?": {
		"", "fnv64a:d406bf92667c2b7a len=561", "1000001100000000100000000000000000000000000000",
		"", "fnv64a:0de7a545305f71a9 len=168", "1000001100000000000000000000000000000000000000",
	},
	"\\P{Lu}??": {
		"", "fnv64a:dc4d41d1d5cda889 len=1854", "1111110011111111110000000000000000011000011111",
		"", "fnv64a:e5d0a5c3d3be050f len=612", "1111110011111111110000000000000000011000011111",
	},
	"\\P{Letter}": {
		"", "fnv64a:83c97c1c3648f9fa len=1337", "1000000011111111110000000000000000011000011111",
		"", "fnv64a:ad5fb7fbff8103f4 len=447", "0000000011111111110000000000000000011000011111",
	},
	"[\\p{Letter}]": {
		"", "fnv64a:e25a4bd9899ed6db len=928", "0111111100000000000000000000000000000000000000",
		"", "fnv64a:7f875bc357758182 len=319", "0111111100000000000000000000000000000000000000",
	},
	"[^\\P{Letter}x]": {
		"", "fnv64a:ebc61572be8af5d9 len=911", "0111111100000000000000000000000000000000000000",
		"", "fnv64a:d6426b2d0fda5d71 len=313", "0111111100000000000000000000000000000000000000",
	},
	"\\p{Letter}": {
		"", "fnv64a:e25a4bd9899ed6db len=928", "0111111100000000000000000000000000000000000000",
		"", "fnv64a:7f875bc357758182 len=319", "0111111100000000000000000000000000000000000000",
	},
	"\\P{Math}": {
		"", "fnv64a:06b8ae769a8e1ea2 len=2221", "1111111111111111110000000000000000011000011111",
		"", "fnv64a:50c4eb6768be6854 len=789", "0111111111111111110000000000000000011000011111",
	},
	"[\\p{Math}]": {
		"unsupported non-ASCII character in character group", "", "",
		"unsupported non-ASCII character in character group", "", "",
	},
	"[^\\P{Math}x]": {
		"", "Start state: 0\nFinal states: 1\nTransitions:\n", "0000000000000000000000000000000000000000000000",
		"", "C(C(A()) eeee@1)", "0000000000000000000000000000000000000000000000",
	},
	"\\p{Math}": {
		"", "fnv64a:78751b4b1b1a94a3 len=33596", "0000000000000000000000000000000000000000000000",
		"", "fnv64a:015ab054c69da380 len=17055", "0000000000000000000000000000000000000000000000",
	},
	"\\P{Emoji}": {
		"", "fnv64a:06b8ae769a8e1ea2 len=2221", "1111111111111111110000000000000000011000011111",
		"", "fnv64a:50c4eb6768be6854 len=789", "0111111111111111110000000000000000011000011111",
	},
	"[\\p{Emoji}]": {
		"unsupported non-ASCII character in character group", "", "",
		"unsupported non-ASCII character in character group", "", "",
	},
	"[^\\P{Emoji}x]": {
		"", "Start state: 0\nFinal states: 1\nTransitions:\n", "0000000000000000000000000000000000000000000000",
		"", "C(C(A()) eeee@1)", "0000000000000000000000000000000000000000000000",
	},
	"\\p{Emoji}": {
		"", "fnv64a:a533d205d89245e3 len=27564", "0000000000000000000000000000000000000000000000",
		"", "fnv64a:fe60fc10c84b3894 len=14047", "0000000000000000000000000000000000000000000000",
	},
	"[^\\P{Latin}x]": {
		"", "fnv64a:648996823197d7a4 len=2204", "1111111111111111110000000000000000011000011111",
		"", "fnv64a:fc40af67cd174e35 len=782", "0111111111111111110000000000000000011000011111",
	},
	"\\P{Greek}": {
		"", "fnv64a:06b8ae769a8e1ea2 len=2221", "1111111111111111110000000000000000011000011111",
		"", "fnv64a:50c4eb6768be6854 len=789", "0111111111111111110000000000000000011000011111",
	},
	"[^\\P{Greek}x]": {
		"", "Start state: 0\nFinal states: 1\nTransitions:\n", "0000000000000000000000000000000000000000000000",
		"", "C(C(A()) eeee@1)", "0000000000000000000000000000000000000000000000",
	},
	"\\p{Greek}": {
		"", "fnv64a:a880c4625700da93 len=7500", "0000000000000000000100000000000000000000000000",
		"", "fnv64a:1269470cee72119e len=3365", "0000000000000000000100000000000000000000000000",
	},
	"\\P{Cyrillic}": {
		"", "fnv64a:06b8ae769a8e1ea2 len=2221", "1111111111111111110000000000000000011000011111",
		"", "fnv64a:50c4eb6768be6854 len=789", "0111111111111111110000000000000000011000011111",
	},
	"[\\p{Cyrillic}]": {
		"unsupported non-ASCII character in character group", "", "",
		"unsupported non-ASCII character in character group", "", "",
	},
	"[^\\P{Cyrillic}x]": {
		"", "Start state: 0\nFinal states: 1\nTransitions:\n", "0000000000000000000000000000000000000000000000",
		"", "C(C(A()) eeee@1)", "0000000000000000000000000000000000000000000000",
	},
	"\\p{Cyrillic}": {
		"", "fnv64a:c4d9bacc205d5b23 len=8252", "0000000000000000000010000000000000000000000000",
		"", "fnv64a:848b38b4f3632fea len=3637", "0000000000000000000010000000000000000000000000",
	},
	"\\P{Han}": {
		"", "fnv64a:06b8ae769a8e1ea2 len=2221", "1111111111111111110000000000000000011000011111",
		"", "fnv64a:50c4eb6768be6854 len=789", "0111111111111111110000000000000000011000011111",
	},
	"[\\p{Han}]": {
		"unsupported non-ASCII character in character group", "", "",
		"unsupported non-ASCII character in character group", "", "",
	},
	"[^\\P{Han}x]": {
		"", "Start state: 0\nFinal states: 1\nTransitions:\n", "0000000000000000000000000000000000000000000000",
		"", "C(C(A()) eeee@1)", "0000000000000000000000000000000000000000000000",
	},
	"\\P{Persian}": {
		"", "fnv64a:06b8ae769a8e1ea2 len=2221", "1111111111111111110000000000000000011000011111",
		"", "fnv64a:50c4eb6768be6854 len=789", "0111111111111111110000000000000000011000011111",
	},
	"[\\p{Persian}]": {
		"unsupported non-ASCII character in character group", "", "",
		"unsupported non-ASCII character in character group", "", "",
	},
	"[^\\P{Persian}x]": {
		"", "Start state: 0\nFinal states: 1\nTransitions:\n", "0000000000000000000000000000000000000000000000",
		"", "C(C(A()) eeee@1)", "0000000000000000000000000000000000000000000000",
	},
	"\\p{Persian}": {
		"", "fnv64a:a4bd8a15c7f69c33 len=25340", "0000000000000000000000000000000000000000000000",
		"", "fnv64a:106943dd4b8d0430 len=11967", "0000000000000000000000000000000000000000000000",
	},
	"\\P{Lu}": {
		"", "fnv64a:1559951375f15953 len=1779", "1111110011111111110000000000000000011000011111",
		"", "fnv64a:56b2c024aae1ca12 len=607", "0111110011111111110000000000000000011000011111",
	},
	"[\\p{Lu}]": {
		"", "fnv64a:0085264c8187df70 len=486", "0000001100000000000000000000000000000000000000",
		"", "fnv64a:c8214fe5d17a83a8 len=163", "0000001100000000000000000000000000000000000000",
	},
	"[^\\P{Lu}x]": {
		"", "fnv64a:0085264c8187df70 len=486", "0000001100000000000000000000000000000000000000",
		"", "fnv64a:c8214fe5d17a83a8 len=163", "0000001100000000000000000000000000000000000000",
	},
	"\\p{Lu}": {
		"", "fnv64a:0085264c8187df70 len=486", "0000001100000000000000000000000000000000000000",
		"", "fnv64a:c8214fe5d17a83a8 len=163", "0000001100000000000000000000000000000000000000",
	},
	"\\P{Ll}": {
		"", "fnv64a:0fadb23c16716e73 len=1779", "1000001111111111110000000000000000011000011111",
		"", "fnv64a:4e799ef950f681ea len=607", "0000001111111111110000000000000000011000011111",
	},
	"[\\p{Ll}]": {
		"", "fnv64a:934626ea25047830 len=486", "0111110000000000000000000000000000000000000000",
		"", "fnv64a:cefbe6b66091ee3c len=163", "0111110000000000000000000000000000000000000000",
	},
	"[^\\P{Ll}x]": {
		"", "fnv64a:76ec18a7e8bbac60 len=469", "0111110000000000000000000000000000000000000000",
		"", "fnv64a:d89fdea259fdbcfe len=157", "0111110000000000000000000000000000000000000000",
	},
	"\\p{Ll}": {
		"", "fnv64a:934626ea25047830 len=486", "0111110000000000000000000000000000000000000000",
		"", "fnv64a:cefbe6b66091ee3c len=163", "0111110000000000000000000000000000000000000000",
	},
	"\\P{Lt}": {
		"", "fnv64a:06b8ae769a8e1ea2 len=2221", "1111111111111111110000000000000000011000011111",
		"", "fnv64a:50c4eb6768be6854 len=789", "0111111111111111110000000000000000011000011111",
	},
	"[\\p{Lt}]": {
		"", "Start state: 0\nFinal states: 1\nTransitions:\n", "0000000000000000000000000000000000000000000000",
		"", "C(C(A()) eeee@1)", "0000000000000000000000000000000000000000000000",
	},
	"[^\\P{Lt}x]": {
		"", "Start state: 0\nFinal states: 1\nTransitions:\n", "0000000000000000000000000000000000000000000000",
		"", "C(C(A()) eeee@1)", "0000000000000000000000000000000000000000000000",
	},
	"\\p{Lt}": {
		"", "Start state: 0\nFinal states: 1\nTransitions:\n", "0000000000000000000000000000000000000000000000",
		"", "C(C(A()) eeee@1)", "0000000000000000000000000000000000000000000000",
	},
	"\\P{Lm}": {
		"", "fnv64a:06b8ae769a8e1ea2 len=2221", "1111111111111111110000000000000000011000011111",
		"", "fnv64a:50c4eb6768be6854 len=789", "0111111111111111110000000000000000011000011111",
	},
	"[\\p{Lm}]": {
		"", "Start state: 0\nFinal states: 1\nTransitions:\n", "0000000000000000000000000000000000000000000000",
		"", "C(C(A()) eeee@1)", "0000000000000000000000000000000000000000000000",
	},
	"[^\\P{Lm}x]": {
		"", "Start state: 0\nFinal states: 1\nTransitions:\n", "0000000000000000000000000000000000000000000000",
		"", "C(C(A()) eeee@1)", "0000000000000000000000000000000000000000000000",
	},
	"\\p{Lm}": {
		"", "Start state: 0\nFinal states: 1\nTransitions:\n", "0000000000000000000000000000000000000000000000",
		"", "C(C(A()) eeee@1)", "0000000000000000000000000000000000000000000000",
	},
	"\\P{Lo}": {
		"", "fnv64a:06b8ae769a8e1ea2 len=2221", "1111111111111111110000000000000000011000011111",
		"", "fnv64a:50c4eb6768be6854 len=789", "0111111111111111110000000000000000011000011111",
	},
	"[\\p{Lo}]": {
		"", "Start state: 0\nFinal states: 1\nTransitions:\n", "0000000000000000000000000000000000000000000000",
		"", "C(C(A()) eeee@1)", "0000000000000000000000000000000000000000000000",
	},
	"[^\\P{Lo}x]": {
		"", "Start state: 0\nFinal states: 1\nTransitions:\n", "0000000000000000000000000000000000000000000000",
		"", "C(C(A()) eeee@1)", "0000000000000000000000000000000000000000000000",
	},
	"\\p{Lo}": {
		"", "Start state: 0\nFinal states: 1\nTransitions:\n", "0000000000000000000000000000000000000000000000",
		"", "C(C(A()) eeee@1)", "0000000000000000000000000000000000000000000000",
	},
	"\\P{L}": {
		"", "fnv64a:83c97c1c3648f9fa len=1337", "1000000011111111110000000000000000011000011111",
		"", "fnv64a:ad5fb7fbff8103f4 len=447", "0000000011111111110000000000000000011000011111",
	},
	"[\\p{L}]": {
		"", "fnv64a:e25a4bd9899ed6db len=928", "0111111100000000000000000000000000000000000000",
		"", "fnv64a:7f875bc357758182 len=319", "0111111100000000000000000000000000000000000000",
	},
	"[^\\P{L}x]": {
		"", "fnv64a:ebc61572be8af5d9 len=911", "0111111100000000000000000000000000000000000000",
		"", "fnv64a:d6426b2d0fda5d71 len=313", "0111111100000000000000000000000000000000000000",
	},
	"\\p{L}": {
		"", "fnv64a:e25a4bd9899ed6db len=928", "0111111100000000000000000000000000000000000000",
		"", "fnv64a:7f875bc357758182 len=319", "0111111100000000000000000000000000000000000000",
	},
	"\\P{Mark}": {
		"", "fnv64a:06b8ae769a8e1ea2 len=2221", "1111111111111111110000000000000000011000011111",
		"", "fnv64a:50c4eb6768be6854 len=789", "0111111111111111110000000000000000011000011111",
	},
	"[\\p{Mark}]": {
		"", "Start state: 0\nFinal states: 1\nTransitions:\n", "0000000000000000000000000000000000000000000000",
		"", "C(C(A()) eeee@1)", "0000000000000000000000000000000000000000000000",
	},
	"[^\\P{Mark}x]": {
		"", "Start state: 0\nFinal states: 1\nTransitions:\n", "0000000000000000000000000000000000000000000000",
		"", "C(C(A()) eeee@1)", "0000000000000000000000000000000000000000000000",
	},
	"\\p{Mark}": {
		"", "Start state: 0\nFinal states: 1\nTransitions:\n", "0000000000000000000000000000000000000000000000",
		"", "C(C(A()) eeee@1)", "0000000000000000000000000000000000000000000000",
	},
	"\\P{Mn}": {
		"", "fnv64a:06b8ae769a8e1ea2 len=2221", "1111111111111111110000000000000000011000011111",
		"", "fnv64a:50c4eb6768be6854 len=789", "0111111111111111110000000000000000011000011111",
	},
	"[\\p{Mn}]": {
		"", "Start state: 0\nFinal states: 1\nTransitions:\n", "0000000000000000000000000000000000000000000000",
		"", "C(C(A()) eeee@1)", "0000000000000000000000000000000000000000000000",
	},
	"[^\\P{Mn}x]": {
		"", "Start state: 0\nFinal states: 1\nTransitions:\n", "0000000000000000000000000000000000000000000000",
		"", "C(C(A()) eeee@1)", "0000000000000000000000000000000000000000000000",
	},
	"\\p{Mn}": {
		"", "Start state: 0\nFinal states: 1\nTransitions:\n", "0000000000000000000000000000000000000000000000",
		"", "C(C(A()) eeee@1)", "0000000000000000000000000000000000000000000000",
	},
	"\\P{Mc}": {
		"", "fnv64a:06b8ae769a8e1ea2 len=2221", "1111111111111111110000000000000000011000011111",
		"", "fnv64a:50c4eb6768be6854 len=789", "0111111111111111110000000000000000011000011111",
	},
	"[\\p{Mc}]": {
		"", "Start state: 0\nFinal states: 1\nTransitions:\n", "0000000000000000000000000000000000000000000000",
		"", "C(C(A()) eeee@1)", "0000000000000000000000000000000000000000000000",
	},
	"[^\\P{Mc}x]": {
		"", "Start state: 0\nFinal states: 1\nTransitions:\n", "0000000000000000000000000000000000000000000000",
		"", "C(C(A()) eeee@1)", "0000000000000000000000000000000000000000000000",
	},
	"\\p{Mc}": {
		"", "Start state: 0\nFinal states: 1\nTransitions:\n", "0000000000000000000000000000000000000000000000",
		"", "C(C(A()) eeee@1)", "0000000000000000000000000000000000000000000000",
	},
	"\\P{Me}": {
		"", "fnv64a:06b8ae769a8e1ea2 len=2221", "1111111111111111110000000000000000011000011111",
		"", "fnv64a:50c4eb6768be6854 len=789", "0111111111111111110000000000000000011000011111",
	},
	"[\\p{Me}]": {
		"", "Start state: 0\nFinal states: 1\nTransitions:\n", "0000000000000000000000000000000000000000000000",
		"", "C(C(A()) eeee@1)", "0000000000000000000000000000000000000000000000",
	},
	"[^\\P{Me}x]": {
		"", "Start state: 0\nFinal states: 1\nTransitions:\n", "0000000000000000000000000000000000000000000000",
		"", "C(C(A()) eeee@1)", "0000000000000000000000000000000000000000000000",
	},
	"\\p{Me}": {
		"", "Start state: 0\nFinal states: 1\nTransitions:\n", "0000000000000000000000000000000000000000000000",
		"", "C(C(A()) eeee@1)", "0000000000000000000000000000000000000000000000",
	},
	"\\P{M}": {
		"", "fnv64a:06b8ae769a8e1ea2 len=2221", "1111111111111111110000000000000000011000011111",
		"", "fnv64a:50c4eb6768be6854 len=789", "0111111111111111110000000000000000011000011111",
	},
	"[\\p{M}]": {
		"", "Start state: 0\nFinal states: 1\nTransitions:\n", "0000000000000000000000000000000000000000000000",
		"", "C(C(A()) eeee@1)", "0000000000000000000000000000000000000000000000",
	},
	"[^\\P{M}x]": {
		"", "Start state: 0\nFinal states: 1\nTransitions:\n", "0000000000000000000000000000000000000000000000",
		"", "C(C(A()) eeee@1)", "0000000000000000000000000000000000000000000000",
	},
	"\\p{M}": {
		"", "Start state: 0\nFinal states: 1\nTransitions:\n", "0000000000000000000000000000000000000000000000",
		"", "C(C(A()) eeee@1)", "0000000000000000000000000000000000000000000000",
	},
	"\\P{Number}": {
		"", "fnv64a:e13eba85d958d62d len=2051", "1111111100111111110000000000000000011000011111",
		"", "fnv64a:7242e95bd10b2f74 len=719", "0111111100111111110000000000000000011000011111",
	},
	"[\\p{Number}]": {
		"", "fnv64a:e4b7c75c41617738 len=214", "0000000011000000000000000000000000000000000000",
		"", "C(C(A(30@1 31@2 32@3 33@4 34@5 35@6 36@7 37@8 38@9 39@10)) eeee@11)", "0000000011000000000000000000000000000000000000",
	},
	"[^\\P{Number}x]": {
		"", "fnv64a:e4b7c75c41617738 len=214", "0000000011000000000000000000000000000000000000",
		"", "C(C(A(30@1 31@2 32@3 33@4 34@5 35@6 36@7 37@8 38@9 39@10)) eeee@11)", "0000000011000000000000000000000000000000000000",
	},
	"\\p{Number}": {
		"", "fnv64a:e4b7c75c41617738 len=214", "0000000011000000000000000000000000000000000000",
		"", "C(C(A(30@1 31@2 32@3 33@4 34@5 35@6 36@7 37@8 38@9 39@10)) eeee@11)", "0000000011000000000000000000000000000000000000",
	},
	"\\P{Nd}": {
		"", "fnv64a:e13eba85d958d62d len=2051", "1111111100111111110000000000000000011000011111",
		"", "fnv64a:7242e95bd10b2f74 len=719", "0111111100111111110000000000000000011000011111",
	},
	"[^\\P{Nd}x]": {
		"", "fnv64a:e4b7c75c41617738 len=214", "0000000011000000000000000000000000000000000000",
		"", "C(C(A(30@1 31@2 32@3 33@4 34@5 35@6 36@7 37@8 38@9 39@10)) eeee@11)", "0000000011000000000000000000000000000000000000",
	},
	"\\p{Nd}": {
		"", "fnv64a:e4b7c75c41617738 len=214", "0000000011000000000000000000000000000000000000",
		"", "C(C(A(30@1 31@2 32@3 33@4 34@5 35@6 36@7 37@8 38@9 39@10)) eeee@11)", "0000000011000000000000000000000000000000000000",
	},
	"\\P{Nl}": {
		"", "fnv64a:06b8ae769a8e1ea2 len=2221", "1111111111111111110000000000000000011000011111",
		"", "fnv64a:50c4eb6768be6854 len=789", "0111111111111111110000000000000000011000011111",
	},
	"[\\p{Nl}]": {
		"", "Start state: 0\nFinal states: 1\nTransitions:\n", "0000000000000000000000000000000000000000000000",
		"", "C(C(A()) eeee@1)", "0000000000000000000000000000000000000000000000",
	},
	"[^\\P{Nl}x]": {
		"", "Start state: 0\nFinal states: 1\nTransitions:\n", "0000000000000000000000000000000000000000000000",
		"", "C(C(A()) eeee@1)", "0000000000000000000000000000000000000000000000",
	},
	"\\p{Nl}": {
		"", "Start state: 0\nFinal states: 1\nTransitions:\n", "0000000000000000000000000000000000000000000000",
		"", "C(C(A()) eeee@1)", "0000000000000000000000000000000000000000000000",
	},
	"\\P{No}": {
		"", "fnv64a:06b8ae769a8e1ea2 len=2221", "1111111111111111110000000000000000011000011111",
		"", "fnv64a:50c4eb6768be6854 len=789", "0111111111111111110000000000000000011000011111",
	},
	"[\\p{No}]": {
		"", "Start state: 0\nFinal states: 1\nTransitions:\n", "0000000000000000000000000000000000000000000000",
		"", "C(C(A()) eeee@1)", "0000000000000000000000000000000000000000000000",
	},
	"[^\\P{No}x]": {
		"", "Start state: 0\nFinal states: 1\nTransitions:\n", "0000000000000000000000000000000000000000000000",
		"", "C(C(A()) eeee@1)", "0000000000000000000000000000000000000000000000",
	},
	"\\p{No}": {
		"", "Start state: 0\nFinal states: 1\nTransitions:\n", "0000000000000000000000000000000000000000000000",
		"", "C(C(A()) eeee@1)", "0000000000000000000000000000000000000000000000",
	},
	"\\P{N}": {
		"", "fnv64a:e13eba85d958d62d len=2051", "1111111100111111110000000000000000011000011111",
		"", "fnv64a:7242e95bd10b2f74 len=719", "0111111100111111110000000000000000011000011111",
	},
	"[\\p{N}]": {
		"", "fnv64a:e4b7c75c41617738 len=214", "0000000011000000000000000000000000000000000000",
		"", "C(C(A(30@1 31@2 32@3 33@4 34@5 35@6 36@7 37@8 38@9 39@10)) eeee@11)", "0000000011000000000000000000000000000000000000",
	},
	"[^\\P{N}x]": {
		"", "fnv64a:e4b7c75c41617738 len=214", "0000000011000000000000000000000000000000000000",
		"", "C(C(A(30@1 31@2 32@3 33@4 34@5 35@6 36@7 37@8 38@9 39@10)) eeee@11)", "0000000011000000000000000000000000000000000000",
	},
	"\\p{N}": {
		"", "fnv64a:e4b7c75c41617738 len=214", "0000000011000000000000000000000000000000000000",
		"", "C(C(A(30@1 31@2 32@3 33@4 34@5 35@6 36@7 37@8 38@9 39@10)) eeee@11)", "0000000011000000000000000000000000000000000000",
	},
	"\\P{Punctuation}": {
		"", "fnv64a:0bcf1c8c4cfae5da len=1830", "1111111111001110110000000000000000000000011111",
		"", "fnv64a:2cbbe5b68c43930e len=628", "0111111111001110110000000000000000000000011111",
	},
	"[\\p{Punctuation}]": {
		"", "fnv64a:126477dc1937c9af len=435", "0000000000110001000000000000000000011000000000",
		"", "fnv64a:c95518d9ff12eec0 len=145", "0000000000110001000000000000000000011000000000",
	},
	"[^\\P{Punctuation}x]": {
		"", "fnv64a:126477dc1937c9af len=435", "0000000000110001000000000000000000011000000000",
		"", "fnv64a:c95518d9ff12eec0 len=145", "0000000000110001000000000000000000011000000000",
	},
	"\\p{Punctuation}": {
		"", "fnv64a:126477dc1937c9af len=435", "0000000000110001000000000000000000011000000000",
		"", "fnv64a:c95518d9ff12eec0 len=145", "0000000000110001000000000000000000011000000000",
	},
	"\\P{Pc}": {
		"", "fnv64a:6aad55a4f9645d93 len=2204", "1111111111011111110000000000000000011000011111",
		"", "fnv64a:1549fde25b89e681 len=782", "0111111111011111110000000000000000011000011111",
	},
	"[\\p{Pc}]": {
		"", "Start state: 0\nFinal states: 1\nTransitions:\n  (0, _) --> {1}\n", "0000000000100000000000000000000000000000000000",
		"", "C(C(A(5f@1)) eeee@2)", "0000000000100000000000000000000000000000000000",
	},
	"[^\\P{Pc}x]": {
		"", "Start state: 0\nFinal states: 1\nTransitions:\n  (0, _) --> {1}\n", "0000000000100000000000000000000000000000000000",
		"", "C(C(A(5f@1)) eeee@2)", "0000000000100000000000000000000000000000000000",
	},
	"\\p{Pc}": {
		"", "Start state: 0\nFinal states: 1\nTransitions:\n  (0, _) --> {1}\n", "0000000000100000000000000000000000000000000000",
		"", "C(C(A(5f@1)) eeee@2)", "0000000000100000000000000000000000000000000000",
	},
	"\\P{Pd}": {
		"", "fnv64a:5c9b3810284d0353 len=2204", "1111111111101111110000000000000000011000011111",
		"", "fnv64a:5ed6cca3cc539b42 len=782", "0111111111101111110000000000000000011000011111",
	},
	"[\\p{Pd}]": {
		"", "Start state: 0\nFinal states: 1\nTransitions:\n  (0, -) --> {1}\n", "0000000000010000000000000000000000000000000000",
		"", "C(C(A(2d@1)) eeee@2)", "0000000000010000000000000000000000000000000000",
	},
	"[^\\P{Pd}x]": {
		"", "Start state: 0\nFinal states: 1\nTransitions:\n  (0, -) --> {1}\n", "0000000000010000000000000000000000000000000000",
		"", "C(C(A(2d@1)) eeee@2)", "0000000000010000000000000000000000000000000000",
	},
	"\\p{Pd}": {
		"", "Start state: 0\nFinal states: 1\nTransitions:\n  (0, -) --> {1}\n", "0000000000010000000000000000000000000000000000",
		"", "C(C(A(2d@1)) eeee@2)", "0000000000010000000000000000000000000000000000",
	},
	"\\P{Ps}": {
		"", "fnv64a:37411eef9c07aa2e len=2170", "1111111111111111110000000000000000001000011111",
		"", "fnv64a:9deeefe9112af407 len=768", "0111111111111111110000000000000000001000011111",
	},
	"[\\p{Ps}]": {
		"", "Start state: 0\nFinal states: 1\nTransitions:\n  (0, () --> {1}\n  (0, [) --> {1}\n  (0, {) --> {1}\n", "0000000000000000000000000000000000010000000000",
		"", "C(C(A(28@1 5b@2 7b@3)) eeee@4)", "0000000000000000000000000000000000010000000000",
	},
	"[^\\P{Ps}x]": {
		"", "Start state: 0\nFinal states: 1\nTransitions:\n  (0, () --> {1}\n  (0, [) --> {1}\n  (0, {) --> {1}\n", "0000000000000000000000000000000000010000000000",
		"", "C(C(A(28@1 5b@2 7b@3)) eeee@4)", "0000000000000000000000000000000000010000000000",
	},
	"\\p{Ps}": {
		"", "Start state: 0\nFinal states: 1\nTransitions:\n  (0, () --> {1}\n  (0, [) --> {1}\n  (0, {) --> {1}\n", "0000000000000000000000000000000000010000000000",
		"", "C(C(A(28@1 5b@2 7b@3)) eeee@4)", "0000000000000000000000000000000000010000000000",
	},
	"\\P{Pe}": {
		"", "fnv64a:6b6aedc594a1662d len=2170", "1111111111111111110000000000000000010000011111",
		"", "fnv64a:2407fb3dcf61bd84 len=768", "0111111111111111110000000000000000010000011111",
	},
	"[\\p{Pe}]": {
		"", "Start state: 0\nFinal states: 1\nTransitions:\n  (0, )) --> {1}\n  (0, ]) --> {1}\n  (0, }) --> {1}\n", "0000000000000000000000000000000000001000000000",
		"", "C(C(A(29@1 5d@2 7d@3)) eeee@4)", "0000000000000000000000000000000000001000000000",
	},
	"[^\\P{Pe}x]": {
		"", "Start state: 0\nFinal states: 1\nTransitions:\n  (0, )) --> {1}\n  (0, ]) --> {1}\n  (0, }) --> {1}\n", "0000000000000000000000000000000000001000000000",
		"", "C(C(A(29@1 5d@2 7d@3)) eeee@4)", "0000000000000000000000000000000000001000000000",
	},
	"\\p{Pe}": {
		"", "Start state: 0\nFinal states: 1\nTransitions:\n  (0, )) --> {1}\n  (0, ]) --> {1}\n  (0, }) --> {1}\n", "0000000000000000000000000000000000001000000000",
		"", "C(C(A(29@1 5d@2 7d@3)) eeee@4)", "0000000000000000000000000000000000001000000000",
	},
	"\\P{Pi}": {
		"", "fnv64a:06b8ae769a8e1ea2 len=2221", "1111111111111111110000000000000000011000011111",
		"", "fnv64a:50c4eb6768be6854 len=789", "0111111111111111110000000000000000011000011111",
	},
	"[\\p{Pi}]": {
		"", "Start state: 0\nFinal states: 1\nTransitions:\n", "0000000000000000000000000000000000000000000000",
		"", "C(C(A()) eeee@1)", "0000000000000000000000000000000000000000000000",
	},
	"[^\\P{Pi}x]": {
		"", "Start state: 0\nFinal states: 1\nTransitions:\n", "0000000000000000000000000000000000000000000000",
		"", "C(C(A()) eeee@1)", "0000000000000000000000000000000000000000000000",
	},
	"\\p{Pi}": {
		"", "Start state: 0\nFinal states: 1\nTransitions:\n", "0000000000000000000000000000000000000000000000",
		"", "C(C(A()) eeee@1)", "0000000000000000000000000000000000000000000000",
	},
	"\\P{Pf}": {
		"", "fnv64a:06b8ae769a8e1ea2 len=2221", "1111111111111111110000000000000000011000011111",
		"", "fnv64a:50c4eb6768be6854 len=789", "0111111111111111110000000000000000011000011111",
	},
	"[\\p{Pf}]": {
		"", "Start state: 0\nFinal states: 1\nTransitions:\n", "0000000000000000000000000000000000000000000000",
		"", "C(C(A()) eeee@1)", "0000000000000000000000000000000000000000000000",
	},
	"[^\\P{Pf}x]": {
		"", "Start state: 0\nFinal states: 1\nTransitions:\n", "0000000000000000000000000000000000000000000000",
		"", "C(C(A()) eeee@1)", "0000000000000000000000000000000000000000000000",
	},
	"\\p{Pf}": {
		"", "Start state: 0\nFinal states: 1\nTransitions:\n", "0000000000000000000000000000000000000000000000",
		"", "C(C(A()) eeee@1)", "0000000000000000000000000000000000000000000000",
	},
	"\\P{Po}": {
		"", "fnv64a:dfbb6bf04757a96b len=1966", "1111111111111110110000000000000000011000011111",
		"", "fnv64a:d6e86952aee98de9 len=684", "0111111111111110110000000000000000011000011111",
	},
	"[\\p{Po}]": {
		"", "fnv64a:89f96a7ef9cedd24 len=299", "0000000000000001000000000000000000000000000000",
		"", "C(C(A(21@1 22@2 23@3 25@4 26@5 27@6 2a@7 2c@8 2e@9 2f@10 3a@11 3b@12 3f@13 40@14 5c@15)) eeee@16)", "0000000000000001000000000000000000000000000000",
	},
	"[^\\P{Po}x]": {
		"", "fnv64a:89f96a7ef9cedd24 len=299", "0000000000000001000000000000000000000000000000",
		"", "C(C(A(21@1 22@2 23@3 25@4 26@5 27@6 2a@7 2c@8 2e@9 2f@10 3a@11 3b@12 3f@13 40@14 5c@15)) eeee@16)", "0000000000000001000000000000000000000000000000",
	},
	"\\p{Po}": {
		"", "fnv64a:89f96a7ef9cedd24 len=299", "0000000000000001000000000000000000000000000000",
		"", "C(C(A(21@1 22@2 23@3 25@4 26@5 27@6 2a@7 2c@8 2e@9 2f@10 3a@11 3b@12 3f@13 40@14 5c@15)) eeee@16)", "0000000000000001000000000000000000000000000000",
	},
	"\\P{P}": {
		"", "fnv64a:0bcf1c8c4cfae5da len=1830", "1111111111001110110000000000000000000000011111",
		"", "fnv64a:2cbbe5b68c43930e len=628", "0111111111001110110000000000000000000000011111",
	},
	"[\\p{P}]": {
		"", "fnv64a:126477dc1937c9af len=435", "0000000000110001000000000000000000011000000000",
		"", "fnv64a:c95518d9ff12eec0 len=145", "0000000000110001000000000000000000011000000000",
	},
	"[^\\P{P}x]": {
		"", "fnv64a:126477dc1937c9af len=435", "0000000000110001000000000000000000011000000000",
		"", "fnv64a:c95518d9ff12eec0 len=145", "0000000000110001000000000000000000011000000000",
	},
	"\\p{P}": {
		"", "fnv64a:126477dc1937c9af len=435", "0000000000110001000000000000000000011000000000",
		"", "fnv64a:c95518d9ff12eec0 len=145", "0000000000110001000000000000000000011000000000",
	},
	"\\P{Separator}": {
		"", "fnv64a:adc584e2f047c294 len=2204", "1111111111111011110000000000000000011000011111",
		"", "fnv64a:9daa8e6dec2ea37e len=782", "0111111111111011110000000000000000011000011111",
	},
	"[\\p{Separator}]": {
		"", "Start state: 0\nFinal states: 1\nTransitions:\n  (0,  ) --> {1}\n", "0000000000000100000000000000000000000000000000",
		"", "C(C(A(20@1)) eeee@2)", "0000000000000100000000000000000000000000000000",
	},
	"[^\\P{Separator}x]": {
		"", "Start state: 0\nFinal states: 1\nTransitions:\n  (0,  ) --> {1}\n", "0000000000000100000000000000000000000000000000",
		"", "C(C(A(20@1)) eeee@2)", "0000000000000100000000000000000000000000000000",
	},
	"\\p{Separator}": {
		"", "Start state: 0\nFinal states: 1\nTransitions:\n  (0,  ) --> {1}\n", "0000000000000100000000000000000000000000000000",
		"", "C(C(A(20@1)) eeee@2)", "0000000000000100000000000000000000000000000000",
	},
	"\\P{Zs}": {
		"", "fnv64a:adc584e2f047c294 len=2204", "1111111111111011110000000000000000011000011111",
		"", "fnv64a:9daa8e6dec2ea37e len=782", "0111111111111011110000000000000000011000011111",
	},
	"[\\p{Zs}]": {
		"", "Start state: 0\nFinal states: 1\nTransitions:\n  (0,  ) --> {1}\n", "0000000000000100000000000000000000000000000000",
		"", "C(C(A(20@1)) eeee@2)", "0000000000000100000000000000000000000000000000",
	},
	"[^\\P{Zs}x]": {
		"", "Start state: 0\nFinal states: 1\nTransitions:\n  (0,  ) --> {1}\n", "0000000000000100000000000000000000000000000000",
		"", "C(C(A(20@1)) eeee@2)", "0000000000000100000000000000000000000000000000",
	},
	"\\p{Zs}": {
		"", "Start state: 0\nFinal states: 1\nTransitions:\n  (0,  ) --> {1}\n", "0000000000000100000000000000000000000000000000",
		"", "C(C(A(20@1)) eeee@2)", "0000000000000100000000000000000000000000000000",
	},
	"[\\p{Zl}]": {
		"", "Start state: 0\nFinal states: 1\nTransitions:\n", "0000000000000000000000000000000000000000000000",
		"", "C(C(A()) eeee@1)", "0000000000000000000000000000000000000000000000",
	},
	"[^\\P{Zl}x]": {
		"", "Start state: 0\nFinal states: 1\nTransitions:\n", "0000000000000000000000000000000000000000000000",
		"", "C(C(A()) eeee@1)", "0000000000000000000000000000000000000000000000",
	},
	"\\P{Zp}": {
		"", "fnv64a:06b8ae769a8e1ea2 len=2221", "1111111111111111110000000000000000011000011111",
		"", "fnv64a:50c4eb6768be6854 len=789", "0111111111111111110000000000000000011000011111",
	},
	"[\\p{Zp}]": {
		"", "Start state: 0\nFinal states: 1\nTransitions:\n", "0000000000000000000000000000000000000000000000",
		"", "C(C(A()) eeee@1)", "0000000000000000000000000000000000000000000000",
	},
	"[^\\P{Zp}x]": {
		"", "Start state: 0\nFinal states: 1\nTransitions:\n", "0000000000000000000000000000000000000000000000",
		"", "C(C(A()) eeee@1)", "0000000000000000000000000000000000000000000000",
	},
	"\\p{Zp}": {
		"", "Start state: 0\nFinal states: 1\nTransitions:\n", "0000000000000000000000000000000000000000000000",
		"", "C(C(A()) eeee@1)", "0000000000000000000000000000000000000000000000",
	},
	"\\P{Z}": {
		"", "fnv64a:adc584e2f047c294 len=2204", "1111111111111011110000000000000000011000011111",
		"", "fnv64a:9daa8e6dec2ea37e len=782", "0111111111111011110000000000000000011000011111",
	},
	"[\\p{Z}]": {
		"", "Start state: 0\nFinal states: 1\nTransitions:\n  (0,  ) --> {1}\n", "0000000000000100000000000000000000000000000000",
		"", "C(C(A(20@1)) eeee@2)", "0000000000000100000000000000000000000000000000",
	},
	"[^\\P{Z}x]": {
		"", "Start state: 0\nFinal states: 1\nTransitions:\n  (0,  ) --> {1}\n", "0000000000000100000000000000000000000000000000",
		"", "C(C(A(20@1)) eeee@2)", "0000000000000100000000000000000000000000000000",
	},
	"\\p{Z}": {
		"", "Start state: 0\nFinal states: 1\nTransitions:\n  (0,  ) --> {1}\n", "0000000000000100000000000000000000000000000000",
		"", "C(C(A(20@1)) eeee@2)", "0000000000000100000000000000000000000000000000",
	},
	"\\P{Symbol}": {
		"", "fnv64a:e9cc06830f1feac8 len=2068", "1111111111110101110000000000000000011000000011",
		"", "fnv64a:8e75ee1cdcc71877 len=726", "0111111111110101110000000000000000011000000011",
	},
	"[\\p{Symbol}]": {
		"", "fnv64a:eea1263a8a565beb len=197", "0000000000001010000000000000000000000000011100",
		"", "C(C(A(24@1 2b@2 3c@3 3d@4 3e@5 5e@6 60@7 7c@8 7e@9)) eeee@10)", "0000000000001010000000000000000000000000011100",
	},
	"[^\\P{Symbol}x]": {
		"", "fnv64a:eea1263a8a565beb len=197", "0000000000001010000000000000000000000000011100",
		"", "C(C(A(24@1 2b@2 3c@3 3d@4 3e@5 5e@6 60@7 7c@8 7e@9)) eeee@10)", "0000000000001010000000000000000000000000011100",
	},
	"\\p{Symbol}": {
		"", "fnv64a:eea1263a8a565beb len=197", "0000000000001010000000000000000000000000011100",
		"", "C(C(A(24@1 2b@2 3c@3 3d@4 3e@5 5e@6 60@7 7c@8 7e@9)) eeee@10)", "0000000000001010000000000000000000000000011100",
	},
	"\\P{Sm}": {
		"", "fnv64a:7f2d619da54d8922 len=2119", "1111111111110101110000000000000000011000011011",
		"", "fnv64a:b1f1c69fde34c7aa len=747", "0111111111110101110000000000000000011000011011",
	},
	"[\\p{Sm}]": {
		"", "fnv64a:ba4029f2eaaea051 len=146", "0000000000001010000000000000000000000000000100",
		"", "C(C(A(2b@1 3c@2 3d@3 3e@4 7c@5 7e@6)) eeee@7)", "0000000000001010000000000000000000000000000100",
	},
	"[^\\P{Sm}x]": {
		"", "fnv64a:ba4029f2eaaea051 len=146", "0000000000001010000000000000000000000000000100",
		"", "C(C(A(2b@1 3c@2 3d@3 3e@4 7c@5 7e@6)) eeee@7)", "0000000000001010000000000000000000000000000100",
	},
	"\\p{Sm}": {
		"", "fnv64a:ba4029f2eaaea051 len=146", "0000000000001010000000000000000000000000000100",
		"", "C(C(A(2b@1 3c@2 3d@3 3e@4 7c@5 7e@6)) eeee@7)", "0000000000001010000000000000000000000000000100",
	},
	"\\P{Sc}": {
		"", "fnv64a:c3d687bee17ef8d8 len=2204", "1111111111111111110000000000000000011000001111",
		"", "fnv64a:078e04e02a4202c2 len=782", "0111111111111111110000000000000000011000001111",
	},
	"[\\p{Sc}]": {
		"", "Start state: 0\nFinal states: 1\nTransitions:\n  (0, $) --> {1}\n", "0000000000000000000000000000000000000000010000",
		"", "C(C(A(24@1)) eeee@2)", "0000000000000000000000000000000000000000010000",
	},
	"[^\\P{Sc}x]": {
		"", "Start state: 0\nFinal states: 1\nTransitions:\n  (0, $) --> {1}\n", "0000000000000000000000000000000000000000010000",
		"", "C(C(A(24@1)) eeee@2)", "0000000000000000000000000000000000000000010000",
	},
	"\\p{Sc}": {
		"", "Start state: 0\nFinal states: 1\nTransitions:\n  (0, $) --> {1}\n", "0000000000000000000000000000000000000000010000",
		"", "C(C(A(24@1)) eeee@2)", "0000000000000000000000000000000000000000010000",
	},
	"\\P{Sk}": {
		"", "fnv64a:b929daa99c6bc882 len=2187", "1111111111111111110000000000000000011000010111",
		"", "fnv64a:24242ba5d185b23f len=775", "0111111111111111110000000000000000011000010111",
	},
	"[\\p{Sk}]": {
		"", "Start state: 0\nFinal states: 1\nTransitions:\n  (0, ^) --> {1}\n  (0, `) --> {1}\n", "0000000000000000000000000000000000000000001000",
		"", "C(C(A(5e@1 60@2)) eeee@3)", "0000000000000000000000000000000000000000001000",
	},
	"[^\\P{Sk}x]": {
		"", "Start state: 0\nFinal states: 1\nTransitions:\n  (0, ^) --> {1}\n  (0, `) --> {1}\n", "0000000000000000000000000000000000000000001000",
		"", "C(C(A(5e@1 60@2)) eeee@3)", "0000000000000000000000000000000000000000001000",
	},
	"\\p{Sk}": {
		"", "Start state: 0\nFinal states: 1\nTransitions:\n  (0, ^) --> {1}\n  (0, `) --> {1}\n", "0000000000000000000000000000000000000000001000",
		"", "C(C(A(5e@1 60@2)) eeee@3)", "0000000000000000000000000000000000000000001000",
	},
	"\\P{So}": {
		"", "fnv64a:06b8ae769a8e1ea2 len=2221", "1111111111111111110000000000000000011000011111",
		"", "fnv64a:50c4eb6768be6854 len=789", "0111111111111111110000000000000000011000011111",
	},
	"[\\p{So}]": {
		"", "Start state: 0\nFinal states: 1\nTransitions:\n", "0000000000000000000000000000000000000000000000",
		"", "C(C(A()) eeee@1)", "0000000000000000000000000000000000000000000000",
	},
	"[^\\P{So}x]": {
		"", "Start state: 0\nFinal states: 1\nTransitions:\n", "0000000000000000000000000000000000000000000000",
		"", "C(C(A()) eeee@1)", "0000000000000000000000000000000000000000000000",
	},
	"\\p{So}": {
		"", "Start state: 0\nFinal states: 1\nTransitions:\n", "0000000000000000000000000000000000000000000000",
		"", "C(C(A()) eeee@1)", "0000000000000000000000000000000000000000000000",
	},
	"\\P{S}": {
		"", "fnv64a:e9cc06830f1feac8 len=2068", "1111111111110101110000000000000000011000000011",
		"", "fnv64a:8e75ee1cdcc71877 len=726", "0111111111110101110000000000000000011000000011",
	},
	"[\\p{S}]": {
		"", "fnv64a:eea1263a8a565beb len=197", "0000000000001010000000000000000000000000011100",
		"", "C(C(A(24@1 2b@2 3c@3 3d@4 3e@5 5e@6 60@7 7c@8 7e@9)) eeee@10)", "0000000000001010000000000000000000000000011100",
	},
	"[^\\P{S}x]": {
		"", "fnv64a:eea1263a8a565beb len=197", "0000000000001010000000000000000000000000011100",
		"", "C(C(A(24@1 2b@2 3c@3 3d@4 3e@5 5e@6 60@7 7c@8 7e@9)) eeee@10)", "0000000000001010000000000000000000000000011100",
	},
	"\\p{S}": {
		"", "fnv64a:eea1263a8a565beb len=197", "0000000000001010000000000000000000000000011100",
		"", "C(C(A(24@1 2b@2 3c@3 3d@4 3e@5 5e@6 60@7 7c@8 7e@9)) eeee@10)", "0000000000001010000000000000000000000000011100",
	},
}
