package golang

import (
	"crypto/sha256"
	"encoding/hex"
	"fmt"
	"go/ast"
	"go/importer"
	"go/parser"
	"go/token"
	"go/types"
	"os"
	"path/filepath"
	"sort"
	"strconv"
	"strings"
	"testing"

	"github.com/gardenbed/charm/ui"
	auto "github.com/moorara/algo/automata"

	"github.com/gardenbed/emerge/internal/ebnf/parser/spec"
)

// This file characterizes the lexer half of the Go generator (property C08):
// the formatting helpers used by the lexer template and the tables emitted into lexer.go.
// It passes on the code both before and after the clean-up of golang.go.

func TestRefactorDemo_formatInts(t *testing.T) {
	tests := []struct {
		vals     []int
		expected string
	}{
		{nil, ""},
		{[]int{}, ""},
		{[]int{0}, "0"},
		{[]int{7}, "7"},
		{[]int{1, 2, 3}, "1, 2, 3"},
		{[]int{10, 9, 8, 100}, "10, 9, 8, 100"},
		{[]int{-1}, "-1"},
		{[]int{-1, 0, -20}, "-1, 0, -20"},
		{[]int{1 << 40, 5}, "1099511627776, 5"},
	}

	for _, tc := range tests {
		if got := formatInts(tc.vals); got != tc.expected {
			t.Errorf("formatInts(%v) = %q, expected %q", tc.vals, got, tc.expected)
		}
	}
}

func TestRefactorDemo_formatRunes(t *testing.T) {
	tests := []struct {
		runes    []rune
		expected string
	}{
		{nil, ""},
		{[]rune{}, ""},
		{[]rune{'a'}, `'a'`},
		{[]rune{'a', 'b', 'c'}, `'a', 'b', 'c'`},
		{[]rune{'\''}, `'\''`},
		{[]rune{'"'}, `'"'`},
		{[]rune{'\\'}, `'\\'`},
		{[]rune{'`'}, "'`'"},
		{[]rune{' ', ','}, `' ', ','`},
		{[]rune{0}, `'\x00'`},
		{[]rune{'\a', '\b', '\f', '\n', '\r', '\t', '\v'}, `'\a', '\b', '\f', '\n', '\r', '\t', '\v'`},
		{[]rune{0x1b, 0x7f}, `'\x1b', '\x7f'`},
		{[]rune{0x80, 0x9f, 0xa0, 0xad}, `'\u0080', '\u009f', '\u00a0', '\u00ad'`},
		{[]rune{'é', 'ß', 'Ω', '世', '界'}, `'é', 'ß', 'Ω', '世', '界'`},
		{[]rune{0x2028, 0x2029, 0xfeff, 0x200b}, `'\u2028', '\u2029', '\ufeff', '\u200b'`},
		{[]rune{0xe000, 0xfffd, 0xffff}, `'\ue000', '�', '\uffff'`},
		{[]rune{0x1f600, 0x10000, 0x10ffff, 0xe0001}, `'😀', '𐀀', '\U0010ffff', '\U000e0001'`},
		{[]rune{0xd800, 0xdfff, 0x110000, -1}, `'�', '�', '�', '�'`},
	}

	for _, tc := range tests {
		if got := formatRunes(tc.runes); got != tc.expected {
			t.Errorf("formatRunes(%U) = %s, expected %s", tc.runes, got, tc.expected)
		}
	}

	// Every code point (and a margin of invalid values on both sides) is written as fmt writes it with %q,
	// and every valid code point is a Go rune literal that denotes the code point itself.
	var all []rune
	var parts []string
	for r := rune(-3); r <= 0x110003; r++ {
		got, expected := formatRunes([]rune{r}), fmt.Sprintf("%q", r)
		if got != expected {
			t.Fatalf("formatRunes(%U) = %s, expected %s", r, got, expected)
		}

		if r >= 0 && r <= 0x10ffff && (r < 0xd800 || r > 0xdfff) {
			v, _, tail, err := strconv.UnquoteChar(got[1:len(got)-1], '\'')
			if err != nil || tail != "" || v != r || got[0] != '\'' || got[len(got)-1] != '\'' {
				t.Fatalf("formatRunes(%U) = %s is not a literal for the rune", r, got)
			}
		}

		if r%4099 == 0 || r < 0x100 {
			all = append(all, r)
			parts = append(parts, expected)
		}
	}

	if got, expected := formatRunes(all), strings.Join(parts, ", "); got != expected {
		t.Errorf("formatRunes of %d runes differs from the joined literals", len(all))
	}
}

type demoSpec struct {
	name string
	defs []*spec.TerminalDef
	// lexerSum is the SHA-256 of the emitted lexer.go.
	lexerSum string
	// finals is the expected accepting-state table of the emitted evalDFA, one "terminal <- states" line per case.
	finals []string
	// transitions is the expected number of (state, character) pairs in the emitted advanceDFA.
	transitions int
}

var demoSpecs = []demoSpec{
	{
		name: "expr",
		defs: []*spec.TerminalDef{
			{Terminal: "ID", Value: "[A-Za-z_][0-9A-Za-z_]*", IsRegex: true},
			{Terminal: "NUM", Value: "[0-9]+", IsRegex: true},
		},
		lexerSum:    "1c0330532d7274c7bf204cca42111232c4b304124c216ceb2325b19f5de5bb91",
		finals:      []string{`"ID" <- 2`, `"NUM" <- 1`},
		transitions: 136,
	},
	{
		name: "single",
		defs: []*spec.TerminalDef{
			{Terminal: "A", Value: "a", IsRegex: false},
		},
		lexerSum:    "ae9086199710c8f05acac3f7afd52c3c2b14a35dfca463a7a3c78cb6d9d0e158",
		finals:      []string{`"A" <- 1`},
		transitions: 1,
	},
	{
		// Keywords share states with identifiers; the string definitions win these states.
		name: "keywords",
		defs: []*spec.TerminalDef{
			{Terminal: "if", Value: "if", IsRegex: false},
			{Terminal: "int", Value: "int", IsRegex: false},
			{Terminal: "ID", Value: "[a-z]+", IsRegex: true},
			{Terminal: "=", Value: "=", IsRegex: false},
			{Terminal: "==", Value: "==", IsRegex: false},
			{Terminal: "WS", Value: "[ \\x09]+", IsRegex: true},
			{Terminal: "EOL", Value: "\\x0A|\\x0D\\x0A", IsRegex: true},
			{Terminal: "COMMENT", Value: "#[a-z ]*", IsRegex: true},
		},
		lexerSum: "4e1aaaeea4897395c7da7c12eafc937f373dfc826196d9ed392dbee056d1cd2d",
		finals: []string{
			`"if" <- 9`,
			`"int" <- 11`,
			`"ID" <- 6 7 10`,
			`"=" <- 5`,
			`"==" <- 8`,
			`"WS" <- 1`,
			`"EOL" <- 2`,
			`"COMMENT" <- 4`,
		},
		transitions: 193,
	},
	{
		// KW and WORD recognize the same single string, hence WORD ends up owning no state.
		name: "stateless",
		defs: []*spec.TerminalDef{
			{Terminal: "WORD", Value: "let", IsRegex: true},
			{Terminal: "KW", Value: "let", IsRegex: false},
			{Terminal: "NUM", Value: "[0-9]+(\\.[0-9]+)?", IsRegex: true},
		},
		lexerSum:    "ec2f6dd0aad70e5b24ea3e75d46c58c21bc05b86fa18e0eaed242092ba7f8da0",
		finals:      []string{`"KW" <- 6`, `"NUM" <- 1 5`},
		transitions: 44,
	},
	{
		// Characters and terminal names that must be escaped in Go source.
		name: "escapes",
		defs: []*spec.TerminalDef{
			{Terminal: "\"", Value: "\"", IsRegex: false},
			{Terminal: "'", Value: "'", IsRegex: false},
			{Terminal: "\\", Value: "\\", IsRegex: false},
			{Terminal: "`", Value: "`", IsRegex: false},
			{Terminal: "\\\"'", Value: "\\\"'", IsRegex: false},
			{Terminal: "tab\there", Value: "\t\x00\x7f\u0085", IsRegex: false},
			{Terminal: "new\nline", Value: "\n\r\v\f\a\b", IsRegex: false},
			{Terminal: "λ→世界", Value: "λ→世界", IsRegex: false},
			{Terminal: "😀", Value: "😀\u00a0\ufeff\U0010ffff", IsRegex: false},
			{Terminal: "STR", Value: "\"([a-z]|\\\\\\\\|\\\\\")*\"?", IsRegex: true},
			{Terminal: "UNI", Value: "(\\x00E9|\\x4E16|\\x1F600)+", IsRegex: true},
			{Terminal: "{{.Package}}", Value: "{{", IsRegex: false},
		},
		lexerSum: "8ea319e8026f595e5ad34dc02daf06910c08dc921271133b4a8ca3a8a69fd773",
		finals: []string{
			`"\"" <- 3`,
			`"'" <- 4`,
			`"\\" <- 5`,
			"\"`\" <- 6",
			`"\\\"'" <- 22`,
			`"tab\there" <- 20`,
			`"new\nline" <- 29`,
			`"λ→世界" <- 26`,
			`"😀" <- 27`,
			`"STR" <- 13 15`,
			`"UNI" <- 8 10`,
			`"{{.Package}}" <- 17`,
		},
		transitions: 91,
	},
	{
		name:        "empty",
		defs:        []*spec.TerminalDef{},
		lexerSum:    "58be5080f0e560bb6d310893c674f7b9c959691306ea2ffd7f3f7711febf154e",
		finals:      []string{},
		transitions: 0,
	},
}

func TestRefactorDemo_generateLexer(t *testing.T) {
	for _, tc := range demoSpecs {
		t.Run(tc.name, func(t *testing.T) {
			tempDir := t.TempDir()
			s := &spec.Spec{Name: "demo", Definitions: tc.defs}

			g := &generator{
				UI:     ui.NewNop(),
				Params: &Params{Path: tempDir, Spec: s},
			}

			if err := g.prepare(); err != nil {
				t.Fatalf("prepare failed: %s", err)
			}
			if err := g.generateCore(); err != nil {
				t.Fatalf("generateCore failed: %s", err)
			}
			if err := g.generateLexer(); err != nil {
				t.Fatalf("generateLexer failed: %s", err)
			}

			pkgDir := filepath.Join(tempDir, "demo")
			content, err := os.ReadFile(filepath.Join(pkgDir, "lexer.go"))
			if err != nil {
				t.Fatal(err)
			}

			// The output bytes are pinned.
			sum := sha256.Sum256(content)
			if got := hex.EncodeToString(sum[:]); got != tc.lexerSum {
				t.Errorf("lexer.go has the SHA-256 %s, expected %s", got, tc.lexerSum)
			}

			// The emitted package is valid Go and type-checks using only the standard library.
			fset := token.NewFileSet()
			var files []*ast.File
			var lexerFile *ast.File
			for _, name := range []string{"errors.go", "types.go", "stack.go", "input.go", "lexer.go"} {
				f, err := parser.ParseFile(fset, filepath.Join(pkgDir, name), nil, parser.SkipObjectResolution)
				if err != nil {
					t.Fatalf("%s is not valid Go: %s", name, err)
				}

				for _, imp := range f.Imports {
					if path, _ := strconv.Unquote(imp.Path.Value); strings.Contains(path, ".") {
						t.Errorf("%s imports %s", name, path)
					}
				}

				files = append(files, f)
				lexerFile = f
			}

			conf := types.Config{Importer: importer.ForCompiler(fset, "source", nil)}
			if _, err := conf.Check("demo", fset, files, nil); err != nil {
				t.Fatalf("the emitted package does not type-check: %s", err)
			}

			// The automaton emerge computed.
			dfa, termMap, err := s.DFA()
			if err != nil {
				t.Fatal(err)
			}

			// The transition function is extensionally the automaton.
			emitted := readAdvanceDFA(t, lexerFile)
			expected := map[[2]int]int{}
			for tr := range dfa.Transitions() {
				expected[[2]int{int(tr.State), int(tr.Symbol)}] = int(tr.Next)
			}

			if len(emitted) != len(expected) {
				t.Errorf("advanceDFA has %d transitions, the automaton has %d", len(emitted), len(expected))
			}
			for key, next := range expected {
				if got, ok := emitted[key]; !ok || got != next {
					t.Errorf("advanceDFA(%d, %q) = %d (%t), expected %d", key[0], rune(key[1]), got, ok, next)
				}
				if got := int(dfa.Next(auto.State(key[0]), auto.Symbol(key[1]))); got != next {
					t.Errorf("inconsistent automaton at (%d, %q)", key[0], rune(key[1]))
				}
			}
			if len(emitted) != tc.transitions {
				t.Errorf("advanceDFA has %d transitions, expected %d", len(emitted), tc.transitions)
			}

			// The accepting-state table is extensionally the map of the terminals.
			finals := readEvalDFA(t, lexerFile)
			expectedFinals := map[int]string{}
			for term, states := range termMap {
				for _, s := range states {
					expectedFinals[int(s)] = string(term)
				}
			}

			if len(finals.terminals) != len(expectedFinals) {
				t.Errorf("evalDFA has %d accepting states, the automaton has %d", len(finals.terminals), len(expectedFinals))
			}
			for state, term := range expectedFinals {
				if got, ok := finals.terminals[state]; !ok || got != term {
					t.Errorf("evalDFA(%d) yields %q (%t), expected %q", state, got, ok, term)
				}
			}

			if fmt.Sprintf("%q", finals.lines) != fmt.Sprintf("%q", tc.finals) {
				t.Errorf("evalDFA has the cases\n%q\nexpected\n%q", finals.lines, tc.finals)
			}
		})
	}
}

// TestRefactorDemo_sections pins the text of the two tables for a small specification.
func TestRefactorDemo_sections(t *testing.T) {
	tempDir := t.TempDir()
	g := &generator{
		UI: ui.NewNop(),
		Params: &Params{
			Path: tempDir,
			Spec: &spec.Spec{
				Name: "demo",
				Definitions: []*spec.TerminalDef{
					{Terminal: "'q'", Value: "'\\", IsRegex: false},
					{Terminal: "AB", Value: "[ab]c?", IsRegex: true},
					{Terminal: "NONE", Value: "a", IsRegex: true},
					{Terminal: "a", Value: "a", IsRegex: false},
				},
			},
		},
	}

	if err := g.prepare(); err != nil {
		t.Fatal(err)
	}
	if err := g.generateLexer(); err != nil {
		t.Fatal(err)
	}

	content, err := os.ReadFile(filepath.Join(tempDir, "demo", "lexer.go"))
	if err != nil {
		t.Fatal(err)
	}

	text := string(content)
	evalAt := strings.Index(text, "func (l *Lexer) evalDFA(state int) Token {")
	advanceAt := strings.Index(text, "func advanceDFA(state int, r rune) int {")
	if evalAt < 0 || advanceAt < evalAt {
		t.Fatalf("tables not found in\n%s", text)
	}

	evalText := text[evalAt:strings.Index(text, "\t// ERR\n")]
	advanceText := text[advanceAt:]

	if evalText != demoEvalSection {
		t.Errorf("evalDFA section:\n%s\nexpected:\n%s", evalText, demoEvalSection)
	}
	if advanceText != demoAdvanceSection {
		t.Errorf("advanceDFA section:\n%s\nexpected:\n%s", advanceText, demoAdvanceSection)
	}
}

const demoEvalSection = `func (l *Lexer) evalDFA(state int) Token {
	switch state {
	case 4:
		lexeme, pos := l.in.Lexeme()
		return Token{Terminal: Terminal("'q'"), Lexeme: lexeme, Pos: pos}

	case 3, 5:
		lexeme, pos := l.in.Lexeme()
		return Token{Terminal: Terminal("AB"), Lexeme: lexeme, Pos: pos}

	case 2:
		lexeme, pos := l.in.Lexeme()
		return Token{Terminal: Terminal("a"), Lexeme: lexeme, Pos: pos}

	}

`

const demoAdvanceSection = `func advanceDFA(state int, r rune) int {
	switch state {
	case 0:
		switch r {
		case '\'':
			return 1
		case 'a':
			return 2
		case 'b':
			return 3
		}

	case 1:
		switch r {
		case '\\':
			return 4
		}

	case 2:
		switch r {
		case 'c':
			return 5
		}

	case 3:
		switch r {
		case 'c':
			return 5
		}

	}

	return errorState
}
`

// readAdvanceDFA reads the emitted transition function as a map from (state, character) to the next state.
func readAdvanceDFA(t *testing.T, f *ast.File) map[[2]int]int {
	t.Helper()

	var fn *ast.FuncDecl
	for _, decl := range f.Decls {
		if d, ok := decl.(*ast.FuncDecl); ok && d.Recv == nil && d.Name.Name == "advanceDFA" {
			fn = d
		}
	}

	if fn == nil || len(fn.Body.List) != 2 {
		t.Fatal("advanceDFA not found or of an unexpected shape")
	}

	outer, ok := fn.Body.List[0].(*ast.SwitchStmt)
	if !ok || outer.Tag.(*ast.Ident).Name != "state" {
		t.Fatal("advanceDFA does not start with a switch on the state")
	}
	if ret := fn.Body.List[1].(*ast.ReturnStmt); ret.Results[0].(*ast.Ident).Name != "errorState" {
		t.Fatal("advanceDFA does not end with the error state")
	}

	table := map[[2]int]int{}
	last := -1
	for _, stmt := range outer.Body.List {
		clause := stmt.(*ast.CaseClause)
		if len(clause.List) != 1 || len(clause.Body) != 1 {
			t.Fatal("unexpected state case in advanceDFA")
		}

		state := intLit(t, clause.List[0])
		if state <= last {
			t.Errorf("state %d follows state %d in advanceDFA", state, last)
		}
		last = state

		inner := clause.Body[0].(*ast.SwitchStmt)
		if inner.Tag.(*ast.Ident).Name != "r" || len(inner.Body.List) == 0 {
			t.Fatal("unexpected character switch in advanceDFA")
		}

		lastNext := -1
		for _, stmt := range inner.Body.List {
			clause := stmt.(*ast.CaseClause)
			if len(clause.List) == 0 || len(clause.Body) != 1 {
				t.Fatal("unexpected character case in advanceDFA")
			}

			next := intLit(t, clause.Body[0].(*ast.ReturnStmt).Results[0])
			if next <= lastNext {
				t.Errorf("next state %d follows next state %d in advanceDFA", next, lastNext)
			}
			lastNext = next

			lastChar := -1
			for _, expr := range clause.List {
				lit := expr.(*ast.BasicLit)
				if lit.Kind != token.CHAR {
					t.Fatalf("unexpected case %s in advanceDFA", lit.Value)
				}

				r, _, tail, err := strconv.UnquoteChar(lit.Value[1:len(lit.Value)-1], '\'')
				if err != nil || tail != "" {
					t.Fatalf("invalid rune literal %s in advanceDFA", lit.Value)
				}

				if int(r) <= lastChar {
					t.Errorf("character %q follows character %q in advanceDFA", r, rune(lastChar))
				}
				lastChar = int(r)

				key := [2]int{state, int(r)}
				if _, ok := table[key]; ok {
					t.Errorf("advanceDFA has two transitions for (%d, %q)", state, r)
				}
				table[key] = next
			}
		}
	}

	return table
}

type demoFinals struct {
	terminals map[int]string
	lines     []string
}

// readEvalDFA reads the emitted accepting-state table as a map from the state to the name of the terminal.
func readEvalDFA(t *testing.T, f *ast.File) demoFinals {
	t.Helper()

	var fn *ast.FuncDecl
	for _, decl := range f.Decls {
		if d, ok := decl.(*ast.FuncDecl); ok && d.Recv != nil && d.Name.Name == "evalDFA" {
			fn = d
		}
	}

	if fn == nil {
		t.Fatal("evalDFA not found")
	}

	sw, ok := fn.Body.List[0].(*ast.SwitchStmt)
	if !ok || sw.Tag.(*ast.Ident).Name != "state" {
		t.Fatal("evalDFA does not start with a switch on the state")
	}

	finals := demoFinals{terminals: map[int]string{}, lines: []string{}}
	for _, stmt := range sw.Body.List {
		clause := stmt.(*ast.CaseClause)
		if len(clause.List) == 0 || len(clause.Body) != 2 {
			t.Fatal("unexpected case in evalDFA")
		}

		// return Token{Terminal: Terminal("..."), Lexeme: lexeme, Pos: pos}
		lit := clause.Body[1].(*ast.ReturnStmt).Results[0].(*ast.CompositeLit)
		kv := lit.Elts[0].(*ast.KeyValueExpr)
		call := kv.Value.(*ast.CallExpr)
		if kv.Key.(*ast.Ident).Name != "Terminal" || call.Fun.(*ast.Ident).Name != "Terminal" {
			t.Fatal("unexpected token in evalDFA")
		}

		term, err := strconv.Unquote(call.Args[0].(*ast.BasicLit).Value)
		if err != nil {
			t.Fatalf("invalid terminal name in evalDFA: %s", err)
		}

		var states []string
		for _, expr := range clause.List {
			state := intLit(t, expr)
			if _, ok := finals.terminals[state]; ok {
				t.Errorf("evalDFA has two cases for the state %d", state)
			}

			finals.terminals[state] = term
			states = append(states, strconv.Itoa(state))
		}

		if !sort.SliceIsSorted(clause.List, func(i, j int) bool {
			return intLit(t, clause.List[i]) < intLit(t, clause.List[j])
		}) {
			t.Errorf("the states of %q are not ascending in evalDFA", term)
		}

		finals.lines = append(finals.lines, fmt.Sprintf("%q <- %s", term, strings.Join(states, " ")))
	}

	return finals
}

func intLit(t *testing.T, expr ast.Expr) int {
	t.Helper()

	lit, ok := expr.(*ast.BasicLit)
	if !ok || lit.Kind != token.INT {
		t.Fatalf("expected an integer literal")
	}

	v, err := strconv.Atoi(lit.Value)
	if err != nil {
		t.Fatal(err)
	}

	return v
}
