package golang

import (
	"fmt"
	"go/ast"
	"go/parser"
	"go/token"
	"os"
	"path/filepath"
	"strconv"
	"strings"
	"testing"

	"github.com/gardenbed/charm/ui"

	"github.com/gardenbed/emerge/internal/ebnf/parser/spec"
)

// Characterization test for formatInts, formatRunes and renderTemplate.
// It pins concrete outputs, so it must pass before and after the refactoring.

func TestRefactorDemo_formatInts(t *testing.T) {
	tests := []struct {
		vals     []int
		expected string
	}{
		{nil, ""},
		{[]int{}, ""},
		{[]int{0}, "0"},
		{[]int{7}, "7"},
		{[]int{1, 2}, "1, 2"},
		{[]int{3, 1, 2, 1}, "3, 1, 2, 1"},
		{[]int{-1, 0, 1}, "-1, 0, 1"},
		{[]int{10, 200, 3000, 40000}, "10, 200, 3000, 40000"},
		{[]int{2147483647, -2147483648}, "2147483647, -2147483648"},
		{[]int{9223372036854775807}, "9223372036854775807"},
		{[]int{-9223372036854775808, 5}, "-9223372036854775808, 5"},
	}

	for _, tc := range tests {
		if got := formatInts(tc.vals); got != tc.expected {
			t.Errorf("formatInts(%v) = %q, expected %q", tc.vals, got, tc.expected)
		}
	}

	// A long list: every element present once, in order, separated by ", " with no trailing separator.
	long := make([]int, 500)
	parts := make([]string, 500)
	for i := range long {
		long[i] = i*i - 1000
		parts[i] = strconv.Itoa(long[i])
	}
	if got, expected := formatInts(long), strings.Join(parts, ", "); got != expected {
		t.Errorf("formatInts(long) = %q, expected %q", got, expected)
	}
}

func TestRefactorDemo_formatRunes(t *testing.T) {
	tests := []struct {
		runes    []rune
		expected string
	}{
		{nil, ""},
		{[]rune{}, ""},
		{[]rune{'a'}, `'a'`},
		{[]rune{'a', 'b', 'c'}, `'a', 'b', 'c'`},
		{[]rune{'\''}, `'\''`},
		{[]rune{'"'}, `'"'`},
		{[]rune{'\\'}, `'\\'`},
		{[]rune{'`'}, "'`'"},
		{[]rune{','}, `','`},
		{[]rune{' ', ',', ' '}, `' ', ',', ' '`},
		{[]rune{0}, `'\x00'`},
		{[]rune{'\a', '\b', '\f', '\n', '\r', '\t', '\v'}, `'\a', '\b', '\f', '\n', '\r', '\t', '\v'`},
		{[]rune{0x1b, 0x7f}, `'\x1b', '\x7f'`},
		{[]rune{0x80, 0x9f, 0xa0, 0xad}, `'\u0080', '\u009f', '\u00a0', '\u00ad'`},
		{[]rune{'é', 'ß', 'λ', '世', '界'}, `'é', 'ß', 'λ', '世', '界'`},
		{[]rune{0x2028, 0x2029, 0xfeff}, `'\u2028', '\u2029', '\ufeff'`},
		{[]rune{0xd7ff, 0xe000}, `'\ud7ff', '\ue000'`},
		{[]rune{0xd800, 0xdfff}, "'\ufffd', '\ufffd'"}, // surrogate halves are rendered as U+FFFD
		{[]rune{0xfffd}, "'\ufffd'"},
		{[]rune{0xfffe, 0xffff}, `'\ufffe', '\uffff'`},
		{[]rune{0x10000, 0x1f600}, "'\U00010000', '\U0001f600'"},
		{[]rune{0xe0001, 0x10ffff}, `'\U000e0001', '\U0010ffff'`},
		{[]rune{-1}, "'\ufffd'"}, // not a code point: rendered as U+FFFD
		{[]rune{0x110000}, "'\ufffd'"},
		{[]rune{'a', -2147483648, 'b', 2147483647}, "'a', '\ufffd', 'b', '\ufffd'"},
	}

	for _, tc := range tests {
		if got := formatRunes(tc.runes); got != tc.expected {
			t.Errorf("formatRunes(%U) = %s, expected %s", tc.runes, got, tc.expected)
		}
	}
}

// Every code point, and a margin on both sides of the valid range, one at a time.
// The result must be what the %q verb prints, and for valid scalar values it must be
// a Go rune literal that denotes exactly that rune.
func TestRefactorDemo_formatRunes_Exhaustive(t *testing.T) {
	mismatches := 0
	for r := rune(-300); r <= 0x110000+300; r++ {
		got := formatRunes([]rune{r})

		if expected := fmt.Sprintf("%q", r); got != expected {
			t.Errorf("formatRunes(%d) = %s, expected %s", r, got, expected)
			mismatches++
		}

		switch {
		case r < 0 || r > 0x10ffff || (0xd800 <= r && r <= 0xdfff):
			if got != "'\ufffd'" {
				t.Errorf("formatRunes(%U) = %s, expected U+FFFD quoted", r, got)
				mismatches++
			}
		default:
			if len(got) < 3 || got[0] != '\'' || got[len(got)-1] != '\'' {
				t.Errorf("formatRunes(%U) = %s is not single-quoted", r, got)
				mismatches++
				break
			}
			val, _, tail, err := strconv.UnquoteChar(got[1:len(got)-1], '\'')
			if err != nil || tail != "" || val != r {
				t.Errorf("formatRunes(%U) = %s does not denote the rune: %U %q %v", r, got, val, tail, err)
				mismatches++
			}
		}

		if mismatches > 20 {
			t.Fatal("too many mismatches")
		}
	}

	// Pairs: the separator is exactly ", " and there is no trailing one.
	sample := []rune{0, '\n', '\'', '\\', ',', ' ', 'a', 0x7f, 0xa0, 'é', 0xd800, 0xfffd, 0x1f600, 0x10ffff, -1, 0x110000}
	for _, x := range sample {
		for _, y := range sample {
			expected := fmt.Sprintf("%q", x) + ", " + fmt.Sprintf("%q", y)
			if got := formatRunes([]rune{x, y}); got != expected {
				t.Errorf("formatRunes(%d, %d) = %s, expected %s", x, y, got, expected)
			}
		}
	}
}

func demoGenerator(path, pkg string) *generator {
	return &generator{
		UI: ui.NewNop(),
		Params: &Params{
			Path: path,
			Spec: &spec.Spec{Name: pkg},
		},
	}
}

func demoLexerData() *lexerData {
	return &lexerData{
		Package: "demo",
		DFA: &DFA{
			Transitions: []*DFATransition{
				{
					From: 0,
					Trans: []*DFAStateTransition{
						{Symbols: []rune{'a', 'b'}, Next: 1},
						{Symbols: []rune{'\'', '"', '\\'}, Next: 2},
						{Symbols: []rune{'\n', '\t', 0}, Next: 3},
					},
				},
				{
					From: 1,
					Trans: []*DFAStateTransition{
						{Symbols: []rune{'é', 0xa0, '世', 0x1f600, 0x10ffff}, Next: 4},
					},
				},
				{
					From: 12,
					Trans: []*DFAStateTransition{
						{Symbols: []rune{'`'}, Next: 12},
					},
				},
			},
			FinalStates: []*DFAFinalStates{
				{Terminal: "ID", States: []int{1}},
				{Terminal: `"`, States: []int{2, 3}},
				{Terminal: "UNUSED", States: nil},
				{Terminal: "back\\slash\n", States: []int{4, 12, 7}},
				{Terminal: "EMPTY", States: []int{}},
				{Terminal: "é世", States: []int{5}},
			},
		},
	}
}

const demoEvalDFASwitch = `	switch state {
	case 1:
		lexeme, pos := l.in.Lexeme()
		return Token{Terminal: Terminal("ID"), Lexeme: lexeme, Pos: pos}

	case 2, 3:
		lexeme, pos := l.in.Lexeme()
		return Token{Terminal: Terminal("\""), Lexeme: lexeme, Pos: pos}

	case 4, 12, 7:
		lexeme, pos := l.in.Lexeme()
		return Token{Terminal: Terminal("back\\slash\n"), Lexeme: lexeme, Pos: pos}

	case 5:
		lexeme, pos := l.in.Lexeme()
		return Token{Terminal: Terminal("é世"), Lexeme: lexeme, Pos: pos}

	}

	// ERR
`

const demoAdvanceDFA = `func advanceDFA(state int, r rune) int {
	switch state {
	case 0:
		switch r {
		case 'a', 'b':
			return 1
		case '\'', '"', '\\':
			return 2
		case '\n', '\t', '\x00':
			return 3
		}

	case 1:
		switch r {
		case 'é', '\u00a0', '世', '😀', '\U0010ffff':
			return 4
		}

	case 12:
		switch r {
		case '` + "`" + `':
			return 12
		}

	}

	return errorState
}
`

func TestRefactorDemo_renderTemplate_Lexer(t *testing.T) {
	tempDir := t.TempDir()
	if err := os.Mkdir(filepath.Join(tempDir, "demo"), os.ModePerm); err != nil {
		t.Fatal(err)
	}

	g := demoGenerator(tempDir, "demo")

	if err := g.renderTemplate("lexer.go", demoLexerData()); err != nil {
		t.Fatalf("unexpected error: %s", err)
	}

	outPath := filepath.Join(tempDir, "demo", "lexer.go")
	content, err := os.ReadFile(outPath)
	if err != nil {
		t.Fatal(err)
	}
	out := string(content)

	if !strings.Contains(out, "package demo\n") {
		t.Errorf("package clause is missing")
	}
	if !strings.Contains(out, demoEvalDFASwitch) {
		t.Errorf("evalDFA switch is not as expected:\n%s", out)
	}
	if !strings.HasSuffix(out, demoAdvanceDFA) {
		t.Errorf("advanceDFA is not as expected:\n%s", out)
	}
	if strings.Contains(out, "UNUSED") || strings.Contains(out, "EMPTY") {
		t.Errorf("terminals owning no state must not be emitted")
	}
	if strings.Contains(out, "case :") {
		t.Errorf("empty case list emitted")
	}

	// The emitted file is syntactically valid Go and the two functions carry the expected case lists.
	fset := token.NewFileSet()
	file, err := parser.ParseFile(fset, outPath, content, parser.AllErrors)
	if err != nil {
		t.Fatalf("emitted lexer does not parse: %s", err)
	}

	var caseLists []string
	ast.Inspect(file, func(n ast.Node) bool {
		fn, ok := n.(*ast.FuncDecl)
		if !ok {
			return true
		}
		if fn.Name.Name != "advanceDFA" && fn.Name.Name != "evalDFA" {
			return false
		}
		ast.Inspect(fn.Body, func(n ast.Node) bool {
			if cc, ok := n.(*ast.CaseClause); ok {
				lits := []string{}
				for _, e := range cc.List {
					lits = append(lits, e.(*ast.BasicLit).Value)
				}
				caseLists = append(caseLists, fn.Name.Name+": "+strings.Join(lits, " "))
			}
			return true
		})
		return false
	})

	expectedCaseLists := []string{
		`evalDFA: 1`,
		`evalDFA: 2 3`,
		`evalDFA: 4 12 7`,
		`evalDFA: 5`,
		`advanceDFA: 0`,
		`advanceDFA: 'a' 'b'`,
		`advanceDFA: '\'' '"' '\\'`,
		`advanceDFA: '\n' '\t' '\x00'`,
		`advanceDFA: 1`,
		`advanceDFA: 'é' '\u00a0' '世' '😀' '\U0010ffff'`,
		`advanceDFA: 12`,
		"advanceDFA: '`'",
	}
	if got, expected := strings.Join(caseLists, "\n"), strings.Join(expectedCaseLists, "\n"); got != expected {
		t.Errorf("case lists:\n%s\nexpected:\n%s", got, expected)
	}

	// The output file is created exclusively: rendering again fails and leaves the file untouched.
	err = g.renderTemplate("lexer.go", &lexerData{Package: "other", DFA: &DFA{}})
	if err == nil || !strings.HasSuffix(err.Error(), "/demo/lexer.go: file exists") || !strings.HasPrefix(err.Error(), "open ") {
		t.Errorf("unexpected error on rendering twice: %v", err)
	}
	again, err := os.ReadFile(outPath)
	if err != nil || string(again) != out {
		t.Errorf("existing file was modified by the failed rendering")
	}
}

func TestRefactorDemo_renderTemplate_EmptyDFA(t *testing.T) {
	tempDir := t.TempDir()
	if err := os.Mkdir(filepath.Join(tempDir, "empty"), os.ModePerm); err != nil {
		t.Fatal(err)
	}

	g := demoGenerator(tempDir, "empty")
	data := &lexerData{
		Package: "empty",
		DFA: &DFA{
			FinalStates: []*DFAFinalStates{{Terminal: "X"}},
		},
	}

	if err := g.renderTemplate("lexer.go", data); err != nil {
		t.Fatalf("unexpected error: %s", err)
	}

	content, err := os.ReadFile(filepath.Join(tempDir, "empty", "lexer.go"))
	if err != nil {
		t.Fatal(err)
	}

	expectedTail := `func advanceDFA(state int, r rune) int {
	switch state {
	}

	return errorState
}
`
	if !strings.HasSuffix(string(content), expectedTail) {
		t.Errorf("advanceDFA is not as expected:\n%s", content)
	}
	if !strings.Contains(string(content), "\tswitch state {\n\t}\n\n\t// ERR\n") {
		t.Errorf("evalDFA is not as expected:\n%s", content)
	}
	if _, err := parser.ParseFile(token.NewFileSet(), "lexer.go", content, parser.AllErrors); err != nil {
		t.Errorf("emitted lexer does not parse: %s", err)
	}
}

func TestRefactorDemo_renderTemplate_AllTemplates(t *testing.T) {
	tempDir := t.TempDir()
	if err := os.Mkdir(filepath.Join(tempDir, "demo"), os.ModePerm); err != nil {
		t.Fatal(err)
	}

	g := demoGenerator(tempDir, "demo")

	for _, name := range []string{"errors.go", "types.go", "stack.go", "parser.go"} {
		if err := g.renderTemplate(name, &coreData{Package: "demo"}); err != nil {
			t.Fatalf("%s: unexpected error: %s", name, err)
		}
	}
	if err := g.renderTemplate("input.go", demoLexerData()); err != nil {
		t.Fatalf("input.go: unexpected error: %s", err)
	}

	for _, name := range []string{"errors.go", "types.go", "stack.go", "parser.go", "input.go"} {
		content, err := os.ReadFile(filepath.Join(tempDir, "demo", name))
		if err != nil {
			t.Fatal(err)
		}
		if !strings.Contains(string(content), "package demo\n") {
			t.Errorf("%s: package clause is missing", name)
		}
		if _, err := parser.ParseFile(token.NewFileSet(), name, content, parser.AllErrors); err != nil {
			t.Errorf("%s does not parse: %s", name, err)
		}
	}
}

func TestRefactorDemo_renderTemplate_Errors(t *testing.T) {
	tempDir := t.TempDir()
	if err := os.Mkdir(filepath.Join(tempDir, "demo"), os.ModePerm); err != nil {
		t.Fatal(err)
	}

	// Unknown template: the error comes from the embedded file system and nothing is created.
	// The generator has no params at all, so the template is looked up before the output path is computed.
	err := (&generator{UI: ui.NewNop()}).renderTemplate("missing.go", nil)
	if err == nil || err.Error() != "open templates/missing.go.tmpl: file does not exist" {
		t.Errorf("unexpected error for a missing template: %v", err)
	}

	err = demoGenerator(tempDir, "demo").renderTemplate("missing.go", nil)
	if err == nil || err.Error() != "open templates/missing.go.tmpl: file does not exist" {
		t.Errorf("unexpected error for a missing template: %v", err)
	}
	if entries, _ := os.ReadDir(filepath.Join(tempDir, "demo")); len(entries) != 0 {
		t.Errorf("a missing template must not create any file: %v", entries)
	}

	// Package directory missing: the file cannot be created.
	err = demoGenerator(tempDir, "absent").renderTemplate("lexer.go", demoLexerData())
	if err == nil || err.Error() != "open "+filepath.Join(tempDir, "absent", "lexer.go")+": no such file or directory" {
		t.Errorf("unexpected error for a missing package directory: %v", err)
	}

	// Data of the wrong shape: the file is created, execution fails part-way.
	err = demoGenerator(tempDir, "demo").renderTemplate("lexer.go", &coreData{Package: "demo"})
	if err == nil || !strings.HasPrefix(err.Error(), "template: lexer.go:") || !strings.Contains(err.Error(), "can't evaluate field DFA") {
		t.Errorf("unexpected error for data of the wrong shape: %v", err)
	}
	if _, statErr := os.Stat(filepath.Join(tempDir, "demo", "lexer.go")); statErr != nil {
		t.Errorf("output file should exist after a failed execution: %v", statErr)
	}
}
