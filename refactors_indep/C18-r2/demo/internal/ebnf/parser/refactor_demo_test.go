package parser

import (
	"errors"
	"fmt"
	"os"
	"path/filepath"
	"reflect"
	"strings"
	"testing"

	"github.com/moorara/algo/grammar"
	"github.com/moorara/algo/lexer"
	"github.com/moorara/algo/parser"
	"github.com/moorara/algo/parser/lr"
)

// demoSources are the specifications used by the characterization tests below.
var demoSources = []struct {
	name string
	src  string
}{
	{"NameOnly", `grammar g`},
	{"NameSemi", `grammar g;`},
	{"Tokens", "grammar t;\nAA = \"a\"\nNUM = /[0-9]+/;\nID = $ID\n"},
	{"Directives", "grammar d;\n@left \"+\" AA\n@right <e = e \"^\" e>;\n@none \"=\" <e = > BB\n"},
	{"EmptyRule", "grammar e;\nx = ;\n"},
	{"Rules", "grammar r;\ns = a BB | \"c\" ;\na = [ s ] { BB } {{ \"d\" }} ( a | ) ;\n"},
	{"Concat", "grammar c;\ns = a b c d;\n"},
	{"Nested", "grammar n;\ns = ( [ { {{ a }} } ] ) | ( b | c | ) d ;\n"},
}

// demoEvent is a single callback invocation observed during a parse.
type demoEvent struct {
	kind string // "T" for token, "P" for production
	text string
}

func (e demoEvent) String() string { return e.kind + ":" + e.text }

// demoTrace runs Parse and records every callback invocation in order.
func demoTrace(t *testing.T, src string) []demoEvent {
	t.Helper()

	p, err := New("demo", strings.NewReader(src))
	if err != nil {
		t.Fatalf("New: %v", err)
	}

	var events []demoEvent
	err = p.Parse(
		func(tok *lexer.Token) error {
			events = append(events, demoEvent{"T", fmt.Sprintf("%s@%d", tok.Lexeme, tok.Pos.Offset)})
			return nil
		},
		func(i int) error {
			events = append(events, demoEvent{"P", fmt.Sprintf("%d", i)})
			return nil
		},
	)
	if err != nil {
		t.Fatalf("Parse: %v", err)
	}

	return events
}

// demoSexpr is an evaluation function rendering the derivation as an s-expression.
// It also checks the shape of the values it receives.
func demoSexpr(t *testing.T, log *[]string) EvaluateFunc {
	return func(i int, rhs []*lr.Value) (any, error) {
		if rhs == nil {
			t.Errorf("production %d: rhs is nil, a non-nil slice is expected even for empty productions", i)
		}
		if len(rhs) != len(productions[i].Body) || cap(rhs) != len(rhs) {
			t.Errorf("production %d: got %d values (cap %d), body has %d symbols", i, len(rhs), cap(rhs), len(productions[i].Body))
		}

		parts := []string{fmt.Sprintf("%d", i)}
		for k, v := range rhs {
			if v == nil {
				t.Fatalf("production %d: value %d is nil", i, k)
			}
			switch productions[i].Body[k].(type) {
			case grammar.Terminal:
				s, ok := v.Val.(string)
				if !ok {
					t.Fatalf("production %d: value %d is %T, a lexeme is expected", i, k, v.Val)
				}
				if v.Pos == nil {
					t.Fatalf("production %d: value %d has no position", i, k)
				}
				parts = append(parts, fmt.Sprintf("%q@%d", s, v.Pos.Offset))
			case grammar.NonTerminal:
				s, ok := v.Val.(*demoTree)
				if !ok {
					t.Fatalf("production %d: value %d is %T, a tree is expected", i, k, v.Val)
				}
				if s.head != productions[i].Body[k] {
					t.Errorf("production %d: value %d is for %s, expected %s", i, k, s.head, productions[i].Body[k])
				}
				off := "nil"
				if v.Pos != nil {
					off = fmt.Sprintf("%d", v.Pos.Offset)
				}
				parts = append(parts, fmt.Sprintf("%s@%s", s.text, off))
			}
		}

		text := "(" + strings.Join(parts, " ") + ")"
		*log = append(*log, text)

		return &demoTree{head: productions[i].Head, text: text}, nil
	}
}

type demoTree struct {
	head grammar.NonTerminal
	text string
}

// demoRender renders an AST using the same notation as demoSexpr.
func demoRender(t *testing.T, n parser.Node) (string, string) {
	switch n := n.(type) {
	case *parser.LeafNode:
		return fmt.Sprintf("%q", n.Lexeme), fmt.Sprintf("%d", n.Position.Offset)
	case *parser.InternalNode:
		idx := -1
		for i, prod := range productions {
			if prod == n.Production {
				idx = i
			}
		}
		if idx < 0 {
			t.Fatalf("unknown production %s", n.Production)
		}
		if n.NonTerminal != productions[idx].Head {
			t.Errorf("node for production %d has non-terminal %s", idx, n.NonTerminal)
		}
		if len(n.Children) != len(productions[idx].Body) {
			t.Errorf("node for production %d has %d children", idx, len(n.Children))
		}
		if len(productions[idx].Body) == 0 && n.Children != nil {
			t.Errorf("node for empty production %d has non-nil children", idx)
		}
		parts := []string{fmt.Sprintf("%d", idx)}
		pos := "nil"
		for k, c := range n.Children {
			s, off := demoRender(t, c)
			if k == 0 {
				pos = off
			}
			parts = append(parts, s+"@"+off)
		}
		return "(" + strings.Join(parts, " ") + ")", pos
	default:
		t.Fatalf("unexpected node %T", n)
		return "", ""
	}
}

// demoGoldens pins the exact callback order and evaluation result for a few small specifications.
var demoGoldens = map[string]struct {
	trace string
	value string
}{
	"NameOnly": {
		trace: `[T:grammar@0 T:g@8 P:8 P:1 P:3 P:0]`,
		value: `(0 (1 "grammar"@0 "g"@8 (8)@nil)@0 (3)@nil)`,
	},
	"NameSemi": {
		trace: `[T:grammar@0 T:g@8 T:;@9 P:7 P:1 P:3 P:0]`,
		value: `(0 (1 "grammar"@0 "g"@8 (7 ";"@9)@9)@0 (3)@nil)`,
	},
	"EmptyRule": {
		trace: `[T:grammar@0 T:e@8 T:;@9 P:7 P:1 P:3 T:x@11 P:32 P:22 T:=@13 P:21 T:;@15 P:6 P:2 P:0]`,
		value: `(0 (1 "grammar"@0 "e"@8 (7 ";"@9)@9)@0 (2 (3)@nil (6 (21 (22 (32 "x"@11)@11)@11 "="@13)@11 ";"@15)@11)@nil)`,
	},
	"Tokens": {
		trace: `[T:grammar@0 T:t@8 T:;@9 P:7 P:1 P:3 T:AA@11 T:=@14 T:a@16 P:9 P:8 P:4 P:2 T:NUM@20 T:=@24 T:[0-9]+@26 P:10 T:;@34 P:7 P:4 P:2 T:ID@36 T:=@39 T:$ID@41 P:11 P:8 P:4 P:2 P:0]`,
		value: `(0 (1 "grammar"@0 "t"@8 (7 ";"@9)@9)@0 (2 (2 (2 (3)@nil (4 (9 "AA"@11 "="@14 "a"@16)@11 (8)@nil)@11)@nil (4 (10 "NUM"@20 "="@24 "[0-9]+"@26)@20 (7 ";"@34)@34)@20)@nil (4 (11 "ID"@36 "="@39 "$ID"@41)@36 (8)@nil)@36)@nil)`,
	},
	"Concat": {
		trace: `[T:grammar@0 T:c@8 T:;@9 P:7 P:1 P:3 T:s@11 P:32 P:22 T:=@13 T:a@15 P:32 P:30 T:b@17 P:32 P:30 P:23 T:c@19 P:32 P:30 P:23 T:d@21 P:32 P:30 P:23 P:20 T:;@22 P:6 P:2 P:0]`,
		value: `(0 (1 "grammar"@0 "c"@8 (7 ";"@9)@9)@0 (2 (3)@nil (6 (20 (22 (32 "s"@11)@11)@11 "="@13 (23 (23 (23 (30 (32 "a"@15)@15)@15 (30 (32 "b"@17)@17)@17)@15 (30 (32 "c"@19)@19)@19)@15 (30 (32 "d"@21)@21)@21)@15)@11 ";"@22)@11)@nil)`,
	},
}

// demoAllSources returns the inline specifications plus the valid fixture files.
func demoAllSources(t *testing.T) map[string]string {
	t.Helper()

	all := map[string]string{}
	for _, s := range demoSources {
		all[s.name] = s.src
	}

	for _, f := range []string{"ebnf.grammar", "pascal.grammar", "please.grammar", "test.success.grammar"} {
		b, err := os.ReadFile(filepath.Join("..", "fixture", f))
		if err != nil {
			t.Fatalf("fixture %s: %v", f, err)
		}
		all[f] = string(b)
	}

	return all
}

// demoReference computes the expected s-expression from a callback trace alone,
// using a plain slice as the stack. It is independent of the code under test.
func demoReference(t *testing.T, events []demoEvent) (string, []string) {
	type entry struct{ text, pos string }

	var stack []entry
	var log []string
	for _, ev := range events {
		switch ev.kind {
		case "T":
			k := strings.LastIndex(ev.text, "@")
			stack = append(stack, entry{fmt.Sprintf("%q", ev.text[:k]), ev.text[k+1:]})
		case "P":
			var idx int
			if _, err := fmt.Sscanf(ev.text, "%d", &idx); err != nil {
				t.Fatal(err)
			}
			n := len(productions[idx].Body)
			body := stack[len(stack)-n:]
			parts, pos := []string{ev.text}, "nil"
			for k, e := range body {
				if k == 0 {
					pos = e.pos
				}
				parts = append(parts, e.text+"@"+e.pos)
			}
			text := "(" + strings.Join(parts, " ") + ")"
			log = append(log, text)
			stack = append(stack[:len(stack)-n:len(stack)-n], entry{text, pos})
		}
	}

	if len(stack) != 1 {
		t.Fatalf("reference stack has %d entries at the end", len(stack))
	}

	return stack[0].text, log
}

// Callbacks fire once per token in source order and once per reduction in reverse rightmost derivation order.
func TestRefactorDemo_CallbackOrder(t *testing.T) {
	for name, src := range demoAllSources(t) {
		t.Run(name, func(t *testing.T) {
			events := demoTrace(t, src)

			if g, ok := demoGoldens[name]; ok {
				if got := fmt.Sprint(events); got != g.trace {
					t.Errorf("trace mismatch\n got: %s\nwant: %s", got, g.trace)
				}
			}

			// Tokens are yielded with strictly increasing offsets.
			last, tokens, prods := -1, 0, 0
			for _, ev := range events {
				if ev.kind == "P" {
					prods++
					continue
				}
				tokens++
				var off int
				fmt.Sscanf(ev.text[strings.LastIndex(ev.text, "@")+1:], "%d", &off)
				if off <= last {
					t.Errorf("token %s is out of order", ev.text)
				}
				last = off
			}

			// The last reduction is always by the start production and the first event is the grammar keyword.
			if events[0].String() != "T:grammar@"+events[0].text[len("grammar@"):] || events[len(events)-1].String() != "P:0" {
				t.Errorf("unexpected first/last events: %s, %s", events[0], events[len(events)-1])
			}

			// The evaluation function is called exactly once per reduction, in the same order, with the same indices.
			p, _ := New("demo", strings.NewReader(src))
			var calls []string
			_, err := p.ParseAndEvaluate(func(i int, rhs []*lr.Value) (any, error) {
				calls = append(calls, fmt.Sprintf("P:%d", i))
				return nil, nil
			})
			if err != nil {
				t.Fatal(err)
			}
			var want []string
			for _, ev := range events {
				if ev.kind == "P" {
					want = append(want, ev.String())
				}
			}
			if !reflect.DeepEqual(calls, want) || len(calls) != prods {
				t.Errorf("evaluation order mismatch\n got: %v\nwant: %v", calls, want)
			}
		})
	}
}

// The evaluation function receives exactly the values of the body symbols, left to right,
// and the head gets the result as its value and the position of the first body symbol.
func TestRefactorDemo_Evaluate(t *testing.T) {
	for name, src := range demoAllSources(t) {
		t.Run(name, func(t *testing.T) {
			p, err := New("demo", strings.NewReader(src))
			if err != nil {
				t.Fatal(err)
			}

			var log []string
			v, err := p.ParseAndEvaluate(demoSexpr(t, &log))
			if err != nil {
				t.Fatal(err)
			}

			tree, ok := v.Val.(*demoTree)
			if !ok || tree.head != "grammar" {
				t.Fatalf("unexpected root value %v", v.Val)
			}
			if v.Pos == nil || v.Pos.Offset != 0 || v.Pos.Filename != "demo" {
				// Every fixture may start with comments, so only check the inline sources strictly.
				if _, inline := demoGoldens[name]; inline {
					t.Errorf("unexpected root position %v", v.Pos)
				}
			}

			if g, ok := demoGoldens[name]; ok && tree.text != g.value {
				t.Errorf("value mismatch\n got: %s\nwant: %s", tree.text, g.value)
			}

			wantText, wantLog := demoReference(t, demoTrace(t, src))
			if tree.text != wantText {
				t.Errorf("value differs from reference\n got: %s\nwant: %s", tree.text, wantText)
			}
			if !reflect.DeepEqual(log, wantLog) {
				t.Errorf("evaluation log differs from reference")
			}

			// The AST built by ParseAndBuildAST describes the very same derivation.
			p, _ = New("demo", strings.NewReader(src))
			root, err := p.ParseAndBuildAST()
			if err != nil {
				t.Fatal(err)
			}
			if got, _ := demoRender(t, root); got != wantText {
				t.Errorf("AST differs from reference\n got: %s\nwant: %s", got, wantText)
			}
		})
	}
}

// Positions: every token value owns a fresh copy of the token position,
// while a head shares the very pointer of its first body value; empty productions have no position.
func TestRefactorDemo_Positions(t *testing.T) {
	src := "grammar p;\nAA = \"a\"\ns = AA s | ;\n"

	p, err := New("demo", strings.NewReader(src))
	if err != nil {
		t.Fatal(err)
	}

	seen := map[*lexer.Position]bool{}
	heads := map[*lr.Value]bool{}
	var tokens, empties int

	root, err := p.ParseAndEvaluate(func(i int, rhs []*lr.Value) (any, error) {
		for k, v := range rhs {
			if _, isTerm := productions[i].Body[k].(grammar.Terminal); isTerm {
				tokens++
				if seen[v.Pos] {
					t.Errorf("production %d: token position pointer is shared", i)
				}
				seen[v.Pos] = true
			} else {
				// Values of non-terminals are the results of earlier calls: a marker holding the expected position.
				m := v.Val.(*demoMarker)
				if v.Pos != m.pos {
					t.Errorf("production %d: value %d has position %p, expected %p", i, k, v.Pos, m.pos)
				}
				if heads[v] {
					t.Errorf("production %d: value %d is handed out twice", i, k)
				}
				heads[v] = true
			}
		}
		m := &demoMarker{}
		if len(rhs) == 0 {
			empties++
		} else {
			m.pos = rhs[0].Pos
		}
		return m, nil
	})
	if err != nil {
		t.Fatal(err)
	}

	if tokens != 12 || empties != 2 {
		t.Errorf("got %d token values and %d empty productions, expected 12 and 2", tokens, empties)
	}
	if m := root.Val.(*demoMarker); root.Pos != m.pos || root.Pos == nil || *root.Pos != (lexer.Position{Filename: "demo", Offset: 0, Line: 1, Column: 1}) {
		t.Errorf("unexpected root position %v", root.Pos)
	}
}

type demoMarker struct{ pos *lexer.Position }

// An error returned by any callback stops the parse right there and is returned to the caller.
func TestRefactorDemo_ErrorsAbort(t *testing.T) {
	src := "grammar r;\ns = a BB | \"c\" ;\na = [ s ] { BB } ( a | ) ;\n"
	events := demoTrace(t, src)

	var nTokens, nProds int
	for _, ev := range events {
		if ev.kind == "T" {
			nTokens++
		} else {
			nProds++
		}
	}
	if nTokens != 23 || nProds != 34 {
		t.Fatalf("got %d tokens and %d reductions, expected 23 and 34", nTokens, nProds)
	}

	boom := errors.New("boom")

	// ParseAndEvaluate: fail at the k-th evaluation.
	for k := 0; k < nProds; k++ {
		p, _ := New("demo", strings.NewReader(src))
		calls := 0
		v, err := p.ParseAndEvaluate(func(i int, rhs []*lr.Value) (any, error) {
			calls++
			if calls == k+1 {
				return "ignored", boom
			}
			return i, nil
		})
		if v != nil || !errors.Is(err, boom) || calls != k+1 {
			t.Errorf("k=%d: value %v, error %v, calls %d", k, v, err, calls)
		}
		var pe *parser.ParseError
		if !errors.As(err, &pe) || pe.Cause != boom || pe.Description != "" || !pe.Pos.IsZero() {
			t.Errorf("k=%d: unexpected error %#v", k, err)
		}
		if err != nil && err.Error() != "boom" {
			t.Errorf("k=%d: unexpected error text %q", k, err.Error())
		}
	}

	// Parse: fail at the k-th event, whichever callback that is.
	for k := range events {
		p, _ := New("demo", strings.NewReader(src))
		var got []demoEvent
		step := func(ev demoEvent) error {
			got = append(got, ev)
			if len(got) == k+1 {
				return boom
			}
			return nil
		}
		err := p.Parse(
			func(tok *lexer.Token) error {
				return step(demoEvent{"T", fmt.Sprintf("%s@%d", tok.Lexeme, tok.Pos.Offset)})
			},
			func(i int) error { return step(demoEvent{"P", fmt.Sprintf("%d", i)}) },
		)
		if !errors.Is(err, boom) || !reflect.DeepEqual(got, events[:k+1]) {
			t.Errorf("k=%d: error %v after %d events", k, err, len(got))
		}
	}

	// Syntax and lexical errors surface from all three entry points alike, without a result.
	for _, bad := range []string{"", "grammar", "grammar g; s = ( a ;", "grammar g; s = a", "grammar g; = ;", "grammar g; s = a ; %"} {
		p1, _ := New("demo", strings.NewReader(bad))
		err1 := p1.Parse(nil, nil)
		p2, _ := New("demo", strings.NewReader(bad))
		v, err2 := p2.ParseAndEvaluate(func(i int, rhs []*lr.Value) (any, error) { return nil, nil })
		p3, _ := New("demo", strings.NewReader(bad))
		n, err3 := p3.ParseAndBuildAST()
		if err1 == nil || err2 == nil || err3 == nil || v != nil || n != nil {
			t.Errorf("%q: expected failures, got %v / %v, %v / %v, %v", bad, err1, v, err2, n, err3)
			continue
		}
		if err1.Error() != err2.Error() || err1.Error() != err3.Error() {
			t.Errorf("%q: errors differ: %q, %q, %q", bad, err1, err2, err3)
		}
	}
}

// ParseAndBuildAST yields the same tree as a straightforward construction driven by Parse.
func TestRefactorDemo_AST(t *testing.T) {
	for name, src := range demoAllSources(t) {
		t.Run(name, func(t *testing.T) {
			p, _ := New("demo", strings.NewReader(src))
			got, err := p.ParseAndBuildAST()
			if err != nil {
				t.Fatal(err)
			}

			var stack []parser.Node
			p, _ = New("demo", strings.NewReader(src))
			err = p.Parse(
				func(tok *lexer.Token) error {
					stack = append(stack, &parser.LeafNode{Terminal: tok.Terminal, Lexeme: tok.Lexeme, Position: tok.Pos})
					return nil
				},
				func(i int) error {
					n := len(productions[i].Body)
					in := &parser.InternalNode{NonTerminal: productions[i].Head, Production: productions[i]}
					if n > 0 {
						in.Children = append([]parser.Node(nil), stack[len(stack)-n:]...)
					}
					stack = append(stack[:len(stack)-n], in)
					return nil
				},
			)
			if err != nil || len(stack) != 1 {
				t.Fatalf("reference construction failed: %v, %d", err, len(stack))
			}

			if !reflect.DeepEqual(got, stack[0]) {
				t.Errorf("AST differs from reference construction")
			}
			if !parser.EqNode(got, stack[0]) {
				t.Errorf("AST is not equal to the reference construction")
			}
		})
	}
}

// A tiny AST spelled out by hand, including empty productions whose nodes have nil children.
func TestRefactorDemo_ASTConcrete(t *testing.T) {
	p, _ := New("demo", strings.NewReader("grammar g"))
	got, err := p.ParseAndBuildAST()
	if err != nil {
		t.Fatal(err)
	}

	want := &parser.InternalNode{
		NonTerminal: "grammar",
		Production:  productions[0],
		Children: []parser.Node{
			&parser.InternalNode{
				NonTerminal: "name",
				Production:  productions[1],
				Children: []parser.Node{
					&parser.LeafNode{Terminal: "grammar", Lexeme: "grammar", Position: lexer.Position{Filename: "demo", Offset: 0, Line: 1, Column: 1}},
					&parser.LeafNode{Terminal: "IDENT", Lexeme: "g", Position: lexer.Position{Filename: "demo", Offset: 8, Line: 1, Column: 9}},
					&parser.InternalNode{NonTerminal: "semi_opt", Production: productions[8]},
				},
			},
			&parser.InternalNode{NonTerminal: "decls", Production: productions[3]},
		},
	}

	if !reflect.DeepEqual(got, want) {
		t.Errorf("unexpected AST\n got: %v\nwant: %v", got, want)
	}
}
