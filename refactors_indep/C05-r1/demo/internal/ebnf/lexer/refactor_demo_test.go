package lexer

import (
	"errors"
	"fmt"
	"io"
	"os"
	"strings"
	"testing"

	"github.com/moorara/algo/lexer"
)

// demoScan scans the source and renders every result of NextToken as one line.
// It stops at the end of the input, or after the third error, since a lexical error in the initial state consumes nothing.
func demoScan(src string) []string {
	lex, err := New("f", strings.NewReader(src))
	if err != nil {
		return []string{"new: " + err.Error()}
	}

	var out []string
	for errs := 0; errs < 3; {
		token, err := lex.NextToken()
		if err == io.EOF {
			out = append(out, "EOF")
			break
		}

		if err != nil {
			errs++
			out = append(out, fmt.Sprintf("error(%s) zero=%t", err, token == lexer.Token{}))
			continue
		}

		out = append(out, fmt.Sprintf("%s %q @%d:%d:%d", string(token.Terminal), token.Lexeme, token.Pos.Offset, token.Pos.Line, token.Pos.Column))
	}

	return out
}

func TestRefactorDemo_Scan(t *testing.T) {
	tests := []struct {
		src      string
		expected []string
	}{
		{"", []string{"EOF"}},
		{" \t\r\n\n ", []string{"EOF"}},
		{"=", []string{`= "=" @0:1:1`, "EOF"}},
		{
			"=;|()[]{}<>",
			[]string{
				`= "=" @0:1:1`, `; ";" @1:1:2`, `| "|" @2:1:3`, `( "(" @3:1:4`, `) ")" @4:1:5`, `[ "[" @5:1:6`, `] "]" @6:1:7`,
				`{ "{" @7:1:8`, `} "}" @8:1:9`, `< "<" @9:1:10`, `> ">" @10:1:11`, "EOF",
			},
		},
		{"{{{", []string{`{{ "{{" @0:1:1`, `{ "{" @2:1:3`, "EOF"}},
		{"}}}}}", []string{`}} "}}" @0:1:1`, `}} "}}" @2:1:3`, `} "}" @4:1:5`, "EOF"}},
		{"{ {", []string{`{ "{" @0:1:1`, `{ "{" @2:1:3`, "EOF"}},
		{
			"grammar gramma grammars g gr grammar_ grammar",
			[]string{
				`grammar "grammar" @0:1:1`, `IDENT "gramma" @8:1:9`, `IDENT "grammars" @15:1:16`, `IDENT "g" @24:1:25`,
				`IDENT "gr" @26:1:27`, `IDENT "grammar_" @29:1:30`, `grammar "grammar" @38:1:39`, "EOF",
			},
		},
		{
			"grammar\nfoo_1 = BAR_2 X;",
			[]string{
				`grammar "grammar" @0:1:1`, `IDENT "foo_1" @8:2:1`, `= "=" @14:2:7`, `TOKEN "BAR_2" @16:2:9`,
				`error(lexical error at f:2:15:X) zero=true`, `; ";" @23:2:16`, "EOF",
			},
		},
		{"AB aB Ab", []string{
			`TOKEN "AB" @0:1:1`, `IDENT "a" @3:1:4`, `error(lexical error at f:1:5:B) zero=true`,
			`error(lexical error at f:1:7:A) zero=true`, `IDENT "b" @7:1:8`, "EOF",
		}},
		{"$STRING $A_1 $", []string{`PREDEF "$STRING" @0:1:1`, `PREDEF "$A_1" @8:1:9`, `error(lexical error at f:1:14:$) zero=true`, "EOF"}},
		{"$a", []string{`error(lexical error at f:1:1:$) zero=true`, `IDENT "a" @1:1:2`, "EOF"}},
		{
			"@left @right @none",
			[]string{`@left "@left" @0:1:1`, `@right "@right" @6:1:7`, `@none "@none" @13:1:14`, "EOF"},
		},
		{"@lefty", []string{`@left "@left" @0:1:1`, `IDENT "y" @5:1:6`, "EOF"}},
		{"@le ft", []string{`error(lexical error at f:1:1:@le) zero=true`, `IDENT "ft" @4:1:5`, "EOF"}},
		{"@rig", []string{`error(lexical error at f:1:1:@rig) zero=true`, "EOF"}},
		{`"a" "\"" "a b"`, []string{
			`STRING "a" @0:1:1`, `STRING "\\\"" @4:1:5`, `error(lexical error at f:1:10:"a) zero=true`,
			`IDENT "b" @12:1:13`, `error(lexical error at f:1:14:") zero=true`, "EOF",
		}},
		{`""`, []string{`error(lexical error at f:1:1:") zero=true`, `error(lexical error at f:1:2:") zero=true`, "EOF"}},
		{`"\\" "//" "/*"`, []string{`STRING "\\\\" @0:1:1`, `STRING "//" @5:1:6`, `STRING "/*" @10:1:11`, "EOF"}},
		{"\"ab\ncd\"", []string{
			`error(lexical error at f:1:1:"ab) zero=true`, `IDENT "cd" @4:2:1`, `error(lexical error at f:2:3:") zero=true`, "EOF",
		}},
		{`/a b/ /[0-9]+\// /\\/;`, []string{`REGEX "a b" @0:1:1`, `REGEX "[0-9]+\\/" @6:1:7`, `REGEX "\\\\" @17:1:18`, `; ";" @21:1:22`, "EOF"}},
		{`/a*/ /"/`, []string{`REGEX "a*" @0:1:1`, `REGEX "\"" @5:1:6`, "EOF"}},
		{"/ab\n/", []string{`error(lexical error at f:1:1:/ab) zero=true`, `error(lexical error at f:2:1:/) zero=true`, "EOF"}},
		{"a // c = \"x\" /* \nb", []string{`IDENT "a" @0:1:1`, `IDENT "b" @17:2:1`, "EOF"}},
		{"//", []string{"EOF"}},
		{"// only", []string{"EOF"}},
		{"//\r\nx", []string{`IDENT "x" @4:2:1`, "EOF"}},
		{"a /* x */ b */ c", []string{
			`IDENT "a" @0:1:1`, `IDENT "b" @10:1:11`, `error(lexical error at f:1:13:) zero=true`,
			`error(lexical error at f:1:13:) zero=true`, `error(lexical error at f:1:13:) zero=true`,
		}},
		{"/**/x/***/y/* * / **/z", []string{`IDENT "x" @4:1:5`, `IDENT "y" @10:1:11`, `IDENT "z" @21:1:22`, "EOF"}},
		{"/* a\n\n b\r\n*/   c", []string{`IDENT "c" @15:4:6`, "EOF"}},
		{"/* open", []string{`error(lexical error at f:1:1:/* open) zero=true`, "EOF"}},
		{"/* open *", []string{`error(lexical error at f:1:1:/* open *) zero=true`, "EOF"}},
		{"/", []string{`error(lexical error at f:1:1:/) zero=true`, "EOF"}},
		{"a\n\n\tb\r\n  c", []string{`IDENT "a" @0:1:1`, `IDENT "b" @4:3:2`, `IDENT "c" @9:4:3`, "EOF"}},
		{"a\rb", []string{`IDENT "a" @0:1:1`, `IDENT "b" @2:1:3`, "EOF"}},
		{"#", []string{
			`error(lexical error at f:1:1:) zero=true`, `error(lexical error at f:1:1:) zero=true`,
			`error(lexical error at f:1:1:) zero=true`,
		}},
		{"a 1", []string{
			`IDENT "a" @0:1:1`, `error(lexical error at f:1:3:) zero=true`, `error(lexical error at f:1:3:) zero=true`,
			`error(lexical error at f:1:3:) zero=true`,
		}},
		{"a1 A1 a_ A_", []string{`IDENT "a1" @0:1:1`, `TOKEN "A1" @3:1:4`, `IDENT "a_" @6:1:7`, `TOKEN "A_" @9:1:10`, "EOF"}},
		{"A", []string{`error(lexical error at f:1:1:A) zero=true`, "EOF"}},
		{"a é b", []string{
			`IDENT "a" @0:1:1`, `error(lexical error at f:1:3:) zero=true`, `error(lexical error at f:1:3:) zero=true`,
			`error(lexical error at f:1:3:) zero=true`,
		}},
		// A character that is not in the documented alphabet ends a comment, and is then a lexical error of its own.
		{"// é ü\nx", []string{
			`error(lexical error at f:1:4:) zero=true`, `error(lexical error at f:1:4:) zero=true`, `error(lexical error at f:1:4:) zero=true`,
		}},
		{"\"é\" x", []string{`error(lexical error at f:1:1:") zero=true`, `error(lexical error at f:1:2:) zero=true`,
			`error(lexical error at f:1:2:) zero=true`}},
		{"ab\xffcd", []string{
			`error(f:1:3: invalid utf-8 character) zero=true`, `error(f:1:3: invalid utf-8 character) zero=true`,
			`error(f:1:3: invalid utf-8 character) zero=true`,
		}},
		{"\n\xff", []string{
			`error(f:2:1: invalid utf-8 character) zero=true`, `error(f:2:1: invalid utf-8 character) zero=true`,
			`error(f:2:1: invalid utf-8 character) zero=true`,
		}},
		{"x\x00y", []string{
			`IDENT "x" @0:1:1`, `error(lexical error at f:1:2:) zero=true`, `error(lexical error at f:1:2:) zero=true`,
			`error(lexical error at f:1:2:) zero=true`,
		}},
	}

	for _, tc := range tests {
		t.Run(fmt.Sprintf("%q", tc.src), func(t *testing.T) {
			got := demoScan(tc.src)
			if strings.Join(got, "\n") != strings.Join(tc.expected, "\n") {
				t.Errorf("scan of %q\n got: %s\nwant: %s", tc.src, strings.Join(got, " , "), strings.Join(tc.expected, " , "))
			}
		})
	}
}

// TestRefactorDemo_Input drives the in-memory reader directly through the inputBuffer interface.
func TestRefactorDemo_Input(t *testing.T) {
	var in inputBuffer = newTextInput("g", []byte("ab\né€\n\ncd\xffe"))

	var log []string
	next := func() {
		r, err := in.Next()
		log = append(log, fmt.Sprintf("next %q %v", r, err))
	}
	lexeme := func() {
		val, pos := in.Lexeme()
		log = append(log, fmt.Sprintf("lexeme %q %s/%d", val, pos, pos.Offset))
	}
	skip := func() {
		pos := in.Skip()
		log = append(log, fmt.Sprintf("skip %s/%d", pos, pos.Offset))
	}

	in.Retract() // Nothing is pending.
	lexeme()
	next()
	next()
	next()
	in.Retract()
	lexeme() // "ab"
	next()   // '\n'
	next()   // 'é'
	in.Retract()
	in.Retract()
	in.Retract() // Not before the beginning of the lexeme.
	skip()
	next() // '\n'
	next() // 'é'
	next() // '€'
	in.Retract()
	next()
	next() // '\n'
	lexeme()
	skip() // Nothing is pending.
	next() // '\n'
	next() // 'c'
	next() // 'd'
	next() // invalid
	next() // invalid again
	in.Retract()
	lexeme() // "\nc"
	next()   // 'd'
	skip()
	next() // invalid
	lexeme()

	expected := []string{
		`lexeme "" g:1:1/0`,
		`next 'a' <nil>`,
		`next 'b' <nil>`,
		`next '\n' <nil>`,
		`lexeme "ab" g:1:1/0`,
		`next '\n' <nil>`,
		`next 'é' <nil>`,
		`skip g:1:3/2`,
		`next '\n' <nil>`,
		`next 'é' <nil>`,
		`next '€' <nil>`,
		`next '€' <nil>`,
		`next '\n' <nil>`,
		`lexeme "\né€\n" g:1:3/2`,
		`skip g:3:1/6`,
		`next '\n' <nil>`,
		`next 'c' <nil>`,
		`next 'd' <nil>`,
		`next '\x00' g:4:3: invalid utf-8 character`,
		`next '\x00' g:4:3: invalid utf-8 character`,
		`lexeme "\nc" g:3:1/6`,
		`next 'd' <nil>`,
		`skip g:4:2/8`,
		`next '\x00' g:4:3: invalid utf-8 character`,
		`lexeme "" g:4:3/9`,
	}

	if strings.Join(log, "\n") != strings.Join(expected, "\n") {
		t.Errorf("got:\n%s\nwant:\n%s", strings.Join(log, "\n"), strings.Join(expected, "\n"))
	}

	// The end of the input is not latched.
	end := newTextInput("g", []byte("x"))
	for i := 0; i < 3; i++ {
		if r, err := end.Next(); r != 'x' || err != nil {
			t.Errorf("Next: got %q, %v", r, err)
		}

		if r, err := end.Next(); r != 0 || err != io.EOF {
			t.Errorf("Next at the end: got %q, %v", r, err)
		}

		end.Retract()
	}
}

// TestRefactorDemo_Protocol pins how the scanner drives the reader: which calls it makes, and how many.
func TestRefactorDemo_Protocol(t *testing.T) {
	pos := lexer.Position{Filename: "m", Offset: 7, Line: 2, Column: 3}
	boom := errors.New("boom")

	tests := []struct {
		name          string
		in            *mockInputBuffer
		expectedToken lexer.Token
		expectedError string
		expectedCalls [4]int // Next, Retract, Lexeme, Skip
	}{
		{
			name: "SkippedThenToken",
			in: &mockInputBuffer{
				// The mock does not replay a retracted character, so it is listed twice.
				NextMocks: []NextMock{
					{OutRune: ' '}, {OutRune: '/'}, {OutRune: '/'}, {OutRune: '/'}, {OutRune: '\n'}, {OutRune: '\n'}, {OutRune: 'a'}, {OutRune: 'a'}, {OutRune: ';'},
				},
				SkipMocks:   []SkipMock{{}, {}, {}},
				LexemeMocks: []LexemeMock{{OutVal: "a", OutPos: pos}},
			},
			expectedToken: lexer.Token{Terminal: IDENT, Lexeme: "a", Pos: pos},
			expectedCalls: [4]int{9, 4, 1, 3},
		},
		{
			name: "PendingLexemeAtEOF",
			in: &mockInputBuffer{
				NextMocks: []NextMock{{OutRune: '{'}, {OutRune: '{'}, {OutError: io.EOF}},
				SkipMocks: []SkipMock{{OutPos: pos}},
			},
			expectedToken: lexer.Token{Terminal: LLBRACE, Lexeme: "{{", Pos: pos},
			expectedCalls: [4]int{3, 0, 0, 1},
		},
		{
			name: "WrappedEOFWithPendingLexeme",
			in: &mockInputBuffer{
				NextMocks:   []NextMock{{OutRune: '"'}, {OutRune: 'a'}, {OutError: fmt.Errorf("wrapped: %w", io.EOF)}},
				LexemeMocks: []LexemeMock{{OutVal: `"a`, OutPos: pos}},
			},
			expectedError: `lexical error at m:2:3:"a`,
			expectedCalls: [4]int{3, 0, 1, 0},
		},
		{
			name: "OtherErrorWithPendingLexeme",
			in: &mockInputBuffer{
				NextMocks: []NextMock{{OutRune: 'a'}, {OutError: boom}},
			},
			expectedError: "boom",
			expectedCalls: [4]int{2, 0, 0, 0},
		},
		{
			name: "EOFAfterSkipped",
			in: &mockInputBuffer{
				NextMocks: []NextMock{{OutRune: '\n'}, {OutError: io.EOF}, {OutError: io.EOF}},
				SkipMocks: []SkipMock{{}},
			},
			expectedError: "EOF",
			expectedCalls: [4]int{3, 0, 0, 1},
		},
		{
			name: "STRINGStripsDelimiters",
			in: &mockInputBuffer{
				NextMocks:   []NextMock{{OutRune: '"'}, {OutRune: '\\'}, {OutRune: '"'}, {OutRune: '"'}, {OutRune: '"'}},
				LexemeMocks: []LexemeMock{{OutVal: `"\""`, OutPos: pos}},
			},
			expectedToken: lexer.Token{Terminal: STRING, Lexeme: `\"`, Pos: pos},
			expectedCalls: [4]int{5, 1, 1, 0},
		},
	}

	for _, tc := range tests {
		t.Run(tc.name, func(t *testing.T) {
			l := &Lexer{in: tc.in}
			token, err := l.NextToken()

			if token != tc.expectedToken {
				t.Errorf("token: got %v, want %v", token, tc.expectedToken)
			}

			if tc.expectedError == "" && err != nil || tc.expectedError != "" && (err == nil || err.Error() != tc.expectedError) {
				t.Errorf("error: got %v, want %q", err, tc.expectedError)
			}

			calls := [4]int{tc.in.NextIndex, tc.in.RetractIndex, tc.in.LexemeIndex, tc.in.SkipIndex}
			if calls != tc.expectedCalls {
				t.Errorf("calls (Next, Retract, Lexeme, Skip): got %v, want %v", calls, tc.expectedCalls)
			}
		})
	}
}

// TestRefactorDemo_Fixture checks every token of a real specification against the source text:
// the position is recomputed from the offset, and the lexeme has to be the text found there.
func TestRefactorDemo_Fixture(t *testing.T) {
	data, err := os.ReadFile("../fixture/please.grammar")
	if err != nil {
		t.Fatal(err)
	}

	// A second copy with CRLF line ends and a multi-line comment in front moves every position.
	for name, src := range map[string]string{
		"Original": string(data),
		"Shifted":  "/* header\r\n * more **/\r\n\t" + strings.ReplaceAll(string(data), "\n", "\r\n"),
	} {
		t.Run(name, func(t *testing.T) {
			runes := []rune(src)
			lex, err := New("please", strings.NewReader(src))
			if err != nil {
				t.Fatal(err)
			}

			count, last := 0, -1
			for {
				token, err := lex.NextToken()
				if err == io.EOF {
					break
				}

				if err != nil {
					t.Fatalf("unexpected error: %s", err)
				}

				count++
				off := token.Pos.Offset
				if off <= last || off >= len(runes) {
					t.Fatalf("token %v: offset out of order", token)
				}
				last = off

				line, column := 1, 1
				for _, r := range runes[:off] {
					if r == '\n' {
						line, column = line+1, 1
					} else {
						column++
					}
				}

				if token.Pos.Filename != "please" || token.Pos.Line != line || token.Pos.Column != column {
					t.Errorf("token %v: want position %d:%d", token, line, column)
				}

				text := token.Lexeme
				switch token.Terminal {
				case STRING:
					text = `"` + text + `"`
				case REGEX:
					text = "/" + text + "/"
				}

				if n := len([]rune(text)); n == 0 || off+n > len(runes) || string(runes[off:off+n]) != text {
					t.Errorf("token %v: the source has other text at offset %d", token, off)
				}
			}

			if count != demoFixtureTokens {
				t.Errorf("got %d tokens, want %d", count, demoFixtureTokens)
			}
		})
	}
}

// demoFixtureTokens is the number of tokens in the fixture.
const demoFixtureTokens = 429
