package nfa

import (
	"testing"

	auto "github.com/moorara/algo/automata"
	comb "github.com/moorara/algo/parser/combinator"
)

// This file characterizes how lists of NFA operands are combined (the empty list, a single operand, many operands)
// by concat, quantifyNFA, ToSubexpr, ToExpr, and, end to end, by Parse.
// Every expectation is a concrete value; the file passes on the code before and after the refactoring.

func demoSym(c rune) *auto.NFA {
	n := auto.NewNFA(0, []auto.State{1})
	n.Add(0, auto.Symbol(c), []auto.State{1})
	return n
}

func demoStr(s string) auto.String {
	out := auto.String{}
	for _, c := range s {
		out = append(out, auto.Symbol(c))
	}
	return out
}

func demoIntPtr(v int) *int {
	return &v
}

// demoWords is the probe set for comparing languages.
var demoWords = []string{
	"", "a", "b", "c", "aa", "ab", "ba", "bb", "abc", "aaa", "aab", "aba", "abab", "aaaa", "aaaaa", "aaaaaa", "abc$", "ac", "bc",
}

// demoLang returns the sub-set of demoWords accepted by an NFA.
func demoLang(n *auto.NFA) []string {
	accepted := []string{}
	for _, w := range demoWords {
		if n.Accept(demoStr(w)) {
			accepted = append(accepted, w)
		}
	}
	return accepted
}

func demoSameWords(a, b []string) bool {
	if len(a) != len(b) {
		return false
	}
	for i := range a {
		if a[i] != b[i] {
			return false
		}
	}
	return true
}

func demoCheck(t *testing.T, name string, got, want *auto.NFA, wantStates int, wantLang []string) {
	t.Helper()

	if got == nil {
		t.Fatalf("%s: got a nil NFA", name)
	}
	if want != nil && !got.Equal(want) {
		t.Errorf("%s: unexpected NFA:\n%s\nwant:\n%s", name, got, want)
	}
	if wantStates >= 0 && len(got.States()) != wantStates {
		t.Errorf("%s: got %d states, want %d", name, len(got.States()), wantStates)
	}
	if lang := demoLang(got); !demoSameWords(lang, wantLang) {
		t.Errorf("%s: accepted %q, want %q", name, lang, wantLang)
	}
}

func TestRefactorDemo_Concat(t *testing.T) {
	a, b, c := demoSym('a'), demoSym('b'), demoSym('c')

	eps := auto.NewNFA(0, []auto.State{1})
	eps.Add(0, auto.E, []auto.State{1})

	ab := auto.NewNFA(0, []auto.State{2})
	ab.Add(0, 'a', []auto.State{1})
	ab.Add(1, 'b', []auto.State{2})

	abc := auto.NewNFA(0, []auto.State{3})
	abc.Add(0, 'a', []auto.State{1})
	abc.Add(1, 'b', []auto.State{2})
	abc.Add(2, 'c', []auto.State{3})

	demoCheck(t, "empty()", empty(), eps, 2, []string{""})
	demoCheck(t, "concat()", concat(), eps, 2, []string{""})
	demoCheck(t, "concat(nil...)", concat([]*auto.NFA(nil)...), eps, 2, []string{""})
	demoCheck(t, "concat([]...)", concat([]*auto.NFA{}...), eps, 2, []string{""})
	demoCheck(t, "concat(a)", concat(a), a, 2, []string{"a"})
	demoCheck(t, "concat(a,b)", concat(a, b), ab, 3, []string{"ab"})
	demoCheck(t, "concat(a,b,c)", concat(a, b, c), abc, 4, []string{"abc"})
	demoCheck(t, "concat(a,a)", concat(a, a), nil, 3, []string{"aa"})
	demoCheck(t, "concat(empty,a)", concat(empty(), a), nil, 3, []string{"a"})

	// The operands are left untouched and the single operand is not handed back itself.
	if single := concat(a); single == a {
		t.Errorf("concat(a) returned its operand")
	}
	if !a.Equal(demoSym('a')) || !b.Equal(demoSym('b')) || !c.Equal(demoSym('c')) {
		t.Errorf("concat modified its operands")
	}
}

func TestRefactorDemo_QuantifyNFA(t *testing.T) {
	a := demoSym('a')
	ab := demoSym('a').Concat(demoSym('b'))
	opt := func(n *auto.NFA) *auto.NFA { return empty().Union(n) }

	tests := []struct {
		name       string
		n          *auto.NFA
		q          any
		want       *auto.NFA
		wantStates int
		wantLang   []string
	}{
		{"a?", a, '?', opt(a), 6, []string{"", "a"}},
		{"a*", a, '*', a.Star(), 4, []string{"", "a", "aa", "aaa", "aaaa", "aaaaa", "aaaaaa"}},
		{"a+", a, '+', a.Concat(a.Star()), 5, []string{"a", "aa", "aaa", "aaaa", "aaaaa", "aaaaaa"}},
		{"(ab)?", ab, '?', opt(ab), 7, []string{"", "ab"}},
		{"(ab)*", ab, '*', ab.Star(), 5, []string{"", "ab", "abab"}},
		{"(ab)+", ab, '+', ab.Concat(ab.Star()), 7, []string{"ab", "abab"}},
		{"a{0}", a, tuple[int, *int]{0, demoIntPtr(0)}, empty(), 2, []string{""}},
		{"a{1}", a, tuple[int, *int]{1, demoIntPtr(1)}, a, 2, []string{"a"}},
		{"a{2}", a, tuple[int, *int]{2, demoIntPtr(2)}, a.Concat(a), 3, []string{"aa"}},
		{"a{0,}", a, tuple[int, *int]{0, nil}, a.Star().Concat(), 4, []string{"", "a", "aa", "aaa", "aaaa", "aaaaa", "aaaaaa"}},
		{"a{1,}", a, tuple[int, *int]{1, nil}, a.Concat(a.Star()), 5, []string{"a", "aa", "aaa", "aaaa", "aaaaa", "aaaaaa"}},
		{"a{3,}", a, tuple[int, *int]{3, nil}, a.Concat(a, a, a.Star()), 7, []string{"aaa", "aaaa", "aaaaa", "aaaaaa"}},
		{"a{0,1}", a, tuple[int, *int]{0, demoIntPtr(1)}, opt(a).Concat(), 6, []string{"", "a"}},
		{"a{0,2}", a, tuple[int, *int]{0, demoIntPtr(2)}, opt(a).Concat(opt(a)), 11, []string{"", "a", "aa"}},
		{"a{1,3}", a, tuple[int, *int]{1, demoIntPtr(3)}, a.Concat(opt(a), opt(a)), 12, []string{"a", "aa", "aaa"}},
		{"a{2,5}", a, tuple[int, *int]{2, demoIntPtr(5)}, a.Concat(a, opt(a), opt(a), opt(a)), 18, []string{"aa", "aaa", "aaaa", "aaaaa"}},
		{"(ab){1,2}", ab, tuple[int, *int]{1, demoIntPtr(2)}, ab.Concat(opt(ab)), 9, []string{"ab", "abab"}},
		// An invalid range is reported by ToRange; the NFA is still built from the lower bound alone.
		{"a{3,1}", a, tuple[int, *int]{3, demoIntPtr(1)}, a.Concat(a, a), 4, []string{"aaa"}},
		{"a{1,0}", a, tuple[int, *int]{1, demoIntPtr(0)}, a, 2, []string{"a"}},
		// Bounds that the parser never produces do not build anything either.
		{"a{-2,-2}", a, tuple[int, *int]{-2, demoIntPtr(-2)}, empty(), 2, []string{""}},
		{"a{-1,1}", a, tuple[int, *int]{-1, demoIntPtr(1)}, opt(a).Concat(opt(a)), 11, []string{"", "a", "aa"}},
	}

	for _, tc := range tests {
		demoCheck(t, tc.name, quantifyNFA(tc.n, tc.q), tc.want, tc.wantStates, tc.wantLang)
	}

	// Unknown quantifiers yield no NFA.
	for _, q := range []any{'!', 'x', rune(0), nil, 7, "*", tuple[any, bool]{'*', false}, &tuple[int, *int]{1, nil}} {
		if got := quantifyNFA(a, q); got != nil {
			t.Errorf("quantifyNFA(a, %#v): got %s, want nil", q, got)
		}
	}

	if !a.Equal(demoSym('a')) {
		t.Errorf("quantifyNFA modified its operand")
	}
}

func TestRefactorDemo_ToSubexpr(t *testing.T) {
	a, b, c := demoSym('a'), demoSym('b'), demoSym('c')

	tests := []struct {
		name       string
		items      comb.List
		want       *auto.NFA
		wantStates int
		wantLang   []string
	}{
		{"nil list", nil, empty(), 2, []string{""}},
		{"empty list", comb.List{}, empty(), 2, []string{""}},
		{"anchor only", comb.List{{Val: EndOfString, Pos: 0}}, empty(), 2, []string{""}},
		{"non-NFA values only", comb.List{{Val: 'a'}, {Val: comb.Empty{}}, {Val: nil}, {Val: (*auto.DFA)(nil)}}, empty(), 2, []string{""}},
		{"single", comb.List{{Val: a, Pos: 4}}, a, 2, []string{"a"}},
		{"single and anchor", comb.List{{Val: a, Pos: 4}, {Val: EndOfString, Pos: 5}}, a, 2, []string{"a"}},
		{"anchor in the middle", comb.List{{Val: a}, {Val: EndOfString}, {Val: b}}, a.Concat(b), 3, []string{"ab"}},
		{"three", comb.List{{Val: a}, {Val: b}, {Val: c}}, a.Concat(b, c), 4, []string{"abc"}},
		{"order is kept", comb.List{{Val: b}, {Val: a}}, b.Concat(a), 3, []string{"ba"}},
	}

	for _, tc := range tests {
		m := new(mappers)
		res, ok := m.ToSubexpr(comb.Result{Val: tc.items, Pos: 9})

		if !ok || res.Pos != 9 || res.Bag != nil || m.errors != nil {
			t.Errorf("%s: got ok=%t pos=%d bag=%v errors=%v", tc.name, ok, res.Pos, res.Bag, m.errors)
		}

		got, isNFA := res.Val.(*auto.NFA)
		if !isNFA {
			t.Fatalf("%s: got a %T", tc.name, res.Val)
		}

		demoCheck(t, tc.name, got, tc.want, tc.wantStates, tc.wantLang)
	}
}

func TestRefactorDemo_ToExpr(t *testing.T) {
	a, b := demoSym('a'), demoSym('b')
	ab := a.Concat(b)

	// Without an alternative the very same NFA is passed up.
	for _, second := range []comb.Result{{Val: comb.Empty{}}, {Val: nil}, {Val: '|'}, {}} {
		m := new(mappers)
		res, ok := m.ToExpr(comb.Result{Val: comb.List{{Val: ab, Pos: 3}, second}, Pos: 1})

		if !ok || res.Pos != 3 || res.Bag != nil || m.errors != nil {
			t.Errorf("no alternative: got ok=%t pos=%d bag=%v errors=%v", ok, res.Pos, res.Bag, m.errors)
		}
		if got, _ := res.Val.(*auto.NFA); got != ab {
			t.Errorf("no alternative: the sub-expression is not passed up as is")
		}
	}

	tests := []struct {
		name       string
		lhs, rhs   *auto.NFA
		wantStates int
		wantLang   []string
	}{
		{"a|b", a, b, 6, []string{"a", "b"}},
		{"ab|a", ab, a, 7, []string{"a", "ab"}},
		{"a|a", a, a, 6, []string{"a"}},
		{"a|empty", a, empty(), 6, []string{"", "a"}},
	}

	for _, tc := range tests {
		m := new(mappers)
		res, ok := m.ToExpr(comb.Result{
			Val: comb.List{
				{Val: tc.lhs, Pos: 5},
				{Val: comb.List{{Val: '|', Pos: 6}, {Val: tc.rhs, Pos: 7}}, Pos: 6},
			},
			Pos: 5,
		})

		if !ok || res.Pos != 5 || res.Bag != nil || m.errors != nil {
			t.Errorf("%s: got ok=%t pos=%d bag=%v errors=%v", tc.name, ok, res.Pos, res.Bag, m.errors)
		}

		got, _ := res.Val.(*auto.NFA)
		demoCheck(t, tc.name, got, tc.lhs.Union(tc.rhs), tc.wantStates, tc.wantLang)
	}
}

func TestRefactorDemo_Parse(t *testing.T) {
	valid := []struct {
		regex      string
		wantStates int
		wantLang   []string
	}{
		{`a`, 2, []string{"a"}},
		{`ab`, 3, []string{"ab"}},
		{`abc`, 4, []string{"abc"}},
		{`a$`, 2, []string{"a"}},
		// Only an anchor: the list of operands is empty
		{`$`, 2, []string{""}},
		{`^$`, 2, []string{""}},
		{`($)a`, 3, []string{"a"}},
		{`^a$`, 2, []string{"a"}},
		{`a?`, 6, []string{"", "a"}},
		{`a*`, 4, []string{"", "a", "aa", "aaa", "aaaa", "aaaaa", "aaaaaa"}},
		{`a+`, 5, []string{"a", "aa", "aaa", "aaaa", "aaaaa", "aaaaaa"}},
		{`a+?`, 5, []string{"a", "aa", "aaa", "aaaa", "aaaaa", "aaaaaa"}},
		{`a{0}`, 2, []string{""}},
		{`a{0}b`, 3, []string{"b"}},
		{`a{2}`, 3, []string{"aa"}},
		{`a{2,}`, 6, []string{"aa", "aaa", "aaaa", "aaaaa", "aaaaaa"}},
		{`a{0,}`, 4, []string{"", "a", "aa", "aaa", "aaaa", "aaaaa", "aaaaaa"}},
		{`a{0,2}`, 11, []string{"", "a", "aa"}},
		{`a{1,3}b?`, 17, []string{"a", "aa", "ab", "aaa", "aab"}},
		{`a|b`, 6, []string{"a", "b"}},
		{`a|b|c`, 10, []string{"a", "b", "c"}},
		{`ab|ba`, 8, []string{"ab", "ba"}},
		{`(a)`, 2, []string{"a"}},
		{`(a|b)c`, 7, []string{"ac", "bc"}},
		{`(ab)*`, 5, []string{"", "ab", "abab"}},
		{`(ab){1,2}`, 9, []string{"ab", "abab"}},
		{`(a|b){2}`, 11, []string{"aa", "ab", "ba", "bb"}},
		{`((a))`, 2, []string{"a"}},
		{`[ab]+c?`, 10, []string{"a", "b", "aa", "ab", "ba", "bb", "abc", "aaa", "aab", "aba", "abab", "aaaa", "aaaaa", "aaaaaa", "ac", "bc"}},
		{`abc\$`, 5, []string{"abc$"}},
	}

	for _, tc := range valid {
		n, err := Parse(tc.regex)
		if err != nil {
			t.Errorf("Parse(%q): unexpected error: %s", tc.regex, err)
			continue
		}

		demoCheck(t, tc.regex, n, nil, tc.wantStates, tc.wantLang)
	}

	invalid := []struct {
		regex     string
		wantError string
	}{
		{``, "invalid regular expression: "},
		{`^`, "invalid regular expression: ^"},
		{`(`, "invalid regular expression: ("},
		{`()`, "invalid regular expression: ()"},
		{`a|`, "invalid regular expression: a|"},
		{`|a`, "invalid regular expression: |a"},
		{`*`, "invalid regular expression: *"},
		{`a**`, "invalid regular expression: a**"},
		{`a{`, "invalid regular expression: a{"},
		{`a{,2}`, "invalid regular expression: a{,2}"},
		{`a{99999999999999999999}`, "invalid regular expression: a{99999999999999999999}"},
		{`a{3,1}`, "invalid repetition range {3,1}"},
		{`(a{2,1}|b{5,4})c`, "invalid repetition range {2,1}\ninvalid repetition range {5,4}"},
		{`[z-a]{2,0}`, "invalid character range z-a\ninvalid repetition range {2,0}"},
	}

	for _, tc := range invalid {
		n, err := Parse(tc.regex)
		if n != nil {
			t.Errorf("Parse(%q): got an NFA along with an error", tc.regex)
		}
		if err == nil {
			t.Errorf("Parse(%q): got no error, want %q", tc.regex, tc.wantError)
		} else if err.Error() != tc.wantError {
			t.Errorf("Parse(%q): got error %q, want %q", tc.regex, err, tc.wantError)
		}
	}
}
