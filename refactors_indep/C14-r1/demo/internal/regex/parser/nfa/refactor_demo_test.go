package nfa

import (
	"fmt"
	"reflect"
	"testing"
	"time"

	auto "github.com/moorara/algo/automata"
	comb "github.com/moorara/algo/parser/combinator"
)

// This is a characterization test for the refactoring of Parse, ToCharGroup, ToMatch, ToGroup and runesToNFA.
// It only refers to names that exist both before and after the refactoring, and it pins concrete results.
// Note that the symbol 0 is the empty string of the automata package, so the classes that contain NUL
// also accept the empty string and have one symbol less; this is pinned as it is.

func toString(s string) auto.String {
	var str auto.String
	for _, r := range s {
		str = append(str, auto.Symbol(r))
	}
	return str
}

// parseGuarded calls Parse and turns a panic or a hang into a test failure (property C14).
func parseGuarded(t *testing.T, regex string) (n *auto.NFA, err error) {
	t.Helper()

	type outcome struct {
		n        *auto.NFA
		err      error
		panicked any
	}

	ch := make(chan outcome, 1)
	go func() {
		var o outcome
		defer func() {
			o.panicked = recover()
			ch <- o
		}()
		o.n, o.err = Parse(regex)
	}()

	select {
	case o := <-ch:
		if o.panicked != nil {
			t.Fatalf("Parse(%q) panicked: %v", regex, o.panicked)
		}
		return o.n, o.err
	case <-time.After(20 * time.Second):
		t.Fatalf("Parse(%q) did not terminate", regex)
		return nil, nil
	}
}

func TestRefactorDemo_Parse(t *testing.T) {
	tests := []struct {
		regex   string
		err     string // expected error text, or "" for success
		states  int    // expected number of NFA states
		symbols int    // expected number of NFA symbols
		accept  []string
		reject  []string
	}{
		// Syntax errors
		{regex: "", err: "invalid regular expression: "},
		{regex: "[", err: "invalid regular expression: ["},
		{regex: "]", err: "invalid regular expression: ]"},
		{regex: "(", err: "invalid regular expression: ("},
		{regex: ")", err: "invalid regular expression: )"},
		{regex: "()", err: "invalid regular expression: ()"},
		{regex: "a|", err: "invalid regular expression: a|"},
		{regex: "|a", err: "invalid regular expression: |a"},
		{regex: "a**", err: "invalid regular expression: a**"},
		{regex: "*", err: "invalid regular expression: *"},
		{regex: "+", err: "invalid regular expression: +"},
		{regex: "?", err: "invalid regular expression: ?"},
		{regex: "^", err: "invalid regular expression: ^"},
		{regex: "\\", err: "invalid regular expression: \\"},
		{regex: "\\q", err: "invalid regular expression: \\q"},
		{regex: "a{", err: "invalid regular expression: a{"},
		{regex: "a{}", err: "invalid regular expression: a{}"},
		{regex: "a{x}", err: "invalid regular expression: a{x}"},
		{regex: "a{,2}", err: "invalid regular expression: a{,2}"},
		{regex: "a{2}{3}", err: "invalid regular expression: a{2}{3}"},
		{regex: "((a)", err: "invalid regular expression: ((a)"},
		{regex: "a)", err: "invalid regular expression: a)"},
		{regex: "[]", err: "invalid regular expression: []"},
		{regex: "[^]", err: "invalid regular expression: [^]"},
		{regex: "[a-]", err: "invalid regular expression: [a-]"},
		{regex: "\\p{Xx}", err: "invalid regular expression: \\p{Xx}"},

		// Characters that the pattern syntax does not accept
		{regex: "é", err: "invalid regular expression: é"},
		{regex: "[é]", err: "invalid regular expression: [é]"},
		{regex: "[^é]", err: "invalid regular expression: [^é]"},
		{regex: "[a-é]", err: "invalid regular expression: [a-é]"},
		{regex: "\x00", err: "invalid regular expression: \x00"},
		{regex: "[\x00-\x7f]", err: "invalid regular expression: [\x00-\x7f]"},
		{regex: "[\U0010FFFF]", err: "invalid regular expression: [\U0010FFFF]"},
		{regex: "\xff", err: "invalid regular expression: \xff"},
		{regex: "a\xffb", err: "invalid regular expression: a\xffb"},
		{regex: "[\xff]", err: "invalid regular expression: [\xff]"},
		{regex: "[é][9-0]a{3,1}", err: "invalid regular expression: [é][9-0]a{3,1}"},

		// Semantic errors reported by the mappers
		{regex: "[c-a]", err: "invalid character range c-a"},
		{regex: "a{3,2}", err: "invalid repetition range {3,2}"},
		{regex: "[9-0]{4,2}", err: "invalid character range 9-0\ninvalid repetition range {4,2}"},
		{regex: "[\\p{Greek}]", err: "unsupported non-ASCII character in character group"},
		{regex: "[^\\p{Han}]", err: "unsupported non-ASCII character in character group"},
		{regex: "[a\\p{Latin}]", err: "unsupported non-ASCII character in character group"},
		{regex: "[\\P{Greek}]?x", states: 7, symbols: 127, accept: []string{"x", "ax", "\x00x", "\x7fx"}, reject: []string{"", "a", "αx"}},
		{regex: "[\\p{Greek}][z-a]", err: "unsupported non-ASCII character in character group\ninvalid character range z-a"},
		{regex: "[\\p{Math}]|[\\p{Emoji}]", err: "unsupported non-ASCII character in character group\nunsupported non-ASCII character in character group"},

		// Successes
		{regex: "a", states: 2, symbols: 1, accept: []string{"a"}, reject: []string{"", "b", "aa"}},
		{regex: "ab|cd", states: 8, symbols: 4, accept: []string{"ab", "cd"}, reject: []string{"", "a", "abcd", "ad"}},
		{regex: "a?", states: 6, symbols: 1, accept: []string{"", "a"}, reject: []string{"aa", "b"}},
		{regex: "a+?", states: 5, symbols: 1, accept: []string{"a", "aaa"}, reject: []string{"", "b"}},
		{regex: "a*?", states: 4, symbols: 1, accept: []string{"", "a", "aaaa"}, reject: []string{"b", "ab"}},
		{regex: "(ab)+?", states: 7, symbols: 2, accept: []string{"ab", "abab"}, reject: []string{"", "a", "aba"}},
		{regex: "(ab){2}", states: 5, symbols: 2, accept: []string{"abab"}, reject: []string{"", "ab", "ababab"}},
		{regex: "(a|b)*c", states: 9, symbols: 3, accept: []string{"c", "abbac"}, reject: []string{"", "ab", "cc"}},
		{regex: "[abc]", states: 2, symbols: 3, accept: []string{"a", "b", "c"}, reject: []string{"", "d", "ab"}},
		{regex: "[^abc]", states: 2, symbols: 124, accept: []string{"d", "\x00", "\x7f", " ", ""}, reject: []string{"a", "b", "c", "é", "\u0080"}},
		{regex: "[a-c]", states: 2, symbols: 3, accept: []string{"a", "b", "c"}, reject: []string{"", "d", "`"}},
		{regex: "[-a]", states: 2, symbols: 2, accept: []string{"-", "a"}, reject: []string{"", "b"}},
		{regex: "[\\]]", states: 2, symbols: 1, accept: []string{"]"}, reject: []string{"", "\\"}},
		{regex: "[a\\-z]", states: 2, symbols: 31, accept: []string{"a", "\\", "z", "b"}, reject: []string{"", "-", "["}},
		{regex: "[\\d]", states: 2, symbols: 10, accept: []string{"0", "9"}, reject: []string{"", "a", "10"}},
		{regex: "[^\\w]", states: 2, symbols: 64, accept: []string{" ", "-", "\x00", "\x7f", ""}, reject: []string{"a", "Z", "0", "_"}},
		{regex: "[[:alpha:]_]", states: 2, symbols: 53, accept: []string{"a", "Z", "_"}, reject: []string{"", "0", "-"}},
		{regex: "[^[:space:]]", states: 2, symbols: 121, accept: []string{"a", "\x00", ""}, reject: []string{" ", "\t", "\v"}},
		{regex: "[a-c]{2}|x", states: 7, symbols: 4, accept: []string{"x", "ab", "cc"}, reject: []string{"", "a", "xx", "abc"}},
		{regex: "\\s+", states: 5, symbols: 5, accept: []string{" ", " \t\n"}, reject: []string{"", "a", "\v"}},
		{regex: "\\S", states: 2, symbols: 122, accept: []string{"a", "\v", "\x00", ""}, reject: []string{" ", "\f"}},
		{regex: "\\D\\W", states: 3, symbols: 117, accept: []string{"a-", "  ", "\x00\x7f", "", "a"}, reject: []string{"1", "1-", "aa"}},
		{regex: "\\p{Lu}", states: 2, symbols: 26, accept: []string{"A", "Z"}, reject: []string{"", "a", "É"}},
		{regex: "\\P{Lu}", states: 2, symbols: 101, accept: []string{"a", "0", "\x00", ""}, reject: []string{"A", "é"}},
		{regex: "\\p{Greek}", states: 2, symbols: 400, accept: []string{"α", "Ω"}, reject: []string{"", "a"}},
		{regex: ".", states: 2, symbols: 127, accept: []string{"a", "\x00", "\x7f", "\n", ""}, reject: []string{"é", "ab"}},
		{regex: ".*x", states: 5, symbols: 127, accept: []string{"x", "abcx", "xx"}, reject: []string{"", "a", "xa"}},
		{regex: "^a$", states: 2, symbols: 1, accept: []string{"a"}, reject: []string{"", "aa"}},
		{regex: "$", states: 2, symbols: 0, accept: []string{""}, reject: []string{"a", "$"}},
		{regex: "a$b", states: 3, symbols: 2, accept: []string{"ab"}, reject: []string{"", "a", "a$b"}},
		{regex: "\\.", states: 2, symbols: 1, accept: []string{"."}, reject: []string{"", "a"}},
		{regex: "(((((a)))))", states: 2, symbols: 1, accept: []string{"a"}, reject: []string{"", "aa"}},
		{regex: "a{2}", states: 3, symbols: 1, accept: []string{"aa"}, reject: []string{"", "a", "aaa"}},
		{regex: "a{2,}", states: 6, symbols: 1, accept: []string{"aa", "aaaaa"}, reject: []string{"", "a"}},
		{regex: "a{2,3}", states: 8, symbols: 1, accept: []string{"aa", "aaa"}, reject: []string{"", "a", "aaaa"}},
		{regex: "a{1,2}?", states: 7, symbols: 1, accept: []string{"a", "aa"}, reject: []string{"", "aaa"}},
		{regex: "a{0}", states: 2, symbols: 0, accept: []string{""}, reject: []string{"a"}},
		{regex: "a{0,0}", states: 2, symbols: 0, accept: []string{""}, reject: []string{"a"}},
		{regex: "(a{2,}b?)+", states: 23, symbols: 2, accept: []string{"aa", "aab", "aabaaa"}, reject: []string{"", "a", "ab", "aabb"}},
		{regex: `^[A-Z]?[a-z][0-9A-Za-z]{1,}$`, states: 11, symbols: 62, accept: []string{"Ab1", "zz", "aZ09"}, reject: []string{"", "A", "a", "AB", "a_"}},
	}

	for _, tc := range tests {
		t.Run(fmt.Sprintf("%q", tc.regex), func(t *testing.T) {
			n, err := parseGuarded(t, tc.regex)

			if tc.err != "" {
				if n != nil {
					t.Errorf("expected a nil NFA together with an error, got %v", n)
				}
				if err == nil || err.Error() != tc.err {
					t.Fatalf("expected error %q, got %v", tc.err, err)
				}
				return
			}

			if err != nil {
				t.Fatalf("unexpected error: %v", err)
			}
			if n == nil {
				t.Fatalf("success with a nil NFA")
			}
			if got := len(n.States()); got != tc.states {
				t.Errorf("states: expected %d, got %d", tc.states, got)
			}
			if got := len(n.Symbols()); got != tc.symbols {
				t.Errorf("symbols: expected %d, got %d", tc.symbols, got)
			}
			for _, s := range tc.accept {
				if !n.Accept(toString(s)) {
					t.Errorf("expected %q to be accepted", s)
				}
			}
			for _, s := range tc.reject {
				if n.Accept(toString(s)) {
					t.Errorf("expected %q to be rejected", s)
				}
			}
		})
	}
}

// groupResult builds the input of the ToCharGroup mapper: "[" "^"? items "]".
func groupResult(neg bool, items comb.List) comb.Result {
	negRes := comb.Result{Val: comb.Empty{}}
	if neg {
		negRes = comb.Result{Val: '^', Pos: 1}
	}

	return comb.Result{
		Val: comb.List{
			{Val: '[', Pos: 0},
			negRes,
			{Val: items, Pos: 2},
			{Val: ']', Pos: 9},
		},
		Pos: 0,
	}
}

func asciiNFA(include func(rune) bool) *auto.NFA {
	n := auto.NewNFA(0, []auto.State{1})
	for r := rune(0); r <= 0x7F; r++ {
		if include(r) {
			n.Add(0, auto.Symbol(r), []auto.State{1})
		}
	}
	return n
}

func TestRefactorDemo_ToCharGroup(t *testing.T) {
	const nonASCII = "unsupported non-ASCII character in character group"

	in := func(set ...rune) func(rune) bool {
		return func(r rune) bool {
			for _, v := range set {
				if v == r {
					return true
				}
			}
			return false
		}
	}
	notIn := func(set ...rune) func(rune) bool {
		f := in(set...)
		return func(r rune) bool { return !f(r) }
	}

	tests := []struct {
		name     string
		neg      bool
		items    comb.List
		priorErr error
		err      string
		nfa      *auto.NFA
	}{
		{name: "NoItems", items: comb.List{}, nfa: asciiNFA(in())},
		{name: "NoItems_Negated", neg: true, items: comb.List{}, nfa: asciiNFA(notIn())},
		{name: "NilItems", items: nil, nfa: asciiNFA(in())},
		{
			name:  "NilBag_And_WrongBagTypes",
			items: comb.List{{Val: 'a'}, {Val: 'b', Bag: comb.Bag{bagKeyChars: "b"}}, {Val: 'c', Bag: comb.Bag{bagKeyLazyQuantifier: true}}, {Val: 'd', Bag: comb.Bag{bagKeyChars: []rune{'d'}}}},
			nfa:   asciiNFA(in('d')),
		},
		{
			name:  "Boundaries",
			items: comb.List{{Bag: comb.Bag{bagKeyChars: []rune{0, 0x7F}}}, {Bag: comb.Bag{bagKeyChars: []rune{'m', 'm'}}}},
			nfa:   asciiNFA(in(0, 0x7F, 'm')),
		},
		{
			name:  "Boundaries_Negated",
			neg:   true,
			items: comb.List{{Bag: comb.Bag{bagKeyChars: []rune{0, 0x7F}}}, {Bag: comb.Bag{bagKeyChars: []rune{'m'}}}},
			nfa:   asciiNFA(notIn(0, 0x7F, 'm')),
		},
		{
			name:  "JustOutside",
			items: comb.List{{Bag: comb.Bag{bagKeyChars: []rune{'a', 0x80, 'b'}}}, {Bag: comb.Bag{bagKeyChars: []rune{'c'}}}},
			err:   nonASCII,
			nfa:   asciiNFA(in('a', 'b', 'c')),
		},
		{
			name:  "Negative_And_Huge",
			items: comb.List{{Bag: comb.Bag{bagKeyChars: []rune{-1, -0x80000000}}}, {Bag: comb.Bag{bagKeyChars: []rune{0x10FFFF, 0x7FFFFFFF, 'z'}}}},
			err:   nonASCII,
			nfa:   asciiNFA(in('z')),
		},
		{
			name:  "Outside_Negated",
			neg:   true,
			items: comb.List{{Bag: comb.Bag{bagKeyChars: []rune{'é', 'a'}}}, {Bag: comb.Bag{bagKeyChars: []rune{-5}}}},
			err:   nonASCII,
			nfa:   asciiNFA(notIn('a')),
		},
		{
			name:     "Outside_ErrorIsJoined",
			items:    comb.List{{Bag: comb.Bag{bagKeyChars: []rune{0x3B1}}}},
			priorErr: fmt.Errorf("invalid character range z-a"),
			err:      "invalid character range z-a\n" + nonASCII,
			nfa:      asciiNFA(in()),
		},
		{
			name:     "Inside_PriorErrorIsKept",
			items:    comb.List{{Bag: comb.Bag{bagKeyChars: []rune{'q'}}}},
			priorErr: fmt.Errorf("invalid character range z-a"),
			err:      "invalid character range z-a",
			nfa:      asciiNFA(in('q')),
		},
	}

	for _, tc := range tests {
		t.Run(tc.name, func(t *testing.T) {
			m := &mappers{errors: tc.priorErr}
			res, ok := m.ToCharGroup(groupResult(tc.neg, tc.items))

			if !ok {
				t.Fatalf("expected ok")
			}
			if res.Pos != 0 || res.Bag != nil {
				t.Errorf("unexpected pos/bag: %d %v", res.Pos, res.Bag)
			}
			n, isNFA := res.Val.(*auto.NFA)
			if !isNFA || n == nil {
				t.Fatalf("expected a non-nil NFA, got %#v", res.Val)
			}
			if !n.Equal(tc.nfa) {
				t.Errorf("unexpected NFA:\n%s\nexpected:\n%s", n, tc.nfa)
			}

			switch {
			case tc.err == "" && m.errors != nil:
				t.Errorf("unexpected error: %v", m.errors)
			case tc.err != "" && (m.errors == nil || m.errors.Error() != tc.err):
				t.Errorf("expected error %q, got %v", tc.err, m.errors)
			}
		})
	}
}

func TestRefactorDemo_ToMatch_ToGroup(t *testing.T) {
	x := auto.NewNFA(0, []auto.State{1})
	x.Add(0, 'x', []auto.State{1})

	two, zero := 2, 0
	lazyBag := comb.Bag{bagKeyLazyQuantifier: true}

	tests := []struct {
		name       string
		quantifier comb.Result
		nfa        *auto.NFA // nil means a nil *auto.NFA is expected
		bag        comb.Bag
	}{
		{name: "Absent_Empty", quantifier: comb.Result{Val: comb.Empty{}}, nfa: x},
		{name: "Absent_Nil", quantifier: comb.Result{}, nfa: x},
		{name: "Absent_BareRune", quantifier: comb.Result{Val: '*'}, nfa: x},
		{name: "Absent_OtherTuple", quantifier: comb.Result{Val: tuple[int, *int]{p: 1, q: &two}}, nfa: x},
		{name: "Absent_BagIsIgnored", quantifier: comb.Result{Val: comb.Empty{}, Bag: lazyBag}, nfa: x},
		{name: "ZeroOrOne", quantifier: comb.Result{Val: tuple[any, bool]{p: '?'}}, nfa: empty().Union(x)},
		{name: "ZeroOrOne_Lazy", quantifier: comb.Result{Val: tuple[any, bool]{p: '?', q: true}}, nfa: empty().Union(x), bag: lazyBag},
		{name: "ZeroOrMany", quantifier: comb.Result{Val: tuple[any, bool]{p: '*'}}, nfa: x.Star()},
		{name: "ZeroOrMany_Lazy", quantifier: comb.Result{Val: tuple[any, bool]{p: '*', q: true}}, nfa: x.Star(), bag: lazyBag},
		{name: "OneOrMany", quantifier: comb.Result{Val: tuple[any, bool]{p: '+'}}, nfa: x.Concat(x.Star())},
		{name: "OneOrMany_Lazy", quantifier: comb.Result{Val: tuple[any, bool]{p: '+', q: true}}, nfa: x.Concat(x.Star()), bag: lazyBag},
		{name: "Range_Fixed", quantifier: comb.Result{Val: tuple[any, bool]{p: tuple[int, *int]{p: 2, q: &two}}}, nfa: x.Concat(x)},
		{name: "Range_Unbounded_Lazy", quantifier: comb.Result{Val: tuple[any, bool]{p: tuple[int, *int]{p: 2, q: nil}, q: true}}, nfa: x.Concat(x, x.Star()), bag: lazyBag},
		{name: "Range_Bounded", quantifier: comb.Result{Val: tuple[any, bool]{p: tuple[int, *int]{p: 0, q: &two}}}, nfa: empty().Union(x).Concat(empty().Union(x))},
		{name: "Range_Zero", quantifier: comb.Result{Val: tuple[any, bool]{p: tuple[int, *int]{p: 0, q: &zero}}}, nfa: empty()},
		{name: "Range_Inverted", quantifier: comb.Result{Val: tuple[any, bool]{p: tuple[int, *int]{p: 2, q: &zero}}}, nfa: x.Concat(x)},
		{name: "UnknownOperator", quantifier: comb.Result{Val: tuple[any, bool]{p: '!'}}, nfa: nil},
		{name: "UnknownOperator_Lazy", quantifier: comb.Result{Val: tuple[any, bool]{p: '!', q: true}}, nfa: nil, bag: lazyBag},
		{name: "UnknownKind_Lazy", quantifier: comb.Result{Val: tuple[any, bool]{p: "x", q: true}}, nfa: nil, bag: lazyBag},
		{name: "NilKind", quantifier: comb.Result{Val: tuple[any, bool]{}}, nfa: nil},
	}

	check := func(t *testing.T, m *mappers, res comb.Result, ok bool, pos int, nfa *auto.NFA, bag comb.Bag) {
		t.Helper()

		if !ok {
			t.Fatalf("expected ok")
		}
		if m.errors != nil {
			t.Errorf("unexpected error: %v", m.errors)
		}
		if res.Pos != pos {
			t.Errorf("expected pos %d, got %d", pos, res.Pos)
		}
		if !reflect.DeepEqual(res.Bag, bag) || (res.Bag == nil) != (bag == nil) {
			t.Errorf("expected bag %#v, got %#v", bag, res.Bag)
		}
		n, isNFA := res.Val.(*auto.NFA)
		if !isNFA {
			t.Fatalf("expected an *auto.NFA, got %#v", res.Val)
		}
		if nfa == nil {
			if n != nil {
				t.Errorf("expected a nil NFA, got %s", n)
			}
		} else if n == nil || !n.Equal(nfa) {
			t.Errorf("unexpected NFA:\n%s\nexpected:\n%s", n, nfa)
		}
	}

	for _, tc := range tests {
		t.Run("ToMatch/"+tc.name, func(t *testing.T) {
			m := new(mappers)
			res, ok := m.ToMatch(comb.Result{
				Val: comb.List{
					{Val: x, Pos: 4, Bag: comb.Bag{bagKeyChars: []rune{'x'}}},
					tc.quantifier,
				},
				Pos: 3,
			})
			check(t, m, res, ok, 4, tc.nfa, tc.bag)
		})

		t.Run("ToGroup/"+tc.name, func(t *testing.T) {
			m := new(mappers)
			res, ok := m.ToGroup(comb.Result{
				Val: comb.List{
					{Val: '(', Pos: 7},
					{Val: x, Pos: 8},
					{Val: ')', Pos: 9},
					tc.quantifier,
				},
				Pos: 6,
			})
			check(t, m, res, ok, 7, tc.nfa, tc.bag)
		})
	}
}

func TestRefactorDemo_runesToNFA(t *testing.T) {
	all := func() []rune {
		var rs []rune
		for r := rune(0); r <= 0x7F; r++ {
			rs = append(rs, r)
		}
		return rs
	}()

	without := func(set ...rune) []rune {
		rs := []rune{}
		for _, r := range all {
			keep := true
			for _, v := range set {
				keep = keep && v != r
			}
			if keep {
				rs = append(rs, r)
			}
		}
		return rs
	}

	tests := []struct {
		name  string
		neg   bool
		runes []rune
		chars []rune
	}{
		{name: "Plain_None", runes: nil, chars: []rune{}},
		{name: "Plain_KeepsOrderAndDuplicates", runes: []rune{'b', 'a', 'b', 'é'}, chars: []rune{'b', 'a', 'b', 'é'}},
		{name: "Negated_None", neg: true, runes: nil, chars: all},
		{name: "Negated_Some", neg: true, runes: []rune{'b', 0, 'b', 0x7F}, chars: without('b', 0, 0x7F)},
		{name: "Negated_OutsideIsIgnored", neg: true, runes: []rune{-1, 0x80, 'é', 'q'}, chars: without('q')},
		{name: "Negated_All", neg: true, runes: all, chars: []rune{}},
	}

	for _, tc := range tests {
		t.Run(tc.name, func(t *testing.T) {
			n, chars := runesToNFA(tc.neg, tc.runes...)

			if chars == nil || !reflect.DeepEqual(chars, tc.chars) {
				t.Errorf("expected chars %v, got %v", tc.chars, chars)
			}

			expected := auto.NewNFA(0, []auto.State{1})
			for _, r := range tc.chars {
				expected.Add(0, auto.Symbol(r), []auto.State{1})
			}
			if n == nil || !n.Equal(expected) {
				t.Errorf("unexpected NFA:\n%s", n)
			}
		})
	}
}
