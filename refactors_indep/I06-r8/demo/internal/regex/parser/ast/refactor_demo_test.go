package ast

import (
	"fmt"
	"reflect"
	"regexp"
	"testing"

	auto "github.com/moorara/algo/automata"

	"github.com/gardenbed/emerge/internal/regex/parser/nfa"
)

// This file characterizes quantifyNode and cloneNode (the expansion of x?, x*, x+, and x{n,m}):
//
//   - the exact shape of the expanded trees,
//   - the freshness of every copy (no node is shared between two copies or with the operand),
//   - the language of the DFA built directly from the expanded tree, which is compared with
//     the documented meaning of the pattern and with the NFA-based construction.

func demoInt(v int) *int {
	return &v
}

func demoOpt(n Node) Node {
	return &Alt{Exprs: []Node{&Empty{}, n}}
}

func demoChar(r rune) Node {
	return &Char{Val: r}
}

func TestRefactorDemo_QuantifyNode_Shape(t *testing.T) {
	a := func() Node { return &Char{Val: 'a', Pos: 7} }

	// (a|ε)b* with some attributes already computed: the copies must not carry them over.
	nested := func() Node {
		return &Concat{
			Exprs: []Node{
				&Alt{
					Exprs: []Node{&Char{Val: 'a', Pos: 1}, &Empty{}},
					comp:  &computed{nullable: true, firstPos: Poses{1}, lastPos: Poses{1}},
				},
				&Star{Expr: &Char{Val: 'b', Pos: 2}},
			},
			comp: &computed{nullable: true, firstPos: Poses{1, 2}, lastPos: Poses{1, 2}},
		}
	}

	nestedCopy := func() Node {
		return &Concat{
			Exprs: []Node{
				&Alt{Exprs: []Node{&Char{Val: 'a', Pos: 1}, &Empty{}}},
				&Star{Expr: &Char{Val: 'b', Pos: 2}},
			},
		}
	}

	tests := []struct {
		name     string
		n        Node
		q        any
		expected Node
	}{
		{"Char_ZeroOrOne", a(), '?', demoOpt(a())},
		{"Char_ZeroOrMore", a(), '*', &Star{Expr: a()}},
		{"Char_OneOrMore", a(), '+', &Concat{Exprs: []Node{a(), &Star{Expr: a()}}}},
		{"Empty_ZeroOrOne", &Empty{}, '?', demoOpt(&Empty{})},
		{"Empty_ZeroOrMore", &Empty{}, '*', &Star{Expr: &Empty{}}},
		{"Empty_OneOrMore", &Empty{}, '+', &Concat{Exprs: []Node{&Empty{}, &Star{Expr: &Empty{}}}}},
		{"Nested_ZeroOrOne", nested(), '?', demoOpt(nestedCopy())},
		{"Nested_ZeroOrMore", nested(), '*', &Star{Expr: nestedCopy()}},
		{"Nested_OneOrMore", nested(), '+', &Concat{Exprs: []Node{nestedCopy(), &Star{Expr: nestedCopy()}}}},
		{"Char_Range_0_0", a(), tuple[int, *int]{0, demoInt(0)}, &Concat{}},
		{"Char_Range_0_1", a(), tuple[int, *int]{0, demoInt(1)}, &Concat{Exprs: []Node{demoOpt(a())}}},
		{"Char_Range_0_Unbounded", a(), tuple[int, *int]{0, nil}, &Concat{Exprs: []Node{&Star{Expr: a()}}}},
		{"Char_Range_1_1", a(), tuple[int, *int]{1, demoInt(1)}, &Concat{Exprs: []Node{a()}}},
		{"Char_Range_2_2", a(), tuple[int, *int]{2, demoInt(2)}, &Concat{Exprs: []Node{a(), a()}}},
		{"Char_Range_1_3", a(), tuple[int, *int]{1, demoInt(3)}, &Concat{Exprs: []Node{a(), demoOpt(a()), demoOpt(a())}}},
		{"Char_Range_2_Unbounded", a(), tuple[int, *int]{2, nil}, &Concat{Exprs: []Node{a(), a(), &Star{Expr: a()}}}},
		{"Char_Range_3_1_Invalid", a(), tuple[int, *int]{3, demoInt(1)}, &Concat{Exprs: []Node{a(), a(), a()}}},
		{"Char_Range_Negative", a(), tuple[int, *int]{-2, demoInt(1)}, &Concat{Exprs: []Node{demoOpt(a()), demoOpt(a()), demoOpt(a())}}},
		{"Nested_Range_1_2", nested(), tuple[int, *int]{1, demoInt(2)}, &Concat{Exprs: []Node{nestedCopy(), demoOpt(nestedCopy())}}},
		{"Nested_Range_1_Unbounded", nested(), tuple[int, *int]{1, nil}, &Concat{Exprs: []Node{nestedCopy(), &Star{Expr: nestedCopy()}}}},
		{"EmptyConcat_Range_2_2", &Concat{Exprs: []Node{}}, tuple[int, *int]{2, demoInt(2)}, &Concat{Exprs: []Node{&Concat{}, &Concat{}}}},
		{"EmptyAlt_ZeroOrMore", &Alt{Exprs: []Node{}}, '*', &Star{Expr: &Alt{}}},
	}

	for _, tc := range tests {
		t.Run(tc.name, func(t *testing.T) {
			before := fmt.Sprintf("%#v", demoDump(tc.n))
			got := quantifyNode(tc.n, tc.q)

			if !reflect.DeepEqual(tc.expected, got) {
				t.Fatalf("unexpected tree\nexpected: %s\n     got: %s", demoDump(tc.expected), demoDump(got))
			}

			// The operand itself is left untouched.
			if after := fmt.Sprintf("%#v", demoDump(tc.n)); before != after {
				t.Fatalf("the operand has been modified\nbefore: %s\n after: %s", before, after)
			}

			// Every node of the result is a fresh one.
			seen := map[Node]bool{}
			demoWalk(tc.n, func(n Node) { seen[n] = true })
			demoWalk(got, func(n Node) {
				if _, ok := n.(*Empty); ok {
					return // Pointers to zero-size values are not necessarily distinct.
				}

				if seen[n] {
					t.Fatalf("node %s is shared", demoDump(n))
				}
				seen[n] = true
			})
		})
	}
}

func TestRefactorDemo_QuantifyNode_Unknown(t *testing.T) {
	for i, q := range []any{'x', '{', rune(0), 3, "+", nil, tuple[any, bool]{'*', false}, tuple[int, int]{1, 2}, &tuple[int, *int]{1, nil}} {
		if got := quantifyNode(&Char{Val: 'a'}, q); got != nil {
			t.Errorf("case %d: expected a nil node, got %s", i, demoDump(got))
		}
	}
}

type demoNode struct{ Node }

func TestRefactorDemo_CloneNode(t *testing.T) {
	if got := cloneNode(nil); got != nil {
		t.Errorf("expected a nil node, got %s", demoDump(got))
	}

	if got := cloneNode(demoNode{}); got != nil {
		t.Errorf("expected a nil node, got %s", demoDump(got))
	}

	// An operand of an unknown type is copied to a nil operand.
	got := cloneNode(&Alt{Exprs: []Node{&Char{Val: 'a', Pos: 3}, demoNode{}, &Star{Expr: demoNode{}}}})
	expected := &Alt{Exprs: []Node{&Char{Val: 'a', Pos: 3}, nil, &Star{}}}
	if !reflect.DeepEqual(expected, got) {
		t.Errorf("unexpected tree: %#v", got)
	}

	// An empty list of operands is copied to a nil list.
	if c := cloneNode(&Concat{Exprs: []Node{}}).(*Concat); c.Exprs != nil || c.comp != nil {
		t.Errorf("unexpected copy of an empty concatenation: %#v", c)
	}

	if c := cloneNode(&Alt{Exprs: []Node{}, comp: &computed{}}).(*Alt); c.Exprs != nil || c.comp != nil {
		t.Errorf("unexpected copy of an empty alternation: %#v", c)
	}

	// A copy of a list does not share its backing array with the original list.
	src := &Concat{Exprs: append(make([]Node, 0, 8), demoChar('a'), demoChar('b'))}
	dst := cloneNode(src).(*Concat)
	dst.Exprs = append(dst.Exprs, demoChar('c'))
	src.Exprs = append(src.Exprs, demoChar('d'))
	if v := dst.Exprs[2].(*Char).Val; v != 'c' || len(dst.Exprs) != 3 {
		t.Errorf("the copy shares its operands with the original")
	}
}

func TestRefactorDemo_Languages(t *testing.T) {
	tests := []struct {
		regex    string
		accepted int // the number of strings over {a,b,c} of length 0..6 in the language
		nullable bool
	}{
		{`a?`, 2, true},
		{`a*`, 7, true},
		{`a+`, 6, false},
		{`a+?b`, 5, false},
		{`(a|b)*abb`, 15, false},
		{`(a?)*`, 7, true},
		{`(a*)+`, 7, true},
		{`(a*)*b`, 6, false},
		{`(a?b?)*c`, 63, false},
		{`a{0}`, 1, true},
		{`a{0}b`, 1, false},
		{`a{0,}`, 7, true},
		{`a{1}`, 1, false},
		{`a{3}`, 1, false},
		{`a{2,}`, 5, false},
		{`a{0,2}`, 3, true},
		{`a{2,4}b`, 3, false},
		{`(a*){2}`, 7, true},
		{`(a?){0}`, 1, true},
		{`(a?){3}`, 4, true},
		{`(a?b?){2,3}`, 33, true},
		{`(ab|c){0,2}`, 7, true},
		{`(ab|c){2,}`, 30, false},
		{`(a|b?){1,2}c`, 7, false},
		{`((ab)?c*){2}`, 28, true},
		{`(a+b?){0,2}`, 28, true},
		{`(a{1,2}){2}`, 3, false},
		{`(a{2}){1,3}`, 3, false},
		{`[ab]{2,3}`, 12, false},
		{`[ab]{0,2}c?`, 14, true},
		{`(a|bc)+`, 32, false},
		{`(a*b*){2}`, 98, true},
		{`(a?){2}(b*){1,2}c{0,1}`, 33, true},
		{`((a|b){2}){2}`, 16, false},
		{`((a?){2}){2,}`, 7, true},
	}

	// All the strings over {a,b,c} of length 0..6
	inputs := []string{""}
	for i, n := 0, 0; n < 6; n++ {
		for last := len(inputs); i < last; i++ {
			for _, c := range "abc" {
				inputs = append(inputs, inputs[i]+string(c))
			}
		}
	}

	if len(inputs) != 1093 {
		t.Fatalf("unexpected number of inputs: %d", len(inputs))
	}

	for _, tc := range tests {
		t.Run(tc.regex, func(t *testing.T) {
			a, err := Parse(tc.regex)
			if err != nil {
				t.Fatalf("unexpected error: %s", err)
			}

			// The node under the end-marker is the expression itself.
			if got := a.Root.(*Concat).Exprs[0].nullable(); got != tc.nullable {
				t.Errorf("nullable: expected %t, got %t", tc.nullable, got)
			}

			direct := a.ToDFA()

			n, err := nfa.Parse(tc.regex)
			if err != nil {
				t.Fatalf("unexpected error: %s", err)
			}

			viaNFA := n.ToDFA()
			documented := regexp.MustCompile(`^(?:` + tc.regex + `)$`)

			accepted := 0
			for _, in := range inputs {
				s := auto.String{}
				for _, c := range in {
					s = append(s, auto.Symbol(c))
				}

				want := documented.MatchString(in)
				if want {
					accepted++
				}

				if got := direct.Accept(s); got != want {
					t.Errorf("direct construction on %q: expected %t, got %t", in, want, got)
				}

				if got := viaNFA.Accept(s); got != want {
					t.Errorf("NFA-based construction on %q: expected %t, got %t", in, want, got)
				}
			}

			if accepted != tc.accepted {
				t.Errorf("expected %d accepted strings, got %d", tc.accepted, accepted)
			}
		})
	}
}

// Every Char of a parsed pattern gets its own position, which requires every copy of a repeated operand to be fresh.
func TestRefactorDemo_Positions(t *testing.T) {
	tests := []struct {
		regex string
		chars string // the characters in the order of their positions, without the end-marker
	}{
		{`a?`, "a"},
		{`a*`, "a"},
		{`a+`, "aa"},
		{`(ab)+c`, "ababc"},
		{`a{0}`, ""},
		{`a{3}`, "aaa"},
		{`a{2,}`, "aaa"},
		{`a{1,3}`, "aaa"},
		{`(ab|c){2,3}`, "abcabcabc"},
		{`((ab)?c*){2}`, "abcabc"},
		{`(a{1,2}b){2}`, "aabaab"},
		{`(a+){2}`, "aaaa"},
	}

	for _, tc := range tests {
		t.Run(tc.regex, func(t *testing.T) {
			a, err := Parse(tc.regex)
			if err != nil {
				t.Fatalf("unexpected error: %s", err)
			}

			var chars []rune
			demoWalk(a.Root, func(n Node) {
				if c, ok := n.(*Char); ok {
					if int(c.Pos) != len(chars)+1 {
						t.Errorf("expected position %d, got %d", len(chars)+1, c.Pos)
					}
					chars = append(chars, c.Val)
				}
			})

			if got, want := string(chars), tc.chars+string(endMarker); got != want {
				t.Errorf("expected characters %q, got %q", want, got)
			}

			if int(a.lastPos) != len(chars) || len(a.posToChar) != len(chars) {
				t.Errorf("unexpected index: lastPos=%d, posToChar=%v", a.lastPos, a.posToChar)
			}
		})
	}
}

// demoWalk visits the nodes of a tree from left to right (a parent before its operands).
func demoWalk(n Node, visit func(Node)) {
	switch v := n.(type) {
	case *Concat:
		visit(v)
		for _, e := range v.Exprs {
			demoWalk(e, visit)
		}
	case *Alt:
		visit(v)
		for _, e := range v.Exprs {
			demoWalk(e, visit)
		}
	case *Star:
		visit(v)
		demoWalk(v.Expr, visit)
	case *Empty, *Char:
		visit(v)
	}
}

func demoDump(n Node) string {
	switch v := n.(type) {
	case nil:
		return "<nil>"
	case *Concat:
		s := fmt.Sprintf("Concat[nil=%t comp=%v](", v.Exprs == nil, v.comp)
		for _, e := range v.Exprs {
			s += demoDump(e) + " "
		}
		return s + ")"
	case *Alt:
		s := fmt.Sprintf("Alt[nil=%t comp=%v](", v.Exprs == nil, v.comp)
		for _, e := range v.Exprs {
			s += demoDump(e) + " "
		}
		return s + ")"
	case *Star:
		return "Star(" + demoDump(v.Expr) + ")"
	case *Empty:
		return "Empty"
	case *Char:
		return fmt.Sprintf("Char(%q@%d)", v.Val, v.Pos)
	default:
		return fmt.Sprintf("%T", n)
	}
}
